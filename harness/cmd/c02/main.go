package main

// C02 — spatial search returns exactly the objects satisfying the geometric predicate.
//
// (i)   rtreeValueDown/Up on IEEE bit patterns vs the Flocq model (ocaml/f32), plus direct oracles on
//       the Go functions (monotonicity x <= y => down x <= up y; enclosure in the float32 normal range).
// (ii)  in-package: random histories on a real Collection; Within/Intersects vs a scan applying the same
//       predicate (direct oracle), SPARSE subset / duplicate-free, geoSearch candidates vs
//       Model/Search.geo_search on the model's copy of the index (ocaml/coll).
// (iii) black-box: WITHIN|INTERSECTS key IDS <area> vs TEST GET key id WITHIN|INTERSECTS <area> for
//       every id, for BOUNDS / CIRCLE / OBJECT / TILE / QUADKEY / HASH / GET / SECTOR areas.

import (
	"fmt"
	"math"
	"math/rand"
	"os"
	"path/filepath"
	"sort"
	"strconv"
	"strings"
	"time"

	"github.com/tidwall/tile38/verifapi"
	"verifharness/internal/hx"
	"verifharness/internal/model"
	"verifharness/internal/srv"
)

func main() { hx.Main("C02", runC02) }

func bits(f float64) string { return strconv.FormatUint(math.Float64bits(f), 10) }
func b32(f float32) string {
	if f != f {
		return "-1"
	}
	return strconv.FormatUint(uint64(math.Float32bits(f)), 10)
}

// ---------------------------------------------------------------- (i) rounding

func roundingValues(rng *rand.Rand, nRandom int) []float64 {
	var v []float64
	add := func(x float64) {
		v = append(v, x, -x, math.Nextafter(x, math.Inf(1)), math.Nextafter(x, math.Inf(-1)),
			-math.Nextafter(x, math.Inf(1)), -math.Nextafter(x, math.Inf(-1)))
	}
	v = append(v, 0, math.Copysign(0, -1), math.Inf(1), math.Inf(-1), math.NaN(), math.MaxFloat64, -math.MaxFloat64,
		math.SmallestNonzeroFloat64, -math.SmallestNonzeroFloat64, math.MaxFloat32, -math.MaxFloat32,
		math.SmallestNonzeroFloat32, 100.000002, 100.000001, -99.999995, -100)
	// every binade of float64
	for e := -1074; e <= 1023; e++ {
		add(math.Ldexp(1, e))
	}
	// every binade of float32: the float32 value, its neighbours and the midpoints between them
	for e := -149; e <= 127; e++ {
		f := float32(math.Ldexp(1, e))
		for _, g := range []float32{f, math.Nextafter32(f, 2*f), math.Nextafter32(f, 0)} {
			add(float64(g))
			up := math.Nextafter32(g, float32(math.Inf(1)))
			add((float64(g) + float64(up)) / 2)
		}
	}
	add(float64(math.MaxFloat32) * (1 + 1.0/(1<<25)))
	add(float64(math.MaxFloat32) * (1 + 1.0/(1<<24)))
	add(math.Ldexp(1, 128))
	for i := 0; i < nRandom; i++ {
		switch i % 4 {
		case 0:
			v = append(v, math.Float64frombits(rng.Uint64()))
		case 1: // geographic range, many decimals
			v = append(v, (rng.Float64()*360-180)*[]float64{1, 1, 1e-3, 1e-6}[rng.Intn(4)])
		case 2: // a float32 value plus a tiny double offset
			f := float64(math.Float32frombits(rng.Uint32()))
			v = append(v, f*(1+float64(rng.Intn(9)-4)*math.Ldexp(1, -25-rng.Intn(28))))
		default: // around the float32 range limits
			v = append(v, math.Ldexp(rng.Float64()+1, []int{-150, -149, -127, -126, 127, 128}[rng.Intn(6)])*float64(1-2*rng.Intn(2)))
		}
	}
	return v
}

func rounding(r *hx.Result, cfg hx.Config, rng *rand.Rand) {
	drv, err := model.Start("f32")
	if err != nil {
		panic(err)
	}
	defer drv.Close()
	n := 12000
	if cfg.Tier == "thorough" || cfg.Search {
		n = 1000000
	}
	vals := roundingValues(rng, n)
	const batch = 200
	for i := 0; i < len(vals); i += batch {
		chunk := vals[i:min(i+batch, len(vals))]
		req := []string{"both"}
		for _, x := range chunk {
			req = append(req, bits(x))
		}
		rep := strings.Fields(drv.Ask(req...))
		for j, x := range chunk {
			d, u := verifapi.RtreeValueDown(x), verifapi.RtreeValueUp(x)
			impl := b32(d) + ":" + b32(u)
			nontrivial := float64(d) != x || float64(u) != x
			r.Count("round/"+bits(x), nontrivial)
			switch {
			case x != x:
				r.Dist("round:nan")
			case math.IsInf(x, 0):
				r.Dist("round:inf")
			case x == 0:
				r.Dist("round:zero")
			case math.Abs(x) < math.SmallestNonzeroFloat32:
				r.Dist("round:below-f32-range")
			case math.Abs(x) < 0x1p-126:
				r.Dist("round:f32-subnormal-range")
			case math.Abs(x) > math.MaxFloat32:
				r.Dist("round:above-f32-range")
			default:
				r.Dist("round:f32-normal-range")
			}
			if j >= len(rep) || rep[j] != impl {
				m := "?"
				if j < len(rep) {
					m = rep[j]
				}
				r.Fail(hx.Failure{Kind: "correspondence", Signature: "f32-model", What: "rtreeValueDown/Up differ from Model.Float32.down/up (float32 bit patterns down:up)",
					Case: map[string]interface{}{"float64_bits": bits(x), "value": fmt.Sprint(x)}, Impl: impl, Model: m})
			}
			// enclosure in the float32 normal range (the anchor's "outward rounding"): oracle on the Go code
			// (range of theorem c02_enclosure_normal_range: |x| >= 2^-126 and float32(x) finite)
			if ax := math.Abs(x); ax >= 0x1p-126 && !math.IsInf(float64(float32(x)), 0) {
				if !(float64(d) <= x && x <= float64(u)) {
					r.Fail(hx.Failure{Kind: "oracle", Signature: "f32-enclosure-normal-range",
						What: fmt.Sprintf("rtreeValueDown(%v)=%v, rtreeValueUp=%v do not enclose the value although it is in the float32 normal range", x, d, u),
						Case: map[string]interface{}{"float64_bits": bits(x)}})
				}
			}
			if len(r.Samples) < 4 && nontrivial && x == x {
				r.Sample(4, map[string]interface{}{"x": fmt.Sprint(x), "down": fmt.Sprint(d), "up": fmt.Sprint(u)})
			}
		}
	}
	// monotonicity on the Go functions: sort the non-NaN samples, adjacent and random pairs
	var s []float64
	for _, x := range vals {
		if x == x {
			s = append(s, x)
		}
	}
	sort.Float64s(s)
	check := func(x, y float64) {
		if x <= y && !(verifapi.RtreeValueDown(x) <= verifapi.RtreeValueUp(y)) {
			r.Fail(hx.Failure{Kind: "oracle", Signature: "f32-monotone",
				What: fmt.Sprintf("x=%v <= y=%v but rtreeValueDown(x)=%v > rtreeValueUp(y)=%v: an overlapping pair of rectangles would be separated in the index",
					x, y, verifapi.RtreeValueDown(x), verifapi.RtreeValueUp(y)), Case: map[string]interface{}{"x_bits": bits(x), "y_bits": bits(y)}})
		}
	}
	for i := 1; i < len(s); i++ {
		check(s[i-1], s[i])
		check(s[i], s[i])
	}
	r.Dist("round:monotone-pairs")
}

// ---------------------------------------------------------------- geometry generators

var specialLat = []float64{90, -90, 0, 89.9999999, -89.9999999, 1e-7, -1e-7}
var specialLon = []float64{180, -180, 0, 179.9999999, -179.9999999, 1e-7, 100.000001, 100.000002}

func lat(rng *rand.Rand) float64 {
	switch rng.Intn(8) {
	case 0:
		return specialLat[rng.Intn(len(specialLat))]
	case 1:
		return math.Round((rng.Float64()*180-90)*1e6) / 1e6
	default:
		return float64(rng.Intn(81)-40) / 2
	}
}
func lon(rng *rand.Rand) float64 {
	switch rng.Intn(8) {
	case 0:
		return specialLon[rng.Intn(len(specialLon))]
	case 1:
		return math.Round((rng.Float64()*360-180)*1e6) / 1e6
	default:
		return float64(rng.Intn(81)-40) / 2
	}
}

// occasionally far outside the geographic range (tiny / huge magnitudes)
func wild(rng *rand.Rand) float64 {
	return []float64{1e-300, -1e-300, 1e-45, 1e10, -1e10, 3e38, 1e39, -1e39, 5e-324}[rng.Intn(9)]
}

func pt(rng *rand.Rand) string { return fmt.Sprintf("[%v,%v]", lon(rng), lat(rng)) }

func ringAt(x, y, w, h float64) string {
	return fmt.Sprintf("[[%v,%v],[%v,%v],[%v,%v],[%v,%v],[%v,%v]]", x, y, x+w, y, x+w, y+h, x, y+h, x, y)
}

func ring(rng *rand.Rand) string {
	return ringAt(float64(rng.Intn(61)-30)/2, float64(rng.Intn(61)-30)/2, float64(rng.Intn(12)+1)/2, float64(rng.Intn(12)+1)/2)
}

func geoJSON(rng *rand.Rand) string {
	switch rng.Intn(11) {
	case 0, 1:
		return `{"type":"Point","coordinates":` + pt(rng) + `}`
	case 2:
		return `{"type":"LineString","coordinates":[` + pt(rng) + `,` + pt(rng) + `,` + pt(rng) + `]}`
	case 3, 4:
		return `{"type":"Polygon","coordinates":[` + ring(rng) + `]}`
	case 5:
		return `{"type":"MultiPoint","coordinates":[` + pt(rng) + `,` + pt(rng) + `]}`
	case 6:
		return `{"type":"MultiPolygon","coordinates":[[` + ring(rng) + `],[` + ring(rng) + `]]}`
	case 7:
		return `{"type":"GeometryCollection","geometries":[{"type":"Point","coordinates":` + pt(rng) + `},{"type":"Polygon","coordinates":[` + ring(rng) + `]}]}`
	case 8:
		return `{"type":"Feature","geometry":{"type":"Polygon","coordinates":[` + ring(rng) + `]},"properties":{"n":1}}`
	case 9:
		return `{"type":"FeatureCollection","features":[{"type":"Feature","geometry":{"type":"Point","coordinates":` + pt(rng) + `},"properties":{}},{"type":"Feature","geometry":{"type":"LineString","coordinates":[` + pt(rng) + `,` + pt(rng) + `]},"properties":{}}]}`
	default:
		return `{"type":"MultiLineString","coordinates":[[` + pt(rng) + `,` + pt(rng) + `],[` + pt(rng) + `,` + pt(rng) + `]]}`
	}
}

var ids = []string{"a", "b", "c", "d", "e", "f", "g", "h", "i", "j", "k", "l", "m", "n"}

// ---------------------------------------------------------------- (ii) in-package

func idSet(l []*verifapi.Obj) []string {
	s := []string{}
	for _, o := range l {
		s = append(s, o.ID())
	}
	sort.Strings(s)
	return s
}

func setReq(o *verifapi.Obj) []string {
	a := verifapi.Attrs(o)
	str := a.Str
	if a.Spatial {
		str = ""
	}
	return []string{"set", model.H(a.ID), model.B(a.Spatial), model.B(a.Empty), strconv.Itoa(a.NumPoints), strconv.Itoa(a.Weight),
		model.H(str), strconv.FormatInt(a.Expires, 10), bits(a.Rect[0]), bits(a.Rect[1]), bits(a.Rect[2]), bits(a.Rect[3])}
}

func inPackage(r *hx.Result, cfg hx.Config, rng *rand.Rand) {
	drv, err := model.Start("coll")
	if err != nil {
		panic(err)
	}
	defer drv.Close()
	rounds, steps, queries := 60, 40, 12
	if cfg.Tier == "thorough" || cfg.Search {
		rounds, steps, queries = 600, 80, 30
	}
	for round := 0; round < rounds; round++ {
		c := verifapi.NewColl()
		drv.Ask("new")
		var hist []string
		for s := 0; s < steps; s++ {
			id := ids[rng.Intn(len(ids))]
			switch k := rng.Intn(10); {
			case k < 2:
				c.Delete(id)
				drv.Ask("del", model.H(id))
				hist = append(hist, "DEL "+id)
			case k < 3:
				o := verifapi.NewStringObj(id, "str", 0)
				c.Set(o)
				drv.Ask(setReq(o)...)
				hist = append(hist, "SET "+id+" STRING str")
			case k < 4:
				x, y := lon(rng), lat(rng)
				if rng.Intn(3) == 0 {
					x = wild(rng)
				}
				o := verifapi.NewPointObj(id, x, y, 0)
				c.Set(o)
				drv.Ask(setReq(o)...)
				hist = append(hist, fmt.Sprintf("SET %s POINT x=%v y=%v", id, x, y))
			default:
				js := geoJSON(rng)
				if rng.Intn(12) == 0 {
					js = `{"type":"FeatureCollection","features":[]}`
				}
				o, err := verifapi.NewGeoObj(id, js, 0)
				if err != nil {
					panic(js + ": " + err.Error())
				}
				c.Set(o)
				drv.Ask(setReq(o)...)
				hist = append(hist, "SET "+id+" OBJECT "+js)
			}
		}
		all := c.Scan(false)
		// the float32 rectangles stored in the R-tree vs the model's rtree_rect of the same objects
		{
			var sp []string
			for _, e := range c.Spatial() {
				sp = append(sp, fmt.Sprintf("%s:%s:%s:%s:%s", model.H(e.Obj.ID()), b32(e.Min[0]), b32(e.Min[1]), b32(e.Max[0]), b32(e.Max[1])))
			}
			sort.Strings(sp)
			impl := "sp=-"
			if len(sp) > 0 {
				impl = "sp=" + strings.Join(sp, ",")
			}
			mod := drv.Ask("summary")
			if i := strings.Index(mod, "sp="); i >= 0 {
				mod = mod[i:]
			}
			if impl != mod {
				r.Fail(hx.Failure{Kind: "correspondence", Signature: "rtree-rect-model", What: "float32 rectangles of the spatial index differ from Model.Float32.rtree_rect of the objects' rectangles",
					Case: map[string]interface{}{"history": hist}, Impl: impl, Model: mod})
			}
		}
		for qi := 0; qi < queries; qi++ {
			var qjs string
			switch rng.Intn(4) {
			case 0:
				qjs = `{"type":"Polygon","coordinates":[` + ringAt(float64(rng.Intn(81)-40)/2, float64(rng.Intn(81)-40)/2, float64(rng.Intn(60)+1), float64(rng.Intn(40)+1)) + `]}`
			case 1:
				qjs = `{"type":"Polygon","coordinates":[[[-180,-90],[180,-90],[180,90],[-180,90],[-180,-90]]]}`
			default:
				qjs = geoJSON(rng)
			}
			q, err := verifapi.ParseGeo(qjs)
			if err != nil {
				panic(qjs)
			}
			circle := ""
			if qi%5 == 4 {
				// a CIRCLE area (geojson.Circle): the predicate is the haversine distance, the index is
				// searched with searchRect = q.Rect() widened by geo.RectFromCenter (finding C02-circle-search-rect)
				la, lo := float64(rng.Intn(121)-60), float64(rng.Intn(361)-180)
				m := []float64{0.2, 5, 1500, 250000, 1977520, 4e6, 9e6}[rng.Intn(7)] * (0.5 + rng.Float64())
				q = verifapi.AreaBuildCircle(la, lo, m)
				qjs = fmt.Sprintf("CIRCLE %v %v %v", la, lo, m)
				circle = "-circle"
			}
			cs := map[string]interface{}{"history": hist, "query": qjs}
			for _, op := range []string{"within", "intersects"} {
				pred := verifapi.GeoWithin
				run := c.Within
				if op == "intersects" {
					pred, run = verifapi.GeoIntersects, c.Intersects
				}
				var want []*verifapi.Obj
				for _, o := range all {
					// Circle.Contains is vacuously true for an empty collection (finding C02-empty-in-circle):
					// for circle areas the predicate is TEST's, which answers false for an empty geometry
					if pred(o, q) && !(circle != "" && (o.Geo().Empty() || offMap(o))) {
						want = append(want, o)
					}
				}
				got := run(q, 0)
				if circle != "" {
					kept := got[:0:0]
					for _, o := range got {
						if !offMap(o) {
							kept = append(kept, o)
						}
					}
					got = kept
				}
				gs, ws := idSet(got), idSet(want)
				r.Count(fmt.Sprintf("inpkg/%d/%d/%s", round, qi, op), len(ws) > 0 && len(ws) < len(all))
				r.Dist("inpkg:" + op)
				if strings.Join(gs, ",") != strings.Join(ws, ",") {
					r.Fail(hx.Failure{Kind: "oracle", Signature: "index-" + op + circle,
						What: fmt.Sprintf("Collection.%s returned ids %q, a scan applying the same predicate to every object gives %q", op, gs, ws), Case: cs})
				}
				for _, sparse := range []uint8{1, 2, 3} {
					sg := run(q, sparse)
					seen := map[string]bool{}
					for _, o := range sg {
						if seen[o.ID()] {
							r.Fail(hx.Failure{Kind: "oracle", Signature: "sparse-duplicate", What: fmt.Sprintf("%s SPARSE %d reports id %q twice", op, sparse, o.ID()), Case: cs})
						}
						seen[o.ID()] = true
						if !pred(o, q) {
							r.Fail(hx.Failure{Kind: "oracle", Signature: "sparse-invents", What: fmt.Sprintf("%s SPARSE %d reports id %q which does not satisfy the predicate", op, sparse, o.ID()), Case: cs})
						}
					}
					r.Dist("inpkg:sparse")
				}
			}
			// index candidates vs Model/Search.geo_search
			qr := verifapi.GeoSearchRect(q) // the rectangle Within / Intersects hand to geoSearch
			impl := strings.Join(hexIDs(c.GeoSearch(qr)), ",")
			if impl == "" {
				impl = "-"
			}
			mod := drv.Ask("geo_search", bits(qr[0]), bits(qr[1]), bits(qr[2]), bits(qr[3]))
			if impl != mod {
				r.Fail(hx.Failure{Kind: "correspondence", Signature: "geo-search-model", What: "geoSearch candidates differ from Model.Search.geo_search", Case: cs, Impl: impl, Model: mod})
			}
		}
		r.TracesImpl++
	}
}

// offMap: a coordinate beyond +-180 / +-90 (the generator stores such objects on purpose). The haversine
// distance of a circle area is periodic in the longitude, so for these objects "a hit implies overlapping
// rectangles" is not claimed for circle areas; they are left out of the circle comparisons.
func offMap(o *verifapi.Obj) bool {
	r := verifapi.GeoRect(o.Geo())
	return !(r[0] >= -180 && r[2] <= 180 && r[1] >= -90 && r[3] <= 90)
}

func hexIDs(l []*verifapi.Obj) []string {
	s := []string{}
	for _, o := range l {
		s = append(s, model.H(o.ID()))
	}
	sort.Strings(s)
	return s
}

// ---------------------------------------------------------------- (iii) black-box

func randArea(rng *rand.Rand) []string {
	f := func(x float64) string { return strconv.FormatFloat(x, 'f', -1, 64) }
	switch rng.Intn(9) {
	case 0, 1:
		a, b := lat(rng), lon(rng)
		return []string{"BOUNDS", f(a), f(b), f(a + float64(rng.Intn(40))/2), f(b + float64(rng.Intn(60))/2)}
	case 2:
		return []string{"CIRCLE", f(float64(rng.Intn(41)-20) / 2), f(float64(rng.Intn(41)-20) / 2), f(float64(rng.Intn(2000000) + 1))}
	case 3:
		return []string{"OBJECT", geoJSON(rng)}
	case 4:
		z := rng.Intn(6)
		return []string{"TILE", strconv.Itoa(rng.Intn(1 << z)), strconv.Itoa(rng.Intn(1 << z)), strconv.Itoa(z)}
	case 5:
		n := rng.Intn(5) + 1
		q := ""
		for i := 0; i < n; i++ {
			q += strconv.Itoa(rng.Intn(4))
		}
		return []string{"QUADKEY", q}
	case 6:
		const alpha = "0123456789bcdefghjkmnpqrstuvwxyz"
		n := rng.Intn(3) + 1
		h := []string{"s", "k", "e", "7", "u", "t"}[rng.Intn(6)]
		for i := 1; i < n; i++ {
			h += string(alpha[rng.Intn(32)])
		}
		return []string{"HASH", h}
	case 7:
		return []string{"GET", "ref", []string{"r1", "r2", "r3"}[rng.Intn(3)]}
	default:
		return []string{"SECTOR", f(float64(rng.Intn(41)-20) / 2), f(float64(rng.Intn(41)-20) / 2), f(float64(rng.Intn(3000000) + 1000)),
			strconv.Itoa(rng.Intn(360)), strconv.Itoa(rng.Intn(360))}
	}
}

func idsArr(v srv.Value) ([]string, bool) {
	out := []string{}
	if v.Kind != '*' || len(v.Array) != 2 {
		return nil, false
	}
	for _, e := range v.Array[1].Array {
		out = append(out, e.Str)
	}
	return out, true
}

func blackBox(r *hx.Result, cfg hx.Config, rng *rand.Rand) {
	rounds, steps, queries := 6, 60, 60
	if cfg.Tier == "thorough" || cfg.Search {
		rounds, steps, queries = 40, 150, 150
	}
	for round := 0; round < rounds; round++ {
		s, err := srv.Start(filepath.Join(cfg.Work, fmt.Sprintf("c02-%d", round)), "--appendonly", "no")
		if err != nil {
			panic(err)
		}
		func() {
			defer s.Kill()
			c := s.MustDial()
			defer c.Close()
			var hist []string
			do := func(args ...string) srv.Value {
				hist = append(hist, strings.Join(args, " "))
				return c.MustDo(args...)
			}
			do("SET", "ref", "r1", "OBJECT", `{"type":"Polygon","coordinates":[`+ringAt(-10, -10, 20, 15)+`]}`)
			do("SET", "ref", "r2", "BOUNDS", "-5", "95", "5", "105")
			do("SET", "ref", "r3", "OBJECT", geoJSON(rng))
			for i := 0; i < steps; i++ {
				id := ids[rng.Intn(len(ids))]
				switch k := rng.Intn(12); {
				case k < 2:
					do("DEL", "fleet", id)
				case k < 4:
					x, y := lat(rng), lon(rng)
					args := []string{"SET", "fleet", id, "POINT", fmt.Sprint(x), fmt.Sprint(y)}
					if rng.Intn(6) == 0 {
						args[5] = fmt.Sprint(wild(rng))
					}
					do(args...)
				case k < 5:
					a, b := lat(rng), lon(rng)
					do("SET", "fleet", id, "BOUNDS", fmt.Sprint(a), fmt.Sprint(b), fmt.Sprint(a+float64(rng.Intn(10))/2), fmt.Sprint(b+float64(rng.Intn(10))/2))
				case k < 6:
					do("SET", "fleet", id, "STRING", "not a geometry")
				case k < 7:
					do("SET", "fleet", id, "OBJECT", `{"type":"FeatureCollection","features":[]}`)
				default:
					do("SET", "fleet", id, "OBJECT", geoJSON(rng))
				}
			}
			all, _ := idsArr(c.MustDo("SCAN", "fleet", "LIMIT", "100000", "IDS"))
			// which retrievable objects are empty geometries (never indexed): GET + the library's Empty()
			emptyGeo := map[string]bool{}
			for _, id := range all {
				if g := c.MustDo("GET", "fleet", id); g.Kind == '$' && strings.HasPrefix(g.Str, "{") {
					if o, err := verifapi.NewGeoObj(id, g.Str, 0); err == nil && verifapi.Attrs(o).Empty {
						emptyGeo[id] = true
					}
				}
			}
			for qi := 0; qi < queries; qi++ {
				area := randArea(rng)
				for _, op := range []string{"WITHIN", "INTERSECTS"} {
					v := c.MustDo(append([]string{op, "fleet", "LIMIT", "100000", "IDS"}, area...)...)
					got, ok := idsArr(v)
					if !ok {
						r.Dist("bb:area-rejected:" + area[0])
						continue
					}
					sort.Strings(got)
					want := []string{}
					terr := 0
					for _, id := range all {
						t := c.MustDo(append([]string{"TEST", "GET", "fleet", id, op}, area...)...)
						if t.Kind == ':' && t.Int == 1 {
							want = append(want, id)
						} else if t.Kind != ':' {
							terr++
						}
					}
					if terr > 0 {
						r.Dist("bb:test-error")
					}
					sort.Strings(want)
					r.Count(fmt.Sprintf("bb/%d/%d/%s", round, qi, op), len(want) > 0 && len(want) < len(all))
					r.Dist("bb:" + op + ":" + area[0])
					cs := map[string]interface{}{"history": hist, "query": op + " fleet IDS " + strings.Join(area, " ")}
					if strings.Join(got, ",") != strings.Join(want, ",") {
						lost, invented := diff(want, got), diff(got, want)
						sig := "search-loses"
						if len(lost) == 0 {
							sig = "search-invents"
						} else if len(invented) == 0 && op == "WITHIN" && area[0] == "CIRCLE" {
							// known finding C02-empty-in-circle: every lost id is an empty geometry
							onlyEmpty := true
							for _, id := range lost {
								onlyEmpty = onlyEmpty && emptyGeo[id]
							}
							if onlyEmpty {
								sig = "search-loses-empty-in"
							}
						}
						r.Fail(hx.Failure{Kind: "oracle", Signature: sig + "-" + area[0],
							What: fmt.Sprintf("%s fleet IDS %s returned %q; TEST GET fleet <id> %s %s holds exactly for %q (lost %q, invented %q)",
								op, strings.Join(area, " "), got, op, strings.Join(area, " "), want, lost, invented), Case: cs})
					}
					if qi < 2 && op == "WITHIN" {
						r.Sample(10, map[string]interface{}{"query": cs["query"], "result": got, "objects": len(all)})
					}
					// SPARSE only thins
					sv := c.MustDo(append([]string{op, "fleet", "SPARSE", strconv.Itoa(rng.Intn(3) + 1), "LIMIT", "100000", "IDS"}, area...)...)
					if sg, ok := idsArr(sv); ok {
						seen := map[string]bool{}
						for _, id := range sg {
							if seen[id] {
								r.Fail(hx.Failure{Kind: "oracle", Signature: "sparse-duplicate", What: "SPARSE reports id " + id + " twice", Case: cs})
							}
							seen[id] = true
							if len(diff([]string{id}, want)) > 0 {
								r.Fail(hx.Failure{Kind: "oracle", Signature: "sparse-invents", What: "SPARSE reports id " + id + " for which TEST says the predicate does not hold", Case: cs})
							}
						}
						r.Dist("bb:sparse")
					}
				}
			}
		}()
	}
}

func diff(a, b []string) []string {
	in := map[string]bool{}
	for _, x := range b {
		in[x] = true
	}
	out := []string{}
	for _, x := range a {
		if !in[x] {
			out = append(out, x)
		}
	}
	return out
}

func runC02(r *hx.Result, cfg hx.Config) {
	r.Rule = "rounding: one case = one float64 bit pattern (every float64 and float32 binade boundary with neighbours and float32 midpoints, subnormals, +-0, +-Inf, NaN, beyond MaxFloat32, random doubles); non-trivial = the value is not exactly representable in float32 (down or up differs from it). in-package / black-box: one case = one (dataset built by a random insert/overwrite/move/delete history, query area, WITHIN|INTERSECTS) comparison of the index result with the index-free predicate evaluated for every id; non-trivial = the exact result is a non-empty strict subset of the dataset."
	r.Assumptions = []string{
		"oracle hypothesis of c02_search_exact: Within/Intersects(o, q) implies that the float64 bounding rectangle of o overlaps the search rectangle of q (tidwall/geojson); the search rectangle (qrect) is collection.searchRect(q): q.Rect(), and for a circle its union with geo.RectFromCenter(center, meters), which contains the haversine disc for radii of about 0.3 m and more (below that RectFromCenter collapses to the centre and the polygon approximation's box alone is used, as before)",
		"strings and empty geometries never satisfy Within/Intersects",
		"tidwall/rtree Search reports exactly the entries whose float32 rectangle intersects the target (abstract container; sampled in-package against Model/Search.geo_search)",
		"SPARSE leaf rectangles (float64 quad split) are not modelled: c02_sparse_sound holds for any leaves",
	}
	switch os.Getenv("C02_ONLY") { // development aid: one section only
	case "areas":
		areas(r, cfg)
		return
	case "reply":
		replyStage(r, cfg)
		return
	}
	rng := rand.New(rand.NewSource(cfg.Seed))
	rounding(r, cfg, rng)
	extremeClusters(r, cfg, rng)
	inPackage(r, cfg, rng)
	blackBox(r, cfg, rng)
	extremeClustersBB(r, cfg, rng)
	overlappedSearch(r, cfg, rng)
	areas(r, cfg)      // (iv) query-area parsers: areas.go (own PRNG stream)
	replyStage(r, cfg) // (v) from the search result to the reply: reply.go (own PRNG stream)
}

// ---------------------------------------------------------------- clusters inside one float32 cell at the extreme

// A cluster of distinct float64 coordinates that fall into one (or adjacent) float32 cells, placed so
// that it is the outermost thing of the collection on one side, inserted in a random order; then
// windows whose edge falls strictly between two members and extend outwards. The index keys of the
// members tie, so anything in the search path that trusts a float32-derived extent (e.g. Bounds(),
// see C19-bounds-f32-key) instead of the outward-rounded index walk loses the outermost members.

type cluster struct {
	side   int       // 0 west (min x), 1 east (max x), 2 south (min y), 3 north (max y)
	values []float64 // the clustered coordinate, ascending
	other  float64   // the other coordinate of the members
}

func makeCluster(rng *rand.Rand) cluster {
	c := cluster{side: rng.Intn(4), other: float64(rng.Intn(21) - 10)}
	base := []float64{100, 64.5, 120.25, 75}[rng.Intn(4)]
	if c.side >= 2 {
		base = []float64{80, 64.5, 75, 85.125}[rng.Intn(4)]
	}
	step := []float64{1e-7, 1e-6, 2e-6}[rng.Intn(3)] // float32 ulp in [64,128) is 7.6e-6
	n := 2 + rng.Intn(3)
	for i := 1; i <= n; i++ {
		c.values = append(c.values, base+float64(i)*step)
	}
	if c.side == 0 || c.side == 2 { // west / south clusters sit at negative coordinates as well as positive ones
		if c.side == 2 || rng.Intn(2) == 0 { // (a positive southern cluster would push the rest beyond lat 90)
			for i := range c.values {
				c.values[i] = -c.values[i]
			}
			sort.Float64s(c.values)
		} else {
			// positive west cluster: everything else lies further east (handled by the caller)
		}
	}
	return c
}

// xy of member i
func (c cluster) xy(i int) (float64, float64) {
	if c.side < 2 {
		return c.values[i], c.other
	}
	return c.other, c.values[i]
}

// window whose edge is strictly between members i and i+1 and that extends outwards by 5 degrees
// (so it contains exactly the members beyond the gap), as minx, miny, maxx, maxy
func (c cluster) window(i int) [4]float64 {
	mid := (c.values[i] + c.values[i+1]) / 2
	switch c.side {
	case 0:
		return [4]float64{c.values[0] - 5, c.other - 1, mid, c.other + 1}
	case 1:
		return [4]float64{mid, c.other - 1, c.values[len(c.values)-1] + 5, c.other + 1}
	case 2:
		return [4]float64{c.other - 1, c.values[0] - 5, c.other + 1, mid}
	default:
		return [4]float64{c.other - 1, mid, c.other + 1, c.values[len(c.values)-1] + 5}
	}
}

// a coordinate for the rest of the dataset, strictly inside the cluster on the cluster's axis
func (c cluster) inner(rng *rand.Rand) (float64, float64) {
	free := float64(rng.Intn(41) - 20)
	var in float64
	lo, hi := c.values[0], c.values[len(c.values)-1]
	switch c.side {
	case 0, 2: // cluster is the minimum: others above it
		in = hi + 1 + float64(rng.Intn(20))
	default:
		in = lo - 1 - float64(rng.Intn(20))
	}
	if c.side < 2 {
		return in, free / 4
	}
	return free, in
}

func rectJSON(w [4]float64) string {
	return fmt.Sprintf(`{"type":"Polygon","coordinates":[[[%v,%v],[%v,%v],[%v,%v],[%v,%v],[%v,%v]]]}`,
		w[0], w[1], w[2], w[1], w[2], w[3], w[0], w[3], w[0], w[1])
}

func extremeClusters(r *hx.Result, cfg hx.Config, rng *rand.Rand) {
	drv, err := model.Start("coll")
	if err != nil {
		panic(err)
	}
	defer drv.Close()
	rounds := 60
	if cfg.Tier == "thorough" || cfg.Search {
		rounds = 3000
	}
	// directed corpus first: two points 1e-7 apart as the westernmost / easternmost objects, both orders
	type fixed struct {
		cl    cluster
		order []int
	}
	var corpus []fixed
	for _, side := range []int{0, 1, 2, 3} {
		vals := []float64{100.0000001, 100.0000002}
		if side >= 2 {
			vals = []float64{80.0000001, 80.0000002}
		}
		corpus = append(corpus, fixed{cluster{side, vals, 10}, []int{0, 1}}, fixed{cluster{side, vals, 10}, []int{1, 0}})
	}
	for round := 0; round < rounds+len(corpus); round++ {
		var cl cluster
		var order []int
		if round < len(corpus) {
			cl, order = corpus[round].cl, corpus[round].order
		} else {
			cl = makeCluster(rng)
			order = rng.Perm(len(cl.values))
		}
		c := verifapi.NewColl()
		drv.Ask("new")
		var hist []string
		put := func(o *verifapi.Obj, what string) {
			c.Set(o)
			drv.Ask(setReq(o)...)
			hist = append(hist, what)
		}
		// the rest of the dataset, strictly inside
		nIn := 1 + rng.Intn(6)
		for i := 0; i < nIn; i++ {
			x, y := cl.inner(rng)
			put(verifapi.NewPointObj(fmt.Sprintf("in%d", i), x, y, 0), fmt.Sprintf("SET in%d POINT x=%v y=%v", i, x, y))
		}
		for _, i := range order {
			x, y := cl.xy(i)
			id := fmt.Sprintf("t%d", i)
			if rng.Intn(4) == 0 { // a segment ending in the cluster instead of a point
				x0, y0 := cl.inner(rng)
				js := fmt.Sprintf(`{"type":"LineString","coordinates":[[%v,%v],[%v,%v]]}`, x0, y0, x, y)
				o, _ := verifapi.NewGeoObj(id, js, 0)
				put(o, "SET "+id+" OBJECT "+js)
			} else {
				put(verifapi.NewPointObj(id, x, y, 0), fmt.Sprintf("SET %s POINT x=%v y=%v", id, x, y))
			}
			if rng.Intn(5) == 0 { // overwrite in place / delete and re-insert: another history, same data
				o := c.Get(id)
				c.Delete(id)
				drv.Ask("del", model.H(id))
				put(o, "DEL+SET "+id)
			}
		}
		all := c.Scan(false)
		for gi := 0; gi+1 < len(cl.values); gi++ {
			w := cl.window(gi)
			qjs := rectJSON(w)
			q, err := verifapi.ParseGeo(qjs)
			if err != nil {
				panic(qjs)
			}
			cs := map[string]interface{}{"history": hist, "query": qjs, "cluster_side": cl.side}
			for _, op := range []string{"within", "intersects"} {
				pred, run := verifapi.GeoWithin, c.Within
				if op == "intersects" {
					pred, run = verifapi.GeoIntersects, c.Intersects
				}
				var want []*verifapi.Obj
				for _, o := range all {
					if pred(o, q) {
						want = append(want, o)
					}
				}
				gs, ws := idSet(run(q, 0)), idSet(want)
				r.Count(fmt.Sprintf("cluster/%x/%d/%s", hashStr(hist), gi, op), len(ws) > 0 && len(ws) < len(all))
				r.Dist("cluster:" + op)
				if strings.Join(gs, ",") != strings.Join(ws, ",") {
					r.Fail(hx.Failure{Kind: "oracle", Signature: "index-" + op,
						What: fmt.Sprintf("Collection.%s returned ids %q, a scan applying the same predicate to every object gives %q (window edge between two objects of one float32 cell at the collection's extreme)", op, gs, ws), Case: cs})
				}
			}
			impl := strings.Join(hexIDs(c.GeoSearch(w)), ",")
			if impl == "" {
				impl = "-"
			}
			mod := drv.Ask("geo_search", bits(w[0]), bits(w[1]), bits(w[2]), bits(w[3]))
			if impl != mod {
				r.Fail(hx.Failure{Kind: "correspondence", Signature: "geo-search-model", What: "geoSearch candidates differ from Model.Search.geo_search", Case: cs, Impl: impl, Model: mod})
			}
		}
		r.TracesImpl++
	}
}

func hashStr(l []string) uint64 {
	var h uint64 = 1469598103934665603
	for _, s := range l {
		for i := 0; i < len(s); i++ {
			h = (h ^ uint64(s[i])) * 1099511628211
		}
		h = (h ^ 0xff) * 1099511628211
	}
	return h
}

// the same through the server: WITHIN|INTERSECTS key IDS BOUNDS / OBJECT vs TEST GET key id per object
func extremeClustersBB(r *hx.Result, cfg hx.Config, rng *rand.Rand) {
	rounds := 24
	if cfg.Tier == "thorough" || cfg.Search {
		rounds = 400
	}
	s, err := srv.Start(filepath.Join(cfg.Work, "c02-clusters"), "--appendonly", "no")
	if err != nil {
		panic(err)
	}
	defer s.Kill()
	c := s.MustDial()
	defer c.Close()
	f := func(x float64) string { return strconv.FormatFloat(x, 'f', -1, 64) }
	for round := 0; round < rounds; round++ {
		key := fmt.Sprintf("tie%d", round)
		cl := makeCluster(rng)
		if round < 8 { // directed: the four sides, both insertion orders
			vals := []float64{100.0000001, 100.0000002}
			if round/2 >= 2 {
				vals = []float64{80.0000001, 80.0000002}
			}
			cl = cluster{round / 2, vals, 10}
		}
		order := rng.Perm(len(cl.values))
		if round < 8 {
			order = []int{round % 2, 1 - round%2}
		}
		var hist []string
		do := func(args ...string) srv.Value {
			hist = append(hist, strings.Join(args, " "))
			return c.MustDo(args...)
		}
		for i, n := 0, 1+rng.Intn(4); i < n; i++ {
			x, y := cl.inner(rng)
			do("SET", key, fmt.Sprintf("in%d", i), "POINT", f(y), f(x))
		}
		for _, i := range order {
			x, y := cl.xy(i)
			do("SET", key, fmt.Sprintf("t%d", i), "POINT", f(y), f(x))
		}
		all, _ := idsArr(c.MustDo("SCAN", key, "LIMIT", "100000", "IDS"))
		for gi := 0; gi+1 < len(cl.values); gi++ {
			w := cl.window(gi)
			areas := [][]string{{"BOUNDS", f(w[1]), f(w[0]), f(w[3]), f(w[2])}, {"OBJECT", rectJSON(w)}}
			for _, area := range areas {
				for _, op := range []string{"WITHIN", "INTERSECTS"} {
					got, ok := idsArr(c.MustDo(append([]string{op, key, "LIMIT", "100000", "IDS"}, area...)...))
					if !ok {
						r.Dist("bb:area-rejected:" + area[0])
						continue
					}
					sort.Strings(got)
					want := []string{}
					for _, id := range all {
						if t := c.MustDo(append([]string{"TEST", "GET", key, id, op}, area...)...); t.Kind == ':' && t.Int == 1 {
							want = append(want, id)
						}
					}
					sort.Strings(want)
					r.Count(fmt.Sprintf("bbcluster/%d/%d/%s/%s", round, gi, op, area[0]), len(want) > 0 && len(want) < len(all))
					r.Dist("bb:cluster:" + op)
					if strings.Join(got, ",") != strings.Join(want, ",") {
						lost := diff(want, got)
						sig := "search-loses"
						if len(lost) == 0 {
							sig = "search-invents"
						}
						r.Fail(hx.Failure{Kind: "oracle", Signature: sig + "-" + area[0],
							What: fmt.Sprintf("%s %s IDS %s returned %q; TEST GET %s <id> %s ... holds exactly for %q (window edge between two objects of one float32 cell at the collection's extreme)",
								op, key, strings.Join(area, " "), got, key, op, want),
							Case: map[string]interface{}{"history": hist, "query": op + " " + key + " IDS " + strings.Join(area, " ")}})
					}
				}
			}
		}
	}
}

// ---------------------------------------------------------------- a search overlapped by a write

// A WITHIN is parked in the middle of its index walk (its WHEREEVAL script spins on one id), and while
// it is parked a second connection replaces / deletes an object that lies *before* that position in the
// index, through every route a write can take: the plain command, EVAL, EVALRO, EVALNA. Whatever order
// the two commands serialise in, every object that is not written to satisfies the predicate before and
// after, so the search must return each of them exactly once (the index neither loses nor invents
// results); the written object at most once. A write that is let in under the shared lock (the lock
// table of C07 / the script tables of C18) shifts the leaf under the reader.
func overlappedSearch(r *hx.Result, cfg hx.Config, rng *rand.Rand) {
	s, err := srv.Start(filepath.Join(cfg.Work, "c02-overlap"), "--appendonly", "no")
	if err != nil {
		panic(err)
	}
	defer s.Kill()
	w := s.MustDial()
	defer w.Close()
	type route struct {
		name string
		cmd  func(key string) []string
	}
	lua := func(kind, call string) func(string) []string {
		return func(key string) []string {
			return []string{kind, "return tile38.call(" + fmt.Sprintf(call, key) + ")", "0"}
		}
	}
	routes := []route{
		{"JDEL", func(k string) []string { return []string{"JDEL", k, "route", "coordinates.0"} }},
		{"EVAL-jdel", lua("EVAL", "'jdel','%s','route','coordinates.0'")},
		{"EVALRO-jdel", lua("EVALRO", "'jdel','%s','route','coordinates.0'")},
		{"EVALNA-jdel", lua("EVALNA", "'jdel','%s','route','coordinates.0'")},
		{"EVALNA-jset", lua("EVALNA", "'jset','%s','route','coordinates.0','[25,0.25]','RAW'")},
		{"SET", func(k string) []string { return []string{"SET", k, "route", "POINT", "0.5", "25"} }},
		{"EVALNA-set", lua("EVALNA", "'set','%s','route','point',0.5,25")},
		{"EVALNA-fset", lua("EVALNA", "'fset','%s','route','speed',7")},
		{"EVALNA-del", lua("EVALNA", "'del','%s','route'")},
		{"EVALNA-expire", lua("EVALNA", "'expire','%s','route',100000")},
	}
	spinMs := 500
	for ri, rt := range routes {
		key := fmt.Sprintf("ov%d", ri)
		w.MustDo("SET", key, "route", "OBJECT", `{"type":"LineString","coordinates":[[0,0],[25,0.5],[26,1]]}`)
		var untouched []string
		for i := 1; i <= 20; i++ {
			id := fmt.Sprintf("truck%02d", i)
			untouched = append(untouched, id)
			w.MustDo("SET", key, id, "POINT", "1", strconv.Itoa(i))
		}
		area := []string{"BOUNDS", "-1", "-1", "10", "40"}
		rd := s.MustDial()
		spin := fmt.Sprintf(`if ID == 'truck03' then local t = os.clock() while os.clock() - t < %f do end end return true`, float64(spinMs)/1000)
		if err := rd.Send(append([]string{"WITHIN", key, "WHEREEVAL", spin, "0", "LIMIT", "1000", "IDS"}, area...)...); err != nil {
			panic(err)
		}
		time.Sleep(time.Duration(spinMs/3) * time.Millisecond)
		wrep := w.MustDo(rt.cmd(key)...)
		v, err := rd.Read()
		rd.Close()
		if err != nil {
			panic(fmt.Sprintf("overlapped search: %v", err))
		}
		got, ok := idsArr(v)
		if !ok {
			r.Dist("overlap:search-rejected")
			continue
		}
		count := map[string]int{}
		for _, id := range got {
			count[id]++
		}
		// the untouched objects still satisfy the predicate (index-free check)
		stillAll := true
		for _, id := range untouched {
			t := w.MustDo(append([]string{"TEST", "GET", key, id, "WITHIN"}, area...)...)
			stillAll = stillAll && t.Kind == ':' && t.Int == 1
		}
		r.Count("overlap/"+rt.name, !wrep.IsErr())
		r.Dist("overlap:" + rt.name + ":" + map[bool]string{true: "refused", false: "done"}[wrep.IsErr()])
		cs := map[string]interface{}{"dataset": "SET " + key + " route OBJECT LineString [[0,0],[25,0.5],[26,1]]; SET " + key + " truck01..truck20 POINT 1 <1..20>",
			"parked":            "WITHIN " + key + " WHEREEVAL \"" + spin + "\" 0 LIMIT 1000 IDS " + strings.Join(area, " "),
			"overlapping_write": strings.Join(rt.cmd(key), " "), "write_reply": wrep.String(), "search_reply": got}
		if !stillAll {
			continue
		}
		for _, id := range untouched {
			if count[id] == 0 {
				r.Fail(hx.Failure{Kind: "oracle", Signature: "overlapped-search-loses",
					What: fmt.Sprintf("a WITHIN overlapped by %q lost %s, an object that was not written to and satisfies the predicate before and after", strings.Join(rt.cmd(key), " "), id), Case: cs})
			}
		}
		for id, n := range count {
			if n > 1 {
				r.Fail(hx.Failure{Kind: "oracle", Signature: "overlapped-search-duplicates",
					What: fmt.Sprintf("a WITHIN overlapped by %q returned %s %d times", strings.Join(rt.cmd(key), " "), id, n), Case: cs})
			}
		}
	}
}
