// C14, round 3: expiry in every role history of a server process (coq/Model/Startup.v,
// c14_sweeper_in_every_role in coq/Props/C14st.v).
//
// One scenario = a leader L, a server under test F, and a history over
//
//	follow       FOLLOW 127.0.0.1 <L>            (persisted in F's config file)
//	promote      FOLLOW no one
//	restart      SIGTERM, then F is started again on the same directory (boots with the persisted role)
//	leader-lost  L is SIGKILLed right after F has received the probe's writes
//
// After every step a probe: an object (SET .. EX) and a channel (SETCHAN .. EX) with a 0.3-0.6 s deadline
// are written on whoever accepts writes for F's data (F itself when it is a leader, L when F follows) and
// F is polled every 25 ms: never missing before the client-side deadline, gone on F at most 1.5 s after it.
// Sub-second and > 1 s fractional EX values alternate, so that a deadline computed from a truncated EX
// shows as an early miss too.
package main

import (
	"fmt"
	"math/rand"
	"path/filepath"
	"strconv"
	"strings"
	"sync"
	"time"

	"verifharness/internal/hx"
	"verifharness/internal/srv"
)

// startChecked starts a server on dir and makes sure the process answering on the port is ours
// (srv.FreePort can race with other harness processes on the machine).
func startChecked(dir string, port int) (*srv.Server, error) {
	var lastErr error
	for attempt := 0; attempt < 6; attempt++ {
		p := port
		if p == 0 {
			p = srv.FreePort()
		}
		s, err := srv.StartPort(dir, p)
		if err != nil {
			lastErr = err
			if s != nil && s.Alive() {
				s.Kill()
			}
			continue
		}
		// SERVER is refused while a follower is catching up: ask again for a while, as long as our process lives
		other := false
		for end := time.Now().Add(3 * time.Second); time.Now().Before(end) && s.Alive() && !other; time.Sleep(30 * time.Millisecond) {
			c, err := s.Dial()
			if err != nil {
				continue
			}
			v, err2 := c.Do("SERVER")
			c.Close()
			if err2 != nil || v.Kind != '*' {
				continue
			}
			for i := 0; i+1 < len(v.Array); i += 2 {
				if v.Array[i].Str == "pid" {
					pid := v.Array[i+1].Int
					if v.Array[i+1].Kind != ':' {
						pid, _ = strconv.ParseInt(v.Array[i+1].Str, 10, 64)
					}
					if int(pid) == s.Cmd.Process.Pid && s.Alive() {
						return s, nil
					}
					other = true
				}
			}
		}
		if !other && s.Alive() {
			return s, nil // a follower without a leader never answers SERVER; our process is up and holds the port
		}
		lastErr = fmt.Errorf("port %d is answered by another process (log %s)", p, s.LogTail(200))
		s.Kill()
	}
	return nil, lastErr
}

type roleScenario struct {
	name  string
	steps []string
}

func rolesR3(r *hx.Result, rng *rand.Rand, cfg hx.Config) {
	r.Rule += " D: role histories of a server next to a real leader (FOLLOW, FOLLOW no one, restart with the persisted role, leader SIGKILLed right after the write reached the follower): after every step an object and a channel with EX 0.3-0.6 s or 1.3-1.6 s, written on whoever accepts writes for that server's data, polled on it every 25 ms: not missing before send time + EX, gone 1.5 s after the deadline; non-trivial = history with at least two probes seen before they expired."
	scs := []roleScenario{
		{"boot-follower-leader-lost-promote", []string{"follow", "restart", "leader-lost", "promote"}},
		{"boot-follower-promote", []string{"follow", "restart", "promote", "restart"}},
	}
	nrand := 1
	if cfg.Tier == "thorough" || cfg.Search {
		scs = append(scs,
			roleScenario{"runtime-follow-promote-restart", []string{"follow", "promote", "restart", "follow", "leader-lost"}},
			roleScenario{"restart-first", []string{"restart", "follow", "leader-lost", "restart", "promote", "restart"}})
		nrand = 10
	}
	// random histories: steps drawn among those that change something in the state reached so far
	for i := 0; i < nrand; i++ {
		n := 3 + rng.Intn(3)
		var st []string
		following, leaderAlive := false, true
		for j := 0; j < n; j++ {
			var choices []string
			switch {
			case !following:
				choices = []string{"follow", "follow", "restart", "promote"}
			case leaderAlive:
				choices = []string{"restart", "restart", "leader-lost", "leader-lost", "promote", "follow"}
			default:
				choices = []string{"promote", "promote", "restart", "follow"}
			}
			c := choices[rng.Intn(len(choices))]
			switch c {
			case "follow":
				following, leaderAlive = true, true
			case "promote":
				following = false
			case "leader-lost":
				leaderAlive = false
			}
			st = append(st, c)
		}
		scs = append(scs, roleScenario{fmt.Sprintf("random-%d", i), st})
	}
	var mu sync.Mutex
	var wg sync.WaitGroup
	sem := make(chan struct{}, 4)
	for i, sc := range scs {
		wg.Add(1)
		go func(i int, sc roleScenario, seed int64) {
			defer wg.Done()
			sem <- struct{}{}
			defer func() { <-sem }()
			runRoleScenario(r, &mu, cfg, i, sc, rand.New(rand.NewSource(seed)))
		}(i, sc, rng.Int63())
	}
	wg.Wait()
}

func runRoleScenario(r *hx.Result, mu *sync.Mutex, cfg hx.Config, idx int, sc roleScenario, lr *rand.Rand) {
	fail := func(sig, what string, cs interface{}) {
		mu.Lock()
		r.Fail(hx.Failure{Kind: "oracle", Signature: sig, What: what, Case: cs})
		mu.Unlock()
	}
	skip := func(why string) {
		mu.Lock()
		r.Dist("D:role-history-skipped:" + why)
		mu.Unlock()
	}
	ldir := filepath.Join(cfg.Work, fmt.Sprintf("role%d-L", idx))
	fdir := filepath.Join(cfg.Work, fmt.Sprintf("role%d-F", idx))
	L, err := startChecked(ldir, 0)
	if err != nil {
		skip("leader-start")
		return
	}
	defer func() { L.Kill() }()
	F, err := startChecked(fdir, 0)
	if err != nil {
		skip("server-start")
		return
	}
	defer func() { F.Kill() }()
	do := func(s *srv.Server, args ...string) (srv.Value, error) {
		c, err := s.Dial()
		if err != nil {
			return srv.Value{}, err
		}
		defer c.Close()
		c.Timeout = 5 * time.Second
		return c.Do(args...)
	}
	// an anchor on both, so that "F answers GET k anchor" means: F serves reads and (when following) has
	// the leader's data
	for _, s := range []*srv.Server{L, F} {
		if v, err := do(s, "SET", "k", "anchor", "POINT", "1", "1"); err != nil || v.IsErr() {
			skip("anchor")
			return
		}
	}
	following, leaderAlive := false, true
	var history []string // what happened to F so far, for the report
	readable := func(wait time.Duration) bool {
		end := time.Now().Add(wait)
		for time.Now().Before(end) {
			if v, err := do(F, "GET", "k", "anchor"); err == nil && v.Kind == '$' {
				return true
			}
			time.Sleep(25 * time.Millisecond)
		}
		return false
	}
	// synced: a fresh permanent object written on L shows up on F (the replication stream is established)
	syncN := 0
	synced := func(wait time.Duration) bool {
		syncN++
		id := fmt.Sprintf("sync%d", syncN)
		if v, err := do(L, "SET", "k", id, "POINT", "2", "2"); err != nil || v.IsErr() {
			return false
		}
		end := time.Now().Add(wait)
		for time.Now().Before(end) {
			if v, err := do(F, "GET", "k", id); err == nil && v.Kind == '$' {
				return true
			}
			time.Sleep(25 * time.Millisecond)
		}
		return false
	}
	probeN := 0
	nontrivial := 0
	// probe: write on w (F or L), watch on F. killAfter: SIGKILL L as soon as F has the writes.
	probe := func(w *srv.Server, killLeader bool) {
		probeN++
		id := fmt.Sprintf("p%d", probeN)
		ch := fmt.Sprintf("pc%d", probeN)
		ms := 300 + lr.Intn(300)
		if probeN%2 == 0 {
			ms += 1000 // 1.3-1.6 s: a whole second plus a fraction
		}
		ttl := time.Duration(ms) * time.Millisecond
		ex := fmt.Sprintf("%.3f", float64(ms)/1000)
		hist := append(append([]string{}, history...), fmt.Sprintf("probe: SET k %s EX %s POINT 1 1 ; SETCHAN %s EX %s NEARBY k FENCE POINT 1 1 100 (written on %s)", id, ex, ch, ex, map[bool]string{true: "the server itself", false: "its leader"}[w == F]))
		_ = hist
		sentObj := time.Now()
		if v, err := do(w, "SET", "k", id, "EX", ex, "POINT", "1", "1"); err != nil || v.IsErr() {
			skip("write-refused") // infrastructure (e.g. the leader went away), not a statement about expiry
			return
		}
		sentChan := time.Now()
		if v, err := do(w, "SETCHAN", ch, "EX", ex, "NEARBY", "k", "FENCE", "POINT", "1", "1", "100"); err != nil || v.IsErr() {
			skip("write-refused") // infrastructure (e.g. the leader went away), not a statement about expiry
			return
		}
		upper := time.Now().Add(ttl) // no deadline of the probe, on any server that has it by now, is later
		c, err := F.Dial()
		if err != nil {
			skip("dial")
			return
		}
		defer c.Close()
		c.Timeout = 5 * time.Second
		// 1 present, 0 missing, -1 no answer (error reply: e.g. catching up)
		objState := func() int {
			v, err := c.Do("GET", "k", id)
			switch {
			case err != nil || v.Kind == '-':
				return -1
			case v.Kind == '$':
				return 1
			}
			return 0
		}
		chanState := func() int {
			v, err := c.Do("CHANS", ch)
			switch {
			case err != nil || v.Kind != '*':
				return -1
			case len(v.Array) > 0:
				return 1
			}
			return 0
		}
		if w != F {
			// replication: wait until F has both (the leader may already have expired them on a slow machine)
			end := time.Now().Add(ttl)
			got := false
			for time.Now().Before(end) {
				if objState() == 1 && chanState() == 1 {
					got = true
					break
				}
				time.Sleep(5 * time.Millisecond)
			}
			if !got {
				skip("replication-slower-than-ttl")
				if killLeader {
					L.Kill()
					leaderAlive = false
					history = append(history, "leader killed")
				}
				return
			}
			upper = time.Now().Add(ttl)
			if killLeader {
				L.Kill()
				leaderAlive = false
				history = append(history, fmt.Sprintf("leader SIGKILLed %v after the probe's SET (F had the object and the channel)", time.Since(sentObj).Round(time.Millisecond)))
				hist = append(hist, history[len(history)-1])
			}
		}
		type item struct {
			what  string
			state func() int
			sent  time.Time
			seen  bool
			gone  bool
		}
		items := []*item{{what: "object k/" + id, state: objState, sent: sentObj}, {what: "channel " + ch, state: chanState, sent: sentChan}}
		bound := upper.Add(1500 * time.Millisecond)
		for {
			open := 0
			for _, it := range items {
				if it.gone {
					continue
				}
				open++
				t0 := time.Now()
				switch it.state() {
				case 1:
					it.seen = true
					if t0.After(bound) {
						fail("role-not-expired", fmt.Sprintf("%s with EX %s is still served %v after its deadline by a server with this history: %s", it.what, ex, t0.Sub(upper).Round(10*time.Millisecond), strings.Join(hist, " ; ")), hist)
						it.gone = true
					}
				case 0:
					it.gone = true
					if time.Now().Before(it.sent.Add(ttl)) {
						fail("role-expired-early", fmt.Sprintf("%s with EX %s, sent at most %v ago, is already missing on a server with this history: %s", it.what, ex, time.Since(it.sent).Round(time.Millisecond), strings.Join(hist, " ; ")), hist)
					}
				default:
					if t0.After(bound.Add(2 * time.Second)) {
						it.gone = true // no answers: inconclusive
						skip("no-answer")
					}
				}
			}
			if open == 0 {
				break
			}
			time.Sleep(25 * time.Millisecond)
		}
		if items[0].seen && items[1].seen {
			nontrivial++
		}
	}
	for _, st := range sc.steps {
		switch st {
		case "follow":
			if !leaderAlive {
				nl, err := startChecked(ldir, L.Port)
				if err != nil {
					skip("leader-restart")
					continue
				}
				L = nl
				leaderAlive = true
				history = append(history, "leader restarted")
			}
			if v, err := do(F, "FOLLOW", "127.0.0.1", strconv.Itoa(L.Port)); err != nil || v.IsErr() {
				skip("follow-refused")
				continue
			}
			following = true
			history = append(history, "FOLLOW <leader>")
			if !synced(12 * time.Second) {
				skip("never-caught-up")
				continue
			}
			probe(L, false)
		case "promote":
			if v, err := do(F, "FOLLOW", "no", "one"); err != nil || v.IsErr() {
				skip("promote-refused")
				continue
			}
			following = false
			history = append(history, "FOLLOW no one")
			if !readable(5 * time.Second) {
				skip("not-readable-after-promote")
				continue
			}
			probe(F, false)
		case "restart":
			F.Stop()
			nf, err := startChecked(fdir, 0)
			if err != nil {
				skip("server-restart")
				return
			}
			F = nf
			history = append(history, fmt.Sprintf("restarted (boots as %s)", map[bool]string{true: "follower", false: "leader"}[following]))
			if following && !leaderAlive {
				continue // cannot be written to and does not serve reads until a leader is back
			}
			if !readable(10*time.Second) || (following && !synced(12*time.Second)) {
				skip("not-readable-after-restart")
				continue
			}
			if following {
				probe(L, false)
			} else {
				probe(F, false)
			}
		case "leader-lost":
			if !following || !leaderAlive {
				continue
			}
			if !synced(12 * time.Second) {
				skip("not-synced")
				continue
			}
			probe(L, true)
		}
	}
	mu.Lock()
	r.Count(fmt.Sprintf("role-history %s: %s", sc.name, strings.Join(sc.steps, ",")), nontrivial >= 2)
	r.Dist("D:role-history")
	r.TracesImpl++
	r.Sample(10, map[string]interface{}{"scenario": "role-history", "steps": sc.steps, "probes": probeN, "history": history})
	mu.Unlock()
}
