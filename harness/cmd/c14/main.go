// C14 harness: (A) in-package: random SET-with-deadline / re-deadline / persist / delete histories on
// the real collection.Collection against the extracted expiry model (id index, expiry index order,
// victims of sweeps at chosen instants); (B) black-box, time-free: TTL class after each of SET EX /
// EXPIRE / PERSIST / SET / DEL / RENAME with long deadlines vs the model; (C) black-box, timed:
// sub-second deadlines, polling: never missing before the deadline, gone within a bound after it,
// survivors (overwritten, persisted, re-created) never removed by a stale timer, a DEL in the AOF,
// a `del` on a fence channel, nothing resurrected by a restart; hooks/channels with EX likewise.
package main

import (
	"encoding/json"
	"fmt"
	"math/rand"
	"os"
	"path/filepath"
	"sort"
	"strconv"
	"strings"
	"sync"
	"time"

	"github.com/tidwall/tile38/verifapi"
	"verifharness/internal/hooklife"
	"verifharness/internal/hx"
	"verifharness/internal/model"
	"verifharness/internal/srv"
)

func main() { hx.Main("C14", run) }

func run(r *hx.Result, cfg hx.Config) {
	r.Rule = "A: in-package op sequences (set with/without deadline, move deadline, persist, delete, sweeps at random instants) over 6 ids on the real Collection vs the extracted model: objects, expiry-index order, sweep victims; non-trivial = distinct sequence in which a sweep removed at least one object and kept at least one with a deadline. B: black-box sequences with long deadlines: TTL class (-2/-1/>=0) per id after every command vs the model. C: timed scenarios with 0.4-0.9 s deadlines polled every 40 ms; non-trivial = scenario in which at least one object expired and at least one former-deadline object survived. C also: channels and hooks re-declared with the identical definition and another EX (EX 0.4-0.7 then EX 100; permanent then EX 0.4-0.7 then permanent again; EX then permanent; plain EX), polled through CHANS/HOOKS every 40 ms and their reported ttl read after each declaration."
	r.Assumptions = []string{"client clock and server clock are the same machine clock", "bounded delay asserted: an expired object is gone 1.5 s after its deadline (100 ms sweeper + scheduling slack)"}
	rng := rand.New(rand.NewSource(cfg.Seed))
	drv, err := model.Start("expire")
	if err != nil {
		panic(err)
	}
	defer drv.Close()
	inPackage(r, drv, rng, cfg)
	timeFree(r, drv, rng, cfg)
	timed(r, rng, cfg)
	rolesR3(r, rng, cfg) // seeds_r3.go: expiry after every step of a role history (c14_sweeper_in_every_role)
	scriptsR4(r, rng, cfg) // seeds_r4.go: deadline commands directly and through scripts, kill -9 + restart, follower (c14_script_*)
	// hooks and channels against the life-cycle model (coq/Model/HookLife.v, the c14_hook_* theorems)
	hooklife.RunC14(r, cfg)
}

var ids = []string{"a", "b", "c", "d", "e", "\xff"}

func inPackage(r *hx.Result, drv *model.Driver, rng *rand.Rand, cfg hx.Config) {
	n := 1500
	if cfg.Tier == "thorough" || cfg.Search {
		n = 40000
	}
	for i := 0; i < n; i++ {
		c := verifapi.NewColl()
		vals := map[string]int{}
		var ops []string
		var implLog []string
		nops := 3 + rng.Intn(14)
		sweptSome, keptDeadline := false, false
		for j := 0; j < nops; j++ {
			id := ids[rng.Intn(len(ids))]
			ex := int64(0)
			if rng.Intn(3) > 0 {
				ex = int64(10 + rng.Intn(12)*10)
			}
			switch rng.Intn(9) {
			case 0, 1, 2, 3:
				v := rng.Intn(1000)
				vals[id] = v
				c.Set(verifapi.NewStringObj(id, strconv.Itoa(v), ex))
				ops = append(ops, fmt.Sprintf("S:%s:%d:%d", model.H(id), v, ex))
			case 4:
				if o := c.Get(id); o != nil {
					c.Set(verifapi.NewStringObj(id, o.String(), ex))
				}
				ops = append(ops, fmt.Sprintf("E:%s:%d", model.H(id), ex))
			case 5:
				if o := c.Get(id); o != nil {
					c.Set(verifapi.NewStringObj(id, o.String(), 0))
				}
				ops = append(ops, "P:"+model.H(id))
			case 6:
				c.Delete(id)
				ops = append(ops, "D:"+model.H(id))
			default:
				now := int64(rng.Intn(140))
				// the sweeper's loop, verbatim: stop at the first future deadline, then delete
				var dels []string
				for _, o := range c.ScanExpires() {
					if now < o.Expires() {
						break
					}
					dels = append(dels, o.ID())
				}
				var hs []string
				for _, id := range dels {
					c.Delete(id)
					hs = append(hs, model.H(id))
				}
				implLog = append(implLog, "["+strings.Join(hs, ",")+"]")
				ops = append(ops, fmt.Sprintf("W:%d", now))
				if len(dels) > 0 {
					sweptSome = true
				}
				if len(c.ScanExpires()) > 0 {
					keptDeadline = true
				}
			}
		}
		// observable state of the implementation
		var os []string
		for _, o := range c.Scan(false) {
			os = append(os, fmt.Sprintf("%s=%s/%d", model.H(o.ID()), o.String(), o.Expires()))
		}
		sort.Strings(os)
		var es []string
		for _, o := range c.ScanExpires() {
			es = append(es, model.H(o.ID()))
		}
		impl := fmt.Sprintf("%s | %s | %s", strings.Join(os, ","), strings.Join(es, ","), strings.Join(implLog, ""))
		mod := drv.Ask(append([]string{"expire_run"}, ops...)...)
		r.Count(strings.Join(ops, " "), sweptSome && keptDeadline)
		r.Dist("A:in-package")
		if sweptSome && keptDeadline {
			r.Sample(2, map[string]interface{}{"ops": ops, "state": impl})
		}
		if impl != mod {
			r.Fail(hx.Failure{Kind: "correspondence", Signature: "expire-model", What: "collection id index / expiry index / sweep victims differ from Model.Expire", Case: ops, Impl: impl, Model: mod})
		}
		// direct oracle: the expiry index holds exactly the objects with a deadline
		_, _, _, nexp := c.IndexLens()
		want := 0
		for _, o := range c.Scan(false) {
			if o.Expires() != 0 {
				want++
			}
		}
		if nexp != want {
			r.Fail(hx.Failure{Kind: "oracle", Signature: "expiry-index-size", What: fmt.Sprintf("expiry index has %d entries, %d objects have a deadline", nexp, want), Case: ops})
		}
	}
}

func ttlClass(v srv.Value) string {
	if v.Kind == '-' {
		return "missing"
	}
	if v.Kind == ':' {
		switch {
		case v.Int == -1:
			return "none"
		case v.Int == -2:
			return "missing"
		case v.Int >= 0:
			return "deadline"
		}
	}
	return "?" + v.String()
}

func timeFree(r *hx.Result, drv *model.Driver, rng *rand.Rand, cfg hx.Config) {
	n := 25
	if cfg.Tier == "thorough" || cfg.Search {
		n = 400
	}
	s, err := srv.Start(filepath.Join(cfg.Work, "tf"), "--appendonly", "no")
	if err != nil {
		panic(err)
	}
	defer s.Kill()
	c := s.MustDial()
	defer c.Close()
	for i := 0; i < n; i++ {
		key := fmt.Sprintf("k%d", i)
		var ops []string
		okAll := true
		for j := 0; j < 5+rng.Intn(20) && okAll; j++ {
			id := ids[rng.Intn(5)]
			switch rng.Intn(6) {
			case 0, 1:
				ex := int64(0)
				a := []string{"SET", key, id}
				if rng.Intn(2) == 0 {
					ex = 5000
					a = append(a, "EX", "5000")
				}
				c.MustDo(append(a, "STRING", "v")...)
				ops = append(ops, fmt.Sprintf("S:%s:0:%d", model.H(id), ex))
			case 2:
				c.MustDo("EXPIRE", key, id, "7000")
				ops = append(ops, fmt.Sprintf("E:%s:7000", model.H(id)))
			case 3:
				c.MustDo("PERSIST", key, id)
				ops = append(ops, "P:"+model.H(id))
			case 4:
				c.MustDo("DEL", key, id)
				ops = append(ops, "D:"+model.H(id))
			case 5:
				c.MustDo("FSET", key, id, "f", "1") // must keep the deadline
			}
			// compare the TTL class of every id with the model
			mod := drv.Ask(append([]string{"expire_run"}, ops...)...)
			objs := strings.TrimSpace(strings.SplitN(mod, "|", 2)[0])
			want := map[string]string{}
			if objs != "" {
				for _, e := range strings.Split(objs, ",") {
					kv := strings.SplitN(e, "=", 2)
					ex := strings.SplitN(kv[1], "/", 2)[1]
					if ex == "0" {
						want[model.U(kv[0])] = "none"
					} else {
						want[model.U(kv[0])] = "deadline"
					}
				}
			}
			for _, id := range ids[:5] {
				got := ttlClass(c.MustDo("TTL", key, id))
				w := want[id]
				if w == "" {
					w = "missing"
				}
				if got != w {
					okAll = false
					r.Fail(hx.Failure{Kind: "correspondence", Signature: "ttl-class-model", What: fmt.Sprintf("TTL %s %s is %s, the model says %s", key, id, got, w), Case: ops, Impl: got, Model: w})
				}
			}
		}
		r.Count("tf:"+strings.Join(ops, " "), len(ops) >= 5)
		r.Dist("B:time-free")
	}
}

type watch struct {
	key, id  string
	deadline time.Time // zero: must survive
	setAt    time.Time
	ttl      time.Duration
	gone     time.Time
}

func timed(r *hx.Result, rng *rand.Rand, cfg hx.Config) {
	n := 4
	if cfg.Tier == "thorough" || cfg.Search {
		n = 48
	}
	var mu sync.Mutex
	var wg sync.WaitGroup
	sem := make(chan struct{}, 8)
	for i := 0; i < n; i++ {
		wg.Add(1)
		seed := rng.Int63()
		go func(i int, seed int64) {
			defer wg.Done()
			sem <- struct{}{}
			defer func() { <-sem }()
			lr := rand.New(rand.NewSource(seed))
			dir := filepath.Join(cfg.Work, fmt.Sprintf("t%d", i))
			s, err := srv.Start(dir)
			if err != nil {
				panic(err)
			}
			defer func() { s.Kill() }()
			fail := func(sig, what string, cs interface{}) {
				mu.Lock()
				r.Fail(hx.Failure{Kind: "oracle", Signature: sig, What: what, Case: cs})
				mu.Unlock()
			}
			c := s.MustDial()
			defer c.Close()
			// a fence channel over the whole area, and a subscriber
			c.MustDo("SETCHAN", "watch", "WITHIN", "k", "FENCE", "BOUNDS", "-10", "-10", "10", "10")
			sub := s.MustDial()
			defer sub.Close()
			sub.MustDo("SUBSCRIBE", "watch")
			var subMsgs []string
			var submu sync.Mutex
			go func() {
				sub.Timeout = 6 * time.Second
				for {
					v, err := sub.Read()
					if err != nil {
						return
					}
					submu.Lock()
					subMsgs = append(subMsgs, v.String())
					submu.Unlock()
				}
			}()
			ttlOf := func() (string, time.Duration) {
				ms := 400 + lr.Intn(500)
				return fmt.Sprintf("%.3f", float64(ms)/1000), time.Duration(ms) * time.Millisecond
			}
			var ws []*watch
			set := func(key, id string, withEx bool) *watch {
				w := &watch{key: key, id: id}
				a := []string{"SET", key, id}
				if withEx {
					sx, d := ttlOf()
					a = append(a, "EX", sx)
					w.ttl = d
				}
				w.setAt = time.Now()
				c.MustDo(append(a, "POINT", "1", "1")...)
				if withEx {
					w.deadline = time.Now().Add(w.ttl) // upper bound of the real deadline
				}
				return w
			}
			// expiring objects
			ws = append(ws, set("k", "exp1", true), set("k", "exp2", true))
			// long deadline, TTL must report it
			c.MustDo("SET", "k", "long", "EX", "50", "POINT", "1", "1")
			if v := c.MustDo("TTL", "k", "long"); v.Kind != ':' || v.Int < 48 || v.Int > 50 {
				fail("ttl-value", "TTL of an object set with EX 50 is "+v.String(), nil)
			}
			// survivors: overwritten without EX, persisted, re-created after delete, moved far away
			w := set("k", "over", true)
			c.MustDo("SET", "k", "over", "POINT", "2", "2")
			w.deadline = time.Time{}
			ws = append(ws, w)
			w = set("k", "pers", true)
			c.MustDo("PERSIST", "k", "pers")
			w.deadline = time.Time{}
			ws = append(ws, w)
			w = set("k", "redo", true)
			c.MustDo("DEL", "k", "redo")
			c.MustDo("SET", "k", "redo", "POINT", "3", "3")
			w.deadline = time.Time{}
			ws = append(ws, w)
			w = set("k", "far", true)
			c.MustDo("EXPIRE", "k", "far", "500")
			w.deadline = time.Time{}
			ws = append(ws, w)
			// EXPIRE shortens a long deadline
			c.MustDo("SET", "k", "short", "EX", "300", "POINT", "1", "1")
			sx, d := ttlOf()
			w = &watch{key: "k", id: "short", setAt: time.Now(), ttl: d}
			c.MustDo("EXPIRE", "k", "short", sx)
			w.deadline = time.Now().Add(d)
			ws = append(ws, w)
			// rename carries the deadline
			w = set("r1", "mv", true)
			c.MustDo("RENAME", "r1", "r2")
			w.key = "r2"
			ws = append(ws, w)
			// channel with EX
			sx, d = ttlOf()
			chanSet := time.Now()
			c.MustDo("SETCHAN", "tmpchan", "EX", sx, "NEARBY", "k", "FENCE", "POINT", "1", "1", "100")
			chanDeadline := time.Now().Add(d)
			chanTTL := d
			var chanGone time.Time
			// poll
			end := time.Now().Add(2600 * time.Millisecond)
			for time.Now().Before(end) {
				for _, w := range ws {
					t0 := time.Now()
					v := c.MustDo("GET", w.key, w.id)
					present := v.Kind != '-' && v.Kind != 'n'
					if !present && w.gone.IsZero() {
						w.gone = t0
						if w.deadline.IsZero() {
							fail("stale-timer", fmt.Sprintf("object %s/%s, whose deadline had been removed or moved away, disappeared", w.key, w.id), nil)
						} else if time.Now().Before(w.setAt.Add(w.ttl)) {
							fail("expired-early", fmt.Sprintf("object %s/%s with a %v deadline set at %v was already missing at %v", w.key, w.id, w.ttl, w.setAt.Format("15:04:05.000"), time.Now().Format("15:04:05.000")), nil)
						}
					}
					if present && !w.deadline.IsZero() && t0.After(w.deadline.Add(1500*time.Millisecond)) {
						fail("not-expired", fmt.Sprintf("object %s/%s is still served %v after its deadline", w.key, w.id, t0.Sub(w.deadline)), nil)
						w.deadline = time.Time{}
					}
					if present && !w.deadline.IsZero() {
						// every read path agrees while it is served
						cnt := c.MustDo("SCAN", w.key, "MATCH", w.id, "COUNT")
						if cnt.Kind == ':' && cnt.Int == 0 {
							g2 := c.MustDo("GET", w.key, w.id)
							if g2.Kind != '-' && g2.Kind != 'n' {
								fail("read-paths-disagree", fmt.Sprintf("%s/%s: GET serves it but SCAN COUNT is 0", w.key, w.id), nil)
							}
						}
					}
				}
				t0 := time.Now()
				v := c.MustDo("CHANS", "tmpchan")
				if len(v.Array) == 0 && chanGone.IsZero() {
					chanGone = t0
					if time.Now().Before(chanSet.Add(chanTTL)) {
						fail("chan-expired-early", "channel with EX disappeared before its deadline", nil)
					}
				}
				if len(v.Array) > 0 && t0.After(chanDeadline.Add(1500*time.Millisecond)) {
					fail("chan-not-expired", "channel with EX still listed 1.5 s after its deadline", nil)
					chanDeadline = t0.Add(time.Hour)
				}
				time.Sleep(40 * time.Millisecond)
			}
			expired, survivors := 0, 0
			for _, w := range ws {
				if !w.gone.IsZero() {
					expired++
				} else if w.deadline.IsZero() {
					survivors++
				}
			}
			// AOF and fence: a del for each expired object of k; delchan for the channel
			c.Close()
			s.Stop()
			raw, _ := os.ReadFile(filepath.Join(dir, "appendonly.aof"))
			aof := strings.ToLower(string(raw))
			for _, w := range ws {
				if !w.gone.IsZero() && !w.deadline.IsZero() {
					if !strings.Contains(aof, "\r\ndel\r\n$"+strconv.Itoa(len(w.key))+"\r\n"+w.key+"\r\n$"+strconv.Itoa(len(w.id))+"\r\n"+w.id+"\r\n") {
						fail("expiry-not-logged", fmt.Sprintf("object %s/%s expired but the AOF has no DEL %s %s", w.key, w.id, w.key, w.id), nil)
					}
				}
			}
			if !chanGone.IsZero() && !strings.Contains(aof, "\r\ndelchan\r\n$7\r\ntmpchan\r\n") {
				fail("chan-expiry-not-logged", "channel expired but the AOF has no DELCHAN tmpchan", nil)
			}
			submu.Lock()
			all := strings.Join(subMsgs, "\n")
			submu.Unlock()
			for _, w := range ws {
				if w.key == "k" && !w.gone.IsZero() && !w.deadline.IsZero() {
					if !strings.Contains(all, `\"command\":\"del\"`) || !strings.Contains(all, `\"id\":\"`+w.id+`\"`) {
						fail("expiry-no-fence-del", fmt.Sprintf("object k/%s inside the fence expired but the channel delivered no del message for it", w.id), nil)
					}
				}
			}
			// restart: nothing resurrected, survivors still there
			s2, err := srv.StartPort(dir, srv.FreePort())
			if err != nil {
				fail("restart-failed", err.Error(), nil)
				return
			}
			defer s2.Kill()
			c2 := s2.MustDial()
			for _, w := range ws {
				v := c2.MustDo("GET", w.key, w.id)
				present := v.Kind != '-' && v.Kind != 'n'
				if present && !w.gone.IsZero() {
					fail("expired-object-resurrected", fmt.Sprintf("%s/%s had expired and is back after a restart", w.key, w.id), nil)
				}
				if !present && w.gone.IsZero() && w.deadline.IsZero() {
					fail("survivor-lost-on-restart", fmt.Sprintf("%s/%s was alive and is missing after a restart", w.key, w.id), nil)
				}
			}
			c2.Close()
			mu.Lock()
			r.Count(fmt.Sprintf("timed %d: %d expired %d survivors", i, expired, survivors), expired >= 1 && survivors >= 1)
			r.Dist("C:timed")
			r.TracesImpl++
			r.Sample(6, map[string]interface{}{"scenario": "timed", "expired": expired, "survivors": survivors, "fence_messages": len(subMsgs)})
			mu.Unlock()
		}(i, seed)
	}
	// hooks and channels re-declared with the identical definition and another EX: the deadline moves
	// (c14_redeclare_moves_deadline under hook = id, definition = payload)
	nh := 2
	if cfg.Tier == "thorough" || cfg.Search {
		nh = 12
	}
	for i := 0; i < nh; i++ {
		wg.Add(1)
		seed := rng.Int63()
		go func(i int, seed int64) {
			defer wg.Done()
			sem <- struct{}{}
			defer func() { <-sem }()
			timedHooks(r, &mu, cfg, i, seed)
		}(i, seed)
	}
	wg.Wait()
}

type hwatch struct {
	kind, name, mode string // kind CHAN | HOOK; mode moved | perm-then-ex | ex-then-perm | plain-ex
	setAt            time.Time
	ttl              time.Duration
	deadline         time.Time // upper bound of the deadline in force; zero: must survive
	gone             time.Time
	expiredOnce      bool
	history          []string
}

// timedHooks: for channels and for hooks (http endpoint on a closed port)
//
//	moved         SET* n EX 0.4-0.7 <def> ; SET* n EX 100 <def>   -> still listed 1.5 s after the old deadline
//	perm-then-ex  SET* n <def> ; SET* n EX 0.4-0.7 <def>          -> listed until the deadline, gone within the bound;
//	              then SET* n <def> again                          -> never disappears (no stale entry)
//	ex-then-perm  SET* n EX 0.4-0.7 <def> ; SET* n <def>          -> never disappears
//	plain-ex      SET* n EX 0.4-0.7 <def>                         -> gone within the bound, not before
//
// polled through CHANS * / HOOKS * every 40 ms; the reported ttl is checked right after each declaration.
func timedHooks(r *hx.Result, mu *sync.Mutex, cfg hx.Config, i int, seed int64) {
	lr := rand.New(rand.NewSource(seed))
	dir := filepath.Join(cfg.Work, fmt.Sprintf("th%d", i))
	s, err := srv.Start(dir)
	if err != nil {
		panic(err)
	}
	defer func() { s.Kill() }()
	fail := func(sig, what string, cs interface{}) {
		mu.Lock()
		r.Fail(hx.Failure{Kind: "oracle", Signature: sig, What: what, Case: cs})
		mu.Unlock()
	}
	c := s.MustDial()
	defer c.Close()
	cj := s.MustDial() // JSON output: the listing carries "ttl"
	defer cj.Close()
	cj.MustDo("OUTPUT", "json")
	endpoint := fmt.Sprintf("http://127.0.0.1:%d/hook", srv.FreePort())
	def := []string{"NEARBY", "fleet", "FENCE", "DETECT", "enter,exit", "POINT", "33", "-112", "5000"}
	declare := func(w *hwatch, ex string) {
		a := []string{"SET" + w.kind, w.name}
		if w.kind == "HOOK" {
			a = append(a, endpoint)
		}
		if ex != "" {
			a = append(a, "EX", ex)
		}
		a = append(a, def...)
		w.history = append(w.history, strings.Join(a, " "))
		if v := c.MustDo(a...); v.Kind == '-' {
			fail("hook-setup", fmt.Sprintf("%q refused: %s", strings.Join(a, " "), v.String()), w.history)
		}
	}
	// ttl as HOOKS / CHANS report it in JSON: -1 none, -2 not listed
	ttlOf := func(w *hwatch) int {
		v := cj.MustDo(w.kind+"S", w.name)
		var reply map[string]json.RawMessage
		var items []struct {
			Name string  `json:"name"`
			TTL  float64 `json:"ttl"`
		}
		if json.Unmarshal([]byte(v.Str), &reply) == nil {
			json.Unmarshal(reply[strings.ToLower(w.kind)+"s"], &items)
		}
		for _, it := range items {
			if it.Name == w.name {
				return int(it.TTL)
			}
		}
		return -2
	}
	wantTTL := func(w *hwatch, lo, hi int, what string) {
		if t := ttlOf(w); t < lo || t > hi {
			fail("hook-deadline-not-moved", fmt.Sprintf("%s %s %s: the listing reports ttl %d, expected %d..%d", strings.ToLower(w.kind), w.name, what, t, lo, hi), w.history)
		}
	}
	shortEX := func() (string, time.Duration) {
		ms := 400 + lr.Intn(300)
		return fmt.Sprintf("%.3f", float64(ms)/1000), time.Duration(ms) * time.Millisecond
	}
	var ws []*hwatch
	start := time.Now()
	for _, kind := range []string{"CHAN", "HOOK"} {
		p := strings.ToLower(kind[:1])
		// moved
		w := &hwatch{kind: kind, name: p + "moved", mode: "moved"}
		sx, d := shortEX()
		w.setAt, w.ttl = time.Now(), d
		declare(w, sx)
		declare(w, "100")
		wantTTL(w, 98, 100, "re-declared identically with EX 100")
		ws = append(ws, w)
		// perm-then-ex
		w = &hwatch{kind: kind, name: p + "perm", mode: "perm-then-ex"}
		declare(w, "")
		wantTTL(w, -1, -1, "declared without EX")
		sx, d = shortEX()
		w.setAt, w.ttl = time.Now(), d
		declare(w, sx)
		w.deadline = time.Now().Add(d)
		if t := ttlOf(w); (t < 0 || t > 1) && time.Now().Before(w.setAt.Add(w.ttl)) {
			fail("hook-deadline-not-moved", fmt.Sprintf("%s %s re-declared identically with EX %s: the listing reports ttl %d, expected 0..1", strings.ToLower(w.kind), w.name, sx, t), w.history)
		}
		ws = append(ws, w)
		// ex-then-perm
		w = &hwatch{kind: kind, name: p + "kept", mode: "ex-then-perm"}
		sx, _ = shortEX()
		declare(w, sx)
		declare(w, "")
		wantTTL(w, -1, -1, "re-declared identically without EX")
		ws = append(ws, w)
		// plain-ex
		w = &hwatch{kind: kind, name: p + "plain", mode: "plain-ex"}
		sx, d = shortEX()
		w.setAt, w.ttl = time.Now(), d
		declare(w, sx)
		w.deadline = time.Now().Add(d)
		ws = append(ws, w)
	}
	end := start.Add(2500 * time.Millisecond) // every old deadline (<= 0.7 s) + 1.5 s, plus slack
	hardEnd := start.Add(6 * time.Second)
	for time.Now().Before(end) && time.Now().Before(hardEnd) {
		t0 := time.Now()
		listed := map[string]bool{}
		for _, kind := range []string{"CHAN", "HOOK"} {
			v := c.MustDo(kind+"S", "*")
			for _, h := range v.Array {
				if len(h.Array) > 0 {
					listed[kind+h.Array[0].Str] = true
				}
			}
		}
		for _, w := range ws {
			present := listed[w.kind+w.name]
			what := strings.ToLower(w.kind) + " " + w.name
			if w.deadline.IsZero() { // must survive
				if !present && w.gone.IsZero() {
					w.gone = t0
					switch {
					case w.mode == "moved":
						fail("hook-expired-early", fmt.Sprintf("%s was re-declared identically with EX 100 (first EX %v) and disappeared %v after the first declaration: the old timer was still armed", what, w.ttl, t0.Sub(w.setAt).Round(time.Millisecond)), w.history)
					default:
						fail("hook-stale-timer", fmt.Sprintf("%s has no deadline (last declared without EX) and disappeared %v after the scenario started: a stale timer removed it", what, t0.Sub(start).Round(time.Millisecond)), w.history)
					}
				}
				continue
			}
			if !present && w.gone.IsZero() {
				w.gone = t0
				w.expiredOnce = true
				if time.Now().Before(w.setAt.Add(w.ttl)) {
					fail("hook-expired-early", fmt.Sprintf("%s with a %v deadline was already missing %v after it was declared", what, w.ttl, time.Since(w.setAt).Round(time.Millisecond)), w.history)
				}
				if w.mode == "perm-then-ex" {
					// declared permanent once more: must never disappear again
					declare(w, "")
					wantTTL(w, -1, -1, "declared again without EX after it had expired")
					w.deadline, w.gone = time.Time{}, time.Time{}
					if e := time.Now().Add(1300 * time.Millisecond); e.After(end) {
						end = e
					}
				}
				continue
			}
			if present && w.gone.IsZero() && t0.After(w.deadline.Add(1500*time.Millisecond)) {
				fail("hook-not-expired", fmt.Sprintf("%s (%s) is still listed %v after its deadline", what, w.mode, t0.Sub(w.deadline).Round(time.Millisecond)), w.history)
				w.gone = t0 // report once
			}
		}
		time.Sleep(40 * time.Millisecond)
	}
	expired, survivors := 0, 0
	for _, w := range ws {
		if w.expiredOnce {
			expired++
		}
		if w.deadline.IsZero() && w.gone.IsZero() {
			survivors++
		} else if !w.deadline.IsZero() && !w.expiredOnce && w.gone.IsZero() {
			fail("hook-not-expired", fmt.Sprintf("%s %s (%s) with a %v deadline never disappeared during %v of polling", strings.ToLower(w.kind), w.name, w.mode, w.ttl, time.Since(start).Round(time.Millisecond)), w.history)
		}
	}
	mu.Lock()
	r.Count(fmt.Sprintf("timed-hooks %d: %d expired %d survivors", i, expired, survivors), expired >= 1 && survivors >= 1)
	r.Dist("C:timed-hooks")
	r.TracesImpl++
	r.Sample(8, map[string]interface{}{"scenario": "timed-hooks", "expired": expired, "survivors": survivors, "example": ws[1].history})
	mu.Unlock()
}
