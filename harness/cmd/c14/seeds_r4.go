// C14, round 4: deadlines moved or removed through tile38.call in a script survive a restart and
// reach a follower (coq/Model/ScriptExpire.v, c14_script_* in coq/Props/C14sc.v).
//
// One scenario = a leader L (append-only file on) and a follower F. Every deadline command is issued in
// each of the modes  direct | EVAL | EVALSHA | EVALNA | EVALNASHA  (the script is
// `return tile38.call(ARGV[1], ..., ARGV[n])`), each on an object of its own:
//
//	ex          <mode> SET k id EX T1                              -> deadline, TTL ~ T1
//	expire      SET k id EX T1 ; <mode> EXPIRE k id T2             -> deadline, TTL ~ T2
//	persist     SET k id EX T1 ; <mode> PERSIST k id               -> no deadline
//	setnoex     SET k id EX T1 ; <mode> SET k id (no EX)           -> no deadline
//	expire-perm SET k id ; <mode> EXPIRE k id T2                   -> deadline, TTL ~ T2
//	del         SET k id EX T1 ; <mode> DEL k id                   -> missing
//	s-persist / s-setnoex / s-far : the same as persist / setnoex / expire with T1 = 0.8-1.2 s
//	s-ex        <mode> SET k id EX 0.8-1.2                         -> expires (control)
//
// Then: TTL of every object on L (= the direct oracle "the command did what it says") and on F (same
// class, same TTL within 5 s); L is killed with SIGKILL and started again on its directory: every object
// must have the same has-deadline status and, within 5 s, the same TTL as before the kill; 1.5 s after the
// re-armed short deadlines the objects whose deadline had been removed or moved away must still be served
// (by the restarted L and by F, whose own sweeper runs), the controls must be gone.
package main

import (
	"fmt"
	"math/rand"
	"path/filepath"
	"strconv"
	"strings"
	"sync"
	"time"

	"verifharness/internal/hx"
	"verifharness/internal/srv"
)

type r4obj struct {
	id, mode, kind string
	want           string // class expected on the live leader: none | deadline | missing
	wantTTL        int64  // for deadline: the EX in force (seconds), 0 = short
	short          bool
	survives       bool // short cases: must still be served after the old deadline
	history        []string
	before         srv.Value
	dropped        bool
}

func scriptsR4(r *hx.Result, rng *rand.Rand, cfg hx.Config) {
	r.Rule += " E: SET EX / EXPIRE / PERSIST / SET without EX / DEL issued directly and through EVAL, EVALSHA, EVALNA, EVALNASHA (one object per command and mode, deadlines 100-20000 s and 0.8-1.2 s): TTL on the leader is what the command says; a follower reports the same; after kill -9 and restart every object has the same has-deadline status and the same TTL within 5 s; objects whose short deadline was removed or moved away are still served 1.5 s after the re-armed deadline on the restarted server and on the follower; non-trivial = scenario in which a control expired after the restart and at least four persisted objects survived."
	n := 1
	if cfg.Tier == "thorough" || cfg.Search {
		n = 6
	}
	var mu sync.Mutex
	var wg sync.WaitGroup
	sem := make(chan struct{}, 3)
	for i := 0; i < n; i++ {
		wg.Add(1)
		go func(i int, seed int64) {
			defer wg.Done()
			sem <- struct{}{}
			defer func() { <-sem }()
			runScriptDeadlines(r, &mu, cfg, i, rand.New(rand.NewSource(seed)))
		}(i, rng.Int63())
	}
	wg.Wait()
}

func runScriptDeadlines(r *hx.Result, mu *sync.Mutex, cfg hx.Config, idx int, lr *rand.Rand) {
	fail := func(sig, what string, cs interface{}) {
		mu.Lock()
		r.Fail(hx.Failure{Kind: "oracle", Signature: sig, What: what, Case: cs})
		mu.Unlock()
	}
	skip := func(why string) {
		mu.Lock()
		r.Dist("E:script-deadlines-skipped:" + why)
		mu.Unlock()
	}
	ldir := filepath.Join(cfg.Work, fmt.Sprintf("sd%d-L", idx))
	fdir := filepath.Join(cfg.Work, fmt.Sprintf("sd%d-F", idx))
	L, err := startChecked(ldir, 0)
	if err != nil {
		skip("leader-start")
		return
	}
	defer func() { L.Kill() }()
	F, err := startChecked(fdir, 0)
	if err != nil {
		skip("follower-start")
		return
	}
	defer func() { F.Kill() }()
	c, err := L.Dial()
	if err != nil {
		skip("dial")
		return
	}
	c.Timeout = 5 * time.Second
	fc, err := F.Dial()
	if err != nil {
		skip("dial")
		return
	}
	defer fc.Close()
	fc.Timeout = 5 * time.Second
	c.Do("SET", "k", "anchor", "POINT", "1", "1")
	hasFollower := false
	if v, err := fc.Do("FOLLOW", "127.0.0.1", strconv.Itoa(L.Port)); err == nil && !v.IsErr() {
		for end := time.Now().Add(12 * time.Second); time.Now().Before(end); time.Sleep(25 * time.Millisecond) {
			if v, err := fc.Do("GET", "k", "anchor"); err == nil && v.Kind == '$' {
				hasFollower = true
				break
			}
		}
	}
	if !hasFollower {
		skip("no-follower")
	}
	// ---- issuing a command in a mode ----
	shas := map[int]string{}
	scriptFor := func(n int) string {
		var as []string
		for i := 1; i <= n; i++ {
			as = append(as, fmt.Sprintf("ARGV[%d]", i))
		}
		return "return tile38.call(" + strings.Join(as, ", ") + ")"
	}
	issue := func(mode string, args ...string) (srv.Value, string, error) {
		var full []string
		switch mode {
		case "direct":
			full = args
		case "EVAL", "EVALNA":
			full = append([]string{mode, scriptFor(len(args)), "0"}, args...)
		case "EVALSHA", "EVALNASHA":
			sha, ok := shas[len(args)]
			if !ok {
				v, err := c.Do("SCRIPT", "LOAD", scriptFor(len(args)))
				if err != nil || v.IsErr() {
					return v, "SCRIPT LOAD", fmt.Errorf("script load: %v %s", err, v.String())
				}
				sha = v.Str
				shas[len(args)] = sha
			}
			full = append([]string{mode, sha, "0"}, args...)
		}
		text := strings.Join(full, " ")
		if mode == "EVALSHA" || mode == "EVALNASHA" {
			text += "   (sha of: " + scriptFor(len(args)) + ")"
		}
		v, err := c.Do(full...)
		return v, text, err
	}
	accepted := func(v srv.Value, err error) bool {
		if err != nil || v.IsErr() {
			return false
		}
		if v.Kind == ':' && v.Int == 0 {
			return false
		}
		return true
	}
	modes := []string{"direct", "EVAL", "EVALSHA", "EVALNA", "EVALNASHA"}
	lr.Shuffle(len(modes), func(i, j int) { modes[i], modes[j] = modes[j], modes[i] })
	var objs []*r4obj
	// step: run one command of the object's history; pre = issued directly, else in the object's mode
	step := func(o *r4obj, direct bool, args ...string) {
		if o.dropped {
			return
		}
		m := o.mode
		if direct {
			m = "direct"
		}
		v, text, err := issue(m, args...)
		o.history = append(o.history, text+"  -> "+v.String())
		if !accepted(v, err) {
			o.dropped = true
		}
	}
	sec := func(x int64) string { return strconv.FormatInt(x, 10) }
	mk := func(mode, kind string) *r4obj {
		o := &r4obj{id: strings.ToLower(mode) + "-" + kind, mode: mode, kind: kind}
		objs = append(objs, o)
		return o
	}
	for _, mode := range modes {
		t1 := int64(100 + lr.Intn(4900))
		t2 := t1*3 + 200 + int64(lr.Intn(1000))
		o := mk(mode, "ex")
		step(o, false, "SET", "k", o.id, "EX", sec(t1), "POINT", "1", "1")
		o.want, o.wantTTL = "deadline", t1
		o = mk(mode, "expire")
		step(o, true, "SET", "k", o.id, "EX", sec(t1), "POINT", "1", "1")
		step(o, false, "EXPIRE", "k", o.id, sec(t2))
		o.want, o.wantTTL = "deadline", t2
		o = mk(mode, "persist")
		step(o, true, "SET", "k", o.id, "EX", sec(t1), "POINT", "1", "1")
		step(o, false, "PERSIST", "k", o.id)
		o.want = "none"
		o = mk(mode, "setnoex")
		step(o, true, "SET", "k", o.id, "EX", sec(t1), "POINT", "1", "1")
		step(o, false, "SET", "k", o.id, "POINT", "2", "2")
		o.want = "none"
		o = mk(mode, "expire-perm")
		step(o, true, "SET", "k", o.id, "POINT", "1", "1")
		step(o, false, "EXPIRE", "k", o.id, sec(t2))
		o.want, o.wantTTL = "deadline", t2
		o = mk(mode, "del")
		step(o, true, "SET", "k", o.id, "EX", sec(t1), "POINT", "1", "1")
		step(o, false, "DEL", "k", o.id)
		o.want = "missing"
	}
	// short deadlines last, so that the kill comes before they pass
	maxShort := time.Duration(0)
	shortEX := func() string {
		ms := 800 + lr.Intn(400)
		if d := time.Duration(ms) * time.Millisecond; d > maxShort {
			maxShort = d
		}
		return fmt.Sprintf("%.3f", float64(ms)/1000)
	}
	for _, mode := range modes {
		o := mk(mode, "s-persist")
		o.short, o.survives, o.want = true, true, "none"
		step(o, true, "SET", "k", o.id, "EX", shortEX(), "POINT", "1", "1")
		step(o, false, "PERSIST", "k", o.id)
		o = mk(mode, "s-setnoex")
		o.short, o.survives, o.want = true, true, "none"
		step(o, true, "SET", "k", o.id, "EX", shortEX(), "POINT", "1", "1")
		step(o, false, "SET", "k", o.id, "POINT", "2", "2")
		o = mk(mode, "s-far")
		o.short, o.survives, o.want, o.wantTTL = true, true, "deadline", 3000
		step(o, true, "SET", "k", o.id, "EX", shortEX(), "POINT", "1", "1")
		step(o, false, "EXPIRE", "k", o.id, "3000")
		o = mk(mode, "s-ex")
		o.short, o.want = true, "deadline"
		step(o, false, "SET", "k", o.id, "EX", shortEX(), "POINT", "1", "1")
	}
	near := func(a, b int64) bool { return a-b <= 5 && b-a <= 5 }
	// ---- live leader: the command did what it says ----
	for _, o := range objs {
		if o.dropped {
			continue
		}
		o.before = c.MustDo("TTL", "k", o.id)
		got := ttlClass(o.before)
		if o.short && !o.survives {
			continue // the control may already be gone
		}
		if got != o.want || (got == "deadline" && o.wantTTL > 0 && !near(o.before.Int, o.wantTTL)) {
			fail("deadline-command-live", fmt.Sprintf("object k/%s after %q: TTL on the live server is %s, expected %s%s", o.id, o.history[len(o.history)-1], o.before.String(), o.want, map[bool]string{true: fmt.Sprintf(" ~%d", o.wantTTL), false: ""}[o.want == "deadline"]), o.history)
			o.dropped = true
		}
	}
	// ---- follower: same status ----
	if hasFollower {
		c.Do("SET", "k", "marker", "POINT", "3", "3")
		okSync := false
		for end := time.Now().Add(5 * time.Second); time.Now().Before(end); time.Sleep(10 * time.Millisecond) {
			if v, err := fc.Do("GET", "k", "marker"); err == nil && v.Kind == '$' {
				okSync = true
				break
			}
		}
		if !okSync {
			hasFollower = false
			skip("follower-not-synced")
		}
	}
	if hasFollower {
		for _, o := range objs {
			if o.dropped || (o.short && !o.survives) {
				continue
			}
			v, err := fc.Do("TTL", "k", o.id)
			if err != nil || (v.Kind == '-' && strings.Contains(v.Str, "catching")) {
				continue
			}
			got, want := ttlClass(v), ttlClass(o.before)
			if got != want || (got == "deadline" && !near(v.Int, o.before.Int)) {
				fail("deadline-command-follower-differs", fmt.Sprintf("object k/%s (%s, %s): the leader reports TTL %s, its caught-up follower %s — the deadline command did not reach the follower", o.id, o.mode, o.kind, o.before.String(), v.String()), o.history)
			}
		}
	}
	// ---- kill -9, restart ----
	c.Close()
	L.Kill()
	nl, err := startChecked(ldir, 0)
	if err != nil {
		skip("leader-restart")
		return
	}
	L = nl
	restarted := time.Now()
	c2, err := L.Dial()
	if err != nil {
		skip("dial")
		return
	}
	defer c2.Close()
	c2.Timeout = 5 * time.Second
	for _, o := range objs {
		if o.dropped || (o.short && !o.survives) {
			continue
		}
		v := c2.MustDo("TTL", "k", o.id)
		got, want := ttlClass(v), ttlClass(o.before)
		if got != want || (got == "deadline" && !near(v.Int, o.before.Int)) {
			fail("deadline-restart-differs", fmt.Sprintf("object k/%s (%s, %s): TTL %s before kill -9, %s after the restart from the append-only file", o.id, o.mode, o.kind, o.before.String(), v.String()), o.history)
		}
	}
	// ---- past the re-armed short deadlines ----
	time.Sleep(time.Until(restarted.Add(maxShort + 1500*time.Millisecond)))
	survivors, expired := 0, 0
	for _, o := range objs {
		if o.dropped || !o.short {
			continue
		}
		v := c2.MustDo("GET", "k", o.id)
		present := v.Kind == '$'
		if o.survives {
			if !present {
				fail("deadline-removed-yet-expired-after-restart", fmt.Sprintf("object k/%s (%s, %s) had TTL %s before kill -9; %v after the restart it is gone: the old short deadline was re-armed from the append-only file", o.id, o.mode, o.kind, o.before.String(), time.Since(restarted).Round(10*time.Millisecond)), o.history)
			} else {
				survivors++
			}
			if hasFollower {
				if fv, err := fc.Do("GET", "k", o.id); err == nil && fv.Kind == 'n' {
					fail("deadline-removed-yet-expired-on-follower", fmt.Sprintf("object k/%s (%s, %s) had TTL %s on the leader; the follower's own sweeper removed it at the old short deadline", o.id, o.mode, o.kind, o.before.String()), o.history)
				}
			}
		} else {
			if present {
				fail("restart-not-expired", fmt.Sprintf("object k/%s (%s) with a short EX is still served %v after the restart, 1.5 s past its re-armed deadline", o.id, o.mode, time.Since(restarted).Round(10*time.Millisecond)), o.history)
			} else {
				expired++
			}
		}
	}
	dropped := 0
	for _, o := range objs {
		if o.dropped {
			dropped++
		}
	}
	mu.Lock()
	r.Count(fmt.Sprintf("script-deadlines %d: modes %s", idx, strings.Join(modes, ",")), expired >= 1 && survivors >= 4)
	r.Dist("E:script-deadlines")
	r.TracesImpl++
	r.Sample(12, map[string]interface{}{"scenario": "script-deadlines", "objects": len(objs), "dropped": dropped, "survivors": survivors, "expired_controls": expired, "follower": hasFollower, "example": objs[2].history})
	mu.Unlock()
}
