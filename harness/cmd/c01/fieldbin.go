// C01 — the packed layout of field.List (internal/field/list_binary.go) against Model/FieldBin.v.
//
// In-package through verifapi (fieldbin.go): after every List.Set the RAW bytes of the list (size
// header + entries) are compared with the bytes Model.FieldBin.bl_set produces, and Scan / Get / Len /
// Weight with bl_scan / bl_get / bl_len / weight (correspondence field-bin-*).  Lists are grown across
// the boundaries at which the size header gets one byte longer (2^7, 2^14, 2^21 bytes of entries:
// just below / at / above, with one long string value so that it stays cheap), and hand-made raw
// lists (valid header, arbitrary entries) are read by both sides.  Direct oracle field-bin-readback
// (no model): what was set reads back, Len counts it, Weight is the size of the allocation.
//
// Black-box (bigValueProgram, run through runProgram like every corpus program): a small field, a
// 1 MiB value, a 2.1 MiB value, one more small field, then FGET / FEXISTS / GET WITHFIELDS / SCAN and
// a plain SET, replies and dumps compared with Model.Keyspace.exec and the plain-map specification.
package main

import (
	"encoding/binary"
	"fmt"
	"math/rand"
	"os"
	"strconv"
	"strings"
	"syscall"
	"time"

	"github.com/tidwall/tile38/verifapi"
	"verifharness/internal/hx"
	"verifharness/internal/model"
)

// prepareForBigLists: the extracted model recurses once per byte of a value (Coq lists), so a
// 2 MiB value needs a deep stack and, because OCaml scans the stack at every minor collection, a
// large minor heap. Both are inherited by the driver process. false = the stack limit cannot be
// raised here; the megabyte cases are then left to the direct oracles.
func prepareForBigLists() bool {
	var lim syscall.Rlimit
	if err := syscall.Getrlimit(syscall.RLIMIT_STACK, &lim); err != nil {
		return false
	}
	const want = 8 << 30
	if lim.Cur < want {
		nl := lim
		nl.Cur = want
		if lim.Max < want {
			nl.Cur = lim.Max
		}
		if err := syscall.Setrlimit(syscall.RLIMIT_STACK, &nl); err != nil {
			return false
		}
		lim = nl
	}
	if os.Getenv("OCAMLRUNPARAM") == "" {
		os.Setenv("OCAMLRUNPARAM", "s=64M")
	}
	return lim.Cur >= 2<<30
}

const foxes = "the quick brown fox jumps over the lazy dog "

func foxText(n int) string { return strings.Repeat(foxes, n/len(foxes)+1)[:n] }

// bigValueProgram: one object's field list crosses 2^21 bytes (the size header goes from three to
// four bytes) while a second object stays at 1 MiB.
func bigValueProgram() [][]string {
	S := func(s ...string) []string { return s }
	mib := foxText(1 << 20)
	big := foxText(2200004)
	return [][]string{
		S("SET", "fleet", "truck", "FIELD", "tag", "7", "POINT", "33", "-115"),
		S("SET", "fleet", "van", "FIELD", "tag", "8", "POINT", "34", "-116"),
		S("FSET", "fleet", "van", "note", mib),
		S("FGET", "fleet", "van", "note"), S("FGET", "fleet", "van", "tag"),
		S("FSET", "fleet", "truck", "note", big),
		S("FGET", "fleet", "truck", "note"), S("FGET", "fleet", "truck", "tag"),
		S("FEXISTS", "fleet", "truck", "note"), S("FEXISTS", "fleet", "truck", "tag"),
		S("FSET", "fleet", "truck", "note", big),
		S("FSET", "fleet", "truck", "speed", "55"),
		S("FGET", "fleet", "truck", "speed"), S("FGET", "fleet", "truck", "tag"),
		S("GET", "fleet", "truck", "WITHFIELDS"),
		S("SCAN", "fleet", "LIMIT", "1", "IDS"), S("SCAN", "fleet", "MATCH", "tr*"),
		S("SET", "fleet", "truck", "POINT", "35", "-117"),
		S("FGET", "fleet", "truck", "tag"), S("FGET", "fleet", "truck", "note"),
		S("FSET", "fleet", "truck", "note", "0"), S("GET", "fleet", "truck", "WITHFIELDS"),
	}
}

// fbDigest shows a byte string the way the driver does: hex, or for long ones
// D<length>:<hash>:<hash>:<first 16>:<last 16>.
func fbDigest(b []byte) string {
	if len(b) <= 2048 {
		return model.H(string(b))
	}
	h1, h2 := 7, 11
	for _, v := range b {
		h1 = (h1*257 + int(v)) % 2147483647
		h2 = (h2*263 + int(v)) % 1000000007
	}
	return fmt.Sprintf("D%d:%d:%d:%s:%s", len(b), h1, h2, model.H(string(b[:16])), model.H(string(b[len(b)-16:])))
}

func fbRaw(raw []byte) string {
	if raw == nil {
		return "nil"
	}
	return fbDigest(raw)
}

func fbField(e verifapi.KsFieldEntry) string {
	return fmt.Sprintf("%s:%d:%s", model.H(e.Name), e.Kind, fbDigest([]byte(e.Data)))
}

func fbFields(es []verifapi.KsFieldEntry) string {
	if len(es) == 0 {
		return "."
	}
	parts := make([]string, len(es))
	for i, e := range es {
		parts[i] = fbField(e)
	}
	return strings.Join(parts, ",")
}

// fbData is the data token of a value for the driver: rep:<byte>:<count> for a run of one byte.
func fbData(d string) string {
	if len(d) > 64 && strings.Count(d, d[:1]) == len(d) {
		return fmt.Sprintf("rep:%02x:%d", d[0], len(d))
	}
	return model.H(d)
}

func uvLen(x int) int {
	var b [10]byte
	return binary.PutUvarint(b[:], uint64(x))
}

type fbTester struct {
	r    *hx.Result
	m    *mdl
	l    *verifapi.KsFieldList
	hist []string // the Set calls that built the list, for failure records
}

func (t *fbTester) reset() {
	t.l = &verifapi.KsFieldList{}
	t.hist = nil
	t.m.ask("fb_reset")
}

func (t *fbTester) fcase(extra map[string]string) map[string]interface{} {
	c := map[string]interface{}{"sets": append([]string{}, t.hist...)}
	for k, v := range extra {
		c[k] = v
	}
	return c
}

// set applies List.Set on both sides and compares the raw bytes of the result.
func (t *fbTester) set(name, data string) (f verifapi.KsFieldEntry, ok bool) {
	before := t.l.Raw()
	var raw []byte
	if p := verifapi.Try(func() { f = t.l.Set(name, data); raw = t.l.Raw() }); p != "" {
		t.hist = append(t.hist, fmt.Sprintf("Set(%s, %s)", quoteArg(name), quoteArg(data)))
		t.r.Fail(hx.Failure{Kind: "oracle", Signature: "field-bin-panic", What: "field.List.Set panics: " + p, Case: t.fcase(nil)})
		return f, false
	}
	t.hist = append(t.hist, fmt.Sprintf("Set(%s, %s)", quoteArg(name), quoteArg(data)))
	t.r.Dist("field-bin:set")
	t.r.Count("fbset:"+fbRaw(before)+"|"+quoteArg(name)+"|"+quoteArg(data), string(before) != string(raw))
	mod := t.m.ask("fb_set", "10", model.H(f.Name), strconv.Itoa(f.Kind), fbData(f.Data))
	impl := "ok " + fbRaw(raw)
	if mod != impl {
		t.r.Fail(hx.Failure{Kind: "correspondence", Signature: "field-bin-set", What: "the bytes of the list after field.List.Set differ from Model.FieldBin.bl_set (size header + entries)",
			Case: t.fcase(map[string]string{"list_before": fbRaw(before)}), Impl: impl, Model: mod})
		t.m.ask("fb_load", rawToken(raw))
		return f, false
	}
	return f, true
}

func rawToken(raw []byte) string {
	if raw == nil {
		return "nil"
	}
	return model.H(string(raw))
}

// reads compares Scan / Len / Weight (and Get of the given names) with the model.
func (t *fbTester) reads(full bool, gets ...string) {
	cmp := func(sig, what, impl, mod string, extra map[string]string) {
		t.r.Dist("field-bin:" + sig)
		if impl != mod {
			t.r.Fail(hx.Failure{Kind: "correspondence", Signature: "field-bin-" + sig, What: what + " differs from Model.FieldBin", Case: t.fcase(extra), Impl: impl, Model: mod})
		}
	}
	try := func(fn func() string) string {
		var out string
		if p := verifapi.Try(func() { out = fn() }); p != "" {
			return "panic"
		}
		return "ok " + out
	}
	cmp("scan", "field.List.Scan", try(func() string { return fbFields(t.l.Scan()) }), t.m.ask("fb_scan", "10"), nil)
	cmp("weight", "field.List.Weight", try(func() string { return strconv.Itoa(t.l.Weight()) }), t.m.ask("fb_weight", "10"), nil)
	if full {
		cmp("len", "field.List.Len", try(func() string { return strconv.Itoa(t.l.Len()) }), t.m.ask("fb_len", "10"), nil)
	}
	for _, g := range gets {
		g := g
		cmp("get", "field.List.Get", try(func() string { return fbField(t.l.Get(g)) }), t.m.ask("fb_get", "10", model.H(g)), map[string]string{"get": strconv.Quote(g)})
	}
}

// readback is the direct oracle (no model): every field in want reads back, Len counts them,
// Scan lists them in name order, Weight is the size of the allocation.
func (t *fbTester) readback(want map[string]string) {
	t.r.Dist("field-bin:readback")
	bad := ""
	for n, d := range want {
		if g := t.l.Get(n); g.Data != d {
			bad = fmt.Sprintf("List.Get(%q) returns %s, the value set was %s", n, quoteArg(g.Data), quoteArg(d))
			break
		}
	}
	if bad == "" {
		if n := t.l.Len(); n != len(want) {
			bad = fmt.Sprintf("List.Len() = %d with %d fields set", n, len(want))
		} else if es := t.l.Scan(); len(es) != len(want) {
			bad = fmt.Sprintf("List.Scan lists %d fields with %d fields set", len(es), len(want))
		} else if w, raw := t.l.Weight(), t.l.Raw(); w != len(raw) {
			bad = fmt.Sprintf("List.Weight() = %d, the allocation has %d bytes", w, len(raw))
		}
	}
	if bad != "" {
		raw := t.l.Raw()
		hd := raw
		if len(hd) > 10 {
			hd = hd[:10]
		}
		t.r.Fail(hx.Failure{Kind: "oracle", Signature: "field-bin-readback", What: "a field list does not read back what was written: " + bad,
			Case: t.fcase(map[string]string{"allocation_bytes": strconv.Itoa(len(raw)), "first_bytes": fmt.Sprintf("%x", hd)})})
	}
}

// entrySize is the number of bytes List.Set stores for a String field.
func entrySize(name string, dataLen int) int {
	return uvLen(verifapi.SharedNameNumber(name)) + 1 + uvLen(dataLen) + dataLen
}

// boundary grows one list to just below, at and just above `bound` bytes of entries.
func (t *fbTester) boundary(bound int, withModel bool) {
	t.reset()
	small := entrySize("pad", 1) + uvLen(verifapi.SharedNameNumber("tag")) + 1 + 1 + 1
	// the long value: entries = small + entry("note", L) = bound - 1
	L := bound - 1 - small
	for L > 0 && small+entrySize("note", L) > bound-1 {
		L--
	}
	if L <= 0 || small+entrySize("note", L) != bound-1 {
		// a length prefix boundary falls in between: one byte more of padding
		t.r.Dist("field-bin:boundary-skipped")
		return
	}
	note := strings.Repeat("A", L)
	want := map[string]string{}
	step := func(name, data string) {
		if withModel {
			t.set(name, data)
		} else {
			t.l.Set(name, data)
			t.hist = append(t.hist, fmt.Sprintf("Set(%s, %s)", quoteArg(name), quoteArg(data)))
		}
		if data == "0" {
			delete(want, name)
		} else {
			want[name] = data
		}
	}
	stage := func(label string, entries int, full bool) {
		t.r.Dist("field-bin:" + label)
		raw := t.l.Raw()
		if got := len(raw) - uvLen(entries); got != entries {
			t.r.Fail(hx.Failure{Kind: "oracle", Signature: "field-bin-size", What: fmt.Sprintf("the list was built to hold %d bytes of entries, its allocation has %d bytes", entries, len(raw)), Case: t.fcase(nil)})
		}
		t.readback(want)
		if withModel && full {
			t.reads(true, "note", "tag")
		} else if withModel {
			t.reads(false)
		}
	}
	step("tag", "7")
	step("pad", "p")
	step("note", note)
	stage(fmt.Sprintf("below-2^%d", log2(bound)), bound-1, false)
	step("pad", "pp")
	stage(fmt.Sprintf("at-2^%d", log2(bound)), bound, false)
	step("pad", "ppp")
	stage(fmt.Sprintf("above-2^%d", log2(bound)), bound+1, true)
	step("note", note) // the same value: the list is left alone
	step("tag", "0")   // a zero value deletes: delfield writes the header of the shorter list
	stage(fmt.Sprintf("after-delete-2^%d", log2(bound)), bound+1-(uvLen(verifapi.SharedNameNumber("tag"))+3), false)
	if bound < 1<<20 {
		step("zz", "1") // appended behind the long entry
		t.readback(want)
	}
}

func log2(x int) int {
	n := 0
	for x > 1 {
		x >>= 1
		n++
	}
	return n
}

func fieldBinCheck(r *hx.Result, m *mdl, rng *rand.Rand, cfg hx.Config, bigOK bool) {
	t := &fbTester{r: r, m: m}
	nrand, nmal := 600, 1200
	if cfg.Tier == "thorough" {
		nrand, nmal = 40000, 30000
	}
	if cfg.Search {
		nrand, nmal = 6000, 4000
	}

	// ---- directed: the header-length boundaries ----
	t0 := time.Now()
	lap := func(what string) {
		r.Extra["field_bin_seconds_"+what] = fmt.Sprintf("%.1f", time.Since(t0).Seconds())
		t0 = time.Now()
	}
	t.boundary(1<<7, true)
	t.boundary(1<<14, true)
	lap("boundaries_2^7_2^14")
	t.boundary(1<<21, bigOK)
	lap("boundary_2^21")
	if cfg.Tier == "thorough" && bigOK {
		t.boundary(1<<22, true) // no boundary there: a control with a longer list
	}
	if !bigOK {
		r.Extra["field_bin_big_lists_vs_model"] = "skipped: the stack limit could not be raised for the extracted model; direct oracles only"
	}

	// ---- random small lists, values whose length prefix sits at its own boundaries ----
	names := []string{"a", "b", "tag", "note", "speed", "props", "props.speed", "zz", "n1", "n2", "n3", " sp ", "", "A"}
	vals := append(append([]string{}, fvals...), "false", "+Inf", `{"speed":1,"b":{"c":3}}`,
		strings.Repeat("x", 100), strings.Repeat("x", 126), strings.Repeat("x", 127), strings.Repeat("x", 128), strings.Repeat("y", 129),
		`"`+strings.Repeat("q", 125)+`"`, "["+strings.Repeat("1,", 70)+"1]")
	long := []string{strings.Repeat("z", 16382), strings.Repeat("z", 16383), strings.Repeat("z", 16384)} // the length prefix grows to three bytes
	t.reset()
	for i := 0; i < nrand; i++ {
		if rng.Intn(25) == 0 {
			t.reset()
		}
		name, data := pick(rng, names), pick(rng, vals)
		if rng.Intn(5) == 0 {
			data = strings.Repeat(string(rune('a'+rng.Intn(3))), 110+rng.Intn(40))
		} else if rng.Intn(40) == 0 {
			data = pick(rng, long)
		}
		if _, ok := t.set(name, data); !ok {
			t.reset()
			continue
		}
		if i%3 == 0 {
			t.reads(i%9 == 0, pick(rng, names))
		}
		if len(r.Failures) > 12 {
			return
		}
	}

	lap("random_lists")
	defer lap("hand_made_lists")
	// ---- hand-made raw lists: a valid size header, arbitrary entries ----
	for _, n := range names { // every name a later Set may store is in the table before its size is taken
		verifapi.SharedNameNumber(strings.TrimSpace(n))
	}
	known := verifapi.SharedNames()
	alphabet := []byte{0, 1, 2, 3, 4, 5, 6, 0x7f, 0x80, 0x81, 0xff, 'a', '0', '{', '}'}
	for i := 0; i < nmal; i++ {
		body := make([]byte, rng.Intn(24))
		for j := range body {
			switch rng.Intn(4) {
			case 0:
				body[j] = byte(rng.Intn(known + 2)) // mostly a known name number
			case 1:
				body[j] = byte(rng.Intn(7)) // a kind, a short length
			default:
				body[j] = alphabet[rng.Intn(len(alphabet))]
			}
		}
		if rng.Intn(3) == 0 && len(body) >= 4 { // a well-formed first entry
			body[0], body[1], body[2] = byte(rng.Intn(known)), 3, 1
		}
		claim := len(body) // the header announces exactly what the allocation holds
		var hdr [10]byte
		raw := append(append([]byte{}, hdr[:binary.PutUvarint(hdr[:], uint64(claim))]...), body...)
		if claim == 0 {
			raw = nil
		}
		t.l = verifapi.KsFieldListFromRaw(raw)
		t.hist = []string{fmt.Sprintf("list over the raw bytes %x", raw)}
		t.m.ask("fb_load", rawToken(raw))
		r.Dist("field-bin:hand-made")
		r.Count(fmt.Sprintf("fbraw:%x", raw), claim > 2)
		t.reads(true, pick(rng, names))
		if rng.Intn(3) == 0 {
			before := t.l.Raw()
			var f verifapi.KsFieldEntry
			var after []byte
			name, data := pick(rng, names), pick(rng, fvals)
			p := verifapi.Try(func() { f = t.l.Set(name, data); after = t.l.Raw() })
			impl := "panic"
			if p == "" {
				impl = "ok " + fbRaw(after)
			} else {
				mf := verifapi.KsFieldList{}
				f = mf.Set(name, data)
			}
			mod := t.m.ask("fb_set", "10", model.H(f.Name), strconv.Itoa(f.Kind), fbData(f.Data))
			if impl != mod {
				r.Fail(hx.Failure{Kind: "correspondence", Signature: "field-bin-set", What: "field.List.Set on a hand-made list differs from Model.FieldBin.bl_set",
					Case: t.fcase(map[string]string{"list_before": fbRaw(before), "set": quoteArg(name) + " " + quoteArg(data)}), Impl: impl, Model: mod})
			}
		}
		if len(r.Failures) > 12 {
			return
		}
	}
}
