// C01 — command replies and visible state conform to a sequential keyspace model.
//
// Black-box: random programs over a small alphabet against a server started with
// --appendonly no; per command the exact RESP reply is compared with the extracted
// handler model (correspondence) and with the plain-map specification (direct oracle);
// every 10th command and at the end the full dump is compared; an error / negative
// reply must leave the dump unchanged. A malformed-argument stream, field.List and the
// object head codec in-package through verifapi.
package main

import (
	"fmt"
	"math/rand"
	"path/filepath"
	"regexp"
	"sort"
	"strconv"
	"strings"
	"time"

	"github.com/tidwall/tile38/verifapi"
	"verifharness/internal/hx"
	"verifharness/internal/model"
	"verifharness/internal/srv"
)

func main() { hx.Main("C01", runC01) }

// ---------- model driver with on-demand oracles ----------

type mdl struct {
	drv   *model.Driver
	nOrc  int
	fixed string
}

func hexs(ss []string) []string {
	out := make([]string, len(ss))
	for i, s := range ss {
		out[i] = model.H(s)
	}
	return out
}

func oerr(s string, err error) []string {
	if err != nil {
		return []string{"err", model.H(err.Error())}
	}
	return []string{"ok", model.H(s)}
}

// resolve computes one oracle value by calling the library directly.
func resolve(name string, a []string) []string {
	u := make([]string, len(a))
	for i := range a {
		if len(a[i])%2 == 0 || a[i] == "-" {
			func() {
				defer func() { recover() }()
				u[i] = model.U(a[i])
			}()
		}
	}
	switch name {
	case "valueof":
		k, d := verifapi.KsValueOf(u[0])
		return []string{strconv.Itoa(k), model.H(d)}
	case "trim":
		return []string{model.H(strings.TrimSpace(u[0]))}
	case "sstore": // sstring.Store(name)
		return []string{strconv.Itoa(verifapi.SharedNameNumber(u[0]))}
	case "sload": // sstring.Load(num); none where it panics (a number that is not an int counts as such)
		n, err := strconv.ParseUint(a[0], 10, 62)
		if err != nil {
			return []string{"none"}
		}
		name, ok := verifapi.SharedName(int(n))
		if !ok {
			return []string{"none"}
		}
		return []string{model.H(name)}
	case "gjson":
		ok, k, s, _ := verifapi.KsGjsonGet(u[0], u[1])
		if !ok {
			return []string{"none"}
		}
		return []string{strconv.Itoa(k), model.H(s)}
	case "float_ok":
		_, err := strconv.ParseFloat(u[0], 64)
		return []string{model.B(err == nil)}
	case "dur":
		x, _ := strconv.ParseFloat(u[0], 64)
		return []string{strconv.FormatInt(int64(float64(time.Second)*x), 10)}
	case "int":
		n, err := strconv.ParseInt(u[0], 10, 64)
		if err != nil {
			return []string{"none"}
		}
		return []string{strconv.FormatInt(n, 10)}
	case "uint":
		n, err := strconv.ParseUint(u[0], 10, 64)
		if err != nil {
			return []string{"none"}
		}
		return []string{strconv.FormatUint(n, 10)}
	case "mkgeo":
		kind, _ := strconv.Atoi(a[0])
		args := make([]string, len(a)-1)
		for i := range args {
			args[i] = model.U(a[i+1])
		}
		sp, text, err := verifapi.KsMakeGeo(kind, args)
		if err != nil {
			return []string{"err", model.H(err.Error())}
		}
		return []string{"ok", model.B(sp), model.H(text)}
	case "point":
		return hexs(verifapi.KsGeoPoint(a[0] == "1", u[1]))
	case "bounds":
		return hexs(verifapi.KsGeoBounds(a[0] == "1", u[1]))
	case "hash":
		p, _ := strconv.Atoi(a[2])
		return []string{model.H(verifapi.KsGeoHash(a[0] == "1", model.U(a[1]), p))}
	case "sjson_set":
		return oerr(verifapi.KsSjsonSet(a[0] == "1", u[1], u[2], u[3]))
	case "sjson_del":
		return oerr(verifapi.KsSjsonDelete(u[0], u[1]))
	case "jget":
		var ok bool
		var s, raw string
		if a[1] == "~" {
			ok, s, raw = verifapi.KsGjsonParse(u[0])
		} else {
			ok, _, s, raw = verifapi.KsGjsonGet(u[0], u[1])
		}
		if !ok {
			return []string{"none"}
		}
		if a[2] == "1" {
			return []string{model.H(raw)}
		}
		return []string{model.H(s)}
	}
	panic("unknown oracle " + name)
}

func (m *mdl) ask(toks ...string) string {
	for i := 0; i < 10000; i++ {
		r := m.drv.Ask(toks...)
		if !strings.HasPrefix(r, "?need ") {
			return r
		}
		need := strings.Fields(r[len("?need "):])
		val := resolve(need[0], need[1:])
		m.nOrc++
		line := append([]string{"orc"}, need...)
		line = append(line, "=")
		line = append(line, val...)
		m.drv.Ask(line...)
	}
	panic("oracle loop")
}

type mres struct {
	impl, spec string
	logged     bool
	absEq      bool
	panicked   bool
}

func (m *mdl) exec(now int64, args []string) mres {
	toks := append([]string{"exec", m.fixed, strconv.FormatInt(now, 10), "010"}, hexs(args)...)
	r := m.ask(toks...)
	f := strings.Fields(r)
	if len(f) >= 1 && f[0] == "PANIC" {
		return mres{panicked: true, spec: f[2]}
	}
	if len(f) != 8 {
		panic("bad model reply: " + r)
	}
	return mres{impl: f[1], spec: f[3], logged: f[5] != "0", absEq: f[7] == "1"}
}

// ---------- canonical replies ----------

func canon(v srv.Value) string {
	switch v.Kind {
	case '+':
		return "s" + model.H(v.Str)
	case '-':
		return "e" + model.H(v.Str)
	case ':':
		return "i" + strconv.FormatInt(v.Int, 10)
	case '$':
		return "b" + model.H(v.Str)
	case 'n':
		return "n"
	case '*':
		parts := make([]string, len(v.Array))
		for i, e := range v.Array {
			parts[i] = canon(e)
		}
		return "a(" + strings.Join(parts, ",") + ")"
	}
	return "?"
}

// TTL replies are compared as classes: -2, -1, >= 0
func ttlClass(c string) string {
	if strings.HasPrefix(c, "i") && !strings.HasPrefix(c, "i-") {
		return "i>=0"
	}
	return c
}

func pretty(c string) string {
	var sb strings.Builder
	i := 0
	for i < len(c) {
		ch := c[i]
		if ch == 'b' || ch == 's' || ch == 'e' {
			j := i + 1
			for j < len(c) && c[j] != ',' && c[j] != ')' {
				j++
			}
			sb.WriteByte(ch)
			if j-i > 600 {
				sb.WriteString(fmt.Sprintf("%s...(%d bytes)", strconv.Quote(model.U(c[i+1 : i+81])), (j-i-1)/2))
			} else {
				sb.WriteString(strconv.Quote(model.U(c[i+1 : j])))
			}
			i = j
			continue
		}
		sb.WriteByte(ch)
		i++
	}
	return sb.String()
}

// ---------- dump of the server ----------

type tester struct {
	s    *srv.Server
	c    *srv.Conn
	dir  string
	r    *hx.Result
	nsrv int
}

func (t *tester) start() {
	t.nsrv++
	s, err := srv.Start(filepath.Join(t.dir, fmt.Sprintf("srv%d", t.nsrv)), "--appendonly", "no")
	if err != nil {
		panic(err)
	}
	t.s = s
	t.c = s.MustDial()
}

func (t *tester) stop() {
	if t.c != nil {
		t.c.Close()
	}
	if t.s != nil {
		t.s.Kill()
	}
}

// do sends one command; ok=false means the server died (it is restarted).
func (t *tester) do(args ...string) (srv.Value, bool) {
	v, err := t.c.Do(args...)
	if err != nil {
		died := t.s.WaitExit(2 * time.Second)
		tail := t.s.LogTail(600)
		t.stop()
		t.start()
		_ = died
		return srv.Value{Kind: '-', Str: "SERVER DIED: " + tail}, false
	}
	return v, true
}

// existence oracle (no model): a collection exists iff it holds at least one object — every key
// listed by KEYS * must scan to at least one id, TYPE must say hash, and a key that is not listed
// must answer TYPE none. Returns a description of the first violation, or "".
func (t *tester) existenceOracle(probe []string) string {
	keys := t.c.MustDo("KEYS", "*")
	listed := map[string]bool{}
	for _, k := range keys.Array {
		listed[k.Str] = true
		if k.Str == "" {
			continue
		}
		ids := t.c.MustDo("SCAN", k.Str, "LIMIT", "100000", "IDS")
		n := 0
		if len(ids.Array) == 2 {
			n = len(ids.Array[1].Array)
		}
		if n == 0 {
			ty := t.c.MustDo("TYPE", k.Str)
			return fmt.Sprintf("KEYS * lists %q but SCAN %q IDS returns no id (TYPE answers %s): a collection without objects exists", k.Str, k.Str, ty.String())
		}
	}
	for _, k := range probe {
		if k == "" {
			continue
		}
		ty := t.c.MustDo("TYPE", k)
		if listed[k] != (ty.Str == "hash") {
			return fmt.Sprintf("TYPE %q answers %s but KEYS * lists it: %v", k, ty.String(), listed[k])
		}
	}
	return ""
}

func (t *tester) dump() string {
	keys := t.c.MustDo("KEYS", "*")
	var recs, counts []string
	for _, k := range keys.Array {
		ids := t.c.MustDo("SCAN", k.Str, "LIMIT", "100000", "IDS")
		n := 0
		if len(ids.Array) == 2 {
			for _, id := range ids.Array[1].Array {
				n++
				g := t.c.MustDo("GET", k.Str, id.Str, "WITHFIELDS", "OBJECT")
				ttl := t.c.MustDo("TTL", k.Str, id.Str)
				obj, fields := "?", ""
				if len(g.Array) >= 1 {
					obj = model.H(g.Array[0].Str)
				}
				if len(g.Array) >= 2 {
					fa := g.Array[1].Array
					var fs []string
					for i := 0; i+1 < len(fa); i += 2 {
						fs = append(fs, model.H(fa[i].Str)+":"+model.H(fa[i+1].Str))
					}
					fields = strings.Join(fs, ",")
				}
				d := "1"
				if ttl.Int == -1 {
					d = "0"
				} else if ttl.Int < 0 {
					d = "gone"
				}
				recs = append(recs, fmt.Sprintf("k=%s i=%s o=%s f=%s d=%s", model.H(k.Str), model.H(id.Str), obj, fields, d))
			}
		}
		counts = append(counts, model.H(k.Str)+":"+strconv.Itoa(n))
	}
	return strings.Join(recs, ";") + "|" + strings.Join(counts, ",")
}

// ---------- generator ----------

var keysA = []string{"fleet", "k2", "zone"}
var idsA = []string{"truck1", "a", "b", "truck2"}
var fnames = []string{"speed", "props", "props.speed", "props.meta", "a.b"}
var fvals = []string{"5", "0", "1.0", "1", "abc", "ABC", `{"speed":7,"meta":{"x":1}}`, `{"x":1}`, "true", "null", " 12 ", "0.0", "-3.5e2", `"quoted"`, "NaN"}
var objects = [][]string{
	{"POINT", "33.5", "-112.1"},
	{"POINT", "33.5", "-112.1", "100"},
	{"POINT", "1", "1"},
	{"BOUNDS", "10", "20", "30", "40"},
	{"HASH", "9tbnwg"},
	{"OBJECT", `{"type":"Point","coordinates":[-112.2,33.4]}`},
	{"OBJECT", `{"type":"Polygon","coordinates":[[[0,0],[10,0],[10,10],[0,10],[0,0]]]}`},
	{"OBJECT", `{"type":"Feature","geometry":{"type":"Point","coordinates":[5,6]},"properties":{"name":"x","n":{"m":2}}}`},
	{"OBJECT", `{"type":"LineString","coordinates":[[1,2],[3,4]]}`},
	{"STRING", "hello"},
	{"STRING", `{"a":{"b":1},"c":[1,2,3],"d":"txt"}`},
	// geometries without coordinates: spatial, but Empty() (never indexed, counted like any object)
	{"OBJECT", `{"type":"FeatureCollection","features":[]}`},
	{"OBJECT", `{"type":"GeometryCollection","geometries":[]}`},
	{"OBJECT", `{"type":"MultiPoint","coordinates":[]}`},
}
var jpaths = []string{"a.b", "a", "c.1", "d", "properties.name", "properties.n.m", "coordinates", "type", "x.y", "properties"}
var jvals = []string{"5", "txt", "true", `{"q":1}`, "1e3", "null", "Point", "-"}
var patterns = []string{"*", "truck*", "a", "?", "[ab]", "t*2", "zz*", "b*", "*1"}
var durs = []string{"100", "1e3", "250.5", "3600"}
var retOpts = [][]string{{}, {"WITHFIELDS"}, {"OBJECT"}, {"POINT"}, {"BOUNDS"}, {"HASH", "7"}, {"WITHFIELDS", "POINT"}, {"HASH", "5", "WITHFIELDS"}, {"POINT", "WITHFIELDS"}}

func pick(rng *rand.Rand, a []string) string { return a[rng.Intn(len(a))] }

func genCmd(rng *rand.Rand) []string {
	k, id := pick(rng, keysA), pick(rng, idsA)
	switch x := rng.Intn(100); {
	case x < 24: // SET
		args := []string{"SET", k, id}
		for n := rng.Intn(3); n > 0; n-- {
			args = append(args, "FIELD", pick(rng, fnames), pick(rng, fvals))
		}
		if rng.Intn(4) == 0 {
			args = append(args, "EX", pick(rng, durs))
		}
		switch rng.Intn(6) {
		case 0:
			args = append(args, "NX")
		case 1:
			args = append(args, "XX")
		}
		if rng.Intn(5) == 0 {
			args = append(args, "RETURN")
			args = append(args, retOpts[rng.Intn(len(retOpts))]...)
		}
		args = append(args, objects[rng.Intn(len(objects))]...)
		return args
	case x < 34: // FSET
		args := []string{"FSET", k, id}
		if rng.Intn(4) == 0 {
			args = append(args, "XX")
		}
		for n := 1 + rng.Intn(2); n > 0; n-- {
			args = append(args, pick(rng, fnames), pick(rng, fvals))
		}
		if rng.Intn(4) == 0 {
			args = append(args, "RETURN")
			args = append(args, retOpts[rng.Intn(len(retOpts))]...)
		}
		return args
	case x < 40:
		if rng.Intn(4) == 0 {
			return []string{"DEL", k, id, "ERRON404"}
		}
		return []string{"DEL", k, id}
	case x < 43:
		return []string{"PDEL", k, pick(rng, patterns)}
	case x < 45:
		return []string{"DROP", k}
	case x < 48:
		return []string{"RENAME", k, pick(rng, keysA)}
	case x < 51:
		return []string{"RENAMENX", k, pick(rng, keysA)}
	case x < 52:
		return []string{"FLUSHDB"}
	case x < 56:
		return []string{"EXPIRE", k, id, pick(rng, durs)}
	case x < 59:
		return []string{"PERSIST", k, id}
	case x < 65: // JSET
		args := []string{"JSET", k, id, pick(rng, jpaths), pick(rng, jvals)}
		switch rng.Intn(6) {
		case 0:
			args = append(args, "RAW")
		case 1:
			args = append(args, "STR")
		}
		return args
	case x < 69:
		return []string{"JDEL", k, id, pick(rng, jpaths)}
	case x < 77: // GET
		args := []string{"GET", k, id}
		args = append(args, retOpts[rng.Intn(len(retOpts))]...)
		return args
	case x < 82:
		return []string{"FGET", k, id, pick(rng, fnames)}
	case x < 84:
		return []string{"EXISTS", k, id}
	case x < 87:
		return []string{"FEXISTS", k, id, pick(rng, fnames)}
	case x < 90:
		return []string{"TTL", k, id}
	case x < 91:
		return []string{"TYPE", k}
	case x < 93:
		return []string{"KEYS", pick(rng, append(patterns, "fl*", "k?", "z*e"))}
	case x < 97:
		args := []string{"SCAN", k}
		for n := rng.Intn(4); n > 0; n-- {
			switch rng.Intn(7) {
			case 0:
				args = append(args, "CURSOR", pick(rng, []string{"0", "1", "2", "3", "5", "18446744073709551615", "x"}))
			case 1:
				args = append(args, "LIMIT", pick(rng, []string{"1", "2", "3", "100", "0", "-1"}))
			case 2, 3:
				args = append(args, "MATCH", pick(rng, patterns))
			case 4:
				args = append(args, pick(rng, []string{"ASC", "DESC"}))
			case 5:
				args = append(args, "NOFIELDS")
			}
		}
		switch rng.Intn(5) {
		case 0:
			args = append(args, "IDS")
		case 1:
			args = append(args, "COUNT")
		case 2:
			args = append(args, "OBJECTS")
		}
		return args
	default: // JGET
		args := []string{"JGET", k, id}
		if rng.Intn(4) > 0 {
			args = append(args, pick(rng, jpaths))
			if rng.Intn(3) == 0 {
				args = append(args, "RAW")
			}
		}
		return args
	}
}

var junk = []string{"abc", "", "1x", "FOO", "NX", "XX", "RETURN", "HASH", "13", "0", "WITHFIELDS", "FIELD", "z", "lat", "EX", "OBJECT", "{bad json", "POINT", "STRING", "ERRON404", "RAW", "extra", "-", "1e999", "Inf"}

func malform(rng *rand.Rand, args []string) []string {
	out := append([]string{}, args...)
	for n := 1 + rng.Intn(2); n > 0; n-- {
		switch rng.Intn(5) {
		case 0: // drop one argument
			if len(out) > 1 {
				i := 1 + rng.Intn(len(out)-1)
				out = append(out[:i], out[i+1:]...)
			}
		case 1: // truncate
			if len(out) > 1 {
				out = out[:1+rng.Intn(len(out)-1)]
			}
		case 2: // insert junk
			i := 1 + rng.Intn(len(out))
			out = append(out[:i], append([]string{pick(rng, junk)}, out[i:]...)...)
		case 3: // replace by junk
			if len(out) > 1 {
				out[1+rng.Intn(len(out)-1)] = pick(rng, junk)
			}
		case 4: // append junk
			out = append(out, pick(rng, junk))
		}
	}
	// change the case of the command and of option words now and then
	if rng.Intn(3) == 0 {
		out[0] = strings.ToLower(out[0])
	}
	return out
}

// arguments that would make objects expire during the run, or leave the modelled SCAN shapes
func risky(args []string) bool {
	up := strings.ToUpper(args[0])
	// a collection named "" cannot be listed (SCAN "" is an arity error), so the dump could not see it
	if len(args) > 1 && args[1] == "" {
		return true
	}
	if (up == "RENAME" || up == "RENAMENX") && len(args) > 2 && args[2] == "" {
		return true
	}
	for i, a := range args {
		la := strings.ToLower(a)
		if (la == "ex" && up == "SET") && i+1 < len(args) {
			if f, err := strconv.ParseFloat(args[i+1], 64); err == nil && !(f >= 50 && f < 1e7) {
				return true
			}
		}
	}
	if up == "EXPIRE" && len(args) == 4 {
		if f, err := strconv.ParseFloat(args[3], 64); err == nil && !(f >= 50 && f < 1e7) {
			return true
		}
	}
	return false
}

func litPrefixEndsFF(p string) bool {
	n := 0
	for n < len(p) && !strings.ContainsRune("[*?\\", rune(p[n])) {
		n++
	}
	return n > 0 && p[n-1] == 0xFF
}

// SCAN ... CURSOR c ... COUNT with c >= 2^63 (finding C01-scan-count-cursor)
func scanCountHugeCursor(args []string) bool {
	count, huge := false, false
	for i, a := range args {
		la := strings.ToLower(a)
		if la == "count" {
			count = true
		}
		if la == "cursor" && i+1 < len(args) {
			if n, err := strconv.ParseUint(args[i+1], 10, 64); err == nil && n >= 1<<63 {
				huge = true
			}
		}
	}
	return count && huge
}

func isWrite(cmd string) bool {
	switch strings.ToLower(cmd) {
	case "set", "fset", "del", "pdel", "drop", "rename", "renamenx", "flushdb", "expire", "persist", "jset", "jdel":
		return true
	}
	return false
}

func negative(c string) bool {
	return c == "n" || c == "i0" || strings.HasPrefix(c, "e")
}

type caseRec struct {
	Program [][]string `json:"program"`
	At      int        `json:"at"`
}

// quoteArg quotes one argument; a long one (a field value of a megabyte) is shown by its head and length.
func quoteArg(a string) string {
	if len(a) > 300 {
		return fmt.Sprintf("%s...(%d bytes)", strconv.Quote(a[:40]), len(a))
	}
	return strconv.Quote(a)
}

var longHex = regexp.MustCompile(`[0-9a-f]{600,}`)

// shorten abbreviates long hex runs (values of a megabyte inside a dump) in failure records.
func shorten(s string) string {
	if len(s) < 600 {
		return s
	}
	return longHex.ReplaceAllStringFunc(s, func(h string) string {
		return fmt.Sprintf("%s...(%d hex digits)", h[:40], len(h))
	})
}

func quoteProg(p [][]string) []string {
	out := make([]string, len(p))
	for i, c := range p {
		q := make([]string, len(c))
		for j, a := range c {
			q[j] = quoteArg(a)
		}
		out[i] = strings.Join(q, " ")
	}
	return out
}

// ---------- one program ----------

func (t *tester) runProgram(m *mdl, prog [][]string, label string) (nontrivial bool) {
	r := t.r
	if _, ok := t.do("FLUSHDB"); !ok {
		return false
	}
	m.ask("reset")
	changed, readAfter := false, false
	fail := func(kind, sig, what string, at int, impl, mod string) {
		r.Fail(hx.Failure{Kind: kind, Signature: sig, What: what,
			Case: map[string]interface{}{"program": quoteProg(prog[:at+1]), "label": label}, Impl: shorten(impl), Model: shorten(mod)})
	}
	for i, args := range prog {
		if args[0] == "@sleep" {
			// pseudo-command of directed programs: let wall-clock time pass (every deadline still armed at
			// this point is far away). Oracle, no model: with no command executed and no deadline reached,
			// the visible dataset must not change (the 100 ms expiry sweeper runs meanwhile).
			ms, _ := strconv.Atoi(args[1])
			before := t.dump()
			time.Sleep(time.Duration(ms) * time.Millisecond)
			after := t.dump()
			r.Dist("timed-wait")
			if before != after {
				fail("oracle", "state-changed-without-command", fmt.Sprintf("the visible dataset changed during %d ms in which no command was sent and no current deadline was reached (an object was expired at a deadline that had been replaced)", ms), i, after, before)
			}
			if md := m.ask("dump"); after != md {
				fail("correspondence", "dump", "full dump after a timed wait differs from the handler model state", i, after, md)
				return false
			}
			continue
		}
		cmd := strings.ToLower(args[0])
		r.Dist("cmd:" + cmd)
		var before string
		takeBefore := isWrite(cmd)
		if takeBefore {
			before = t.dump()
		}
		v, ok := t.do(args...)
		if !ok {
			sig := "server-crash"
			if cmd == "fset" {
				sig = "fset-xx-return-crash"
			}
			fail("oracle", sig, fmt.Sprintf("the server process exited on %s: %s", strings.Join(quoteProg([][]string{args}), ""), v.Str), i, "process exit", "")
			return false
		}
		got := canon(v)
		mr := m.exec(time.Now().UnixNano(), args)
		if mr.panicked {
			fail("correspondence", "model-panic", "the handler model reaches Panic where the server answered", i, pretty(got), "Panic")
			return false
		}
		gi, mi, si := got, mr.impl, mr.spec
		if cmd == "ttl" {
			gi, mi, si = ttlClass(gi), ttlClass(mi), ttlClass(si)
		}
		switch {
		case strings.HasPrefix(got, "e"):
			r.Dist("reply:error")
		case negative(got):
			r.Dist("reply:negative")
		default:
			r.Dist("reply:positive")
		}
		if mi == "u" {
			r.Dist("unmodelled")
			continue
		}
		if gi != si {
			sig := "spec-reply-" + cmd
			if (cmd == "pdel" && len(args) == 3 && litPrefixEndsFF(args[2])) || (cmd == "keys" && len(args) == 2 && litPrefixEndsFF(args[1])) {
				sig += "-prefix-ff"
			}
			fail("oracle", sig, fmt.Sprintf("reply of %s is not the reply of the plain-map specification", strings.Join(quoteProg([][]string{args}), "")), i, pretty(got), pretty(mr.spec))
			if gi != mi {
				fail("correspondence", "reply-"+cmd, fmt.Sprintf("reply of %s differs from Model.Keyspace.exec", strings.Join(quoteProg([][]string{args}), "")), i, pretty(got), pretty(mr.impl))
			}
			return false
		}
		if gi != mi {
			fail("correspondence", "reply-"+cmd, fmt.Sprintf("reply of %s differs from Model.Keyspace.exec", strings.Join(quoteProg([][]string{args}), "")), i, pretty(got), pretty(mr.impl))
			return false
		}
		if !mr.absEq {
			fail("correspondence", "abs-"+cmd, "abs(handler-model state) differs from the specification state after this command (refinement broken)", i, m.ask("dump"), m.ask("sdump"))
			return false
		}
		if takeBefore && !strings.HasPrefix(got, "e") {
			probe := append([]string{}, keysA...)
			if len(args) > 1 {
				probe = append(probe, args[1])
			}
			if what := t.existenceOracle(probe); what != "" {
				// keep going: the next KEYS / TYPE / EXISTS of the program then also shows the reply difference
				fail("oracle", "collection-without-objects", "after "+strings.Join(quoteProg([][]string{args}), "")+": "+what, i, pretty(got), "")
			}
		}
		if takeBefore {
			if negative(got) {
				after := t.dump()
				if after != before {
					fail("oracle", "negative-changes-state-"+cmd, fmt.Sprintf("%s answered %s (error/negative) but the visible dataset changed", strings.Join(quoteProg([][]string{args}), ""), pretty(got)), i, after, before)
					return false
				}
				if mr.logged {
					fail("correspondence", "negative-logged-"+cmd, "the model logs a command that answered negatively", i, pretty(got), "logged")
				}
			} else if !strings.HasPrefix(got, "e") {
				changed = true
			}
		} else if changed && !negative(got) && (cmd == "get" || cmd == "scan" || cmd == "fget" || cmd == "jget" || cmd == "keys") {
			readAfter = true
		}
		if i%10 == 9 || i == len(prog)-1 {
			d := t.dump()
			md := m.ask("dump")
			if d != md {
				fail("correspondence", "dump", "full dump (KEYS, SCAN IDS, GET WITHFIELDS OBJECT, TTL class) differs from the handler model state", i, d, md)
				return false
			}
			if sd := m.ask("sdump"); d != sd {
				fail("oracle", "spec-dump", "full dump differs from the specification state", i, d, sd)
				return false
			}
		}
	}
	return changed && readAfter
}

// ---------- in-package: field.List and head codec ----------

func flStr(es []verifapi.KsFieldEntry) string {
	if len(es) == 0 {
		return "."
	}
	parts := make([]string, len(es))
	for i, e := range es {
		parts[i] = fmt.Sprintf("%s:%d:%s", model.H(e.Name), e.Kind, model.H(e.Data))
	}
	return strings.Join(parts, ",")
}

func fieldListCheck(r *hx.Result, m *mdl, rng *rand.Rand, n int) {
	names := []string{"a", "a.b", "a.z", "props", "props.speed", "props.meta", "b", "", "A", " sp ", "props.meta.x", "zz"}
	vals := append(append([]string{}, fvals...), `{"b":{"c":3},"z":9,"speed":1}`, "false", "+Inf", "0", "0", "00", `{"meta":{"x":2}}`)
	corpus := [][3]string{ // name, data, get
		{"props.meta", `{"x":1}`, "props.speed"}, {"props.speed", "5", "props.speed"}, {"a.b", `{"q":1}`, "a.b"},
		{"n", "ABC", "n"}, {"n", "abc", "n"}, {"x", "1", "x"}, {"x", "1.0", "x"},
	}
	var l verifapi.KsFieldList
	for i := 0; i < n+len(corpus); i++ {
		var name, data, gname string
		if i < len(corpus) {
			name, data, gname = corpus[i][0], corpus[i][1], corpus[i][2]
		} else {
			if rng.Intn(40) == 0 {
				l = verifapi.KsFieldList{}
			}
			name, data, gname = pick(rng, names), pick(rng, vals), pick(rng, names)
		}
		before := flStr(l.Scan())
		f := l.Set(name, data)
		after := flStr(l.Scan())
		// the model works on stored entries; what Scan shows is bfield of them, which is stable
		mod := m.ask("fl_set", before, flStr([]verifapi.KsFieldEntry{f}))
		mod = m.ask("fl_scan", mod)
		r.Count("fl:"+before+"|"+name+"|"+data, after != before)
		r.Dist("field.List.Set")
		if mod != after {
			r.Fail(hx.Failure{Kind: "correspondence", Signature: "field-list-set", What: "field.List.Set differs from Model.Field.fl_set",
				Case: map[string]string{"list": before, "name": strconv.Quote(name), "data": strconv.Quote(data)}, Impl: after, Model: mod})
		}
		g := l.Get(gname)
		gm := m.ask("fl_get", after, model.H(gname))
		gi := flStr([]verifapi.KsFieldEntry{g})
		r.Dist("field.List.Get")
		if gi != gm {
			r.Fail(hx.Failure{Kind: "correspondence", Signature: "field-list-get", What: "field.List.Get differs from Model.Field.fl_get",
				Case: map[string]string{"list": after, "name": strconv.Quote(gname)}, Impl: gi, Model: gm})
		}
		// direct oracle (no model): a non-zero value just written under a name without a dot reads back
		if f.Name != "" && !strings.Contains(f.Name, ".") && !(f.Kind == 2 && f.Data == "0") {
			rb := l.Get(f.Name)
			if rb != f {
				r.Fail(hx.Failure{Kind: "oracle", Signature: "field-readback", What: fmt.Sprintf("List.Get(%q) after List.Set(%q,%q) returns %v", f.Name, name, data, rb),
					Case: map[string]string{"list": before, "name": strconv.Quote(name), "data": strconv.Quote(data)}})
			}
		}
		// direct oracle: a dotted name whose prefix is not a JSON field holding that path reads back too (F2)
		if dot := strings.IndexByte(f.Name, '.'); dot > 0 && !(f.Kind == 2 && f.Data == "0") {
			shadow := false
			for _, e := range l.Scan() {
				if e.Name == f.Name[:dot] && e.Kind == 5 {
					if ok, _, _, _ := verifapi.KsGjsonGet(e.Data, f.Name[dot+1:]); ok {
						shadow = true
					}
				}
			}
			if !shadow {
				rb := l.Get(f.Name)
				if rb != f {
					r.Fail(hx.Failure{Kind: "oracle", Signature: "field-readback-dotted", What: fmt.Sprintf("List.Get(%q) after List.Set(%q,%q) returns %v although no JSON field %q answers that path", f.Name, name, data, rb, f.Name[:dot]),
						Case: map[string]string{"list": before, "name": strconv.Quote(name), "data": strconv.Quote(data)}})
				}
			}
		}
	}
}

func headCheck(r *hx.Result, m *mdl, rng *rand.Rand, n int) {
	exs := []int64{0, 1, -1, 63, 64, -64, -65, 127, 128, 1 << 20, 1758800000000000000, 1<<63 - 1, -1 << 63, 8191, 8192}
	for i := 0; i < n; i++ {
		idb := make([]byte, rng.Intn(5))
		for j := range idb {
			idb[j] = byte([]int{0, 1, 0x7f, 0x80, 0xff, 'a', 0x81}[rng.Intn(7)])
		}
		id := string(idb)
		ex := exs[rng.Intn(len(exs))]
		if rng.Intn(3) == 0 {
			ex = rng.Int63() - rng.Int63()
		}
		point := rng.Intn(2) == 0
		gid, gex := verifapi.KsHead(id, point, ex)
		kind := "2"
		if point {
			kind = "1"
		}
		f := strings.Fields(m.ask("head", kind, model.H(id), strconv.FormatInt(ex, 10)))
		r.Dist("head-codec")
		r.Count(fmt.Sprintf("head:%x:%d", id, ex), ex != 0)
		impl := model.H(gid) + " " + strconv.FormatInt(gex, 10)
		mod := f[1] + " " + f[2]
		if impl != mod {
			r.Fail(hx.Failure{Kind: "correspondence", Signature: "head-codec", What: "object.New(...).ID()/Expires() differ from Model.Object make_head/head_id/head_expires",
				Case: map[string]interface{}{"id": fmt.Sprintf("%q", id), "expires": ex}, Impl: impl, Model: mod})
		}
		if gid != id || gex != ex {
			r.Fail(hx.Failure{Kind: "oracle", Signature: "head-roundtrip", What: fmt.Sprintf("object.New(%q, ex=%d) reads back id %q, expires %d", id, ex, gid, gex),
				Case: map[string]interface{}{"id": fmt.Sprintf("%q", id), "expires": ex}})
		}
	}
}


// ---------- exhaustive exploration of the reachable state graph of a small alphabet ----------

// dumpFast is dump() with pipelined requests (3 round trips).
func (t *tester) dumpFast() string {
	keys := t.c.MustDo("KEYS", "*")
	for _, k := range keys.Array {
		t.c.Send("SCAN", k.Str, "LIMIT", "100000", "IDS")
	}
	type kid struct{ k, id string }
	var all []kid
	var counts []string
	for _, k := range keys.Array {
		ids, err := t.c.Read()
		if err != nil {
			panic(err)
		}
		n := 0
		if len(ids.Array) == 2 {
			for _, id := range ids.Array[1].Array {
				all = append(all, kid{k.Str, id.Str})
				n++
			}
		}
		counts = append(counts, model.H(k.Str)+":"+strconv.Itoa(n))
	}
	for _, x := range all {
		t.c.Send("GET", x.k, x.id, "WITHFIELDS", "OBJECT")
		t.c.Send("TTL", x.k, x.id)
	}
	var recs []string
	for _, x := range all {
		g, err := t.c.Read()
		if err != nil {
			panic(err)
		}
		ttl, err := t.c.Read()
		if err != nil {
			panic(err)
		}
		obj, fields := "?", ""
		if len(g.Array) >= 1 {
			obj = model.H(g.Array[0].Str)
		}
		if len(g.Array) >= 2 {
			fa := g.Array[1].Array
			var fs []string
			for i := 0; i+1 < len(fa); i += 2 {
				fs = append(fs, model.H(fa[i].Str)+":"+model.H(fa[i+1].Str))
			}
			fields = strings.Join(fs, ",")
		}
		d := "1"
		if ttl.Int == -1 {
			d = "0"
		} else if ttl.Int < 0 {
			d = "gone"
		}
		recs = append(recs, fmt.Sprintf("k=%s i=%s o=%s f=%s d=%s", model.H(x.k), model.H(x.id), obj, fields, d))
	}
	return strings.Join(recs, ";") + "|" + strings.Join(counts, ",")
}

func exhaustiveAlphabet() [][]string {
	var cmds [][]string
	ks, ids := []string{"k1", "k2"}, []string{"a", "b"}
	for _, k := range ks {
		for _, id := range ids {
			cmds = append(cmds,
				[]string{"SET", k, id, "POINT", "1", "1"},
				[]string{"SET", k, id, "FIELD", "f", "5", "STRING", "s"},
				[]string{"SET", k, id, "EX", "100", "NX", "POINT", "2", "2"},
				[]string{"SET", k, id, "XX", "OBJECT", `{"type":"GeometryCollection","geometries":[]}`},
				[]string{"FSET", k, id, "f", "7"},
				[]string{"DEL", k, id},
				[]string{"EXPIRE", k, id, "100"},
				[]string{"PERSIST", k, id})
		}
		cmds = append(cmds, []string{"PDEL", k, "a*"}, []string{"DROP", k})
	}
	cmds = append(cmds, []string{"RENAME", "k1", "k2"}, []string{"RENAME", "k2", "k1"}, []string{"RENAMENX", "k1", "k2"}, []string{"FLUSHDB"})
	return cmds
}

// exhaustive: breadth-first over the distinct visible states reachable with the alphabet; every
// (state, command) transition up to the depth bound is executed on the real server and on the
// models (state re-established by replaying a shortest path from the empty database), comparing
// the reply and the full dump after it.
func (t *tester) exhaustive(m *mdl, depth int) {
	r := t.r
	alpha := exhaustiveAlphabet()
	type node struct{ path [][]string }
	frontier := []node{{nil}}
	seen := map[string]bool{"|": true}
	perDepth := []int{1}
	transitions, edgesChanging := 0, 0
	apply := func(path [][]string, cmd []string) (string, mres, string, string, bool) {
		t.c.Send("FLUSHDB")
		for _, c := range path {
			t.c.Send(c...)
		}
		t.c.Send(cmd...)
		var last srv.Value
		for i := 0; i < len(path)+2; i++ {
			v, err := t.c.Read()
			if err != nil {
				return "", mres{}, "", "", false
			}
			last = v
		}
		m.ask("reset")
		now := time.Now().UnixNano()
		for _, c := range path {
			m.exec(now, c)
		}
		mr := m.exec(now, cmd)
		return canon(last), mr, t.dumpFast(), m.ask("dump"), true
	}
	for d := 0; d < depth; d++ {
		var next []node
		for _, nd := range frontier {
			for _, cmd := range alpha {
				transitions++
				got, mr, sd, md, ok := apply(nd.path, cmd)
				prog := append(append([][]string{}, nd.path...), cmd)
				cs := map[string]interface{}{"program": quoteProg(prog), "label": "exhaustive"}
				if !ok {
					r.Fail(hx.Failure{Kind: "oracle", Signature: "server-crash", What: "the server stopped answering during the exhaustive exploration", Case: cs})
					t.stop()
					t.start()
					continue
				}
				lc := strings.ToLower(cmd[0])
				if got != mr.spec {
					r.Fail(hx.Failure{Kind: "oracle", Signature: "spec-reply-" + lc, What: "exhaustive exploration: reply is not the reply of the plain-map specification", Case: cs, Impl: pretty(got), Model: pretty(mr.spec)})
				}
				if got != mr.impl {
					r.Fail(hx.Failure{Kind: "correspondence", Signature: "reply-" + lc, What: "exhaustive exploration: reply differs from Model.Keyspace.exec", Case: cs, Impl: pretty(got), Model: pretty(mr.impl)})
				}
				if sd != md {
					r.Fail(hx.Failure{Kind: "correspondence", Signature: "dump", What: "exhaustive exploration: full dump differs from the handler model state", Case: cs, Impl: sd, Model: md})
				}
				if !mr.absEq {
					r.Fail(hx.Failure{Kind: "correspondence", Signature: "abs-" + lc, What: "exhaustive exploration: abs(handler-model state) differs from the specification state", Case: cs})
				}
				if mr.logged {
					edgesChanging++
				}
				r.Count("x:"+strings.Join(quoteProg(prog), ";"), mr.logged)
				if !seen[md] {
					seen[md] = true
					next = append(next, node{prog})
				}
				if len(r.Failures) > 20 {
					return
				}
			}
		}
		perDepth = append(perDepth, len(next))
		frontier = next
	}
	r.Dist("exhaustive-transitions")
	r.Extra["exhaustive"] = map[string]interface{}{
		"alphabet_commands": len(alpha), "depth": depth, "transitions_checked": transitions,
		"transitions_logged": edgesChanging, "distinct_states": len(seen), "new_states_per_depth": perDepth,
		"note": "every (state, command) pair with the state at distance < depth from the empty database; states identified by the canonical dump",
	}
}

// ---------- main ----------

func runC01(r *hx.Result, cfg hx.Config) {
	r.Rule = "black-box programs of 40 (quick) / 60 (thorough) commands over 3 keys x 4 ids x 5 field names (3 dotted; JSON-valued values) x 11 object literals of every kind x option combinations, RESP mode, server with --appendonly no; per command: exact reply vs extracted handler model (correspondence) and vs the plain-map specification (oracle), TTL as class; dump before/after every write-type command that answered error/negative (oracle); full dump every 10th command and at the end. non-trivial = distinct program in which a write succeeded and a later GET/SCAN/FGET/JGET/KEYS answered positively. Plus a malformed-argument stream (same comparisons), field.List Set/Get and the object head codec in-package."
	r.Assumptions = []string{
		"oracles (trusted, computed by direct library calls): strconv.ParseFloat/ParseInt, strings.TrimSpace, field.ValueOf classification, geojson constructors/Parse/String/Center/Rect, geohash, sjson.Set/SetRaw/Delete, gjson.Get/Parse",
		"strings.ToLower is modelled on ASCII letters only; B-trees as sorted association lists; OOM guard not modelled; SCAN only as SCAN key [IDS|OBJECTS] below 100 objects",
		"no object expires during a run (EX/EXPIRE >= 50 s)",
		"glob patterns of PDEL/KEYS whose literal prefix ends in 0xFF are excluded (C12-ff)",
	}
	rng := rand.New(rand.NewSource(cfg.Seed))
	bigOK := prepareForBigLists()
	drv, err := model.Start("ks")
	if err != nil {
		panic(err)
	}
	defer drv.Close()
	m := &mdl{drv: drv, fixed: "1"}
	t := &tester{dir: cfg.Work, r: r}
	t.start()
	defer t.stop()

	nprog, plen, nmal, nfl, nhead := 300, 40, 1500, 6000, 2000
	if cfg.Tier == "thorough" {
		nprog, plen, nmal, nfl, nhead = 6000, 60, 30000, 200000, 50000
	}
	if cfg.Search {
		nprog, plen, nmal, nfl, nhead = 1500, 50, 6000, 30000, 5000
	}

	// fixed regression corpus first (findings F1, F2, C01-eq and composition cases)
	S := func(s ...string) []string { return s }
	corpus := [][][]string{
		{S("SET", "f", "x", "POINT", "1", "1"), S("FSET", "f", "missing", "XX", "RETURN", "a", "1"), S("GET", "f", "x")},
		{S("SET", "f", "x", "FIELD", "props.meta", `{"x":1}`, "FIELD", "props.speed", "5", "POINT", "1", "1"), S("FGET", "f", "x", "props.speed"), S("FEXISTS", "f", "x", "props.speed"), S("GET", "f", "x", "WITHFIELDS")},
		{S("SET", "f", "x", "POINT", "1", "1"), S("FSET", "f", "x", "a.b", `{"q":1}`), S("FGET", "f", "x", "a.b"), S("FEXISTS", "f", "x", "a.b"), S("FGET", "f", "x", "a.b.q")},
		{S("SET", "f", "x", "FIELD", "name", "ABC", "POINT", "1", "1"), S("FSET", "f", "x", "name", "abc"), S("FGET", "f", "x", "name"), S("SET", "f", "x", "FIELD", "name", "Abc", "POINT", "1", "1"), S("FGET", "f", "x", "name")},
		{S("SET", "f", "x", "FIELD", "n", "1", "POINT", "1", "1"), S("FSET", "f", "x", "n", "1.0"), S("FGET", "f", "x", "n"), S("FSET", "f", "x", "z0", "0.0"), S("FGET", "f", "x", "z0")},
		{S("SET", "f", "x", "EX", "100", "FIELD", "a", "1", "POINT", "1", "2", "3"), S("RENAME", "f", "g"), S("FSET", "g", "x", "a", "2"), S("TTL", "g", "x"), S("JSET", "g", "x", "properties.p", "1"), S("TTL", "g", "x"), S("GET", "g", "x", "WITHFIELDS"), S("JDEL", "g", "x", "properties.p"), S("SCAN", "g")},
		{S("SET", "f", "s", "FIELD", "a", "1", "STRING", "hello"), S("SET", "f", "s", "POINT", "1", "1"), S("GET", "f", "s", "WITHFIELDS"), S("SET", "f", "s", "NX", "POINT", "2", "2"), S("SET", "g", "s", "XX", "POINT", "2", "2"), S("KEYS", "*"), S("SET", "g", "s", "NX", "POINT", "2", "2"), S("DEL", "g", "s"), S("KEYS", "*"), S("TYPE", "g")},
		{S("JSET", "j", "d", "a.b", "5"), S("JGET", "j", "d"), S("JGET", "j", "d", "a", "RAW"), S("JDEL", "j", "d", "a.b"), S("JDEL", "j", "d", "nope"), S("JDEL", "j", "nokey", "a"), S("JDEL", "nocol", "d", "a"), S("GET", "j", "d")},
		{S("SET", "f", "a", "POINT", "1", "1"), S("SET", "f", "b", "POINT", "1", "1"), S("SET", "f", "ab", "POINT", "1", "1"), S("PDEL", "f", "a*"), S("SCAN", "f", "IDS"), S("PDEL", "f", "*"), S("KEYS", "*"), S("PDEL", "f", "*")},
		{S("SET", "k", "ab\xff\x01", "STRING", "a"), S("SET", "k", "ab", "STRING", "a"), S("PDEL", "k", "ab\xff*"), S("SCAN", "k", "IDS")},
		// empty geometries are objects like any other: the collection goes with its last object (DEL, PDEL), stays on overwrite
		{S("SET", "zones", "z1", "OBJECT", `{"type":"FeatureCollection","features":[]}`), S("GET", "zones", "z1"), S("GET", "zones", "z1", "POINT"), S("GET", "zones", "z1", "BOUNDS"), S("KEYS", "*"), S("EXISTS", "zones", "z1"), S("SCAN", "zones"),
			S("DEL", "zones", "z1"), S("KEYS", "*"), S("TYPE", "zones"), S("EXISTS", "zones", "z1"), S("FGET", "zones", "z1", "x"), S("SCAN", "zones", "IDS"), S("DEL", "zones", "z1")},
		{S("SET", "areas", "a1", "FIELD", "n", "1", "OBJECT", `{"type":"GeometryCollection","geometries":[]}`), S("SET", "areas", "a2", "POINT", "1", "2"), S("SCAN", "areas", "IDS"), S("PDEL", "areas", "a*"),
			S("KEYS", "*"), S("TYPE", "areas"), S("FGET", "areas", "a1", "n"), S("EXISTS", "areas", "a2"), S("SET", "areas", "a3", "STRING", "s"), S("DEL", "areas", "a3"), S("KEYS", "*")},
		{S("SET", "late", "l1", "OBJECT", `{"type":"FeatureCollection","features":[]}`), S("SET", "late", "l1", "POINT", "5", "6"), S("DEL", "late", "l1"), S("KEYS", "*"),
			S("SET", "late", "l2", "POINT", "5", "6"), S("SET", "late", "l2", "OBJECT", `{"type":"GeometryCollection","geometries":[]}`), S("GET", "late", "l2", "WITHFIELDS"), S("DEL", "late", "l2"), S("KEYS", "*"), S("TYPE", "late"),
			S("SET", "late", "l3", "OBJECT", `{"type":"MultiPoint","coordinates":[]}`), S("JSET", "late", "l3", "properties.p", "1"), S("EXPIRE", "late", "l3", "100"), S("PERSIST", "late", "l3"), S("RENAME", "late", "later"), S("PDEL", "later", "*"), S("KEYS", "*"), S("EXISTS", "later", "l3")},
		{S("SET", "f", "a", "RETURN", "x", "WITHFIELDS", "POINT", "1", "1"), S("SET", "f", "a", "RETURN", "HASH"), S("SET", "f", "a", "RETURN", "HASH", "0", "POINT", "1", "1"), S("SET", "f", "a", "POINT", "1", "1", "RETURN"), S("SET", "f", "a", "POINT", "1", "1", "RETURN", "POINT", "BOUNDS", "HASH", "3", "WITHFIELDS"), S("FSET", "f", "a", "RETURN", "RETURN", "p", "1")},
	}
	{ // a collection larger than the default page (100): default limit, cursors, DESC, MATCH ranges, COUNT
		var big [][]string
		for i := 0; i < 130; i++ {
			big = append(big, S("SET", "big", fmt.Sprintf("id%03d", (i*37)%130), "FIELD", "n", strconv.Itoa(i%3), "POINT", "1", strconv.Itoa(i%90)))
		}
		big = append(big, S("SCAN", "big", "IDS"), S("SCAN", "big", "CURSOR", "100", "IDS"), S("SCAN", "big", "CURSOR", "100"), S("SCAN", "big", "LIMIT", "7", "CURSOR", "125", "IDS"),
			S("SCAN", "big", "DESC", "LIMIT", "5", "IDS"), S("SCAN", "big", "DESC", "CURSOR", "128", "IDS"), S("SCAN", "big", "MATCH", "id01*", "IDS"), S("SCAN", "big", "MATCH", "id01*", "LIMIT", "3", "IDS"),
			S("SCAN", "big", "MATCH", "id01*", "CURSOR", "3", "LIMIT", "3", "IDS"), S("SCAN", "big", "MATCH", "id01*", "MATCH", "id12*", "DESC", "IDS"), S("SCAN", "big", "MATCH", "*5", "LIMIT", "4", "NOFIELDS"),
			S("SCAN", "big", "COUNT"), S("SCAN", "big", "CURSOR", "120", "COUNT"), S("SCAN", "big", "CURSOR", "200", "COUNT"), S("SCAN", "big", "MATCH", "id0*", "COUNT"), S("SCAN", "big", "MATCH", "id0*", "LIMIT", "20", "COUNT"),
			S("SCAN", "big", "LIMIT", "2", "LIMIT", "3"), S("SCAN", "big", "ASC", "DESC"), S("SCAN", "big", "MATCH", ""), S("SCAN", "big", "LIMIT", "0"), S("SCAN", "big", "CURSOR", "-1"), S("SCAN", "big", "FOO"), S("SCAN", "big", "IDS", "extra"),
			S("SCAN", "big", "CURSOR", "18446744073709551615", "IDS"), S("SCAN", "nokey", "COUNT"), S("SCAN", "nokey", "LIMIT", "5"), S("PDEL", "big", "id1*"), S("SCAN", "big", "COUNT"), S("SCAN", "big", "CURSOR", "50", "IDS"))
		corpus = append(corpus, big)
	}
	corpus = append(corpus, [][]string{S("SET", "k", "a", "POINT", "1", "1"), S("SET", "k", "b", "POINT", "1", "1"), S("SET", "k", "c", "STRING", "s"), S("SCAN", "k", "CURSOR", "1", "COUNT"), S("SCAN", "k", "CURSOR", "18446744073709551615", "COUNT"),
		S("SCAN", "k", "LIMIT", "2", "COUNT"), S("SCAN", "k", "CURSOR", "2", "LIMIT", "2", "COUNT"), S("SCAN", "k", "CURSOR", "3", "COUNT"), S("SCAN", "k", "LIMIT", "2", "MATCH", "*", "COUNT"), S("SCAN", "k", "LIMIT", "1", "MATCH", "[ab]", "COUNT")})
	// replacing a deadline replaces it: a short deadline re-armed far away (EXPIRE, SET .. EX over SET .. EX),
	// cleared (PERSIST), or gone with its object (DEL, then the id re-created without deadline) must not fire
	corpus = append(corpus, [][]string{
		S("SET", "t", "a", "EX", "1", "FIELD", "f", "1", "POINT", "1", "1"), S("EXPIRE", "t", "a", "1000"), S("TTL", "t", "a"),
		S("SET", "t", "b", "EX", "1", "POINT", "2", "2"), S("SET", "t", "b", "EX", "1000", "POINT", "3", "3"),
		S("SET", "t", "c", "EX", "1", "STRING", "s"), S("EXPIRE", "t", "c", "1000"), S("DEL", "t", "c"), S("SET", "t", "c", "STRING", "again"),
		S("SET", "t", "d", "EX", "1", "POINT", "4", "4"), S("PERSIST", "t", "d"),
		S("SET", "u", "e", "EX", "1", "POINT", "5", "5"), S("EXPIRE", "u", "e", "500"), S("FSET", "u", "e", "g", "2"), S("RENAME", "u", "v"),
		S("@sleep", "1350"),
		S("GET", "t", "a", "WITHFIELDS"), S("TTL", "t", "a"), S("GET", "t", "b"), S("TTL", "t", "b"), S("GET", "t", "c"), S("TTL", "t", "c"), S("TTL", "t", "d"), S("GET", "v", "e", "WITHFIELDS"), S("TTL", "v", "e"),
		S("SCAN", "t", "IDS"), S("KEYS", "*")})
	if bigOK {
		corpus = append(corpus, bigValueProgram())
	}
	for i, p := range corpus {
		t0 := time.Now()
		nt := t.runProgram(m, p, fmt.Sprintf("corpus-%d", i))
		r.Count("corpus:"+strings.Join(quoteProg(p), ";"), nt)
		if bigOK && i == len(corpus)-1 {
			r.Extra["big_value_program_seconds"] = fmt.Sprintf("%.1f", time.Since(t0).Seconds())
		}
	}

	for i := 0; i < nprog; i++ {
		prog := make([][]string, 0, plen)
		for len(prog) < plen {
			c := genCmd(rng)
			if rng.Intn(12) == 0 {
				c = malform(rng, c)
			}
			if risky(c) {
				continue
			}
			prog = append(prog, c)
		}
		nt := t.runProgram(m, prog, fmt.Sprintf("program-%d", i))
		r.Count("p:"+strings.Join(quoteProg(prog), ";"), nt)
		if nt {
			r.Sample(3, map[string]interface{}{"program_head": quoteProg(prog[:6]), "commands": len(prog)})
		}
		if len(r.Failures) > 12 {
			break
		}
	}

	// malformed-argument stream on a populated dataset
	for i := 0; i < nmal/25 && len(r.Failures) <= 12; i++ {
		prog := [][]string{S("SET", "fleet", "a", "FIELD", "speed", "5", "POINT", "1", "1"), S("SET", "k2", "b", "EX", "500", "STRING", `{"a":{"b":1}}`)}
		for len(prog) < 27 {
			c := malform(rng, genCmd(rng))
			if len(c) == 0 || risky(c) {
				continue
			}
			prog = append(prog, c)
		}
		r.Dist("malformed-program")
		nt := t.runProgram(m, prog, fmt.Sprintf("malformed-%d", i))
		r.Count("m:"+strings.Join(quoteProg(prog), ";"), nt)
	}

	xdepth := 4
	if cfg.Tier == "thorough" {
		xdepth = 5
	}
	t.exhaustive(m, xdepth)

	fieldListCheck(r, m, rng, nfl)
	headCheck(r, m, rng, nhead)
	fieldBinCheck(r, m, rng, cfg, bigOK)

	r.TracesImpl = r.Evaluations
	r.Extra["oracle_lookups_resolved"] = m.nOrc
	r.Extra["model_requests"] = drv.N
	keys := make([]string, 0, len(r.Distribution))
	for k := range r.Distribution {
		keys = append(keys, k)
	}
	sort.Strings(keys)
}
