// tmplx regenerates coq/Gen/Templates.v from /repo/internal/server (C17 translator pass).
//
//	tmplx -repo /repo -out /verif/coq/Gen [-list]
package main

import (
	"flag"
	"fmt"
	"os"
	"path/filepath"

	"verifharness/internal/tmplx"
)

func main() {
	repo := flag.String("repo", "/repo", "")
	out := flag.String("out", "/verif/coq/Gen", "")
	list := flag.Bool("list", false, "print the sites instead of writing the file")
	flag.Parse()
	o, err := tmplx.Extract(*repo)
	if err != nil {
		fmt.Fprintln(os.Stderr, err)
		os.Exit(1)
	}
	if *list {
		for _, s := range o.Docs {
			fmt.Println("doc  ", s.Pos, s.Name, s.T)
		}
		for _, s := range o.Values {
			fmt.Println("value", s.Pos, s.Name, s.T)
		}
		for _, s := range o.Frags {
			fmt.Println("frag ", s.Pos, s.Name, s.T)
		}
		for _, u := range o.Unknown {
			fmt.Println("Unknown", u)
		}
		for _, u := range o.RawHoles {
			fmt.Println("HRaw", u)
		}
		return
	}
	if err := os.MkdirAll(*out, 0o755); err != nil {
		fmt.Fprintln(os.Stderr, err)
		os.Exit(1)
	}
	// rewritten only when the content changes: an unchanged table costs no Coq rebuild (Model/KsReply.v and
	// the ksreply driver depend on this file)
	target, text := filepath.Join(*out, "Templates.v"), []byte(o.Coq())
	if have, err := os.ReadFile(target); err != nil || string(have) != string(text) {
		if err := os.WriteFile(target, text, 0o644); err != nil {
			fmt.Fprintln(os.Stderr, err)
			os.Exit(1)
		}
	}
	fmt.Printf("tmplx: %d documents, %d value helpers, %d fragments, %d unknown, %d raw holes\n",
		len(o.Docs), len(o.Values), len(o.Frags), len(o.Unknown), len(o.RawHoles))
}
