package main

// C19 — counters, bounds and every access path agree with the retrievable dataset.
//
// Part A (in-package, through /repo/verifapi/coll.go): random histories on a real
// internal/collection.Collection; after every step (1) the direct oracle recomputes counters and
// the id list of every access path from the objects Scan returns and (2) the same step is applied
// to the extracted Coq model (ocaml/coll) and the two canonical summaries are compared.
// Part B (black-box): random command histories incl. RENAME/DROP/FLUSHDB/PDEL/FSET/EXPIRE on a real
// server; STATS / SERVER / BOUNDS / KEYS / SCAN COUNT / SEARCH COUNT vs recomputation from a dump.

import (
	"fmt"
	"io"
	"math"
	"math/rand"
	"net/http"
	"path/filepath"
	"sort"
	"strconv"
	"strings"

	"github.com/tidwall/tile38/verifapi"
	"verifharness/internal/hooklife"
	"verifharness/internal/hx"
	"verifharness/internal/model"
	"verifharness/internal/srv"
)

func main() { hx.Main("C19", runC19) }

var idAlpha = []string{"a", "b", "c", "d", "e", "ab", "a\x00", "\xff", "zz", "b1"}
var strAlpha = []string{"", "x", "x", "y", "xy", "\x00", "zebra", "a", "\xff\xfe"}
var exAlpha = []int64{0, 0, 0, 5, 5, 7, 1 << 40, 1<<62 + 3}

// coordinates exactly representable in float32 (multiples of 1/4 of moderate size): float32 rounding
// is injective on them, so BOUNDS must be exact on datasets built from them.
func gridCoord(rng *rand.Rand) float64 { return float64(rng.Intn(1441)-720) / 4 }

// near-tie coordinates: distinct float64 values inside one float32 cell (trigger of C19-bounds-f32-key)
func tieCoord(rng *rand.Rand) float64 {
	base := []float64{100, -100, 33.5, 0.1, -179.9, 1e-3}[rng.Intn(6)]
	return base + float64(rng.Intn(9))*1e-6
}

func decimalCoord(rng *rand.Rand) float64 { return math.Round((rng.Float64()*170-85)*1e6) / 1e6 }

func geoJSON(rng *rand.Rand, coord func(*rand.Rand) float64) string {
	p := func() string { return fmt.Sprintf("[%v,%v]", coord(rng), coord(rng)) }
	ring := func() string {
		x, y := coord(rng), coord(rng)
		w, h := float64(rng.Intn(8)+1)/4, float64(rng.Intn(8)+1)/4
		return fmt.Sprintf("[[%v,%v],[%v,%v],[%v,%v],[%v,%v],[%v,%v]]", x, y, x+w, y, x+w, y+h, x, y+h, x, y)
	}
	switch rng.Intn(12) {
	case 0:
		return `{"type":"Point","coordinates":` + p() + `}`
	case 1:
		return fmt.Sprintf(`{"type":"Point","coordinates":[%v,%v,%d]}`, coord(rng), coord(rng), rng.Intn(100))
	case 2:
		return `{"type":"LineString","coordinates":[` + p() + `,` + p() + `,` + p() + `]}`
	case 3:
		return `{"type":"Polygon","coordinates":[` + ring() + `]}`
	case 4:
		return `{"type":"MultiPoint","coordinates":[` + p() + `,` + p() + `]}`
	case 5:
		return `{"type":"MultiPolygon","coordinates":[[` + ring() + `],[` + ring() + `]]}`
	case 6:
		return `{"type":"GeometryCollection","geometries":[{"type":"Point","coordinates":` + p() + `},{"type":"LineString","coordinates":[` + p() + `,` + p() + `]}]}`
	case 7:
		return `{"type":"Feature","geometry":{"type":"Point","coordinates":` + p() + `},"properties":{"n":` + strconv.Itoa(rng.Intn(9)) + `}}`
	case 8:
		return `{"type":"FeatureCollection","features":[]}`
	case 9:
		return `{"type":"GeometryCollection","geometries":[]}`
	case 10:
		return `{"type":"FeatureCollection","features":[{"type":"Feature","geometry":{"type":"Polygon","coordinates":[` + ring() + `]},"properties":{}}]}`
	default:
		return `{"type":"MultiLineString","coordinates":[[` + p() + `,` + p() + `],[` + p() + `,` + p() + `]]}`
	}
}

func randFields(rng *rand.Rand) []string {
	var kv []string
	for i, n := 0, rng.Intn(4); i < n; i++ {
		kv = append(kv, []string{"f", "g", "speed", "props.x"}[rng.Intn(4)],
			[]string{"1", "2.5", "hello", `{"a":1}`, "0", "-7"}[rng.Intn(6)])
	}
	return kv
}

func bits(f float64) string   { return strconv.FormatUint(math.Float64bits(f), 10) }
func bits32(f float32) string { return strconv.FormatUint(uint64(math.Float32bits(f)), 10) }

func idsOf(l []*verifapi.Obj) string {
	if len(l) == 0 {
		return "-"
	}
	s := make([]string, len(l))
	for i, o := range l {
		s[i] = model.H(o.ID())
	}
	return strings.Join(s, ",")
}

func implSummary(c *verifapi.Coll) string {
	var sp []string
	for _, e := range c.Spatial() {
		sp = append(sp, fmt.Sprintf("%s:%s:%s:%s:%s", model.H(e.Obj.ID()), nanBits32(e.Min[0]), nanBits32(e.Min[1]), nanBits32(e.Max[0]), nanBits32(e.Max[1])))
	}
	sort.Strings(sp)
	sps := "-"
	if len(sp) > 0 {
		sps = strings.Join(sp, ",")
	}
	return fmt.Sprintf("C=%d S=%d P=%d W=%d ids=%s vals=%s ex=%s sp=%s", c.Count(), c.StringCount(), c.PointCount(),
		c.TotalWeight(), idsOf(c.Scan(false)), idsOf(c.SearchValues(false)), idsOf(c.ScanExpires()), sps)
}

func nanBits32(f float32) string {
	if f != f {
		return "-1"
	}
	return bits32(f)
}

// direct oracle on one collection: everything recomputed from Scan + Get
func oracleColl(r *hx.Result, c *verifapi.Coll, hist []string) {
	objs := c.Scan(false)
	fail := func(sig, what string) {
		r.Fail(hx.Failure{Kind: "oracle", Signature: sig, What: what, Case: map[string]interface{}{"history": append([]string{}, hist...)}})
	}
	nstr, npts, w := 0, 0, 0
	var wantVals, wantSp, wantEx []string
	for _, o := range objs {
		a := verifapi.Attrs(o)
		if c.Get(a.ID) != o {
			fail("scan-not-get", fmt.Sprintf("Scan returns an object for id %q that Get does not return", a.ID))
		}
		if !a.Spatial {
			nstr++
			wantVals = append(wantVals, a.ID)
		} else if !a.Empty {
			wantSp = append(wantSp, a.ID)
		}
		if a.Expires != 0 {
			wantEx = append(wantEx, a.ID)
		}
		npts += a.NumPoints
		w += a.Weight
	}
	if c.Count() != len(objs) || c.StringCount() != nstr || c.PointCount() != npts || c.TotalWeight() != w {
		fail("counter-drift", fmt.Sprintf("counters Count=%d StringCount=%d PointCount=%d TotalWeight=%d, recomputation from Scan gives %d %d %d %d",
			c.Count(), c.StringCount(), c.PointCount(), c.TotalWeight(), len(objs), nstr, npts, w))
	}
	setOf := func(l []*verifapi.Obj, path string) []string {
		var s []string
		for _, o := range l {
			if c.Get(o.ID()) != o {
				fail("path-not-get", fmt.Sprintf("%s returns an object for id %q that Get does not return", path, o.ID()))
			}
			s = append(s, o.ID())
		}
		sort.Strings(s)
		return s
	}
	cmp := func(path string, got, want []string) {
		sort.Strings(want)
		if strings.Join(got, "\x01") != strings.Join(want, "\x01") {
			fail("path-"+path, fmt.Sprintf("%s index holds ids %q, the retrievable objects of that class are %q", path, got, want))
		}
	}
	cmp("values", setOf(c.SearchValues(false), "SearchValues"), wantVals)
	cmp("expires", setOf(c.ScanExpires(), "ScanExpires"), wantEx)
	var spo []*verifapi.Obj
	for _, e := range c.Spatial() {
		spo = append(spo, e.Obj)
	}
	cmp("spatial", setOf(spo, "spatial index"), wantSp)
	// the spatial *search* path with windows aligned to the object's own edges: the object itself as
	// the query, and a window that has the object on its south-west corner (min edge = the object's max
	// edge). Whenever the exact predicate accepts the object, the index search must return it.
	for _, o := range objs {
		a := verifapi.Attrs(o)
		if !a.Spatial || a.Empty {
			continue
		}
		if verifapi.GeoIntersects(o, o.Geo()) && !containsObj(c.Intersects(o.Geo(), 0), o) {
			fail("path-spatial-search", fmt.Sprintf("Intersects(query = object %q itself) does not return %q although the exact predicate accepts it and Get returns it", a.ID, a.ID))
		}
		wjs := fmt.Sprintf(`{"type":"Polygon","coordinates":[[[%v,%v],[%v,%v],[%v,%v],[%v,%v],[%v,%v]]]}`,
			a.Rect[2], a.Rect[3], a.Rect[2]+1, a.Rect[3], a.Rect[2]+1, a.Rect[3]+1, a.Rect[2], a.Rect[3]+1, a.Rect[2], a.Rect[3])
		if q, err := verifapi.ParseGeo(wjs); err == nil && verifapi.GeoIntersects(o, q) && !containsObj(c.Intersects(q, 0), o) {
			fail("path-spatial-search", fmt.Sprintf("Intersects(window with %q on its south-west corner: %s) does not return %q although the exact predicate accepts it", a.ID, wjs, a.ID))
		}
	}
	desc := c.Scan(true)
	for i := range desc {
		if len(desc) != len(objs) || desc[i] != objs[len(objs)-1-i] {
			fail("scan-desc", "descending Scan is not the reverse of ascending Scan")
			break
		}
	}
	// order of the value and expiry paths
	vs := c.SearchValues(false)
	for i := 1; i < len(vs); i++ {
		a, b := verifapi.Attrs(vs[i-1]), verifapi.Attrs(vs[i])
		if !(a.Str < b.Str || (a.Str == b.Str && a.ID < b.ID)) {
			fail("values-order", "SearchValues not in (value,id) order")
		}
	}
	es := c.ScanExpires()
	for i := 1; i < len(es); i++ {
		a, b := verifapi.Attrs(es[i-1]), verifapi.Attrs(es[i])
		if !(a.Expires < b.Expires || (a.Expires == b.Expires && a.ID < b.ID)) {
			fail("expires-order", "ScanExpires not in (deadline,id) order")
		}
	}
}

func containsObj(l []*verifapi.Obj, o *verifapi.Obj) bool {
	for _, x := range l {
		if x == o {
			return true
		}
	}
	return false
}

// bounds oracle: exact bounding box of the spatial non-empty objects vs Bounds()
func oracleBounds(r *hx.Result, c *verifapi.Coll, hist []string) (nontrivial bool) {
	b := c.Bounds()
	var want [4]float64
	n := 0
	for _, o := range c.Scan(false) {
		a := verifapi.Attrs(o)
		if !a.Spatial || a.Empty {
			continue
		}
		if n == 0 {
			want = a.Rect
		} else {
			want[0] = math.Min(want[0], a.Rect[0])
			want[1] = math.Min(want[1], a.Rect[1])
			want[2] = math.Max(want[2], a.Rect[2])
			want[3] = math.Max(want[3], a.Rect[3])
		}
		n++
	}
	if b == want {
		return n > 1
	}
	sig := classifyBounds(b, want)
	r.Fail(hx.Failure{Kind: "oracle", Signature: sig,
		What: fmt.Sprintf("Bounds() = %v but the exact bounding box of the retrievable geometries is %v", b, want),
		Case: map[string]interface{}{"history": append([]string{}, hist...)}})
	return true
}

type mkObj struct {
	desc string
	o    *verifapi.Obj
}

func randObj(rng *rand.Rand, id string, coord func(*rand.Rand) float64) mkObj {
	ex := exAlpha[rng.Intn(len(exAlpha))]
	kv := randFields(rng)
	switch k := rng.Intn(10); {
	case k < 3:
		s := strAlpha[rng.Intn(len(strAlpha))]
		return mkObj{fmt.Sprintf("SET %q STRING %q EX %d FIELDS %q", id, s, ex, kv), verifapi.NewStringObj(id, s, ex, kv...)}
	case k < 5:
		x, y := coord(rng), coord(rng)
		return mkObj{fmt.Sprintf("SET %q POINT %v %v EX %d FIELDS %q", id, x, y, ex, kv), verifapi.NewPointObj(id, x, y, ex, kv...)}
	case k < 6:
		x, y := coord(rng), coord(rng)
		w, h := float64(rng.Intn(9))/4, float64(rng.Intn(9))/4
		return mkObj{fmt.Sprintf("SET %q BOUNDS %v %v %v %v EX %d FIELDS %q", id, x, y, x+w, y+h, ex, kv), verifapi.NewRectObj(id, x, y, x+w, y+h, ex, kv...)}
	default:
		js := geoJSON(rng, coord)
		o, err := verifapi.NewGeoObj(id, js, ex, kv...)
		if err != nil {
			panic("generator produced unparsable GeoJSON: " + js + ": " + err.Error())
		}
		return mkObj{fmt.Sprintf("SET %q OBJECT %s EX %d FIELDS %q", id, js, ex, kv), o}
	}
}

func setReq(o *verifapi.Obj) []string {
	a := verifapi.Attrs(o)
	str := a.Str
	if a.Spatial {
		str = "" // byValue is only ever applied to non-spatial objects
	}
	return []string{"set", model.H(a.ID), model.B(a.Spatial), model.B(a.Empty), strconv.Itoa(a.NumPoints), strconv.Itoa(a.Weight),
		model.H(str), strconv.FormatInt(a.Expires, 10), bits(a.Rect[0]), bits(a.Rect[1]), bits(a.Rect[2]), bits(a.Rect[3])}
}

func inPackage(r *hx.Result, cfg hx.Config, rng *rand.Rand, drv *model.Driver) {
	histories, steps := 60, 60
	if cfg.Tier == "thorough" || cfg.Search {
		histories, steps = 1500, 120
	}
	for h := 0; h < histories; h++ {
		coord := gridCoord
		// a sixth of the histories use near-tie coordinates (known finding C19-bounds-f32-key), another sixth
		// arbitrary 6-decimal coordinates (not float32-representable: the R-tree rectangles are really rounded)
		tieMode := h%6 >= 4
		if h%6 == 5 {
			coord = tieCoord
		} else if h%6 == 4 {
			coord = decimalCoord
		}
		c := verifapi.NewColl()
		drv.Ask("new")
		var hist []string
		kinds := map[string]bool{}
		changed := false
		for s := 0; s < steps; s++ {
			id := idAlpha[rng.Intn(len(idAlpha))]
			var req []string
			if rng.Intn(10) < 7 {
				m := randObj(rng, id, coord)
				prev := c.Set(m.o)
				hist = append(hist, m.desc)
				req = setReq(m.o)
				a := verifapi.Attrs(m.o)
				kind := "string"
				if a.Spatial && a.Empty {
					kind = "emptygeo"
				} else if a.Spatial {
					kind = "geo"
				}
				r.Dist("inpkg-set:" + kind)
				if prev != nil {
					pa := verifapi.Attrs(prev)
					if pa.Spatial != a.Spatial || pa.Empty != a.Empty || (pa.Expires == 0) != (a.Expires == 0) {
						changed = true
						r.Dist("inpkg-kind-or-deadline-changing-overwrite")
					}
				}
				kinds[kind] = true
			} else {
				prev := c.Delete(id)
				hist = append(hist, fmt.Sprintf("DEL %q", id))
				req = []string{"del", model.H(id)}
				if prev != nil {
					r.Dist("inpkg-del:hit")
				} else {
					r.Dist("inpkg-del:miss")
				}
			}
			oracleColl(r, c, hist)
			impl := implSummary(c)
			mod := drv.Ask(req...)
			if impl != mod {
				r.Fail(hx.Failure{Kind: "correspondence", Signature: "coll-model", What: "collection state differs from Model.Collection after the last step of the history",
					Case: map[string]interface{}{"history": append([]string{}, hist...)}, Impl: impl, Model: mod})
				break
			}
			// Bounds: admissible according to the model? exact according to the oracle?
			b := c.Bounds()
			ok := drv.Ask("bounds_ok", bits(b[0]), bits(b[1]), bits(b[2]), bits(b[3]))
			if ok != "1" {
				r.Fail(hx.Failure{Kind: "correspondence", Signature: "bounds-model", What: "Bounds() is not a rectangle the model's Bounds relation admits",
					Case: map[string]interface{}{"history": append([]string{}, hist...)}, Impl: fmt.Sprint(b), Model: ok})
			}
			oracleBounds(r, c, hist)
			if !tieMode {
				// on the float32-exact grid the model itself must say the bounds are exact
				if ex := drv.Ask("bounds_exact", bits(b[0]), bits(b[1]), bits(b[2]), bits(b[3])); ex != "1" {
					r.Fail(hx.Failure{Kind: "correspondence", Signature: "bounds-exact-model", What: "model says the reported bounds are not the exact box on float32-exact coordinates",
						Case: map[string]interface{}{"history": append([]string{}, hist...)}, Impl: fmt.Sprint(b), Model: ex})
				}
			}
		}
		r.Count(fmt.Sprintf("inpkg/%x", hashStrings(hist)), changed && len(kinds) >= 2)
		r.TracesImpl++
		if h < 2 {
			r.Sample(6, map[string]interface{}{"inpackage_history_prefix": hist[:min(6, len(hist))], "final": implSummary(c)})
		}
	}
}

func hashStrings(l []string) uint64 {
	var h uint64 = 1469598103934665603
	for _, s := range l {
		for i := 0; i < len(s); i++ {
			h = (h ^ uint64(s[i])) * 1099511628211
		}
		h = (h ^ 0xff) * 1099511628211
	}
	return h
}

func runC19(r *hx.Result, cfg hx.Config) {
	r.Rule = "in-package: one case = one random Set/Delete history (ids from a 10-symbol alphabet; strings, points, rects, 12 GeoJSON shapes incl. empty FeatureCollection/GeometryCollection; deadlines from 6 values incl. 0; 0-3 fields) checked after every step; non-trivial = history containing at least one overwrite that changes kind (string/geometry/empty geometry) or deadline presence and at least two kinds. black-box: one case = one (history, key) STATS/BOUNDS/COUNT comparison or one server-total comparison after a random command history incl. RENAME/RENAMENX/DROP/FLUSHDB/PDEL/FSET/EXPIRE/PERSIST and refused / conditional writes (SET XX|NX, FSET XX, EXPIRE/PERSIST/DEL/PDEL/DROP on missing or just-emptied keys), with KEYS and num_collections compared against the keys from which GET retrieves at least one object; non-trivial = the key holds at least two objects of different kinds."
	r.Assumptions = []string{
		"object attributes (IsSpatial, Empty, NumPoints, Weight, String, Expires, Rect) are read through the real methods and handed to the model as data",
		"tidwall/btree = strictly sorted list, tidwall/rtree = unordered entry list (internal order not modelled)",
		"black-box: GeoJSON NumPoints/Rect and field-list Weight are recomputed by calling the libraries directly on the dumped text",
	}
	rng := rand.New(rand.NewSource(cfg.Seed))
	drv, err := model.Start("coll")
	if err != nil {
		panic(err)
	}
	defer drv.Close()
	corpus(r, drv)
	inPackage(r, cfg, rng, drv)
	blackBox(r, cfg, rng)
	// access-path sweep over the pattern-selecting forms of SCAN / SEARCH (Props/C19sel.v, seeds_r3.go)
	c19Round3(r, cfg, rng, drv)
	// refused / malformed writes on absent keys: key space vs retrievable objects (Props/C19ks.v, seeds_r4.go)
	c19Round4(r, cfg, rng)
	// deadlines of either sign + sweep, CURSOR x LIMIT x COUNT, inverted-BOUNDS probe (Props/C19ex.v, C19cur.v, C19inv.v; seeds_r5.go)
	c19Round5(r, cfg, rng, drv)
	// hook / channel registry size against the life-cycle model (Props/C19hk.v)
	hooklife.RunC19(r, cfg)
}

// fixed regression corpus, run first
func corpus(r *hx.Result, drv *model.Driver) {
	// F12: two points in one float32 cell
	c := verifapi.NewColl()
	drv.Ask("new")
	hist := []string{"SET p1 POINT lat=1 lon=100.000002", "SET p2 POINT lat=1 lon=100.000001"}
	for i, o := range []*verifapi.Obj{verifapi.NewPointObj("p1", 100.000002, 1, 0), verifapi.NewPointObj("p2", 100.000001, 1, 0)} {
		c.Set(o)
		impl, mod := implSummary(c), drv.Ask(setReq(o)...)
		if impl != mod {
			r.Fail(hx.Failure{Kind: "correspondence", Signature: "coll-model", What: "corpus F12 step differs", Case: hist[:i+1], Impl: impl, Model: mod})
		}
	}
	b := c.Bounds()
	if ok := drv.Ask("bounds_ok", bits(b[0]), bits(b[1]), bits(b[2]), bits(b[3])); ok != "1" {
		r.Fail(hx.Failure{Kind: "correspondence", Signature: "bounds-model", What: "corpus F12: Bounds() not admitted by the model", Case: hist, Impl: fmt.Sprint(b)})
	}
	oracleBounds(r, c, hist)
	r.Count("corpus/f12", true)
	// kind-changing overwrites on one id
	c = verifapi.NewColl()
	drv.Ask("new")
	fc, _ := verifapi.NewGeoObj("a", `{"type":"FeatureCollection","features":[]}`, 9)
	ls, _ := verifapi.NewGeoObj("a", `{"type":"LineString","coordinates":[[0,0],[1,1],[2,0]]}`, 0, "f", "1")
	seq := []*verifapi.Obj{verifapi.NewStringObj("a", "x", 0), verifapi.NewPointObj("a", 1, 1, 5), fc, verifapi.NewStringObj("a", "yy", 7, "g", "hello"), ls, fc}
	var h2 []string
	for i, o := range seq {
		c.Set(o)
		h2 = append(h2, fmt.Sprintf("overwrite a #%d", i))
		oracleColl(r, c, h2)
		impl, mod := implSummary(c), drv.Ask(setReq(o)...)
		if impl != mod {
			r.Fail(hx.Failure{Kind: "correspondence", Signature: "coll-model", What: "corpus overwrite chain differs", Case: h2, Impl: impl, Model: mod})
		}
	}
	c.Delete("a")
	oracleColl(r, c, append(h2, "DEL a"))
	if impl, mod := implSummary(c), drv.Ask("del", model.H("a")); impl != mod {
		r.Fail(hx.Failure{Kind: "correspondence", Signature: "coll-model", What: "corpus delete differs", Case: h2, Impl: impl, Model: mod})
	}
	r.Count("corpus/overwrite-chain", true)
}

// ---------------------------------------------------------------- black-box

type dumpObj struct {
	id, obj string
	fields  []string
}

func scanDump(c *srv.Conn, key string) []dumpObj {
	var out []dumpObj
	cursor := "0"
	for {
		v := c.MustDo("SCAN", key, "CURSOR", cursor, "LIMIT", "1000")
		if v.Kind != '*' || len(v.Array) != 2 {
			return out
		}
		for _, e := range v.Array[1].Array {
			d := dumpObj{id: e.Array[0].Str, obj: e.Array[1].Str}
			if len(e.Array) > 2 {
				for _, f := range e.Array[2].Array {
					d.fields = append(d.fields, f.Str)
				}
			}
			out = append(out, d)
		}
		if v.Array[0].Int == 0 {
			return out
		}
		cursor = strconv.FormatInt(v.Array[0].Int, 10)
	}
}

// a dumped value is a string object iff it is not GeoJSON (the generator never stores GeoJSON text
// with SET ... STRING; JSET on a missing id stores non-GeoJSON JSON text as a string)
func isStringObj(s string) bool {
	if !strings.HasPrefix(s, "{") {
		return true
	}
	_, err := verifapi.ParseGeo(s)
	return err != nil
}

func statsMap(v srv.Value) map[string]int64 {
	m := map[string]int64{}
	for i := 0; i+1 < len(v.Array); i += 2 {
		n, err := strconv.ParseInt(v.Array[i+1].Str, 10, 64)
		if err == nil {
			m[v.Array[i].Str] = n
		} else if v.Array[i+1].Kind == ':' {
			m[v.Array[i].Str] = v.Array[i+1].Int
		}
	}
	return m
}

type recomputed struct {
	objects, strings, points, weight int64
	rect                             [4]float64
	nspatial                         int
	kinds                            map[string]bool
	ids, strIDs, spIDs               []string
}

func recompute(objs []dumpObj) recomputed {
	rc := recomputed{kinds: map[string]bool{}}
	for _, d := range objs {
		rc.objects++
		rc.ids = append(rc.ids, d.id)
		var o *verifapi.Obj
		if isStringObj(d.obj) {
			rc.strings++
			rc.strIDs = append(rc.strIDs, d.id)
			o = verifapi.NewStringObj(d.id, d.obj, 0, d.fields...)
			rc.kinds["string"] = true
		} else {
			var err error
			o, err = verifapi.NewGeoObj(d.id, d.obj, 0, d.fields...)
			if err != nil {
				panic("dumped object does not parse: " + d.obj)
			}
			a := verifapi.Attrs(o)
			rc.points += int64(a.NumPoints)
			if !a.Empty {
				rc.spIDs = append(rc.spIDs, d.id)
				if rc.nspatial == 0 {
					rc.rect = a.Rect
				} else {
					rc.rect[0] = math.Min(rc.rect[0], a.Rect[0])
					rc.rect[1] = math.Min(rc.rect[1], a.Rect[1])
					rc.rect[2] = math.Max(rc.rect[2], a.Rect[2])
					rc.rect[3] = math.Max(rc.rect[3], a.Rect[3])
				}
				rc.nspatial++
				rc.kinds["geo"] = true
			} else {
				rc.kinds["emptygeo"] = true
			}
		}
		rc.weight += int64(verifapi.Attrs(o).Weight)
	}
	return rc
}

var bbKeys = []string{"k1", "k2", "k3", "tmp"}
var bbIDs = []string{"a", "b", "c", "d", "e", "f"}

// every key / id any black-box command of this harness can name (the generator's alphabets plus the
// directed corpus): "retrievable" is decided by GET over this universe, independently of KEYS and SCAN
var allKeys = []string{"k1", "k2", "k3", "tmp", "depot", "b"}
var allIDs = []string{"a", "b", "c", "d", "e", "f", "gate1", "p1", "p2"}

func blackBox(r *hx.Result, cfg hx.Config, rng *rand.Rand) {
	rounds, ops := 4, 70
	if cfg.Tier == "thorough" || cfg.Search {
		rounds, ops = 60, 150
	}
	for round := 0; round < rounds; round++ {
		mport := srv.FreePort()
		s, err := srv.Start(filepath.Join(cfg.Work, fmt.Sprintf("c19-%d", round)), "--appendonly", "no",
			"--metrics-addr", fmt.Sprintf("127.0.0.1:%d", mport))
		if err != nil {
			panic(err)
		}
		metricsURL = fmt.Sprintf("http://127.0.0.1:%d/metrics", mport)
		func() {
			defer s.Kill()
			c := s.MustDial()
			defer c.Close()
			var hist []string
			do := func(args ...string) srv.Value {
				hist = append(hist, strings.Join(args, " "))
				return c.MustDo(args...)
			}
			if round == 0 {
				// regression corpus: F5 (SEARCH COUNT shortcut), then checked like everything else
				do("SET", "k1", "a", "STRING", "x")
				do("SET", "k1", "b", "POINT", "1", "1")
				do("SET", "k1", "c", "STRING", "y", "FIELD", "f", "1")
				checkServer(r, c, hist, round, -1)
			}
			if round == 0 {
				// regression corpus: refused and conditional writes on missing / emptied keys must leave no
				// trace in KEYS, SERVER num_collections, STATS, BOUNDS (checked after every command)
				for _, cmd := range [][]string{
					{"SET", "depot", "gate1", "XX", "POINT", "10", "20"},
					{"SET", "depot", "gate1", "XX", "STRING", "closed"},
					{"FSET", "depot", "gate1", "XX", "f", "1"},
					{"FSET", "depot", "gate1", "f", "1"},
					{"EXPIRE", "depot", "gate1", "100"},
					{"PERSIST", "depot", "gate1"},
					{"DEL", "depot", "gate1"},
					{"PDEL", "depot", "*"},
					{"DROP", "depot"},
					{"SET", "depot", "gate1", "NX", "POINT", "10", "20"},
					{"SET", "depot", "gate1", "NX", "STRING", "again"},
					{"SET", "depot", "a", "XX", "POINT", "1", "2"},
					{"DEL", "depot", "gate1"},
					{"SET", "depot", "gate1", "XX", "STRING", "closed"},
					{"SET", "depot", "gate1", "STRING", "open"},
					{"PDEL", "depot", "*"},
					{"SET", "depot", "gate1", "XX", "POINT", "10", "20"},
					{"SET", "depot", "gate1", "EX", "100000", "POINT", "10", "20"},
					{"DROP", "depot"},
					{"FSET", "depot", "gate1", "XX", "f", "1"},
					{"JSET", "depot", "gate1", "n", "1"},
					{"JDEL", "depot", "gate1", "n"},
					{"DEL", "depot", "gate1"},
				} {
					do(cmd...)
					checkServer(r, c, hist, round, -2)
				}
			}
			for i := 0; i < ops; i++ {
				key, id := bbKeys[rng.Intn(3)], bbIDs[rng.Intn(len(bbIDs))]
				if rng.Intn(5) == 0 {
					key = allKeys[rng.Intn(5)] // incl. "tmp" and "depot": usually missing or just emptied
				}
				if rng.Intn(12) == 0 {
					// hook / channel registry (fences on a key nothing is ever written to: no events)
					hn := []string{"h1", "h2", "ha", "c1", "c2", "ca"}[rng.Intn(6)]
					switch rng.Intn(7) {
					case 0, 1:
						do("SETHOOK", hn, "http://127.0.0.1:9/"+hn, "NEARBY", "nofleet", "FENCE", "POINT", "1", "1", strconv.Itoa(100+rng.Intn(3)))
					case 2, 3:
						do("SETCHAN", hn, "WITHIN", "nofleet", "FENCE", "DETECT", "outside,cross", "BOUNDS", "0", "0", strconv.Itoa(1+rng.Intn(3)), "5")
					case 4:
						do([]string{"DELHOOK", "DELCHAN"}[rng.Intn(2)], hn)
					case 5:
						do([]string{"PDELHOOK", "PDELCHAN"}[rng.Intn(2)], []string{"h*", "c*", "*a"}[rng.Intn(3)])
					default:
						do("SETHOOK", hn, "http://127.0.0.1:9/"+hn, "NEARBY", "nofleet", "FENCE", "ROAM", "nofleet", "*", "100")
					}
					r.Dist("bb:HOOK-OP")
					continue
				}
				switch k := rng.Intn(100); {
				case k < 50:
					args := []string{"SET", key, id}
					for _, n := 0, rng.Intn(3); n > 0; n-- {
						args = append(args, "FIELD", []string{"f", "g", "speed"}[rng.Intn(3)], []string{"1", "2.5", "0", "-7", "12"}[rng.Intn(5)])
					}
					if rng.Intn(4) == 0 {
						args = append(args, "EX", "100000")
					}
					switch rng.Intn(6) { // conditional writes: refused ones must change nothing
					case 0:
						args = append(args, "XX")
						r.Dist("bb:SET-XX")
					case 1:
						args = append(args, "NX")
						r.Dist("bb:SET-NX")
					}
					switch rng.Intn(8) {
					case 0, 1:
						args = append(args, "STRING", []string{"x", "y", "", "hello world", "x"}[rng.Intn(5)])
					case 2:
						if rng.Intn(2) == 0 {
							args = append(args, "POINT", fmt.Sprint(gridCoord(rng)/8), fmt.Sprint(gridCoord(rng)/4))
						} else { // 6-decimal coordinates: the index rectangle is a genuinely rounded one
							args = append(args, "POINT", fmt.Sprint(decimalCoord(rng)), fmt.Sprint(decimalCoord(rng)*2))
						}
					case 3:
						// (SET ... BOUNDS / HASH store a 2-point Rect whose dumped text re-parses as a 5-point
						// Polygon: the dump cannot tell them apart, so rectangles are exercised in-package only)
						args = append(args, "POINT", fmt.Sprint(gridCoord(rng)/8), fmt.Sprint(gridCoord(rng)/4), "10")
					default:
						args = append(args, "OBJECT", geoJSON(rng, func(rg *rand.Rand) float64 { return gridCoord(rg) / 8 }))
					}
					do(args...)
					r.Dist("bb:SET")
				case k < 62:
					do("DEL", key, id)
					r.Dist("bb:DEL")
				case k < 70:
					if rng.Intn(3) == 0 {
						do("FSET", key, id, "XX", []string{"f", "g", "h"}[rng.Intn(3)], []string{"0", "1", "33"}[rng.Intn(3)])
						r.Dist("bb:FSET-XX")
					} else {
						do("FSET", key, id, []string{"f", "g", "h"}[rng.Intn(3)], []string{"0", "1", "33"}[rng.Intn(3)])
						r.Dist("bb:FSET")
					}
				case k < 75:
					do("EXPIRE", key, id, "100000")
					r.Dist("bb:EXPIRE")
				case k < 79:
					do("PERSIST", key, id)
					r.Dist("bb:PERSIST")
				case k < 85:
					do("RENAME", key, bbKeys[rng.Intn(4)])
					r.Dist("bb:RENAME")
				case k < 88:
					do("RENAMENX", key, bbKeys[rng.Intn(4)])
					r.Dist("bb:RENAMENX")
				case k < 91:
					do("DROP", key)
					r.Dist("bb:DROP")
				case k < 94:
					do("PDEL", key, []string{"a*", "*", "[b-c]"}[rng.Intn(3)])
					r.Dist("bb:PDEL")
				case k < 95:
					do("FLUSHDB")
					r.Dist("bb:FLUSHDB")
				default:
					do("JSET", key, id, "properties.n", strconv.Itoa(rng.Intn(5)))
					r.Dist("bb:JSET")
				}
				if i%5 == 4 || i == ops-1 {
					checkServer(r, c, hist, round, i)
				}
			}
			if round == 0 {
				// F12 on the server
				do("FLUSHDB")
				do("SET", "b", "p1", "POINT", "1", "100.000002")
				do("SET", "b", "p2", "POINT", "1", "100.000001")
				checkServer(r, c, hist[len(hist)-3:], round, 1000)
			}
		}()
	}
}

func ulp32(x float64) float64 {
	f := float32(math.Abs(x))
	return float64(math.Nextafter32(f, float32(math.Inf(1))) - f)
}

// classifyBounds: "bounds-f32-key" (known finding) iff every differing side is explained by the
// mechanism of F12 and nothing more: the reported coordinate belongs to the exact box's interior side,
// its float32 index key (rtreeValueDown for min sides, rtreeValueUp for max sides) is at least as
// extreme as the key of the true extreme, and it is within 4 float32 ulps of the true extreme.
func classifyBounds(got, want [4]float64) string {
	for i := 0; i < 4; i++ {
		if got[i] == want[i] {
			continue
		}
		if math.Abs(got[i]-want[i]) > 4*ulp32(want[i]) {
			return "bounds-wrong"
		}
		if i < 2 {
			if !(got[i] > want[i] && verifapi.RtreeValueDown(got[i]) <= verifapi.RtreeValueDown(want[i])) {
				return "bounds-wrong"
			}
		} else {
			if !(got[i] < want[i] && verifapi.RtreeValueUp(got[i]) >= verifapi.RtreeValueUp(want[i])) {
				return "bounds-wrong"
			}
		}
	}
	return "bounds-f32-key"
}

var metricsURL string

// scrapeMetrics reads the Prometheus endpoint: "name{labels} value" lines -> map
func scrapeMetrics() map[string]float64 {
	if metricsURL == "" {
		return nil
	}
	resp, err := http.Get(metricsURL)
	if err != nil {
		return nil
	}
	defer resp.Body.Close()
	b, err := io.ReadAll(resp.Body)
	if err != nil || resp.StatusCode != 200 {
		return nil
	}
	out := map[string]float64{}
	for _, line := range strings.Split(string(b), "\n") {
		if line == "" || line[0] == '#' {
			continue
		}
		i := strings.LastIndexByte(line, ' ')
		if i < 0 {
			continue
		}
		if f, err := strconv.ParseFloat(line[i+1:], 64); err == nil {
			out[line[:i]] = f
		}
	}
	return out
}

func num(v srv.Value) int64 {
	if v.Kind == ':' {
		return v.Int
	}
	n, _ := strconv.ParseInt(v.Str, 10, 64)
	return n
}

func idsArr(v srv.Value) []string {
	out := []string{}
	if v.Kind == '*' && len(v.Array) == 2 {
		for _, e := range v.Array[1].Array {
			out = append(out, e.Str)
		}
	}
	return out
}

func checkServer(r *hx.Result, c *srv.Conn, hist []string, round, step int) {
	tail := hist
	if len(tail) > 40 {
		tail = tail[len(tail)-40:]
	}
	fail := func(sig, what string) {
		r.Fail(hx.Failure{Kind: "oracle", Signature: sig, What: what,
			Case: map[string]interface{}{"round": round, "step": step, "history_len": len(hist), "history_tail": append([]string{}, tail...)}})
	}
	kv := c.MustDo("KEYS", "*")
	var keys []string
	for _, e := range kv.Array {
		keys = append(keys, e.Str)
	}
	// collections that hold at least one retrievable object, decided by GET alone
	var live []string
	for _, key := range allKeys {
		for _, id := range allIDs {
			if g := c.MustDo("GET", key, id); g.Kind == '$' {
				live = append(live, key)
				break
			}
		}
	}
	sort.Strings(live)
	sortedKeys := append([]string{}, keys...)
	sort.Strings(sortedKeys)
	if strings.Join(sortedKeys, "\x01") != strings.Join(live, "\x01") {
		fail("keys-vs-retrievable", fmt.Sprintf("KEYS * = %q, the keys holding at least one retrievable object are %q", sortedKeys, live))
	}
	var tot recomputed
	type keyRC struct {
		key string
		rc  recomputed
	}
	var perKey []keyRC
	for _, key := range keys {
		objs := scanDump(c, key)
		rc := recompute(objs)
		perKey = append(perKey, keyRC{key, rc})
		tot.objects += rc.objects
		tot.strings += rc.strings
		tot.points += rc.points
		tot.weight += rc.weight
		nontrivial := len(rc.kinds) >= 2
		ck := fmt.Sprintf("bb/%d/%d/%s", round, step, key)
		if rc.objects == 0 {
			fail("empty-collection-listed", fmt.Sprintf("KEYS lists %q but SCAN returns no object", key))
		}
		// access paths vs GET
		for _, id := range bbIDs {
			g := c.MustDo("GET", key, id)
			in := false
			for _, x := range rc.ids {
				in = in || x == id
			}
			if (g.Kind == '$') != in {
				fail("scan-vs-get", fmt.Sprintf("GET %s %s retrievable=%v but SCAN lists it=%v", key, id, g.Kind == '$', in))
			}
		}
		// STATS
		sv := c.MustDo("STATS", key)
		if len(sv.Array) == 1 {
			m := statsMap(sv.Array[0])
			r.Count(ck+"/stats", nontrivial)
			if m["num_objects"] != rc.objects || m["num_strings"] != rc.strings || m["num_points"] != rc.points || m["in_memory_size"] != rc.weight {
				fail("stats", fmt.Sprintf("STATS %s = objects %d strings %d points %d size %d; recomputation from the dump gives %d %d %d %d",
					key, m["num_objects"], m["num_strings"], m["num_points"], m["in_memory_size"], rc.objects, rc.strings, rc.points, rc.weight))
			}
		}
		// SCAN COUNT / SEARCH COUNT / SEARCH IDS / WITHIN world
		if n := num(c.MustDo("SCAN", key, "COUNT")); n != rc.objects {
			fail("scan-count", fmt.Sprintf("SCAN %s COUNT = %d, dump has %d objects", key, n, rc.objects))
		}
		sids := idsArr(c.MustDo("SEARCH", key, "LIMIT", "100000", "IDS"))
		sort.Strings(sids)
		want := append([]string{}, rc.strIDs...)
		sort.Strings(want)
		if strings.Join(sids, "\x01") != strings.Join(want, "\x01") {
			fail("search-ids", fmt.Sprintf("SEARCH %s IDS = %q, the retrievable strings are %q", key, sids, want))
		}
		r.Count(ck+"/search-count", nontrivial)
		if n := num(c.MustDo("SEARCH", key, "COUNT")); n != rc.strings {
			fail("search-count", fmt.Sprintf("SEARCH %s COUNT = %d, SEARCH %s IDS returns %d ids (recomputed strings: %d)", key, n, key, len(sids), rc.strings))
		}
		if n := num(c.MustDo("SEARCH", key, "WHEREIN", "f", "1", "1", "COUNT")); true {
			w := idsArr(c.MustDo("SEARCH", key, "WHEREIN", "f", "1", "1", "LIMIT", "100000", "IDS"))
			if n != int64(len(w)) {
				fail("search-count", fmt.Sprintf("SEARCH %s WHEREIN f 1 1 COUNT = %d, the same query with IDS returns %d ids", key, n, len(w)))
			}
		}
		wids := idsArr(c.MustDo("INTERSECTS", key, "LIMIT", "100000", "IDS", "BOUNDS", "-90", "-180", "90", "180"))
		sort.Strings(wids)
		wantSp := append([]string{}, rc.spIDs...)
		sort.Strings(wantSp)
		if strings.Join(wids, "\x01") != strings.Join(wantSp, "\x01") {
			fail("spatial-ids", fmt.Sprintf("INTERSECTS %s IDS BOUNDS world = %q, the retrievable non-empty geometries are %q", key, wids, wantSp))
		}
		// the spatial search path with windows aligned to the object's own edges
		for _, d := range objs {
			if isStringObj(d.obj) {
				continue
			}
			o, err := verifapi.NewGeoObj(d.id, d.obj, 0)
			if err != nil || verifapi.Attrs(o).Empty {
				continue
			}
			a := verifapi.Attrs(o)
			ff := func(x float64) string { return strconv.FormatFloat(x, 'f', -1, 64) }
			for _, area := range [][]string{{"GET", key, d.id}, {"BOUNDS", ff(a.Rect[3]), ff(a.Rect[2]), ff(a.Rect[3] + 1), ff(a.Rect[2] + 1)}} {
				t := c.MustDo(append([]string{"TEST", "GET", key, d.id, "INTERSECTS"}, area...)...)
				if t.Kind != ':' || t.Int != 1 {
					continue
				}
				got := idsArr(c.MustDo(append([]string{"INTERSECTS", key, "LIMIT", "100000", "IDS"}, area...)...))
				found := false
				for _, x := range got {
					found = found || x == d.id
				}
				if !found {
					fail("spatial-search-loses", fmt.Sprintf("INTERSECTS %s IDS %s does not return %q although GET returns it and TEST GET %s %s INTERSECTS %s = 1",
						key, strings.Join(area, " "), d.id, key, d.id, strings.Join(area, " ")))
				}
			}
		}
		// BOUNDS
		bv := c.MustDo("BOUNDS", key)
		if bv.Kind == '*' && len(bv.Array) == 2 && rc.nspatial > 0 {
			pf := func(v srv.Value) float64 { f, _ := strconv.ParseFloat(v.Str, 64); return f }
			got := [4]float64{pf(bv.Array[0].Array[0]), pf(bv.Array[0].Array[1]), pf(bv.Array[1].Array[0]), pf(bv.Array[1].Array[1])}
			r.Count(ck+"/bounds", rc.nspatial >= 2)
			if got != rc.rect {
				sig := classifyBounds(got, rc.rect)
				fail(sig, fmt.Sprintf("BOUNDS %s = %v, exact bounding box of the dumped geometries = %v", key, got, rc.rect))
			}
		}
	}
	// SERVER totals
	sv := c.MustDo("SERVER")
	m := statsMap(sv)
	r.Count(fmt.Sprintf("bb/%d/%d/server", round, step), len(keys) >= 2)
	if m["num_objects"] != tot.objects || m["num_strings"] != tot.strings || m["num_points"] != tot.points ||
		m["in_memory_size"] != tot.weight {
		fail("server-totals", fmt.Sprintf("SERVER = objects %d strings %d points %d size %d; sums over the dump give %d %d %d %d",
			m["num_objects"], m["num_strings"], m["num_points"], m["in_memory_size"], tot.objects, tot.strings, tot.points, tot.weight))
	}
	if m["num_collections"] != int64(len(live)) {
		fail("num-collections", fmt.Sprintf("SERVER num_collections = %d, %d keys hold a retrievable object (%q)", m["num_collections"], len(live), live))
	}
	// SERVER EXT totals, hook registry size, Prometheus metrics: the same recomputation
	em := statsMap(c.MustDo("SERVER", "EXT"))
	if em["tile38_num_objects"] != tot.objects || em["tile38_num_strings"] != tot.strings || em["tile38_num_points"] != tot.points ||
		em["tile38_in_memory_size"] != tot.weight || em["tile38_num_collections"] != int64(len(live)) {
		fail("server-ext-totals", fmt.Sprintf("SERVER EXT = objects %d strings %d points %d size %d collections %d; recomputation gives %d %d %d %d %d",
			em["tile38_num_objects"], em["tile38_num_strings"], em["tile38_num_points"], em["tile38_in_memory_size"], em["tile38_num_collections"],
			tot.objects, tot.strings, tot.points, tot.weight, len(live)))
	}
	hv, cv := c.MustDo("HOOKS", "*"), c.MustDo("CHANS", "*")
	nh := int64(len(hv.Array) + len(cv.Array))
	names := map[string]bool{}
	for _, l := range [][]srv.Value{hv.Array, cv.Array} {
		for _, h := range l {
			if len(h.Array) > 0 {
				if names[h.Array[0].Str] {
					fail("hook-listed-twice", fmt.Sprintf("hook/channel name %q is listed twice by HOOKS * + CHANS *", h.Array[0].Str))
				}
				names[h.Array[0].Str] = true
			}
		}
	}
	r.Count(fmt.Sprintf("bb/%d/%d/hooks", round, step), nh >= 2)
	if m["num_hooks"] != nh || em["tile38_num_hooks"] != nh {
		fail("num-hooks", fmt.Sprintf("SERVER num_hooks = %d, SERVER EXT tile38_num_hooks = %d, HOOKS * + CHANS * list %d", m["num_hooks"], em["tile38_num_hooks"], nh))
	}
	if mt := scrapeMetrics(); mt != nil {
		want := map[string]float64{"tile38_collections": float64(len(live)), "tile38_hooks": float64(nh), "tile38_in_memory_size_bytes": float64(tot.weight)}
		for _, pk := range perKey {
			want[`tile38_collection_objects{col="`+pk.key+`"}`] = float64(pk.rc.objects)
			want[`tile38_collection_points{col="`+pk.key+`"}`] = float64(pk.rc.points)
			want[`tile38_collection_strings{col="`+pk.key+`"}`] = float64(pk.rc.strings)
			want[`tile38_collection_weight_bytes{col="`+pk.key+`"}`] = float64(pk.rc.weight)
		}
		for k, w := range want {
			if g, ok := mt[k]; !ok || g != w {
				fail("metrics", fmt.Sprintf("/metrics %s = %v (present=%v), recomputation gives %v", k, g, ok, w))
			}
		}
		for k := range mt {
			if strings.HasPrefix(k, "tile38_collection_objects{") {
				if _, ok := want[k]; !ok {
					fail("metrics", fmt.Sprintf("/metrics reports %s for a key without a retrievable object", k))
				}
			}
		}
		r.Dist("bb:metrics-scrape")
	}
	// a key without any retrievable object must be absent through every path
	for _, key := range allKeys {
		isLive := false
		for _, k := range live {
			isLive = isLive || k == key
		}
		if isLive {
			continue
		}
		if v := c.MustDo("BOUNDS", key); v.Kind == '*' {
			fail("dropped-key-visible", fmt.Sprintf("no object is retrievable from %q but BOUNDS %s = %s (want nil)", key, key, v.String()))
		}
		if v := c.MustDo("SCAN", key, "COUNT"); num(v) != 0 {
			fail("dropped-key-visible", fmt.Sprintf("no object is retrievable from %q but SCAN %s COUNT = %d", key, key, num(v)))
		}
		if v := c.MustDo("STATS", key); len(v.Array) == 1 && v.Array[0].Kind == '*' {
			fail("dropped-key-visible", fmt.Sprintf("no object is retrievable from %q but STATS %s = %s (want nil)", key, key, v.Array[0].String()))
		}
	}
	if step < 10 && round == 0 {
		r.Sample(8, map[string]interface{}{"blackbox_keys": keys, "totals": fmt.Sprintf("%+v", m["num_objects"])})
	}
}
