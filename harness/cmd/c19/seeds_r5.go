package main

// Round-5 strengthening of C19 (Props/C19ex.v, Props/C19cur.v, Props/C19inv.v):
//
//   - deadlines of either sign.  Model/Collection.v carries o_ex : Z and tests "<> 0" in Set and in
//     Delete; the in-package generator now draws negative deadlines too (init below) and a directed
//     corpus deletes / overwrites objects with negative, zero and huge deadlines (correspondence
//     coll-model + oracle path-expires / path-not-get).  Black-box: SET ... EX with a negative, zero
//     or far-future duration, the background sweep, and the same id stored again WITHOUT a deadline —
//     which must stay retrievable (c19_no_deadline_not_swept) — with the totals of checkServer.
//   - SCAN / SEARCH x CURSOR c x LIMIT l x COUNT: COUNT = number of ids the IDS form of the same
//     query lists (every pattern set), = min(max(n - c, 0), l) recomputed from the objects GET
//     retrieves (unfiltered), = Model.CollSel.coll_*_count_at on the model collection (correspondence;
//     c19_count_cursor_limit, c19_count_equals_ids_page).
//   - the regression probes of the repaired finding C19-inverted-bounds (SET ... BOUNDS, corners in any order).

import (
	"fmt"
	"math"
	"math/rand"
	"path/filepath"
	"sort"
	"strconv"
	"strings"
	"time"

	"github.com/tidwall/tile38/verifapi"
	"verifharness/internal/hx"
	"verifharness/internal/model"
	"verifharness/internal/srv"
)

var r5Keys = []string{"exp0", "exp1"}

func init() {
	// deadlines of either sign in the in-package histories (Expires() is an int64; 0 = none)
	exAlpha = append(exAlpha, -5, -5, -(1 << 40), math.MinInt64+9, math.MaxInt64-3)
	allKeys = append(allKeys, r5Keys...)
}

// ---------------------------------------------------------------------------------------------
// in-package corpus: Set / Delete over objects with negative, zero and huge deadlines
// ---------------------------------------------------------------------------------------------

func r5Corpus(r *hx.Result, drv *model.Driver) {
	type step struct {
		text string
		obj  *verifapi.Obj
		del  string
	}
	geo := func(id, js string, ex int64) *verifapi.Obj {
		o, err := verifapi.NewGeoObj(id, js, ex)
		if err != nil {
			panic(err)
		}
		return o
	}
	empty := `{"type":"GeometryCollection","geometries":[]}`
	histories := [][]step{
		{ // a negative deadline is indexed, Delete takes it out, the id comes back without a deadline
			{text: `Set "b" STRING "y" ex=7`, obj: verifapi.NewStringObj("b", "y", 7)},
			{text: `Set "a" STRING "x" ex=-2000000000000000000`, obj: verifapi.NewStringObj("a", "x", -2000000000000000000)},
			{text: `Delete "a"`, del: "a"},
			{text: `Set "a" STRING "z" ex=0`, obj: verifapi.NewStringObj("a", "z", 0)},
			{text: `Delete "a"`, del: "a"},
		},
		{ // overwrites between negative / zero / positive deadlines, all three kinds of object
			{text: `Set "p" POINT 1 1 ex=-5`, obj: verifapi.NewPointObj("p", 1, 1, -5)},
			{text: `Set "p" POINT 1 1 ex=0`, obj: verifapi.NewPointObj("p", 1, 1, 0)},
			{text: `Set "p" POINT 2 2 ex=-1`, obj: verifapi.NewPointObj("p", 2, 2, -1)},
			{text: `Set "e" OBJECT empty ex=-9`, obj: geo("e", empty, -9)},
			{text: `Set "s" STRING "v" ex=MinInt64+9`, obj: verifapi.NewStringObj("s", "v", math.MinInt64+9)},
			{text: `Set "t" STRING "v" ex=MaxInt64-3`, obj: verifapi.NewStringObj("t", "v", math.MaxInt64-3)},
			{text: `Delete "e"`, del: "e"},
			{text: `Delete "p"`, del: "p"},
			{text: `Delete "s"`, del: "s"},
			{text: `Set "p" STRING "w" ex=0`, obj: verifapi.NewStringObj("p", "w", 0)},
			{text: `Delete "t"`, del: "t"},
		},
	}
	for hi, h := range histories {
		c := verifapi.NewColl()
		drv.Ask("new")
		var hist []string
		for _, st := range h {
			hist = append(hist, st.text)
			var mod string
			if st.obj != nil {
				c.Set(st.obj)
				mod = drv.Ask(setReq(st.obj)...)
			} else {
				c.Delete(st.del)
				mod = drv.Ask("del", model.H(st.del))
			}
			oracleColl(r, c, hist)
			if impl := implSummary(c); impl != mod {
				r.Fail(hx.Failure{Kind: "correspondence", Signature: "coll-model", What: "corpus (deadlines of either sign): collection state differs from Model.Collection after the last step",
					Case: map[string]interface{}{"history": append([]string{}, hist...)}, Impl: impl, Model: mod})
				break
			}
		}
		r.Count(fmt.Sprintf("corpus/deadline-signs-%d", hi), true)
	}
}

// ---------------------------------------------------------------------------------------------
// CURSOR x LIMIT x COUNT
// ---------------------------------------------------------------------------------------------

func r5CursorSweep(r *hx.Result, cfg hx.Config, rng *rand.Rand, drv *model.Driver) {
	rounds := 3
	if cfg.Tier == "thorough" || cfg.Search {
		rounds = 40
	}
	s, err := srv.Start(filepath.Join(cfg.Work, "c19cur"), "--appendonly", "no")
	if err != nil {
		panic(err)
	}
	defer s.Kill()
	c := s.MustDial()
	defer c.Close()
	for round := 0; round < rounds; round++ {
		key := fmt.Sprintf("cur%d", round)
		drv.Ask("new")
		var hist []string
		uni := map[string]bool{}
		apply := func(op selOp) {
			hist = append(hist, strings.Join(op.args, " "))
			uni[op.id] = true
			if v := c.MustDo(op.args...); v.IsErr() && op.obj != nil {
				panic("cursor sweep: " + strings.Join(op.args, " ") + ": " + v.Str)
			}
			if op.obj != nil {
				drv.Ask(setReq(op.obj)...)
			} else {
				drv.Ask("del", model.H(op.id))
			}
		}
		if round == 0 {
			// directed: ten strings and three geometries
			for i := 0; i < 10; i++ {
				apply(selString(key, fmt.Sprintf("s%d", i), fmt.Sprintf("v%d", (i*7)%10)))
			}
			apply(selPoint(key, "p1", 1, 1))
			apply(selPoint(key, "p2", 2, 2))
			apply(selGeo(key, "e1", selEmptyGeos[0]))
		} else {
			n := 6 + rng.Intn(14)
			for i := 0; i < n; i++ {
				id := selName(rng)
				switch k := rng.Intn(10); {
				case k < 6:
					apply(selString(key, id, selName(rng)))
				case k < 8:
					apply(selPoint(key, id, rng.Intn(9), rng.Intn(9)))
				case k < 9:
					apply(selGeo(key, id, selEmptyGeos[rng.Intn(2)]))
				default:
					apply(selDel(key, id))
				}
			}
		}
		var universe []string
		for id := range uni {
			universe = append(universe, id)
		}
		sort.Strings(universe)
		retr := selRetrievable(c, key, universe)
		nAll, nStr := len(retr), 0
		var retrDesc []string
		for _, o := range retr {
			if o.isString {
				nStr++
				retrDesc = append(retrDesc, fmt.Sprintf("%s=%q", o.id, o.val))
			} else {
				retrDesc = append(retrDesc, o.id+"=<geometry>")
			}
		}
		cursors := []int{0, 1, 3, nStr - 1, nStr, nAll, nAll + 5}
		limits := []int{1, 2, 5, nStr, 100000}
		patternSets := [][]string{{}, {"*"}, {"s*"}, {"a*", "t*"}, {"v1", "c*", "m*"}}
		for _, path := range []string{"SCAN", "SEARCH"} {
			n := nAll
			if path == "SEARCH" {
				n = nStr
			}
			for _, ps := range patternSets {
				var margs []string
				for _, p := range ps {
					margs = append(margs, "MATCH", p)
				}
				unfiltered := len(ps) == 0 || (len(ps) == 1 && ps[0] == "*")
				for _, cur := range cursors {
					if cur < 0 {
						continue
					}
					for _, lim := range limits {
						if lim < 1 {
							continue
						}
						desc := rng.Intn(2) == 0
						dir := "ASC"
						if desc {
							dir = "DESC"
						}
						base := append(append([]string{path, key}, margs...), dir, "CURSOR", strconv.Itoa(cur), "LIMIT", strconv.Itoa(lim))
						cv := c.MustDo(append(append([]string{}, base...), "COUNT")...)
						iv := c.MustDo(append(append([]string{}, base...), "IDS")...)
						if cv.Kind != ':' || iv.Kind != '*' || len(iv.Array) != 2 {
							continue
						}
						ids := idsArr(iv)
						cmd := strings.Join(base, " ")
						cs := map[string]interface{}{"round": round, "command": cmd + " COUNT", "retrievable": append([]string{}, retrDesc...), "history": append([]string{}, hist...)}
						r.Count(fmt.Sprintf("cur/%d/%s/%q/%s/%d/%d", round, path, ps, dir, cur, lim), cur > 0 && cur < n && lim < n)
						r.Dist("cur:" + path + map[bool]string{true: "-unfiltered", false: "-match"}[unfiltered])
						if int(cv.Int) != len(ids) {
							r.Fail(hx.Failure{Kind: "oracle", Signature: "count-vs-ids-cursor-" + strings.ToLower(path),
								What: fmt.Sprintf("%s COUNT = %d but %s IDS lists %d ids %q (retrievable by GET: %s)", cmd, cv.Int, cmd, len(ids), ids, strings.Join(retrDesc, " ")),
								Case: cs})
						}
						if !unfiltered {
							continue
						}
						want := n - cur
						if want < 0 {
							want = 0
						}
						if want > lim {
							want = lim
						}
						if int(cv.Int) != want {
							r.Fail(hx.Failure{Kind: "oracle", Signature: "count-cursor-recomputed-" + strings.ToLower(path),
								What: fmt.Sprintf("%s COUNT = %d; GET retrieves %d objects of the class this path serves, so min(max(%d - %d, 0), %d) = %d (retrievable: %s)",
									cmd, cv.Int, n, n, cur, lim, want, strings.Join(retrDesc, " ")),
								Case: cs})
						}
						mf := strings.Fields(drv.Ask("count_at", strconv.Itoa(cur), strconv.Itoa(lim)))
						mi := 0
						if path == "SEARCH" {
							mi = 1
						}
						if len(mf) != 2 || mf[mi] != strconv.FormatInt(cv.Int, 10) {
							r.Fail(hx.Failure{Kind: "correspondence", Signature: "count-at-model-" + strings.ToLower(path),
								What: fmt.Sprintf("%s COUNT = %d, Model.CollSel.coll_%s_count_at %d %d = %v", cmd, cv.Int, strings.ToLower(path), cur, lim, mf),
								Case: cs, Impl: fmt.Sprint(cv.Int), Model: strings.Join(mf, " ")})
						}
					}
				}
			}
		}
	}
}

// ---------------------------------------------------------------------------------------------
// deadlines in the past, the sweep, and the id stored again without a deadline
// ---------------------------------------------------------------------------------------------

const r5SweepWait = 350 * time.Millisecond // the background expirer runs every 100 ms

type r5Exp struct {
	r       *hx.Result
	c       *srv.Conn
	round   int
	hist    []string
	step    int
	persist map[string]string // key/id -> GET text of objects stored without (or with a far) deadline
}

func (w *r5Exp) do(args ...string) srv.Value {
	w.hist = append(w.hist, strings.Join(args, " "))
	return w.c.MustDo(args...)
}

// after the sweep had time to run: everything stored to stay must still be retrievable, with the
// right TTL class, and the totals must agree with what GET retrieves
func (w *r5Exp) settle(nontrivial bool) {
	w.hist = append(w.hist, "(350 ms pass: the expiry sweep runs)")
	time.Sleep(r5SweepWait)
	w.step++
	tail := w.hist
	if len(tail) > 40 {
		tail = tail[len(tail)-40:]
	}
	cs := map[string]interface{}{"round": w.round, "step": w.step, "history_len": len(w.hist), "history_tail": append([]string{}, tail...)}
	var keys []string
	for k := range w.persist {
		keys = append(keys, k)
	}
	sort.Strings(keys)
	for _, k := range keys {
		f := strings.SplitN(k, "/", 2)
		g := w.c.MustDo("GET", f[0], f[1])
		if g.Kind != '$' || g.Str != w.persist[k] {
			w.r.Fail(hx.Failure{Kind: "oracle", Signature: "persistent-object-swept",
				What: fmt.Sprintf("GET %s %s = %s, but the last write to that id stored %q without a deadline in the past and nothing deleted it since (history tail: %q)",
					f[0], f[1], g.String(), w.persist[k], tail[max(0, len(tail)-6):]),
				Case: cs})
			delete(w.persist, k) // reported once
		}
	}
	checkServer(w.r, w.c, w.hist, 200+w.round, w.step)
	w.r.Count(fmt.Sprintf("exp/%d/%d/%q", w.round, w.step, keys), nontrivial && len(keys) > 0)
}

func r5Expiry(r *hx.Result, cfg hx.Config, rng *rand.Rand) {
	rounds, steps := 2, 10
	if cfg.Tier == "thorough" || cfg.Search {
		rounds, steps = 8, 60
	}
	for round := 0; round < rounds; round++ {
		s, err := srv.Start(filepath.Join(cfg.Work, fmt.Sprintf("c19exp-%d", round)), "--appendonly", "no")
		if err != nil {
			panic(err)
		}
		func() {
			defer s.Kill()
			c := s.MustDial()
			defer c.Close()
			w := &r5Exp{r: r, c: c, round: round, persist: map[string]string{}}
			key := r5Keys[0]
			w.do("SET", key, "e", "STRING", "keep")
			w.persist[key+"/e"] = "keep"
			if round == 0 {
				// directed: every way a deadline can already be over when the object is stored
				for i, ex := range []string{"-2000000000", "-1", "0", "-0.5"} {
					id := []string{"a", "b", "c", "d"}[i]
					w.do("SET", key, id, "EX", ex, "STRING", "old")
					r.Dist("exp:SET-EX-past")
					w.settle(false)
					// the same id again, to stay
					w.do("SET", key, id, "STRING", "new-"+id)
					w.persist[key+"/"+id] = "new-" + id
					w.settle(true)
					if tv := c.MustDo("TTL", key, id); tv.Kind != ':' || tv.Int != -1 {
						r.Fail(hx.Failure{Kind: "oracle", Signature: "persistent-object-swept",
							What: fmt.Sprintf("TTL %s %s = %s after SET %s %s STRING new-%s (no deadline): want -1", key, id, tv.String(), key, id, id),
							Case: map[string]interface{}{"history": append([]string{}, w.hist...)}})
					}
				}
				// a past deadline removed by DEL before the sweep sees it, a point, an overwrite with a far deadline
				w.do("SET", key, "a", "EX", "-2000000000", "POINT", "1", "1")
				w.do("DEL", key, "a")
				delete(w.persist, key+"/a")
				w.do("SET", key, "a", "POINT", "2", "2")
				if g := c.MustDo("GET", key, "a"); g.Kind == '$' {
					w.persist[key+"/a"] = g.Str
				}
				w.settle(true)
				w.do("SET", key, "b", "EX", "-7", "STRING", "old")
				w.do("SET", key, "b", "EX", "4000000000", "STRING", "far")
				w.persist[key+"/b"] = "far"
				w.settle(true)
				w.do("SET", key, "b", "STRING", "plain")
				w.persist[key+"/b"] = "plain"
				w.settle(true)
				return
			}
			for i := 0; i < steps; i++ {
				key := r5Keys[rng.Intn(len(r5Keys))]
				id := []string{"a", "b", "c", "d"}[rng.Intn(4)]
				past := false
				switch k := rng.Intn(10); {
				case k < 4:
					ex := []string{"-2000000000", "-1", "0", "-123.5"}[rng.Intn(4)]
					if rng.Intn(2) == 0 {
						w.do("SET", key, id, "EX", ex, "STRING", "old")
					} else {
						w.do("SET", key, id, "EX", ex, "POINT", strconv.Itoa(rng.Intn(9)), strconv.Itoa(rng.Intn(9)))
					}
					delete(w.persist, key+"/"+id)
					past = true
					r.Dist("exp:SET-EX-past")
				case k < 8:
					val := "v" + strconv.Itoa(i)
					args := []string{"SET", key, id}
					if rng.Intn(3) == 0 {
						args = append(args, "EX", []string{"100000", "4000000000"}[rng.Intn(2)])
					}
					w.do(append(args, "STRING", val)...)
					w.persist[key+"/"+id] = val
					r.Dist("exp:SET-to-stay")
				case k < 9:
					w.do("DEL", key, id)
					delete(w.persist, key+"/"+id)
					r.Dist("exp:DEL")
				default:
					w.do("PERSIST", key, id)
					r.Dist("exp:PERSIST")
				}
				if past {
					// let the sweep take it, then (two times in three) store the same id again to stay
					w.settle(false)
					if rng.Intn(3) > 0 {
						val := "again" + strconv.Itoa(i)
						w.do("SET", key, id, "STRING", val)
						w.persist[key+"/"+id] = val
						w.settle(true)
					}
				} else if i%3 == 2 {
					w.settle(true)
				}
			}
			w.settle(true)
		}()
	}
}

// ---------------------------------------------------------------------------------------------
// regression for finding C19-inverted-bounds (repaired in /repo by 85e217d): SET ... BOUNDS with the
// two corners in any order.  Every probe must hold now: the stored rectangle is the one
// Model/SetBounds.set_bounds_rect builds (correspondence set-bounds-model, observed through
// GET key id BOUNDS = the stored Min / Max), BOUNDS key is the bounding box of the geometries GET
// returns and a window inside the object reaches it.  bounds-inverted-rect is no longer an open
// finding: if it is reported again it is a violation.
// ---------------------------------------------------------------------------------------------

func r5InvertedBounds(r *hx.Result, cfg hx.Config, rng *rand.Rand, drv *model.Driver) {
	s, err := srv.Start(filepath.Join(cfg.Work, "c19inv"), "--appendonly", "no")
	if err != nil {
		panic(err)
	}
	defer s.Kill()
	c := s.MustDial()
	defer c.Close()
	pf := func(v srv.Value) float64 { f, _ := strconv.ParseFloat(v.Str, 64); return f }
	probe := func(key string, corners [4]string, sig string) {
		hist := []string{"SET " + key + " a BOUNDS " + strings.Join(corners[:], " "), "SET " + key + " b POINT 5 5"}
		c.MustDo("SET", key, "a", "BOUNDS", corners[0], corners[1], corners[2], corners[3])
		c.MustDo("SET", key, "b", "POINT", "5", "5")
		cs := map[string]interface{}{"history": hist}
		r.Count("inverted-bounds/"+key+"/"+strings.Join(corners[:], ","), corners[0] != corners[2] && corners[1] != corners[3])
		r.Dist("inv:" + sig)
		// correspondence: the stored rectangle = Model.SetBounds.set_bounds_rect of the four numbers
		var req = []string{"set_bounds"}
		for _, t := range corners {
			f, _ := strconv.ParseFloat(t, 64)
			req = append(req, bits(f))
		}
		mf := strings.Fields(drv.Ask(req...))
		gb := c.MustDo("GET", key, "a", "BOUNDS")
		if gb.Kind == '*' && len(gb.Array) == 2 && len(mf) == 5 {
			// reply [[Min.Y Min.X] [Max.Y Max.X]]; model minx miny maxx maxy
			impl := []string{bits(pf(gb.Array[0].Array[1])), bits(pf(gb.Array[0].Array[0])), bits(pf(gb.Array[1].Array[1])), bits(pf(gb.Array[1].Array[0]))}
			if strings.Join(impl, " ") != strings.Join(mf[:4], " ") || mf[4] != "1" {
				r.Fail(hx.Failure{Kind: "correspondence", Signature: "set-bounds-model",
					What: fmt.Sprintf("after %q: GET %s a BOUNDS = %s (stored Min / Max), Model.SetBounds.set_bounds_rect gives minx miny maxx maxy (bits) %v ordered=%s", hist[0], key, gb.String(), mf[:4], mf[4]),
					Case: cs, Impl: strings.Join(impl, " "), Model: strings.Join(mf, " ")})
			}
		} else {
			r.Fail(hx.Failure{Kind: "correspondence", Signature: "set-bounds-model", What: fmt.Sprintf("GET %s a BOUNDS = %s / model reply %v", key, gb.String(), mf), Case: cs})
		}
		// the exact box of what GET returns
		var want [4]float64
		for i, id := range []string{"a", "b"} {
			g := c.MustDo("GET", key, id)
			o, err := verifapi.NewGeoObj(id, g.Str, 0)
			if g.Kind != '$' || err != nil {
				panic("inverted-bounds probe: GET " + key + " " + id + " = " + g.String())
			}
			rc := verifapi.Attrs(o).Rect
			if i == 0 {
				want = rc
			} else {
				want = [4]float64{math.Min(want[0], rc[0]), math.Min(want[1], rc[1]), math.Max(want[2], rc[2]), math.Max(want[3], rc[3])}
			}
		}
		bv := c.MustDo("BOUNDS", key)
		var got [4]float64
		if bv.Kind == '*' && len(bv.Array) == 2 {
			got = [4]float64{pf(bv.Array[0].Array[0]), pf(bv.Array[0].Array[1]), pf(bv.Array[1].Array[0]), pf(bv.Array[1].Array[1])}
		}
		if got != want {
			r.Fail(hx.Failure{Kind: "oracle", Signature: sig,
				What: fmt.Sprintf("after %q: BOUNDS %s = %v, the bounding box of the geometries GET returns is %v", hist, key, got, want), Case: cs})
		}
		// a window inside the polygon GET shows for a (the middle of the object's own box)
		ga, _ := verifapi.NewGeoObj("a", c.MustDo("GET", key, "a").Str, 0)
		ra := verifapi.Attrs(ga).Rect // minx miny maxx maxy
		mx, my := (ra[0]+ra[2])/2, (ra[1]+ra[3])/2
		ff := func(x float64) string { return strconv.FormatFloat(x, 'f', -1, 64) }
		win := []string{ff(my - (ra[3]-ra[1])/8), ff(mx - (ra[2]-ra[0])/8), ff(my + (ra[3]-ra[1])/8), ff(mx + (ra[2]-ra[0])/8)}
		ids := idsArr(c.MustDo(append([]string{"INTERSECTS", key, "IDS", "BOUNDS"}, win...)...))
		found := false
		for _, id := range ids {
			found = found || id == "a"
		}
		if !found {
			sig2 := sig
			if sig == "bounds-wrong" {
				sig2 = "spatial-search-loses"
			}
			r.Fail(hx.Failure{Kind: "oracle", Signature: sig2,
				What: fmt.Sprintf("after %q: INTERSECTS %s IDS BOUNDS %s = %q does not reach \"a\" although the window lies inside the polygon GET %s a returns", hist, key, strings.Join(win, " "), ids, key), Case: cs})
		}
	}
	probe("ordered", [4]string{"0", "0", "10", "10"}, "bounds-wrong")
	probe("inverted", [4]string{"10", "10", "0", "0"}, "bounds-inverted-rect")     // the witness of the repaired finding
	probe("halfinverted", [4]string{"0", "10", "10", "0"}, "bounds-inverted-rect") // one axis only
	probe("halfinverted2", [4]string{"10", "0", "0", "10"}, "bounds-inverted-rect")
	n := 12
	if cfg.Tier == "thorough" || cfg.Search {
		n = 300
	}
	for i := 0; i < n; i++ {
		var cs [4]string
		for j := range cs {
			if j%2 == 0 {
				cs[j] = strconv.FormatFloat(float64(rng.Intn(1401)-700)/8, 'f', -1, 64) // latitude
			} else {
				cs[j] = strconv.FormatFloat(float64(rng.Intn(2801)-1400)/8, 'f', -1, 64) // longitude
			}
		}
		sig := "bounds-inverted-rect"
		a0, _ := strconv.ParseFloat(cs[0], 64)
		a1, _ := strconv.ParseFloat(cs[1], 64)
		a2, _ := strconv.ParseFloat(cs[2], 64)
		a3, _ := strconv.ParseFloat(cs[3], 64)
		if a0 == a2 || a1 == a3 {
			continue // a degenerate rectangle is dumped as a line: not this probe's subject
		}
		if a0 <= a2 && a1 <= a3 {
			sig = "bounds-wrong"
		}
		probe(fmt.Sprintf("rnd%d", i), cs, sig)
	}
}

func c19Round5(r *hx.Result, cfg hx.Config, rng *rand.Rand, drv *model.Driver) {
	r.Rule += " round-5: in-package deadlines of either sign (negative, zero, huge) in the random histories and a directed corpus; SCAN / SEARCH x CURSOR x LIMIT x COUNT against the IDS form, the recomputation from GET and Model.CollSel (non-trivial = 0 < cursor < n and limit < n); black-box SET ... EX with a past deadline, the sweep, and the same id stored again to stay (non-trivial = at least one object that has to stay while another was swept); the regression probes of the repaired finding C19-inverted-bounds (SET ... BOUNDS with the corners in any order: stored rectangle = Model.SetBounds, BOUNDS = box of what GET returns, a window inside reaches the object)."
	r5Corpus(r, drv)
	r5CursorSweep(r, cfg, rng, drv)
	r5Expiry(r, cfg, rng)
	r5InvertedBounds(r, cfg, rng, drv)
}
