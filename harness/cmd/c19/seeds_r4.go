package main

// Round-4 strengthening of C19 (Proofs/KsLive.v, Props/C19ks.v, driver ocaml/ks through
// harness/internal/ksx): the key space against the retrievable objects under REFUSED writes.
//
// Histories of keyspace commands in which most commands are refused, malformed or negative and are
// addressed to keys that do not exist (never created, emptied by DEL, by PDEL, dropped): for every
// write command of the keyspace (SET FSET DEL PDEL DROP RENAME RENAMENX EXPIRE PERSIST JSET JDEL) the
// forms a client can get refused — NX / XX, missing key or id, truncated or unparsable arguments after
// the key, a JSON path sjson refuses.  After every such command
//
//   - oracle (checkServer of main.go + the TYPE sweep below; "retrievable" = GET over the key x id
//     universe): KEYS * = keys holding a retrievable object, SERVER / SERVER EXT num_collections and the
//     Prometheus series = their number, STATS nil / BOUNDS nil / SCAN COUNT 0 / TYPE none for every
//     other key, TYPE hash for those;
//   - correspondence: the same command line is executed by the extracted keyspace model
//     (Model/Keyspace.v, the object of c01_nonempty_cols and of Props/C19ks.v): same reply, same KEYS *
//     reply, same TYPE reply for every key, registry size = num_collections.

import (
	"fmt"
	"math/rand"
	"path/filepath"
	"sort"
	"strconv"
	"strings"
	"time"

	"verifharness/internal/hx"
	"verifharness/internal/ksx"
	"verifharness/internal/model"
	"verifharness/internal/srv"
)

var r4Keys = []string{"fresh0", "fresh1", "fresh2", "fresh3", "fresh4"}
var r4IDs = []string{"a", "b", "c"}

func init() {
	// the GET universe of checkServer: every key this file can name
	allKeys = append(allKeys, r4Keys...)
}

func r4canon(v srv.Value) string {
	switch v.Kind {
	case '+':
		return "s" + model.H(v.Str)
	case '-':
		return "e" + model.H(v.Str)
	case ':':
		return "i" + strconv.FormatInt(v.Int, 10)
	case '$':
		return "b" + model.H(v.Str)
	case 'n':
		return "n"
	case '*':
		parts := make([]string, len(v.Array))
		for i, e := range v.Array {
			parts[i] = r4canon(e)
		}
		return "a(" + strings.Join(parts, ",") + ")"
	}
	return "?"
}

func r4negative(v srv.Value) bool {
	return v.Kind == '-' || v.Kind == 'n' || (v.Kind == ':' && v.Int == 0)
}

// the refusable forms of every write command, for (key, id, other key)
func r4Templates(key, id, other string) [][]string {
	return [][]string{
		// JSET: the path sjson refuses; truncated forms
		{"JSET", key, id, "", "1"},
		{"JSET", key, id, "", "1", "RAW"},
		{"JSET", key, id, "", "x", "STR"},
		{"JSET", key, id, "", ""},
		{"JSET", key, id, "p"},
		{"JSET", key, id},
		// SET: conditional refusals and bad arguments after the key
		{"SET", key, id, "XX", "POINT", "1", "1"},
		{"SET", key, id, "XX", "STRING", "v"},
		{"SET", key, id, "NX", "XX", "POINT", "1", "1"},
		{"SET", key, id, "POINT", "1"},
		{"SET", key, id, "POINT", "abc", "def"},
		{"SET", key, id, "POINT", "1", "1", "2", "3"},
		{"SET", key, id},
		{"SET", key},
		{"SET", key, id, "BOGUS", "1", "1"},
		{"SET", key, id, "OBJECT", `{"type":"Point"`},
		{"SET", key, id, "OBJECT", `{"type":"Nope","coordinates":[1,2]}`},
		{"SET", key, id, "FIELD", "f"},
		{"SET", key, id, "FIELD", "f", "1"},
		{"SET", key, id, "EX", "abc", "POINT", "1", "1"},
		{"SET", key, id, "EX", "10"},
		{"SET", key, id, "BOUNDS", "1", "2", "3"},
		{"SET", key, id, "HASH"},
		{"SET", key, id, "HASH", "!!!"},
		{"SET", key, id, "STRING"},
		// FSET / EXPIRE / PERSIST / JDEL / DEL / PDEL / DROP / RENAME on what does not exist
		{"FSET", key, id, "f", "1"},
		{"FSET", key, id, "XX", "f", "1"},
		{"FSET", key, id, "f"},
		{"FSET", key, id, "f", "notanumber{"},
		{"EXPIRE", key, id, "100"},
		{"EXPIRE", key, id, "abc"},
		{"EXPIRE", key, id},
		{"PERSIST", key, id},
		{"PERSIST", key},
		{"JDEL", key, id, "p"},
		{"JDEL", key, id, ""},
		{"DEL", key, id},
		{"DEL", key, id, "ERRON404"},
		{"PDEL", key, "*"},
		{"PDEL", key},
		{"DROP", key},
		{"RENAME", key, other},
		{"RENAMENX", key, other},
		{"RENAME", key},
	}
}

type r4Run struct {
	r     *hx.Result
	c     *srv.Conn
	mdl   *ksx.Mdl
	round int
	hist  []string
	step  int
}

func (w *r4Run) modelExec(args []string) (impl string, ok bool) {
	toks := append([]string{"exec", "1", strconv.FormatInt(time.Now().UnixNano(), 10), "010"}, func() []string {
		out := make([]string, len(args))
		for i, a := range args {
			out[i] = model.H(a)
		}
		return out
	}()...)
	f := strings.Fields(w.mdl.Ask(toks...))
	if len(f) != 8 || f[0] != "R" {
		return strings.Join(f, " "), false
	}
	return f[1], true
}

func (w *r4Run) tail() []string {
	t := w.hist
	if len(t) > 40 {
		t = t[len(t)-40:]
	}
	return append([]string{}, t...)
}

// do sends one command to the server and to the model and compares the replies
func (w *r4Run) do(compare bool, args ...string) srv.Value {
	w.hist = append(w.hist, strings.Join(args, " "))
	v := w.c.MustDo(args...)
	mr, ok := w.modelExec(args)
	if compare && (!ok || mr != r4canon(v)) {
		w.r.Fail(hx.Failure{Kind: "correspondence", Signature: "ks-reply-" + strings.ToLower(args[0]),
			What: fmt.Sprintf("%q answered %s, Model.Keyspace.exec answers %s", args, v.String(), mr),
			Case: map[string]interface{}{"round": w.round, "history_len": len(w.hist), "history_tail": w.tail()}, Impl: r4canon(v), Model: mr})
	}
	return v
}

// check: the oracle of main.go, the TYPE sweep, and the model's view of the key space
func (w *r4Run) check(nontrivial bool) {
	w.step++
	r, c := w.r, w.c
	cs := map[string]interface{}{"round": w.round, "step": w.step, "history_len": len(w.hist), "history_tail": w.tail()}
	checkServer(r, c, w.hist, 100+w.round, w.step)
	// TYPE against GET
	live := map[string]bool{}
	for _, key := range allKeys {
		for _, id := range allIDs {
			if g := c.MustDo("GET", key, id); g.Kind == '$' {
				live[key] = true
				break
			}
		}
	}
	for _, key := range allKeys {
		want := "none"
		if live[key] {
			want = "hash"
		}
		tv := c.MustDo("TYPE", key)
		if tv.Kind != '+' || tv.Str != want {
			r.Fail(hx.Failure{Kind: "oracle", Signature: "type-vs-retrievable",
				What: fmt.Sprintf("after %q: TYPE %s = %s although GET retrieves %s from that key (want %s)",
					w.hist[len(w.hist)-1], key, tv.String(), map[bool]string{true: "an object", false: "nothing"}[live[key]], want),
				Case: cs})
		}
		if mt, ok := w.modelExec([]string{"TYPE", key}); !ok || mt != r4canon(tv) {
			r.Fail(hx.Failure{Kind: "correspondence", Signature: "ks-type",
				What: fmt.Sprintf("after %q: TYPE %s = %s, Model.Keyspace answers %s", w.hist[len(w.hist)-1], key, tv.String(), mt),
				Case: cs, Impl: r4canon(tv), Model: mt})
		}
	}
	// KEYS * and the registry size against the model (c19ks_keys_listing, c19ks_num_collections)
	kv := c.MustDo("KEYS", "*")
	mk, ok := w.modelExec([]string{"KEYS", "*"})
	if !ok || mk != r4canon(kv) {
		r.Fail(hx.Failure{Kind: "correspondence", Signature: "ks-keys",
			What: fmt.Sprintf("after %q: KEYS * = %s, Model.Keyspace lists %s", w.hist[len(w.hist)-1], kv.String(), pretty4(mk)),
			Case: cs, Impl: r4canon(kv), Model: mk})
	}
	nreg := 0
	if d := w.mdl.Ask("dump"); strings.Contains(d, "|") {
		if t := d[strings.LastIndex(d, "|")+1:]; t != "" {
			nreg = len(strings.Split(t, ","))
		}
	}
	sm := statsMap(c.MustDo("SERVER"))
	if sm["num_collections"] != int64(nreg) {
		r.Fail(hx.Failure{Kind: "correspondence", Signature: "ks-num-collections",
			What: fmt.Sprintf("after %q: SERVER num_collections = %d, the model's registry holds %d collections", w.hist[len(w.hist)-1], sm["num_collections"], nreg),
			Case: cs, Impl: fmt.Sprint(sm["num_collections"]), Model: fmt.Sprint(nreg)})
	}
	var lk []string
	for k := range live {
		lk = append(lk, k)
	}
	sort.Strings(lk)
	r.Count(fmt.Sprintf("r4/%d/%d/%s/%q", w.round, w.step, w.hist[len(w.hist)-1], lk), nontrivial && len(lk) > 0)
}

func pretty4(c string) string {
	var sb strings.Builder
	i := 0
	for i < len(c) {
		ch := c[i]
		if ch == 'b' || ch == 's' || ch == 'e' {
			j := i + 1
			for j < len(c) && c[j] != ',' && c[j] != ')' {
				j++
			}
			sb.WriteByte(ch)
			sb.WriteString(strconv.Quote(model.U(c[i+1 : j])))
			i = j
			continue
		}
		sb.WriteByte(ch)
		i++
	}
	return sb.String()
}

func c19Round4(r *hx.Result, cfg hx.Config, rng *rand.Rand) {
	r.Rule += " round-4 refused writes: one case = one refused / malformed / negative form of a write command (SET FSET DEL PDEL DROP RENAME RENAMENX EXPIRE PERSIST JSET JDEL; 44 forms) sent to a key that was never created, emptied by DEL, emptied by PDEL or dropped, then KEYS / TYPE / STATS / BOUNDS / SCAN COUNT / SERVER num_collections / metrics compared with the objects GET retrieves and with Model.Keyspace; non-trivial = the command was refused while another key holds objects."
	mdl, err := ksx.Start("ks")
	if err != nil {
		panic(err)
	}
	defer mdl.Close()
	rounds, steps := 2, 60
	if cfg.Tier == "thorough" || cfg.Search {
		rounds, steps = 12, 400
	}
	for round := 0; round < rounds; round++ {
		mport := srv.FreePort()
		s, err := srv.Start(filepath.Join(cfg.Work, fmt.Sprintf("c19r4-%d", round)), "--appendonly", "no",
			"--metrics-addr", fmt.Sprintf("127.0.0.1:%d", mport))
		if err != nil {
			panic(err)
		}
		metricsURL = fmt.Sprintf("http://127.0.0.1:%d/metrics", mport)
		func() {
			defer func() { metricsURL = "" }()
			defer s.Kill()
			c := s.MustDial()
			defer c.Close()
			mdl.Ask("reset")
			w := &r4Run{r: r, c: c, mdl: mdl, round: round}
			// a key that stays populated, so that the totals are not trivially zero
			w.do(true, "SET", "k1", "a", "STRING", "x")
			w.do(true, "SET", "k1", "b", "POINT", "1", "1")
			if round == 0 {
				// directed: every form x every way a key can be absent
				states := []struct {
					name  string
					setup [][]string
				}{
					{"never-created", nil},
					{"emptied-by-DEL", [][]string{{"SET", "KEY", "a", "POINT", "1", "1"}, {"DEL", "KEY", "a"}}},
					{"emptied-by-PDEL", [][]string{{"SET", "KEY", "a", "STRING", "v"}, {"SET", "KEY", "b", "STRING", "w"}, {"PDEL", "KEY", "*"}}},
					{"dropped", [][]string{{"SET", "KEY", "a", "POINT", "1", "1"}, {"DROP", "KEY"}}},
				}
				for si, st := range states {
					key := r4Keys[si]
					for _, tmpl := range r4Templates(key, "a", "fresh4") {
						for _, su := range st.setup {
							cmd := append([]string{}, su...)
							cmd[1] = key
							w.do(true, cmd...)
						}
						v := w.do(true, tmpl...)
						r.Dist("r4:" + st.name + ":" + tmpl[0])
						w.check(r4negative(v))
						// leave the key absent for the next form (checked above, so a phantom was seen)
						w.do(false, "DROP", key)
						w.do(false, "DROP", "fresh4")
					}
				}
				return
			}
			for i := 0; i < steps; i++ {
				key, id := r4Keys[rng.Intn(4)], r4IDs[rng.Intn(len(r4IDs))]
				other := r4Keys[rng.Intn(len(r4Keys))]
				var v srv.Value
				switch k := rng.Intn(20); {
				case k < 3:
					v = w.do(true, "SET", key, id, "STRING", []string{"x", "y"}[rng.Intn(2)])
				case k < 5:
					v = w.do(true, "SET", key, id, "POINT", strconv.Itoa(rng.Intn(5)), strconv.Itoa(rng.Intn(5)))
				case k < 6:
					v = w.do(true, "SET", key, id, "OBJECT", `{"type":"GeometryCollection","geometries":[]}`)
				case k < 8:
					v = w.do(true, "DEL", key, id)
				case k < 9:
					if rng.Intn(2) == 0 {
						v = w.do(true, "DROP", key)
					} else {
						v = w.do(true, "PDEL", key, "*")
					}
				case k < 10:
					v = w.do(true, "JSET", key, id, []string{"n", "a.b", "", "n"}[rng.Intn(4)], strconv.Itoa(rng.Intn(9)))
				default:
					t := r4Templates(key, id, other)
					v = w.do(true, t[rng.Intn(len(t))]...)
				}
				r.Dist("r4:random:" + strings.Fields(w.hist[len(w.hist)-1])[0])
				if r4negative(v) || i%5 == 4 {
					w.check(r4negative(v))
				}
			}
		}()
	}
}
