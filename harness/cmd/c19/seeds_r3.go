package main

// Round-3 strengthening of C19 (Model/CollSel.v, Props/C19sel.v, driver ocaml/coll):
// the access-path sweep over the pattern-selecting forms of SCAN and SEARCH.
//
// One case = one (dataset, command) pair: a key holding strings, points, geometries and empty
// geometries under ids / values with different literal prefixes, built by a history of SET / DEL
// (kind-changing overwrites included), then
//
//	{SCAN, SEARCH} x {0..3 MATCH patterns} x {ASC, DESC} x {IDS, COUNT}
//
//   - oracle (no model): "retrievable" is decided by GET over the id universe of the round; the ids a
//     command reaches must be exactly the retrievable ids (SEARCH: retrievable strings) that match one
//     of the patterns, each once, and the COUNT form must return their number (capped by LIMIT);
//   - correspondence: the same history is applied to the extracted Model.Collection and the reply is
//     compared with Model.CollSel.coll_scan_ids / coll_search_ids / coll_*_count (exact order), the
//     functions theorems c19_scan_paths_reach / c19_search_paths_reach are about.
//
// Patterns are ASCII (no literal prefix ending in 0xFF: that is C12's known finding, excluded by the
// hypothesis ff_free of the theorems).

import (
	"fmt"
	"math/rand"
	"path/filepath"
	"sort"
	"strconv"
	"strings"

	"github.com/tidwall/tile38/verifapi"
	"verifharness/internal/hx"
	"verifharness/internal/model"
	"verifharness/internal/srv"
)

type selOp struct {
	args []string      // the server command
	obj  *verifapi.Obj // the same object for the model (nil = delete)
	id   string
}

func selMustGeo(id, js string) *verifapi.Obj {
	o, err := verifapi.NewGeoObj(id, js, 0)
	if err != nil {
		panic("selection sweep: unparsable GeoJSON " + js + ": " + err.Error())
	}
	return o
}

func selString(key, id, val string) selOp {
	return selOp{args: []string{"SET", key, id, "STRING", val}, obj: verifapi.NewStringObj(id, val, 0), id: id}
}
func selPoint(key, id string, lat, lon int) selOp {
	return selOp{args: []string{"SET", key, id, "POINT", strconv.Itoa(lat), strconv.Itoa(lon)},
		obj: verifapi.NewPointObj(id, float64(lon), float64(lat), 0), id: id}
}
func selGeo(key, id, js string) selOp {
	return selOp{args: []string{"SET", key, id, "OBJECT", js}, obj: selMustGeo(id, js), id: id}
}
func selDel(key, id string) selOp { return selOp{args: []string{"DEL", key, id}, id: id} }

var selEmptyGeos = []string{`{"type":"GeometryCollection","geometries":[]}`, `{"type":"FeatureCollection","features":[]}`}
var selFullGeos = []string{`{"type":"LineString","coordinates":[[1,1],[2,2]]}`,
	`{"type":"Polygon","coordinates":[[[0,0],[2,0],[2,2],[0,2],[0,0]]]}`}

// ids and string values are drawn from a few literal prefixes so that one pattern set covers
// several disjoint ranges of the two B-trees
var selPrefixes = []string{"a", "ab", "c", "ca", "m", "t", "tr", "z"}

func selName(rng *rand.Rand) string {
	return selPrefixes[rng.Intn(len(selPrefixes))] + []string{"", "1", "2", "3", "x", "-7"}[rng.Intn(6)]
}

func selRandPattern(rng *rand.Rand, texts []string) string {
	switch rng.Intn(8) {
	case 0:
		return "*"
	case 1:
		return texts[rng.Intn(len(texts))] // an exact name
	case 2:
		return []string{"?*", "[a-c]*", "*1", "\\a*", "??", "[m-z]?*"}[rng.Intn(6)] // no literal prefix: disables the range
	default:
		t := texts[rng.Intn(len(texts))]
		cut := 1 + rng.Intn(len(t))
		return t[:cut] + []string{"*", "*", "*", "?*", "[0-9a-z]*", "?"}[rng.Intn(6)]
	}
}

type selRetr struct {
	id       string
	isString bool
	val      string
}

// retrievable objects of key, decided by GET alone over the id universe
func selRetrievable(c *srv.Conn, key string, universe []string) []selRetr {
	var out []selRetr
	for _, id := range universe {
		g := c.MustDo("GET", key, id)
		if g.Kind != '$' {
			continue
		}
		out = append(out, selRetr{id: id, isString: isStringObj(g.Str), val: g.Str})
	}
	sort.Slice(out, func(i, j int) bool { return out[i].id < out[j].id })
	return out
}

func selAnyMatch(pats []string, s string) bool {
	if len(pats) == 0 {
		return true
	}
	for _, p := range pats {
		if ok, _ := verifapi.GlobMatch(p, s); ok {
			return true
		}
	}
	return false
}

func selSorted(l []string) []string {
	out := append([]string{}, l...)
	sort.Strings(out)
	return out
}

func selSame(a, b []string) bool {
	if len(a) != len(b) {
		return false
	}
	for i := range a {
		if a[i] != b[i] {
			return false
		}
	}
	return true
}

// reply of scan_sel / search_sel: <count> <n> {idhex}
func selModelReply(reply string) (count int64, ids []string, ok bool) {
	f := strings.Fields(reply)
	if len(f) < 2 {
		return 0, nil, false
	}
	cnt, err1 := strconv.ParseInt(f[0], 10, 64)
	n, err2 := strconv.Atoi(f[1])
	if err1 != nil || err2 != nil || len(f) != n+2 {
		return 0, nil, false
	}
	ids = []string{}
	for _, h := range f[2:] {
		ids = append(ids, model.U(h))
	}
	return cnt, ids, true
}

// selSweep: every pattern set x SCAN/SEARCH x ASC/DESC x IDS/COUNT on the current state of key
func selSweep(r *hx.Result, c *srv.Conn, drv *model.Driver, rng *rand.Rand, round int, phase string, key string,
	universe []string, hist []string, sets [][]string) {
	retr := selRetrievable(c, key, universe)
	var retrDesc []string
	for _, o := range retr {
		if o.isString {
			retrDesc = append(retrDesc, fmt.Sprintf("%s=%q", o.id, o.val))
		} else {
			retrDesc = append(retrDesc, o.id+"=<geometry>")
		}
	}
	tail := hist
	if len(tail) > 40 {
		tail = tail[len(tail)-40:]
	}
	for _, ps := range sets {
		var margs, hexps []string
		for _, p := range ps {
			margs = append(margs, "MATCH", p)
			hexps = append(hexps, model.H(p))
		}
		// what each path should reach, recomputed from the retrievable objects
		var wantScan, wantSearch []string
		for _, o := range retr {
			if selAnyMatch(ps, o.id) {
				wantScan = append(wantScan, o.id)
			}
			if o.isString && selAnyMatch(ps, o.val) {
				wantSearch = append(wantSearch, o.id)
			}
		}
		nstrings := 0
		for _, o := range retr {
			if o.isString {
				nstrings++
			}
		}
		for _, path := range []string{"SCAN", "SEARCH"} {
			want, total := wantScan, len(retr)
			if path == "SEARCH" {
				want, total = wantSearch, nstrings
			}
			want = selSorted(want)
			for _, desc := range []bool{false, true} {
				dir := "ASC"
				if desc {
					dir = "DESC"
				}
				limit := 100000
				if rng.Intn(4) == 0 {
					limit = 1 + rng.Intn(3) // the COUNT forms stop at LIMIT
				}
				idsCmd := append(append([]string{path, key}, margs...), dir, "LIMIT", "100000", "IDS")
				cntCmd := append(append([]string{path, key}, margs...), dir, "LIMIT", strconv.Itoa(limit), "COUNT")
				iv := c.MustDo(idsCmd...)
				cv := c.MustDo(cntCmd...)
				if iv.Kind != '*' || len(iv.Array) != 2 || cv.Kind != ':' {
					if len(retr) > 0 { // a key without objects answers "key not found"
						r.Fail(hx.Failure{Kind: "oracle", Signature: "sel-reply-shape",
							What: fmt.Sprintf("%s -> %s ; %s -> %s: not an id listing / a count although %d objects are retrievable from %q",
								strings.Join(idsCmd, " "), iv.String(), strings.Join(cntCmd, " "), cv.String(), len(retr), key),
							Case: map[string]interface{}{"round": round, "phase": phase, "history_tail": append([]string{}, tail...)}})
					}
					continue
				}
				got := idsArr(iv)
				cs := map[string]interface{}{"round": round, "phase": phase, "command": strings.Join(idsCmd, " "),
					"retrievable": append([]string{}, retrDesc...), "history_len": len(hist), "history_tail": append([]string{}, tail...)}
				r.Count(fmt.Sprintf("sel/%d/%s/%s/%s/%q", round, phase, path, dir, ps), len(want) > 0 && len(want) < total)
				r.Dist(fmt.Sprintf("sel:%s-%d-%s", path, len(ps), dir))
				// ---- oracle: reached ids = matching retrievable ids, each once; COUNT = their number
				class := "retrievable ids matching"
				if path == "SEARCH" {
					class = "ids of the retrievable strings whose value matches"
				}
				sgot := selSorted(got)
				for i := 1; i < len(sgot); i++ {
					if sgot[i] == sgot[i-1] {
						r.Fail(hx.Failure{Kind: "oracle", Signature: "sel-" + strings.ToLower(path) + "-ids-dup",
							What: fmt.Sprintf("%s lists id %q twice: %q", strings.Join(idsCmd, " "), sgot[i], got), Case: cs})
						break
					}
				}
				if !selSame(sgot, want) {
					r.Fail(hx.Failure{Kind: "oracle", Signature: "sel-" + strings.ToLower(path) + "-ids-" + dir,
						What: fmt.Sprintf("%s reaches %q; the %s one of %q are %q (retrievable by GET: %s)",
							strings.Join(idsCmd, " "), got, class, ps, want, strings.Join(retrDesc, " ")),
						Case: cs})
				}
				wantCount := int64(len(want))
				if wantCount > int64(limit) {
					wantCount = int64(limit)
				}
				if cv.Int != wantCount {
					ccs := map[string]interface{}{"round": round, "phase": phase, "command": strings.Join(cntCmd, " "),
						"retrievable": append([]string{}, retrDesc...), "history_len": len(hist), "history_tail": append([]string{}, tail...)}
					r.Fail(hx.Failure{Kind: "oracle", Signature: "sel-" + strings.ToLower(path) + "-count-" + dir,
						What: fmt.Sprintf("%s = %d; %d %s one of %q (%q), LIMIT %d (retrievable by GET: %s)",
							strings.Join(cntCmd, " "), cv.Int, len(want), class, ps, want, limit, strings.Join(retrDesc, " ")),
						Case: ccs})
				}
				// ---- correspondence: Model.CollSel on the model collection that went through the same history
				req := append([]string{strings.ToLower(path) + "_sel", model.B(desc), strconv.Itoa(limit), "100000"}, hexps...)
				mreply := drv.Ask(req...)
				mcount, mids, mok := selModelReply(mreply)
				if !mok || !selSame(got, mids) || mcount != cv.Int {
					r.Fail(hx.Failure{Kind: "correspondence", Signature: "sel-model-" + strings.ToLower(path) + "-" + dir,
						What: fmt.Sprintf("%s -> %q and %s -> %d; Model.CollSel gives ids %q and count %d (model reply %q)",
							strings.Join(idsCmd, " "), got, strings.Join(cntCmd, " "), cv.Int, mids, mcount, mreply),
						Case: cs, Impl: fmt.Sprintf("ids=%q count=%d", got, cv.Int), Model: fmt.Sprintf("ids=%q count=%d", mids, mcount)})
				}
			}
		}
	}
}

func c19Round3(r *hx.Result, cfg hx.Config, rng *rand.Rand, drv *model.Driver) {
	r.Rule += " round-3 access-path sweep: one case = one (dataset built by a SET/DEL history over strings, points, geometries and empty geometries with ids / values of 8 literal prefixes; SCAN or SEARCH; 0-3 MATCH patterns; ASC or DESC) with the IDS and the COUNT form compared to the retrievable objects (GET) that match and to Model.CollSel; non-trivial = the matching objects are a non-empty strict subset of the class the path serves."
	rounds, nsets, steps := 4, 22, 26
	if cfg.Tier == "thorough" || cfg.Search {
		rounds, nsets, steps = 60, 60, 40
	}
	s, err := srv.Start(filepath.Join(cfg.Work, "c19sel"), "--appendonly", "no")
	if err != nil {
		panic(err)
	}
	defer s.Kill()
	c := s.MustDial()
	defer c.Close()
	for round := 0; round < rounds; round++ {
		key := fmt.Sprintf("sel%d", round)
		drv.Ask("new")
		var hist []string
		uni := map[string]bool{}
		apply := func(op selOp) {
			hist = append(hist, strings.Join(op.args, " "))
			uni[op.id] = true
			v := c.MustDo(op.args...)
			if v.IsErr() && op.obj != nil {
				panic("selection sweep: " + strings.Join(op.args, " ") + ": " + v.Str)
			}
			if op.obj != nil {
				drv.Ask(setReq(op.obj)...)
			} else {
				drv.Ask("del", model.H(op.id))
			}
		}
		universe := func() []string {
			var u []string
			for id := range uni {
				u = append(u, id)
			}
			sort.Strings(u)
			return u
		}
		texts := func() []string {
			var t []string
			for _, o := range selRetrievable(c, key, universe()) {
				t = append(t, o.id)
				if o.isString && o.val != "" {
					t = append(t, o.val)
				}
			}
			if len(t) == 0 {
				t = []string{"a"}
			}
			return t
		}
		if round == 0 {
			// directed: a fleet of points and a list of names in one key; ids and values with distinct literal
			// prefixes; an empty geometry and a geometry in between; one id changes kind, one is deleted
			for _, op := range []selOp{
				selPoint(key, "a1", 1, 1), selPoint(key, "a2", 1, 2), selPoint(key, "b1", 2, 1), selPoint(key, "c1", 3, 1),
				selPoint(key, "c2", 3, 2), selPoint(key, "m1", 4, 1), selPoint(key, "t1", 5, 1), selPoint(key, "t2", 5, 2),
				selString(key, "n1", "alice"), selString(key, "n2", "arnold"), selString(key, "n3", "bob"), selString(key, "n4", "carol"),
				selString(key, "n5", "trent"), selString(key, "n6", "mallory"), selString(key, "c3", "carol"),
				selGeo(key, "b2", selEmptyGeos[0]), selGeo(key, "c4", selFullGeos[0]),
				selString(key, "t1", "tango"), selPoint(key, "n3", 9, 9), selDel(key, "a2"), selDel(key, "nosuch"),
			} {
				apply(op)
			}
			sets := [][]string{{}, {"*"}, {"a*"}, {"c*"}, {"a*", "c*"}, {"c*", "a*"}, {"t*", "a*", "m*"}, {"m*", "t*"}, {"a1", "c2"},
				{"n1", "t*"}, {"a*", "*"}, {"*", "a*"}, {"zz*", "a*"}, {"a*", "zz*"}, {"b*", "b*"}, {"c*", "?1"}, {"tr*", "al*"},
				{"car*", "ar*", "ta*"}, {"n?", "c*"}, {"c[1-3]", "a*"}, {"m*", "carol"}, {"alice", "trent"}, {"nomatch*"}}
			selSweep(r, c, drv, rng, round, "directed", key, universe(), hist, sets)
			continue
		}
		for phase := 0; phase < 2; phase++ {
			for i := 0; i < steps; i++ {
				id := selName(rng)
				switch k := rng.Intn(20); {
				case k < 4:
					apply(selDel(key, id))
				case k < 11:
					apply(selString(key, id, selName(rng)))
				case k < 15:
					apply(selPoint(key, id, rng.Intn(9), rng.Intn(9)))
				case k < 18:
					apply(selGeo(key, id, selEmptyGeos[rng.Intn(len(selEmptyGeos))]))
				default:
					apply(selGeo(key, id, selFullGeos[rng.Intn(len(selFullGeos))]))
				}
			}
			tx := texts()
			sets := [][]string{{}, {"*"}}
			for len(sets) < nsets {
				n := 1 + rng.Intn(3)
				if n == 1 && rng.Intn(3) > 0 {
					n = 2
				}
				var ps []string
				for j := 0; j < n; j++ {
					ps = append(ps, selRandPattern(rng, tx))
				}
				sets = append(sets, ps)
			}
			selSweep(r, c, drv, rng, round, fmt.Sprintf("random-%d", phase), key, universe(), hist, sets)
		}
		r.Sample(10, map[string]interface{}{"selection_round": round, "history_len": len(hist), "first": hist[0]})
	}
}
