// C13, oracle E — NEARBY while the collection is being written.
//
// The theorems of Props/C13.v are about one traversal of ONE tree; Props/C13iso.v proves from the
// regenerated lock tables that no mutation of a collection can interleave with a traversal, and
// c13_concurrent_nearby_one_tree what follows: every NEARBY answers from the collection as it was
// after some complete prefix of the writes.  This oracle checks that consequence on the server,
// without the model: reader connections run NEARBY in every output form (IDS / POINTS / BOUNDS /
// OBJECTS / HASHES / COUNT, with and without DISTANCE, LIMIT, radius, RESP and JSON) while writer
// connections issue every kind of write on the same collection (SET of points, rectangles and
// strings with and without TTL, FSET, DEL, EXPIRE, PERSIST, JSET, PDEL).
//
// Every writer owns a disjoint set of ids and records, before it sends a command, the state the
// command leaves each of its ids in, with the interval [send, reply] in which the change took
// effect.  A reply to a NEARBY sent at q0 and received at q1 was computed at one moment in between,
// so for every id the states it may have been in are known exactly:
//
//	no id twice; distances non-decreasing; every returned id was a positioned object in one of its
//	possible states, and DISTANCE (POINTS, BOUNDS) is bit-equal to the distance (position,
//	rectangle) of such a state; every id that was a positioned object in ALL its possible states is
//	returned (within the radius / closer than the k-th returned object when a radius / LIMIT is
//	given); COUNT lies between the certain and the possible; and the server survives.
package main

import (
	"encoding/json"
	"fmt"
	"math"
	"math/rand"
	"path/filepath"
	"sort"
	"strconv"
	"strings"
	"sync"
	"sync/atomic"
	"time"

	"verifharness/internal/hx"
	"verifharness/internal/srv"
)

const ckey = "fleet"
const never = int64(math.MaxInt64)

// cver: the state an id is in from some moment in [from0, from1] on (ns since the start of the
// run; from1 == never while the reply of the command is outstanding or, for an expiry, open)
type cver struct {
	from0, from1 int64
	present      bool // the id exists
	spatial      bool // ... as a positioned object (not a STRING value)
	point        bool
	r            rect
	by           string // the command that produced it
}

type cwriter struct {
	idx  int
	mu   sync.Mutex
	ids  []string
	hist map[string][]cver
	// the writer's own view (only this goroutine writes these ids)
	ttl   map[string]bool // has a (long) TTL
	vague map[string]bool // carries a short TTL: may have expired, only SET / DEL / PDEL are aimed at it
	ops   map[string]int
}

func (w *cwriter) last(id string) cver {
	h := w.hist[id]
	return h[len(h)-1]
}

// push registers the state `v` for id from `now` on (reply outstanding) and returns nothing; close
// sets the end of the interval once the reply has arrived.  An open expiry of the previous state is
// closed by the next command on the id: from its reply on the id is in the new state.
func (w *cwriter) push(id string, v cver) int {
	w.hist[id] = append(w.hist[id], v)
	return len(w.hist[id]) - 1
}

type cworld struct {
	t0      time.Time
	writers []*cwriter
	owner   map[string]*cwriter
	all     []string       // writer by writer, in the order of cwriter.ids
	pos     map[string]int // index in all
}

func (cw *cworld) now() int64 { return int64(time.Since(cw.t0)) }

// possible: the states id may have been in at some moment of [q0, q1]
func (cw *cworld) possible(id string, q0, q1 int64, buf []cver) []cver {
	w := cw.owner[id]
	buf = buf[:0]
	if w == nil {
		return buf
	}
	h := w.hist[id]
	for i := range h {
		if h[i].from0 > q1 {
			continue // (an expiry may lie in the future of the states recorded after it)
		}
		// superseded for certain before q0?  Only by a LATER state whose change was complete by then.
		dead := false
		for j := i + 1; j < len(h); j++ {
			if h[j].from1 < q0 {
				dead = true
				break
			}
		}
		if !dead {
			buf = append(buf, h[i])
		}
	}
	return buf
}

type cphase struct {
	name   string
	weight map[string]int
}

var cKinds = []string{"set", "setex", "setshort", "setstr", "fset", "del", "expire", "persist", "jset", "pdel"}

func cphases() []cphase {
	base := func() map[string]int {
		return map[string]int{"set": 10, "setex": 10, "setshort": 2, "setstr": 2, "fset": 10, "del": 6, "expire": 10, "persist": 10, "jset": 6, "pdel": 2}
	}
	ph := []cphase{{"mixed", base()}}
	// expire-heavy comes before persist-heavy: PERSIST only touches objects that have a TTL
	for _, k := range []string{"expire", "persist", "set", "fset", "del", "jset", "pdel"} {
		m := base()
		tot := 0
		for _, v := range m {
			tot += v
		}
		m[k] += 19 * tot // 95% of the operations
		if k == "set" {
			m["setex"] += tot
		}
		ph = append(ph, cphase{k + "-heavy", m})
	}
	return ph
}

func pickKind(rng *rand.Rand, m map[string]int) string {
	tot := 0
	for _, k := range cKinds {
		tot += m[k]
	}
	x := rng.Intn(tot)
	for _, k := range cKinds {
		if x < m[k] {
			return k
		}
		x -= m[k]
	}
	return "set"
}

func cRandObj(rng *rand.Rand, centre [2]float64) (rect, bool) {
	la := clampLat(centre[0] + (rng.Float64()*2 - 1))
	lo := clampLon(centre[1] + (rng.Float64()*2 - 1))
	if rng.Intn(10) == 0 {
		return rect{la, lo, clampLat(la + rng.Float64()*0.02), clampLon(lo + rng.Float64()*0.02)}, false
	}
	return rect{la, lo, la, lo}, true
}

func cSetArgs(id string, r rect, point bool, ex string, rng *rand.Rand) []string {
	a := []string{"SET", ckey, id}
	if rng.Intn(3) == 0 {
		a = append(a, "FIELD", "speed", strconv.Itoa(1+rng.Intn(90)))
	}
	if ex != "" {
		a = append(a, "EX", ex)
	}
	if point {
		return append(a, "POINT", fl(r[0]), fl(r[1]))
	}
	return append(a, "BOUNDS", fl(r[0]), fl(r[1]), fl(r[2]), fl(r[3]))
}

type cfailure struct {
	sig, what string
	cs        map[string]interface{}
}

type cshared struct {
	mu    sync.Mutex
	fails []cfailure
	stop  atomic.Bool
	dead  atomic.Bool
	dist  map[string]int
	evals []string
}

func (s *cshared) fail(sig, what string, cs map[string]interface{}) {
	s.mu.Lock()
	defer s.mu.Unlock()
	n := 0
	for _, f := range s.fails {
		if f.sig == sig {
			n++
		}
	}
	if n < 3 {
		s.fails = append(s.fails, cfailure{sig, what, cs})
	}
	s.dist["fail:"+sig]++
}

func (s *cshared) count(k string, n int) {
	s.mu.Lock()
	s.dist[k] += n
	s.mu.Unlock()
}

// one write command of writer w; returns false on a transport error (server gone)
func (cw *cworld) writeOnce(w *cwriter, c *srv.Conn, rng *rand.Rand, ph cphase, centre [2]float64, sh *cshared) bool {
	kind := pickKind(rng, ph.weight)
	id := w.ids[rng.Intn(len(w.ids))]
	if kind == "persist" || kind == "expire" {
		// aim PERSIST at an object that has a TTL and EXPIRE at one that has none, when there is one
		for try := 0; try < 8; try++ {
			if h := w.hist[id]; !w.vague[id] && h[len(h)-1].present && w.ttl[id] == (kind == "persist") {
				break
			}
			id = w.ids[rng.Intn(len(w.ids))]
		}
	}
	var args []string
	type change struct {
		id  string
		v   cver
		idx int
	}
	var changes []change
	var expiry *change
	cur := w.last(id)
	switch kind {
	case "set", "setex", "setshort":
		r, pt := cRandObj(rng, centre)
		if rng.Intn(4) == 0 && cur.present && cur.spatial {
			r, pt = cur.r, cur.point // same position again: a pure re-insert
		}
		ex := ""
		if kind == "setex" {
			ex = "100000"
		} else if kind == "setshort" {
			ex = []string{"0.05", "0.2", "0.5"}[rng.Intn(3)]
		}
		args = cSetArgs(id, r, pt, ex, rng)
		changes = append(changes, change{id: id, v: cver{present: true, spatial: true, point: pt, r: r}})
		if kind == "setshort" {
			secs, _ := strconv.ParseFloat(ex, 64)
			expiry = &change{id: id, v: cver{from0: int64(secs * 1e9), from1: never, present: false, by: "expiry of " + strings.Join(args, " ")}}
		}
	case "setstr":
		args = []string{"SET", ckey, id, "STRING", "parked " + strconv.Itoa(rng.Intn(100))}
		changes = append(changes, change{id: id, v: cver{present: true, spatial: false}})
	case "del":
		args = []string{"DEL", ckey, id}
		changes = append(changes, change{id: id, v: cver{present: false}})
	case "pdel":
		pre := id[:len(id)-1]
		args = []string{"PDEL", ckey, pre + "*"}
		for _, x := range w.ids {
			if strings.HasPrefix(x, pre) {
				changes = append(changes, change{id: x, v: cver{present: false}})
			}
		}
	default: // fset expire persist jset: the object keeps its position; aimed at ids whose state is certain
		if w.vague[id] || !cur.present {
			// make it certain first: put a point there
			r, pt := cRandObj(rng, centre)
			args = cSetArgs(id, r, pt, "100000", rng)
			changes = append(changes, change{id: id, v: cver{present: true, spatial: true, point: pt, r: r}})
			kind = "setex"
			break
		}
		switch kind {
		case "fset":
			args = []string{"FSET", ckey, id, "speed", strconv.Itoa(rng.Intn(90))}
		case "expire":
			args = []string{"EXPIRE", ckey, id, "100000"}
		case "persist":
			if !w.ttl[id] && rng.Intn(4) != 0 {
				// PERSIST does nothing to an object without TTL: give it one instead
				args = []string{"EXPIRE", ckey, id, "100000"}
				kind = "expire"
			} else {
				args = []string{"PERSIST", ckey, id}
			}
		case "jset":
			if cur.spatial {
				args = []string{"JSET", ckey, id, "properties.tag", strconv.Itoa(rng.Intn(1000))}
			} else {
				args = []string{"FSET", ckey, id, "speed", strconv.Itoa(rng.Intn(90))}
				kind = "fset"
			}
		}
		// same position and kind; recorded as a state of its own (the object is rebuilt and re-inserted)
		changes = append(changes, change{id: id, v: cur})
	}
	cmd := strings.Join(args, " ")
	hadTTL := w.ttl[id]
	w.mu.Lock()
	t := cw.now()
	for i := range changes {
		changes[i].v.from0, changes[i].v.from1, changes[i].v.by = t, never, cmd
		changes[i].idx = w.push(changes[i].id, changes[i].v)
	}
	if expiry != nil {
		// the deadline is computed by the server when it runs the command: not before send + ttl
		expiry.v.from0 += t
		w.push(expiry.id, expiry.v)
	}
	w.mu.Unlock()
	v, err := c.Do(args...)
	t1 := cw.now()
	if err != nil {
		if !sh.stop.Load() {
			sh.dead.Store(true)
			sh.fail("knn-concurrent-server-died", fmt.Sprintf("no reply to %q while NEARBY queries were running on other connections: %v", cmd, err), map[string]interface{}{"command": cmd, "phase": ph.name})
		}
		return false
	}
	w.mu.Lock()
	for _, ch := range changes {
		// the change is complete; so is everything recorded before it (an expiry of the replaced
		// object that had not happened yet never will)
		h := w.hist[ch.id]
		for j := 0; j <= ch.idx; j++ {
			if h[j].from1 == never {
				h[j].from1 = t1
			}
		}
	}
	w.mu.Unlock()
	if v.IsErr() {
		sh.fail("knn-concurrent-write-refused", fmt.Sprintf("%q was refused: %s", cmd, v.String()), map[string]interface{}{"command": cmd, "phase": ph.name})
	}
	// own view
	for _, ch := range changes {
		delete(w.vague, ch.id)
		delete(w.ttl, ch.id)
	}
	switch kind {
	case "setex", "expire":
		w.ttl[id] = true
	case "setshort":
		w.vague[id] = true
	case "fset":
		if hadTTL {
			w.ttl[id] = true // FSET keeps the deadline; JSET on a geometry is a SET OBJECT and drops it
		}
	}
	w.ops[kind]++
	return true
}

// ---- readers ----

type cquery struct {
	args    []string
	q       [2]float64
	output  string // ids points bounds objects hashes count
	dist    bool
	limit   int // 0 = beyond the collection
	radius  float64
	jsonOut bool
}

func (x cquery) text() string { return strings.Join(x.args, " ") }

func cRandQuery(rng *rand.Rand, centre [2]float64, n int, jsonOut bool) cquery {
	x := cquery{jsonOut: jsonOut}
	x.q = [2]float64{clampLat(centre[0] + rng.NormFloat64()*0.7), clampLon(centre[1] + rng.NormFloat64()*0.7)}
	if rng.Intn(6) == 0 {
		x.q = [2]float64{clampLat(randLat(rng)), clampLon(randLon(rng))}
	}
	x.q[0], _ = strconv.ParseFloat(fl(x.q[0]), 64)
	x.q[1], _ = strconv.ParseFloat(fl(x.q[1]), 64)
	a := []string{"NEARBY", ckey}
	switch rng.Intn(5) {
	case 0:
		x.limit = 1 + rng.Intn(n/2+1)
	case 1:
		x.limit = 1 + rng.Intn(50)
	}
	if x.limit > 0 {
		a = append(a, "LIMIT", strconv.Itoa(x.limit))
	} else {
		a = append(a, "LIMIT", big)
	}
	x.dist = rng.Intn(4) != 0
	x.output = []string{"ids", "ids", "ids", "points", "bounds", "objects", "hashes", "count"}[rng.Intn(8)]
	if x.limit > 0 {
		x.dist = true // the k-closest check needs the distance of the k-th object
	}
	if x.output == "count" {
		x.dist = false
	}
	if x.dist {
		a = append(a, "DISTANCE")
	}
	switch x.output {
	case "ids":
		a = append(a, "IDS")
	case "points":
		a = append(a, "POINTS")
	case "bounds":
		a = append(a, "BOUNDS")
	case "hashes":
		a = append(a, "HASHES", "9")
	case "count":
		a = append(a, "COUNT")
	}
	a = append(a, "POINT", fl(x.q[0]), fl(x.q[1]))
	if rng.Intn(4) == 0 {
		x.radius = math.Abs(rng.NormFloat64()) * 60000
		if x.radius < 1 {
			x.radius = 1
		}
		rs := fl(x.radius)
		x.radius, _ = strconv.ParseFloat(rs, 64)
		a = append(a, rs)
	}
	x.args = a
	return x
}

type centry struct {
	id      string
	d       float64
	hasD    bool
	coords  []float64 // POINTS: lat lon; BOUNDS: minlat minlon maxlat maxlon
	hasGeom bool
}

func fnum(v srv.Value) (float64, bool) {
	f, err := strconv.ParseFloat(v.Str, 64)
	return f, err == nil
}

func cParseRESP(x cquery, v srv.Value) (es []centry, count int64, err error) {
	if x.output == "count" && v.Kind == ':' {
		return nil, v.Int, nil
	}
	if v.Kind != '*' || len(v.Array) != 2 {
		return nil, 0, fmt.Errorf("unexpected reply %.200s", v.String())
	}
	if x.output == "count" {
		if v.Array[1].Kind != ':' {
			return nil, 0, fmt.Errorf("COUNT reply is not an integer: %.200s", v.String())
		}
		return nil, v.Array[1].Int, nil
	}
	if v.Array[1].Kind != '*' {
		return nil, 0, fmt.Errorf("unexpected reply %.200s", v.String())
	}
	for _, e := range v.Array[1].Array {
		var ce centry
		if e.Kind != '*' {
			if x.output != "ids" || x.dist {
				return nil, 0, fmt.Errorf("entry %.100s is not an array", e.String())
			}
			ce.id = e.Str
			es = append(es, ce)
			continue
		}
		if len(e.Array) < 2 {
			return nil, 0, fmt.Errorf("short entry %.100s", e.String())
		}
		ce.id = e.Array[0].Str
		if x.dist {
			d, ok := fnum(e.Array[len(e.Array)-1])
			if !ok || e.Array[len(e.Array)-1].Kind == '*' {
				return nil, 0, fmt.Errorf("entry of %s has no distance: %.160s", ce.id, e.String())
			}
			ce.d, ce.hasD = d, true
		}
		switch x.output {
		case "points":
			p := e.Array[1]
			if p.Kind != '*' || len(p.Array) < 2 {
				return nil, 0, fmt.Errorf("POINTS entry without a point: %.160s", e.String())
			}
			la, ok1 := fnum(p.Array[0])
			lo, ok2 := fnum(p.Array[1])
			if !ok1 || !ok2 {
				return nil, 0, fmt.Errorf("POINTS entry with a bad point: %.160s", e.String())
			}
			ce.coords, ce.hasGeom = []float64{la, lo}, true
		case "bounds":
			b := e.Array[1]
			if b.Kind != '*' || len(b.Array) != 2 || len(b.Array[0].Array) != 2 || len(b.Array[1].Array) != 2 {
				return nil, 0, fmt.Errorf("BOUNDS entry without bounds: %.160s", e.String())
			}
			var c [4]float64
			for i, s := range []srv.Value{b.Array[0].Array[0], b.Array[0].Array[1], b.Array[1].Array[0], b.Array[1].Array[1]} {
				f, ok := fnum(s)
				if !ok {
					return nil, 0, fmt.Errorf("BOUNDS entry with bad bounds: %.160s", e.String())
				}
				c[i] = f
			}
			ce.coords, ce.hasGeom = c[:], true
		}
		es = append(es, ce)
	}
	return es, 0, nil
}

func cParseJSON(x cquery, v srv.Value) (es []centry, count int64, err error) {
	var top map[string]json.RawMessage
	if e := json.Unmarshal([]byte(v.Str), &top); e != nil {
		return nil, 0, fmt.Errorf("reply is not JSON: %v: %.160s", e, v.Str)
	}
	if string(top["ok"]) != "true" {
		return nil, 0, fmt.Errorf("reply is not ok: %.200s", v.Str)
	}
	if x.output == "count" {
		if e := json.Unmarshal(top["count"], &count); e != nil {
			return nil, 0, fmt.Errorf("no count: %.160s", v.Str)
		}
		return nil, count, nil
	}
	name := map[string]string{"ids": "ids", "points": "points", "bounds": "bounds", "objects": "objects", "hashes": "hashes"}[x.output]
	var raw []json.RawMessage
	if e := json.Unmarshal(top[name], &raw); e != nil {
		return nil, 0, fmt.Errorf("no %q member: %.160s", name, v.Str)
	}
	for _, rm := range raw {
		var ce centry
		if len(rm) > 0 && rm[0] == '"' {
			if e := json.Unmarshal(rm, &ce.id); e != nil {
				return nil, 0, e
			}
			es = append(es, ce)
			continue
		}
		var o struct {
			ID       string   `json:"id"`
			Distance *float64 `json:"distance"`
			Point    *struct {
				Lat float64 `json:"lat"`
				Lon float64 `json:"lon"`
			} `json:"point"`
			Bounds *struct {
				SW struct{ Lat, Lon float64 } `json:"sw"`
				NE struct{ Lat, Lon float64 } `json:"ne"`
			} `json:"bounds"`
		}
		if e := json.Unmarshal(rm, &o); e != nil {
			return nil, 0, fmt.Errorf("bad entry %.160s: %v", string(rm), e)
		}
		ce.id = o.ID
		if x.dist {
			if o.Distance == nil {
				return nil, 0, fmt.Errorf("entry of %s has no distance: %.160s", ce.id, string(rm))
			}
			ce.d, ce.hasD = *o.Distance, true
		}
		if x.output == "points" && o.Point != nil {
			ce.coords, ce.hasGeom = []float64{o.Point.Lat, o.Point.Lon}, true
		}
		if x.output == "bounds" && o.Bounds != nil {
			ce.coords, ce.hasGeom = []float64{o.Bounds.SW.Lat, o.Bounds.SW.Lon, o.Bounds.NE.Lat, o.Bounds.NE.Lon}, true
		}
		es = append(es, ce)
	}
	return es, 0, nil
}

func verText(vs []cver) []string {
	var out []string
	for _, v := range vs {
		st := "absent"
		if v.present && !v.spatial {
			st = "string value"
		} else if v.present {
			st = "at " + v.r.String()
		}
		end := "open"
		if v.from1 != never {
			end = fmt.Sprintf("%.3fms", float64(v.from1)/1e6)
		}
		out = append(out, fmt.Sprintf("%s since [%.3fms, %s] by %q", st, float64(v.from0)/1e6, end, v.by))
	}
	return out
}

// csnap: for every id of the universe, the states it may have been in during [q0, q1]
type csnap struct {
	off  []int
	vers []cver
}

func (sn *csnap) of(i int) []cver { return sn.vers[sn.off[i]:sn.off[i+1]] }

// snapshot copies the possible states under the writers' locks (the writers keep running while the
// reply is checked afterwards)
func (cw *cworld) snapshot(q0, q1 int64) *csnap {
	sn := &csnap{off: make([]int, 0, len(cw.all)+1), vers: make([]cver, 0, len(cw.all)*3/2)}
	var buf []cver
	for _, w := range cw.writers {
		w.mu.Lock()
		for _, id := range w.ids {
			sn.off = append(sn.off, len(sn.vers))
			buf = cw.possible(id, q0, q1, buf)
			sn.vers = append(sn.vers, buf...)
		}
		w.mu.Unlock()
	}
	sn.off = append(sn.off, len(sn.vers))
	return sn
}

func (cw *cworld) allStates(id string) []string {
	w := cw.owner[id]
	if w == nil {
		return nil
	}
	w.mu.Lock()
	defer w.mu.Unlock()
	return verText(w.hist[id])
}

// check one reply against the recorded states
func (cw *cworld) checkReply(sh *cshared, ph cphase, x cquery, q0, q1 int64, es []centry, count int64) (distinctD int) {
	cs := func(extra map[string]interface{}) map[string]interface{} {
		m := map[string]interface{}{"query": x.text(), "phase": ph.name, "sent_ms": float64(q0) / 1e6, "received_ms": float64(q1) / 1e6,
			"workload": fmt.Sprintf("%d ids in %s, %d writer connections (SET/FSET/DEL/EXPIRE/PERSIST/JSET/PDEL on their own ids), concurrent readers", len(cw.all), ckey, len(cw.writers))}
		for k, v := range extra {
			m[k] = v
		}
		return m
	}
	sn := cw.snapshot(q0, q1)
	if x.output == "count" {
		lo, hi := 0, 0
		for i := range cw.all {
			vs := sn.of(i)
			sure, maybe := len(vs) > 0, false
			for _, v := range vs {
				in := v.present && v.spatial && (x.radius == 0 || dist(x.q, v.r) <= x.radius*(1-1e-9))
				out := !(v.present && v.spatial) || (x.radius > 0 && dist(x.q, v.r) > x.radius*(1+1e-9))
				sure = sure && in
				maybe = maybe || !out
			}
			if sure {
				lo++
			}
			if maybe {
				hi++
			}
		}
		if x.limit > 0 && lo > x.limit {
			lo = x.limit
		}
		if x.limit > 0 && hi > x.limit {
			hi = x.limit
		}
		if count < int64(lo) || count > int64(hi) {
			sh.fail("knn-concurrent-count", fmt.Sprintf("%s answered %d while writes were running: between %d (objects present throughout) and %d (objects present at some moment of the query) were possible", x.text(), count, lo, hi), cs(nil))
		}
		return 0
	}
	seen := map[string]int{}
	for i, e := range es {
		if j, dup := seen[e.id]; dup {
			var st []string
			if p, ok := cw.pos[e.id]; ok {
				st = verText(sn.of(p))
			}
			sh.fail("knn-concurrent-duplicate", fmt.Sprintf("%s returned %s twice (positions %d and %d of %d) while writes were running on the collection", x.text(), e.id, j, i, len(es)),
				cs(map[string]interface{}{"id": e.id, "states_during_query": st}))
			return
		}
		seen[e.id] = i
	}
	ds := map[float64]bool{}
	for i, e := range es {
		if !e.hasD {
			continue
		}
		ds[e.d] = true
		if i > 0 && es[i-1].hasD && e.d < es[i-1].d {
			sh.fail("knn-concurrent-order", fmt.Sprintf("%s, while writes were running: %s at %v m is returned before %s at %v m (positions %d, %d of %d)", x.text(), es[i-1].id, es[i-1].d, e.id, e.d, i-1, i, len(es)),
				cs(map[string]interface{}{"position": i}))
			return len(ds)
		}
		if x.radius > 0 && e.d > x.radius {
			sh.fail("knn-concurrent-radius", fmt.Sprintf("%s returned %s at %v m, beyond the radius", x.text(), e.id, e.d), cs(map[string]interface{}{"id": e.id}))
			return len(ds)
		}
	}
	if x.limit > 0 && len(es) > x.limit {
		sh.fail("knn-concurrent-limit", fmt.Sprintf("%s returned %d objects", x.text(), len(es)), cs(nil))
		return len(ds)
	}
	// every returned id: a positioned object in one of its possible states, reported as that state
	for i, e := range es {
		var vs []cver
		if p, ok := cw.pos[e.id]; ok {
			vs = sn.of(p)
		}
		okID, okAll := false, false
		var want []float64
		for _, v := range vs {
			if !(v.present && v.spatial) {
				continue
			}
			okID = true
			dd := dist(x.q, v.r)
			want = append(want, dd)
			dOK := !e.hasD || dd == e.d
			gOK := !e.hasGeom
			if e.hasGeom && len(e.coords) == 4 {
				gOK = e.coords[0] == v.r[0] && e.coords[1] == v.r[1] && e.coords[2] == v.r[2] && e.coords[3] == v.r[3]
			} else if e.hasGeom && v.point {
				gOK = e.coords[0] == v.r[0] && e.coords[1] == v.r[1]
			} else if e.hasGeom {
				gOK = math.Abs(e.coords[0]-(v.r[0]+v.r[2])/2) < 1e-9 && math.Abs(e.coords[1]-(v.r[1]+v.r[3])/2) < 1e-9
			}
			if dOK && gOK {
				okAll = true
			}
		}
		if !okID {
			sh.fail("knn-concurrent-ghost-id", fmt.Sprintf("%s returned %s (position %d), which was not a positioned object of the collection at any moment of the query", x.text(), e.id, i),
				cs(map[string]interface{}{"id": e.id, "states_during_query": verText(vs), "all_states": cw.allStates(e.id)}))
			return len(ds)
		}
		if !okAll {
			sh.fail("knn-concurrent-distance", fmt.Sprintf("%s reports %s at %v m %v; at every moment of the query the object was at one of the distances %v from the query point (states: %v)", x.text(), e.id, e.d, e.coords, want, verText(vs)),
				cs(map[string]interface{}{"id": e.id, "states_during_query": verText(vs)}))
			return len(ds)
		}
	}
	// completeness: an id that was a positioned object in all its possible states
	complete := x.limit == 0 || len(es) < x.limit
	far := math.Inf(1)
	if !complete {
		far = es[len(es)-1].d
	}
	for i, id := range cw.all {
		if _, in := seen[id]; in {
			continue
		}
		vs := sn.of(i)
		if len(vs) == 0 {
			continue
		}
		must := true
		for _, v := range vs {
			if !(v.present && v.spatial) {
				must = false
				break
			}
			dd := dist(x.q, v.r)
			if x.radius > 0 && !(dd <= x.radius*(1-1e-9)) {
				must = false
				break
			}
			if !complete && !(dd < far) {
				must = false
				break
			}
		}
		if must {
			sig, why := "knn-concurrent-missing", "is not returned"
			if !complete {
				sig, why = "knn-concurrent-k-closest", fmt.Sprintf("is left out although the reply ends with an object at %v m", far)
			}
			sh.fail(sig, fmt.Sprintf("%s, while writes were running: %s, a positioned object of the collection during the whole query (%v), %s; %d ids returned", x.text(), id, verText(vs), why, len(es)),
				cs(map[string]interface{}{"id": id, "states_during_query": verText(vs)}))
			return len(ds)
		}
	}
	return len(ds)
}

func (cw *cworld) reader(idx int, port int, seed int64, centre [2]float64, ph *atomic.Value, sh *cshared, wg *sync.WaitGroup) {
	defer wg.Done()
	rng := rand.New(rand.NewSource(seed))
	c, err := srv.Dial(port)
	if err != nil {
		sh.fail("knn-concurrent-server-died", "cannot connect: "+err.Error(), nil)
		return
	}
	defer c.Close()
	c.Timeout = 60 * time.Second
	jsonOut := idx%3 == 2
	if jsonOut {
		if _, err := c.Do("OUTPUT", "json"); err != nil {
			return
		}
	}
	n := 0
	for !sh.stop.Load() && !sh.dead.Load() {
		p := ph.Load().(cphase)
		x := cRandQuery(rng, centre, len(cw.all), jsonOut)
		q0 := cw.now()
		v, err := c.Do(x.args...)
		q1 := cw.now()
		if err != nil {
			if !sh.stop.Load() {
				sh.dead.Store(true)
				sh.fail("knn-concurrent-server-died", fmt.Sprintf("no reply to %s while writes were running on other connections: %v", x.text(), err), map[string]interface{}{"query": x.text(), "phase": p.name})
			}
			return
		}
		var es []centry
		var count int64
		if jsonOut {
			es, count, err = cParseJSON(x, v)
		} else {
			es, count, err = cParseRESP(x, v)
		}
		if err != nil {
			sh.fail("knn-concurrent-reply-shape", fmt.Sprintf("%s: %v", x.text(), err), map[string]interface{}{"query": x.text(), "phase": p.name})
			continue
		}
		nd := cw.checkReply(sh, p, x, q0, q1, es, count)
		form := x.output
		if x.dist {
			form += "+distance"
		}
		if x.limit > 0 {
			form += "+limit"
		}
		if x.radius > 0 {
			form += "+radius"
		}
		if jsonOut {
			form += "+json"
		}
		sh.mu.Lock()
		sh.dist["concurrent-query"]++
		sh.dist["concurrent-form:"+form]++
		sh.dist["concurrent-phase:"+p.name]++
		if nd >= 2 {
			sh.evals = append(sh.evals, fmt.Sprintf("cc/%d/%d/%s", idx, n, x.text()))
		} else {
			sh.evals = append(sh.evals, "")
		}
		sh.mu.Unlock()
		n++
	}
}

// concurrent: the whole oracle; `total` is the time spent with readers and writers running
func concurrent(r *hx.Result, cfg hx.Config, rng *rand.Rand, nobj, nwriters, nreaders int, total time.Duration) {
	s, err := srv.Start(filepath.Join(cfg.Work, "c13-concurrent"), "--appendonly", "no")
	if err != nil {
		panic(err)
	}
	defer s.Kill()
	centre := [2]float64{33.5 + rng.Float64(), -115.5 + rng.Float64()}
	cw := &cworld{owner: map[string]*cwriter{}, pos: map[string]int{}}
	for wi := 0; wi < nwriters; wi++ {
		w := &cwriter{idx: wi, hist: map[string][]cver{}, ttl: map[string]bool{}, vague: map[string]bool{}, ops: map[string]int{}}
		for i := 0; i < nobj/nwriters; i++ {
			id := fmt.Sprintf("w%d:%05d", wi, i)
			w.ids = append(w.ids, id)
			cw.owner[id] = w
			cw.pos[id] = len(cw.all)
			cw.all = append(cw.all, id)
		}
		cw.writers = append(cw.writers, w)
	}
	// initial load, pipelined, before the clock starts: every object present, two thirds with a TTL
	lc := s.MustDial()
	var raw []byte
	pending := 0
	flush := func() {
		if err := lc.WriteRaw(raw); err != nil {
			panic(err)
		}
		for ; pending > 0; pending-- {
			if v, err := lc.Read(); err != nil || v.IsErr() {
				panic(fmt.Sprintf("initial load: %v %s", err, v.String()))
			}
		}
		raw = raw[:0]
	}
	for _, w := range cw.writers {
		for _, id := range w.ids {
			rc, pt := cRandObj(rng, centre)
			ex := ""
			if rng.Intn(3) != 0 {
				ex = "100000"
				w.ttl[id] = true
			}
			a := cSetArgs(id, rc, pt, ex, rng)
			raw = append(raw, srv.Encode(a...)...)
			pending++
			w.hist[id] = []cver{{from0: -1, from1: -1, present: true, spatial: true, point: pt, r: rc, by: strings.Join(a, " ")}}
			if pending >= 2000 {
				flush()
			}
		}
	}
	flush()
	lc.Close()
	cw.t0 = time.Now()

	sh := &cshared{dist: map[string]int{}}
	phases := cphases()
	var cur atomic.Value
	cur.Store(phases[0])
	var wgW, wgR sync.WaitGroup
	for _, w := range cw.writers {
		wgW.Add(1)
		go func(w *cwriter, seed int64) {
			defer wgW.Done()
			wr := rand.New(rand.NewSource(seed))
			c, err := srv.Dial(s.Port)
			if err != nil {
				sh.fail("knn-concurrent-server-died", "cannot connect: "+err.Error(), nil)
				return
			}
			defer c.Close()
			c.Timeout = 60 * time.Second // an exclusive write waits for a gap between the shared sections
			for !sh.stop.Load() && !sh.dead.Load() {
				if !cw.writeOnce(w, c, wr, cur.Load().(cphase), centre, sh) {
					return
				}
			}
		}(w, cfg.Seed*1000+int64(w.idx))
	}
	for i := 0; i < nreaders; i++ {
		wgR.Add(1)
		go cw.reader(i, s.Port, cfg.Seed*1000+100+int64(i), centre, &cur, sh, &wgR)
	}
	per := total / time.Duration(len(phases))
	for _, p := range phases {
		cur.Store(p)
		deadline := time.Now().Add(per)
		for time.Now().Before(deadline) && !sh.dead.Load() {
			time.Sleep(10 * time.Millisecond)
			sh.mu.Lock()
			nf := len(sh.fails)
			sh.mu.Unlock()
			if nf > 0 && !cfg.Search {
				break
			}
		}
		sh.mu.Lock()
		nf := len(sh.fails)
		sh.mu.Unlock()
		if sh.dead.Load() || nf >= 3 {
			break
		}
	}
	sh.stop.Store(true)
	wgR.Wait()
	wgW.Wait()
	// the server must have survived
	alive := s.Alive()
	if alive {
		if c, err := s.Dial(); err != nil {
			alive = false
		} else {
			c.Timeout = 5 * time.Second
			v, err := c.Do("PING")
			alive = err == nil && v.Str == "PONG"
			c.Close()
		}
	}
	if !alive || sh.dead.Load() {
		tail := s.LogTail(60000)
		for _, mark := range []string{"panic:", "fatal error:", "unexpected fault address"} {
			if i := strings.Index(tail, mark); i >= 0 {
				tail = tail[i:]
				break
			}
		}
		if len(tail) > 1500 {
			tail = tail[:1500]
		}
		sh.fail("knn-concurrent-server-died", "the server did not survive NEARBY queries running concurrently with writes on the same collection; end of its log: "+tail,
			map[string]interface{}{"server_log_tail": tail})
	}
	// hand over to the result record
	for k, v := range sh.dist {
		r.Distribution[k] += v
	}
	for _, w := range cw.writers {
		keys := make([]string, 0, len(w.ops))
		for k := range w.ops {
			keys = append(keys, k)
		}
		sort.Strings(keys)
		for _, k := range keys {
			r.Distribution["concurrent-write:"+k] += w.ops[k]
		}
	}
	for _, k := range sh.evals {
		r.Count(k, k != "")
	}
	for _, f := range sh.fails {
		r.Fail(hx.Failure{Kind: "oracle", Signature: f.sig, What: f.what, Case: f.cs})
	}
}
