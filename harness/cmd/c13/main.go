// C13 — NEARBY returns nearest neighbours in distance order.
//
//	A  regression corpus: the polar dataset (an object 0.55 m from the pole; float32 widening of
//	   the R-tree rectangles used to push a node rectangle beyond 90 degrees latitude)
//	B  Hlb sampled on random nested rectangles through verifapi (the real distance function):
//	   outer contains inner contains a point  =>  key(outer) <= key(inner) <= d(point)
//	C  the real Collection (in-process, verifapi.KnnCollection) after random histories: order,
//	   completeness, and Hlb on the node rectangles the real R-tree actually evaluates
//	E  NEARBY while the collection is written by other connections (concurrent.go); the lock
//	   discipline that makes one traversal see one tree is proved in Props/C13iso.v
//	D  black-box server: NEARBY ... DISTANCE after random histories: printed distances
//	   non-decreasing, every spatial object once, DISTANCE == the client-computed distance,
//	   radius replies == {d <= r}, LIMIT k == prefix of the unlimited reply, and Model.Knn run
//	   on the same distances (one-leaf tree, and a client-built two-level tree keyed with the
//	   real lower bound) gives the same distance sequence / id sets per distance.
package main

import (
	_ "embed"
	"fmt"
	"math"
	"math/rand"
	"os"
	"path/filepath"
	"sort"
	"strconv"
	"strings"
	"time"

	"github.com/tidwall/tile38/verifapi"
	"verifharness/internal/hx"
	"verifharness/internal/model"
	"verifharness/internal/srv"
)

func main() { hx.Main("C13", runC13) }

const big = "10000000"

func clampLat(x float64) float64 { return math.Max(-90, math.Min(90, x)) }
func clampLon(x float64) float64 { return math.Max(-180, math.Min(180, x)) }

// special latitudes / longitudes: poles, equator, antimeridian, and their neighbourhoods
func randLat(rng *rand.Rand) float64 {
	switch rng.Intn(8) {
	case 0:
		return 90 - math.Abs(rng.NormFloat64())*[]float64{1e-9, 5e-6, 1e-4, 0.1, 3}[rng.Intn(5)]
	case 1:
		return -90 + math.Abs(rng.NormFloat64())*[]float64{1e-9, 5e-6, 1e-4, 0.1, 3}[rng.Intn(5)]
	case 2:
		return []float64{90, -90, 0, 45, -45}[rng.Intn(5)]
	case 3:
		return rng.NormFloat64() * 0.01
	default:
		return rng.Float64()*180 - 90
	}
}

func randLon(rng *rand.Rand) float64 {
	switch rng.Intn(8) {
	case 0:
		return 180 - math.Abs(rng.NormFloat64())*[]float64{1e-9, 1e-5, 1e-4, 0.1, 3}[rng.Intn(5)]
	case 1:
		return -180 + math.Abs(rng.NormFloat64())*[]float64{1e-9, 1e-5, 1e-4, 0.1, 3}[rng.Intn(5)]
	case 2:
		return []float64{180, -180, 0, 90, -90}[rng.Intn(5)]
	default:
		return rng.Float64()*360 - 180
	}
}

type rect [4]float64 // minLat minLon maxLat maxLon

func (a rect) String() string { return fmt.Sprintf("[%v %v %v %v]", a[0], a[1], a[2], a[3]) }

// dist: the distance NEARBY reports for an object whose rectangle is a (item == true)
func dist(q [2]float64, a rect) float64 {
	return verifapi.ItemDist(q[0], q[1], a[0], a[1], a[2], a[3])
}

// nodeKey: the queue key of a node rectangle (item == false: clamped, with the margin)
func nodeKey(q [2]float64, a rect) float64 {
	return verifapi.NearbyDist(q[0], q[1], a[0], a[1], a[2], a[3])
}

// sampleNested: a query point, an inner rectangle (possibly a point), an outer rectangle
// containing it (optionally widened the way rectangles entering the R-tree are), a point inside.
func sampleNested(rng *rand.Rand) (q [2]float64, in, out rect, p [2]float64) {
	q = [2]float64{clampLat(randLat(rng)), clampLon(randLon(rng))}
	la, lo := clampLat(randLat(rng)), clampLon(randLon(rng))
	if rng.Intn(4) == 0 {
		la, lo = clampLat(q[0]+rng.NormFloat64()*2), clampLon(q[1]+rng.NormFloat64()*2)
	}
	h, w := 0.0, 0.0
	if rng.Intn(3) != 0 {
		h = math.Abs(rng.NormFloat64()) * []float64{1e-6, 0.01, 1, 20}[rng.Intn(4)]
		w = math.Abs(rng.NormFloat64()) * []float64{1e-6, 0.01, 1, 40}[rng.Intn(4)]
	}
	in = rect{la, lo, clampLat(la + h), clampLon(lo + w)}
	grow := func() float64 {
		if rng.Intn(4) == 0 {
			return 0
		}
		return math.Abs(rng.NormFloat64()) * []float64{1e-7, 0.01, 1, 30, 120}[rng.Intn(5)]
	}
	out = rect{clampLat(in[0] - grow()), clampLon(in[1] - grow()), clampLat(in[2] + grow()), clampLon(in[3] + grow())}
	if rng.Intn(2) == 0 {
		a, b, c, d := verifapi.RtreeRect(out[0], out[1], out[2], out[3])
		out = rect{a, b, c, d}
	}
	p = [2]float64{in[0] + rng.Float64()*(in[2]-in[0]), in[1] + rng.Float64()*(in[3]-in[1])}
	return
}

// noise: the two values agree to within floating-point evaluation error (relative 1e-8).  Used
// only where a radius is compared with a client-side distance: an object that close to the radius
// without being equal to it is left out of the model comparison of the radius cut.
func noise(a, b float64) bool { return math.Abs(a-b) <= 1e-8*math.Max(math.Abs(a), math.Abs(b))+1e-9 }

func lbFailure(r *hx.Result, what string, q [2]float64, outer, inner rect, ko, ki float64) {
	r.Fail(hx.Failure{Kind: "oracle", Signature: "knn-lb-not-monotone",
		What: fmt.Sprintf("%s: from (%v, %v) the key of the node rectangle %v is %v but an object with the contained rectangle %v is at %v (difference %g m, relative %g): Hlb fails", what, q[0], q[1], outer, ko, inner, ki, ko-ki, (ko-ki)/ko),
		Case: map[string]interface{}{"query": q, "outer": outer, "inner": inner}, Impl: ko, Model: ki})
}

// sampleHlb: Hlb as the theorems use it — the key of a node rectangle never exceeds the distance of
// an object whose rectangle it contains — on random nested rectangles, exactly (no tolerance: the
// traversal compares floats exactly).  Rectangle-against-rectangle monotonicity of the keys is not
// needed by the proof (KnnProofs.knn_order_spec only uses node-against-item) and is not checked.
func sampleHlb(r *hx.Result, rng *rand.Rand, n int) {
	for i := 0; i < n; i++ {
		q, in, out, p := sampleNested(rng)
		if i%4 == 0 { // near the antipode of the inner rectangle: the haversine is least accurate there
			lo := in[1] + 180
			if lo > 180 {
				lo -= 360
			}
			q = [2]float64{clampLat(-in[0] + rng.NormFloat64()*[]float64{1e-9, 1e-6, 1e-3, 1}[rng.Intn(4)]), clampLon(lo + rng.NormFloat64()*[]float64{1e-9, 1e-6, 1e-3, 1}[rng.Intn(4)])}
		}
		pr := rect{p[0], p[1], p[0], p[1]}
		ko, ki := nodeKey(q, out), nodeKey(q, in)
		di, dp := dist(q, in), dist(q, pr)
		r.Count(fmt.Sprintf("hlb/%v/%v/%v", q, in, out), ko > 0 && ko < di)
		r.Dist("hlb-sample")
		if ko > di {
			lbFailure(r, "nested rectangles", q, out, in, ko, di)
		}
		if ko > dp {
			lbFailure(r, "rectangle and a point inside it", q, out, pr, ko, dp)
		}
		if ki > dp {
			lbFailure(r, "rectangle and a point inside it", q, in, pr, ki, dp)
		}
		if ko < 0 || di < 0 {
			r.Fail(hx.Failure{Kind: "oracle", Signature: "knn-negative-distance", What: fmt.Sprintf("negative distance from (%v,%v): key %v of %v, distance %v of %v", q[0], q[1], ko, out, di, in), Case: map[string]interface{}{"query": q, "rect": out}})
		}
	}
}

// sampleHeap: the hypothesis queue_ok for the transcribed binary heap (Model.Knn.heap_push /
// heap_pop), sampled: pushing any key sequence and popping until empty must give the keys in
// non-decreasing order, each once.  Many ties on purpose.
func sampleHeap(r *hx.Result, drv *model.Driver, rng *rand.Rand, n int) {
	for i := 0; i < n; i++ {
		m := rng.Intn(40)
		span := []int{2, 5, 50, 100000}[rng.Intn(4)]
		keys := make([]int, m)
		toks := []string{"heap"}
		for j := range keys {
			keys[j] = rng.Intn(span)
			toks = append(toks, strconv.Itoa(keys[j]))
		}
		sort.Ints(keys)
		want := "-"
		if m > 0 {
			ws := make([]string, m)
			for j, k := range keys {
				ws[j] = strconv.Itoa(k)
			}
			want = strings.Join(ws, ",")
		}
		got := drv.Ask(toks...)
		r.Dist("heap-sample")
		if got != want {
			r.Fail(hx.Failure{Kind: "correspondence", Signature: "knn-heap-model-not-min-queue",
				What: "Model.Knn.heap_push / heap_pop do not behave as a min-queue on this key sequence (hypothesis queue_ok of the C13 theorems for the heap discipline)",
				Case: map[string]interface{}{"pushed": toks[1:]}, Impl: want, Model: got})
		}
	}
}

// ---- datasets ----

type gobj struct {
	kind string // point bounds geojson string
	r    rect
	js   string
	val  string
}

type history struct {
	objs map[string]gobj
	ops  [][]string
}

func randPos(rng *rand.Rand, centre [2]float64, mode int) (float64, float64) {
	switch mode {
	case 0:
		return clampLat(randLat(rng)), clampLon(randLon(rng))
	case 1: // a cluster
		return clampLat(centre[0] + rng.NormFloat64()*3), clampLon(centre[1] + rng.NormFloat64()*3)
	case 2: // polar cap
		s := []float64{1, -1}[rng.Intn(2)]
		return clampLat(s * (90 - math.Abs(rng.NormFloat64())*[]float64{5e-6, 1e-3, 1, 10}[rng.Intn(4)])), rng.Float64()*360 - 180
	case 3: // antimeridian band
		lo := 180 - math.Abs(rng.NormFloat64())*[]float64{1e-5, 0.01, 2}[rng.Intn(3)]
		if rng.Intn(2) == 0 {
			lo = -lo
		}
		return rng.Float64()*160 - 80, clampLon(lo)
	default: // small integer grid: many duplicates and equal distances
		return float64(rng.Intn(7) - 3), float64(rng.Intn(7) - 3)
	}
}

func fl(x float64) string { return strconv.FormatFloat(x, 'f', -1, 64) }

func randGobj(rng *rand.Rand, centre [2]float64, mode int) gobj {
	la, lo := randPos(rng, centre, mode)
	switch rng.Intn(10) {
	case 0, 1:
		h, w := math.Abs(rng.NormFloat64())*[]float64{0.001, 1, 10}[rng.Intn(3)], math.Abs(rng.NormFloat64())*[]float64{0.001, 1, 20}[rng.Intn(3)]
		return gobj{kind: "bounds", r: rect{la, lo, clampLat(la + h), clampLon(lo + w)}}
	case 2:
		h, w := 0.01+math.Abs(rng.NormFloat64())*2, 0.01+math.Abs(rng.NormFloat64())*2
		la2, lo2 := clampLat(la+h), clampLon(lo+w)
		var js string
		if rng.Intn(2) == 0 {
			js = fmt.Sprintf(`{"type":"Polygon","coordinates":[[[%s,%s],[%s,%s],[%s,%s],[%s,%s]]]}`, fl(lo), fl(la), fl(lo2), fl(la), fl(lo), fl(la2), fl(lo), fl(la))
		} else {
			js = fmt.Sprintf(`{"type":"LineString","coordinates":[[%s,%s],[%s,%s]]}`, fl(lo), fl(la), fl(lo2), fl(la2))
		}
		g, err := verifapi.GeoObject(js)
		if err != nil {
			return gobj{kind: "point", r: rect{la, lo, la, lo}}
		}
		a, b, c, d := g.Rect()
		return gobj{kind: "geojson", js: js, r: rect{a, b, c, d}}
	case 3:
		if rng.Intn(3) == 0 {
			return gobj{kind: "string", val: "v" + strconv.Itoa(rng.Intn(5))}
		}
		fallthrough
	default:
		return gobj{kind: "point", r: rect{la, lo, la, lo}}
	}
}

func (o gobj) setArgs(key, id string) []string {
	switch o.kind {
	case "point":
		return []string{"SET", key, id, "POINT", fl(o.r[0]), fl(o.r[1])}
	case "bounds":
		return []string{"SET", key, id, "BOUNDS", fl(o.r[0]), fl(o.r[1]), fl(o.r[2]), fl(o.r[3])}
	case "geojson":
		return []string{"SET", key, id, "OBJECT", o.js}
	}
	return []string{"SET", key, id, "STRING", o.val}
}

// randHistory: inserts, overwrites (moves), deletes and re-inserts over an id pool; `apply` is
// called for every operation in order.
func randHistory(rng *rand.Rand, n int, apply func(op []string, id string, o *gobj)) *history {
	h := &history{objs: map[string]gobj{}}
	centre := [2]float64{clampLat(randLat(rng)), clampLon(randLon(rng))}
	mode := rng.Intn(6)
	ops := n + rng.Intn(2*n+1)
	for i := 0; i < ops; i++ {
		id := "o" + strconv.Itoa(rng.Intn(n+1))
		if _, ok := h.objs[id]; ok && rng.Intn(4) == 0 {
			delete(h.objs, id)
			op := []string{"DEL", "k", id}
			h.ops = append(h.ops, op)
			apply(op, id, nil)
			continue
		}
		m := mode
		if m == 5 {
			m = rng.Intn(5)
		}
		o := randGobj(rng, centre, m)
		h.objs[id] = o
		op := o.setArgs("k", id)
		h.ops = append(h.ops, op)
		apply(op, id, &o)
	}
	return h
}

func (h *history) spatial() []string {
	var ids []string
	for id, o := range h.objs {
		if o.kind != "string" {
			ids = append(ids, id)
		}
	}
	sort.Strings(ids)
	return ids
}

func (h *history) opsText() []string {
	out := make([]string, len(h.ops))
	for i, op := range h.ops {
		out[i] = strings.Join(op, " ")
	}
	return out
}

func randQuery(rng *rand.Rand, h *history) [2]float64 {
	ids := h.spatial()
	switch {
	case len(ids) > 0 && rng.Intn(4) == 0: // exactly on an object
		o := h.objs[ids[rng.Intn(len(ids))]]
		return [2]float64{o.r[0], o.r[1]}
	case len(ids) > 0 && rng.Intn(3) == 0: // the antipode of an object
		o := h.objs[ids[rng.Intn(len(ids))]]
		lo := o.r[1] + 180
		if lo > 180 {
			lo -= 360
		}
		return [2]float64{clampLat(-o.r[0] + rng.NormFloat64()*1e-3), clampLon(lo)}
	}
	return [2]float64{clampLat(randLat(rng)), clampLon(randLon(rng))}
}

// ---- checks shared by the in-process and the black-box runs ----

type run struct {
	r    *hx.Result
	drv  *model.Driver
	h    *history
	q    [2]float64
	from string
}

func (x *run) fail(kind, sig, what string, extra map[string]interface{}, impl, mod interface{}) {
	cs := map[string]interface{}{"via": x.from, "query_point": []string{fl(x.q[0]), fl(x.q[1])}}
	if len(x.h.ops) <= 400 {
		cs["history"] = x.h.opsText()
	} else {
		cs["history_len"] = len(x.h.ops)
	}
	for k, v := range extra {
		cs[k] = v
	}
	x.r.Fail(hx.Failure{Kind: kind, Signature: sig, What: what, Case: cs, Impl: impl, Model: mod})
}

// checkOrder: non-decreasing distances, every spatial object exactly once, reported distance ==
// the distance function on the object's own rectangle (and, for points, the library's haversine).
func (x *run) checkOrder(ids []string, ds []float64) bool {
	ok := true
	for i := 0; i+1 < len(ds); i++ {
		if ds[i+1] < ds[i] {
			x.fail("oracle", "knn-order", fmt.Sprintf("NEARBY from (%s, %s): %s at %v m is returned before %s at %v m", fl(x.q[0]), fl(x.q[1]), ids[i], ds[i], ids[i+1], ds[i+1]),
				map[string]interface{}{"position": i}, []interface{}{ids[i], ds[i], ids[i+1], ds[i+1]}, nil)
			ok = false
			break
		}
	}
	want := x.h.spatial()
	got := append([]string{}, ids...)
	sort.Strings(got)
	if strings.Join(got, "\x01") != strings.Join(want, "\x01") {
		x.fail("oracle", "knn-complete", fmt.Sprintf("NEARBY without radius returned %d ids, the collection holds %d spatial objects (missing or repeated ids)", len(got), len(want)), nil, got, want)
		ok = false
	}
	for i, id := range ids {
		o, present := x.h.objs[id]
		if !present {
			continue
		}
		if o.kind == "string" {
			x.fail("oracle", "knn-non-spatial-returned", fmt.Sprintf("NEARBY returned %s at %v m, but the id holds a STRING value (its last write was %q): it is not a positioned object of the collection", id, ds[i], strings.Join(o.setArgs("k", id), " ")), nil, ds[i], nil)
			ok = false
			break
		}
		d := dist(x.q, o.r)
		if d != ds[i] {
			x.fail("oracle", "knn-distance-value", fmt.Sprintf("DISTANCE of %s is %v, the distance function on its rectangle %v gives %v", id, ds[i], o.r, d), nil, ds[i], d)
			ok = false
			break
		}
		if o.kind == "point" {
			hv := verifapi.Haversine(x.q[0], x.q[1], o.r[0], o.r[1])
			if math.Abs(hv-d) > 1e-7*math.Max(hv, d)+1e-3 {
				x.fail("oracle", "knn-distance-great-circle", fmt.Sprintf("DISTANCE of point %s is %v, the great-circle distance is %v", id, d, hv), nil, d, hv)
				ok = false
				break
			}
		}
	}
	return ok
}

// ranks: order-preserving map float -> small integer for the model's Z distances (exact: two
// different floats get two different ranks).
func ranks(vals []float64) func(float64) string {
	all := append([]float64{}, vals...)
	sort.Float64s(all)
	return func(v float64) string { return strconv.Itoa(1 + sort.SearchFloat64s(all, v)) }
}

// canonOrder: a reply is compared with the model (whose output is sorted by construction) only
// if it has no inversion; an inversion is reported by checkOrder as knn-order.
func canonOrder(ids []string, ds []float64) (cids []string, cds []float64, ok bool) {
	for i := 0; i+1 < len(ds); i++ {
		if ds[i+1] < ds[i] {
			return nil, nil, false
		}
	}
	return ids, ds, true
}

// modelTrees: the items as a one-leaf tree and as a two-level tree whose node keys are the real
// lower bound on the widened union rectangle of each group.
func (x *run) modelTrees(ids []string, extra []float64) (flat, two string, rank func(float64) string, pos map[string]int) {
	n := len(ids)
	d := make([]float64, n)
	vals := append([]float64{}, extra...)
	for i, id := range ids {
		d[i] = dist(x.q, x.h.objs[id].r)
		vals = append(vals, d[i])
	}
	// groups of up to 8 after sorting by longitude of the rectangle's corner
	order := make([]int, n)
	for i := range order {
		order[i] = i
	}
	sort.SliceStable(order, func(a, b int) bool { return x.h.objs[ids[order[a]]].r[1] < x.h.objs[ids[order[b]]].r[1] })
	type group struct {
		key   float64
		items []int
	}
	var groups []group
	for s := 0; s < n; s += 8 {
		e := s + 8
		if e > n {
			e = n
		}
		u := rect{90, 180, -90, -180}
		for _, i := range order[s:e] {
			o := x.h.objs[ids[i]].r
			u = rect{math.Min(u[0], o[0]), math.Min(u[1], o[1]), math.Max(u[2], o[2]), math.Max(u[3], o[3])}
		}
		a, b, c, dd := verifapi.RtreeRect(u[0], u[1], u[2], u[3])
		key := nodeKey(x.q, rect{a, b, c, dd})
		for _, i := range order[s:e] {
			x.r.Dist("hlb-group-item")
			if key > d[i] {
				lbFailure(x.r, "client-built node over real objects", x.q, rect{a, b, c, dd}, x.h.objs[ids[i]].r, key, d[i])
			}
		}
		vals = append(vals, key)
		groups = append(groups, group{key, order[s:e]})
	}
	rank = ranks(vals)
	pos = map[string]int{}
	var fb, tb strings.Builder
	fmt.Fprintf(&fb, "L %d", n)
	for i, id := range ids {
		pos[id] = i
		fmt.Fprintf(&fb, " %d %s", i, rank(d[i]))
	}
	if n == 0 {
		return "E", "E", rank, pos
	}
	fmt.Fprintf(&tb, "N %d", len(groups))
	for _, g := range groups {
		fmt.Fprintf(&tb, " %s L %d", rank(g.key), len(g.items))
		for _, i := range g.items {
			fmt.Fprintf(&tb, " %d %s", i, rank(d[i]))
		}
	}
	return fb.String(), tb.String(), rank, pos
}

// sameByDistance: equal distance sequences, and per distinct distance equal id sets
func sameByDistance(implIDs []string, implRank []string, mod string) bool {
	type pr struct{ id, d string }
	var m []pr
	if mod != "-" {
		for _, tok := range strings.Split(mod, ",") {
			p := strings.SplitN(tok, ":", 2)
			if len(p) != 2 {
				return false
			}
			m = append(m, pr{p[0], p[1]})
		}
	}
	if len(m) != len(implIDs) {
		return false
	}
	for i := range m {
		if m[i].d != implRank[i] {
			return false
		}
	}
	for i := 0; i < len(m); {
		j := i
		a, b := []string{}, []string{}
		for j < len(m) && m[j].d == m[i].d {
			a = append(a, m[j].id)
			b = append(b, implIDs[j])
			j++
		}
		sort.Strings(a)
		sort.Strings(b)
		if strings.Join(a, ",") != strings.Join(b, ",") {
			return false
		}
		i = j
	}
	return true
}

func (x *run) checkModel(ids []string, ds []float64) {
	ids, ds, ok := canonOrder(ids, ds)
	if !ok {
		return // a real inversion: reported by checkOrder as knn-order
	}
	sids := x.h.spatial()
	flat, two, rank, pos := x.modelTrees(sids, nil)
	implPos := make([]string, len(ids))
	implRank := make([]string, len(ids))
	for i, id := range ids {
		implPos[i] = strconv.Itoa(pos[id])
		implRank[i] = rank(ds[i])
	}
	for name, tree := range map[string]string{"one-leaf": "knn " + flat, "two-level": "knn " + two, "one-leaf-heap": "knnheap " + flat, "two-level-heap": "knnheap " + two} {
		mod := x.drv.Ask(tree)
		if !sameByDistance(implPos, implRank, mod) {
			x.fail("correspondence", "knn-model-"+name, "the distance sequence / id sets per distance of NEARBY differ from Model.Knn.knn on the "+name+" tree over the same distances",
				nil, map[string]interface{}{"positions": implPos, "ranks": implRank}, mod)
		}
	}
}

// ---- C: in-process ----

func inProcess(r *hx.Result, drv *model.Driver, rng *rand.Rand, rounds int) {
	for round := 0; round < rounds; round++ {
		k := verifapi.NewKnnCollection()
		n := []int{3, 20, 70, 150, 400, 900}[rng.Intn(6)]
		h := randHistory(rng, n, func(op []string, id string, o *gobj) {
			if o == nil {
				k.Delete(id)
			} else if o.kind != "string" {
				k.Set(id, o.r[0], o.r[1], o.r[2], o.r[3])
			} else {
				k.Delete(id) // a string replaces the geometry: not in the spatial index
			}
		})
		for qi := 0; qi < 12; qi++ {
			x := &run{r: r, drv: drv, h: h, q: randQuery(rng, h), from: "Collection.Nearby in-process"}
			nodes, ids, ds := k.Trace(x.q[0], x.q[1])
			distinct := map[float64]bool{}
			for _, d := range ds {
				distinct[d] = true
			}
			r.Count(fmt.Sprintf("ip/%d/%d", round, qi), len(distinct) >= 2)
			r.Dist("in-process-query")
			r.Dist(fmt.Sprintf("tree-nodes:%d", minInt(len(nodes), 3)))
			x.checkOrder(ids, ds)
			// Hlb on the rectangles the real tree evaluated: every object whose rectangle lies
			// inside a node rectangle must not be closer than the node's key
			for _, nd := range nodes {
				for _, id := range ids {
					o := h.objs[id].r
					if o[0] >= nd.MinLat && o[2] <= nd.MaxLat && o[1] >= nd.MinLon && o[3] <= nd.MaxLon {
						r.Dist("hlb-real-node-item")
						if d := dist(x.q, o); nd.Key > d {
							lbFailure(r, "node rectangle of the real R-tree", x.q, rect{nd.MinLat, nd.MinLon, nd.MaxLat, nd.MaxLon}, o, nd.Key, d)
						}
					}
				}
			}
			if len(ids) <= 450 && qi < 4 {
				x.checkModel(ids, ds)
			}
		}
	}
}

func minInt(a, b int) int {
	if a < b {
		return a
	}
	return b
}

// ---- D: black box ----

type reply struct {
	ids []string
	ds  []float64
	txt []string // the distances as printed
	cur int64
}

func nearby(c *srv.Conn, args ...string) (reply, error) {
	v := c.MustDo(append([]string{"NEARBY", "k"}, args...)...)
	if v.Kind != '*' || len(v.Array) != 2 || v.Array[1].Kind != '*' {
		return reply{}, fmt.Errorf("unexpected reply %s", v.String())
	}
	rp := reply{cur: v.Array[0].Int}
	for _, e := range v.Array[1].Array {
		if e.Kind == '*' && len(e.Array) == 2 {
			d, err := strconv.ParseFloat(e.Array[1].Str, 64)
			if err != nil {
				return reply{}, fmt.Errorf("bad distance %q", e.Array[1].Str)
			}
			rp.ids = append(rp.ids, e.Array[0].Str)
			rp.ds = append(rp.ds, d)
			rp.txt = append(rp.txt, e.Array[1].Str)
		} else {
			rp.ids = append(rp.ids, e.Str)
		}
	}
	return rp, nil
}

//go:embed noise65.txt
var noise65 string

// noiseCorpus: the 65 points (two of them 0.14 mm apart at the north pole) on which NEARBY from
// (45, 90) printed 5003771.699005145 before 5003771.699005144 until node keys got their margin
// (former known finding C13-rounding-noise; the same file is corpus/C13/rounding-noise-order-65pts.txt)
func noiseCorpus() (*history, [2]float64) {
	h := &history{objs: map[string]gobj{}}
	var q [2]float64
	n := 0
	for _, line := range strings.Split(noise65, "\n") {
		f := strings.Fields(line)
		if len(f) != 3 {
			continue
		}
		la, _ := strconv.ParseFloat(f[1], 64)
		lo, _ := strconv.ParseFloat(f[2], 64)
		if f[0] == "Q" {
			q = [2]float64{la, lo}
			continue
		}
		id := "p" + strconv.Itoa(n)
		n++
		o := gobj{kind: "point", r: rect{la, lo, la, lo}}
		h.objs[id] = o
		h.ops = append(h.ops, []string{"SET", "k", id, "POINT", f[1], f[2]})
	}
	return h, q
}

func polarCorpus() *history {
	h := &history{objs: map[string]gobj{}}
	add := func(id string, la, lo float64) {
		o := gobj{kind: "point", r: rect{la, lo, la, lo}}
		h.objs[id] = o
		h.ops = append(h.ops, o.setArgs("k", id))
	}
	for i := 0; i < 40; i++ {
		add("a"+strconv.Itoa(i), 60+float64(i)*0.5, 90+float64(i))
	}
	add("pole", 89.999995, 100)
	for i := 0; i < 40; i++ {
		add("b"+strconv.Itoa(i), 45+0.1*float64(i), 10+float64(i))
	}
	return h
}

// kindSwitchCorpus: an id changes kind under replacement.  Stage 0: a geometry is replaced by a
// STRING value (the id must leave the spatial index: Collection.setFill removes the PREVIOUS object
// according to the previous object's kind); stage 1: the id is then deleted; stage 2: the other
// direction, a STRING value replaced by a geometry, and a geometry replaced by a geometry of another
// type.  Around them enough neighbours for a two-level R-tree.
func kindSwitchCorpus(stage int) *history {
	h := &history{objs: map[string]gobj{}}
	do := func(id string, o *gobj) {
		if o == nil {
			delete(h.objs, id)
			h.ops = append(h.ops, []string{"DEL", "k", id})
			return
		}
		h.objs[id] = *o
		h.ops = append(h.ops, o.setArgs("k", id))
	}
	pt := func(la, lo float64) *gobj { return &gobj{kind: "point", r: rect{la, lo, la, lo}} }
	for i := 0; i < 90; i++ {
		do("n"+strconv.Itoa(i), pt(33+0.01*float64(i%10), -115-0.01*float64(i/10)))
	}
	do("truck1", pt(33.5001, -115.5001))
	do("truck2", pt(33.51, -115.51))
	do("truck3", &gobj{kind: "bounds", r: rect{33.6, -115.6, 33.61, -115.59}})
	do("truck1", &gobj{kind: "string", val: "retired"})
	do("truck3", &gobj{kind: "string", val: "retired too"})
	if stage >= 1 {
		do("truck1", nil)
	}
	if stage >= 2 {
		do("truck4", &gobj{kind: "string", val: "new"})
		do("truck4", pt(33.5002, -115.5002))
		do("truck3", pt(33.6, -115.6))
		do("truck2", &gobj{kind: "bounds", r: rect{33.51, -115.51, 33.52, -115.5}})
		do("truck5", &gobj{kind: "string", val: "a"})
		do("truck5", &gobj{kind: "string", val: "b"})
	}
	return h
}

func (x *run) blackBoxQuery(c *srv.Conn, rng *rand.Rand, key string, sample bool) {
	r := x.r
	qa := []string{"POINT", fl(x.q[0]), fl(x.q[1])}
	u, err := nearby(c, append([]string{"LIMIT", big, "DISTANCE", "IDS"}, qa...)...)
	if err != nil || len(u.ds) != len(u.ids) {
		x.fail("oracle", "knn-reply-shape", fmt.Sprint("NEARBY DISTANCE reply: ", err), nil, nil, nil)
		return
	}
	distinct := map[float64]bool{}
	for _, d := range u.ds {
		distinct[d] = true
	}
	r.Count(key, len(distinct) >= 2)
	r.Dist("blackbox-query")
	if !x.checkOrder(u.ids, u.ds) {
		return
	}
	if len(u.ids) <= 450 {
		x.checkModel(u.ids, u.ds)
	}
	if sample {
		n := minInt(len(u.ids), 4)
		r.Sample(8, map[string]interface{}{"query_point": qa[1:], "objects": len(u.ids), "first": u.ids[:n], "first_distances": u.ds[:n]})
	}
	if len(u.ids) == 0 {
		return
	}
	sids := x.h.spatial()
	// is the unlimited order free of (rounding-level) inversions?  Then the objects at a distance
	// not above d are exactly a prefix of it, by the server's own printed numbers.
	uSorted := true
	for i := 0; i+1 < len(u.ds); i++ {
		if u.ds[i+1] < u.ds[i] {
			uSorted = false
		}
	}
	// exact round trip: "distance does not exceed the radius" includes equality.  Re-query with the
	// radius set to exactly the text the server printed for an object: that object, and every
	// object the server printed at a distance not above it, must come back, and nothing else.
	if uSorted {
		picks := []int{0, len(u.ids) - 1, rng.Intn(len(u.ids)), rng.Intn(len(u.ids)), rng.Intn(len(u.ids))}
		for _, j := range picks {
			if !(u.ds[j] > 0) {
				continue // radius 0 means no cut at all
			}
			rr, err := nearby(c, append([]string{"LIMIT", big, "DISTANCE", "IDS"}, append(qa, u.txt[j])...)...)
			if err != nil {
				x.fail("oracle", "knn-reply-shape", err.Error(), map[string]interface{}{"radius": u.txt[j]}, nil, nil)
				continue
			}
			r.Dist("radius-on-boundary-query")
			k := 0
			for k < len(u.ds) && u.ds[k] <= u.ds[j] {
				k++
			}
			if strings.Join(rr.ids, "\x01") != strings.Join(u.ids[:k], "\x01") {
				found := false
				for _, id := range rr.ids {
					if id == u.ids[j] {
						found = true
					}
				}
				what := fmt.Sprintf("NEARBY with radius %s, exactly the distance the server printed for %s: the reply has %d ids, the %d objects printed at a distance <= it were expected", u.txt[j], u.ids[j], len(rr.ids), k)
				if !found {
					what += "; " + u.ids[j] + " itself, lying exactly on the radius, is missing"
				}
				x.fail("oracle", "knn-radius-on-boundary", what, map[string]interface{}{"radius": u.txt[j], "object": u.ids[j]}, rr.ids, u.ids[:k])
			}
		}
	}
	// radius: around the distance of a random object, exactly a distance, tiny, huge
	// radii beyond any distance on the sphere: everything must come back (the property knows no
	// normalisation of the radius): above the circumference 2*pi*R, exactly the circumference and
	// its neighbours, multiples of it plus a little, 1e9, the largest float
	const circ = 2 * math.Pi * 6371e3
	huge := []float64{45e6, 5e7, circ, math.Nextafter(circ, 0), math.Nextafter(circ, 1e9), circ + 1, 2*circ + 1000, 3*circ + float64(rng.Intn(2000000)), 1e9, 1e15, math.MaxFloat64}
	for t := 0; t < 5; t++ {
		var rad float64
		pick := u.ds[rng.Intn(len(u.ds))]
		sel := rng.Intn(5)
		if t >= 3 {
			sel = 5
		}
		switch sel {
		case 5:
			rad = huge[rng.Intn(len(huge))]
			r.Dist("radius-huge")
		case 0:
			rad = pick
		case 1:
			rad = pick * (1 + rng.NormFloat64()*0.2)
		case 2:
			rad = pick + 1
		case 3:
			rad = 3e7
		default:
			rad = math.Abs(rng.NormFloat64()) * 1e6
		}
		if !(rad > 0) {
			rad = 1
		}
		rs := fl(rad)
		rad, _ = strconv.ParseFloat(rs, 64)
		rr, err := nearby(c, append([]string{"LIMIT", big, "IDS"}, append(qa, rs)...)...)
		if err != nil {
			x.fail("oracle", "knn-reply-shape", err.Error(), map[string]interface{}{"radius": rs}, nil, nil)
			continue
		}
		r.Dist("radius-query")
		got := map[string]bool{}
		for _, id := range rr.ids {
			got[id] = true
		}
		var missing, extra []string
		for _, id := range sids {
			d := dist(x.q, x.h.objs[id].r)
			if math.Abs(d-rad) <= 1e-9*rad {
				continue
			}
			if d <= rad && !got[id] {
				missing = append(missing, fmt.Sprintf("%s@%v", id, d))
			}
			if d > rad && got[id] {
				extra = append(extra, fmt.Sprintf("%s@%v", id, d))
			}
		}
		if len(missing)+len(extra) > 0 || len(rr.ids) != len(got) {
			x.fail("oracle", "knn-radius-set", fmt.Sprintf("NEARBY with radius %s m: missing %v, beyond the radius %v, %d ids / %d distinct", rs, missing, extra, len(rr.ids), len(got)),
				map[string]interface{}{"radius": rs}, rr.ids, nil)
		}
		// the radius reply is the prefix of the unlimited order
		if len(rr.ids) > len(u.ids) || strings.Join(rr.ids, "\x01") != strings.Join(u.ids[:len(rr.ids)], "\x01") {
			x.fail("oracle", "knn-radius-prefix", fmt.Sprintf("NEARBY with radius %s m is not a prefix of the reply without radius", rs), map[string]interface{}{"radius": rs}, rr.ids, u.ids)
		}
		// model: radius cut on the same order (one-leaf tree), as id sets per distance
		if len(u.ids) <= 450 {
			flat, _, rank, pos := x.modelTrees(sids, []float64{rad})
			mod := x.drv.Ask(fmt.Sprintf("nearby %s 0 %s - %s", rank(rad), big, flat))
			parts := strings.SplitN(mod, " ", 2)
			// objects whose distance agrees with the radius to within rounding noise without being
			// equal to it may fall on either side of the cut: left out of the comparison on both
			// sides.  An object exactly ON the radius stays in: the model's radius_stop is
			// max_dist < d, so equality is inside, and the server must agree.
			nearRad := map[string]bool{}
			for _, id := range sids {
				d := dist(x.q, x.h.objs[id].r)
				if noise(d, rad) && !(d == rad && uSorted) {
					nearRad[strconv.Itoa(pos[id])] = true
				}
			}
			var implPos, implRank []string
			rds := make([]float64, len(rr.ids))
			for i, id := range rr.ids {
				rds[i] = dist(x.q, x.h.objs[id].r)
			}
			cids, cds, okc := canonOrder(rr.ids, rds)
			if !okc {
				continue // a real inversion: reported as knn-order / knn-radius-prefix
			}
			for i, id := range cids {
				if p := strconv.Itoa(pos[id]); !nearRad[p] {
					implPos = append(implPos, p)
					implRank = append(implRank, rank(cds[i]))
				}
			}
			modItems := "-"
			if len(parts) == 2 && parts[1] != "-" {
				var keep []string
				for _, tok := range strings.Split(parts[1], ",") {
					if !nearRad[strings.SplitN(tok, ":", 2)[0]] {
						keep = append(keep, tok)
					}
				}
				if len(keep) > 0 {
					modItems = strings.Join(keep, ",")
				}
			}
			if len(parts) != 2 || parts[0] != strconv.FormatInt(rr.cur, 10) || !sameByDistance(implPos, implRank, modItems) {
				x.fail("correspondence", "knn-model-radius", fmt.Sprintf("NEARBY with radius %s differs from Model.Knn.nearby_query", rs), map[string]interface{}{"radius": rs},
					map[string]interface{}{"cursor": rr.cur, "positions": implPos, "ranks": implRank}, mod)
			}
		}
	}
	// LIMIT k: a prefix of the unlimited reply, with the same distances
	for t := 0; t < 3; t++ {
		k := 1 + rng.Intn(len(u.ids)+2)
		lr, err := nearby(c, append([]string{"LIMIT", strconv.Itoa(k), "DISTANCE", "IDS"}, qa...)...)
		if err != nil {
			x.fail("oracle", "knn-reply-shape", err.Error(), map[string]interface{}{"limit": k}, nil, nil)
			continue
		}
		r.Dist("limit-query")
		want := u.ids[:minInt(k, len(u.ids))]
		if strings.Join(lr.ids, "\x01") != strings.Join(want, "\x01") {
			x.fail("oracle", "knn-limit-prefix", fmt.Sprintf("NEARBY LIMIT %d is not the first %d of the unlimited reply", k, k), map[string]interface{}{"limit": k}, lr.ids, want)
		}
		// k closest: nothing left out is closer than anything returned
		if len(lr.ds) > 0 {
			far := lr.ds[len(lr.ds)-1]
			in := map[string]bool{}
			for _, id := range lr.ids {
				in[id] = true
			}
			for _, id := range sids {
				if d := dist(x.q, x.h.objs[id].r); !in[id] && d < far {
					x.fail("oracle", "knn-k-closest", fmt.Sprintf("NEARBY LIMIT %d returned an object at %v m but left out %s at %v m", k, far, id, d), map[string]interface{}{"limit": k}, lr.ids, nil)
					break
				}
			}
		}
	}
}

func blackBox(r *hx.Result, cfg hx.Config, drv *model.Driver, rng *rand.Rand, rounds int) {
	for round := 0; round < rounds; round++ {
		s, err := srv.Start(filepath.Join(cfg.Work, fmt.Sprintf("c13-%d", round)), "--appendonly", "no")
		if err != nil {
			panic(err)
		}
		func() {
			defer s.Kill()
			c := s.MustDial()
			defer c.Close()
			var h *history
			var queries [][2]float64
			if round == 0 {
				h = polarCorpus()
				for _, op := range h.ops {
					c.MustDo(op...)
				}
				queries = [][2]float64{{52, 49}, {0, 0}, {-52, 49}, {89, -80}}
			} else if round == 1 {
				var q [2]float64
				h, q = noiseCorpus()
				for _, op := range h.ops {
					c.MustDo(op...)
				}
				queries = [][2]float64{q, {-45, -90}, {90, 0}}
			} else if round <= 4 {
				h = kindSwitchCorpus(round - 2)
				for _, op := range h.ops {
					c.MustDo(op...)
				}
				r.Dist("hist:kind-switch-corpus")
				queries = [][2]float64{{33.5, -115.5}, {33.6, -115.6}, {0, 0}}
			} else {
				n := []int{0, 1, 5, 40, 90, 200, 420}[rng.Intn(7)]
				h = randHistory(rng, n, func(op []string, id string, o *gobj) {
					if v := c.MustDo(op...); v.IsErr() {
						panic(fmt.Sprintf("%q -> %s", op, v.String()))
					}
					if o == nil {
						r.Dist("hist:del")
					} else {
						r.Dist("hist:set-" + o.kind)
					}
				})
				for i := 0; i < 10; i++ {
					queries = append(queries, randQuery(rng, h))
				}
			}
			for qi, q := range queries {
				x := &run{r: r, drv: drv, h: h, q: q, from: "server"}
				x.blackBoxQuery(c, rng, fmt.Sprintf("bb/%d/%d", round, qi), qi == 0)
			}
		}()
	}
}

func runC13(r *hx.Result, cfg hx.Config) {
	r.Rule = "one case = (dataset reached by a random history of SET/overwrite/DEL over points, rectangles, polygons, linestrings and strings; query point; radius / LIMIT): non-trivial = distinct case whose unlimited reply holds at least two different distances. Plus samples of the lower-bound hypothesis on nested rectangles (non-trivial = 0 < key(outer) < key(inner)). Plus NEARBY queries in every output form answered while writer connections change the same collection (non-trivial = reply with at least two different distances)."
	r.Assumptions = []string{
		"Hlb (trusted, sampled exactly, no tolerance): the key of a node rectangle (clamped to the valid range, scaled by 1-1e-7) does not exceed the distance of any object whose rectangle it contains (geodesic point-to-rectangle bound, float64 trigonometry)",
		"the R-tree keeps every object under nodes whose rectangles contain the object's rectangle (tidwall/rtree, not verified); the harness checks Hlb on the node rectangles the real tree evaluates",
		"client-side distances are computed with the server's own distance function through verifapi (collection.geodeticDistAlgo); point objects are cross-checked against geo.DistanceTo",
		"one NEARBY traverses one tree: proved from the regenerated lock tables (Props/C13iso.v: mutations of a collection only under the exclusive server lock, traversals under at least the shared lock for the whole handler) and sampled by the concurrent oracle (readers in every output form against writers issuing every kind of write; each reply must be explainable by the states every id could have been in between send and receive); the schedules reached are a sample",
		"the theorems hold for every queue discipline satisfying queue_ok, proved for the list queue and for the transcribed binary heap (Proofs/KnnHeap.v); that the Go heap is that transcription is sampled (knn-heap-model-not-min-queue); the real R-tree shape is not observable, so order inside a group of equal distances is not compared",
	}
	rng := rand.New(rand.NewSource(cfg.Seed))
	drv, err := model.Start("knn")
	if err != nil {
		panic(err)
	}
	defer drv.Close()
	hlb, ip, bb := 400000, 60, 19
	if cfg.Tier == "thorough" {
		hlb, ip, bb = 5000000, 600, 83
	}
	if cfg.Search {
		hlb, ip, bb = 2000000, 400, 33
	}
	// E: NEARBY while the collection is written (concurrent.go): objects, writer and reader
	// connections, seconds with both running
	cobj, cwr, crd, csec := 20000, 4, 3, 9
	if cfg.Tier == "thorough" {
		cobj, csec = 40000, 60
	}
	if cfg.Search {
		cobj, csec = 40000, 45
	}
	parts := os.Getenv("VERIF_C13_PARTS") // debugging aid: e.g. "E" runs the concurrent oracle only
	on := func(p string) bool { return parts == "" || strings.Contains(parts, p) }
	if on("E") && cfg.Search {
		// after a broken obligation of Props/C13iso.v this is where a failing input is to be found
		concurrent(r, cfg, rng, cobj, cwr, crd, time.Duration(csec)*time.Second)
	}
	if on("B") {
		sampleHlb(r, rng, hlb)
		sampleHeap(r, drv, rng, 3000)
	}
	if on("C") {
		inProcess(r, drv, rng, ip)
	}
	if on("D") {
		blackBox(r, cfg, drv, rng, bb)
	}
	if on("E") && !cfg.Search {
		concurrent(r, cfg, rng, cobj, cwr, crd, time.Duration(csec)*time.Second)
	}
	r.TracesImpl = r.Distribution["blackbox-query"] + r.Distribution["in-process-query"] + r.Distribution["concurrent-query"]
}
