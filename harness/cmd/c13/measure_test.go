package main

import (
	"fmt"
	"math"
	"math/rand"
	"testing"

	"github.com/tidwall/tile38/verifapi"
)

func TestMeasureExcess(t *testing.T) {
	rng := rand.New(rand.NewSource(99))
	maxRel, maxAbs, minKey := 0.0, 0.0, 0.0
	var wq [2]float64
	var wo, wi rect
	rec := func(q [2]float64, o, i rect, ko, ki float64) {
		if ko < minKey {
			minKey = ko
		}
		if ko > ki {
			if ko-ki > maxAbs {
				maxAbs = ko - ki
			}
			if rel := (ko - ki) / ko; rel > maxRel {
				maxRel, wq, wo, wi = rel, q, o, i
			}
		}
	}
	for n := 0; n < 40000000; n++ {
		q, in, out, p := sampleNested(rng)
		if n%3 == 0 { // antipodal emphasis
			lo := in[1] + 180
			if lo > 180 {
				lo -= 360
			}
			q = [2]float64{clampLat(-in[0] + rng.NormFloat64()*[]float64{1e-9, 1e-6, 1e-3, 1}[rng.Intn(4)]), clampLon(lo + rng.NormFloat64()*[]float64{1e-9, 1e-6, 1e-3, 1}[rng.Intn(4)])}
		}
		pr := rect{p[0], p[1], p[0], p[1]}
		rec(q, out, in, nodeKey(q, out), dist(q, in))
		rec(q, in, pr, nodeKey(q, in), dist(q, pr))
		rec(q, out, pr, nodeKey(q, out), dist(q, pr))
	}
	fmt.Printf("nested: maxRel %g maxAbs %g minKey %g worst q=%v out=%v in=%v\n", maxRel, maxAbs, minKey, wq, wo, wi)
	maxRel2, maxAbs2 := 0.0, 0.0
	for round := 0; round < 3000; round++ {
		k := verifapi.NewKnnCollection()
		n := []int{70, 150, 400}[rng.Intn(3)]
		h := randHistory(rng, n, func(op []string, id string, o *gobj) {
			if o == nil || o.kind == "string" {
				k.Delete(id)
			} else {
				k.Set(id, o.r[0], o.r[1], o.r[2], o.r[3])
			}
		})
		for qi := 0; qi < 10; qi++ {
			q := randQuery(rng, h)
			nodes, ids, _ := k.Trace(q[0], q[1])
			for _, nd := range nodes {
				for _, id := range ids {
					o := h.objs[id].r
					if o[0] >= nd.MinLat && o[2] <= nd.MaxLat && o[1] >= nd.MinLon && o[3] <= nd.MaxLon {
						if d := dist(q, o); nd.Key > d {
							maxAbs2 = math.Max(maxAbs2, nd.Key-d)
							maxRel2 = math.Max(maxRel2, (nd.Key-d)/nd.Key)
						}
					}
				}
			}
		}
	}
	fmt.Printf("real trees: maxRel %g maxAbs %g\n", maxRel2, maxAbs2)
}
