// C07 harness: concurrent clients against one server; afterwards the append-only file gives the
// total order of the effective writes. Every reply must be the sequential model's reply at a
// position consistent with real time and with that order (a linear scan, not a search).
package main

import (
	"fmt"
	"math/rand"
	"os"
	"path/filepath"
	"sort"
	"strconv"
	"strings"
	"sync"
	"time"

	"github.com/tidwall/tile38/verifapi"
	"verifharness/internal/hx"
	"verifharness/internal/srv"
)

func main() { hx.Main("C07", run) }

type op struct {
	client     int
	args       []string
	send, recv time.Time
	reply      string
	idx        int // position in the AOF (-1: not logged)
}

// ---- sequential model of the command subset used here (string objects only) ----

type state map[string]map[string]string

// objects that currently carry a deadline are stored with this prefix on their value
const dl = "\x00deadline\x00"

func hasDeadline(v string) bool { return strings.HasPrefix(v, dl) }
func plain(v string) string     { return strings.TrimPrefix(v, dl) }

func (s state) clone() state {
	n := state{}
	for k, c := range s {
		m := map[string]string{}
		for id, v := range c {
			m[id] = v
		}
		n[k] = m
	}
	return n
}

func sortedKeys(m map[string]string) []string {
	var ks []string
	for k := range m {
		ks = append(ks, k)
	}
	sort.Strings(ks)
	return ks
}

// exec applies a command to s (in place) and returns the canonical RESP reply
func exec(s state, a []string) string {
	switch strings.ToUpper(a[0]) {
	case "SET": // SET k id [EX s] STRING v
		if s[a[1]] == nil {
			s[a[1]] = map[string]string{}
		}
		if a[3] == "EX" {
			s[a[1]][a[2]] = dl + a[6]
		} else {
			s[a[1]][a[2]] = a[4]
		}
		return "+OK"
	case "GET":
		c, ok := s[a[1]]
		if !ok {
			return "nil"
		}
		v, ok := c[a[2]]
		if !ok {
			return "nil"
		}
		return "$" + strconv.Quote(plain(v))
	case "DEL":
		c, ok := s[a[1]]
		if !ok {
			return ":0"
		}
		if _, ok := c[a[2]]; !ok {
			return ":0"
		}
		delete(c, a[2])
		if len(c) == 0 {
			delete(s, a[1])
		}
		return ":1"
	case "PDEL":
		c, ok := s[a[1]]
		if !ok {
			return ":0"
		}
		n := 0
		for _, id := range sortedKeys(c) {
			if m, _ := verifapi.GlobMatch(a[2], id); m {
				delete(c, id)
				n++
			}
		}
		if len(c) == 0 {
			delete(s, a[1])
		}
		return ":" + strconv.Itoa(n)
	case "DROP":
		if _, ok := s[a[1]]; !ok {
			return ":0"
		}
		delete(s, a[1])
		return ":1"
	case "RENAME":
		c, ok := s[a[1]]
		if !ok {
			return "-ERR key not found"
		}
		delete(s, a[1])
		s[a[2]] = c
		return "+OK"
	case "FLUSHDB":
		for k := range s {
			delete(s, k)
		}
		return "+OK"
	case "SCAN": // SCAN k IDS
		c := s[a[1]]
		var parts []string
		for _, id := range sortedKeys(c) {
			parts = append(parts, "$"+strconv.Quote(id))
		}
		return "[:0 [" + strings.Join(parts, " ") + "]]"
	case "KEYS":
		var ks []string
		for k := range s {
			ks = append(ks, k)
		}
		sort.Strings(ks)
		var parts []string
		for _, k := range ks {
			parts = append(parts, "$"+strconv.Quote(k))
		}
		return "[" + strings.Join(parts, " ") + "]"
	}
	return "?"
}

func parseAOF(b []byte) ([][]string, error) {
	var out [][]string
	i := 0
	line := func() (string, bool) {
		j := i
		for j+1 < len(b) && !(b[j] == '\r' && b[j+1] == '\n') {
			j++
		}
		if j+1 >= len(b) {
			return "", false
		}
		s := string(b[i:j])
		i = j + 2
		return s, true
	}
	for i < len(b) {
		l, ok := line()
		if !ok || len(l) == 0 || l[0] != '*' {
			return out, fmt.Errorf("bad AOF array header at %d", i)
		}
		n, _ := strconv.Atoi(l[1:])
		var args []string
		for k := 0; k < n; k++ {
			l, ok := line()
			if !ok || l[0] != '$' {
				return out, fmt.Errorf("bad AOF bulk header at %d", i)
			}
			m, _ := strconv.Atoi(l[1:])
			if i+m+2 > len(b) {
				return out, fmt.Errorf("short AOF bulk at %d", i)
			}
			args = append(args, string(b[i:i+m]))
			i += m + 2
		}
		out = append(out, args)
	}
	return out, nil
}

func run(r *hx.Result, cfg hx.Config) {
	r.Rule = "N concurrent connections issue SET/GET/DEL/SCAN/KEYS on shared collections (each client owns its ids) while designated clients issue the multi-object commands PDEL, DROP, RENAME, FLUSHDB; every operation is timestamped at send and receive. The append-only file gives the write order. Checked: AOF order respects real-time order of acknowledged writes; each logged write's reply equals the sequential model's at its AOF position; each other reply equals the model's at some position allowed by real time (so no reader sees a half-applied PDEL/DROP/RENAME/FLUSHDB). Runs use both lock implementations (default and --spinlock); one client issues long reads (EVALRO busy loops) that hold the shared lock. Before the random histories: (a) a directed schedule SET EX / long read just after the deadline / SET without EX during the read / GET, judged by the same history checker (a del logged by the expiry pass must find an object that carries a deadline at its log position); (b) a live geofence connection while 3-5 connections write in pipelined bursts: notification order = order of the logged writes inside the fence, once; (c) on an unchanging dataset, the replies of 10-12 connections reading at the same time (SCAN/SEARCH/WITHIN/INTERSECTS/NEARBY with WHERE range, WHERE expression, WHEREIN, WHEREEVAL, MATCH, also through EVALRO) = the replies of the same commands sent one at a time. non-trivial = distinct history in which at least two clients had operations in flight at the same time and a multi-object command took effect."
	r.Assumptions = []string{"client-side timestamps bound the server-side instant of each command", "the sequential model here is a Go transcription of the string-object subset (SET STRING/GET/DEL/PDEL/DROP/RENAME/FLUSHDB/SCAN IDS/KEYS)"}
	rng := rand.New(rand.NewSource(cfg.Seed))
	// directed regression schedules and model-free oracles first
	runSweepUnderReader(r, cfg)
	runLiveOrder(r, cfg, rng)
	runReaders(r, cfg, rng)
	histories := 6
	perClient := 120
	if cfg.Tier == "thorough" || cfg.Search {
		histories, perClient = 60, 400
	}
	for h := 0; h < histories; h++ {
		nclients := 3 + rng.Intn(10)
		extra := []string{}
		if h%2 == 1 {
			extra = append(extra, "--spinlock")
		}
		dir := filepath.Join(cfg.Work, fmt.Sprintf("h%d", h))
		s, err := srv.Start(dir, extra...)
		if err != nil {
			panic(err)
		}
		seeds := make([]int64, nclients)
		for i := range seeds {
			seeds[i] = rng.Int63()
		}
		ops := make([][]*op, nclients)
		var wg sync.WaitGroup
		for ci := 0; ci < nclients; ci++ {
			wg.Add(1)
			go func(ci int) {
				defer wg.Done()
				lr := rand.New(rand.NewSource(seeds[ci]))
				c := s.MustDial()
				defer c.Close()
				keys := []string{"m", "n"}
				for j := 0; j < perClient; j++ {
					var a []string
					k := keys[lr.Intn(2)]
					id := fmt.Sprintf("p%d-%d", ci, lr.Intn(3))
					x := lr.Intn(100)
					switch {
					case ci == 0 && x < 12:
						a = []string{"PDEL", k, "p*"}
						if lr.Intn(4) == 0 {
							a[2] = "t*"
						}
					case ci == 0 && x < 18:
						a = []string{"DROP", k}
					case ci == 1 && x < 12:
						a = []string{"RENAME", "m", "n"}
					case ci == 2 && x < 6:
						a = []string{"FLUSHDB"}
					case ci == 3 && x < 5:
						// a long read: holds the shared lock while the others (and the expiry pass) go on.
						// Not part of the sequential model here; its reply is checked on the spot.
						if v, err := c.Do("EVALRO", "local t = os.clock() while os.clock() - t < 0.12 do end return 'done'", "0"); err != nil || v.Str != "done" {
							r.Fail(hx.Failure{Kind: "oracle", Signature: "long-read-reply", What: fmt.Sprintf("EVALRO busy loop replied %s %v", v.String(), err)})
						}
						continue
					case x < 45:
						a = []string{"SET", k, id, "STRING", fmt.Sprintf("v%d.%d.%d", h, ci, j)}
					case x < 52:
						a = []string{"SET", k, fmt.Sprintf("t%d-%d", ci, lr.Intn(8)), "EX", "0.05", "STRING", fmt.Sprintf("v%d.%d.%d", h, ci, j)}
					case x < 55:
						a = []string{"SET", k, fmt.Sprintf("t%d-%d", ci, lr.Intn(8)), "STRING", fmt.Sprintf("v%d.%d.%d", h, ci, j)}
					case x < 65:
						a = []string{"DEL", k, id}
					case x < 80:
						a = []string{"GET", k, fmt.Sprintf("p%d-%d", lr.Intn(nclients), lr.Intn(3))}
					case x < 95:
						a = []string{"SCAN", k, "IDS"}
					default:
						a = []string{"KEYS", "*"}
					}
					if true {
						time.Sleep(time.Duration(lr.Intn(6)) * time.Millisecond) // let the 100 ms sweeper interleave
					}
					o := &op{client: ci, args: a, idx: -1}
					o.send = time.Now()
					v, err := c.Do(a...)
					o.recv = time.Now()
					if err != nil {
						o.reply = "transport:" + err.Error()
					} else if v.Kind == '-' && strings.Contains(v.Str, "not found") && a[0] == "GET" {
						o.reply = "nil"
					} else {
						o.reply = v.String()
					}
					ops[ci] = append(ops[ci], o)
				}
			}(ci)
		}
		wg.Wait()
		alive := s.Alive()
		s.Stop()
		if !alive {
			r.Fail(hx.Failure{Kind: "oracle", Signature: "server-died", What: "the server exited during a concurrent history: " + s.LogTail(600)})
			continue
		}
		res, ok := checkHistory(r, dir, ops, map[string]interface{}{"history": h, "clients": nclients, "spinlock": h%2 == 1})
		if !ok {
			continue
		}
		writes, multi, checked, sweeps, overlap := make([]struct{}, res.writes), res.multi, res.checked, res.sweeps, res.overlap
		r.Count(fmt.Sprintf("history %d: %d clients, %d logged writes, %d multi-object, %d other replies placed", h, nclients, len(writes), multi, checked), overlap && multi > 0)
		r.Dist(fmt.Sprintf("lock:%v", extra))
		r.TracesImpl++
		r.Sample(4, map[string]interface{}{"clients": nclients, "ops": nclients * perClient, "logged_writes": len(writes), "multi_object_writes": multi, "sweeper_deletes": sweeps, "non_logged_replies_placed": checked, "spinlock": h%2 == 1})
	}
}

type hres struct {
	writes, multi, checked, sweeps int
	overlap                        bool
}

// checkHistory: the append-only file of dir against the timestamped operations of the clients.
// Operations whose command word is not part of the sequential model here (long-running reads that
// only serve to hold the shared lock) must be filtered out by the caller.
func checkHistory(r *hx.Result, dir string, ops [][]*op, cas map[string]interface{}) (hres, bool) {
	raw, _ := os.ReadFile(filepath.Join(dir, "appendonly.aof"))
	aof, err := parseAOF(raw)
	if err != nil {
		r.Fail(hx.Failure{Kind: "oracle", Signature: "aof-unparsable", What: err.Error()})
		return hres{}, false
	}
	// map AOF entries to client operations: per (client-agnostic) argument string, the k-th
	// logged occurrence is the k-th operation with those arguments whose reply says "updated"
	updated := func(o *op) bool {
		switch o.args[0] {
		case "SET", "FLUSHDB":
			return o.reply == "+OK"
		case "RENAME":
			return o.reply == "+OK"
		case "DEL", "DROP":
			return o.reply == ":1"
		case "PDEL":
			return strings.HasPrefix(o.reply, ":") && o.reply != ":0"
		}
		return false
	}
	pending := map[string][]*op{}
	for ci := range ops {
		for _, o := range ops[ci] {
			if updated(o) {
				k := strings.Join(o.args, "\x00")
				pending[k] = append(pending[k], o)
			}
		}
	}
	var writes []*op
	bad := false
	sweeps := 0
	for i, e := range aof {
		if e[0] == "del" && len(e) == 3 {
			// written by the expiry sweeper (clients send upper-case command words)
			writes = append(writes, &op{client: -1, args: []string{"SWEEPDEL", e[1], e[2]}, idx: i})
			sweeps++
			continue
		}
		e[0] = strings.ToUpper(e[0])
		k := strings.Join(e, "\x00")
		q := pending[k]
		if len(q) == 0 {
			r.Fail(hx.Failure{Kind: "oracle", Signature: "aof-unexpected-entry", What: fmt.Sprintf("AOF entry %d %q corresponds to no acknowledged updating command", i, e)})
			bad = true
			break
		}
		q[0].idx = i
		writes = append(writes, q[0])
		pending[k] = q[1:]
	}
	if bad {
		return hres{}, false
	}
	for k, q := range pending {
		if len(q) > 0 {
			r.Fail(hx.Failure{Kind: "oracle", Signature: "acked-write-not-in-aof", What: fmt.Sprintf("%d acknowledged updating command(s) %q are missing from the AOF", len(q), strings.Split(k, "\x00"))})
			bad = true
		}
	}
	if bad {
		return hres{}, false
	}
	// states after each prefix of the log, and the model reply of each logged write
	states := []state{{}}
	cur := state{}
	overlap := false
	for i, w := range writes {
		if w.client == -1 {
			// a delete issued by the sweeper is justified only if, at this point of the serial
			// order, the object exists and carries a deadline
			v, ok := cur[w.args[1]][w.args[2]]
			if !ok || !hasDeadline(v) {
				prev := "nothing"
				for j := i - 1; j >= 0; j-- {
					if p := writes[j]; p.client != -1 && len(p.args) > 2 && p.args[1] == w.args[1] && p.args[2] == w.args[2] {
						prev = fmt.Sprintf("%q by client %d (log position %d, acknowledged %s)", p.args, p.client, j, p.reply)
						break
					}
				}
				r.Fail(hx.Failure{Kind: "oracle", Signature: "sweeper-deleted-live-object", What: fmt.Sprintf("log position %d: the expiry sweeper deleted %s/%s, which at that point of the serial order %s; the last logged command on that id before it: %s", i, w.args[1], w.args[2], map[bool]string{true: "had no deadline (it had been re-SET without EX)", false: "did not exist"}[ok], prev), Case: cas})
			}
			exec(cur, []string{"DEL", w.args[1], w.args[2]})
			states = append(states, cur.clone())
			continue
		}
		rep := exec(cur, w.args)
		if rep != w.reply {
			r.Fail(hx.Failure{Kind: "oracle", Signature: "write-reply-not-sequential", What: fmt.Sprintf("logged write #%d %q replied %s, the sequential model at its log position replies %s", i, w.args, w.reply, rep)})
		}
		states = append(states, cur.clone())
		if i > 0 && writes[i-1].client != -1 && writes[i-1].recv.After(w.send) && writes[i-1].client != w.client {
			overlap = true
		}
		// real-time order
		for j := i - 1; j >= 0 && j > i-40; j-- {
			if writes[j].client != -1 && w.recv.Before(writes[j].send) {
				r.Fail(hx.Failure{Kind: "oracle", Signature: "aof-order-vs-realtime", What: fmt.Sprintf("write %q was acknowledged before %q was sent, but is logged after it", w.args, writes[j].args)})
			}
		}
	}
	// every other operation: some allowed position
	multi := 0
	for _, w := range writes {
		if w.args[0] == "PDEL" || w.args[0] == "DROP" || w.args[0] == "RENAME" || w.args[0] == "FLUSHDB" {
			multi++
		}
	}
	checked := 0
	for ci := range ops {
		for _, o := range ops[ci] {
			if o.idx >= 0 {
				continue
			}
			lo, hi := 0, len(writes)
			for i, w := range writes {
				if w.client != -1 && w.recv.Before(o.send) && i+1 > lo {
					lo = i + 1
				}
			}
			for i, w := range writes {
				if w.client != -1 && w.send.After(o.recv) {
					hi = i
					break
				}
			}
			ok := false
			var tried []string
			for p := lo; p <= hi && p < len(states); p++ {
				rep := exec(states[p].clone(), o.args)
				if rep == o.reply {
					ok = true
					break
				}
				if len(tried) < 4 {
					tried = append(tried, rep)
				}
			}
			checked++
			if !ok {
				r.Fail(hx.Failure{Kind: "oracle", Signature: "reply-not-linearizable", What: fmt.Sprintf("client %d: %q replied %s; no log position in [%d,%d] gives that reply (model replies there: %v)", o.client, o.args, o.reply, lo, hi, tried),
					Case: cas})
			}
		}
	}
	return hres{len(writes), multi, checked, sweeps, overlap}, true
}
