// Live fence connections are clients too: the notifications are their view of the writes, and it
// must be the order of the log. One connection opens a live geofence; several connections then
// write in bursts (pipelined packets, so that more than one write is waiting between writeAOF and
// the fence connection at a time) and one at a time; then objects with equal deadlines expire in
// batches (one expiry pass logs several dels). Oracle (no model): the sequence of (command, id) in
// the notifications = the sequence of (command, id) of the logged SETs inside the fence and of the
// logged dels on that key, in the order of appendonly.aof, once.
package main

import (
	"fmt"
	"math/rand"
	"os"
	"path/filepath"
	"strings"
	"sync"
	"time"

	"github.com/tidwall/gjson"
	"verifharness/internal/hx"
	"verifharness/internal/srv"
)

func runLiveOrder(r *hx.Result, cfg hx.Config, rng *rand.Rand) {
	writers, bursts, per := 3, 4, 40
	if cfg.Tier == "thorough" || cfg.Search {
		writers, bursts, per = 5, 12, 100
	}
	dir := filepath.Join(cfg.Work, "live")
	s, err := srv.Start(dir)
	if err != nil {
		panic(err)
	}
	sub := s.MustDial()
	defer sub.Close()
	if v, err := sub.Do("INTERSECTS", "fleet", "FENCE", "DETECT", "inside", "BOUNDS", "30", "-120", "40", "-110"); err != nil || v.IsErr() {
		s.Stop()
		r.Fail(hx.Failure{Kind: "oracle", Signature: "live-setup", What: fmt.Sprintf("opening the live fence: %v %v", v.String(), err)})
		return
	}
	var got []string
	var gmu sync.Mutex
	done := make(chan struct{})
	go func() {
		defer close(done)
		sub.Timeout = 40 * time.Second
		for {
			v, err := sub.Read()
			if err != nil {
				return
			}
			if id := gjson.Get(v.Str, "id").String(); id != "" {
				gmu.Lock()
				got = append(got, gjson.Get(v.Str, "command").String()+" "+id)
				gmu.Unlock()
			}
		}
	}()
	ws := make([]*srv.Conn, writers)
	for i := range ws {
		ws[i] = s.MustDial()
		defer ws[i].Close()
	}
	sent, inside := 0, 0
	failed := ""
	var fmu sync.Mutex
	for b := 0; b < bursts; b++ {
		pipelined := b%2 == 0
		var wg sync.WaitGroup
		for w := 0; w < writers; w++ {
			var cmds [][]string
			for i := 0; i < per; i++ {
				lat, lon := 31+8*rng.Float64(), -119+8*rng.Float64()
				if rng.Intn(5) == 0 {
					lat = 10 // outside the fence: no notification
				} else {
					inside++
				}
				cmds = append(cmds, []string{"SET", "fleet", fmt.Sprintf("b%dw%di%d", b, w, i), "POINT", fmt.Sprintf("%.4f", lat), fmt.Sprintf("%.4f", lon)})
			}
			sent += len(cmds)
			wg.Add(1)
			go func(c *srv.Conn, cmds [][]string) {
				defer wg.Done()
				bad := func(v srv.Value, err error) {
					fmu.Lock()
					failed = fmt.Sprintf("%v %v", v.String(), err)
					fmu.Unlock()
				}
				if pipelined {
					var buf []byte
					for _, a := range cmds {
						buf = append(buf, srv.Encode(a...)...)
					}
					if err := c.WriteRaw(buf); err != nil {
						bad(srv.Value{}, err)
						return
					}
					for range cmds {
						if v, err := c.Read(); err != nil || v.String() != "+OK" {
							bad(v, err)
							return
						}
					}
				} else {
					for _, a := range cmds {
						if v, err := c.Do(a...); err != nil || v.String() != "+OK" {
							bad(v, err)
							return
						}
					}
				}
			}(ws[w], cmds)
		}
		wg.Wait()
	}
	// expiry bursts: several objects with the same deadline, so that one expiry pass deletes several
	// (every other round a long read holds the shared lock across the deadline, which makes the pass
	// late and its batch certain); a client DEL in between. Each logged del is owed one "del"
	// notification carrying ITS id.
	xrounds, xper := 3, 6
	if cfg.Tier == "thorough" || cfg.Search {
		xrounds, xper = 8, 10
	}
	for x := 0; x < xrounds && failed == ""; x++ {
		t0 := time.Now()
		const life = 300 * time.Millisecond
		for i := 0; i < xper; i++ {
			left := life - time.Since(t0)
			if left < 20*time.Millisecond {
				left = 20 * time.Millisecond
			}
			if v, err := ws[0].Do("SET", "fleet", fmt.Sprintf("x%de%d", x, i), "EX", fmt.Sprintf("%.4f", left.Seconds()), "POINT", "33", "-115"); err != nil || v.String() != "+OK" {
				failed = fmt.Sprintf("SET EX: %v %v", v.String(), err)
			}
			sent++
			inside += 2 // the set and, later, the del of the expiry pass
		}
		if v, err := ws[1].Do("SET", "fleet", fmt.Sprintf("x%dk", x), "POINT", "34", "-116"); err != nil || v.String() != "+OK" {
			failed = fmt.Sprintf("SET: %v %v", v.String(), err)
		}
		if v, err := ws[1].Do("DEL", "fleet", fmt.Sprintf("x%dk", x)); err != nil || v.String() != ":1" {
			failed = fmt.Sprintf("DEL: %v %v", v.String(), err)
		}
		sent += 2
		inside += 2
		if x%2 == 0 {
			time.Sleep(time.Until(t0.Add(life - 60*time.Millisecond)))
			ws[2].Timeout = 30 * time.Second
			if v, err := ws[2].Do("EVALRO", "local t = os.clock() while os.clock() - t < 0.5 do end return 'done'", "0"); err != nil || v.Str != "done" {
				failed = fmt.Sprintf("EVALRO: %v %v", v.String(), err)
			}
		}
		time.Sleep(time.Until(t0.Add(life + 500*time.Millisecond)))
	}
	// every acknowledged write inside the fence is owed one notification; wait for them (a loaded
	// machine may take a while), then a little longer for anything that should not come
	for dl := time.Now().Add(30 * time.Second); time.Now().Before(dl); time.Sleep(20 * time.Millisecond) {
		gmu.Lock()
		n := len(got)
		gmu.Unlock()
		if n >= inside {
			break
		}
	}
	time.Sleep(400 * time.Millisecond)
	sub.Close()
	<-done
	alive := s.Alive()
	s.Stop()
	if !alive || failed != "" {
		r.Fail(hx.Failure{Kind: "oracle", Signature: "server-died", What: "live fence run: writer failed (" + failed + ") / server log: " + s.LogTail(400)})
		return
	}
	raw, _ := os.ReadFile(filepath.Join(dir, "appendonly.aof"))
	aof, err := parseAOF(raw)
	if err != nil {
		r.Fail(hx.Failure{Kind: "oracle", Signature: "aof-unparsable", What: err.Error()})
		return
	}
	var want []string
	batch, maxBatch := 0, 0
	for _, e := range aof {
		if len(e) < 3 || e[1] != "fleet" {
			continue
		}
		switch {
		case strings.EqualFold(e[0], "SET"):
			batch = 0
			for i := 3; i+1 < len(e); i++ {
				if e[i] == "POINT" && !strings.HasPrefix(e[i+1], "10") {
					want = append(want, "set "+e[2])
				}
			}
		case strings.EqualFold(e[0], "DEL") && len(e) == 3:
			want = append(want, "del "+e[2])
			if e[0] == "del" { // written by the expiry pass
				batch++
				if batch > maxBatch {
					maxBatch = batch
				}
			} else {
				batch = 0
			}
		}
	}
	if len(got) != len(want) {
		r.Fail(hx.Failure{Kind: "oracle", Signature: "live-fence-count", What: fmt.Sprintf("the live fence connection received %d notifications for %d logged writes inside the fence", len(got), len(want))})
	} else {
		for i := range want {
			if got[i] != want[i] {
				lo, hi := i, i+8
				if hi > len(want) {
					hi = len(want)
				}
				r.Fail(hx.Failure{Kind: "oracle", Signature: "live-fence-order-vs-log",
					What: fmt.Sprintf("%d connections write SET fleet <id> POINT .. (bursts of %d pipelined / one at a time) while one connection holds INTERSECTS fleet FENCE DETECT inside BOUNDS 30 -120 40 -110: then SET fleet x<r>e<i> EX <one deadline> POINT 33 -115 (%d per round, a long EVALRO across the deadline every other round): notification #%d is %q, log position #%d (SETs inside the fence and dels) is %q; log order %q, fence order %q",
						writers, per, xper, i, got[i], i, want[i], want[lo:hi], got[lo:hi]),
					Case: map[string]interface{}{"writers": writers, "bursts": bursts, "per_burst": per}})
				break
			}
		}
	}
	r.Count(fmt.Sprintf("live fence order: %d writers x %d bursts x %d SETs, %d expiry rounds x %d, %d notifications", writers, bursts, per, xrounds, xper, len(got)), len(got) > writers*per && maxBatch >= 2)
	r.Extra["live_fence_largest_expiry_batch"] = maxBatch
	r.Dist("directed:live-fence-order")
	r.TracesImpl++
	r.Sample(1, map[string]interface{}{"directed": "live-fence-order", "writes": sent, "notifications": len(got)})
}
