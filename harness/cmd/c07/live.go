// Live fence connections are clients too: the notifications are their view of the writes, and it
// must be the order of the log. One connection opens a live geofence; several connections then
// write in bursts (pipelined packets, so that more than one write is waiting between writeAOF and
// the fence connection at a time) and one at a time. Oracle (no model): the ids in the notifications
// = the ids of the logged SETs on that key inside the fence, in the order of appendonly.aof, once.
package main

import (
	"fmt"
	"math/rand"
	"os"
	"path/filepath"
	"strings"
	"sync"
	"time"

	"github.com/tidwall/gjson"
	"verifharness/internal/hx"
	"verifharness/internal/srv"
)

func runLiveOrder(r *hx.Result, cfg hx.Config, rng *rand.Rand) {
	writers, bursts, per := 3, 4, 40
	if cfg.Tier == "thorough" || cfg.Search {
		writers, bursts, per = 5, 12, 100
	}
	dir := filepath.Join(cfg.Work, "live")
	s, err := srv.Start(dir)
	if err != nil {
		panic(err)
	}
	sub := s.MustDial()
	defer sub.Close()
	if v, err := sub.Do("INTERSECTS", "fleet", "FENCE", "DETECT", "inside", "BOUNDS", "30", "-120", "40", "-110"); err != nil || v.IsErr() {
		s.Stop()
		r.Fail(hx.Failure{Kind: "oracle", Signature: "live-setup", What: fmt.Sprintf("opening the live fence: %v %v", v.String(), err)})
		return
	}
	var got []string
	var gmu sync.Mutex
	done := make(chan struct{})
	go func() {
		defer close(done)
		sub.Timeout = 40 * time.Second
		for {
			v, err := sub.Read()
			if err != nil {
				return
			}
			if id := gjson.Get(v.Str, "id").String(); id != "" {
				gmu.Lock()
				got = append(got, id)
				gmu.Unlock()
			}
		}
	}()
	ws := make([]*srv.Conn, writers)
	for i := range ws {
		ws[i] = s.MustDial()
		defer ws[i].Close()
	}
	sent, inside := 0, 0
	failed := ""
	var fmu sync.Mutex
	for b := 0; b < bursts; b++ {
		pipelined := b%2 == 0
		var wg sync.WaitGroup
		for w := 0; w < writers; w++ {
			var cmds [][]string
			for i := 0; i < per; i++ {
				lat, lon := 31+8*rng.Float64(), -119+8*rng.Float64()
				if rng.Intn(5) == 0 {
					lat = 10 // outside the fence: no notification
				} else {
					inside++
				}
				cmds = append(cmds, []string{"SET", "fleet", fmt.Sprintf("b%dw%di%d", b, w, i), "POINT", fmt.Sprintf("%.4f", lat), fmt.Sprintf("%.4f", lon)})
			}
			sent += len(cmds)
			wg.Add(1)
			go func(c *srv.Conn, cmds [][]string) {
				defer wg.Done()
				bad := func(v srv.Value, err error) {
					fmu.Lock()
					failed = fmt.Sprintf("%v %v", v.String(), err)
					fmu.Unlock()
				}
				if pipelined {
					var buf []byte
					for _, a := range cmds {
						buf = append(buf, srv.Encode(a...)...)
					}
					if err := c.WriteRaw(buf); err != nil {
						bad(srv.Value{}, err)
						return
					}
					for range cmds {
						if v, err := c.Read(); err != nil || v.String() != "+OK" {
							bad(v, err)
							return
						}
					}
				} else {
					for _, a := range cmds {
						if v, err := c.Do(a...); err != nil || v.String() != "+OK" {
							bad(v, err)
							return
						}
					}
				}
			}(ws[w], cmds)
		}
		wg.Wait()
	}
	// every acknowledged write inside the fence is owed one notification; wait for them (a loaded
	// machine may take a while), then a little longer for anything that should not come
	for dl := time.Now().Add(30 * time.Second); time.Now().Before(dl); time.Sleep(20 * time.Millisecond) {
		gmu.Lock()
		n := len(got)
		gmu.Unlock()
		if n >= inside {
			break
		}
	}
	time.Sleep(400 * time.Millisecond)
	sub.Close()
	<-done
	alive := s.Alive()
	s.Stop()
	if !alive || failed != "" {
		r.Fail(hx.Failure{Kind: "oracle", Signature: "server-died", What: "live fence run: writer failed (" + failed + ") / server log: " + s.LogTail(400)})
		return
	}
	raw, _ := os.ReadFile(filepath.Join(dir, "appendonly.aof"))
	aof, err := parseAOF(raw)
	if err != nil {
		r.Fail(hx.Failure{Kind: "oracle", Signature: "aof-unparsable", What: err.Error()})
		return
	}
	var want []string
	for _, e := range aof {
		if len(e) == 6 && strings.EqualFold(e[0], "SET") && e[1] == "fleet" && !strings.HasPrefix(e[4], "10") {
			want = append(want, e[2])
		}
	}
	if len(got) != len(want) {
		r.Fail(hx.Failure{Kind: "oracle", Signature: "live-fence-count", What: fmt.Sprintf("the live fence connection received %d notifications for %d logged writes inside the fence", len(got), len(want))})
	} else {
		for i := range want {
			if got[i] != want[i] {
				lo, hi := i, i+8
				if hi > len(want) {
					hi = len(want)
				}
				r.Fail(hx.Failure{Kind: "oracle", Signature: "live-fence-order-vs-log",
					What: fmt.Sprintf("%d connections write SET fleet <id> POINT .. (bursts of %d pipelined / one at a time) while one connection holds INTERSECTS fleet FENCE DETECT inside BOUNDS 30 -120 40 -110: notification #%d is for %s, log position #%d (of the writes inside the fence) is %s; log order %v, fence order %v",
						writers, per, i, got[i], i, want[i], want[lo:hi], got[lo:hi]),
					Case: map[string]interface{}{"writers": writers, "bursts": bursts, "per_burst": per}})
				break
			}
		}
	}
	r.Count(fmt.Sprintf("live fence order: %d writers x %d bursts x %d SETs, %d notifications", writers, bursts, per, len(got)), len(got) > writers*per)
	r.Dist("directed:live-fence-order")
	r.TracesImpl++
	r.Sample(1, map[string]interface{}{"directed": "live-fence-order", "writes": sent, "notifications": len(got)})
}
