// Directed schedule: the background expiry while a long read holds the shared server lock.
//
// Objects are stored with a deadline; just after the deadline a read-only script keeps the shared
// lock for a while (any long SCAN does the same); while it runs, other connections store the same
// ids again WITHOUT a deadline. Whatever the expiry pass does, in the order of the log a `del`
// written by it must find an object that carries a deadline at that point (checkHistory:
// sweeper-deleted-live-object) and every reply must be the sequential model's.
package main

import (
	"fmt"
	"path/filepath"
	"sync"
	"time"

	"verifharness/internal/hx"
	"verifharness/internal/srv"
)

func runSweepUnderReader(r *hx.Result, cfg hx.Config) {
	rounds := 3
	if cfg.Tier == "thorough" || cfg.Search {
		rounds = 10
	}
	const nobj = 8
	dir := filepath.Join(cfg.Work, "sweep")
	s, err := srv.Start(dir) // sync.RWMutex variant: a queued writer goes before the low-priority expiry pass
	if err != nil {
		panic(err)
	}
	ops := make([][]*op, 2+nobj)
	var mu sync.Mutex
	do := func(ci int, c *srv.Conn, a ...string) string {
		o := &op{client: ci, args: a, idx: -1}
		o.send = time.Now()
		v, err := c.Do(a...)
		o.recv = time.Now()
		if err != nil {
			o.reply = "transport:" + err.Error()
		} else {
			o.reply = v.String()
		}
		if a[0] != "EVALRO" { // the lock holder is not part of the sequential model
			mu.Lock()
			ops[ci] = append(ops[ci], o)
			mu.Unlock()
		}
		return o.reply
	}
	ctl := s.MustDial()
	rd := s.MustDial()
	rd.Timeout = 30 * time.Second
	ws := make([]*srv.Conn, nobj)
	for i := range ws {
		ws[i] = s.MustDial()
	}
	longReads := 0
	for round := 0; round < rounds; round++ {
		key := fmt.Sprintf("fleet%d", round)
		// shift the rounds against the (unobservable) phase of the 1/5 s expiry loop
		time.Sleep(time.Duration(round*70) * time.Millisecond)
		t0 := time.Now()
		const life = 300 * time.Millisecond
		for i := 0; i < nobj; i++ {
			left := life - time.Since(t0)
			if left < 20*time.Millisecond {
				left = 20 * time.Millisecond
			}
			do(0, ctl, "SET", key, fmt.Sprintf("t%d", i), "EX", fmt.Sprintf("%.4f", left.Seconds()), "STRING", fmt.Sprintf("a%d.%d", round, i))
		}
		time.Sleep(time.Until(t0.Add(life + 5*time.Millisecond)))
		var wg sync.WaitGroup
		wg.Add(1)
		go func() {
			defer wg.Done()
			if rep := do(1, rd, "EVALRO", "local t = os.clock() while os.clock() - t < 0.7 do end return 'done'", "0"); rep == `$"done"` {
				longReads++
			}
		}()
		// well inside the read, and after at least one expiry period: the ids again, no deadline
		time.Sleep(time.Until(t0.Add(life + 330*time.Millisecond)))
		for i := 0; i < nobj; i++ {
			wg.Add(1)
			go func(i int) {
				defer wg.Done()
				do(2+i, ws[i], "SET", key, fmt.Sprintf("t%d", i), "STRING", fmt.Sprintf("b%d.%d", round, i))
			}(i)
		}
		wg.Wait()
		// let the expiry pass that was waiting run, then look
		time.Sleep(450 * time.Millisecond)
		for i := 0; i < nobj; i++ {
			do(0, ctl, "GET", key, fmt.Sprintf("t%d", i))
		}
	}
	alive := s.Alive()
	s.Stop()
	if !alive {
		r.Fail(hx.Failure{Kind: "oracle", Signature: "server-died", What: "the server exited during the expiry schedule: " + s.LogTail(600)})
		return
	}
	// GET of a missing id answers nil here; checkHistory's model says "nil" too
	for ci := range ops {
		for _, o := range ops[ci] {
			if o.args[0] == "GET" && (o.reply == "nil" || o.reply == "-ERR id not found" || o.reply == "-ERR key not found" || o.reply == "-id not found" || o.reply == "-key not found") {
				o.reply = "nil"
			}
		}
	}
	res, ok := checkHistory(r, dir, ops, map[string]interface{}{"schedule": "SET EX; long EVALRO just after the deadline; SET without EX during it; GET afterwards", "rounds": rounds})
	if !ok {
		return
	}
	r.Count(fmt.Sprintf("expiry under a long read: %d rounds, %d logged writes (%d by the expiry pass), %d other replies placed", rounds, res.writes, res.sweeps, res.checked), longReads > 0 && res.writes > 0)
	r.Dist("directed:expiry-under-long-read")
	r.TracesImpl++
	r.Sample(1, map[string]interface{}{"directed": "expiry-under-long-read", "rounds": rounds, "logged_writes": res.writes, "sweeper_deletes": res.sweeps})
}
