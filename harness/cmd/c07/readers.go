// Concurrent readers on an unchanging dataset.
//
// C07: "every reply is what the sequential model returns at some instant between the command's
// send and its reply". When nothing writes, the sequential model has one answer per command for the
// whole run, and the server itself gives it when the commands are sent one at a time. Read commands
// run side by side under the shared server lock; whatever scratch state they share (expression
// contexts, Lua states, script caches, cursors, buffers) must not leak from one to the other.
// Oracle (no model involved): the reply of a read command sent while 8+ other connections are
// reading = the reply of the same command sent alone, for every filter form.
package main

import (
	"fmt"
	"math/rand"
	"path/filepath"
	"strconv"
	"strings"
	"sync"
	"sync/atomic"
	"time"

	"verifharness/internal/hx"
	"verifharness/internal/srv"
)

type readCmd struct {
	form string
	args []string
}

func short(s string) string {
	if len(s) > 160 {
		return s[:160] + fmt.Sprintf("...(%d bytes)", len(s))
	}
	return s
}

func readerCommands(rng *rand.Rand, keys []string) []readCmd {
	var out []readCmd
	add := func(form string, a ...string) { out = append(out, readCmd{form, a}) }
	for _, k := range keys {
		lo := rng.Intn(10)
		hi := lo + 3 + rng.Intn(8)
		th := strconv.Itoa(3 + rng.Intn(12))
		// every filter form on SCAN
		add("where-range", "SCAN", k, "WHERE", "x", strconv.Itoa(lo), strconv.Itoa(hi), "COUNT")
		add("where-expr", "SCAN", k, "WHERE", "x > "+th, "COUNT")
		add("where-expr", "SCAN", k, "WHERE", "x > "+th+" && y < 50", "LIMIT", "100000", "IDS")
		add("where-expr", "SCAN", k, "WHERE", "(x * 2 + y) % 7 == 3 || x == "+th, "COUNT")
		add("wherein", "SCAN", k, "WHEREIN", "x", "3", th, strconv.Itoa(lo), strconv.Itoa(hi), "COUNT")
		add("whereeval", "SCAN", k, "WHEREEVAL", "return (FIELDS.x or 0) > tonumber(ARGV[1])", "1", th, "COUNT")
		// a filter script has no business calling into the server: the call must be refused whatever
		// ran on that interpreter before (the pool is shared with EVAL/EVALNA/EVALRO)
		add("whereeval/call", "SCAN", k, "WHEREEVAL", "tile38.pcall('SET', 'leak', ARGV[1], 'STRING', 'v') return (FIELDS.y or 0) < 50", "1", "w"+th, "LIMIT", "40", "COUNT")
		add("match", "SCAN", k, "MATCH", fmt.Sprintf("p%d*", rng.Intn(10)), "COUNT")
		add("match+where-expr", "SCAN", k, "MATCH", fmt.Sprintf("p*%d", rng.Intn(10)), "WHERE", "y >= "+th, "COUNT")
		// expression operators that go through the extender callbacks (regex cache, match)
		add("where-expr/regex", "SCAN", k, "WHERE", fmt.Sprintf("id =~ 'p0[0-%d].*' && x > %s", 1+rng.Intn(3), th), "COUNT")
		add("where-expr/match", "SCAN", k, "WHERE", fmt.Sprintf("id.match('p*%d') || y == %s", rng.Intn(10), th), "COUNT")
		// the geometric searches with the same filters
		add("within/where-expr", "WITHIN", k, "WHERE", "x <= "+th, "COUNT", "BOUNDS", "10", "10", "40", "40")
		add("within/where-range", "WITHIN", k, "WHERE", "y", strconv.Itoa(lo*5), strconv.Itoa(hi*5), "LIMIT", "100000", "IDS", "BOUNDS", "0", "0", "30", "50")
		add("intersects/where-expr", "INTERSECTS", k, "WHERE", "x != "+th+" && y != 7", "COUNT", "BOUNDS", "20", "5", "50", "45")
		add("intersects/wherein", "INTERSECTS", k, "WHEREIN", "y", "4", "1", "2", "3", th, "COUNT", "CIRCLE", "25", "25", "1500000")
		add("nearby/where-expr", "NEARBY", k, "WHERE", "x > "+th, "LIMIT", "60", "IDS", "POINT", "25", "25")
		add("nearby/whereeval", "NEARBY", k, "WHEREEVAL", "return (FIELDS.y or 0) % 2 == 0", "0", "LIMIT", "40", "IDS", "POINT", strconv.Itoa(10+rng.Intn(30)), "30")
		// through a read-only script
		add("evalro/where-expr", "EVALRO", "return tile38.call('SCAN', KEYS[1], 'WHERE', ARGV[1], 'COUNT')", "1", k, "x > "+th)
		add("evalro/where-range", "EVALRO", "local r = tile38.call('SCAN', KEYS[1], 'WHERE', 'x', ARGV[1], ARGV[2], 'COUNT') return r", "1", k, strconv.Itoa(lo), strconv.Itoa(hi))
	}
	// string objects
	add("search/match", "SEARCH", "names", "MATCH", "n1*", "COUNT")
	add("search/where-expr", "SEARCH", "names", "WHERE", "x > 4", "COUNT")
	add("search/ids", "SEARCH", "names", "MATCH", "n*7", "LIMIT", "100000", "IDS")
	return out
}

func runReaders(r *hx.Result, cfg hx.Config, rng *rand.Rand) {
	nobj, conns, rounds := 2500, 10, 3
	if cfg.Tier == "thorough" || cfg.Search {
		nobj, conns, rounds = 12000, 12, 8
	}
	dir := filepath.Join(cfg.Work, "readers")
	s, err := srv.Start(dir, "--appendonly", "no")
	if err != nil {
		panic(err)
	}
	defer s.Stop()
	// load: two collections of points whose fields differ object by object and collection by
	// collection, one collection of strings
	c := s.MustDial()
	defer c.Close()
	keys := []string{"hot", "cold"}
	var buf []byte
	n := 0
	flush := func() bool {
		if err := c.WriteRaw(buf); err != nil {
			return false
		}
		for ; n > 0; n-- {
			if v, err := c.Read(); err != nil || v.IsErr() {
				r.Fail(hx.Failure{Kind: "oracle", Signature: "readers-setup", What: fmt.Sprintf("load failed: %v %v", v.String(), err)})
				return false
			}
		}
		buf = buf[:0]
		return true
	}
	for ki, k := range keys {
		for i := 0; i < nobj; i++ {
			x := (i*7 + ki*11) % 20
			if ki == 1 && i%3 != 0 {
				x = 0
			}
			y := (i * 13) % 100
			lat := float64((i*37)%5000) / 100
			lon := float64((i*91)%5000) / 100
			buf = append(buf, srv.Encode("SET", k, fmt.Sprintf("p%05d", i), "FIELD", "x", strconv.Itoa(x), "FIELD", "y", strconv.Itoa(y),
				"POINT", strconv.FormatFloat(lat, 'f', 2, 64), strconv.FormatFloat(lon, 'f', 2, 64))...)
			n++
			if n == 500 && !flush() {
				return
			}
		}
	}
	for i := 0; i < nobj/2; i++ {
		buf = append(buf, srv.Encode("SET", "names", fmt.Sprintf("n%05d", i), "FIELD", "x", strconv.Itoa(i%9), "STRING", fmt.Sprintf("v%d", i))...)
		n++
		if n == 500 && !flush() {
			return
		}
	}
	if !flush() {
		return
	}
	cmds := readerCommands(rng, keys)
	// scripts of every kind have run on the pooled interpreters before the reads start
	for _, a := range [][]string{{"EVAL", "return tile38.call('GET', 'names', 'n00001')", "0"}, {"EVALRO", "return 1", "0"},
		{"EVALNA", "return tile38.call('GET', 'names', 'n00002')", "0"}, {"EVAL", "return 1", "0"}} {
		if v, err := c.Do(a...); err != nil || v.IsErr() {
			r.Fail(hx.Failure{Kind: "oracle", Signature: "readers-setup", What: fmt.Sprintf("%q: %v %v", a, v.String(), err)})
			return
		}
	}
	snapshot := func() string {
		v, err := c.Do("KEYS", "*")
		if err != nil {
			return "transport:" + err.Error()
		}
		out := v.String()
		for _, k := range v.Array {
			w, _ := c.Do("SCAN", k.Str, "COUNT")
			out += " " + k.Str + "=" + w.String()
		}
		return out
	}
	before := snapshot()
	// one at a time: the only possible answers
	want := make([]string, len(cmds))
	for i, cm := range cmds {
		v, err := c.Do(cm.args...)
		if err != nil {
			r.Fail(hx.Failure{Kind: "oracle", Signature: "readers-setup", What: fmt.Sprintf("%q alone: %v", cm.args, err)})
			return
		}
		want[i] = v.String()
		if v.IsErr() {
			r.Fail(hx.Failure{Kind: "oracle", Signature: "readers-setup", What: fmt.Sprintf("%q alone: %s", cm.args, want[i])})
			return
		}
	}
	// all at once
	type bad struct {
		conn, idx int
		got       string
	}
	var mu sync.Mutex
	var bads []bad
	var inflightMax, inflight, total int64
	var wg sync.WaitGroup
	start := make(chan struct{})
	seeds := make([]int64, conns)
	for i := range seeds {
		seeds[i] = rng.Int63()
	}
	for ci := 0; ci < conns; ci++ {
		wg.Add(1)
		go func(ci int) {
			defer wg.Done()
			lr := rand.New(rand.NewSource(seeds[ci]))
			cc, err := s.Dial()
			if err != nil {
				return
			}
			defer cc.Close()
			cc.Timeout = 60 * time.Second
			<-start
			for round := 0; round < rounds; round++ {
				for _, i := range lr.Perm(len(cmds)) {
					k := atomic.AddInt64(&inflight, 1)
					for {
						m := atomic.LoadInt64(&inflightMax)
						if k <= m || atomic.CompareAndSwapInt64(&inflightMax, m, k) {
							break
						}
					}
					v, err := cc.Do(cmds[i].args...)
					atomic.AddInt64(&inflight, -1)
					atomic.AddInt64(&total, 1)
					got := v.String()
					if err != nil {
						got = "transport:" + err.Error()
					}
					if got != want[i] {
						mu.Lock()
						bads = append(bads, bad{ci, i, got})
						mu.Unlock()
						if err != nil {
							return
						}
					}
				}
				mu.Lock()
				stop := len(bads) > 40
				mu.Unlock()
				if stop {
					return
				}
			}
		}(ci)
	}
	close(start)
	wg.Wait()
	if !s.Alive() {
		r.Fail(hx.Failure{Kind: "oracle", Signature: "server-died", What: "the server exited while " + strconv.Itoa(conns) + " connections were reading: " + s.LogTail(600)})
		return
	}
	// read commands leave the dataset as it was
	if after := snapshot(); after != before {
		r.Fail(hx.Failure{Kind: "oracle", Signature: "read-commands-changed-the-dataset",
			What: fmt.Sprintf("only read commands (SCAN/SEARCH/WITHIN/INTERSECTS/NEARBY/EVALRO, among them %s) were sent after EVAL / EVALRO / EVALNA scripts had run on the pooled interpreters; KEYS * with object counts before: %s; after: %s",
				strings.Join(quoteAll(cmds[firstForm(cmds, "whereeval/call")].args), " "), short(before), short(after))})
	}
	// the dataset did not change: the answers alone are still the same
	for i, cm := range cmds {
		v, err := c.Do(cm.args...)
		if err != nil || v.String() != want[i] {
			r.Fail(hx.Failure{Kind: "oracle", Signature: "readers-dataset-changed", What: fmt.Sprintf("%q alone, after the concurrent phase: %s, before: %s (%v)", cm.args, short(v.String()), short(want[i]), err)})
			return
		}
	}
	seen := map[string]bool{}
	for _, b := range bads {
		cm := cmds[b.idx]
		if seen[cm.form] {
			continue
		}
		seen[cm.form] = true
		r.Fail(hx.Failure{Kind: "oracle", Signature: "concurrent-readers-reply-differs:" + cm.form,
			What: fmt.Sprintf("nothing writes; %d connections read at the same time; connection %d: %s replied %s, the same command sent alone (before and after) replies %s (%d of %d concurrent replies differ)",
				conns, b.conn, strings.Join(quoteAll(cm.args), " "), short(b.got), short(want[b.idx]), len(bads), total),
			Case: map[string]interface{}{"connections": conns, "objects_per_collection": nobj, "command": cm.args}})
	}
	forms := map[string]bool{}
	for _, cm := range cmds {
		forms[cm.form] = true
		r.Dist("readers:" + strings.SplitN(cm.form, "/", 2)[0])
	}
	r.Count(fmt.Sprintf("concurrent readers: %d connections x %d rounds x %d commands (%d filter forms), %d objects per collection", conns, rounds, len(cmds), len(forms), nobj),
		inflightMax >= 4)
	r.TracesImpl++
	r.Sample(1, map[string]interface{}{"concurrent_readers": conns, "commands": len(cmds), "replies_compared": total, "max_in_flight": inflightMax, "differing": len(bads)})
}

func firstForm(cmds []readCmd, form string) int {
	for i, c := range cmds {
		if c.form == form {
			return i
		}
	}
	return 0
}

func quoteAll(a []string) []string {
	out := make([]string, len(a))
	for i, s := range a {
		if strings.ContainsAny(s, " '\"") {
			out[i] = strconv.Quote(s)
		} else {
			out[i] = s
		}
	}
	return out
}
