package main

import (
	"encoding/json"
	"fmt"
	"math"
	"os"
	"math/rand"
	"path/filepath"
	"reflect"
	"sort"
	"strconv"
	"strings"
	"time"

	"github.com/tidwall/tile38/verifapi"
	"verifharness/internal/fencex"
	"verifharness/internal/hx"
	"verifharness/internal/model"
	"verifharness/internal/srv"
)

func main() { hx.Main("C20", runC20) }

// below this radius geo.RectFromCenter collapses to the centre point (cos(r/R) rounds to 1):
// hypothesis Hr is only claimed from here upwards (open finding C20-tiny-radius)
const rminMeters = 0.3

type pos struct{ lat, lon float64 }

// stored geometry of an id: a point at the position, or a rectangle / triangle / line around it
// (for those, Center() and Distance() are those of the bounding rectangle's centre)
type shape struct {
	kind string // "" point | bounds | tri | line
	h    float64
}

var shapes = map[string]shape{} // key/id -> shape

func gjOf(sh shape, p pos) string {
	switch sh.kind {
	case "tri":
		return fmt.Sprintf(`{"type":"Polygon","coordinates":[[[%s,%s],[%s,%s],[%s,%s],[%s,%s]]]}`,
			ff(p.lon-sh.h), ff(p.lat-sh.h), ff(p.lon+sh.h), ff(p.lat-sh.h), ff(p.lon), ff(p.lat+sh.h), ff(p.lon-sh.h), ff(p.lat-sh.h))
	case "line":
		return fmt.Sprintf(`{"type":"LineString","coordinates":[[%s,%s],[%s,%s]]}`, ff(p.lon-sh.h), ff(p.lat-sh.h/2), ff(p.lon+sh.h), ff(p.lat+sh.h/2))
	}
	return ""
}

func specOf(key, id string, p pos) verifapi.FenceObj {
	sh := shapes[key+"/"+id]
	switch sh.kind {
	case "bounds":
		return verifapi.FenceObj{Kind: "bounds", MinLat: p.lat - sh.h, MinLon: p.lon - sh.h, MaxLat: p.lat + sh.h, MaxLon: p.lon + sh.h}
	case "tri", "line":
		return verifapi.FenceObj{Kind: "json", JSON: gjOf(sh, p)}
	}
	return verifapi.FenceObj{Kind: "point", Lat: p.lat, Lon: p.lon}
}

func setGeom(key, id string, p pos) []string {
	sh := shapes[key+"/"+id]
	switch sh.kind {
	case "bounds":
		return []string{"BOUNDS", ff(p.lat - sh.h), ff(p.lon - sh.h), ff(p.lat + sh.h), ff(p.lon + sh.h)}
	case "tri", "line":
		return []string{"OBJECT", gjOf(sh, p)}
	}
	return []string{"POINT", ff(p.lat), ff(p.lon)}
}

// the object member of a message against the stored geometry
func sameObject(raw json.RawMessage, key, id string, p pos) bool {
	sh := shapes[key+"/"+id]
	switch sh.kind {
	case "":
		lat, lon, ok := fencex.PointCoords(raw)
		return ok && lat == p.lat && lon == p.lon
	case "bounds":
		return strings.Contains(string(raw), `"Polygon"`) && strings.Contains(string(raw), ff(p.lat-sh.h))
	}
	var a, b interface{}
	return json.Unmarshal(raw, &a) == nil && json.Unmarshal([]byte(gjOf(sh, p)), &b) == nil && reflect.DeepEqual(a, b)
}

type roamFence struct {
	name    string
	kind    string // chan | hook | live
	pattern string
	nodwell bool
	meters  float64
	detect  string // "" = no DETECT clause
	scan    string // ROAM key pattern meters SCAN glob
	offKey  bool   // re-defined to fence another key (NEARBY <key>-off ...): silent for this round's SETs
	deleted bool   // DELCHAN / DELHOOK issued, not re-created yet
	// case-only variations of the definition (every one is a different definition: Hook.Equals is byte-identity)
	kwLower     bool   // keywords in lower case (nearby ... fence ... roam)
	roamKeyCase bool   // roam key with its letters' case swapped: another (absent) collection
	metaName    string // META <metaName> <metaVal> before the command ("" = none)
	metaVal     string
	epCase      bool // webhook endpoint ...?v=A instead of ...?v=a
}

func swapCase(s string) string {
	b := []byte(s)
	for i, c := range b {
		switch {
		case c >= 'a' && c <= 'z':
			b[i] = c - 32
		case c >= 'A' && c <= 'Z':
			b[i] = c + 32
		}
	}
	return string(b)
}

// the collection a fence roams, as it is defined now
func roamKeyOf(rd *round, f *roamFence) string {
	if f.roamKeyCase {
		return swapCase(rd.roamKey)
	}
	return rd.roamKey
}

// what SETHOOK / SETCHAN stores of a definition and Hook.Equals compares (Model.HookDef.hdef)
type hookDef struct {
	key, name string
	endpoints []string
	metas     [][2]string
	args      []string
}

func (d hookDef) tokens() []string {
	t := []string{model.H(d.key), model.H(d.name), "0", "E"}
	for _, e := range d.endpoints {
		t = append(t, model.H(e))
	}
	t = append(t, "M")
	for _, m := range d.metas {
		t = append(t, model.H(m[0])+":"+model.H(m[1]))
	}
	t = append(t, "A")
	for _, a := range d.args {
		t = append(t, model.H(a))
	}
	return t
}

// a re-definition of a fence under its own name, between two SETs
type redef struct {
	fence   int    // index into round.fences
	mod     string // radius | pattern | nodwell | key | same | delset | del | kind | detect
	meters  float64
	pattern string
}

type step struct {
	id  string
	p   pos
	cat string // "redef": no SET, the id is an index into round.redefs
}

type entry struct {
	kind   string // nearby | faraway
	id     string
	meters string
}

func ff(v float64) string { return strconv.FormatFloat(v, 'f', -1, 64) }

func metersText(d float64) string {
	return strconv.FormatFloat(math.Floor(d*1000)/1000, 'f', -1, 64)
}

// the property's notion of "pattern-matching", stated without the implementation's IsGlob: an id
// pattern with a wildcard ('*', '?' or a '[' class) selects the ids glob.Match accepts, a pattern
// without one names exactly one id (c20_idmatch_all_patterns_partial / c20_idmatch_plain)
func idMatches(pattern, id string) bool {
	if !strings.ContainsAny(pattern, "*?[") {
		return pattern == id
	}
	ok, _ := verifapi.GlobMatch(pattern, id)
	return ok
}

// wildcard class of an id pattern, for the input distribution
func patternClass(p string) string {
	var cl []string
	for _, c := range []struct{ ch, name string }{{"*", "star"}, {"?", "qmark"}, {"[", "class"}, {"\\", "escape"}} {
		if strings.Contains(p, c.ch) {
			cl = append(cl, c.name)
		}
	}
	if len(cl) == 0 {
		return "literal"
	}
	return strings.Join(cl, "+")
}

// id patterns of every wildcard class, over the ids of the fleets below
var roamPatterns = []string{
	"*", "*", "car*", "c*[0-2]", "*s?", // star (alone / with others)
	"car?", "bus?", "???", "c??", "?", "car?-?", "????", // '?' only
	"car[0-2]", "bus[01]", "[bc]a[rb][0-9]", "ca[^a]", // classes only
	"[bc]*", "?us*", "c[a]r?", "[bc]??", // mixed
	`c\ar?`, `\car*`, `ca\r[0-9]`, `car\1`, `\b\u\s?`, // escapes: with a wildcard, and alone (= an exact id that no object has)
	"car1", "bus0", "b", // literal ids
}

// checkIsGlob: the pattern-vs-literal decision itself.  (a) correspondence: glob.IsGlob vs
// Model.Roam.is_glob; (b) direct oracle for c20_isglob_false_shortcut_exact: when IsGlob says
// "literal" for a pattern that passes the probe and has no escape, glob.Match must accept exactly
// the pattern itself - otherwise the literal comparison of fenceMatchNearbys drops ids the pattern selects
func checkIsGlob(r *hx.Result, drv *model.Driver, p string) {
	impl := verifapi.GlobIsGlob(p)
	r.Dist("isglob:" + patternClass(p))
	r.Count("isglob|"+p, impl)
	if mod := drv.Ask("isglob", model.H(p)); mod != model.B(impl) {
		r.Fail(hx.Failure{Kind: "correspondence", Signature: "roam-isglob-model", What: "glob.IsGlob differs from Model.Roam.is_glob",
			Case: map[string]interface{}{"pattern": p, "hex": model.H(p)}, Impl: impl, Model: mod})
	}
	if _, err := verifapi.GlobMatch(p, "whatever"); impl || err != nil || strings.Contains(p, "\\") {
		return
	}
	subst := func(with string) string {
		return strings.NewReplacer("*", with, "?", with, "[", with, "]", with).Replace(p)
	}
	for _, cand := range []string{p, subst("a"), subst("1"), subst(""), p + "a"} {
		if ok, _ := verifapi.GlobMatch(p, cand); ok != (p == cand) {
			r.Fail(hx.Failure{Kind: "oracle", Signature: "roam-literal-shortcut",
				What: fmt.Sprintf("glob.IsGlob(%q) = false, so a ROAM fence compares ids with %q literally, but glob.Match(%q, %q) = %v: the fence NEARBY k FENCE ROAM k %s <m> does not report the matching id %q", p, p, p, cand, ok, p, cand),
				Case: map[string]interface{}{"pattern": p, "id": cand}, Impl: ok})
			return
		}
	}
}

// a random id pattern over a small alphabet rich in glob syntax
func randomPattern(rng *rand.Rand) string {
	alpha := []string{"a", "b", "c", "1", "-", "*", "?", "[", "]", "\\", "^", "\xc3\xa9"}
	n := 1 + rng.Intn(6)
	var sb strings.Builder
	for i := 0; i < n; i++ {
		if rng.Intn(3) == 0 {
			sb.WriteString(alpha[rng.Intn(len(alpha))])
		} else {
			sb.WriteString(alpha[rng.Intn(5)])
		}
	}
	return sb.String()
}

func inSearchRect(c verifapi.FenceObj, r float64, o verifapi.FenceObj) bool {
	clat, clon := verifapi.FenceObjCenter(c)
	minLat, minLon, maxLat, maxLon := verifapi.RectFromCenter(clat, clon, r)
	return verifapi.FenceHitObj("intersects", verifapi.FenceArea{Kind: "bounds", MinLat: minLat, MinLon: minLon, MaxLat: maxLat, MaxLon: maxLon}, o)
}

func bits(d float64) string { return strconv.FormatUint(math.Float64bits(d), 10) }

type expectation struct {
	oracle       []entry // sorted by (kind, id): direct oracle, property text
	oracleRect   []entry // the same, but seeing only what lies inside the search rectangles
	model        []entry // sequence predicted by the extracted model
	modelRaw     string
	boundary     bool
	cornerCount  int // neighbours inside the search rectangle but outside the circle
	hrViolations []string
	dNew         map[string]float64
	dRev         map[string]float64
	col          map[string]pos
}

// expect computes, for one fence and one SET, the direct oracle and the model's prediction.
func expect(drv *model.Driver, f roamFence, mkey, rkey, mover string, old *pos, np pos, col map[string]pos, regOps []string) expectation {
	ms := specOf(mkey, mover, np)
	var mo verifapi.FenceObj
	if old != nil {
		mo = specOf(mkey, mover, *old)
	}
	var e expectation
	e.dNew = map[string]float64{}
	e.dRev = map[string]float64{}
	e.col = col
	ids := make([]string, 0, len(col))
	for id := range col {
		ids = append(ids, id)
	}
	sort.Strings(ids)
	req := []string{"roam", model.H(f.pattern), bits(f.meters), model.B(f.nodwell), model.B(f.detect == ""), model.H(mover), model.B(old != nil)}
	for _, id := range ids {
		o := specOf(rkey, id, col[id])
		dNew := verifapi.FenceObjDistance(ms, o)
		dRev := verifapi.FenceObjDistance(o, ms)
		dOld := 0.0
		inOld := false
		if old != nil {
			dOld = verifapi.FenceObjDistance(mo, o)
			inOld = inSearchRect(mo, f.meters, o)
		}
		inNew := inSearchRect(ms, f.meters, o)
		e.dNew[id] = dNew
		e.dRev[id] = dRev
		near := func(d float64) bool { return math.Abs(d-f.meters) <= 1e-9*f.meters }
		if id != mover && (near(dNew) || near(dRev) || (old != nil && near(dOld))) {
			e.boundary = true
		}
		if id != mover {
			if f.meters >= rminMeters && dNew <= f.meters && !inNew {
				e.hrViolations = append(e.hrViolations, fmt.Sprintf("%s: %.6f m from the new position (radius %g) but outside RectFromCenter", id, dNew, f.meters))
			}
			if f.meters >= rminMeters && old != nil && dOld <= f.meters && !inOld {
				e.hrViolations = append(e.hrViolations, fmt.Sprintf("%s: %.6f m from the old position (radius %g) but outside RectFromCenter", id, dOld, f.meters))
			}
			if inNew && dNew > f.meters {
				e.cornerCount++
			}
		}
		req = append(req, model.H(id), model.B(inOld), model.B(inNew), bits(dOld), bits(dNew), bits(dRev))
		// direct oracle: the property text (a fence that is not defined at the moment, or that has
		// been re-defined for another key, has nothing to report for this SET)
		if id == mover || !idMatches(f.pattern, id) || f.detect != "" || f.deleted || f.offKey {
			continue
		}
		wasNear := old != nil && dOld <= f.meters
		isNear := dNew <= f.meters
		if isNear && !(f.nodwell && wasNear) {
			e.oracle = append(e.oracle, entry{"nearby", id, metersText(dNew)})
		}
		if wasNear && !isNear {
			e.oracle = append(e.oracle, entry{"faraway", id, metersText(dRev)})
		}
		wasNearR, isNearR := wasNear && inOld, isNear && inNew
		if isNearR && !(f.nodwell && wasNearR) {
			e.oracleRect = append(e.oracleRect, entry{"nearby", id, metersText(dNew)})
		}
		if wasNearR && !isNearR {
			e.oracleRect = append(e.oracleRect, entry{"faraway", id, metersText(dRev)})
		}
	}
	sortEntries(e.oracle)
	sortEntries(e.oracleRect)
	e.modelRaw = drv.Ask(req...)
	if strings.HasPrefix(e.modelRaw, "ok") {
		for _, t := range strings.Fields(e.modelRaw)[1:] {
			p := strings.Split(t, ":")
			b, _ := strconv.ParseUint(p[2], 10, 64)
			e.model = append(e.model, entry{p[0], model.U(p[1]), metersText(math.Float64frombits(b))})
		}
	}
	// hooks and channels are only evaluated when getQueueCandidates selects them: the registry model
	// (Model.HookReg / HookRegOps) run over this round's history of SETCHAN / SETHOOK / DELCHAN / DELHOOK
	if f.kind != "live" {
		sel := drv.Ask(append([]string{"regsel", model.H(f.name), model.H(mkey)}, regOps...)...)
		switch sel {
		case "1":
		case "0":
			e.model = nil
		default:
			e.modelRaw = "regsel: " + sel
		}
	}
	return e
}

// the bulk strings of a reply, depth first
func flattenValue(v srv.Value) []string {
	if v.Kind == '*' {
		var out []string
		for _, x := range v.Array {
			out = append(out, flattenValue(x)...)
		}
		return out
	}
	return []string{v.Str}
}

func containsSeq(hay, needle []string) bool {
	for i := 0; i+len(needle) <= len(hay); i++ {
		ok := true
		for j := range needle {
			if hay[i+j] != needle[j] {
				ok = false
				break
			}
		}
		if ok {
			return true
		}
	}
	return false
}

// fenceArgs: the arguments of SETCHAN name / SETHOOK name url / a live NEARBY for the fence as defined now
func fenceArgs(rd *round, f *roamFence) []string {
	key := rd.key
	if f.offKey {
		key += "-off"
	}
	kw := func(w string) string {
		if f.kwLower {
			return strings.ToLower(w)
		}
		return w
	}
	args := []string{kw("NEARBY"), key}
	if f.detect != "" {
		args = append(args, kw("DETECT"), f.detect)
	}
	args = append(args, kw("FENCE"))
	if f.nodwell {
		args = append(args, kw("NODWELL"))
	}
	args = append(args, kw("ROAM"), roamKeyOf(rd, f), f.pattern, ff(f.meters))
	if f.scan != "" {
		args = append(args, kw("SCAN"), f.scan)
	}
	return args
}

// the META clause in front of the command
func metaArgs(f *roamFence) []string {
	if f.metaName == "" {
		return nil
	}
	return []string{"META", f.metaName, f.metaVal}
}

// regSet: the registry-history token of a SETCHAN / SETHOOK (see ocaml/roam/handlers.ml, regsel)
func regSet(rd *round, f *roamFence, chan_, equal bool) string {
	key := rd.key
	if f.offKey {
		key += "-off"
	}
	return strings.Join([]string{"S", model.H(f.name), model.B(chan_), model.H(key), model.B(f.detect == ""), model.B(equal)}, ",")
}

func sortEntries(l []entry) {
	sort.Slice(l, func(i, j int) bool {
		if l[i].kind != l[j].kind {
			return l[i].kind > l[j].kind // nearby before faraway
		}
		return l[i].id < l[j].id
	})
}

func entriesOf(msgs []fencex.Msg) []entry {
	var out []entry
	for _, m := range msgs {
		switch {
		case m.Nearby != nil:
			out = append(out, entry{"nearby", m.Nearby.ID, m.Nearby.Meters.String()})
		case m.Faraway != nil:
			out = append(out, entry{"faraway", m.Faraway.ID, m.Faraway.Meters.String()})
		default:
			out = append(out, entry{"plain:" + m.Command + ":" + m.Detect, m.ID, ""})
		}
	}
	return out
}

func entStr(l []entry) string {
	var sb strings.Builder
	for i, e := range l {
		if i > 0 {
			sb.WriteByte(' ')
		}
		sb.WriteString(e.kind + ":" + e.id + ":" + e.meters)
	}
	return sb.String()
}

func idSet(l []entry, kind string) string {
	var ids []string
	for _, e := range l {
		if e.kind == kind {
			ids = append(ids, e.id)
		}
	}
	sort.Strings(ids)
	return strings.Join(ids, ",")
}

// positions stay inside this window: beyond it geo.RectFromCenter wraps around the antimeridian / the
// poles (maxLon < centre), the offsets below would be scaled by a negative width and land on longitudes
// such as -514 (which SET accepts), far outside what the property speaks about
func inWindow(p pos) bool { return math.Abs(p.lon) <= 172 && math.Abs(p.lat) <= 80 }

// offset of a new position relative to an anchor, by category, for a circle of radius r; an offset
// that would leave the window is mirrored through the anchor (same category by symmetry)
func place(rng *rand.Rand, anchor pos, r float64, cat string) pos {
	p := placeRaw(rng, anchor, r, cat)
	if !inWindow(p) {
		p = pos{2*anchor.lat - p.lat, 2*anchor.lon - p.lon}
	}
	if !inWindow(p) {
		return anchor
	}
	return p
}

func placeRaw(rng *rand.Rand, anchor pos, r float64, cat string) pos {
	_, _, maxLat, maxLon := verifapi.RectFromCenter(anchor.lat, anchor.lon, r)
	dLat, dLon := maxLat-anchor.lat, maxLon-anchor.lon
	sg := func() float64 {
		if rng.Intn(2) == 0 {
			return -1
		}
		return 1
	}
	u := func(a, b float64) float64 { return a + rng.Float64()*(b-a) }
	switch cat {
	case "corner": // inside the search rectangle, outside the circle
		return pos{anchor.lat + sg()*u(0.78, 0.985)*dLat, anchor.lon + sg()*u(0.78, 0.985)*dLon}
	case "diag-in":
		return pos{anchor.lat + sg()*u(0.05, 0.66)*dLat, anchor.lon + sg()*u(0.05, 0.66)*dLon}
	case "edge-in":
		if rng.Intn(2) == 0 {
			return pos{anchor.lat + sg()*u(0.2, 0.985)*dLat, anchor.lon + sg()*u(0, 0.1)*dLon}
		}
		return pos{anchor.lat + sg()*u(0, 0.1)*dLat, anchor.lon + sg()*u(0.2, 0.985)*dLon}
	case "outside-rect":
		if rng.Intn(2) == 0 {
			return pos{anchor.lat + sg()*u(1.02, 1.4)*dLat, anchor.lon + sg()*u(0, 0.9)*dLon}
		}
		return pos{anchor.lat + sg()*u(0, 0.9)*dLat, anchor.lon + sg()*u(1.02, 1.4)*dLon}
	case "rim": // close to the circle itself, either side
		a := u(0, 2*math.Pi)
		k := u(0.97, 1.03)
		return pos{anchor.lat + k*math.Sin(a)*dLat, anchor.lon + k*math.Cos(a)*dLon}
	case "far":
		return pos{anchor.lat + sg()*u(3, 12)*dLat, anchor.lon + sg()*u(3, 12)*dLon}
	}
	return anchor // "same"
}

var cats = []string{"corner", "corner", "corner", "diag-in", "diag-in", "edge-in", "edge-in", "outside-rect", "rim", "far", "far", "same"}

type round struct {
	key, roamKey string
	fences       []roamFence
	script       []step // fixed script (regression corpus); nil = random
	nsteps       int
	ids          []string
	roamIDs      []string // ids living in roamKey when it differs from key
	center       pos
	baseR        float64
	redefs       []redef // scripted re-definitions (steps of category "redef")
	second       map[int]pos // scripted steps of category "expired": the position of the re-SET after the deadline
}

func runC20(r *hx.Result, cfg hx.Config) {
	r.Rule = "black-box: ROAM fences (channel, webhook, live connection) over a small fleet of points; every SET is evaluated for every fence: observed nearby/faraway ids and metres vs (a) the neighbour sets computed client-side from the known positions with the server's own point distance (direct oracle, cases within 1e-9 relative of the radius skipped), (b) the sequence predicted by the extracted Coq model fed with the same distances and rectangle tests. New positions are forced into the corners of the search rectangle (inside the rectangle, outside the circle), onto the rim, inside, outside. non-trivial = distinct (fence configuration, neighbour outcome) with at least one reported neighbour or at least one neighbour inside the rectangle but outside the circle."
	r.Assumptions = []string{
		"Hr: an object within the radius lies inside geo.RectFromCenter(centre, radius), for radii >= 0.3 m (checked on every sample)",
		"collection.Intersects visits every stored point inside the search rectangle (C02's concern)",
		"sort.Slice sorts; ids are unique within a collection",
		"objects are Points (centre = the point; Distance = geodesic distance between the points)",
	}
	rng := rand.New(rand.NewSource(cfg.Seed))
	drv, err := model.Start("roam")
	if err != nil {
		panic(err)
	}
	defer drv.Close()
	s, err := srv.Start(filepath.Join(cfg.Work, "c20"), "--appendonly", "no")
	if err != nil {
		panic(err)
	}
	defer s.Kill()
	wh, err := fencex.NewWebhook()
	if err != nil {
		panic(err)
	}
	defer wh.Close()

	nrounds, nsteps := 40, 28
	if cfg.Tier == "thorough" {
		nrounds, nsteps = 800, 40
	}
	if cfg.Search {
		nrounds, nsteps = 300, 40
	}

	// regression corpus: F8's witness (neighbour 1258 m away, radius 1000 m) and a two-car drive
	corpus := []round{
		{key: "f8", roamKey: "f8", fences: []roamFence{{name: "f8chan", kind: "chan", pattern: "*", meters: 1000}},
			script: []step{{"nb", pos{0.008, 0.008}, "corpus"}, {"me", pos{0, 0}, "corpus"}, {"me", pos{0.004, 0.004}, "corpus"}, {"me", pos{0, 0}, "corpus"}}},
		{key: "cars", roamKey: "cars", fences: []roamFence{
			{name: "carschan", kind: "chan", pattern: "*", meters: 1000},
			{name: "carsnd", kind: "chan", pattern: "car*", meters: 1000, nodwell: true}},
			script: []step{{"car1", pos{33.414750027566235, -111.91789627075195}, "corpus"}, {"car2", pos{33.414750027566235, -111.91154479980467}, "corpus"},
				{"car2", pos{33.414750027566235, -111.91781044006346}, "corpus"}, {"car1", pos{33.414750027566235, -111.9111156463623}, "corpus"},
				{"car2", pos{33.414750027566235, -111.92416191101074}, "corpus"}}},
	}
	corpus = append(corpus, round{key: "tiny", roamKey: "tiny", fences: []roamFence{{name: "tinychan", kind: "chan", pattern: "*", meters: 0.2}},
		script: []step{{"a", pos{10, 10}, "corpus"}, {"b", pos{10.0000009, 10}, "corpus"}, {"b", pos{10, 10}, "corpus"}, {"a", pos{10.00001, 10}, "corpus"}}})
	// the roam collection vanishes (last object deleted) and is created again
	corpus = append(corpus, round{key: "cycle", roamKey: "cycle", fences: []roamFence{{name: "cyclechan", kind: "chan", pattern: "*", meters: 1000}},
		script: []step{{"a", pos{20, 20}, "corpus"}, {"b", pos{20.001, 20}, "corpus"}, {"a", pos{0, 0}, "del"}, {"b", pos{0, 0}, "del"},
			{"a", pos{20, 20}, "corpus"}, {"b", pos{20.001, 20}, "corpus"}, {"b", pos{20.002, 20}, "corpus"}}})
	// one fence per wildcard class of the id pattern ('*', '?', class, escape + wildcard, escape alone, literal)
	// over the same drive: car10 matches car* but not car? / ???? ; cab matches c?? / [bc]?? only
	{
		var fs []roamFence
		for i, p := range []string{"car*", "car?", "????", "car[0-9]", `c\ar?`, `car\1`, "car1", "[bc]??", "c??", "?*"} {
			fs = append(fs, roamFence{name: fmt.Sprintf("pcls%d", i), kind: "chan", pattern: p, meters: 1000, nodwell: i%4 == 3})
		}
		corpus = append(corpus, round{key: "pcls", roamKey: "pcls", fences: fs,
			script: []step{{"car1", pos{33, -112}, "corpus"}, {"van1", pos{33.001, -112}, "corpus"}, {"car10", pos{33.002, -112}, "corpus"},
				{"cab", pos{33.0005, -112.0005}, "corpus"}, {"car3", pos{33.0075, -112.008}, "corpus"}, {"car4", pos{33.004, -112.005}, "corpus"},
				{"car2", pos{33, -111.98}, "corpus"}, {"car2", pos{33.0005, -112.0005}, "corpus"}, {"car2", pos{33.003, -112.004}, "corpus"},
				{"car2", pos{33.02, -112}, "corpus"}}})
	}
	// a roaming fence re-defined under its own name between SETs (channel and webhook): radius 100 -> 500,
	// identical re-issue, pattern, NODWELL, another key and back, DELCHAN + SETCHAN, DETECT inside and back
	{
		var redefs []redef
		rs := func(fence int, mod string, meters float64, pattern string) step {
			redefs = append(redefs, redef{fence: fence, mod: mod, meters: meters, pattern: pattern})
			return step{id: strconv.Itoa(len(redefs) - 1), cat: "redef"}
		}
		set := func(id string, lat, lon float64) step { return step{id: id, p: pos{lat, lon}, cat: "corpus"} }
		rdf := round{key: "redef", roamKey: "redef", fences: []roamFence{
			{name: "redefchan", kind: "chan", pattern: "*", meters: 100},
			{name: "redefhook", kind: "hook", pattern: "*", meters: 100},
			{name: "redefctl", kind: "chan", pattern: "*", meters: 500}},
			script: []step{set("a", 20, 20), set("b", 20.0005, 20), set("c", 20.003, 20),
				rs(0, "radius", 500, ""), rs(1, "radius", 500, ""),
				set("c", 20.003, 20), set("d", 20.002, 20.002), set("a", 20.001, 20), set("c", 20.02, 20),
				rs(0, "same", 0, ""), rs(1, "same", 0, ""), set("c", 20.003, 20),
				rs(0, "pattern", 0, "[ab]"), rs(1, "nodwell", 0, ""), set("d", 20.0005, 20.0005), set("d", 20.0006, 20.0005),
				rs(0, "key", 0, ""), set("a", 20.0011, 20), rs(0, "key", 0, ""), set("a", 20.001, 20),
				rs(0, "delset", 0, ""), rs(1, "delset", 0, ""), set("b", 20.0006, 20),
				rs(0, "detect", 0, ""), set("b", 20.0005, 20), rs(0, "detect", 0, ""), set("b", 20.0004, 20),
				rs(0, "del", 0, ""), set("b", 20.0005, 20), rs(0, "del", 0, ""), set("b", 20.0006, 20),
				rs(0, "kind", 0, ""), rs(1, "kind", 0, ""), set("a", 20.03, 20),
				// changes in letter case only (Hook.Equals is byte-identity: each must take effect and answer 1)
				rs(0, "pattern", 0, "[abc]"), set("a", 20.0009, 20),
				rs(0, "case-pattern", 0, ""), set("a", 20.001, 20), set("c", 20.0011, 20), rs(0, "case-pattern", 0, ""), set("a", 20.0009, 20),
				rs(0, "case-roamkey", 0, ""), rs(1, "case-roamkey", 0, ""), set("b", 20.0005, 20), set("b", 20.03, 20),
				rs(0, "case-roamkey", 0, ""), rs(1, "case-roamkey", 0, ""), set("b", 20.0006, 20),
				rs(0, "case-keyword", 0, ""), rs(1, "case-keyword", 0, ""), set("b", 20.0005, 20), rs(0, "same", 0, ""), rs(1, "same", 0, ""),
				rs(0, "case-meta", 0, ""), rs(0, "case-meta", 0, ""), rs(0, "case-meta", 0, ""), rs(1, "case-meta", 0, ""), rs(1, "case-meta", 0, ""),
				set("b", 20.0004, 20), rs(1, "case-endpoint", 0, ""), set("b", 20.03, 20), rs(1, "case-endpoint", 0, ""), rs(0, "case-endpoint", 0, ""),
				set("b", 20.0005, 20)}}
		rdf.redefs = redefs
		corpus = append(corpus, rdf)
	}
	// an object written with a TTL and written again just after its deadline, before the sweep: the second
	// SET is a move from the stored position (faraway for the neighbours left; under NODWELL no second nearby)
	{
		set := func(id string, lat, lon float64) step { return step{id: id, p: pos{lat, lon}, cat: "corpus"} }
		ex := func(id string, lat, lon float64) step { return step{id: id, p: pos{lat, lon}, cat: "expired"} }
		corpus = append(corpus, round{key: "ttl", roamKey: "ttl", fences: []roamFence{
			{name: "ttlchan", kind: "chan", pattern: "*", meters: 1000},
			{name: "ttlnd", kind: "chan", pattern: "*", meters: 1000, nodwell: true},
			{name: "ttlhook", kind: "hook", pattern: "*", meters: 1000}},
			script: []step{set("a", 20, 20), set("b", 20.001, 20), set("c", 20.003, 20.001),
				ex("b", 20.002, 20), ex("b", 20.001, 20), set("a", 20.0012, 20), ex("a", 20.03, 20), ex("c", 20.0013, 20), set("b", 20.002, 20)},
			second: map[int]pos{3: {20.05, 20}, 4: {20.0015, 20}, 6: {20.0016, 20}, 7: {20.04, 20.001}}})
	}
	for i := range corpus {
		runRound(r, cfg, rng, drv, s, wh, &corpus[i], fmt.Sprintf("corpus%d", i))
	}
	patterns := roamPatterns
	// the pattern-vs-literal decision on every pattern used below and on a random stream
	for _, p := range append([]string{"truck?", "a?", "?", "w[", "a[", `a\b`, `a\*b`, "a[b", "[]", "[a-]", `\`}, roamPatterns...) {
		checkIsGlob(r, drv, p)
	}
	nIsGlob := 400
	if cfg.Tier == "thorough" || cfg.Search {
		nIsGlob = 20000
	}
	for i := 0; i < nIsGlob; i++ {
		checkIsGlob(r, drv, randomPattern(rng))
	}
	for n := 0; n < nrounds; n++ {
		rd := round{key: fmt.Sprintf("fleet%d", n), nsteps: nsteps}
		rd.roamKey = rd.key
		rd.ids = []string{"car0", "car1", "car1-t", "car2", "bus0", "car0-x", "bus1", "cab", "b", "van7"}[:5+rng.Intn(6)]
		if n%4 == 3 {
			rd.roamKey = fmt.Sprintf("depot%d", n)
			rd.roamIDs = []string{"car7", "car8", "bus9", "c2", "truck"}
		}
		rd.center = pos{-65 + 130*rng.Float64(), -170 + 340*rng.Float64()}
		rd.baseR = []float64{40, 300, 1000, 1000, 5000, 25000}[rng.Intn(6)] * (0.7 + 0.6*rng.Float64())
		if n%2 == 1 {
			// non-point objects: a rectangle, a triangle and a line, smaller than the radius
			hd := rd.baseR / 111000
			for _, ik := range [][2]string{{"bus0", "bounds"}, {"car2", "tri"}, {"cab", "line"}, {"bus9", "bounds"}, {"c2", "tri"}} {
				sh := shape{ik[1], hd * (0.05 + 0.3*rng.Float64())}
				shapes[rd.key+"/"+ik[0]] = sh
				shapes[rd.roamKey+"/"+ik[0]] = sh
			}
		}
		nf := 4
		for k := 0; k < nf; k++ {
			f := roamFence{name: fmt.Sprintf("%s-ch%d", rd.key, k), kind: "chan",
				pattern: patterns[rng.Intn(len(patterns))], nodwell: rng.Intn(2) == 0,
				meters: math.Round(rd.baseR*[]float64{1, 1, 0.5, 2}[rng.Intn(4)]*1000) / 1000}
			if k == 0 {
				f.pattern, f.nodwell = "*", false
			}
			if k == 3 && rng.Intn(3) == 0 {
				f.detect = "inside"
			}
			rd.fences = append(rd.fences, f)
		}
		sc := roamFence{name: rd.key + "-scan", kind: "chan", pattern: "car*", meters: rd.fences[0].meters, scan: []string{"-*", "*", "-[tx]"}[rng.Intn(3)]}
		rd.fences = append(rd.fences, sc)
		// the same configuration as channel 1 through a webhook, and as channel 0 on a live connection
		if n%3 == 0 {
			w := rd.fences[1]
			w.name, w.kind = rd.key+"-hook", "hook"
			rd.fences = append(rd.fences, w)
		}
		if n%3 == 1 && rd.roamKey == rd.key {
			l := rd.fences[0]
			l.name, l.kind = "", "live"
			rd.fences = append(rd.fences, l)
		}
		runRound(r, cfg, rng, drv, s, wh, &rd, fmt.Sprintf("round%d", n))
		if !s.Alive() {
			r.Fail(hx.Failure{Kind: "oracle", Signature: "server-exit", What: "server exited during a C20 round: " + s.LogTail(300), Case: rd.key})
			return
		}
	}
}

func runRound(r *hx.Result, cfg hx.Config, rng *rand.Rand, drv *model.Driver, s *srv.Server, wh *fencex.Webhook, rd *round, label string) {
	c := s.MustDial()
	defer c.Close()
	sub, err := fencex.NewSub(s)
	if err != nil {
		panic(err)
	}
	defer sub.Close()
	var live *fencex.Live
	var liveFence *roamFence
	var regOps []string // this round's history of hook commands, for the registry model
	hookExpected := map[string][]string{}
	// define issues SETCHAN / SETHOOK for the fence as it is now described.  The expected integer reply is 0
	// exactly when the definition is byte-identical to the one in force under the name (1 = created or
	// replaced): the harness compares the definitions itself (oracle) and asks Model.HookDef.hook_equals_by
	// with the tests t38x read from Hook.Equals (correspondence)
	lastDef := map[string]hookDef{}
	hookURL := func(f *roamFence) string {
		return wh.URL("/"+f.name) + map[bool]string{false: "?v=a", true: "?v=A"}[f.epCase]
	}
	define := func(f *roamFence) {
		args := fenceArgs(rd, f)
		full := append(append([]string{}, metaArgs(f)...), args...)
		nd := hookDef{key: args[1], name: f.name, args: args}
		if f.metaName != "" {
			nd.metas = [][2]string{{f.metaName, f.metaVal}}
		}
		var v srv.Value
		switch f.kind {
		case "chan":
			nd.endpoints = []string{"local://" + f.name}
			v = c.MustDo(append([]string{"SETCHAN", f.name}, full...)...)
		case "hook":
			nd.endpoints = []string{hookURL(f)}
			v = c.MustDo(append([]string{"SETHOOK", f.name, hookURL(f)}, full...)...)
		}
		if v.IsErr() {
			panic("SETCHAN/SETHOOK refused: " + v.String())
		}
		prev, had := lastDef[f.name]
		same := had && reflect.DeepEqual(prev, nd)
		if had {
			if mod := drv.Ask(append(append(append([]string{"hequals"}, prev.tokens()...), "/"), nd.tokens()...)...); mod != model.B(same) {
				r.Fail(hx.Failure{Kind: "correspondence", Signature: "roam-equals-model",
					What: "Hook.Equals as read from the source (Model.HookDef.hook_equals_by equals_checks) is not byte-identity of the two definitions",
					Case: map[string]interface{}{"round": label, "name": f.name, "previous": strings.Join(prev.args, " "), "new": strings.Join(nd.args, " ")}, Impl: same, Model: mod})
			}
		}
		lastDef[f.name] = nd
		regOps = append(regOps, regSet(rd, f, f.kind == "chan", same))
		want := int64(1)
		if same {
			want = 0
		}
		if v.Kind != ':' || v.Int != want {
			what := fmt.Sprintf("SETCHAN/SETHOOK %s %s answered %s, expected %d (1 = created or replaced, 0 = identical to the definition in force)", f.name, strings.Join(full, " "), v.String(), want)
			if had {
				what += fmt.Sprintf("; definition in force: %s | endpoints %v | metas %v", strings.Join(prev.args, " "), prev.endpoints, prev.metas)
			}
			r.Fail(hx.Failure{Kind: "oracle", Signature: "roam-sethook-reply", What: what,
				Case: map[string]interface{}{"round": label, "args": strings.Join(full, " ")}})
		}
	}
	for i := range rd.fences {
		f := &rd.fences[i]
		switch f.kind {
		case "chan", "hook":
			define(f)
		case "live":
			live, err = fencex.NewLive(s, fenceArgs(rd, f)...)
			if err != nil {
				panic(err)
			}
			defer live.Close()
			liveFence = f
		}
	}
	// redefine: the fence is re-defined under its own name (or deleted / re-created); afterwards it must
	// still be listed with its new definition (CHANS / HOOKS), and the following SETs are compared with it
	redefine := func(re redef) {
		f := &rd.fences[re.fence]
		if f.kind != "chan" && f.kind != "hook" {
			return
		}
		isChan := f.kind == "chan"
		if f.kind == "hook" {
			// let the endpoint receive what is queued: replacing a hook closes its sender
			wh.Wait("/"+f.name, len(hookExpected[f.name]), 8*time.Second)
		}
		del := func() {
			cmd := map[bool]string{true: "DELCHAN", false: "DELHOOK"}[isChan]
			if v := c.MustDo(cmd, f.name); v.IsErr() {
				panic(cmd + " refused: " + v.String())
			}
			regOps = append(regOps, strings.Join([]string{"D", model.H(f.name), model.B(isChan)}, ","))
		}
		r.Dist("redefine:" + re.mod)
		wasDeleted := f.deleted
		if f.deleted && re.mod != "del" && re.mod != "kind" {
			f.deleted = false // any re-definition of a deleted fence creates it
		}
		switch re.mod {
		case "radius":
			f.meters = re.meters
			define(f)
		case "pattern":
			f.pattern = re.pattern
			define(f)
		case "nodwell":
			f.nodwell = !f.nodwell
			define(f)
		case "key":
			f.offKey = !f.offKey
			define(f)
		case "detect":
			f.detect = map[bool]string{true: "inside", false: ""}[f.detect == ""]
			define(f)
		case "same": // control: an identical re-issue takes the Equals early return
			define(f)
		// changes in letter case only: each is a different definition and must take effect
		case "case-pattern":
			f.pattern = swapCase(f.pattern)
			define(f)
		case "case-roamkey":
			f.roamKeyCase = !f.roamKeyCase
			define(f)
		case "case-keyword":
			f.kwLower = !f.kwLower
			define(f)
		case "case-meta":
			if f.metaName == "" {
				f.metaName, f.metaVal = "tag", "val"
			} else if rng.Intn(2) == 0 {
				f.metaName = swapCase(f.metaName)
			} else {
				f.metaVal = swapCase(f.metaVal)
			}
			define(f)
		case "case-endpoint":
			if isChan {
				f.kwLower = !f.kwLower
			} else {
				f.epCase = !f.epCase
			}
			define(f)
		case "delset":
			if !wasDeleted {
				del()
				delete(lastDef, f.name)
			}
			define(f)
		case "del":
			if wasDeleted {
				f.deleted = false
				define(f)
			} else {
				del()
				delete(lastDef, f.name)
				f.deleted = true
			}
		case "kind": // a hook and a channel cannot share a name: refused, nothing changes
			if !wasDeleted {
				var v srv.Value
				if isChan {
					v = c.MustDo(append([]string{"SETHOOK", f.name, hookURL(f)}, fenceArgs(rd, f)...)...)
				} else {
					v = c.MustDo(append([]string{"SETCHAN", f.name}, fenceArgs(rd, f)...)...)
				}
				regOps = append(regOps, regSet(rd, f, !isChan, false))
				if !v.IsErr() {
					r.Fail(hx.Failure{Kind: "oracle", Signature: "roam-sethook-reply", What: "a hook and a channel were allowed to share the name " + f.name + ": " + v.String(), Case: label})
				}
			}
		}
		// listed: CHANS / HOOKS name shows the fence exactly when it is defined, with its current arguments
		cmd := map[bool]string{true: "CHANS", false: "HOOKS"}[isChan]
		lv := c.MustDo(cmd, f.name)
		listing := lv.String()
		leaves := flattenValue(lv)
		listed := false
		for _, l := range leaves {
			listed = listed || l == f.name
		}
		if listed != !f.deleted || (listed && !containsSeq(leaves, fenceArgs(rd, f))) {
			r.Fail(hx.Failure{Kind: "oracle", Signature: "roam-listing", What: fmt.Sprintf("%s %s after the re-definition (%s) does not show the fence as defined (defined=%v, arguments %q)", cmd, f.name, re.mod, !f.deleted, strings.Join(fenceArgs(rd, f), " ")),
				Case: label, Impl: listing})
		}
	}
	state := map[string]map[string]pos{rd.key: {}, rd.roamKey: {}}
	// static population of a separate roam collection
	for _, id := range rd.roamIDs {
		p := place(rng, rd.center, rd.baseR, cats[rng.Intn(len(cats))])
		c.MustDo(append([]string{"SET", rd.roamKey, id}, setGeom(rd.roamKey, id, p)...)...)
		state[rd.roamKey][id] = p
	}
	if live != nil {
		// two sync objects far from the fleet, within the live fence's radius of each other: a
		// re-SET of "zsync" always yields exactly one live message, which delimits the previous write
		far := pos{-rd.center.lat, rd.center.lon + 100}
		if far.lon > 180 {
			far.lon -= 360
		}
		c.MustDo("SET", rd.key, "zsync2", "POINT", ff(far.lat), ff(far.lon))
		c.MustDo("SET", rd.key, "zsync", "POINT", ff(far.lat), ff(far.lon))
		state[rd.key]["zsync2"], state[rd.key]["zsync"] = far, far
		// zsync2 is nearby zsync. A live fence evaluates a write when its goroutine gets to it, against
		// the collection as it is then: the SET of zsync2 may or may not already see zsync, so skip
		// up to the message of the zsync write itself.
		for live != nil {
			m, err := live.Next(5 * time.Second)
			if err != nil {
				r.Fail(hx.Failure{Kind: "oracle", Signature: "roam-live-missing", What: "live ROAM fence did not report the sync neighbour: " + err.Error(), Case: label})
				live = nil
			} else if m.ID == "zsync" {
				break
			}
		}
	}
	sub.Collect() // drop what the setup produced
	n := rd.nsteps
	if rd.script != nil {
		n = len(rd.script)
	}
	// the roam collection's life cycle: once per round (rounds without a live connection or a webhook,
	// whose streams are compared as a whole) the collection disappears - every object deleted one by
	// one, or DROP - and is populated again by the following SETs
	resetAt := -1
	if rd.script == nil && live == nil && n > 12 {
		hasHook := false
		for _, f := range rd.fences {
			hasHook = hasHook || f.kind == "hook"
		}
		if !hasHook {
			resetAt = 10 + rng.Intn(n-12)
		}
	}
	wipe := func(viaDrop bool) {
		if viaDrop {
			c.MustDo("DROP", rd.roamKey)
		} else {
			var ids []string
			for id := range state[rd.roamKey] {
				ids = append(ids, id)
			}
			sort.Strings(ids)
			for _, id := range ids {
				c.MustDo("DEL", rd.roamKey, id)
			}
		}
		state[rd.roamKey] = map[string]pos{}
		if rd.roamKey == rd.key {
			state[rd.key] = state[rd.roamKey]
		}
		sub.Collect() // del / drop notifications are C05's matter
		r.Dist("roam-collection-wiped")
	}
	// evaluate: one SET (already executed, its channel messages in msgs) against every fence of the round
	evaluate := func(i int, st step, old *pos, msgs, liveGot []fencex.Msg) {
		byHook := map[string][]fencex.Msg{}
		for _, m := range msgs {
			byHook[m.Channel] = append(byHook[m.Channel], m)
		}
		for fi := range rd.fences {
			f := rd.fences[fi]
			rk := roamKeyOf(rd, &f)
			e := expect(drv, f, rd.key, rk, st.id, old, st.p, state[rk], regOps)
			var got []fencex.Msg
			switch f.kind {
			case "chan":
				got = byHook[f.name]
			case "hook":
				for _, x := range e.model {
					hookExpected[f.name] = append(hookExpected[f.name], x.kind+":"+x.id+":"+x.meters+":"+st.id)
				}
				continue
			case "live":
				if live == nil || liveFence == nil {
					continue
				}
				got = liveGot
			}
			checkStep(drv, r, rd, f, st, old, e, got, label, i)
		}
	}
	// runExpired: the object is written with a TTL and written again shortly after the deadline, before the
	// background sweep can delete it - one atomic EVAL: SET ... EX 0.02 <p1>; spin 60 ms; GET; SET <p2>.
	// The second SET is a move from p1 (GET returned the object): previous position = what was stored
	// immediately before, whatever its deadline (Model.RoamSet, c20_stored_is_old).
	runExpired := func(i int, st step, old *pos, p2 pos) {
		lq := func(a string) string { return "[==[" + a + "]==]" }
		call := func(args []string) string {
			q := make([]string, len(args))
			for k, a := range args {
				q[k] = lq(a)
			}
			return "tile38.call(" + strings.Join(q, ",") + ")"
		}
		set1 := append([]string{"SET", rd.key, st.id, "EX", "0.02"}, setGeom(rd.key, st.id, st.p)...)
		set2 := append([]string{"SET", rd.key, st.id}, setGeom(rd.key, st.id, p2)...)
		script := call(set1) + " local t = os.clock() while os.clock() - t < 0.06 do end local g = " +
			call([]string{"GET", rd.key, st.id}) + " " + call(set2) + " return g"
		v := c.MustDo("EVAL", script, "0")
		if v.IsErr() {
			panic("EVAL refused: " + v.String())
		}
		msgs, err := sub.Collect()
		if err != nil {
			panic(err)
		}
		r.Dist("step:expired")
		var m1, m2 []fencex.Msg
		for _, m := range msgs {
			if sameObject(m.Object, rd.key, st.id, st.p) {
				m1 = append(m1, m)
			} else {
				m2 = append(m2, m)
			}
		}
		state[rd.key][st.id] = st.p
		evaluate(i, step{st.id, st.p, "expired-1 (SET ... EX 0.02)"}, old, m1, nil)
		// what GET returned between the deadline and the second SET
		stored := v.Kind == '$' && v.Str != "" && sameObject(json.RawMessage(v.Str), rd.key, st.id, st.p)
		if !stored {
			r.Fail(hx.Failure{Kind: "oracle", Signature: "roam-ttl-get", What: "GET 40 ms after the deadline, inside the script and before any sweep, did not return the object as written: " + v.String(),
				Case: map[string]interface{}{"round": label, "step": i, "script": script}})
		}
		var old2 *pos
		if mod := drv.Ask("setold", "60", model.H(st.id), model.H(st.id)+",20"); (mod == "1") != stored {
			r.Fail(hx.Failure{Kind: "correspondence", Signature: "roam-setold-model", What: "Model.RoamSet.set_details disagrees with GET about the previous object of the second SET",
				Case: map[string]interface{}{"round": label, "step": i}, Impl: stored, Model: mod})
		}
		if stored {
			q := st.p
			old2 = &q
		}
		state[rd.key][st.id] = p2
		evaluate(i, step{st.id, p2, "expired-2 (SET again 40 ms after the deadline of SET ... EX 0.02, in the same EVAL; GET returned the object)"}, old2, m2, nil)
	}
	for i := 0; i < n; i++ {
		if i == resetAt {
			wipe(rng.Intn(2) == 0)
		}
		var st step
		var p2 pos
		if rd.script != nil {
			st = rd.script[i]
			if st.cat == "del" {
				c.MustDo("DEL", rd.key, st.id)
				delete(state[rd.key], st.id)
				sub.Collect()
				continue
			}
			p2 = rd.second[i]
			if st.cat == "redef" {
				k, _ := strconv.Atoi(st.id)
				redefine(rd.redefs[k])
				sub.Collect()
				continue
			}
		} else {
			// between two SETs, now and then, a fence of the round is re-defined under its own name
			if i >= len(rd.ids) && rng.Intn(4) == 0 {
				mods := []string{"radius", "radius", "pattern", "pattern", "nodwell", "key", "same", "delset", "del", "kind", "detect",
					"case-pattern", "case-pattern", "case-roamkey", "case-keyword", "case-meta", "case-endpoint"}
				re := redef{fence: rng.Intn(len(rd.fences)), mod: mods[rng.Intn(len(mods))]}
				re.meters = math.Round(rd.baseR*[]float64{1, 0.5, 2, 1.5, 0.25}[rng.Intn(5)]*1000) / 1000
				re.pattern = roamPatterns[rng.Intn(len(roamPatterns))]
				if f := rd.fences[re.fence]; f.scan != "" && (re.mod == "pattern" || re.mod == "case-pattern") {
					re.mod = "radius" // the SCAN fence keeps its neighbour pattern
				}
				redefine(re)
				sub.Collect()
			}
			st.id = rd.ids[rng.Intn(len(rd.ids))]
			if i < len(rd.ids) {
				st.id = rd.ids[i] // populate first
			}
			st.cat = cats[rng.Intn(len(cats))]
			anchor := rd.center
			// anchor on another object's position if there is one
			var others []pos
			for id, p := range state[rd.roamKey] {
				if id != st.id && !strings.HasPrefix(id, "zsync") {
					others = append(others, p)
				}
			}
			sort.Slice(others, func(a, b int) bool {
				if others[a].lat != others[b].lat {
					return others[a].lat < others[b].lat
				}
				return others[a].lon < others[b].lon
			})
			if len(others) > 0 {
				anchor = others[rng.Intn(len(others))]
			}
			rf := rd.fences[rng.Intn(len(rd.fences))]
			st.p = place(rng, anchor, rf.meters, st.cat)
			if cur, ok := state[rd.key][st.id]; ok && rng.Intn(12) == 0 {
				st.p, st.cat = cur, "stay"
			}
			// now and then the object carries a short TTL and is written again just after its deadline
			if live == nil && i >= len(rd.ids) && rng.Intn(10) == 0 {
				p2 = place(rng, anchor, rf.meters, cats[rng.Intn(len(cats))])
				if p2 != st.p {
					st.cat = "expired"
				}
			}
		}
		var old *pos
		if p, ok := state[rd.key][st.id]; ok {
			q := p
			old = &q
		}
		if st.cat == "expired" {
			runExpired(i, st, old, p2)
			continue
		}
		v := c.MustDo(append([]string{"SET", rd.key, st.id}, setGeom(rd.key, st.id, st.p)...)...)
		if v.IsErr() {
			panic("SET refused: " + v.String())
		}
		state[rd.key][st.id] = st.p
		msgs, err := sub.Collect()
		if err != nil {
			panic(err)
		}
		r.Dist("step:" + st.cat)
		var liveGot []fencex.Msg
		if live != nil {
			// delimit with the sync write, then read up to and including its message
			c.MustDo("SET", rd.key, "zsync", "POINT", ff(state[rd.key]["zsync"].lat), ff(state[rd.key]["zsync"].lon))
			for {
				m, err := live.Next(5 * time.Second)
				if os.Getenv("VERIF_C20_DEBUG") == label {
					fmt.Fprintf(os.Stderr, "step %d (%s %s): live %s\n", i, st.id, st.cat, m.Raw)
				}
				if err != nil {
					r.Fail(hx.Failure{Kind: "oracle", Signature: "roam-live-missing", What: "live ROAM fence stopped delivering: " + err.Error(), Case: label})
					live = nil
					break
				}
				if m.ID == "zsync" {
					break
				}
				liveGot = append(liveGot, m)
			}
			sub.Collect() // the sync write's channel messages are not evaluated
		}
		evaluate(i, st, old, msgs, liveGot)
	}
	// webhook deliveries: the whole sequence of the round
	for name, want := range hookExpected {
		got := wh.Wait("/"+name, len(want), 8*time.Second)
		var gs []string
		for _, m := range got {
			ents := entriesOf([]fencex.Msg{m})
			gs = append(gs, ents[0].kind+":"+ents[0].id+":"+ents[0].meters+":"+m.ID)
			if m.Hook != name {
				r.Fail(hx.Failure{Kind: "oracle", Signature: "roam-fields", What: "webhook message names another hook", Case: m.Raw})
			}
		}
		r.Count(label+"/webhook/"+strings.Join(want, " "), len(want) > 0)
		r.Dist("sink:hook")
		if strings.Join(gs, " ") != strings.Join(want, " ") {
			r.Fail(hx.Failure{Kind: "correspondence", Signature: "roam-webhook-sequence",
				What: "webhook deliveries of a ROAM hook differ from the model's sequence for the round",
				Case: map[string]interface{}{"round": label, "hook": name}, Impl: gs, Model: want})
		}
	}
	for _, e := range sub.Errs {
		r.Fail(hx.Failure{Kind: "oracle", Signature: "roam-fields", What: e, Case: label})
	}
	// tidy: remove this round's hooks so that later rounds are not slowed down
	c.MustDo("PDELCHAN", rd.key+"*")
	c.MustDo("PDELCHAN", "f8*")
	c.MustDo("PDELCHAN", "cars*")
	c.MustDo("PDELCHAN", "tiny*")
	c.MustDo("PDELCHAN", "cycle*")
	c.MustDo("PDELCHAN", "pcls*")
	c.MustDo("PDELCHAN", "redef*")
	c.MustDo("PDELHOOK", "redef*")
	c.MustDo("PDELCHAN", "ttl*")
	c.MustDo("PDELHOOK", "ttl*")
	c.MustDo("PDELHOOK", rd.key+"*")
}

func checkStep(drv *model.Driver, r *hx.Result, rd *round, f roamFence, st step, old *pos, e expectation, got []fencex.Msg, label string, idx int) {
	obs := entriesOf(got)
	cs := map[string]interface{}{"round": label, "step": idx, "fence": fmt.Sprintf("%s NEARBY %s%s FENCE%s ROAM %s %s %s", f.kind, rd.key,
		map[bool]string{true: " DETECT " + f.detect, false: ""}[f.detect != ""], map[bool]string{true: " NODWELL", false: ""}[f.nodwell], rd.roamKey, f.pattern, ff(f.meters)),
		"set": "SET " + rd.key + " " + st.id + " " + strings.Join(setGeom(rd.key, st.id, st.p), " "), "category": st.cat}
	if f.offKey || f.deleted {
		cs["fence"] = fmt.Sprintf("%s (now fencing %s-off: %v, deleted: %v)", cs["fence"], rd.key, f.offKey, f.deleted)
	}
	if f.kind != "live" {
		cs["name"] = f.name
	}
	if old != nil {
		cs["previous"] = fmt.Sprintf("%s %s", ff(old.lat), ff(old.lon))
	}
	key := fmt.Sprintf("%s|%s|%v|%s|near=%s|far=%s|corner=%d", f.kind, f.pattern, f.nodwell, f.detect, idSet(e.model, "nearby"), idSet(e.model, "faraway"), e.cornerCount)
	r.Count(key, len(e.model) > 0 || e.cornerCount > 0)
	r.Dist("sink:" + f.kind)
	r.Dist("pattern-class:" + patternClass(f.pattern))
	if e.cornerCount > 0 {
		r.Dist("has-corner-neighbour")
	}
	if len(e.model) > 0 {
		r.TracesImpl++
		r.Sample(6, map[string]interface{}{"case": cs, "observed": entStr(obs)})
	}
	for _, h := range e.hrViolations {
		r.Fail(hx.Failure{Kind: "correspondence", Signature: "roam-Hr", What: "hypothesis Hr (circle inside the search rectangle) fails on a sample: " + h, Case: cs})
	}
	if !strings.HasPrefix(e.modelRaw, "ok") {
		r.Fail(hx.Failure{Kind: "correspondence", Signature: "roam-model", What: "model did not answer", Case: cs, Model: e.modelRaw})
		return
	}
	// (b) correspondence: exact sequence
	if entStr(obs) != entStr(e.model) {
		r.Fail(hx.Failure{Kind: "correspondence", Signature: "roam-model",
			What: "messages of a ROAM fence differ from Model.Roam.roam_msgs", Case: cs, Impl: entStr(obs), Model: entStr(e.model)})
	}
	// (a) direct oracle: id sets and metres, from the property text
	if e.boundary {
		r.Dist("boundary-skipped")
	} else {
		so := append([]entry(nil), obs...)
		sortEntries(so)
		for _, kind := range []string{"nearby", "faraway"} {
			if idSet(so, kind) != idSet(e.oracle, kind) {
				sig := "roam-" + kind + "-set"
				// classify: every surplus id is a neighbour farther than the radius
				if kind == "nearby" {
					want := map[string]bool{}
					for _, x := range e.oracle {
						if x.kind == kind {
							want[x.id] = true
						}
					}
					surplusOutside, other := 0, 0
					for _, x := range so {
						if x.kind == kind && !want[x.id] {
							if e.dNew[x.id] > f.meters {
								surplusOutside++
							} else {
								other++
							}
						}
					}
					missing := 0
					gotIDs := "," + idSet(so, kind) + ","
					for id := range want {
						if !strings.Contains(gotIDs, ","+id+",") {
							missing++
						}
					}
					if surplusOutside > 0 && other == 0 && missing == 0 {
						sig = "roam-nearby-outside-radius"
					}
				}
				if f.meters < rminMeters && entStr(so) == entStr(e.oracleRect) {
					// fully explained by the collapsed search rectangle
					sig = "roam-tiny-radius"
				}
				r.Fail(hx.Failure{Kind: "oracle", Signature: sig,
					What: fmt.Sprintf("ROAM fence reported %s ids {%s}; the objects matching the pattern within %s m (by the server's own point distance) give {%s}; distances to the new position: %s",
						kind, idSet(so, kind), ff(f.meters), idSet(e.oracle, kind), distList(e.dNew, st.id)),
					Case: cs, Impl: entStr(obs)})
			}
		}
		if entStr(so) != entStr(e.oracle) && idSet(so, "nearby") == idSet(e.oracle, "nearby") && idSet(so, "faraway") == idSet(e.oracle, "faraway") {
			r.Fail(hx.Failure{Kind: "oracle", Signature: "roam-meters", What: "reported metres are not the distance between the two objects (floor to millimetres)",
				Case: cs, Impl: entStr(so), Model: entStr(e.oracle)})
		}
	}
	// metres: floor to millimetres of the distance (c20_meters_rounding), and the SCAN member
	ids := make([]string, 0, len(e.col))
	for id := range e.col {
		ids = append(ids, id)
	}
	sort.Strings(ids)
	for _, m := range got {
		rm, d := m.Nearby, 0.0
		if rm != nil {
			d = e.dNew[rm.ID]
		} else if rm = m.Faraway; rm != nil {
			d = e.dRev[rm.ID]
		} else {
			continue
		}
		rep, err := strconv.ParseFloat(rm.Meters.String(), 64)
		if err != nil || !(rep <= d+1e-9 && d < rep+0.001+1e-9) {
			r.Fail(hx.Failure{Kind: "oracle", Signature: "roam-meters", What: fmt.Sprintf("reported metres %s for a distance of %.9f: not (reported <= distance < reported + 0.001)", rm.Meters, d), Case: cs, Impl: m.Raw})
		}
		if frac := d*1000 - math.Floor(d*1000); frac > 1e-6 && frac < 1-1e-6 {
			want := drv.Ask("round", strconv.FormatInt(int64(math.Floor(d*1e6)), 10))
			if gotMM := strconv.FormatInt(int64(math.Round(rep*1000)), 10); gotMM != want {
				r.Fail(hx.Failure{Kind: "correspondence", Signature: "roam-round-model", What: "printed metres differ from Model.Roam.round_mm of the distance in micrometres", Case: cs, Impl: gotMM, Model: want})
			}
		}
		var gs, ws []string
		for _, x := range rm.Scan {
			if x.Self {
				gs = append(gs, "self:"+model.H(x.ID))
			} else {
				gs = append(gs, model.H(x.ID))
			}
			if p, ok := e.col[x.ID]; !ok || !sameObject(x.Object, rd.roamKey, x.ID, p) {
				r.Fail(hx.Failure{Kind: "oracle", Signature: "roam-scan", What: "scan entry does not carry the stored geometry of " + x.ID, Case: cs, Impl: m.Raw})
			}
		}
		if f.scan == "" {
			if len(rm.Scan) > 0 {
				r.Fail(hx.Failure{Kind: "oracle", Signature: "roam-scan", What: "scan member on a fence without SCAN", Case: cs, Impl: m.Raw})
			}
			continue
		}
		if _, ok := e.col[rm.ID]; ok {
			ws = append(ws, "self:"+model.H(rm.ID))
		}
		req := []string{"scan", model.H(rm.ID), model.H(f.scan)}
		for _, id := range ids {
			req = append(req, model.H(id))
			if ok, _ := verifapi.GlobMatch(rm.ID+f.scan, id); ok && id != rm.ID {
				ws = append(ws, model.H(id))
			}
		}
		r.Dist("scan-entries")
		if strings.Join(gs, " ") != strings.Join(ws, " ") {
			r.Fail(hx.Failure{Kind: "oracle", Signature: "roam-scan", What: fmt.Sprintf("scan member of the %s message lists %v; the ids matching %q are %v", rm.ID, gs, rm.ID+f.scan, ws), Case: cs, Impl: m.Raw})
		}
		if mod := strings.TrimSpace(strings.TrimPrefix(drv.Ask(req...), "ok")); mod != strings.Join(gs, " ") {
			r.Fail(hx.Failure{Kind: "correspondence", Signature: "roam-scan-model", What: "scan member differs from Model.Roam.scan_ids", Case: cs, Impl: gs, Model: mod})
		}
	}
	// every message carries the moved object's current id / position, and the neighbour's
	for _, m := range got {
		bad := ""
		switch {
		case m.Command != "set" || m.Detect != "roam":
			bad = "command/detect"
		case m.Key != rd.key || m.ID != st.id:
			bad = "key/id"
		case !sameObject(m.Object, rd.key, st.id, st.p):
			bad = "object is not the new geometry"
		case f.kind == "chan" && m.Hook != f.name:
			bad = "hook name"
		case !m.HasTime:
			bad = "time missing"
		}
		for _, rm := range []*fencex.Roam{m.Nearby, m.Faraway} {
			if rm == nil {
				continue
			}
			p, exists := e.col[rm.ID]
			if !exists || rm.Key != rd.roamKey {
				bad = "neighbour key/id unknown"
			} else if !sameObject(rm.Object, rd.roamKey, rm.ID, p) {
				bad = "neighbour object is not its stored geometry"
			}
		}
		if bad != "" {
			r.Fail(hx.Failure{Kind: "oracle", Signature: "roam-fields", What: "ROAM message does not carry the current " + bad, Case: cs, Impl: m.Raw})
		}
	}
}

func distList(d map[string]float64, self string) string {
	var ids []string
	for id := range d {
		if id != self {
			ids = append(ids, id)
		}
	}
	sort.Strings(ids)
	var sb strings.Builder
	for _, id := range ids {
		fmt.Fprintf(&sb, "%s=%.3f ", id, d[id])
	}
	return strings.TrimSpace(sb.String())
}
