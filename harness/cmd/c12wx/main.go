// development entry point: only the WHERE "<expr>" part of C12 (removed before delivery)
package main

import (
	"math/rand"

	"verifharness/internal/hx"
	"verifharness/internal/wxgen"
)

func main() {
	hx.Main("C12", func(r *hx.Result, cfg hx.Config) { wxgen.Run(r, cfg, rand.New(rand.NewSource(cfg.Seed))) })
}
