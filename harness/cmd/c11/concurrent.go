// C11, concurrent paging oracle.
//
// The property speaks about ONE client's sweep over an unchanging collection; nothing in it allows
// the reply to depend on what other clients read at the same time. Read commands run in parallel
// under the shared lock and their replies are serialised after the handler has returned, so any
// state a reply shares with another request (recycled buffers, scratch slices kept in the server,
// a writer reused across requests) shows only when several clients page at once.
//
//	50 connections (ten per command: six OUTPUT json, four RESP) page through collections that
//	never change, each with its own command (SCAN / SEARCH / WITHIN / INTERSECTS / NEARBY), output
//	kind and a LIMIT sweep (every LIMIT 1..n+1 on the small collections; fractions of n, n-1, n,
//	n+1 and "unlimited" on the large ones), following the cursor until 0.
//	oracle: every sweep's concatenated pages == the client's own unlimited reply taken while the
//	server was idle (item by item, whole rendered item); a non-zero cursor comes with exactly
//	LIMIT items; the loop ends within n+2 requests; every reply is a well-formed page.
//
// The check is a race search: it is bounded by wall-clock time, not by a case count.
package main

import (
	"fmt"
	"math/rand"
	"os"
	"path/filepath"
	"sort"
	"strconv"
	"strings"
	"sync"
	"sync/atomic"
	"time"

	"verifharness/internal/hx"
	"verifharness/internal/srv"
)

type cjob struct {
	client int
	key    string
	cmd    string
	kind   string // "" = IDS, OBJECTS, POINTS, BOUNDS, HASHES
	json   bool
	tail   []string // tokens after CURSOR / LIMIT (filters, output kind, area)
	n      int      // entries of the collection
	expect []string // rendered items of the unlimited reply (idle server)
	limits []int
}

func (j cjob) argv(cursor, limit string) []string {
	a := []string{strings.ToUpper(j.cmd), j.key}
	if cursor != "" {
		a = append(a, "CURSOR", cursor)
	}
	if limit != "" {
		a = append(a, "LIMIT", limit)
	}
	return append(a, j.tail...)
}

func (j cjob) proto() string {
	if j.json {
		return "json"
	}
	return "resp"
}

// tryDo: like MustDo, without the panic (a client goroutine must not take the harness down)
func tryDo(c *srv.Conn, args []string) (srv.Value, error) {
	v, err := c.Do(args...)
	if err != nil {
		return v, fmt.Errorf("transport error on %q: %v", args, err)
	}
	return v, nil
}

func (j cjob) fetch(c *srv.Conn, cursor, limit string) (elemPage, error) {
	args := j.argv(cursor, limit)
	v, err := tryDo(c, args)
	if err != nil {
		return elemPage{}, err
	}
	if j.json {
		return parseJSON(v, args)
	}
	return parseElems(v, args)
}

type cfail struct {
	sig, what string
	job       cjob
	extra     map[string]interface{}
	impl, exp interface{}
}

func clip(items []string, around int) []string {
	lo, hi := around-2, around+3
	if lo < 0 {
		lo = 0
	}
	if hi > len(items) {
		hi = len(items)
	}
	if lo > hi {
		lo = hi
	}
	return items[lo:hi]
}

func short(s string) string {
	if len(s) > 300 {
		return s[:300] + "…"
	}
	return s
}

// concurrentDataset: the recipe is deterministic (no random history: the point is what happens
// between requests, not how the collection was reached); ids carry the collection number so that a
// page of another collection is recognisable in the report.
func concurrentDataset(c *srv.Conn, nbig, small, bigN, strN int) (keys []string, sizes map[string]int, recipe string) {
	d := &dataset{objs: map[string]map[string]obj{}}
	sizes = map[string]int{}
	for k := 0; k < nbig; k++ {
		key := fmt.Sprintf("fleet%02d", k)
		n := bigN + 37*k
		for i := 0; i < n; i++ {
			la, lo := float64(i/60)/4-8+float64(k)/16, float64(i%60)/4-7
			d.send(c, []string{"SET", key, fmt.Sprintf("t%02d-%05d", k, i), "FIELD", "f", strconv.Itoa(1 + i%5), "FIELD", "g", strconv.Itoa(1 + (i+k)%3), "POINT", fl(la), fl(lo)})
		}
		keys, sizes[key] = append(keys, key), n
	}
	for k := 0; k < 2; k++ {
		key := fmt.Sprintf("words%02d", k)
		for i := 0; i < strN; i++ {
			d.send(c, []string{"SET", key, fmt.Sprintf("w%02d-%05d", k, i), "FIELD", "f", strconv.Itoa(1 + i%5), "STRING", fmt.Sprintf("v%02d-%05d", k, (i*7919)%strN)})
		}
		keys, sizes[key] = append(keys, key), strN
	}
	for k := 0; k < small; k++ {
		key := fmt.Sprintf("few%02d", k)
		n := 23 + 9*k
		for i := 0; i < n; i++ {
			d.send(c, []string{"SET", key, fmt.Sprintf("s%02d-%03d", k, i), "FIELD", "f", strconv.Itoa(1 + i%5), "POINT", fl(float64(i/6)/2 - 3), fl(float64(i%6)/2 - 2)})
		}
		keys, sizes[key] = append(keys, key), n
	}
	for i := 0; i < 31; i++ {
		d.send(c, []string{"SET", "fewwords00", fmt.Sprintf("x00-%03d", i), "FIELD", "f", strconv.Itoa(1 + i%5), "STRING", fmt.Sprintf("u%03d", (i*17)%31)})
	}
	keys, sizes["fewwords00"] = append(keys, "fewwords00"), 31
	d.flush(c)
	recipe = fmt.Sprintf("fleetKK (KK=00..%02d): SET fleetKK tKK-%%05d FIELD f 1+i%%5 FIELD g 1+(i+K)%%3 POINT (i/60)/4-8+K/16 (i%%60)/4-7 for i < %d+37K; "+
		"wordsKK (KK=00,01): SET wordsKK wKK-%%05d FIELD f 1+i%%5 STRING vKK-%%05d((i*7919)%%%d) for i < %d; "+
		"fewKK (KK=00..%02d): SET fewKK sKK-%%03d FIELD f 1+i%%5 POINT (i/6)/2-3 (i%%6)/2-2 for i < 23+9K; "+
		"SET fewwords00 x00-%%03d FIELD f 1+i%%5 STRING u%%03d((i*17)%%31) for i < 31; nothing is written afterwards",
		nbig-1, bigN, strN, strN, small-1)
	return
}

// concurrentJobs: perCmd (10) clients per command — per five, three on large collections (two OUTPUT json, one RESP)
// and two on small ones (one json, one RESP: short requests at a high rate, the ones that fall into
// another request's window) — so that every command always has several requests of its own kind in
// flight in both protocols. Output kind, direction and filter cycle with the client number.
func concurrentJobs(keys []string, sizes map[string]int, perCmd int, rng *rand.Rand) []cjob {
	var fleets, words, few, fewWords []string
	for _, k := range keys {
		switch {
		case strings.HasPrefix(k, "fleet"):
			fleets = append(fleets, k)
		case strings.HasPrefix(k, "words"):
			words = append(words, k)
		case strings.HasPrefix(k, "fewwords"):
			fewWords = append(fewWords, k)
		default:
			few = append(few, k)
		}
	}
	kinds := []string{"", "OBJECTS", "POINTS", "", "HASHES", "BOUNDS", ""}
	var jobs []cjob
	for ci, cmd := range []string{"scan", "search", "within", "intersects", "nearby"} {
		for n := 0; n < perCmd; n++ {
			slot := n % 5 // 0, 1: large collection, json; 2: large, RESP; 3: small, json; 4: small, RESP
			i := len(jobs)
			j := cjob{client: i, cmd: cmd, json: slot != 2 && slot != 4}
			large, small := fleets, few
			if cmd == "search" {
				large, small = words, fewWords
			}
			if slot < 3 {
				j.key = large[(ci+n)%len(large)]
			} else {
				j.key = small[(ci+n)%len(small)]
			}
			j.n = sizes[j.key]
			if cmd == "search" {
				if slot%2 == 1 {
					j.kind = "OBJECTS"
				}
			} else {
				j.kind = kinds[(ci+2*n)%len(kinds)]
			}
			if (cmd == "scan" || cmd == "search") && slot%2 == 1 {
				j.tail = append(j.tail, "DESC")
			}
			switch (ci + n) % 5 {
			case 1:
				j.tail = append(j.tail, "WHERE", "f", "2", "5")
			case 3:
				if cmd != "search" { // SEARCH matches values
					j.tail = append(j.tail, "MATCH", "*"+strconv.Itoa(i%10)+"*")
				}
			}
			if j.kind == "HASHES" {
				j.tail = append(j.tail, "HASHES", "7")
			} else if j.kind != "" {
				j.tail = append(j.tail, j.kind)
			} else {
				j.tail = append(j.tail, "IDS")
			}
			switch cmd {
			case "within", "intersects":
				j.tail = append(j.tail, "BOUNDS", "-60", "-60", "60", "60")
			case "nearby":
				j.tail = append(j.tail, "POINT", "0.1", "0.2")
			}
			jobs = append(jobs, j)
		}
	}
	return jobs
}

func sweepLimits(n, matched int, rng *rand.Rand) []int {
	var ls []int
	if n <= 120 {
		for L := 1; L <= n+1; L++ {
			ls = append(ls, L)
		}
		rng.Shuffle(len(ls), func(a, b int) { ls[a], ls[b] = ls[b], ls[a] })
		return ls
	}
	m := matched
	if m < 16 {
		m = 16
	}
	seen := map[int]bool{}
	for _, L := range []int{m / 11, m / 7, m / 5, m / 3, m / 2, m - 1, m, m + 1, n, n + 1, 2*n + 7, 1000000, 97 + rng.Intn(m), 1 + rng.Intn(2*m)} {
		if L >= 1 && !seen[L] {
			seen[L] = true
			ls = append(ls, L)
		}
	}
	rng.Shuffle(len(ls), func(a, b int) { ls[a], ls[b] = ls[b], ls[a] })
	return ls
}

// sweep pages once through the job's query with one LIMIT; returns the number of non-empty pages
func (j cjob) sweep(c *srv.Conn, L int) (nonempty int, f *cfail) {
	ls := strconv.Itoa(L)
	cursor := "0"
	var all []string
	pages := 0
	for {
		p, err := j.fetch(c, cursor, ls)
		if err != nil {
			return nonempty, &cfail{sig: "cursor-concurrent-reply-" + j.cmd, what: "while other clients page through other collections: " + short(err.Error()), job: j,
				extra: map[string]interface{}{"limit": L, "cursor": cursor}}
		}
		pages++
		if len(p.elems) > 0 {
			nonempty++
		}
		if p.cursor != "0" && len(p.elems) != L {
			return nonempty, &cfail{sig: "cursor-concurrent-short-page", what: fmt.Sprintf("non-zero cursor %s with %d items on a LIMIT %d page while other clients page through other collections", p.cursor, len(p.elems), L), job: j,
				extra: map[string]interface{}{"limit": L, "cursor": cursor}, impl: clip(p.elems, 0)}
		}
		// compare as the pages arrive: the report names the first wrong position
		for _, e := range p.elems {
			k := len(all)
			all = append(all, e)
			if k >= len(j.expect) || j.expect[k] != e {
				exp := "(nothing: the unlimited reply has " + strconv.Itoa(len(j.expect)) + " items)"
				if k < len(j.expect) {
					exp = j.expect[k]
				}
				return nonempty, &cfail{sig: "cursor-concurrent-pages-" + j.cmd,
					what: fmt.Sprintf("while other clients page through other collections, item %d of the sweep (page %d: CURSOR %s LIMIT %d) is %s; the same query, unlimited, on the idle server gave %s", k, pages, cursor, L, short(e), short(exp)),
					job:  j, extra: map[string]interface{}{"limit": L, "cursor": cursor, "position": k}, impl: clip(all, k), exp: clip(j.expect, k)}
			}
		}
		if p.cursor == "0" {
			break
		}
		if pages > j.n+2 {
			return nonempty, &cfail{sig: "cursor-concurrent-no-termination", what: fmt.Sprintf("LIMIT %d: more than n+2 = %d pages without a 0 cursor", L, j.n+2), job: j, extra: map[string]interface{}{"limit": L}}
		}
		cursor = p.cursor
	}
	if len(all) != len(j.expect) {
		return nonempty, &cfail{sig: "cursor-concurrent-pages-" + j.cmd,
			what: fmt.Sprintf("while other clients page through other collections the sweep with LIMIT %d ended (cursor 0) after %d items; the same query, unlimited, on the idle server gave %d", L, len(all), len(j.expect)),
			job:  j, extra: map[string]interface{}{"limit": L, "position": len(all)}, impl: clip(all, len(all)), exp: clip(j.expect, len(all))}
	}
	return nonempty, nil
}

func runConcurrent(r *hx.Result, cfg hx.Config, rng *rand.Rand) {
	nbig, small, bigN, strN := 6, 2, 2200, 1800
	budget := 12 * time.Second
	if cfg.Tier == "thorough" {
		budget = 40 * time.Second
	}
	if cfg.Search {
		budget = 30 * time.Second
	}
	s, err := srv.Start(filepath.Join(cfg.Work, "c11-concurrent"), "--appendonly", "no")
	if err != nil {
		panic(err)
	}
	defer s.Kill()
	c := s.MustDial()
	defer c.Close()
	keys, sizes, recipe := concurrentDataset(c, nbig, small, bigN, strN)
	perCmd := 10
	if v, err := strconv.Atoi(os.Getenv("VERIF_C11_PERCMD")); err == nil && v > 0 {
		perCmd = v
	}
	jobs := concurrentJobs(keys, sizes, perCmd, rng)
	conns := make([]*srv.Conn, len(jobs))
	for i := range jobs {
		conns[i] = s.MustDial()
		defer conns[i].Close()
		if jobs[i].json {
			if v := conns[i].MustDo("OUTPUT", "json"); v.IsErr() {
				panic("OUTPUT json: " + v.String())
			}
		}
	}
	report := func(f *cfail) {
		cs := map[string]interface{}{
			"phase":   "concurrent paging",
			"dataset": recipe,
			"client":  fmt.Sprintf("client %d of %d (%s output)", f.job.client, len(jobs), f.job.proto()),
			"query":   strings.Join(f.job.argv("<cursor>", "<limit>"), " "),
			"others":  "the other clients run, at the same time and each over its own connection: " + otherQueries(jobs, f.job.client),
			"timing":  "race: needs the other clients' requests in flight; repeat the run if it does not show at once",
		}
		for k, v := range f.extra {
			cs[k] = v
		}
		r.Fail(hx.Failure{Kind: "oracle", Signature: f.sig, What: f.what, Case: cs, Impl: f.impl, Model: f.exp})
	}
	// idle phase: one client at a time — the reference replies, and one quiet sweep each (must pass)
	for i := range jobs {
		p, err := jobs[i].fetch(conns[i], "", big)
		if err != nil {
			report(&cfail{sig: "cursor-concurrent-reply-" + jobs[i].cmd, what: "idle server: " + short(err.Error()), job: jobs[i]})
			return
		}
		if p.cursor != "0" {
			report(&cfail{sig: "cursor-unlimited-nonzero", what: "LIMIT " + big + " returned a non-zero cursor " + p.cursor, job: jobs[i]})
			return
		}
		jobs[i].expect = p.elems
		jobs[i].limits = sweepLimits(jobs[i].n, len(p.elems), rand.New(rand.NewSource(cfg.Seed+int64(i))))
		L := jobs[i].limits[0]
		ne, f := jobs[i].sweep(conns[i], L)
		r.Count(fmt.Sprintf("idle/%d/%s/L%d", i, strings.Join(jobs[i].argv("", ""), " "), L), ne >= 2)
		r.Dist("concurrent:idle-sweep")
		if f != nil {
			f.what = "idle server (one client): " + f.what
			report(f)
			return
		}
	}
	// busy phase
	var (
		mu       sync.Mutex
		fails    []*cfail
		stop     int32
		wg       sync.WaitGroup
		counts   = make([]map[string]bool, len(jobs))
		requests int64
	)
	deadline := time.Now().Add(budget).UnixNano() // pulled in to "2 s from now" by the first failure
	for i := range jobs {
		wg.Add(1)
		counts[i] = map[string]bool{}
		go func(i int) {
			defer wg.Done()
			defer func() {
				if v := recover(); v != nil {
					mu.Lock()
					fails = append(fails, &cfail{sig: "cursor-concurrent-reply-" + jobs[i].cmd, what: fmt.Sprint(v), job: jobs[i]})
					mu.Unlock()
					atomic.StoreInt32(&stop, 1)
				}
			}()
			j := jobs[i]
			for turn := 0; atomic.LoadInt32(&stop) == 0 && time.Now().UnixNano() < atomic.LoadInt64(&deadline); turn++ {
				L := j.limits[turn%len(j.limits)]
				ne, f := j.sweep(conns[i], L)
				atomic.AddInt64(&requests, 1)
				key := fmt.Sprintf("busy/%d/%s/L%d", i, strings.Join(j.argv("", ""), " "), L)
				counts[i][key] = counts[i][key] || ne >= 2
				if f != nil {
					mu.Lock()
					fails = append(fails, f)
					n := len(fails)
					mu.Unlock()
					if n >= 3 {
						atomic.StoreInt32(&stop, 1)
					}
					if soon := time.Now().Add(2 * time.Second).UnixNano(); soon < atomic.LoadInt64(&deadline) {
						atomic.StoreInt64(&deadline, soon)
					}
					return // this connection may be out of step with its replies
				}
			}
		}(i)
	}
	wg.Wait()
	sweeps := 0
	for i := range counts {
		ks := make([]string, 0, len(counts[i]))
		for k := range counts[i] {
			ks = append(ks, k)
		}
		sort.Strings(ks)
		for _, k := range ks {
			r.Count(k, counts[i][k])
			r.Dist("concurrent:busy-sweep")
			r.Dist("concurrent:" + jobs[i].cmd + "/" + jobs[i].proto())
			sweeps++
		}
	}
	if !s.Alive() {
		r.Fail(hx.Failure{Kind: "oracle", Signature: "cursor-concurrent-server-died", What: "the server died while " + strconv.Itoa(len(jobs)) + " clients were paging: " + s.LogTail(600),
			Case: map[string]interface{}{"phase": "concurrent paging", "dataset": recipe, "others": otherQueries(jobs, -1)}})
	}
	sort.Slice(fails, func(a, b int) bool { return fails[a].job.client < fails[b].job.client })
	for _, f := range fails {
		report(f)
	}
	r.Sample(12, map[string]interface{}{"phase": "concurrent paging", "clients": len(jobs), "collections": len(keys), "distinct_sweeps": sweeps, "sweeps_run": atomic.LoadInt64(&requests), "budget_s": budget.Seconds()})
}


func otherQueries(jobs []cjob, except int) string {
	var qs []string
	for _, j := range jobs {
		if j.client != except {
			qs = append(qs, "["+j.proto()+"] "+strings.Join(j.argv("<cursor>", "<limit>"), " "))
		}
	}
	return strings.Join(qs, "; ")
}
