// C11 — cursor pagination is complete and duplicate-free.
//
// Black-box against a real server (--appendonly no): random collections reached by random
// histories x queries (SCAN / SEARCH / WITHIN / INTERSECTS / NEARBY) x MATCH / WHERE / WHEREIN
// filters x ASC / DESC x every LIMIT in 1..n+1.
//
//	direct oracle    concatenated pages == the reply of one unlimited query; the loop ends with
//	                 cursor 0 within n+2 requests; a query without LIMIT (n < 100) == LIMIT 10^6
//	correspondence   each page's (ids, cursor) == Model.Cursor.page fed with the unfiltered
//	                 iteration order (taken from the unlimited, unfiltered reply) and the filter
//	                 outcome per id computed on the client; plus requests with arbitrary cursors
//	                 (never returned by the server, beyond the end, 2^64-1)
package main

import (
	"encoding/json"
	"fmt"
	"math"
	"math/rand"
	"os"
	"path/filepath"
	"sort"
	"strconv"
	"strings"

	"github.com/tidwall/tile38/verifapi"
	"verifharness/internal/hx"
	"verifharness/internal/model"
	"verifharness/internal/srv"
)

func main() { hx.Main("C11", runC11) }

const big = "1000000"

type obj struct {
	id     string
	kind   string // point | bounds | string
	a      [4]float64
	val    string
	fields map[string]int
}

func (o obj) geo() verifapi.Geo {
	if o.kind == "point" {
		return verifapi.GeoPoint(o.a[0], o.a[1])
	}
	return verifapi.GeoBounds(o.a[0], o.a[1], o.a[2], o.a[3])
}

// fields a WHEREEVAL script may read; `speed` is carried only by some objects (a missing field is
// nil in Lua: the script's `or 0` reads it as 0, like WHERE does)
var evalFields = []string{"f", "g", "speed"}

type filters struct {
	match     string // "" = none
	where     *[3]int
	wherein   []int   // values for field g
	whereeval *[2]int // Lua filter: field index (f / g), threshold: (FIELDS.<field> or 0) >= threshold
}

func (f filters) args() []string {
	var a []string
	if f.match != "" {
		a = append(a, "MATCH", f.match)
	}
	if f.where != nil {
		a = append(a, "WHERE", []string{"f", "g"}[f.where[0]], strconv.Itoa(f.where[1]), strconv.Itoa(f.where[2]))
	}
	if f.wherein != nil {
		a = append(a, "WHEREIN", "g", strconv.Itoa(len(f.wherein)))
		for _, v := range f.wherein {
			a = append(a, strconv.Itoa(v))
		}
	}
	if f.whereeval != nil {
		a = append(a, "WHEREEVAL", "return (FIELDS."+evalFields[f.whereeval[0]]+" or 0) >= tonumber(ARGV[1])", "1", strconv.Itoa(f.whereeval[1]))
	}
	return a
}

func (f filters) empty() bool {
	return f.match == "" && f.where == nil && f.wherein == nil && f.whereeval == nil
}

// accept is pushObject's testObject computed on the client: glob on the id (SEARCH: on the
// value), WHERE min <= field <= max with a missing field reading 0, WHEREIN membership.
func (f filters) accept(o obj, matchValues bool) bool {
	if f.match != "" {
		s := o.id
		if matchValues {
			s = o.val
		}
		if ok, _ := verifapi.GlobMatch(f.match, s); !ok {
			return false
		}
	}
	if f.where != nil {
		v := o.fields[[]string{"f", "g"}[f.where[0]]]
		if v < f.where[1] || v > f.where[2] {
			return false
		}
	}
	if f.wherein != nil {
		v := o.fields["g"]
		found := false
		for _, w := range f.wherein {
			if w == v {
				found = true
			}
		}
		if !found {
			return false
		}
	}
	if f.whereeval != nil {
		if o.fields[evalFields[f.whereeval[0]]] < f.whereeval[1] {
			return false
		}
	}
	return true
}

type query struct {
	cmd   string // scan search within intersects nearby
	key   string
	desc  int // 0 none, 1 ASC, 2 DESC
	flt   filters
	area  []string // area tokens
	ageo  verifapi.Geo
	lat   float64
	lon   float64
	rad   float64 // < 0: none
	sdist bool    // DISTANCE keyword
	out   string  // output kind: "" = IDS, OBJECTS, POINTS, BOUNDS, HASHES, COUNT
}

func (q query) argv(cursor, limit string, flt filters) []string {
	a := []string{strings.ToUpper(q.cmd), q.key}
	if cursor != "" {
		a = append(a, "CURSOR", cursor)
	}
	if limit != "" {
		a = append(a, "LIMIT", limit)
	}
	a = append(a, flt.args()...)
	switch q.desc {
	case 1:
		a = append(a, "ASC")
	case 2:
		a = append(a, "DESC")
	}
	if q.cmd == "nearby" && q.sdist {
		a = append(a, "DISTANCE")
	}
	switch q.out {
	case "":
		a = append(a, "IDS")
	case "HASHES":
		a = append(a, "HASHES", "7")
	default:
		a = append(a, q.out)
	}
	a = append(a, q.area...)
	return a
}

func fl(x float64) string { return strconv.FormatFloat(x, 'f', -1, 64) }

type page struct {
	ids    []string
	dists  []string
	cursor string
}

func (p page) view() map[string]interface{} {
	return map[string]interface{}{"ids": p.ids, "cursor": p.cursor}
}

// do issues one query and decodes [cursor, [id | [id dist] ...]]
func do(c *srv.Conn, args []string) (page, error) {
	v := c.MustDo(args...)
	if v.Kind != '*' || len(v.Array) != 2 || v.Array[0].Kind != ':' || v.Array[1].Kind != '*' {
		return page{}, fmt.Errorf("unexpected reply %s to %q", v.String(), args)
	}
	p := page{cursor: strconv.FormatUint(uint64(v.Array[0].Int), 10), ids: []string{}}
	for _, e := range v.Array[1].Array {
		if e.Kind == '*' {
			if len(e.Array) < 1 {
				return page{}, fmt.Errorf("empty item in %s", v.String())
			}
			p.ids = append(p.ids, e.Array[0].Str)
			if len(e.Array) > 1 {
				p.dists = append(p.dists, e.Array[1].Str)
			}
		} else {
			p.ids = append(p.ids, e.Str)
		}
	}
	return p, nil
}

func dash(s string) string {
	if s == "" {
		return "-"
	}
	return s
}

func join(ids []string) string { return strings.Join(ids, "\x01") }

func idxList(pos []int) string {
	if len(pos) == 0 {
		return "-"
	}
	s := make([]string, len(pos))
	for i, p := range pos {
		s[i] = strconv.Itoa(p)
	}
	return strings.Join(s, ",")
}

// ---- dataset ----

type dataset struct {
	objs     map[string]map[string]obj // key -> id -> obj
	ops      []string                  // the history, for the replay record
	inflight [][]string                // writes sent but not yet answered (pipelined bulk load)
}

// send pipelines one write; flush reads the outstanding replies (at most 128 in flight).
func (d *dataset) send(c *srv.Conn, args []string) {
	if err := c.Send(args...); err != nil {
		panic(fmt.Sprintf("transport error on %q: %v", args, err))
	}
	d.inflight = append(d.inflight, args)
	if len(d.inflight) >= 128 {
		d.flush(c)
	}
}

func (d *dataset) flush(c *srv.Conn) {
	for _, args := range d.inflight {
		v, err := c.Read()
		if err != nil {
			panic(fmt.Sprintf("transport error on %q: %v", args, err))
		}
		if v.IsErr() {
			panic(fmt.Sprintf("write failed: %q -> %s", args, v.String()))
		}
	}
	d.inflight = nil
}

func grid(rng *rand.Rand, span int) float64 { return float64(rng.Intn(4*span+1))/2 - float64(span) }

func randID(rng *rand.Rand) string {
	al := []string{"a", "b", "c", "a", "b", "1", "_"}
	n := 1 + rng.Intn(3)
	s := ""
	for i := 0; i < n; i++ {
		s += al[rng.Intn(len(al))]
	}
	return s
}

func (d *dataset) set(c *srv.Conn, key string, o obj) {
	args := []string{"SET", key, o.id}
	names := make([]string, 0, len(o.fields))
	for k := range o.fields {
		names = append(names, k)
	}
	sort.Strings(names)
	for _, k := range names {
		args = append(args, "FIELD", k, strconv.Itoa(o.fields[k]))
	}
	switch o.kind {
	case "point":
		args = append(args, "POINT", fl(o.a[0]), fl(o.a[1]))
	case "bounds":
		args = append(args, "BOUNDS", fl(o.a[0]), fl(o.a[1]), fl(o.a[2]), fl(o.a[3]))
	case "string":
		args = append(args, "STRING", o.val)
	}
	d.send(c, args)
	if d.objs[key] == nil {
		d.objs[key] = map[string]obj{}
	}
	// cmdSet keeps the fields of the object it replaces and applies the FIELD arguments on top
	// (a zero value removes the field; a missing field reads 0 in the filters anyway)
	merged := map[string]int{}
	if old, ok := d.objs[key][o.id]; ok {
		for k, v := range old.fields {
			merged[k] = v
		}
	}
	for k, v := range o.fields {
		merged[k] = v
	}
	for k, v := range merged {
		if v == 0 {
			delete(merged, k)
		}
	}
	o.fields = merged
	d.objs[key][o.id] = o
	d.ops = append(d.ops, strings.Join(args, " "))
}

func (d *dataset) del(c *srv.Conn, key, id string) {
	d.send(c, []string{"DEL", key, id})
	delete(d.objs[key], id)
	d.ops = append(d.ops, "DEL "+key+" "+id)
}

func randObj(rng *rand.Rand, id, key string) obj {
	o := obj{id: id, fields: map[string]int{}}
	if rng.Intn(4) != 0 {
		o.fields["f"] = rng.Intn(6)
	}
	if rng.Intn(3) != 0 {
		o.fields["g"] = rng.Intn(3) + 1
	}
	if rng.Intn(2) == 0 {
		o.fields["speed"] = 10 * (1 + rng.Intn(6))
	}
	// a zero field is not stored; keep the client-side view identical
	for k, v := range o.fields {
		if v == 0 {
			delete(o.fields, k)
		}
	}
	kind := "point"
	switch key {
	case "strs":
		kind = "string"
	case "mix":
		kind = []string{"point", "bounds", "string", "string"}[rng.Intn(4)]
	case "pts":
		if rng.Intn(4) == 0 {
			kind = "bounds"
		}
	}
	o.kind = kind
	switch kind {
	case "point":
		o.a = [4]float64{grid(rng, 8), grid(rng, 8)}
	case "bounds":
		la, lo := grid(rng, 8), grid(rng, 8)
		o.a = [4]float64{la, lo, la + float64(rng.Intn(5))/2, lo + float64(rng.Intn(5))/2}
	case "string":
		al := []string{"a", "b", "c", "a", "b", "x"}
		n := rng.Intn(4)
		for i := 0; i < n; i++ {
			o.val += al[rng.Intn(len(al))]
		}
	}
	return o
}

// sp: odd entries carry `speed`, even ones do not — objects of one collection with different
// field sets, for WHEREEVAL scripts that read a sometimes-missing field
func sp(i int, m map[string]int) map[string]int {
	if i%2 == 1 {
		m["speed"] = 50
	}
	return m
}

func buildDataset(rng *rand.Rand, c *srv.Conn, r *hx.Result, mode string) *dataset {
	d := &dataset{objs: map[string]map[string]obj{}}
	defer d.flush(c)
	if mode == "big" {
		// directed corpus: more than 255 index entries per iterator, so that pages cross the
		// 256-entry yield steps of nextStep (visited entries 255, 511, ...): 300 points on a
		// half-integer grid, 300 strings, 600 objects in the mixed key
		for i := 0; i < 300; i++ {
			la, lo := float64(i/20)/2-4, float64(i%20)/2-5
			d.set(c, "pts", obj{id: fmt.Sprintf("p%04d", i), kind: "point", a: [4]float64{la, lo}, fields: sp(i, map[string]int{"f": i % 5, "g": 1 + i%3})})
			d.set(c, "strs", obj{id: fmt.Sprintf("s%04d", i), kind: "string", val: fmt.Sprintf("v%03d", (i*7)%300/2), fields: sp(i, map[string]int{"f": i % 5})})
			d.set(c, "mix", obj{id: fmt.Sprintf("p%04d", i), kind: "point", a: [4]float64{la, lo}, fields: sp(i, map[string]int{"g": 1 + i%3})})
			d.set(c, "mix", obj{id: fmt.Sprintf("s%04d", i), kind: "string", val: fmt.Sprintf("v%03d", i%150), fields: map[string]int{}})
		}
		return d
	}
	if mode == "fixed" {
		// regression corpus: small fixed collections; LIMITs that hit exactly the end are part of
		// the LIMIT sweep
		for i, id := range []string{"a", "ab", "abc", "b", "b1", "c"} {
			d.set(c, "pts", obj{id: id, kind: "point", a: [4]float64{float64(i), float64(i % 3)}, fields: sp(i, map[string]int{"f": i % 3, "g": 1 + i%2})})
			d.set(c, "strs", obj{id: id, kind: "string", val: []string{"b", "a", "ab", "b", "", "c"}[i], fields: sp(i, map[string]int{"f": i % 3})})
			d.set(c, "mix", obj{id: id, kind: []string{"point", "string"}[i%2], a: [4]float64{1, 1}, val: "v" + id, fields: sp(i/2, map[string]int{})})
		}
		for k := range d.objs {
			for id, o := range d.objs[k] {
				for f, v := range o.fields {
					if v == 0 {
						delete(d.objs[k][id].fields, f)
					}
				}
			}
		}
		return d
	}
	for _, key := range []string{"pts", "strs", "mix"} {
		n := rng.Intn(26)
		switch rng.Intn(8) {
		case 0:
			n = 0
		case 1:
			n = 270 + rng.Intn(130) // above the 256-entry yield step of nextStep
			r.Dist("dataset:large")
		}
		pool := []string{}
		for i := 0; i < n; i++ {
			id := randID(rng)
			if n > 100 {
				id += strconv.Itoa(i % 50)
			}
			pool = append(pool, id)
		}
		// history: inserts, overwrites (moves), deletes, re-inserts over a small id pool
		for i := 0; i < 2*n; i++ {
			id := pool[rng.Intn(len(pool))]
			switch rng.Intn(10) {
			case 0, 1:
				if _, ok := d.objs[key][id]; ok {
					d.del(c, key, id)
					r.Dist("hist:del")
					continue
				}
				fallthrough
			default:
				if _, ok := d.objs[key][id]; ok {
					r.Dist("hist:overwrite")
				} else {
					r.Dist("hist:insert")
				}
				d.set(c, key, randObj(rng, id, key))
			}
		}
	}
	return d
}

func randFilters(rng *rand.Rand, ids []string, vals []string, matchValues bool) filters {
	var f filters
	if rng.Intn(2) == 0 {
		base := ids
		if matchValues {
			base = vals
		}
		pick := "a"
		if len(base) > 0 {
			pick = base[rng.Intn(len(base))]
		}
		cut := 0
		if len(pick) > 0 {
			cut = rng.Intn(len(pick) + 1)
		}
		switch rng.Intn(7) {
		case 0:
			f.match = "*"
		case 1, 2:
			f.match = pick[:cut] + "*"
		case 3:
			f.match = "*" + pick[cut:]
		case 4:
			f.match = pick[:cut] + "?*"
		case 5:
			f.match = "[ab]*"
		case 6:
			f.match = pick
		}
		if f.match == "" {
			f.match = "*"
		}
	}
	if rng.Intn(2) == 0 {
		lo := rng.Intn(5)
		f.where = &[3]int{rng.Intn(2), lo, lo + rng.Intn(4)}
	}
	if rng.Intn(3) == 0 {
		n := 1 + rng.Intn(2)
		for i := 0; i < n; i++ {
			f.wherein = append(f.wherein, rng.Intn(4))
		}
	}
	if rng.Intn(5) == 0 {
		f.whereeval = &[2]int{rng.Intn(3), rng.Intn(4)}
		if f.whereeval[0] == 2 {
			f.whereeval[1] = 10 * rng.Intn(7)
		}
	}
	return f
}

// ---- one query: unlimited reply, source order, LIMIT sweep ----

type ctx struct {
	r     *hx.Result
	cfg   hx.Config
	c     *srv.Conn
	drv   *model.Driver
	d     *dataset
	round int
	rng   *rand.Rand
	cj    *srv.Conn // a second connection switched to OUTPUT json
}

// elemPage: one reply in any output kind / protocol: per item its id and a canonical rendering of
// the whole item (without the page-dependent "fields" columns of JSON replies)
type elemPage struct {
	ids    []string
	elems  []string
	cursor string
}

func (p elemPage) view() map[string]interface{} {
	return map[string]interface{}{"ids": p.ids, "cursor": p.cursor}
}

func doElems(c *srv.Conn, args []string) (elemPage, error) {
	return parseElems(c.MustDo(args...), args)
}

func parseElems(v srv.Value, args []string) (elemPage, error) {
	if v.Kind != '*' || len(v.Array) != 2 || v.Array[0].Kind != ':' || v.Array[1].Kind != '*' {
		return elemPage{}, fmt.Errorf("unexpected reply %s to %q", v.String(), args)
	}
	p := elemPage{cursor: strconv.FormatUint(uint64(v.Array[0].Int), 10), ids: []string{}}
	for _, e := range v.Array[1].Array {
		id := e.Str
		if e.Kind == '*' {
			if len(e.Array) < 1 {
				return elemPage{}, fmt.Errorf("empty item in %s", v.String())
			}
			id = e.Array[0].Str
		}
		p.ids = append(p.ids, id)
		p.elems = append(p.elems, e.String())
	}
	return p, nil
}

func doJSON(c *srv.Conn, args []string) (elemPage, error) {
	return parseJSON(c.MustDo(args...), args)
}

func parseJSON(v srv.Value, args []string) (elemPage, error) {
	if v.Kind != '$' {
		return elemPage{}, fmt.Errorf("unexpected reply %s to %q in JSON mode", v.String(), args)
	}
	var doc map[string]json.RawMessage
	if err := json.Unmarshal([]byte(v.Str), &doc); err != nil {
		return elemPage{}, fmt.Errorf("reply to %q is not a JSON document: %v: %s", args, err, v.Str)
	}
	if string(doc["ok"]) != "true" {
		return elemPage{}, fmt.Errorf("reply to %q: %s", args, v.Str)
	}
	var cur json.Number
	if err := json.Unmarshal(doc["cursor"], &cur); err != nil {
		return elemPage{}, fmt.Errorf("no cursor member in %s", v.Str)
	}
	p := elemPage{cursor: cur.String(), ids: []string{}}
	var items []json.RawMessage
	for _, k := range []string{"ids", "objects", "points", "bounds", "hashes"} {
		if raw, ok := doc[k]; ok {
			if err := json.Unmarshal(raw, &items); err != nil {
				return elemPage{}, fmt.Errorf("member %s is not an array in %s", k, v.Str)
			}
		}
	}
	for _, it := range items {
		var id string
		if json.Unmarshal(it, &id) == nil {
			p.ids = append(p.ids, id)
			p.elems = append(p.elems, string(it))
			continue
		}
		var m map[string]json.RawMessage
		if err := json.Unmarshal(it, &m); err != nil {
			return elemPage{}, fmt.Errorf("item %s is neither a string nor an object", string(it))
		}
		if err := json.Unmarshal(m["id"], &id); err != nil {
			return elemPage{}, fmt.Errorf("item %s has no id", string(it))
		}
		delete(m, "fields") // columns follow the page's own "fields" header
		b, _ := json.Marshal(m)
		p.ids = append(p.ids, id)
		p.elems = append(p.elems, string(b))
	}
	return p, nil
}

// runOutput: the same query in another output kind (OBJECTS / POINTS / BOUNDS / HASHES) and / or
// in JSON mode: the pages concatenate to the unlimited reply item by item, and every page's ids and
// cursor are those of Model.Cursor.page — the output kind takes no part in numberItems / hitLimit.
func (x *ctx) runOutput(q query, src source, kind string, jsonMode bool, idsUnl []string) {
	q.out = kind
	fetch := func(args []string) (elemPage, error) {
		if jsonMode {
			return doJSON(x.cj, args)
		}
		return doElems(x.c, args)
	}
	tag := kind
	if tag == "" {
		tag = "IDS"
	}
	if jsonMode {
		tag += "-json"
	}
	unl, err := fetch(q.argv("", big, q.flt))
	if err != nil {
		x.fail("oracle", "cursor-reply-shape", err.Error(), q, map[string]interface{}{"output": tag}, nil, nil)
		return
	}
	if join(unl.ids) != join(idsUnl) || unl.cursor != "0" {
		x.fail("oracle", "cursor-output-kind", "the unlimited reply in output "+tag+" lists other ids than the IDS reply (or a non-zero cursor)", q, map[string]interface{}{"output": tag}, unl.view(), idsUnl)
		return
	}
	n := src.n
	var ls []int
	seen := map[int]bool{}
	for _, L := range []int{1, 2, 3, n / 2, n - 1, n, n + 1, 7, 255, 256} {
		if L >= 1 && L <= n+1 && !seen[L] && (n <= 60 || L >= 7) {
			seen[L] = true
			ls = append(ls, L)
		}
	}
	for _, L := range ls {
		lim := strconv.Itoa(L)
		cursor := "0"
		var all []string
		npages, nonempty := 0, 0
		for {
			p, err := fetch(q.argv(cursor, lim, q.flt))
			if err != nil {
				x.fail("oracle", "cursor-reply-shape", err.Error(), q, map[string]interface{}{"output": tag, "limit": L, "cursor": cursor}, nil, nil)
				return
			}
			npages++
			if len(p.ids) > 0 {
				nonempty++
			}
			mi, mc, raw := x.modelPage(src, lim, cursor)
			if mc != p.cursor || join(mi) != join(p.ids) {
				x.fail("correspondence", "cursor-page-model", fmt.Sprintf("output %s: page (LIMIT %d CURSOR %s) differs from Model.Cursor.page", tag, L, cursor), q,
					map[string]interface{}{"output": tag, "limit": L, "cursor": cursor}, p.view(), raw)
			}
			all = append(all, p.elems...)
			if p.cursor == "0" {
				break
			}
			if npages > n+2 {
				x.fail("oracle", "cursor-no-termination", fmt.Sprintf("output %s LIMIT %d: more than n+2 = %d pages without a 0 cursor", tag, L, n+2), q, map[string]interface{}{"output": tag, "limit": L}, nil, nil)
				return
			}
			cursor = p.cursor
		}
		x.r.Count(fmt.Sprintf("%d/%s/%s/L%d", x.round, strings.Join(q.argv("", "", q.flt), " "), tag, L), nonempty >= 2)
		x.r.Dist("output:" + tag)
		if join(all) != join(unl.elems) {
			x.fail("oracle", "cursor-pages-"+q.cmd, fmt.Sprintf("output %s LIMIT %d: the concatenated pages differ item by item from the unlimited reply", tag, L), q,
				map[string]interface{}{"output": tag, "limit": L}, all, unl.elems)
		}
	}
}

// runCount: COUNT output with CURSOR / LIMIT against Model.Cursor.count_query (the counting
// iteration).  Only where the server runs that iteration: SCAN / SEARCH without any filter take
// the COUNT shortcut, which today ignores LIMIT (reported to C12; recorded as an observation).
func (x *ctx) runCount(q query, src source) {
	if src.es == "" {
		return
	}
	shortcut := (q.cmd == "scan" || q.cmd == "search") && q.flt.where == nil && q.flt.wherein == nil && q.flt.whereeval == nil && (q.flt.match == "" || q.flt.match == "*")
	q.out = "COUNT"
	for t := 0; t < 4; t++ {
		limit, cursor := "", strconv.Itoa(x.rng.Intn(src.n+2))
		mlimit := "18446744073709551615" // newScanWriter: COUNT without LIMIT counts without bound
		if t > 0 {
			limit = strconv.Itoa(1 + x.rng.Intn(src.n+2))
			mlimit = limit
		}
		if t == 1 {
			cursor = ""
		}
		v := x.c.MustDo(q.argv(cursor, limit, q.flt)...)
		mc := cursor
		if mc == "" {
			mc = "0"
		}
		mod := x.drv.Ask("count", mlimit, mc, src.es)
		x.r.Dist("count-query")
		if v.Kind != ':' {
			x.fail("oracle", "cursor-reply-shape", "COUNT reply is not an integer: "+v.String(), q, map[string]interface{}{"limit": limit, "cursor": cursor}, nil, nil)
			continue
		}
		if strconv.FormatInt(v.Int, 10) != mod {
			if shortcut {
				x.r.Dist("obs:count-shortcut-ignores-limit")
				if _, ok := x.r.Extra["count_shortcut_limit"]; !ok {
					x.r.Extra["count_shortcut_limit"] = fmt.Sprintf("%s -> %d, the counting iteration (Model.Cursor.count_query, and the same query with any accept-all filter) gives %s: the COUNT shortcut ignores LIMIT (property C12; proposed_fixes/C12-count-shortcut-limit.diff)", strings.Join(q.argv(cursor, limit, q.flt), " "), v.Int, mod)
				}
				continue
			}
			x.fail("correspondence", "cursor-count-model", "COUNT reply differs from Model.Cursor.count_query", q, map[string]interface{}{"limit": limit, "cursor": cursor}, v.Int, mod)
		}
	}
}

func (x *ctx) fail(kind, sig, what string, q query, extra map[string]interface{}, impl, mod interface{}) {
	cs := map[string]interface{}{"round": x.round, "query": strings.Join(q.argv("<cursor>", "<limit>", q.flt), " ")}
	switch {
	case x.round == 1:
		cs["history"] = "directed corpus (buildDataset mode big): SET pts p%04d FIELD f i%5 FIELD g 1+i%3 POINT (i/20)/2-4 (i%20)/2-5 and SET strs s%04d FIELD f i%5 STRING v%03d((i*7)%300/2) for i = 0..299; mix = the same points + strings v%03d(i%150)"
	case len(x.d.ops) <= 300:
		cs["history"] = x.d.ops
	default:
		cs["history_len"] = len(x.d.ops)
		cs["history_tail"] = x.d.ops[len(x.d.ops)-20:]
	}
	for k, v := range extra {
		cs[k] = v
	}
	x.r.Fail(hx.Failure{Kind: kind, Signature: sig, What: what, Case: cs, Impl: impl, Model: mod})
}

// source describes the model side of a query: how to ask the model for the page at (limit, cursor)
// and how to translate its reply (positions) back to ids.
type source struct {
	es   string // the entries string (a / r per index entry) when the iterator is modelled by the generic page; "" otherwise
	n    int // number of index entries the iterator can visit
	ask  func(limit, cursor string) string
	name []string // position -> id
}

func (x *ctx) buildSource(q query) (source, bool) {
	objs := x.d.objs[q.key]
	noflt := filters{}
	switch q.cmd {
	case "scan":
		asc := query{cmd: "scan", key: q.key, desc: 1}
		pa, err := do(x.c, asc.argv("", big, noflt))
		if err != nil {
			x.fail("oracle", "cursor-reply-shape", err.Error(), q, nil, nil, nil)
			return source{}, false
		}
		l0, l1 := "", ""
		if q.flt.match != "" {
			l0, l1, _ = verifapi.GlobParse(q.flt.match, q.desc == 2)
		}
		mask := make([]byte, len(pa.ids))
		for i, id := range pa.ids {
			mask[i] = 'r'
			if q.flt.accept(objs[id], false) {
				mask[i] = 'a'
			}
		}
		if l0 == "" && l1 == "" {
			order := append([]string{}, pa.ids...)
			m := append([]byte{}, mask...)
			if q.desc == 2 {
				for i, j := 0, len(order)-1; i < j; i, j = i+1, j-1 {
					order[i], order[j] = order[j], order[i]
					m[i], m[j] = m[j], m[i]
				}
			}
			es := dash(string(m))
			x.r.Dist("iter:Scan")
			return source{es: es, n: len(order), name: order, ask: func(limit, cursor string) string {
				return x.drv.Ask("page", limit, cursor, es)
			}}, true
		}
		x.r.Dist("iter:ScanRange")
		hexids := make([]string, len(pa.ids))
		for i, id := range pa.ids {
			hexids[i] = model.H(id)
		}
		ms := string(mask)
		if ms == "" {
			ms = "-"
		}
		return source{n: len(pa.ids), name: pa.ids, ask: func(limit, cursor string) string {
			return x.drv.Ask(append([]string{"scan_range", model.B(q.desc == 2), model.H(l0), model.H(l1), limit, cursor, ms}, hexids...)...)
		}}, true
	case "search":
		asc := query{cmd: "search", key: q.key, desc: 1}
		pa, err := do(x.c, asc.argv("", big, noflt))
		if err != nil {
			x.fail("oracle", "cursor-reply-shape", err.Error(), q, nil, nil, nil)
			return source{}, false
		}
		l0, l1 := "", ""
		if q.flt.match != "" {
			l0, l1, _ = verifapi.GlobParse(q.flt.match, q.desc == 2)
		}
		mask := make([]byte, len(pa.ids))
		ents := make([]string, len(pa.ids))
		for i, id := range pa.ids {
			mask[i] = 'r'
			if q.flt.accept(objs[id], true) {
				mask[i] = 'a'
			}
			ents[i] = model.H(objs[id].val) + ":" + model.H(id)
		}
		ms := string(mask)
		if ms == "" {
			ms = "-"
		}
		if l0 == "" && l1 == "" {
			x.r.Dist("iter:SearchValues")
			// unlimited range in the model = no range: use the generic page on the order
			order := append([]string{}, pa.ids...)
			m := append([]byte{}, mask...)
			if q.desc == 2 {
				for i, j := 0, len(order)-1; i < j; i, j = i+1, j-1 {
					order[i], order[j] = order[j], order[i]
					m[i], m[j] = m[j], m[i]
				}
			}
			es := dash(string(m))
			return source{es: es, n: len(order), name: order, ask: func(limit, cursor string) string {
				return x.drv.Ask("page", limit, cursor, es)
			}}, true
		}
		x.r.Dist("iter:SearchValuesRange")
		return source{n: len(pa.ids), name: pa.ids, ask: func(limit, cursor string) string {
			return x.drv.Ask(append([]string{"search_range", model.B(q.desc == 2), model.H(l0), model.H(l1), limit, cursor, ms}, ents...)...)
		}}, true
	case "within", "intersects":
		// candidates: the R-tree entries whose rectangle overlaps the area's rectangle, in tree
		// order.  All stored coordinates are float32-exact and the area rectangle is (or was
		// checked to be far from any stored coordinate), so `INTERSECTS BOUNDS <rect>` returns
		// exactly the candidates, in the same tree order.
		mnla, mnlo, mxla, mxlo := q.ageo.Rect()
		cq := query{cmd: "intersects", key: q.key, area: []string{"BOUNDS", fl(mnla), fl(mnlo), fl(mxla), fl(mxlo)}}
		pa, err := do(x.c, cq.argv("", big, noflt))
		if err != nil {
			x.fail("oracle", "cursor-reply-shape", err.Error(), q, nil, nil, nil)
			return source{}, false
		}
		mask := make([]byte, len(pa.ids))
		for i, id := range pa.ids {
			mask[i] = 'r'
			hit, _ := objs[id].geo().Hit(q.cmd, q.ageo)
			if hit && q.flt.accept(objs[id], false) {
				mask[i] = 'a'
			}
		}
		es := dash(string(mask))
		x.r.Dist("iter:geoSearch-" + q.cmd)
		return source{es: es, n: len(pa.ids), name: pa.ids, ask: func(limit, cursor string) string {
			return x.drv.Ask("page", limit, cursor, es)
		}}, true
	case "nearby":
		kq := query{cmd: "nearby", key: q.key, sdist: true, area: []string{"POINT", fl(q.lat), fl(q.lon)}}
		pa, err := do(x.c, kq.argv("", big, noflt))
		if err != nil || len(pa.dists) != len(pa.ids) {
			x.fail("oracle", "cursor-reply-shape", fmt.Sprint("NEARBY DISTANCE reply: ", err), q, nil, nil, nil)
			return source{}, false
		}
		// distances -> order-preserving integer ranks (the model's distances are Z)
		ds := make([]float64, len(pa.ids))
		all := []float64{}
		for i, s := range pa.dists {
			ds[i], _ = strconv.ParseFloat(s, 64)
			all = append(all, ds[i])
		}
		if q.rad > 0 {
			all = append(all, q.rad)
		}
		sort.Float64s(all)
		rank := func(v float64) string { return strconv.Itoa(1 + sort.SearchFloat64s(all, v)) }
		maxd := "0"
		if q.rad > 0 {
			maxd = rank(q.rad)
		}
		mask := make([]byte, len(pa.ids))
		rs := make([]string, len(pa.ids))
		for i, id := range pa.ids {
			mask[i] = 'r'
			if q.flt.accept(objs[id], false) {
				mask[i] = 'a'
			}
			rs[i] = rank(ds[i])
		}
		ms := string(mask)
		if ms == "" {
			ms = "-"
		}
		x.r.Dist("iter:Nearby")
		return source{n: len(pa.ids), name: pa.ids, ask: func(limit, cursor string) string {
			return x.drv.Ask(append([]string{"nearby", maxd, limit, cursor, ms}, rs...)...)
		}}, true
	}
	return source{}, false
}

func (x *ctx) modelPage(src source, limit, cursor string) (ids []string, cur string, raw string) {
	raw = src.ask(limit, cursor)
	parts := strings.Split(raw, " ")
	if len(parts) != 2 {
		return nil, "", raw
	}
	ids = []string{}
	if parts[1] != "-" {
		for _, p := range strings.Split(parts[1], ",") {
			i, err := strconv.Atoi(p)
			if err != nil || i < 0 || i >= len(src.name) {
				return nil, "", raw
			}
			ids = append(ids, src.name[i])
		}
	}
	return ids, parts[0], raw
}

func (x *ctx) runQuery(q query, qi int) {
	r := x.r
	qs := strings.Join(q.argv("", "", q.flt), " ")
	unl, err := do(x.c, q.argv("", big, q.flt))
	if err != nil {
		x.fail("oracle", "cursor-reply-shape", err.Error(), q, nil, nil, nil)
		return
	}
	if unl.cursor != "0" {
		x.fail("oracle", "cursor-unlimited-nonzero", "LIMIT "+big+" returned a non-zero cursor "+unl.cursor, q, nil, unl.cursor, nil)
	}
	src, ok := x.buildSource(q)
	if !ok {
		return
	}
	if nol, err := do(x.c, q.argv("", "", q.flt)); err == nil {
		if src.n < 100 && (join(nol.ids) != join(unl.ids) || nol.cursor != "0") {
			x.fail("oracle", "cursor-default-limit", "the query without LIMIT differs from LIMIT "+big+" on a collection with fewer than 100 entries", q, nil, nol.view(), unl.view())
		}
		// no LIMIT = the default of 100 items: the model's eff_limit
		if mi, mc, raw := x.modelPage(src, "0", "0"); mc != nol.cursor || join(mi) != join(nol.ids) {
			x.fail("correspondence", "cursor-page-model", "the query without LIMIT differs from Model.Cursor.page with the default limit (eff_limit 0 = 100)", q, nil, nol.view(), raw)
		}
	}
	// the unlimited reply against the model (limit larger than everything)
	mids, mcur, raw := x.modelPage(src, big, "0")
	if mcur != "0" || join(mids) != join(unl.ids) {
		x.fail("correspondence", "cursor-unlimited-model", "unlimited reply differs from Model.Cursor.page with a limit above the collection size", q, nil, unl.view(), raw)
		// keep going: the pages-vs-unlimited oracle below must still look at this query
	}
	for _, L := range x.limits(src.n) {
		ls := strconv.Itoa(L)
		cursor := "0"
		var all []string
		npages, nonempty := 0, 0
		okrun := true
		for {
			p, err := do(x.c, q.argv(cursor, ls, q.flt))
			if err != nil {
				x.fail("oracle", "cursor-reply-shape", err.Error(), q, map[string]interface{}{"limit": L, "cursor": cursor}, nil, nil)
				okrun = false
				break
			}
			npages++
			if len(p.ids) > 0 {
				nonempty++
			}
			mi, mc, raw := x.modelPage(src, ls, cursor)
			if mc != p.cursor || join(mi) != join(p.ids) {
				x.fail("correspondence", "cursor-page-model", fmt.Sprintf("page (LIMIT %d CURSOR %s) differs from Model.Cursor.page", L, cursor), q,
					map[string]interface{}{"limit": L, "cursor": cursor}, map[string]interface{}{"ids": p.ids, "cursor": p.cursor}, raw)
			}
			if p.cursor != "0" && len(p.ids) != L {
				x.fail("oracle", "cursor-short-page", fmt.Sprintf("non-zero cursor %s with %d items on a LIMIT %d page", p.cursor, len(p.ids), L), q,
					map[string]interface{}{"limit": L, "cursor": cursor}, p.view(), nil)
			}
			all = append(all, p.ids...)
			if p.cursor == "0" {
				break
			}
			if npages > src.n+2 {
				x.fail("oracle", "cursor-no-termination", fmt.Sprintf("LIMIT %d: more than n+2 = %d pages without a 0 cursor", L, src.n+2), q,
					map[string]interface{}{"limit": L}, all, nil)
				okrun = false
				break
			}
			cursor = p.cursor
		}
		key := fmt.Sprintf("%d/%s/L%d", x.round, qs, L)
		r.Count(key, nonempty >= 2)
		r.Dist("cmd:" + q.cmd)
		if nonempty >= 2 {
			r.Dist("multi-page")
		}
		if !q.flt.empty() {
			r.Dist("filtered")
		}
		if okrun && join(all) != join(unl.ids) {
			x.fail("oracle", "cursor-pages-"+q.cmd, fmt.Sprintf("LIMIT %d: the concatenated pages %q differ from the unlimited reply %q", L, all, unl.ids), q,
				map[string]interface{}{"limit": L}, all, unl.ids)
		}
		if L == 2 && qi < 2 {
			r.Sample(10, map[string]interface{}{"query": qs, "limit": L, "pages": npages, "unlimited": unl.ids, "entries": src.n})
		}
	}
	x.runCount(q, src)
	// other output kinds and the JSON protocol through the same pushObject path
	kinds := []string{"OBJECTS", "POINTS", "BOUNDS", "HASHES"}
	x.runOutput(q, src, kinds[(qi+x.round)%4], false, unl.ids)
	x.runOutput(q, src, []string{"", "OBJECTS", "POINTS", "", "HASHES", "BOUNDS"}[(qi+x.round)%6], true, unl.ids)
	// arbitrary cursors: values the server never returned, beyond the end, 2^64-1
	curs := []string{strconv.Itoa(src.n), strconv.Itoa(src.n + 3), "18446744073709551615", "18446744073709551614"}
	for i := 0; i < 3; i++ {
		curs = append(curs, strconv.Itoa(x.rng.Intn(src.n+2)))
	}
	for _, cu := range curs {
		ls := strconv.Itoa(1 + x.rng.Intn(src.n+2))
		p, err := do(x.c, q.argv(cu, ls, q.flt))
		if err != nil {
			x.fail("oracle", "cursor-reply-shape", err.Error(), q, map[string]interface{}{"limit": ls, "cursor": cu}, nil, nil)
			continue
		}
		mi, mc, raw := x.modelPage(src, ls, cu)
		r.Count(fmt.Sprintf("%d/%s/L%s/C%s", x.round, qs, ls, cu), false)
		r.Dist("arbitrary-cursor")
		if mc != p.cursor || join(mi) != join(p.ids) {
			x.fail("correspondence", "cursor-page-model", fmt.Sprintf("page (LIMIT %s CURSOR %s, cursor not returned by the server) differs from Model.Cursor.page", ls, cu), q,
				map[string]interface{}{"limit": ls, "cursor": cu}, map[string]interface{}{"ids": p.ids, "cursor": p.cursor}, raw)
		}
	}
}

// limits: every LIMIT in 1..n+1 for small sources; for large ones the values around the
// 256-entry yield steps of nextStep, around n, and a few random ones.
func (x *ctx) limits(n int) []int {
	var ls []int
	if n <= 60 {
		for L := 1; L <= n+1; L++ {
			ls = append(ls, L)
		}
		return ls
	}
	seen := map[int]bool{}
	for _, L := range []int{1, 7, 100, 254, 255, 256, 257, 299, 300, 301, 511, 512, n - 1, n, n + 1, 1 + x.rng.Intn(n), 1 + x.rng.Intn(n)} {
		if L >= 1 && L <= n+1 && !seen[L] {
			seen[L] = true
			ls = append(ls, L)
		}
	}
	return ls
}

func bigQueries() []query {
	w := &[3]int{0, 1, 3}
	all := []string{"BOUNDS", "-9", "-9", "9", "9"}
	allg := verifapi.GeoBounds(-9, -9, 9, 9)
	return []query{
		{cmd: "scan", key: "pts", rad: -1},
		{cmd: "scan", key: "pts", desc: 2, rad: -1},
		{cmd: "scan", key: "pts", flt: filters{match: "p*"}, rad: -1},
		{cmd: "scan", key: "pts", desc: 2, flt: filters{match: "p0*"}, rad: -1},
		{cmd: "scan", key: "pts", flt: filters{where: w}, rad: -1},
		{cmd: "scan", key: "mix", flt: filters{wherein: []int{2, 3}}, rad: -1},
		{cmd: "search", key: "strs", rad: -1},
		{cmd: "search", key: "strs", desc: 2, rad: -1},
		{cmd: "search", key: "strs", flt: filters{match: "v*"}, rad: -1},
		{cmd: "search", key: "strs", desc: 2, flt: filters{match: "v*", where: w}, rad: -1},
		{cmd: "search", key: "mix", rad: -1},
		{cmd: "within", key: "pts", area: all, ageo: allg, rad: -1},
		{cmd: "intersects", key: "pts", area: all, ageo: allg, rad: -1},
		{cmd: "intersects", key: "pts", flt: filters{where: w}, area: all, ageo: allg, rad: -1},
		{cmd: "within", key: "mix", area: []string{"CIRCLE", "0.25", "0.25", "2000000"}, ageo: verifapi.GeoCircle(0.25, 0.25, 2000000), rad: -1},
		{cmd: "nearby", key: "pts", area: []string{"POINT", "0.1", "0.2"}, lat: 0.1, lon: 0.2, rad: -1},
		{cmd: "nearby", key: "pts", sdist: true, flt: filters{where: w}, area: []string{"POINT", "3", "-2"}, lat: 3, lon: -2, rad: -1},
		{cmd: "nearby", key: "mix", area: []string{"POINT", "0.1", "0.2", "5000000"}, lat: 0.1, lon: 0.2, rad: 5000000},
		{cmd: "scan", key: "pts", flt: filters{whereeval: &[2]int{2, 11}}, rad: -1},
		{cmd: "intersects", key: "pts", flt: filters{whereeval: &[2]int{2, 11}}, area: all, ageo: allg, rad: -1},
	}
}

func sortedIDs(m map[string]obj) []string {
	ids := make([]string, 0, len(m))
	for id := range m {
		ids = append(ids, id)
	}
	sort.Strings(ids)
	return ids
}

// farFromGrid: no rectangle edge within 1e-3 of a multiple of 0.5, so that float32 widening of
// the rectangle cannot change the candidate set on the half-integer grid of stored coordinates.
func farFromGrid(vs ...float64) bool {
	for _, v := range vs {
		f := math.Abs(v*2 - math.Round(v*2))
		if f < 2e-3 {
			return false
		}
	}
	return true
}

func (x *ctx) randQuery() (query, bool) {
	rng := x.rng
	var q query
	q.rad = -1
	switch rng.Intn(10) {
	case 0, 1, 2:
		q.cmd, q.key = "scan", []string{"pts", "mix", "strs"}[rng.Intn(3)]
		q.desc = rng.Intn(3)
	case 3, 4:
		q.cmd, q.key = "search", []string{"strs", "mix"}[rng.Intn(2)]
		q.desc = rng.Intn(3)
	case 5, 6:
		q.cmd, q.key = []string{"within", "intersects"}[rng.Intn(2)], "pts"
	case 7:
		q.cmd, q.key = []string{"within", "intersects"}[rng.Intn(2)], "mix"
	default:
		q.cmd, q.key = "nearby", []string{"pts", "pts", "mix"}[rng.Intn(3)]
	}
	ids := sortedIDs(x.d.objs[q.key])
	vals := []string{}
	for _, id := range ids {
		if x.d.objs[q.key][id].kind == "string" {
			vals = append(vals, x.d.objs[q.key][id].val)
		}
	}
	q.flt = randFilters(rng, ids, vals, q.cmd == "search")
	switch q.cmd {
	case "within", "intersects":
		switch rng.Intn(3) {
		case 0:
			la, lo := grid(rng, 8), grid(rng, 8)
			ha, ho := la+float64(rng.Intn(20))/2, lo+float64(rng.Intn(20))/2
			q.area = []string{"BOUNDS", fl(la), fl(lo), fl(ha), fl(ho)}
			q.ageo = verifapi.GeoBounds(la, lo, ha, ho)
		case 1:
			la, lo := grid(rng, 6)+0.25, grid(rng, 6)+0.25
			m := float64(50000 + rng.Intn(900000))
			q.ageo = verifapi.GeoCircle(la, lo, m)
			a, b, c, d := q.ageo.Rect()
			if !farFromGrid(a, b, c, d) {
				return q, false
			}
			q.area = []string{"CIRCLE", fl(la), fl(lo), fl(m)}
		default:
			// a triangle with half-integer vertices: candidates inside its bounding box but outside
			// the triangle are visited (and counted by the cursor) without being returned
			la, lo := grid(rng, 6), grid(rng, 6)
			w, h := float64(2+rng.Intn(16))/2, float64(2+rng.Intn(16))/2
			js := fmt.Sprintf(`{"type":"Polygon","coordinates":[[[%s,%s],[%s,%s],[%s,%s],[%s,%s]]]}`,
				fl(lo), fl(la), fl(lo+w), fl(la), fl(lo), fl(la+h), fl(lo), fl(la))
			g, err := verifapi.GeoObject(js)
			if err != nil {
				return q, false
			}
			q.ageo = g
			q.area = []string{"OBJECT", js}
		}
	case "nearby":
		q.lat, q.lon = grid(rng, 9)+float64(rng.Intn(3))/8, grid(rng, 9)+float64(rng.Intn(3))/8
		q.sdist = rng.Intn(2) == 0
		q.area = []string{"POINT", fl(q.lat), fl(q.lon)}
		switch rng.Intn(4) {
		case 0:
			q.rad = 0
			q.area = append(q.area, "0")
		case 1, 2:
			q.rad = float64(10000 + rng.Intn(1500000))
			q.area = append(q.area, fl(q.rad))
		}
	}
	return q, true
}

func fixedQueries() []query {
	w1 := &[3]int{0, 1, 2}
	pt := func(la, lo float64) []string { return []string{"POINT", fl(la), fl(lo)} }
	return []query{
		{cmd: "scan", key: "pts", rad: -1},
		{cmd: "scan", key: "pts", desc: 2, rad: -1},
		{cmd: "scan", key: "pts", flt: filters{match: "a*"}, rad: -1},
		{cmd: "scan", key: "pts", desc: 2, flt: filters{match: "a*"}, rad: -1},
		{cmd: "scan", key: "pts", flt: filters{match: "b*", where: w1}, rad: -1},
		{cmd: "scan", key: "pts", flt: filters{where: w1, wherein: []int{2}}, rad: -1},
		{cmd: "scan", key: "mix", flt: filters{match: "*b*"}, rad: -1},
		{cmd: "search", key: "strs", rad: -1},
		{cmd: "search", key: "strs", desc: 2, rad: -1},
		{cmd: "search", key: "strs", flt: filters{match: "a*"}, rad: -1},
		{cmd: "search", key: "strs", desc: 2, flt: filters{match: "a*"}, rad: -1},
		{cmd: "search", key: "strs", flt: filters{match: "b"}, rad: -1},
		{cmd: "search", key: "mix", flt: filters{where: w1}, rad: -1},
		{cmd: "within", key: "pts", area: []string{"BOUNDS", "0", "0", "4", "2"}, ageo: verifapi.GeoBounds(0, 0, 4, 2), rad: -1},
		{cmd: "intersects", key: "pts", flt: filters{where: w1}, area: []string{"BOUNDS", "1", "0", "5", "2"}, ageo: verifapi.GeoBounds(1, 0, 5, 2), rad: -1},
		{cmd: "nearby", key: "pts", area: pt(0, 0), lat: 0, lon: 0, rad: -1},
		{cmd: "nearby", key: "pts", sdist: true, flt: filters{where: w1}, area: pt(2, 1), lat: 2, lon: 1, rad: -1},
		{cmd: "nearby", key: "pts", sdist: true, area: append(pt(2, 1), "200000"), lat: 2, lon: 1, rad: 200000},
		{cmd: "nearby", key: "pts", flt: filters{match: "b*"}, area: append(pt(2, 1), "400000"), lat: 2, lon: 1, rad: 400000},
		{cmd: "scan", key: "pts", flt: filters{whereeval: &[2]int{0, 1}}, rad: -1},
		{cmd: "search", key: "strs", desc: 2, flt: filters{whereeval: &[2]int{0, 2}}, rad: -1},
		{cmd: "nearby", key: "pts", flt: filters{whereeval: &[2]int{1, 2}, where: w1}, area: pt(1, 1), lat: 1, lon: 1, rad: -1},
		// WHEREEVAL on a field only the odd entries carry: return (FIELDS.speed or 0) >= 11
		{cmd: "scan", key: "pts", flt: filters{whereeval: &[2]int{2, 11}}, rad: -1},
		{cmd: "scan", key: "pts", desc: 2, flt: filters{whereeval: &[2]int{2, 11}}, rad: -1},
		{cmd: "scan", key: "mix", flt: filters{whereeval: &[2]int{2, 11}}, rad: -1},
		{cmd: "search", key: "strs", flt: filters{whereeval: &[2]int{2, 11}}, rad: -1},
		{cmd: "within", key: "pts", flt: filters{whereeval: &[2]int{2, 11}}, area: []string{"BOUNDS", "-1", "-1", "9", "9"}, ageo: verifapi.GeoBounds(-1, -1, 9, 9), rad: -1},
		{cmd: "intersects", key: "pts", flt: filters{whereeval: &[2]int{2, 11}}, area: []string{"BOUNDS", "-1", "-1", "9", "9"}, ageo: verifapi.GeoBounds(-1, -1, 9, 9), rad: -1},
		{cmd: "nearby", key: "pts", flt: filters{whereeval: &[2]int{2, 11}}, area: pt(1, 1), lat: 1, lon: 1, rad: -1},
		{cmd: "scan", key: "nosuchkey", rad: -1},
	}
}

// observations about COUNT output (no item sequence to paginate): recorded, never a failure here.
// F5 (SEARCH ... COUNT shortcut ignores WHEREIN and counts geometries) belongs to C12.
func (x *ctx) countObservations() {
	obs := map[string]interface{}{}
	if v := x.c.MustDo("SCAN", "pts", "LIMIT", "2", "COUNT"); v.Kind == ':' {
		obs["SCAN pts LIMIT 2 COUNT"] = fmt.Sprintf("%d (collection holds %d objects; COUNT with LIMIT stops counting, no cursor is reported)", v.Int, len(x.d.objs["pts"]))
	}
	for _, key := range []string{"strs", "mix"} {
		ids, err := do(x.c, []string{"SEARCH", key, "LIMIT", big, "WHEREIN", "g", "1", "1", "IDS"})
		cv := x.c.MustDo("SEARCH", key, "WHEREIN", "g", "1", "1", "COUNT")
		if err == nil && cv.Kind == ':' && int(cv.Int) != len(ids.ids) {
			x.r.Dist("obs:search-count-shortcut")
			obs["search-count-shortcut "+key] = fmt.Sprintf("SEARCH %s WHEREIN g 1 1 COUNT -> %d but IDS returns %d ids (finding F5, property C12; not a C11 failure)", key, cv.Int, len(ids.ids))
		}
		ids, err = do(x.c, []string{"SEARCH", key, "LIMIT", big, "IDS"})
		cv = x.c.MustDo("SEARCH", key, "COUNT")
		if err == nil && cv.Kind == ':' && int(cv.Int) != len(ids.ids) {
			x.r.Dist("obs:search-count-shortcut")
			obs["search-count-shortcut-geoms "+key] = fmt.Sprintf("SEARCH %s COUNT -> %d but IDS returns %d ids (finding F5, property C12; not a C11 failure)", key, cv.Int, len(ids.ids))
		}
	}
	if len(obs) > 0 {
		if _, ok := x.r.Extra["count_observations"]; !ok {
			x.r.Extra["count_observations"] = obs
		}
	}
}

func runC11(r *hx.Result, cfg hx.Config) {
	r.Rule = "one case = (dataset reached by a random history, query, filters, direction, LIMIT): the client loop is run to cursor 0; non-trivial = distinct case whose loop produced at least two non-empty pages. Every page is also compared with Model.Cursor.page; extra cases use cursors the server never returned. Concurrent phase (concurrent.go): one case = (client, query, output kind, protocol, LIMIT) swept to cursor 0 while the other 49 clients page through their own queries; the concatenated pages must equal the client's own unlimited reply taken on the idle server."
	r.Assumptions = []string{
		"the unfiltered iteration order is read from the server's own unlimited unfiltered reply (B-tree / R-tree / kNN order are not re-derived on the client)",
		"WITHIN/INTERSECTS candidates = reply of INTERSECTS BOUNDS <area rectangle> (stored coordinates are float32-exact, area rectangles are exact or far from the grid)",
		"filter outcome per id computed on the client: glob.Match through verifapi, WHERE min<=v<=max with missing=0, WHEREIN membership, geojson Within/Intersects through verifapi",
		"the collection does not change while a query is paginated (no writes, no expirations); in the concurrent phase other clients page through other queries at the same time",
	}
	rng := rand.New(rand.NewSource(cfg.Seed))
	drv, err := model.Start("cursor")
	if err != nil {
		panic(err)
	}
	defer drv.Close()
	rounds, queries := 13, 40
	if cfg.Tier == "thorough" {
		rounds, queries = 60, 60
	}
	if cfg.Search {
		rounds, queries = 40, 60
	}
	if os.Getenv("VERIF_C11_ONLY") == "concurrent" { // debugging aid: the concurrent phase alone
		rounds = 0
	}
	for round := 0; round < rounds; round++ {
		s, err := srv.Start(filepath.Join(cfg.Work, fmt.Sprintf("c11-%d", round)), "--appendonly", "no")
		if err != nil {
			panic(err)
		}
		func() {
			defer s.Kill()
			c := s.MustDial()
			defer c.Close()
			cj := s.MustDial()
			defer cj.Close()
			if v := cj.MustDo("OUTPUT", "json"); v.IsErr() {
				panic("OUTPUT json: " + v.String())
			}
			x := &ctx{r: r, cfg: cfg, c: c, drv: drv, round: round, rng: rng, cj: cj}
			mode := "random"
			switch round {
			case 0:
				mode = "fixed"
			case 1:
				mode = "big"
			}
			x.d = buildDataset(rng, c, r, mode)
			if round == 1 {
				for i, q := range bigQueries() {
					x.runQuery(q, i)
				}
				return
			}
			if round == 0 {
				for i, q := range fixedQueries() {
					x.runQuery(q, i)
				}
				x.countObservations()
				return
			}
			for qi := 0; qi < queries; qi++ {
				q, ok := x.randQuery()
				if !ok {
					continue
				}
				x.runQuery(q, qi)
			}
			x.countObservations()
		}()
	}
	// concurrent.go: N clients page through unchanging collections at the same time
	runConcurrent(r, cfg, rng)
	r.TracesImpl = r.Evaluations
}
