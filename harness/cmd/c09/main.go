// C09 harness: AOFSHRINK preserves the dataset — quiescent, concurrently with writes (the rewrite
// is parked between its locked sections by the verif gate of internal/server/verif_shrink_on.go)
// and across a crash at every step of the final swap.
//
// Oracles (implementation only): dump before shrink = dump after shrink = dump after a restart on
// the shrunk file; the shrunk file holds exactly one SET per object; after an injected crash a
// restart recovers the acknowledged state.
// Correspondence: the schedules of the Coq model (coq/Model/Shrink.v, extracted to
// ocaml/shrink/driver) are played on the real server through the gate; the gate positions
// (next key / next id of every batch), the records of the produced file, the live dataset and the
// dataset after a restart must be the model's.
package main

import (
	"bufio"
	"encoding/json"
	"fmt"
	"math/rand"
	"net"
	"os"
	"path/filepath"
	"sort"
	"strconv"
	"strings"
	"time"

	"verifharness/internal/hx"
	"verifharness/internal/model"
	"verifharness/internal/srv"
)

func main() { hx.Main("C09", runC09) }

// ---------------------------------------------------------------- gate client

type gate struct {
	c net.Conn
	r *bufio.Reader
}

func (g *gate) ask(line string) string {
	g.c.SetDeadline(time.Now().Add(60 * time.Second))
	if _, err := g.c.Write([]byte(line + "\n")); err != nil {
		return "err transport " + err.Error()
	}
	s, err := g.r.ReadString('\n')
	if err != nil {
		return "err transport " + err.Error()
	}
	return strings.TrimRight(s, "\n")
}

type event struct {
	kind, a, b string
	raw        string
}

func parseEvent(s string) event {
	f := strings.Fields(s)
	if len(f) != 3 {
		return event{kind: "?", raw: s}
	}
	return event{kind: f[0], a: model.U(f[1]), b: model.U(f[2]), raw: s}
}

type inst struct {
	s    *srv.Server
	c    *srv.Conn
	g    *gate
	dir  string
	sock string
	// a rewrite-ended event arrived while the -shrink file still existed
	endedEarly bool
	// the rewrite is expected to end without swapping the files: do not wait for the -shrink file to go
	noSwapWait bool
}

var instCounter int

// customAOF: data directories whose server runs with --appendfilename <path> (a log outside the
// data directory, under a name of its own); aofPath gives the log of a data directory.
var customAOF = map[string]string{}

func aofPath(dir string) string {
	if p, ok := customAOF[dir]; ok {
		return p
	}
	return filepath.Join(dir, "appendonly.aof")
}

// useCustomAOF makes every server started on dir use <work>/<tag>-logs/store.log as its log.
func useCustomAOF(work, dir, tag string) {
	ld := filepath.Join(work, tag+"-logs")
	os.RemoveAll(ld)
	os.MkdirAll(ld, 0o755)
	customAOF[dir] = filepath.Join(ld, "store.log")
}

// startInst starts a server on dir with the shrink gate socket configured.
func startInst(work, dir string) *inst {
	in, err := startInstE(work, dir)
	if err != nil {
		panic(err.Error())
	}
	return in
}

// startInstE is startInst that reports a server that does not come up instead of panicking.
func startInstE(work, dir string) (*inst, error) {
	instCounter++
	sock := filepath.Join(work, fmt.Sprintf("g%d.sock", instCounter))
	os.Setenv("VERIF_SHRINK_SOCK", sock)
	os.Unsetenv("VERIF_CRASH")
	var extra []string
	if custom, ok := customAOF[dir]; ok {
		extra = []string{"--appendfilename", custom}
	}
	s, err := srv.Start(dir, extra...)
	os.Unsetenv("VERIF_SHRINK_SOCK")
	if err != nil {
		if s != nil && s.Alive() {
			s.Kill()
		}
		return nil, fmt.Errorf("server start on %s: %v", dir, err)
	}
	in := &inst{s: s, dir: dir, sock: sock, c: s.MustDial()}
	for i := 0; i < 200; i++ {
		c, err := net.Dial("unix", sock)
		if err == nil {
			in.g = &gate{c: c, r: bufio.NewReader(c)}
			break
		}
		time.Sleep(10 * time.Millisecond)
	}
	if in.g == nil {
		s.Kill()
		panic("gate socket did not come up (server not built with -tags verif?)")
	}
	return in, nil
}

func (in *inst) close() {
	if in.g != nil {
		in.g.ask("disarm")
		in.g.c.Close()
	}
	if in.c != nil {
		in.c.Close()
	}
	in.s.Kill()
	os.Remove(in.sock)
}

// stop shuts the server down cleanly.
func (in *inst) stop() {
	if in.g != nil {
		in.g.ask("disarm")
		in.g.c.Close()
		in.g = nil
	}
	in.c.Close()
	in.c = nil
	in.s.Stop()
	os.Remove(in.sock)
}

// shrinkWith runs AOFSHRINK parking at the given kinds of points ("" = none, "*" = all) and calls
// at(ev) while the rewrite is parked. Returns the events seen and an error text ("" = finished).
func (in *inst) shrinkWith(kinds string, at func(ev event) bool) ([]event, string) {
	arm := "arm " + kinds
	if kinds == "*" {
		arm = "arm"
	} else if kinds == "" {
		arm = "arm none"
	}
	if r := in.g.ask(arm); r != "ok" {
		return nil, "arm: " + r
	}
	if v := in.c.MustDo("AOFSHRINK"); v.Kind != '+' {
		return nil, "AOFSHRINK: " + v.String()
	}
	var evs []event
	r := in.g.ask("wait 20000")
	for {
		if r == "timeout" || strings.HasPrefix(r, "err") {
			return evs, "gate: " + r
		}
		ev := parseEvent(r)
		evs = append(evs, ev)
		if ev.kind == "done" {
			in.g.ask("disarm")
			// the end of a rewrite: the new file has been swapped in. If the -shrink file is still
			// there the event came from somewhere else (e.g. a second request that returned early);
			// give the real rewrite, now released, the time to finish before the state is compared.
			for i := 0; i < 300 && !in.noSwapWait && fileSize(aofPath(in.dir)+"-shrink") >= 0; i++ {
				in.endedEarly = true
				time.Sleep(10 * time.Millisecond)
			}
			return evs, ""
		}
		if at != nil && !at(ev) {
			return evs, "stopped"
		}
		r = in.g.ask("step 20000")
	}
}

// ---------------------------------------------------------------- dumps

// dumpFull = srv.Dump + has-deadline of every hook / channel (JSON output carries the ttl).
func dumpFull(c *srv.Conn) string {
	d := srv.Dump(c)
	c.MustDo("OUTPUT", "json")
	var sb strings.Builder
	for _, what := range []string{"HOOKS", "CHANS"} {
		v := c.MustDo(what, "*")
		var m map[string]interface{}
		if json.Unmarshal([]byte(v.Str), &m) == nil {
			arr, _ := m[strings.ToLower(what)].([]interface{})
			var lines []string
			for _, h := range arr {
				hm, _ := h.(map[string]interface{})
				ttl, _ := hm["ttl"].(float64)
				lines = append(lines, fmt.Sprintf("%sTTL %q deadline=%v\n", what, hm["name"], ttl >= 0))
			}
			sort.Strings(lines)
			sb.WriteString(strings.Join(lines, ""))
		} else {
			sb.WriteString(what + " ?" + v.String() + "\n")
		}
	}
	c.MustDo("OUTPUT", "resp")
	if strings.Contains(d, "null") {
		// JSON shows NaN, +Inf and -Inf alike (null): add what RESP shows of such objects
		return d + sb.String() + nonFiniteDetail(c)
	}
	return d + sb.String()
}

func diffLines(a, b string) (onlyA, onlyB []string) {
	ma, mb := map[string]int{}, map[string]int{}
	for _, l := range strings.Split(a, "\n") {
		ma[l]++
	}
	for _, l := range strings.Split(b, "\n") {
		mb[l]++
	}
	for _, l := range strings.Split(a, "\n") {
		if mb[l] < ma[l] {
			onlyA = append(onlyA, l)
			mb[l]++
		}
	}
	ma2 := map[string]int{}
	for _, l := range strings.Split(a, "\n") {
		ma2[l]++
	}
	for _, l := range strings.Split(b, "\n") {
		if ma2[l] > 0 {
			ma2[l]--
		} else {
			onlyB = append(onlyB, l)
		}
	}
	return
}

func clip(l []string, n int) []string {
	if len(l) > n {
		return append(append([]string{}, l[:n]...), fmt.Sprintf("... %d more", len(l)-n))
	}
	return l
}

// readAOF parses the records of an append-only file.
func readAOF(path string) ([][]string, error) {
	b, err := os.ReadFile(path)
	if err != nil {
		return nil, err
	}
	var recs [][]string
	i := 0
	line := func() (string, bool) {
		j := i
		for j+1 < len(b) && !(b[j] == '\r' && b[j+1] == '\n') {
			j++
		}
		if j+1 >= len(b) {
			return "", false
		}
		s := string(b[i:j])
		i = j + 2
		return s, true
	}
	for i < len(b) {
		l, ok := line()
		if !ok || len(l) == 0 || l[0] != '*' {
			return recs, fmt.Errorf("bad record header at %d", i)
		}
		n, _ := strconv.Atoi(l[1:])
		var rec []string
		for k := 0; k < n; k++ {
			l, ok := line()
			if !ok || len(l) == 0 || l[0] != '$' {
				return recs, fmt.Errorf("bad bulk header at %d", i)
			}
			m, _ := strconv.Atoi(l[1:])
			if i+m+2 > len(b) {
				return recs, fmt.Errorf("short bulk at %d", i)
			}
			rec = append(rec, string(b[i:i+m]))
			i += m + 2
		}
		recs = append(recs, rec)
	}
	return recs, nil
}

// ---------------------------------------------------------------- generators

var oddFieldValues = []string{
	"1", "-7", "3.25", "-0.5", "1e3", "1E-2", "123456789012345678901234567890", "-0", "0.0", "1e999",
	"abc", "Hello World", "with \"quotes\"", `"quoted"`, `"1e3"`, `" 5"`, " 5", "0x10", "0x1p-2", "+5", ".5", "1_000",
	"NaN", "nan", "inf", "-inf", "+Inf", "Infinity", "true", "false", "null", `"true"`, `"null"`, "TRUE",
	`{"a":1,"b":[1,2,{"c":null}]}`, `[1,"two",3.5]`, `{}`, `[]`, `{"s":"x\ny"}`, `{ "sp" : 1 }`,
	"tab\there", "nl\nhere", "\x01ctl", "café", "日本", "a\\b", "'single'", "",
}

// values that are not valid UTF-8 (kept apart: see the field re-encoding finding)
var nonUTF8FieldValues = []string{"\xff", "a\xc3", "\xfe\xfex", "ok\x80", "q\"\xff\\b\n\x01", "1e3\xff", " \xa0 "}

var fieldNames = []string{"speed", "Speed", "a", "b", "heading", "a b", "naïve", "f.x", "props", "n0", "zz", "Z9", "Z", "Lat", "LON"}

func genObject(rng *rand.Rand) []string {
	f := func(lo, hi float64) string {
		return strconv.FormatFloat(lo+rng.Float64()*(hi-lo), 'f', rng.Intn(7), 64)
	}
	if rng.Intn(40) == 0 {
		// coordinates that are not finite: accepted by SET, not expressible in JSON
		nf := []string{"nan", "inf", "-inf", "NaN", "+Inf", "Infinity", "100", "-200.5", "181"}
		switch rng.Intn(4) {
		case 0:
			return []string{"POINT", nf[rng.Intn(len(nf))], f(-175, 175)}
		case 1:
			return []string{"POINT", f(-85, 85), nf[rng.Intn(len(nf))]}
		case 2:
			return []string{"POINT", f(-85, 85), f(-175, 175), nf[rng.Intn(len(nf))]}
		}
		b := []string{"BOUNDS", "-10", "-20", "10", "20"}
		b[1+rng.Intn(4)] = nf[rng.Intn(len(nf))]
		if rng.Intn(3) == 0 {
			b = []string{"BOUNDS", "-inf", "-inf", "inf", "inf"}
		}
		return b
	}
	switch rng.Intn(11) {
	case 0, 1:
		return []string{"POINT", f(-85, 85), f(-175, 175)}
	case 2:
		return []string{"POINT", f(-85, 85), f(-175, 175), f(-100, 9000)}
	case 3:
		a, b := rng.Float64()*80-40, rng.Float64()*160-80
		return []string{"BOUNDS", fmt.Sprint(a), fmt.Sprint(b), fmt.Sprint(a + rng.Float64()*5), fmt.Sprint(b + rng.Float64()*5)}
	case 4:
		hs := "0123456789bcdefghjkmnpqrstuvwxyz"
		n := 1 + rng.Intn(11)
		var sb strings.Builder
		for i := 0; i < n; i++ {
			sb.WriteByte(hs[rng.Intn(len(hs))])
		}
		return []string{"HASH", sb.String()}
	case 5:
		return []string{"OBJECT", fmt.Sprintf(`{"type":"Point","coordinates":[%s,%s]}`, f(-175, 175), f(-85, 85))}
	case 6:
		return []string{"OBJECT", fmt.Sprintf(`{"type":"LineString","coordinates":[[%s,%s],[%s,%s],[%s,%s]]}`, f(-10, 10), f(-10, 10), f(-10, 10), f(-10, 10), f(-10, 10), f(-10, 10))}
	case 7:
		x, y := rng.Float64()*100-50, rng.Float64()*100-50
		return []string{"OBJECT", fmt.Sprintf(`{"type":"Polygon","coordinates":[[[%v,%v],[%v,%v],[%v,%v],[%v,%v],[%v,%v]]]}`, x, y, x+3, y, x+3, y+2, x, y+2, x, y)}
	case 8:
		return []string{"OBJECT", fmt.Sprintf(`{"type":"Feature","geometry":{"type":"Point","coordinates":[%s,%s]},"properties":{"name":"n%d","tags":["a","b"],"k":null}}`, f(-175, 175), f(-85, 85), rng.Intn(100))}
	case 9:
		return []string{"OBJECT", fmt.Sprintf(`{"type":"GeometryCollection","geometries":[{"type":"Point","coordinates":[%s,%s,%s]},{"type":"MultiPoint","coordinates":[[1,2],[3,4]]}]}`, f(-175, 175), f(-85, 85), f(0, 100))}
	}
	strs := []string{"alice", "", "bob the builder", `{"a":1,"arr":[1,2,3]}`, "12", "\xff\xfe raw bytes \x00 end", "line1\r\nline2", "*3\r\n$3\r\nset\r\n", "日本語"}
	return []string{"STRING", strs[rng.Intn(len(strs))]}
}

func genSet(rng *rand.Rand, key, id string, allowNonUTF8 bool) []string {
	args := []string{"SET", key, id}
	nf := rng.Intn(4)
	if rng.Intn(6) == 0 {
		nf = 5 + rng.Intn(4)
	}
	for i := 0; i < nf; i++ {
		v := oddFieldValues[rng.Intn(len(oddFieldValues))]
		if allowNonUTF8 && rng.Intn(12) == 0 {
			v = nonUTF8FieldValues[rng.Intn(len(nonUTF8FieldValues))]
		}
		args = append(args, "FIELD", fieldNames[rng.Intn(len(fieldNames))], v)
	}
	if rng.Intn(30) == 0 {
		// a name with surrounding white space: stored trimmed; a reserved name must not get through
		args = append(args, "FIELD", []string{" z", "lat ", "\tlon", " speed ", " Z", "  b\n", " z", "heading\r\n", " Lat", "LON ", "lAt"}[rng.Intn(11)], "7")
	}
	if rng.Intn(4) == 0 {
		args = append(args, "EX", []string{"1000", "500.75", "86400", "3600.05"}[rng.Intn(4)])
	}
	return append(args, genObject(rng)...)
}

var oddKeys = []string{"fleet", "Fleet", "a b", "\xff\x00bin", "zz top", "0", "key:with:colons", "é", "{json}", "*star", "k\r\nl"}

func keyName(j int) string {
	if j < 14 {
		return fmt.Sprintf("k%02d", j)
	}
	return oddKeys[(j-14)%len(oddKeys)]
}

func idName(rng *rand.Rand, j int) string {
	if j%17 == 16 {
		return []string{"Truck 1", "\xfe\xffid", "id with spaces", "point", "field", "ex", "日本"}[rng.Intn(7)]
	}
	return fmt.Sprintf("id%03d", j)
}

var fenceShapes = [][]string{
	{"NEARBY", "k01", "FENCE", "POINT", "33", "-115", "1000"},
	{"WITHIN", "k02", "FENCE", "DETECT", "enter,exit", "BOUNDS", "-10", "-10", "10", "10"},
	{"INTERSECTS", "k03", "FENCE", "COMMANDS", "set,del", "OBJECT", `{"type":"Polygon","coordinates":[[[0,0],[5,0],[5,5],[0,5],[0,0]]]}`},
	{"NEARBY", "fleet", "MATCH", "truck*", "FENCE", "DETECT", "inside,outside,cross", "POINT", "1", "2", "5000"},
	{"NEARBY", "k04", "WHERE", "speed", "10", "+inf", "FENCE", "NODWELL", "ROAM", "k05", "*", "500"},
	{"WITHIN", "k06", "FENCE", "DETECT", "cross", "CIRCLE", "12", "13", "9000"},
}

func genHook(rng *rand.Rand, j int, channel bool) []string {
	var args []string
	if channel {
		args = []string{"SETCHAN", fmt.Sprintf("chan%02d", j)}
	} else {
		eps := []string{"http://127.0.0.1:1/x", "http://127.0.0.1:1/a,http://127.0.0.1:2/b", "redis://127.0.0.1:1/chan"}
		args = []string{"SETHOOK", fmt.Sprintf("hook%02d", j), eps[rng.Intn(len(eps))]}
	}
	nm := rng.Intn(3)
	for i := 0; i < nm; i++ {
		args = append(args, "META", []string{"zone", "Owner", "a b", "x"}[rng.Intn(4)], []string{"north", "42", "with space", `{"j":1}`, "é"}[rng.Intn(5)])
	}
	if rng.Intn(3) == 0 {
		args = append(args, "EX", []string{"1000", "7200.5"}[rng.Intn(2)])
	}
	return append(args, fenceShapes[rng.Intn(len(fenceShapes))]...)
}

type dataset struct {
	cmds    [][]string
	objects int
}

// genDataset: ncols collections, the first `big` of them with more than maxids objects.
func genDataset(rng *rand.Rand, ncols, big int, hooks bool, allowNonUTF8 bool) dataset {
	var d dataset
	for j := 0; j < ncols; j++ {
		n := 1 + rng.Intn(6)
		if j < big {
			n = 33 + rng.Intn(45)
		}
		key := keyName(j)
		seen := map[string]bool{}
		for i := 0; i < n; i++ {
			id := idName(rng, i)
			if seen[id] {
				continue
			}
			seen[id] = true
			d.cmds = append(d.cmds, genSet(rng, key, id, allowNonUTF8))
		}
	}
	rng.Shuffle(len(d.cmds), func(i, j int) { d.cmds[i], d.cmds[j] = d.cmds[j], d.cmds[i] })
	if hooks {
		nh := 2 + rng.Intn(4)
		for j := 0; j < nh; j++ {
			d.cmds = append(d.cmds, genHook(rng, j, false))
		}
		nc := 1 + rng.Intn(3)
		for j := 0; j < nc; j++ {
			d.cmds = append(d.cmds, genHook(rng, j, true))
		}
	}
	return d
}

type sent struct {
	Cmd   []string `json:"cmd"`
	Reply string   `json:"reply"`
	At    string   `json:"at,omitempty"`
}

func qcmd(c []string) []string {
	o := make([]string, len(c))
	for i, s := range c {
		o[i] = strconv.QuoteToASCII(s)
	}
	return o
}

func load(c *srv.Conn, d dataset) (errs []string) {
	for _, cmd := range d.cmds {
		v := c.MustDo(cmd...)
		if v.IsErr() {
			errs = append(errs, strings.Join(qcmd(cmd), " ")+" -> "+v.String())
		}
	}
	return
}

// ---------------------------------------------------------------- scenario: quiescent

func quiescent(r *hx.Result, cfg hx.Config, rng *rand.Rand, idx int, nonUTF8 bool) {
	dir := filepath.Join(cfg.Work, fmt.Sprintf("q%d", idx))
	os.RemoveAll(dir)
	if idx%3 == 1 {
		// every third run: the GeoJSON reader validates positions (also when the rewritten log is loaded)
		os.Setenv("REQUIREVALID", "1")
		defer os.Unsetenv("REQUIREVALID")
		r.Dist("quiescent:requirevalid")
	}
	in := startInst(cfg.Work, dir)
	defer func() { in.close() }()
	ds := genDataset(rng, 10+rng.Intn(8), 1+rng.Intn(2), true, nonUTF8)
	loadErrs := load(in.c, ds)
	// overwrite / delete a few so that the log is longer than the dataset
	for i := 0; i < 30; i++ {
		c := ds.cmds[rng.Intn(len(ds.cmds))]
		if c[0] == "SET" && rng.Intn(2) == 0 {
			in.c.MustDo("DEL", c[1], c[2])
		} else if c[0] == "SET" {
			in.c.MustDo(genSet(rng, c[1], c[2], nonUTF8)...)
		}
	}
	before := dumpFull(in.c)
	szBefore := fileSize(aofPath(dir))
	evs, e := in.shrinkWith("", nil)
	sig := "shrink-quiescent"
	if nonUTF8 {
		sig = "shrink-field-nonutf8"
	}
	cs := map[string]interface{}{"scenario": "quiescent", "index": idx, "commands": len(ds.cmds), "nonutf8_fields": nonUTF8, "load_errors": clip(loadErrs, 5)}
	if e != "" {
		r.Fail(hx.Failure{Kind: "oracle", Signature: "shrink-did-not-finish", What: "AOFSHRINK did not finish: " + e, Case: cs, Impl: in.s.LogTail(600)})
		return
	}
	_ = evs
	after := dumpFull(in.c)
	recs, rerr := readAOF(aofPath(dir))
	szAfter := fileSize(aofPath(dir))
	in.stop()
	in2 := startInst(cfg.Work, dir)
	restarted := dumpFull(in2.c)
	in = in2
	nobj := strings.Count(before, "\n  ")
	r.Count(fmt.Sprintf("quiescent/%d/%d/%v", idx, len(before), nonUTF8), nobj > 40 && strings.Count(before, "KEY ") > 8)
	r.Dist("scenario:quiescent")
	cs["objects"] = nobj
	cs["collections"] = strings.Count(before, "KEY ")
	cs["aof_bytes_before_after"] = []int64{szBefore, szAfter}
	r.Sample(6, cs)
	if before != after {
		a, b := diffLines(before, after)
		r.Fail(hx.Failure{Kind: "oracle", Signature: sig + "-live-changed", What: "the live dataset changed across a quiescent AOFSHRINK", Case: cs, Impl: map[string]interface{}{"only_before": clip(a, 6), "only_after": clip(b, 6)}})
	}
	if before != restarted {
		a, b := diffLines(before, restarted)
		r.Fail(hx.Failure{Kind: "oracle", Signature: sig + "-restart-mismatch", What: "dump before AOFSHRINK differs from the dump after a restart on the shrunk file", Case: cs, Impl: map[string]interface{}{"only_before": clip(a, 6), "only_after_restart": clip(b, 6)}})
	}
	// exactly one SET per object, one SETHOOK/SETCHAN per hook, nothing else
	if rerr != nil {
		r.Fail(hx.Failure{Kind: "oracle", Signature: "shrink-file-unreadable", What: "the shrunk file does not parse: " + rerr.Error(), Case: cs})
		return
	}
	seen := map[string]int{}
	nset, nhook, other := 0, 0, 0
	for _, rec := range recs {
		switch {
		case len(rec) >= 3 && rec[0] == "set":
			nset++
			seen[rec[1]+"\x00/\x00"+rec[2]]++
		case len(rec) >= 2 && (rec[0] == "sethook" || rec[0] == "setchan"):
			nhook++
		default:
			other++
		}
	}
	dup := 0
	for _, n := range seen {
		if n > 1 {
			dup++
		}
	}
	nhooksLive := strings.Count(before, "\nHOOKS [") + strings.Count(before, "\nCHANS [")
	if nset != nobj || dup != 0 || other != 0 || nhook != nhooksLive {
		r.Fail(hx.Failure{Kind: "oracle", Signature: "shrink-batches-skip-or-repeat", What: fmt.Sprintf("shrunk file: %d set records (%d duplicated pairs), %d hook records, %d other records; dataset has %d objects and %d hooks/channels", nset, dup, nhook, other, nobj, nhooksLive), Case: cs})
	}
	if szAfter >= szBefore {
		r.Dist("quiescent:file-not-smaller")
	}
}

// checkShrunkFile: the file a quiescent AOFSHRINK produced holds exactly one SET per object of the
// dump, one SETHOOK/SETCHAN per hook or channel, and nothing else. Returns "" or what is wrong.
func checkShrunkFile(path, dump string) string {
	recs, err := readAOF(path)
	if err != nil {
		return "the shrunk file does not parse: " + err.Error()
	}
	seen := map[string]int{}
	nset, nhook, other := 0, 0, 0
	for _, rec := range recs {
		switch {
		case len(rec) >= 3 && rec[0] == "set":
			nset++
			seen[rec[1]+"\x00/\x00"+rec[2]]++
		case len(rec) >= 2 && (rec[0] == "sethook" || rec[0] == "setchan"):
			nhook++
		default:
			other++
		}
	}
	dup := 0
	for _, n := range seen {
		if n > 1 {
			dup++
		}
	}
	nobj := strings.Count(dump, "\n  ")
	nhooksLive := strings.Count(dump, "\nHOOKS [") + strings.Count(dump, "\nCHANS [")
	if nset != nobj || dup != 0 || other != 0 || nhook != nhooksLive {
		return fmt.Sprintf("shrunk file: %d set records (%d duplicated pairs), %d hook records, %d other records; dataset has %d objects and %d hooks/channels", nset, dup, nhook, other, nobj, nhooksLive)
	}
	return ""
}

func fileSize(p string) int64 {
	fi, err := os.Stat(p)
	if err != nil {
		return -1
	}
	return fi.Size()
}

// ---------------------------------------------------------------- scenario: concurrent writes (black box)

type cursorInfo struct {
	kind, key, id string
	keys          []string // all collection names currently known to the generator
}

func pickKey(rng *rand.Rand, cur cursorInfo, known []string) string {
	// keys straddling the cursor: the cursor key itself, neighbours, brand-new keys on both sides
	switch rng.Intn(8) {
	case 0, 1:
		if cur.key != "" {
			return cur.key
		}
	case 2:
		if cur.key != "" {
			return cur.key[:len(cur.key)-1] // sorts just before the cursor
		}
	case 3:
		return cur.key + "~" // sorts just after the cursor
	case 4:
		return fmt.Sprintf("new%02d", rng.Intn(6))
	case 5:
		return fmt.Sprintf("Aearly%d", rng.Intn(3)) // before every k.. key
	}
	if len(known) > 0 {
		return known[rng.Intn(len(known))]
	}
	return "k00"
}

func pickID(rng *rand.Rand, cur cursorInfo) string {
	switch rng.Intn(6) {
	case 0:
		if cur.id != "" {
			return cur.id
		}
	case 1:
		if cur.id != "" {
			return cur.id[:len(cur.id)-1]
		}
	case 2:
		return cur.id + "0"
	case 3:
		return fmt.Sprintf("zz%02d", rng.Intn(5))
	}
	return fmt.Sprintf("id%03d", rng.Intn(60))
}

// genWrite: one writer command. risky = also RENAME/RENAMENX and JSET/JDEL on array indexes.
func genWrite(rng *rand.Rand, cur cursorInfo, known []string, hookNames []string) []string {
	k := pickKey(rng, cur, known)
	id := pickID(rng, cur)
	switch rng.Intn(26) {
	case 0, 1, 2, 3, 4:
		return genSet(rng, k, id, false)
	case 5:
		c := genSet(rng, k, id, false)
		return append(c[:3:3], append([]string{[]string{"NX", "XX"}[rng.Intn(2)]}, c[3:]...)...)
	case 6, 7:
		n := 1 + rng.Intn(3)
		args := []string{"FSET", k, id}
		if rng.Intn(4) == 0 {
			args = append(args, "XX")
		}
		for i := 0; i < n; i++ {
			v := oddFieldValues[rng.Intn(len(oddFieldValues))]
			if rng.Intn(4) == 0 {
				v = "0"
			}
			args = append(args, fieldNames[rng.Intn(len(fieldNames))], v)
		}
		return args
	case 8, 9, 10:
		return []string{"DEL", k, id}
	case 11:
		return []string{"PDEL", k, []string{"id00*", "id0?1", "*", "zz*", "id01[0-4]"}[rng.Intn(5)]}
	case 12:
		return []string{"DROP", k}
	case 13:
		if rng.Intn(5) == 0 {
			return []string{"FLUSHDB"}
		}
		return []string{"DROP", k}
	case 14:
		return []string{"EXPIRE", k, id, []string{"1000", "99.5"}[rng.Intn(2)]}
	case 15:
		return []string{"PERSIST", k, id}
	case 16, 17:
		// JSET on a plain path; creates the document if missing
		return []string{"JSET", k, id, []string{"a", "b.c", "name", "arr.0", "deep.x.y", "arr.-1"}[rng.Intn(6)], []string{"1", "two", `{"z":1}`, "true", "3.5"}[rng.Intn(5)]}
	case 18:
		return []string{"JDEL", k, id, []string{"a", "b.c", "name", "deep.x", "arr.0", "arr.1"}[rng.Intn(6)]}
	case 19:
		return genHook(rng, rng.Intn(7), false)
	case 20:
		return genHook(rng, rng.Intn(4), true)
	case 21:
		return []string{"DELHOOK", fmt.Sprintf("hook%02d", rng.Intn(7))}
	case 22:
		return []string{"DELCHAN", fmt.Sprintf("chan%02d", rng.Intn(4))}
	case 23:
		if rng.Intn(2) == 0 {
			return []string{"PDELHOOK", []string{"hook0[0-2]", "*3", "nomatch*"}[rng.Intn(3)]}
		}
		return []string{"PDELCHAN", []string{"chan0[0-1]", "*3"}[rng.Intn(2)]}
	case 24:
		return []string{"SET", k, id, "STRING", `{"a":1,"arr":[1,2,3],"b":{"c":2}}`}
	}
	return []string{"SET", k, id, "EX", "2000", "POINT", "1", "2"}
}

func knownKeys(c *srv.Conn) []string {
	v := c.MustDo("KEYS", "*")
	var ks []string
	for _, k := range v.Array {
		ks = append(ks, k.Str)
	}
	return ks
}

func concurrent(r *hx.Result, cfg hx.Config, rng *rand.Rand, idx int) {
	dir := filepath.Join(cfg.Work, fmt.Sprintf("c%d", idx))
	os.RemoveAll(dir)
	in := startInst(cfg.Work, dir)
	defer func() { in.close() }()
	ds := genDataset(rng, 10+rng.Intn(6), 1+rng.Intn(2), true, false)
	load(in.c, ds)
	// documents for JSET/JDEL
	for i := 0; i < 6; i++ {
		in.c.MustDo("SET", keyName(rng.Intn(10)), fmt.Sprintf("id%03d", rng.Intn(60)), "STRING", `{"a":1,"b":{"c":2},"name":"n","arr":[1,2,3]}`)
	}
	var log []sent
	nwrites, neff := 0, 0
	density := 1 + rng.Intn(3)
	gateNo, reqGate := 0, 2+rng.Intn(10)
	evs, e := in.shrinkWith("*", func(ev event) bool {
		n := 0
		if rng.Intn(3) < density {
			n = 1 + rng.Intn(3)
		}
		if gateNo+1 == reqGate && n < 2 {
			n = 3
		}
		if ev.kind == "start" || ev.kind == "final" || ev.kind == "hooknames" {
			n = 1 + rng.Intn(3)
		}
		known := knownKeys(in.c)
		cur := cursorInfo{kind: ev.kind, key: ev.a, id: ev.b}
		if ev.kind != "keys" && ev.kind != "ids" {
			cur.key, cur.id = "", ""
		}
		gateNo++
		for i := 0; i < n; i++ {
			w := genWrite(rng, cur, known, nil)
			// another AOFSHRINK request while this one is parked (must be a no-op), in the middle
			// of the writes: at a fixed gate of every scenario and now and then elsewhere
			if (gateNo == reqGate && i == n/2) || rng.Intn(25) == 0 || (ev.kind == "final" && i == 0 && rng.Intn(2) == 0) {
				w = []string{"AOFSHRINK"}
			}
			v := in.c.MustDo(w...)
			nwrites++
			if !v.IsErr() && !(v.Kind == ':' && v.Int == 0) && v.Kind != 'n' {
				neff++
			}
			r.Dist("write:" + strings.ToLower(w[0]))
			log = append(log, sent{Cmd: qcmd(w), Reply: v.String(), At: ev.raw})
		}
		return true
	})
	cs := map[string]interface{}{"scenario": "concurrent", "index": idx, "dataset_commands": len(ds.cmds), "gates": len(evs), "writes": nwrites}
	if e != "" {
		r.Fail(hx.Failure{Kind: "oracle", Signature: "shrink-did-not-finish", What: "AOFSHRINK did not finish: " + e, Case: cs, Impl: in.s.LogTail(600)})
		return
	}
	live := dumpFull(in.c)
	in.stop()
	in2 := startInst(cfg.Work, dir)
	restarted := dumpFull(in2.c)
	in = in2
	r.Count(fmt.Sprintf("concurrent/%d/%d/%d", idx, len(evs), nwrites), neff > 0 && len(evs) > 12)
	r.Dist("scenario:concurrent")
	if idx < 2 {
		cs2 := map[string]interface{}{"scenario": "concurrent", "gates": len(evs), "writes": nwrites, "effective": neff, "first_writes": clipSent(log, 6)}
		r.Sample(8, cs2)
	}
	if live != restarted {
		a, b := diffLines(live, restarted)
		cs["writes_log"] = clipSent(relevant(log, append(a, b...)), 40)
		r.Fail(hx.Failure{Kind: "oracle", Signature: "shrink-concurrent-restart-mismatch", What: "live dump after AOFSHRINK with concurrent writes differs from the dump after a restart", Case: cs, Impl: map[string]interface{}{"only_live": clip(a, 8), "only_after_restart": clip(b, 8)}})
	}
}

func clipSent(l []sent, n int) []sent {
	if len(l) > n {
		return l[:n]
	}
	return l
}

// relevant keeps the writes that mention a key occurring in the differing lines.
func relevant(log []sent, lines []string) []sent {
	keys := map[string]bool{}
	for _, l := range lines {
		if strings.HasPrefix(l, "KEY ") {
			keys[l[4:]] = true
		}
	}
	if len(keys) == 0 {
		return log
	}
	var out []sent
	for _, s := range log {
		hit := len(s.Cmd) < 2
		for _, a := range s.Cmd[1:] {
			u, _ := strconv.Unquote(a)
			if keys[u] {
				hit = true
			}
		}
		if hit || strings.Contains(strings.ToUpper(s.Cmd[0]), "FLUSHDB") {
			out = append(out, s)
		}
	}
	return out
}

// ---------------------------------------------------------------- scenario: model schedules (correspondence)

// a schedule: writer commands before every step (index = number of steps already taken)
type schedule struct {
	Init   []mcmd
	Before map[int][]mcmd
	name   string
	// CrashFirst: an earlier rewrite of the Init dataset dies at this crash point; the server is
	// restarted on what it left behind, Mutate is applied, and only then the schedule proper runs
	CrashFirst string
	Mutate     []mcmd
}

var crashPoints []string

// Before[slotFinal]: writers issued while the rewrite is parked before its final section
const slotFinal = 1000000

// dead releases what is left of an instance whose process has died.
func (in *inst) dead() {
	if in.c != nil {
		in.c.Close()
		in.c = nil
	}
	if in.g != nil {
		in.g.c.Close()
		in.g = nil
	}
	os.Remove(in.sock)
}

// playSchedule runs one model schedule on the server and on the model. Returns whether the oracle
// held, and what the model predicted for it.
func playSchedule(r *hx.Result, cfg hx.Config, drv *model.Driver, sc schedule, idx int) {
	dir := filepath.Join(cfg.Work, fmt.Sprintf("m%d", idx))
	os.RemoveAll(dir)
	if sc.CrashFirst != "" && idx%2 == 0 {
		// every other crash-first schedule runs with a log name of its own
		useCustomAOF(cfg.Work, dir, fmt.Sprintf("m%d", idx))
	}
	in := startInst(cfg.Work, dir)
	defer func() { in.close() }()
	drv.Ask("new")
	caseDesc := map[string]interface{}{"scenario": "model-schedule", "name": sc.name, "index": idx}
	var trace []string
	var issued []mcmd // every writer command in the order it was sent
	apply := func(m mcmd, at string) bool {
		v := in.c.MustDo(m.real()...)
		mo := drv.Ask(m.model()...)
		impl := "updated"
		switch {
		case v.IsErr() && strings.Contains(v.Str, "key not found"):
			impl = "err:keynotfound"
		case v.IsErr() && strings.Contains(v.Str, "id not found"):
			impl = "err:idnotfound"
		case v.IsErr() && strings.Contains(v.Str, "cannot share the same name"):
			impl = "fatal"
		case v.IsErr() && strings.Contains(v.Str, "invalid argument"):
			impl = "err:invalid"
		case v.IsErr():
			impl = "err:" + v.Str
		case v.Kind == ':' && v.Int == 0:
			impl = "notupdated"
		case m.op == "aofshrink":
			// answered OK at once; while a rewrite is running the request must be a no-op, which
			// shows in everything compared later (cursor, file records, datasets)
			impl = "ignored"
		}
		trace = append(trace, at+" "+m.String()+" -> "+impl)
		issued = append(issued, m)
		if impl != mo {
			caseDesc["trace"] = clip(trace, 60)
			r.Fail(hx.Failure{Kind: "correspondence", Signature: "shrink-model-command-outcome", What: "writer command outcome differs: " + m.String(), Case: caseDesc, Impl: impl, Model: mo})
			return false
		}
		return true
	}
	for _, m := range sc.Init {
		if !apply(m, "init") {
			return
		}
	}
	leftoverWant := ""
	if sc.CrashFirst != "" {
		cp := sc.CrashFirst
		caseDesc["crash_first"] = cp
		pre := objDump(in.c)
		_, e := in.shrinkWith("final", func(ev event) bool {
			if ev.kind == "final" {
				in.g.ask("crash " + cp)
			}
			return true
		})
		if !strings.HasPrefix(e, "gate:") || !in.s.WaitExit(10*time.Second) {
			r.Fail(hx.Failure{Kind: "correspondence", Signature: "shrink-crash-point-not-reached", What: "the server did not die at crash point " + cp + " (" + e + ")", Case: caseDesc, Impl: in.s.LogTail(400)})
			return
		}
		in.dead()
		trace = append(trace, "first rewrite died at "+cp+": "+dirState(dir))
		want := strings.Split(drv.Ask("leftover", cp), " | ")
		in = startInst(cfg.Work, dir)
		if got := dirState(dir); len(want) == 2 && got != want[0] {
			r.Fail(hx.Failure{Kind: "correspondence", Signature: "shrink-model-crash-dir", What: "files present after start-up on the leftovers of a crash at " + cp + " differ from the model's", Case: caseDesc, Impl: got, Model: want[0]})
		}
		if len(want) == 2 {
			leftoverWant = want[1]
		}
		if rec := objDump(in.c); rec != pre {
			a, b := diffLines(strings.ReplaceAll(pre, ",", "\n"), strings.ReplaceAll(rec, ",", "\n"))
			r.Fail(hx.Failure{Kind: "oracle", Signature: "shrink-crash-" + cp, What: "after a crash at " + cp + " a restart does not recover the acknowledged dataset: missing " + unhexLines(clip(a, 4)) + " extra " + unhexLines(clip(b, 4)), Case: caseDesc})
			return
		}
		for _, m := range sc.Mutate {
			if !apply(m, "after recovery") {
				return
			}
		}
	}
	hasRename := false
	nw := 0
	step := 0
	mgate := ""
	var gateMismatch []string
	evs, e := in.shrinkWith("*", func(ev event) bool {
		switch ev.kind {
		case "start":
			mgate = drv.Ask("begin")
			for _, m := range sc.Before[-1] {
				nw++
				hasRename = hasRename || m.op == "rename"
				if !apply(m, "start") {
					return false
				}
			}
			return true
		case "keys", "ids", "hooknames", "hook":
			want := ev.kind + " " + model.H(ev.a) + " " + model.H(ev.b)
			if mgate != want {
				gateMismatch = append(gateMismatch, fmt.Sprintf("step %d: server parked at %q, model at %q", step, want, mgate))
				return false
			}
			for _, m := range sc.Before[step] {
				nw++
				hasRename = hasRename || m.op == "rename"
				if !apply(m, fmt.Sprintf("before step %d (%s)", step, ev.raw)) {
					return false
				}
			}
			trace = append(trace, fmt.Sprintf("step %d at %s", step, ev.raw))
			mgate = drv.Ask("step")
			step++
			return true
		case "final":
			if mgate != "final - -" {
				gateMismatch = append(gateMismatch, fmt.Sprintf("server reached the final section after %d steps, model is at %q", step, mgate))
				return false
			}
			for _, m := range sc.Before[slotFinal] {
				nw++
				hasRename = hasRename || m.op == "rename"
				if !apply(m, "before the final section") {
					return false
				}
			}
		}
		return true
	})
	caseDesc["steps"] = step
	caseDesc["writes"] = nw
	if len(gateMismatch) > 0 {
		caseDesc["trace"] = clip(trace, 60)
		r.Fail(hx.Failure{Kind: "correspondence", Signature: "shrink-model-cursor", What: "batch cursor differs from the model: " + gateMismatch[0], Case: caseDesc})
		return
	}
	if e != "" {
		if e != "stopped" {
			r.Fail(hx.Failure{Kind: "oracle", Signature: "shrink-did-not-finish", What: "AOFSHRINK did not finish: " + e, Case: caseDesc, Impl: in.s.LogTail(600)})
		}
		return
	}
	_ = evs
	if got := dirState(dir); leftoverWant != "" && got != leftoverWant {
		r.Fail(hx.Failure{Kind: "correspondence", Signature: "shrink-model-crash-dir", What: "files present after a complete rewrite on the leftovers of a crash at " + sc.CrashFirst + " differ from the model's", Case: caseDesc, Impl: got, Model: leftoverWant})
	}
	// file records: the object snapshot and the hook snapshot in canonical text (TTL digits
	// dropped), then the shrinklog: the logged commands exactly as they were sent
	recs, rerr := readAOF(aofPath(dir))
	var modelRecs []string
	for _, s := range []string{drv.Ask("out"), drv.Ask("hout")} {
		if s != "-" {
			modelRecs = append(modelRecs, strings.Split(s, ",")...)
		}
	}
	nsnap := len(modelRecs)
	if mlog := drv.Ask("log"); mlog != "-" {
		// the model's log is a subsequence of the issued commands (the updated ones)
		j := 0
		for _, want := range strings.Split(mlog, ",") {
			for j < len(issued) && issued[j].canon() != want {
				j++
			}
			if j == len(issued) {
				modelRecs = append(modelRecs, "?model logged a command that was never issued: "+want)
				break
			}
			modelRecs = append(modelRecs, strings.Join(qcmd(issued[j].real()), " "))
			j++
		}
	}
	var implRecs []string
	for i, rec := range recs {
		if i < nsnap {
			// TTL digits: every deadline of these schedules was set to 1000 s a moment ago; the
			// snapshot may shorten it by the elapsed time plus less than 0.1 s (objects: floored to
			// tenths; hooks: rounded to tenths), never lengthen it
			if ttl, ok := recTTL(rec); ok {
				t, err := strconv.ParseFloat(ttl, 64)
				dot := strings.IndexByte(ttl, '.')
				if err != nil || t > 1000.05 || t < 1000-120 || (dot >= 0 && len(ttl)-dot-1 > 1) {
					r.Fail(hx.Failure{Kind: "oracle", Signature: "shrink-ttl-digits", What: "snapshot record carries a TTL outside (elapsed + 0.1 s) of the remaining time, or with more than one decimal: " + strings.Join(qcmd(rec), " "), Case: caseDesc})
				}
			}
			implRecs = append(implRecs, recCanon(rec))
		} else {
			implRecs = append(implRecs, strings.Join(qcmd(rec), " "))
		}
	}
	live := objDump(in.c)
	mlive := sortedModelDump(drv.Ask("live"))
	mrep := sortedModelDump(drv.Ask("replayed"))
	hlive := hookDump(in.c)
	mhlive := sortedModelDump(drv.Ask("hlive"))
	mhrep := sortedModelDump(drv.Ask("hreplayed"))
	mhrepOrig := drv.Ask("hreplayed_orig") // "fatal": the pinned loader would refuse the file
	in.stop()
	in2, serr := startInstE(cfg.Work, dir)
	if serr != nil {
		// the server refuses to load the file it has just written
		sig := "shrink-new-file-does-not-load"
		if mhrepOrig == "fatal" && live == mlive && hlive == mhlive {
			// exactly what the model predicts: a name that changed between hook and channel
			sig = "shrink-hook-kind-switch-fatal"
		}
		caseDesc["trace"] = clip(trace, 80)
		r.Count("model/"+sc.name+"/nostart", true)
		r.Fail(hx.Failure{Kind: "oracle", Signature: sig, What: "after AOFSHRINK (" + sc.name + ") the server does not start on the new file: " + lastLines(serr.Error(), 300), Case: caseDesc, Model: map[string]interface{}{"model_hooks_replay_pinned_loader": mhrepOrig}})
		in = &inst{s: in.s, dir: dir}
		return
	}
	restarted := objDump(in2.c)
	hrestarted := hookDump(in2.c)
	in = in2
	r.Count("model/"+sc.name+"/"+strconv.Itoa(step)+"/"+strconv.Itoa(nw)+"/"+strconv.Itoa(len(implRecs)), nw > 0 && step > 2)
	r.Dist("scenario:model-schedule")
	r.TracesImpl++
	if len(r.Samples) < 12 && nw > 0 {
		r.Sample(12, map[string]interface{}{"scenario": "model-schedule", "name": sc.name, "steps": step, "writes": nw, "records": len(implRecs), "trace": clip(trace, 12)})
	}
	caseDesc["trace"] = clip(trace, 80)
	if rerr != nil || strings.Join(implRecs, ",") != strings.Join(modelRecs, ",") {
		a, b := diffLines(strings.Join(implRecs, "\n"), strings.Join(modelRecs, "\n"))
		r.Fail(hx.Failure{Kind: "correspondence", Signature: "shrink-model-file", What: "records of the shrunk file differ from the model's snapshot ++ shrinklog", Case: caseDesc, Impl: clip(a, 8), Model: clip(b, 8)})
	}
	if live != mlive {
		r.Fail(hx.Failure{Kind: "correspondence", Signature: "shrink-model-live", What: "live dataset differs from the model's", Case: caseDesc, Impl: live, Model: mlive})
	}
	if restarted != mrep {
		r.Fail(hx.Failure{Kind: "correspondence", Signature: "shrink-model-replayed", What: "dataset after restart differs from the model's replay of the new file", Case: caseDesc, Impl: restarted, Model: mrep})
	}
	if hlive != mhlive {
		r.Fail(hx.Failure{Kind: "correspondence", Signature: "shrink-model-hooks-live", What: "live hooks/channels differ from the model's registry", Case: caseDesc, Impl: hlive, Model: mhlive})
	}
	if hrestarted != mhrep {
		r.Fail(hx.Failure{Kind: "correspondence", Signature: "shrink-model-hooks-replayed", What: "hooks/channels after restart differ from the model's replay of the new file", Case: caseDesc, Impl: hrestarted, Model: mhrep})
	}
	if hlive != hrestarted {
		a, b := diffLines(strings.ReplaceAll(hlive, ",", "\n"), strings.ReplaceAll(hrestarted, ",", "\n"))
		r.Fail(hx.Failure{Kind: "oracle", Signature: "shrink-hooks-restart-mismatch", What: "hooks/channels after restart differ from the live ones (" + sc.name + "): live-only " + unhexLines(clip(a, 3)) + " restart-only " + unhexLines(clip(b, 3)), Case: caseDesc})
	}
	if live != restarted {
		sig := "shrink-concurrent-restart-mismatch"
		if sc.CrashFirst != "" {
			sig = "shrink-after-crash-recovery"
		}
		if hasRename && live == mlive && restarted == mrep {
			// exactly the loss the faithful model predicts for a RENAME concurrent with the rewrite
			sig = "shrink-rename-stale"
		}
		a, b := diffLines(strings.ReplaceAll(live, ",", "\n"), strings.ReplaceAll(restarted, ",", "\n"))
		if sig == "shrink-rename-stale" && len(b) == 0 {
			// objects of a renamed collection are missing after the restart, nothing else differs
			sig = "shrink-rename-lost"
		}
		r.Fail(hx.Failure{Kind: "oracle", Signature: sig, What: "dataset after restart differs from the live dataset (" + sc.name + "): live-only " + unhexLines(clip(a, 4)) + " restart-only " + unhexLines(clip(b, 4)), Case: caseDesc, Impl: map[string]interface{}{"only_live": clip(a, 8), "only_after_restart": clip(b, 8)}, Model: map[string]interface{}{"model_predicts_mismatch": mlive != mrep}})
	}
}

func lastLines(s string, n int) string {
	if len(s) > n {
		s = s[len(s)-n:]
	}
	return strings.Join(strings.Fields(s), " ")
}

func unhexLines(l []string) string {
	var o []string
	for _, s := range l {
		var p []string
		for _, f := range strings.Fields(s) {
			if strings.HasPrefix(f, "...") || !isHex(f) {
				p = append(p, f)
			} else {
				p = append(p, strconv.QuoteToASCII(model.U(f)))
			}
		}
		o = append(o, strings.Join(p, "/"))
	}
	return "[" + strings.Join(o, ", ") + "]"
}

func isHex(s string) bool {
	if s == "-" {
		return true
	}
	if len(s)%2 != 0 {
		return false
	}
	for _, c := range s {
		if !strings.ContainsRune("0123456789abcdef", c) {
			return false
		}
	}
	return true
}

// the witnesses of c09_rename_refuted / c09_rename_dup_refuted (coq/Props/C09.v)
func witnessSchedules() []schedule {
	var a schedule
	a.name = "witness-rename-lost"
	for _, k := range []string{"b", "c", "d", "e", "f", "g", "h", "i", "m"} {
		a.Init = append(a.Init, mcmd{op: "set", a: k, b: "1", v: "x"})
	}
	a.Before = map[int][]mcmd{1: {{op: "rename", a: "m", b: "a"}}}
	var b schedule
	b.name = "witness-rename-dup"
	b.Init = []mcmd{{op: "set", a: "A", b: "1", v: "x"}}
	b.Before = map[int][]mcmd{0: {{op: "rename", a: "A", b: "B"}, {op: "set", a: "A", b: "1", v: "y"}}}
	// a collection renamed while half of its objects are written
	var c schedule
	c.name = "witness-rename-mid-collection"
	for i := 0; i < 40; i++ {
		c.Init = append(c.Init, mcmd{op: "set", a: "big", b: fmt.Sprintf("i%02d", i), v: "v"})
	}
	c.Before = map[int][]mcmd{2: {{op: "rename", a: "big", b: "zbig"}}}
	// a second and a third AOFSHRINK request while the rewrite is parked: no-ops
	var d schedule
	d.name = "witness-second-request"
	for _, k := range []string{"a", "b", "c"} {
		for i := 0; i < 3; i++ {
			d.Init = append(d.Init, mcmd{op: "set", a: k, b: fmt.Sprintf("i%d", i), v: "v"})
		}
	}
	d.Before = map[int][]mcmd{
		-1:        {{op: "set", a: "a", b: "i9", v: "w0"}},
		2:         {{op: "set", a: "a", b: "i1", v: "w1"}, {op: "aofshrink"}, {op: "del", a: "a", b: "i0"}},
		3:         {{op: "set", a: "b", b: "i5", v: "w2"}},
		slotFinal: {{op: "aofshrink"}, {op: "set", a: "c", b: "i7", v: "w3"}, {op: "del", a: "c", b: "i0"}},
	}
	out := []schedule{a, b, c, d}
	fvp := func(i int) *fv { return &fvPool[i%len(fvPool)] }
	fence := []string{"NEARBY", "fencekey", "FENCE", "POINT", "1", "2", "500"}
	// fields and deadlines around the cursor: FSET / EXPIRE / PERSIST / PDEL / SET with FIELDs
	var w schedule
	w.name = "witness-fields-deadlines"
	for _, k := range []string{"a", "b", "c"} {
		for i := 0; i < 4; i++ {
			w.Init = append(w.Init, mcmd{op: "set", a: k, b: fmt.Sprintf("i%d", i), v: "v", ex: i%2 == 1,
				fs: []fu{{"speed", fvp(i)}, {"a", fvp(i + 2)}}})
		}
	}
	w.Before = map[int][]mcmd{
		-1: {{op: "fset", a: "a", b: "i0", fs: []fu{{"speed", nil}, {"Zeta", fvp(3)}}}, {op: "expire", a: "c", b: "i0"}},
		2: {{op: "fset", a: "a", b: "i1", fs: []fu{{"b", fvp(5)}}}, {op: "persist", a: "a", b: "i1"}, {op: "expire", a: "a", b: "i2"},
			{op: "fset", a: "b", b: "i1", fs: []fu{{"a", nil}, {"n0", fvp(0)}}}, {op: "persist", a: "b", b: "i3"},
			{op: "set", a: "a", b: "i3", v: "v2", fs: []fu{{"a", nil}, {"b", fvp(1)}}},
			{op: "fset", a: "a", b: "nosuch", fs: []fu{{"a", fvp(1)}}}, {op: "fset", a: "nokey", b: "i0", fs: []fu{{"a", fvp(1)}}}},
		3: {{op: "pdel", a: "a", b: "i"}, {op: "pdel", a: "c", b: "i1"}, {op: "set", a: "a", b: "i2", v: "back", ex: true, fs: []fu{{"speed", fvp(6)}}},
			{op: "fset", a: "a", b: "i2", fs: []fu{{"speed", fvp(6)}}}, {op: "fset", a: "c", b: "i2", fs: []fu{{"Zeta", fvp(7)}}}},
		slotFinal: {{op: "persist", a: "a", b: "i2"}, {op: "expire", a: "b", b: "i0"}, {op: "fset", a: "b", b: "i0", fs: []fu{{"speed", fvp(4)}}}},
	}
	// hooks and channels with META and EX, changed during the scan and during the hooks phase
	var h schedule
	h.name = "witness-hooks"
	h.Init = []mcmd{{op: "set", a: "a", b: "1", v: "x"}, {op: "set", a: "b", b: "1", v: "x"},
		{op: "sethook", a: "hook1", eps: "http://127.0.0.1:1/x", metas: [][2]string{{"owner", "o 1"}, {"zone", "north"}}, fence: fence},
		{op: "sethook", a: "hook2", eps: "http://127.0.0.1:1/a,http://127.0.0.1:2/b", ex: true, fence: fence},
		{op: "setchan", a: "chan1", metas: [][2]string{{"m", "1"}}, ex: true, fence: fence},
		{op: "setchan", a: "chan2", fence: fence}, {op: "sethook", a: "hook3", eps: "http://127.0.0.1:1/x", fence: fence}}
	h.Before = map[int][]mcmd{
		1:         {{op: "sethook", a: "hook0", eps: "http://127.0.0.1:1/new", fence: fence}, {op: "delchan", a: "chan2"}, {op: "delhook", a: "chan1"}},
		3:         {{op: "sethook", a: "hook1", eps: "http://127.0.0.1:1/x", metas: [][2]string{{"owner", "o 2"}}, fence: fence}},                                   // hooknames gate
		4:         {{op: "delhook", a: "hook2"}, {op: "setchan", a: "chan0", fence: fence}, {op: "sethook", a: "hook3", eps: "http://127.0.0.1:1/x", fence: fence}}, // first hook gate
		5:         {{op: "pdelhook", a: "hook3"}, {op: "sethook", a: "hook9", eps: "http://127.0.0.1:1/x", ex: true, fence: fence}},
		slotFinal: {{op: "pdelchan", a: "chan0"}, {op: "aofshrink"}},
	}
	// a name that is a hook, is deleted and comes back as a channel while the rewrite runs
	var ks schedule
	ks.name = "witness-hook-kind-switch"
	ks.Init = []mcmd{{op: "set", a: "a", b: "1", v: "x"}}
	ks.Before = map[int][]mcmd{0: {{op: "sethook", a: "x", eps: "http://127.0.0.1:1/x", fence: fence}, {op: "delhook", a: "x"}, {op: "setchan", a: "x", fence: fence}}}
	// Acknowledged FSET / EXPIRE / PERSIST whose object, or whole collection, is deleted again before
	// the rewrite reads it: the records stay in the shrinklog and fail on replay with id / key not
	// found, which the loader must ignore
	var gone schedule
	gone.name = "witness-write-then-delete"
	for _, k := range []string{"a", "y", "z"} {
		for i := 0; i < 3; i++ {
			gone.Init = append(gone.Init, mcmd{op: "set", a: k, b: fmt.Sprintf("i%d", i), v: "v", ex: i == 2})
		}
	}
	gone.Before = map[int][]mcmd{
		-1: {{op: "fset", a: "z", b: "i0", fs: []fu{{"speed", fvp(0)}}}, {op: "expire", a: "z", b: "i1"}, {op: "persist", a: "z", b: "i2"},
			{op: "del", a: "z", b: "i0"}, {op: "pdel", a: "z", b: "i1"},
			{op: "fset", a: "y", b: "i0", fs: []fu{{"a", fvp(2)}}}, {op: "persist", a: "y", b: "i2"}, {op: "expire", a: "y", b: "i1"}},
		0: {{op: "drop", a: "y"}, {op: "fset", a: "z", b: "i2", fs: []fu{{"b", fvp(1)}}}, {op: "del", a: "z", b: "i2"}},
		1: {{op: "fset", a: "a", b: "i1", fs: []fu{{"b", fvp(1)}}}},
	}
	out = append(out, w, h, ks, gone, paddedNamesSchedule())
	// an interrupted rewrite leaves files behind; the dataset shrinks; the next rewrite completes
	for _, cp := range []string{"after-sync", "after-rename-bak", "before-append"} {
		var e schedule
		e.name = "witness-crash-then-shrink-" + cp
		for i := 0; i < 60; i++ {
			e.Init = append(e.Init, mcmd{op: "set", a: "big", b: fmt.Sprintf("i%02d", i), v: fmt.Sprintf("value-%d", i)})
		}
		for _, k := range []string{"b", "c", "d"} {
			e.Init = append(e.Init, mcmd{op: "set", a: k, b: "1", v: "x"})
		}
		e.CrashFirst = cp
		e.Mutate = []mcmd{{op: "drop", a: "big"}, {op: "set", a: "b", b: "9", v: "n"}}
		e.Before = map[int][]mcmd{1: {{op: "set", a: "c", b: "7", v: "q"}}}
		out = append(out, e)
	}
	return out
}

func genSchedule(rng *rand.Rand, withRename bool) schedule {
	var sc schedule
	sc.name = "random"
	if withRename {
		sc.name = "random+rename"
	}
	ncols := 7 + rng.Intn(8)
	keyOf := func(j int) string {
		odd := []string{"K", "k1", "k\xff", "a b", "~"}
		if j >= 12 {
			return odd[(j-12)%len(odd)]
		}
		return fmt.Sprintf("k%02d", j)
	}
	genFus := func(max int) []fu {
		var fs []fu
		n := rng.Intn(max + 1)
		for i := 0; i < n; i++ {
			f := fu{name: fnames[rng.Intn(len(fnames))]}
			if rng.Intn(4) != 0 {
				f.val = &fvPool[rng.Intn(len(fvPool))]
			}
			fs = append(fs, f)
		}
		return fs
	}
	fence := []string{"NEARBY", "fencekey", "FENCE", "POINT", "1", "2", "500"}
	if rng.Intn(2) == 0 {
		fence = []string{"WITHIN", "fencekey", "FENCE", "DETECT", "enter,exit", "BOUNDS", "-10", "-10", "10", "10"}
	}
	genHookCmd := func() mcmd {
		ch := rng.Intn(3) == 0
		name := fmt.Sprintf("hook%d", rng.Intn(5))
		if ch {
			name = fmt.Sprintf("chan%d", rng.Intn(3))
		}
		switch rng.Intn(6) {
		case 0:
			if ch {
				return mcmd{op: "delchan", a: name}
			}
			return mcmd{op: "delhook", a: name}
		case 1:
			if ch {
				return mcmd{op: "pdelchan", a: []string{"chan", "chan1", "x"}[rng.Intn(3)]}
			}
			return mcmd{op: "pdelhook", a: []string{"hook", "hook2", "x"}[rng.Intn(3)]}
		}
		m := mcmd{op: "sethook", a: name, eps: []string{"http://127.0.0.1:1/x", "http://127.0.0.1:1/a,http://127.0.0.1:2/b"}[rng.Intn(2)], fence: fence, ex: rng.Intn(3) == 0}
		if ch {
			m.op, m.eps = "setchan", ""
		}
		for _, k := range []string{"owner", "zone"} {
			if rng.Intn(3) == 0 {
				m.metas = append(m.metas, [2]string{k, []string{"north", "a b", "42"}[rng.Intn(3)]})
			}
		}
		return m
	}
	big := rng.Intn(ncols)
	for j := 0; j < ncols; j++ {
		n := 1 + rng.Intn(4)
		if j == big || rng.Intn(9) == 0 {
			n = 30 + rng.Intn(45)
		}
		for i := 0; i < n; i++ {
			sc.Init = append(sc.Init, mcmd{op: "set", a: keyOf(j), b: fmt.Sprintf("i%02d", i), v: fmt.Sprintf("v%d", rng.Intn(1000)),
				fs: genFus(2), ex: rng.Intn(5) == 0})
		}
	}
	rng.Shuffle(len(sc.Init), func(i, j int) { sc.Init[i], sc.Init[j] = sc.Init[j], sc.Init[i] })
	for i, n := 0, rng.Intn(5); i < n; i++ {
		if m := genHookCmd(); m.op == "sethook" || m.op == "setchan" {
			sc.Init = append(sc.Init, m)
		}
	}
	sc.Before = map[int][]mcmd{}
	slots := []int{-1, slotFinal}
	for s := 0; s < 45; s++ {
		slots = append(slots, s)
	}
	nslots := 3 + rng.Intn(12)
	for q := 0; q < nslots; q++ {
		slot := slots[rng.Intn(len(slots))]
		if rng.Intn(2) == 0 {
			slot = rng.Intn(14) // early steps exist in every run
		}
		n := 1 + rng.Intn(3)
		for i := 0; i < n; i++ {
			k := keyOf(rng.Intn(ncols + 3))
			id := fmt.Sprintf("i%02d", rng.Intn(50))
			var m mcmd
			switch x := rng.Intn(24); {
			case x < 6:
				m = mcmd{op: "set", a: k, b: id, v: fmt.Sprintf("w%d", rng.Intn(1000)), fs: genFus(2), ex: rng.Intn(4) == 0}
			case x < 10:
				m = mcmd{op: "fset", a: k, b: id, fs: genFus(2)}
				if len(m.fs) == 0 {
					m.fs = []fu{{"speed", &fvPool[0]}}
				}
			case x < 12:
				m = mcmd{op: "expire", a: k, b: id}
			case x < 14:
				m = mcmd{op: "persist", a: k, b: id}
			case x < 16:
				m = mcmd{op: "del", a: k, b: id}
			case x < 18:
				m = mcmd{op: "pdel", a: k, b: []string{"i0", "i1", "i4", "i", "i03", "zz"}[rng.Intn(6)]}
			case x < 19:
				m = mcmd{op: "drop", a: k}
			case x < 22:
				m = genHookCmd()
			case x == 22 && rng.Intn(4) == 0:
				m = mcmd{op: "flushdb"}
			case x == 22:
				m = mcmd{op: "aofshrink"}
			default:
				if withRename {
					m = mcmd{op: "rename", a: k, b: keyOf(rng.Intn(ncols + 3))}
				} else {
					m = mcmd{op: "fset", a: k, b: id, fs: []fu{{"n0", &fvPool[rng.Intn(len(fvPool))]}}}
				}
			}
			sc.Before[slot] = append(sc.Before[slot], m)
		}
	}
	// hook commands while the hooks phase itself is running (its gates follow the scan: step
	// numbers are not known in advance, so a band of slots is filled)
	if rng.Intn(2) == 0 {
		for s := 8; s < 40; s += 1 + rng.Intn(4) {
			sc.Before[s] = append(sc.Before[s], genHookCmd())
		}
	}
	// every schedule asks for another rewrite at least once while the first is parked
	rs := slots[rng.Intn(len(slots))]
	if rng.Intn(2) == 0 {
		rs = rng.Intn(8)
	}
	sc.Before[rs] = append(sc.Before[rs], mcmd{op: "aofshrink"})
	if len(crashPoints) > 0 && rng.Intn(4) == 0 {
		sc.CrashFirst = crashPoints[rng.Intn(len(crashPoints))]
		sc.name += "+crash-first"
		for j := 0; j < ncols; j++ {
			if j == big || rng.Intn(2) == 0 {
				sc.Mutate = append(sc.Mutate, mcmd{op: "drop", a: keyOf(j)})
			}
		}
		sc.Mutate = append(sc.Mutate, mcmd{op: "set", a: keyOf(rng.Intn(ncols)), b: "i77", v: "after"})
	}
	return sc
}

// ---------------------------------------------------------------- scenario: JSET / JDEL on array indexes

func jsonWitness(r *hx.Result, cfg hx.Config, which string) {
	dir := filepath.Join(cfg.Work, "j-"+which)
	os.RemoveAll(dir)
	in := startInst(cfg.Work, dir)
	defer func() { in.close() }()
	in.c.MustDo("SET", "docs", "d1", "STRING", `{"arr":[1,2,3]}`)
	var w []string
	if which == "jset-append" {
		w = []string{"JSET", "docs", "d1", "arr.-1", "4"}
	} else {
		w = []string{"JDEL", "docs", "d1", "arr.0"}
	}
	// the write lands before the object is written to the snapshot: the snapshot already contains
	// its effect and the shrinklog applies it a second time
	_, e := in.shrinkWith("start", func(ev event) bool {
		if ev.kind == "start" {
			in.c.MustDo(w...)
		}
		return true
	})
	cs := map[string]interface{}{"scenario": "json-array-witness", "init": `SET docs d1 STRING {"arr":[1,2,3]}`, "at_start_gate": strings.Join(w, " ")}
	if e != "" {
		r.Fail(hx.Failure{Kind: "oracle", Signature: "shrink-did-not-finish", What: "AOFSHRINK did not finish: " + e, Case: cs})
		return
	}
	live := in.c.MustDo("GET", "docs", "d1").Str
	in.stop()
	in2 := startInst(cfg.Work, dir)
	in = in2
	restarted := in.c.MustDo("GET", "docs", "d1").Str
	r.Count("json/"+which, true)
	r.Dist("scenario:json-array-witness")
	cs["live"] = live
	cs["after_restart"] = restarted
	if live != restarted {
		r.Fail(hx.Failure{Kind: "oracle", Signature: "shrink-" + which + "-replayed-twice", What: fmt.Sprintf("%s during AOFSHRINK: live document %s, after restart %s", strings.Join(w, " "), live, restarted), Case: cs})
	}
}

// ---------------------------------------------------------------- scenario: RENAME + hook on the new name

// renameHookWitness: a collection is written to the snapshot, renamed, and a hook is then set on
// its new name; the hooks phase writes the hook, and the RENAME record of the shrinklog is
// refused on replay with "key has hooks set" - an error loadAOF treats as fatal.
func renameHookWitness(r *hx.Result, cfg hx.Config) {
	dir := filepath.Join(cfg.Work, "rh")
	os.RemoveAll(dir)
	in := startInst(cfg.Work, dir)
	defer func() { in.close() }()
	in.c.MustDo("SET", "A", "1", "STRING", "x")
	cmds := [][]string{{"RENAME", "A", "B"}, {"SETHOOK", "h", "http://127.0.0.1:1/x", "NEARBY", "B", "FENCE", "POINT", "1", "2", "500"}}
	_, e := in.shrinkWith("hooknames", func(ev event) bool {
		if ev.kind == "hooknames" {
			for _, c := range cmds {
				in.c.MustDo(c...)
			}
		}
		return true
	})
	cs := map[string]interface{}{"scenario": "rename-hook-witness", "init": "SET A 1 STRING x", "at_hooknames_gate": []string{"RENAME A B", "SETHOOK h http://127.0.0.1:1/x NEARBY B FENCE POINT 1 2 500"}}
	if e != "" {
		r.Fail(hx.Failure{Kind: "oracle", Signature: "shrink-did-not-finish", What: "AOFSHRINK did not finish: " + e, Case: cs})
		return
	}
	live := dumpFull(in.c)
	in.stop()
	r.Count("rename-hook", true)
	r.Dist("scenario:rename-hook-witness")
	in2, err := startInstE(cfg.Work, dir)
	if err != nil {
		in = &inst{s: in.s, dir: dir}
		r.Fail(hx.Failure{Kind: "oracle", Signature: "shrink-rename-hook-fatal", What: "RENAME A B followed by SETHOOK on B after A was written to the snapshot: the server does not start on the new file: " + lastLines(err.Error(), 260), Case: cs})
		return
	}
	in = in2
	if again := dumpFull(in.c); again != live {
		a, b := diffLines(live, again)
		r.Fail(hx.Failure{Kind: "oracle", Signature: "shrink-rename-hook-stale", What: "RENAME A B followed by SETHOOK on B after A was written to the snapshot: after restart the collection is still called A", Case: cs, Impl: map[string]interface{}{"only_live": clip(a, 4), "only_after_restart": clip(b, 4)}})
	}
}

// ---------------------------------------------------------------- scenario: crash points

func dirState(dir string) string {
	p := func(n string) string {
		if fileSize(aofPath(dir)+n) >= 0 {
			return "1"
		}
		return "0"
	}
	return "live=" + p("") + " bak=" + p("-bak") + " shrink=" + p("-shrink")
}

func crashScenario(r *hx.Result, cfg hx.Config, rng *rand.Rand, drv *model.Driver, cp string, idx int, custom bool) {
	dir := filepath.Join(cfg.Work, fmt.Sprintf("x%d", idx))
	os.RemoveAll(dir)
	if custom {
		useCustomAOF(cfg.Work, dir, fmt.Sprintf("x%d", idx))
	}
	in := startInst(cfg.Work, dir)
	defer func() { in.close() }()
	ds := genDataset(rng, 9+rng.Intn(4), 1, true, false)
	load(in.c, ds)
	acked := ""
	killedAt := ""
	nthIds := 2 + rng.Intn(4)
	seenIds := 0
	_, e := in.shrinkWith("*", func(ev event) bool {
		if ev.kind == "keys" || ev.kind == "hooknames" || (ev.kind == "ids" && rng.Intn(5) == 0) {
			cur := cursorInfo{kind: ev.kind, key: ev.a, id: ev.b}
			for i := 0; i < 2; i++ {
				in.c.MustDo(genWrite(rng, cur, knownKeys(in.c), nil)...)
			}
		}
		if cp == "kill-mid-scan" && ev.kind == "ids" {
			seenIds++
			if seenIds == nthIds {
				acked = dumpFull(in.c)
				killedAt = ev.raw
				in.c.Close()
				in.c = nil
				in.s.Kill()
				return false
			}
		}
		if ev.kind == "final" {
			acked = dumpFull(in.c)
			in.g.ask("crash " + cp)
		}
		return true
	})
	cs := map[string]interface{}{"scenario": "crash", "crash_point": cp, "index": idx}
	if custom {
		cs["appendfilename"] = "--appendfilename <work>/x<idx>-logs/store.log (outside the data directory)"
	}
	if cp == "kill-mid-scan" {
		cs["killed_at"] = killedAt
		if acked == "" {
			r.Dist("crash:kill-mid-scan-not-reached")
			return
		}
	} else {
		// the gate connection dies with the process
		if !strings.HasPrefix(e, "gate:") || !in.s.WaitExit(10*time.Second) {
			r.Fail(hx.Failure{Kind: "correspondence", Signature: "shrink-crash-point-not-reached", What: "the server did not die at crash point " + cp + " (" + e + ")", Case: cs, Impl: in.s.LogTail(400)})
			return
		}
		if in.c != nil {
			in.c.Close()
			in.c = nil
		}
	}
	if in.g != nil {
		in.g.c.Close()
		in.g = nil
	}
	state := dirState(dir)
	cs["directory"] = state
	if cp != "kill-mid-scan" {
		if want := drv.Ask("crashdir", cp); want != state {
			r.Fail(hx.Failure{Kind: "correspondence", Signature: "shrink-model-crash-dir", What: "files present after a crash at " + cp + " differ from the model's", Case: cs, Impl: state, Model: want})
		}
	}
	in2 := startInst(cfg.Work, dir)
	in = in2
	recovered := dumpFull(in.c)
	r.Count("crash/"+cp, strings.Count(acked, "\n  ") > 32)
	r.Dist("scenario:crash")
	r.Sample(30, cs)
	if recovered != acked {
		a, b := diffLines(acked, recovered)
		r.Fail(hx.Failure{Kind: "oracle", Signature: "shrink-crash-" + cp, What: fmt.Sprintf("after a crash at %s (files: %s; custom --appendfilename: %v) a restart does not recover the acknowledged state: %d lines missing, %d extra", cp, state, custom, len(a), len(b)), Case: cs, Impl: map[string]interface{}{"only_acknowledged": clip(a, 6), "only_recovered": clip(b, 6)}})
		return
	}
	// The leftovers (-bak / -shrink) must not influence later rewrites: the dataset changes (a large
	// part is deleted, a little is added), a complete AOFSHRINK runs, and the server is restarted.
	keys := knownKeys(in.c)
	var mut []string
	for i, k := range keys {
		var w []string
		switch {
		case k == "k00" || i%2 == 0:
			w = []string{"DROP", k}
		case i%5 == 1:
			w = []string{"PDEL", k, "id00*"}
		}
		if w != nil {
			in.c.MustDo(w...)
			mut = append(mut, strings.Join(qcmd(w), " "))
		}
	}
	for i := 0; i < 3; i++ {
		w := genSet(rng, pickKey(rng, cursorInfo{}, keys), fmt.Sprintf("late%d", i), false)
		in.c.MustDo(w...)
		mut = append(mut, strings.Join(qcmd(w), " "))
	}
	in.c.MustDo("DELHOOK", "hook00")
	cs["after_recovery"] = clip(mut, 12)
	acked2 := dumpFull(in.c)
	if _, e := in.shrinkWith("", nil); e != "" {
		r.Fail(hx.Failure{Kind: "oracle", Signature: "shrink-did-not-finish", What: "AOFSHRINK after crash recovery did not finish: " + e, Case: cs, Impl: in.s.LogTail(400)})
		return
	}
	state2 := dirState(dir)
	if cp != "kill-mid-scan" {
		if want := strings.Split(drv.Ask("leftover", cp), " | "); len(want) == 2 && want[1] != state2 {
			r.Fail(hx.Failure{Kind: "correspondence", Signature: "shrink-model-crash-dir", What: "files present after a complete rewrite on the leftovers of a crash at " + cp + " differ from the model's", Case: cs, Impl: state2, Model: want[1]})
		}
	}
	if bad := checkShrunkFile(aofPath(dir), acked2); bad != "" {
		r.Fail(hx.Failure{Kind: "oracle", Signature: "shrink-leftovers-in-new-file", What: "AOFSHRINK on a directory with leftovers of a rewrite that died at " + cp + " (" + state + "), after the dataset got smaller: " + bad, Case: cs})
	}
	in.stop()
	in3 := startInst(cfg.Work, dir)
	in = in3
	again := dumpFull(in.c)
	if again != acked2 {
		a, b := diffLines(acked2, again)
		r.Fail(hx.Failure{Kind: "oracle", Signature: "shrink-after-crash-recovery", What: fmt.Sprintf("crash at %s (leftovers: %s), restart, dataset made smaller, complete AOFSHRINK, restart: %d lines of the acknowledged state are missing, %d lines are extra", cp, state, len(a), len(b)), Case: cs, Impl: map[string]interface{}{"only_acknowledged": clip(a, 6), "only_after": clip(b, 6)}})
	}
}

// ---------------------------------------------------------------- main

func runC09(r *hx.Result, cfg hx.Config) {
	r.Rule = "real servers (build tag verif) driven through the rewrite gate. quiescent: random datasets with more than maxkeys collections and more than maxids objects in a collection, every object kind, odd field values, deadlines, hooks and channels with META/EX: dump before = after = after restart, and the shrunk file holds exactly one SET per object; non-trivial = more than 8 collections and more than 40 objects. concurrent: 1-3 random writes (SET/FSET/DEL/PDEL/DROP/FLUSHDB/EXPIRE/PERSIST/JSET/JDEL/hook commands, keys and ids straddling the reported cursor) at the gates: live dump = dump after restart; non-trivial = at least one effective write and more than 12 gates. model schedules: schedules over SET/DEL/DROP/FLUSHDB (+RENAME in a separate stream and the Coq witnesses) played on server and extracted model: cursor at every gate, file records, live dataset and dataset after restart compared; non-trivial = at least one concurrent write and more than 2 batches. further AOFSHRINK requests are issued as writer commands while the rewrite is parked (model: Req, a no-op while shrinking) in every model schedule and every concurrent scenario. crash: every crash point of the final swap and a kill in the middle of the scan, two out of three with --appendfilename pointing outside the data directory: restart recovers the acknowledged dump, directory contents as in the model; then the dataset is made smaller (about half of the collections dropped, a few objects added), a complete AOFSHRINK runs on the leftovers (-shrink / -bak), the new file must hold exactly one SET per remaining object and a second restart must give the same dump; the same as model schedules (crash first, mutate, rewrite, file records = model). buffered at the swap: the rewrite is parked before its final section, a pipelined packet of 1-6 writers (RENAME followed by a write to the old name among them) is executed on a connection that is then held before its pre-write step (connection gate, background flusher parked), the final section runs, the connection is released, the server is killed and restarted: number of commands in s.aofbuf before and after the swap, log records, live dataset and dataset after restart = extracted model (bstep with the proved final_ops); oracle: dataset served before the kill = dataset after restart; non-trivial = at least one command was in the buffer when the final section started. loading the rewritten log: reserved field names in every padding / case variant through SET and FSET (model: exec_n with both checks on the trimmed name), coordinates that are not finite through POINT / BOUNDS / OBJECT (model: payload writer enc and reader dec; RESP point and bounds before = after restart), the crash points with a legacy aof file in the data directory (model: startup with restore before migrate); padded / case-variant names and non-finite coordinates also appear now and then in every generated SET / FSET."
	r.Assumptions = []string{
		"a crash is the death of the process (os.Exit at a named point / SIGKILL); the page cache survives, fsync is not modelled",
		"B-tree Ascend / ScanGreaterOrEqual are modelled as iteration over a sorted list",
		"dumps compare has-deadline, not deadline values",
		"the model's value alphabet is string objects; other object kinds, fields, deadlines and hooks are covered by the black-box oracles only",
	}
	rng := rand.New(rand.NewSource(cfg.Seed))
	drv, err := model.Start("shrink")
	if err != nil {
		panic(err)
	}
	defer drv.Close()
	if c := drv.Ask("consts"); c != "8 32" {
		r.Extra["batch_sizes"] = c
	} else {
		r.Extra["batch_sizes"] = "maxkeys=8 maxids=32 (Gen/Consts.v)"
	}
	nq, nc, nm, nmr, ncrashRounds := 3, 8, 13, 4, 1
	nb := 2 // packets in flight at the final section
	if cfg.Tier == "thorough" {
		nq, nc, nm, nmr, ncrashRounds = 25, 150, 300, 60, 4
		nb = 80
	}
	if cfg.Search {
		nq, nc, nm, nmr, ncrashRounds = 10, 60, 60, 0, 2
		nb = 40
	}
	idx := 0
	// enough evidence: after several failures outside the steered-around known triggers the
	// remaining scenarios are skipped (a broken rewrite can make every scenario wait for time-outs)
	tooMany := func() bool {
		n := 0
		for k, v := range r.Distribution {
			if strings.HasPrefix(k, "fail:") && !strings.Contains(k, "shrink-rename-") && !strings.Contains(k, "-replayed-twice") && !strings.Contains(k, "shrink-object-overflow-") {
				n += v
			}
		}
		return n >= 8
	}
	guard := func(name string, f func()) {
		if tooMany() {
			r.Dist("skipped-after-many-failures")
			return
		}
		defer func() {
			if e := recover(); e != nil {
				r.Fail(hx.Failure{Kind: "oracle", Signature: "shrink-server-died", What: fmt.Sprintf("%s: %v", name, e), Case: name})
			}
		}()
		f()
	}
	// 1. regression corpus: the witnesses of the Coq refutations, then the JSON array witnesses
	for _, sc := range witnessSchedules() {
		sc := sc
		idx++
		guard(sc.name, func() { playSchedule(r, cfg, drv, sc, idx) })
	}
	// a packet in flight when the rewrite enters its final section (witness of
	// c09_swap_without_flush_refuted, then the same on a dataset of several batches)
	for _, bc := range []bufCase{bufWitness(), bufWitnessBig()} {
		bc := bc
		idx++
		guard(bc.name, func() { bufferedAtSwap(r, cfg, drv, bc, idx) })
	}
	// what a restart makes of the rewritten log: padded reserved field names, coordinates that are
	// not finite (model: ShrinkLoad.enc / dec), overflowing literals in other geometries (open finding)
	guard("padded-names", func() { paddedNamesWitness(r, cfg) })
	var nfPoints, nfRects []nfObject
	for _, o := range nonFiniteObjects() {
		if o.set[0] == "BOUNDS" {
			nfRects = append(nfRects, o)
		} else {
			nfPoints = append(nfPoints, o)
		}
	}
	guard("non-finite points", func() { nonFiniteWitness(r, cfg, drv, "nfp", nfPoints, false, false) })
	guard("non-finite rectangles", func() { nonFiniteWitness(r, cfg, drv, "nfr", nfRects, false, false) })
	guard("requirevalid", func() { nonFiniteWitness(r, cfg, drv, "nfv", nonFiniteObjects(), false, true) })
	guard("overflow", func() { nonFiniteWitness(r, cfg, drv, "nfo", overflowObjects(), true, false) })
	// a follower starts over while its rewrite is parked (model: BReset, the guard of the final section)
	for _, at := range []string{"final", "ids"} {
		at := at
		idx++
		guard("follower reset "+at, func() { followerReset(r, cfg, drv, at, idx) })
	}
	guard("jset-append", func() { jsonWitness(r, cfg, "jset-append") })
	guard("jdel-index", func() { jsonWitness(r, cfg, "jdel-index") })
	guard("rename-hook", func() { renameHookWitness(r, cfg) })
	// 2. crash points
	cps := strings.Split(drv.Ask("cpoints"), ",")
	crashPoints = cps
	// 2b. the same with a legacy "aof" file in the directory (model: ShrinkLoad.startup): always the
	// crash between the two renames, and one or more other points
	lcps := []string{"after-rename-bak", cps[rng.Intn(len(cps))]}
	if cfg.Tier == "thorough" || cfg.Search {
		lcps = append([]string{"after-rename-bak"}, cps...)
	}
	for _, cp := range lcps {
		cp := cp
		idx++
		guard("legacy crash "+cp, func() { legacyCrash(r, cfg, drv, cp, idx) })
	}
	for round := 0; round < ncrashRounds; round++ {
		for j, cp := range append(cps, "kill-mid-scan") {
			cp := cp
			idx++
			// two crash points out of three run with a log name of their own (--appendfilename),
			// always the one between the two renames; the default name is also what the
			// crash-first model schedules use
			custom := (j+round)%3 != 2 || (cp == "after-rename-bak" && round%2 == 0)
			guard("crash "+cp, func() { crashScenario(r, cfg, rng, drv, cp, idx, custom) })
		}
	}
	// 3. quiescent
	for i := 0; i < nq; i++ {
		idx++
		guard("quiescent", func() { quiescent(r, cfg, rng, idx, false) })
	}
	idx++
	guard("quiescent-nonutf8", func() { quiescent(r, cfg, rng, idx, true) })
	// 4. model schedules
	for i := 0; i < nm; i++ {
		idx++
		sc := genSchedule(rng, false)
		guard("model schedule", func() { playSchedule(r, cfg, drv, sc, idx) })
	}
	for i := 0; i < nmr; i++ {
		idx++
		sc := genSchedule(rng, true)
		guard("model schedule with rename", func() { playSchedule(r, cfg, drv, sc, idx) })
	}
	// 4b. random packets in flight at the final section (model: buffered writers, BFinal, BFlush)
	for i := 0; i < nb; i++ {
		idx++
		bc := genBufCase(rng)
		guard("buffered at swap", func() { bufferedAtSwap(r, cfg, drv, bc, idx) })
	}
	// 5. black-box concurrent writes of every kind
	for i := 0; i < nc; i++ {
		idx++
		guard("concurrent", func() { concurrent(r, cfg, rng, idx) })
	}
	r.Extra["model_requests"] = drv.N
}
