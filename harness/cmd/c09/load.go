// C09, what a restart makes of the rewritten log (coq/Model/ShrinkLoad.v): places where the log
// AOFSHRINK writes, or the directory it leaves, meets start-up code that is stricter than, or ordered
// differently from, the code that accepted the data.
//
//  1. field names with surrounding white space that trim to a reserved name (z, lat, lon);
//  2. coordinates that are not finite (POINT nan 5, POINT 1 inf, BOUNDS -inf -inf inf inf, OBJECT with
//     an overflowing literal);
//  3. a legacy "aof" file in the data directory when the swap is interrupted.
package main

import (
	"encoding/binary"
	"fmt"
	"os"
	"path/filepath"
	"sort"
	"strconv"
	"strings"
	"time"

	"verifharness/internal/hx"
	"verifharness/internal/model"
	"verifharness/internal/srv"
)

// ---------------------------------------------------------------- 1. padded reserved field names

type namedWrite struct {
	cmd      []string
	accepted bool
	reply    string
}

// paddedNamesWitness: every way of getting a reserved name past the check by padding it, on SET and
// FSET; whatever the server accepts must survive AOFSHRINK + restart.
func paddedNamesWitness(r *hx.Result, cfg hx.Config) {
	dir := filepath.Join(cfg.Work, "pn")
	os.RemoveAll(dir)
	in := startInst(cfg.Work, dir)
	defer func() { in.close() }()
	ws := []namedWrite{
		{cmd: []string{"SET", "k", "plain", "FIELD", "speed", "1", "POINT", "1", "2"}},
		{cmd: []string{"SET", "k", "a", "FIELD", " z", "5", "POINT", "1", "2"}},
		{cmd: []string{"SET", "k", "b", "FIELD", "lat ", "5", "POINT", "1", "2"}},
		{cmd: []string{"SET", "k", "c", "FIELD", "\tlon\n", "5", "FIELD", "ok", "1", "POINT", "1", "2"}},
		{cmd: []string{"SET", "k", "d", "FIELD", " z", "5", "POINT", "1", "2"}},
		{cmd: []string{"SET", "k", "e", "FIELD", " z　", "5", "POINT", "1", "2"}},
		{cmd: []string{"FSET", "k", "plain", "lat ", "7"}},
		{cmd: []string{"FSET", "k", "plain", " lon", "8", "speed", "2"}},
		{cmd: []string{"FSET", "k", "plain", " Z ", "9"}},        // not reserved: stored as Z
		{cmd: []string{"FSET", "k", "plain", "  heading ", "10"}}, // stored as heading
		// names are case sensitive: every other spelling of a reserved name is an ordinary name, through
		// both commands that create fields
		{cmd: []string{"FSET", "k", "plain", "Lat", "7.25", "LON", "14.5"}},
		{cmd: []string{"FSET", "k", "plain", "lAT", "1", " LAT ", "2", "Lon", "3", "lOn\t", "4"}},
		{cmd: []string{"SET", "k", "u1", "FIELD", "Z", "1", "FIELD", "LAT", "2", "FIELD", "Lon", "3", "POINT", "1", "2"}},
		{cmd: []string{"SET", "k", "u2", "FIELD", " LON ", "1", "POINT", "1", "2"}},
		{cmd: []string{"FSET", "k", "u1", "XX", "z", "5"}}, // refused
	}
	var acceptedReserved, acceptedAll []string
	for i := range ws {
		v := in.c.MustDo(ws[i].cmd...)
		ws[i].reply = v.String()
		ws[i].accepted = !v.IsErr()
	}
	for i, w := range ws {
		if w.accepted && i != 0 && i < 8 {
			acceptedReserved = append(acceptedReserved, strings.Join(qcmd(w.cmd), " "))
		}
	}
	for _, w := range ws {
		if w.accepted {
			acceptedAll = append(acceptedAll, strings.Join(qcmd(w.cmd), " "))
		}
	}
	before := dumpFull(in.c)
	cs := map[string]interface{}{"scenario": "padded-reserved-field-names", "accepted_with_a_reserved_stored_name": acceptedReserved, "accepted": acceptedAll}
	if _, e := in.shrinkWith("", nil); e != "" {
		r.Fail(hx.Failure{Kind: "oracle", Signature: "shrink-did-not-finish", What: "AOFSHRINK did not finish: " + e, Case: cs})
		return
	}
	in.stop()
	r.Count("padded-names", true)
	r.Dist("scenario:padded-reserved-field-names")
	in2, err := startInstE(cfg.Work, dir)
	if err != nil {
		in = &inst{s: in.s, dir: dir}
		r.Fail(hx.Failure{Kind: "oracle", Signature: "shrink-padded-reserved-field-does-not-load",
			What: "accepted: " + strings.Join(acceptedAll, "; ") + "; AOFSHRINK; restart: the server does not start on the rewritten log: " + lastLines(err.Error(), 120), Case: cs})
		return
	}
	in = in2
	if after := dumpFull(in.c); after != before {
		a, b := diffLines(before, after)
		r.Fail(hx.Failure{Kind: "oracle", Signature: "shrink-padded-field-names-restart-mismatch", What: "fields with padded names differ after AOFSHRINK + restart", Case: cs, Impl: map[string]interface{}{"only_before": clip(a, 6), "only_after": clip(b, 6)}})
	}
}

// paddedNamesSchedule: the same as a model schedule (outcome of every command = exec_n with the check
// on the stored name; snapshot records carry the stored names; the shrinklog the names as sent).
func paddedNamesSchedule() schedule {
	fvp := func(i int) *fv { return &fvPool[i%len(fvPool)] }
	var sc schedule
	sc.name = "witness-padded-field-names"
	sc.Init = []mcmd{
		{op: "set", a: "a", b: "i0", v: "v", fs: []fu{{" speed ", fvp(0)}, {"Z", fvp(1)}}},
		{op: "set", a: "a", b: "i1", v: "v", fs: []fu{{" z", fvp(0)}}},
		{op: "set", a: "a", b: "i1", v: "v", fs: []fu{{"\tb\n", fvp(2)}}},
		{op: "fset", a: "a", b: "i0", fs: []fu{{"lat ", fvp(3)}}},
		{op: "fset", a: "a", b: "i0", fs: []fu{{" lon", fvp(3)}, {"a", fvp(4)}}},
		{op: "fset", a: "a", b: "i0", fs: []fu{{" a ", fvp(5)}}},
		{op: "set", a: "b", b: "i0", v: "w"},
		{op: "fset", a: "b", b: "i0", fs: []fu{{"Lat", fvp(0)}, {"LON", fvp(1)}}},
		{op: "set", a: "b", b: "i1", v: "w", fs: []fu{{"Z", fvp(2)}, {" lAT ", fvp(3)}}},
	}
	sc.Before = map[int][]mcmd{
		-1: {{op: "fset", a: "a", b: "i1", fs: []fu{{" n0 ", fvp(6)}}}, {op: "fset", a: "b", b: "i0", fs: []fu{{"z ", fvp(1)}}}},
		1:  {{op: "set", a: "a", b: "i2", v: "x", fs: []fu{{"  speed", fvp(7)}}}, {op: "set", a: "a", b: "i3", v: "x", fs: []fu{{"lon\r", fvp(7)}}}},
		2:         {{op: "fset", a: "b", b: "i1", fs: []fu{{"lon", fvp(4)}}}, {op: "fset", a: "b", b: "i1", fs: []fu{{"Lon", fvp(4)}}}},
		slotFinal: {{op: "fset", a: "a", b: "i0", fs: []fu{{"Zeta ", nil}, {" speed", fvp(2)}}}, {op: "set", a: "b", b: "i2", v: "w", fs: []fu{{"LAT", fvp(5)}}}},
	}
	return sc
}

// ---------------------------------------------------------------- 2. coordinates that are not finite

type nfObject struct {
	id    string
	set   []string // arguments after SET k id
	model []string // geometry for the geoenc request (nil = outside the model: open finding)
}

// nfNum: a coordinate as the model driver wants it; axis: 90 (latitude), 180 (longitude), 0 (not checked)
func nfNum(s string, axis float64) string {
	switch strings.ToLower(s) {
	case "nan":
		return "nan"
	case "inf", "+inf", "infinity":
		return "+inf"
	case "-inf":
		return "-inf"
	}
	if v, err := strconv.ParseFloat(s, 64); err == nil && axis > 0 && (v < -axis || v > axis) {
		return "!" + model.H(s)
	}
	return model.H(s)
}

func nonFiniteObjects() []nfObject {
	p := func(id string, a ...string) nfObject {
		o := nfObject{id: id, set: append([]string{"POINT"}, a...)}
		kind := "point"
		if len(a) == 3 {
			kind = "pointz"
		}
		o.model = []string{kind}
		for i, x := range a {
			o.model = append(o.model, nfNum(x, []float64{90, 180, 0}[i]))
		}
		return o
	}
	b := func(id string, a ...string) nfObject {
		o := nfObject{id: id, set: append([]string{"BOUNDS"}, a...), model: []string{"rect"}}
		for i, x := range a {
			o.model = append(o.model, nfNum(x, []float64{90, 180, 90, 180}[i]))
		}
		return o
	}
	return []nfObject{
		p("p1", "nan", "5"), p("p2", "1", "inf"), p("p3", "-inf", "5"), p("p4", "1", "2", "inf"), p("p5", "1", "2", "nan"),
		p("p6", "nan", "nan"), p("p7", "3", "4"), p("p8", "3", "4", "7.5"), p("p9", "Infinity", "-Inf", "NaN"),
		// positions outside -90..90 / -180..180: POINT and BOUNDS take them, the GeoJSON reader does not when
		// the server runs with REQUIREVALID
		p("q1", "100", "200"), p("q2", "100", "200", "5"), p("q3", "-90.5", "10"), p("q4", "10", "180.25"), p("q5", "90", "-180", "1e9"),
		b("b1", "1", "2", "nan", "4"), b("b2", "-inf", "-inf", "inf", "inf"), b("b3", "1", "2", "3", "4"), b("b4", "-90", "-180", "90", "+Inf"),
		b("c1", "-100", "-200", "100", "200"), b("c2", "-90", "-180", "90", "180"), b("c3", "10", "10", "95", "20"),
		{id: "o1", set: []string{"OBJECT", `{"type":"Point","coordinates":[1e999,5]}`}, model: []string{"point", model.H("5"), "+inf"}},
		{id: "o2", set: []string{"OBJECT", `{"type":"Point","coordinates":[1,5,-1e999]}`}, model: []string{"pointz", model.H("5"), model.H("1"), "-inf"}},
	}
}

// geometries whose infinite coordinate the snapshot cannot express (open finding)
func overflowObjects() []nfObject {
	return []nfObject{
		{id: "l1", set: []string{"OBJECT", `{"type":"LineString","coordinates":[[1e999,5],[1,2]]}`}},
		{id: "f1", set: []string{"OBJECT", `{"type":"Feature","geometry":{"type":"Point","coordinates":[1e999,5]},"properties":{}}`}},
		{id: "m1", set: []string{"OBJECT", `{"type":"MultiPoint","coordinates":[[-1e999,5],[1,2]]}`}},
	}
}

// nfView: what a client sees of an object whose JSON cannot show it: RESP point and bounds
func nfView(c *srv.Conn, key, id string) string {
	return c.MustDo("GET", key, id).String() + " point=" + c.MustDo("GET", key, id, "POINT").String() + " bounds=" + c.MustDo("GET", key, id, "BOUNDS").String()
}

// nonFiniteDetail: for every object whose JSON text contains null, its RESP point and bounds
func nonFiniteDetail(c *srv.Conn) string {
	var lines []string
	for _, k := range knownKeys(c) {
		v := c.MustDo("SCAN", k, "LIMIT", "100000000")
		if len(v.Array) != 2 {
			continue
		}
		for _, o := range v.Array[1].Array {
			if len(o.Array) >= 2 && strings.Contains(o.Array[1].Str, "null") && strings.HasPrefix(o.Array[1].Str, "{") {
				id := o.Array[0].Str
				lines = append(lines, fmt.Sprintf("NONFINITE %q %q point=%s bounds=%s\n", k, id, c.MustDo("GET", k, id, "POINT").String(), c.MustDo("GET", k, id, "BOUNDS").String()))
			}
		}
	}
	sort.Strings(lines)
	return strings.Join(lines, "")
}

func nonFiniteWitness(r *hx.Result, cfg hx.Config, drv *model.Driver, name string, objs []nfObject, overflow, requireValid bool) {
	sigBase := "shrink-nonfinite"
	if overflow {
		sigBase = "shrink-object-overflow-coordinate"
	}
	rv := "0"
	if requireValid {
		// every server of this scenario runs with REQUIREVALID (read once, at start-up)
		rv = "1"
		os.Setenv("REQUIREVALID", "1")
		defer os.Unsetenv("REQUIREVALID")
	}
	dir := filepath.Join(cfg.Work, name)
	os.RemoveAll(dir)
	in := startInst(cfg.Work, dir)
	defer func() { in.close() }()
	var cmds []string
	before := map[string]string{}
	var accepted []nfObject
	for _, o := range objs {
		c := append([]string{"SET", "nf", o.id}, o.set...)
		v := in.c.MustDo(c...)
		if v.IsErr() {
			continue // refusing the value is a way of keeping the property
		}
		accepted = append(accepted, o)
		cmds = append(cmds, strings.Join(c, " "))
		before[o.id] = nfView(in.c, "nf", o.id)
	}
	cs := map[string]interface{}{"scenario": "non-finite-coordinates", "accepted": cmds, "REQUIREVALID": requireValid}
	r.Count("nonfinite/"+name+"/"+fmt.Sprint(len(accepted)), len(accepted) > 0)
	r.Dist("scenario:non-finite-coordinates")
	if len(accepted) == 0 {
		return
	}
	if _, e := in.shrinkWith("", nil); e != "" {
		r.Fail(hx.Failure{Kind: "oracle", Signature: "shrink-did-not-finish", What: "AOFSHRINK did not finish: " + e, Case: cs})
		return
	}
	// the records: payload form as the model's writer chooses it
	recs, _ := readAOF(aofPath(dir))
	byID := map[string][]string{}
	var geoDiff []string
	for _, rec := range recs {
		if len(rec) >= 4 && strings.ToLower(rec[0]) == "set" {
			byID[rec[2]] = rec
		}
	}
	for _, o := range accepted {
		if o.model == nil {
			continue
		}
		want := strings.Split(drv.Ask(append([]string{"geoenc", rv}, o.model...)...), " | ")
		rec := byID[o.id]
		got := "?no record"
		for i := 3; i < len(rec); i++ {
			switch strings.ToLower(rec[i]) {
			case "object":
				got = "object"
			case "point", "bounds":
				got = strings.ToLower(rec[i])
				for _, a := range rec[i+1:] {
					switch a {
					case "NaN", "+Inf", "-Inf":
						got += " " + a
					default:
						got += " " + model.H(a)
					}
				}
			}
			if got != "?no record" {
				break
			}
		}
		if len(want) != 2 || got != want[0] {
			geoDiff = append(geoDiff, "SET nf "+o.id+" "+strings.Join(o.set, " ")+": record "+got+" ("+strings.Join(qcmd(rec), " ")+"), model "+strings.Join(want, " | "))
		}
	}
	if len(geoDiff) > 0 {
		r.Fail(hx.Failure{Kind: "correspondence", Signature: "shrink-model-geo-record", What: fmt.Sprintf("payload of %d snapshot records differs from the model's writer, e.g. %s", len(geoDiff), geoDiff[0]), Case: cs, Impl: clip(geoDiff, 20)})
	}
	in.stop()
	in2, err := startInstE(cfg.Work, dir)
	if err != nil {
		in = &inst{s: in.s, dir: dir}
		r.Fail(hx.Failure{Kind: "oracle", Signature: sigBase + "-does-not-load",
			What: fmt.Sprintf("REQUIREVALID=%v; accepted: ", requireValid) + strings.Join(cmds, "; ") + "; AOFSHRINK; restart: the server does not start on the rewritten log: " + lastLines(err.Error(), 160), Case: cs})
		return
	}
	in = in2
	var changed []string
	for _, o := range accepted {
		if after := nfView(in.c, "nf", o.id); after != before[o.id] {
			changed = append(changed, "SET nf "+o.id+" "+strings.Join(o.set, " ")+": before "+before[o.id]+", after AOFSHRINK + restart "+after)
		}
	}
	if len(changed) > 0 {
		r.Fail(hx.Failure{Kind: "oracle", Signature: sigBase + "-changed", What: strings.Join(clip(changed, 3), " || "), Case: cs, Impl: changed})
	}
}

// ---------------------------------------------------------------- 3. a legacy log in the directory

// writeLegacyAOF: the pre-1.0 log format migrateAOF reads: <len le32> <command text> <len le32> 0x00
func writeLegacyAOF(path string, cmds []string) error {
	var b []byte
	for _, c := range cmds {
		var l [4]byte
		binary.LittleEndian.PutUint32(l[:], uint32(len(c)))
		b = append(b, l[:]...)
		b = append(b, c...)
		b = append(b, l[:]...)
		b = append(b, 0)
	}
	return os.WriteFile(path, b, 0o600)
}

// legacyCrash: a data directory that was once migrated from the legacy format (the file "aof" is
// never removed); the dataset has changed since; AOFSHRINK dies at a crash point of its final
// section; the restart must serve the acknowledged dataset, not the legacy one.
func legacyCrash(r *hx.Result, cfg hx.Config, drv *model.Driver, cp string, idx int) {
	dir := filepath.Join(cfg.Work, fmt.Sprintf("lg%d", idx))
	os.RemoveAll(dir)
	os.MkdirAll(dir, 0o755)
	legacy := []string{"set old o1 point 1 1", "set old o2 point 2 2", "set keep k1 point 3 3"}
	if err := writeLegacyAOF(filepath.Join(dir, "aof"), legacy); err != nil {
		panic(err.Error())
	}
	in := startInst(cfg.Work, dir)
	defer func() { in.close() }()
	cs := map[string]interface{}{"scenario": "legacy-file-crash", "crash_point": cp, "legacy_file": legacy}
	legacyDump := dumpFull(in.c)
	if !strings.Contains(legacyDump, "o1") {
		r.Fail(hx.Failure{Kind: "correspondence", Signature: "shrink-legacy-not-migrated", What: "the legacy aof file was not migrated at the first start", Case: cs, Impl: legacyDump})
		return
	}
	after := [][]string{{"DROP", "old"}, {"SET", "new", "n1", "POINT", "4", "4"}, {"SET", "new", "n2", "FIELD", "speed", "9", "POINT", "5", "5"}, {"SET", "keep", "k1", "POINT", "6", "6"}}
	var al []string
	for _, c := range after {
		in.c.MustDo(c...)
		al = append(al, strings.Join(c, " "))
	}
	cs["then"] = al
	acked := dumpFull(in.c)
	_, e := in.shrinkWith("final", func(ev event) bool {
		if ev.kind == "final" {
			in.g.ask("crash " + cp)
		}
		return true
	})
	if !strings.HasPrefix(e, "gate:") || !in.s.WaitExit(10*time.Second) {
		r.Fail(hx.Failure{Kind: "correspondence", Signature: "shrink-crash-point-not-reached", What: "the server did not die at crash point " + cp + " (" + e + ")", Case: cs, Impl: in.s.LogTail(400)})
		return
	}
	in.dead()
	state := dirState(dir)
	cs["directory"] = state
	in = startInst(cfg.Work, dir)
	recovered := dumpFull(in.c)
	r.Count("legacy-crash/"+cp, true)
	r.Dist("scenario:legacy-file-crash")
	r.Sample(40, cs)
	class := "other"
	switch recovered {
	case acked:
		class = "acknowledged"
	case legacyDump:
		class = "legacy"
	}
	if want := drv.Ask("startupat", cp, "1"); want != class {
		r.Fail(hx.Failure{Kind: "correspondence", Signature: "shrink-model-startup", What: "what the start-up serves after a crash at " + cp + " with a legacy aof file in the directory differs from the model's", Case: cs, Impl: class, Model: want})
	}
	if recovered != acked {
		a, b := diffLines(acked, recovered)
		r.Fail(hx.Failure{Kind: "oracle", Signature: "shrink-crash-" + cp + "-legacy-file",
			What: fmt.Sprintf("legacy file aof = [%s] migrated at the first start; then %s; AOFSHRINK dies at %s (files: %s); restart serves the %s dataset: %d acknowledged lines missing, %d extra", strings.Join(legacy, "; "), strings.Join(al, "; "), cp, state, class, len(a), len(b)),
			Case: cs, Impl: map[string]interface{}{"only_acknowledged": clip(a, 6), "only_recovered": clip(b, 6)}})
	}
}

// ---------------------------------------------------------------- 4. a follower starts over under the rewrite

// followerReset: a server with a dataset of its own (model: Init) has its rewrite parked (before the
// second section or before the final one) when it is told to FOLLOW a leader with other data: the
// log is too short to compare checksums, so it starts over (log recreated, dataset dropped — model:
// reset) and receives the leader's log (model: one writer per command). The rewrite is released.
// The leader goes away, the follower is killed, restarted and promoted (FOLLOW no one): it must
// serve what it served before, and its log must be the model's.
func followerReset(r *hx.Result, cfg hx.Config, drv *model.Driver, parkAt string, idx int) {
	ldir := filepath.Join(cfg.Work, fmt.Sprintf("fl%d", idx))
	fdir := filepath.Join(cfg.Work, fmt.Sprintf("ff%d", idx))
	os.RemoveAll(ldir)
	os.RemoveAll(fdir)
	leader, err := srv.Start(ldir)
	if err != nil {
		panic(err.Error())
	}
	defer leader.Kill()
	lc := leader.MustDial()
	defer lc.Close()
	in := startInst(cfg.Work, fdir)
	defer func() { in.close() }()
	drv.Ask("new")
	var own, theirs []mcmd
	for i := 0; i < 40; i++ {
		own = append(own, mcmd{op: "set", a: "a", b: fmt.Sprintf("i%02d", i), v: "mine"})
	}
	own = append(own, mcmd{op: "set", a: "c", b: "i00", v: "mine"}, mcmd{op: "set", a: "shared", b: "i00", v: "mine"})
	theirs = []mcmd{{op: "set", a: "b", b: "i00", v: "leader"}, {op: "set", a: "b", b: "i01", v: "leader", fs: []fu{{"speed", &fvPool[0]}}},
		{op: "set", a: "shared", b: "i01", v: "leader"}, {op: "del", a: "b", b: "i00"}}
	cs := map[string]interface{}{"scenario": "follower-reset", "rewrite_parked_at": parkAt,
		"own_dataset": "a/i00..i39, c/i00, shared/i00", "leader_log": []string{theirs[0].String(), theirs[1].String(), theirs[2].String(), theirs[3].String()}}
	for _, m := range theirs {
		lc.MustDo(m.real()...)
	}
	for _, m := range own {
		in.c.MustDo(m.real()...)
		drv.Ask(m.model()...)
	}
	problem := ""
	done := false
	in.noSwapWait = true // a rewrite that gives up leaves its -shrink file behind
	_, e := in.shrinkWith("start,"+parkAt, func(ev event) bool {
		switch {
		case ev.kind == "start":
			drv.Ask("begin")
		case ev.kind == parkAt && !done:
			done = true
			// from here on the rewrite runs through to its final section
			in.g.ask("arm final")
			if v := in.c.MustDo("FOLLOW", "127.0.0.1", fmt.Sprint(leader.Port)); v.IsErr() {
				problem = "FOLLOW: " + v.String()
				return false
			}
			// the model's rewrite is where the server's is parked
			for g, i := drv.Ask("gate"), 0; i < 5000 && !strings.HasPrefix(g, parkAt+" "); i++ {
				g = drv.Ask("step")
			}
			drv.Ask("reset")
			for _, m := range theirs {
				drv.Ask(m.model()...)
			}
			// caught up: reads are answered again
			ok := false
			for i := 0; i < 200 && !ok; i++ {
				v, err := in.c.Do("KEYS", "*")
				ok = err == nil && !v.IsErr()
				if !ok {
					time.Sleep(25 * time.Millisecond)
				}
			}
			if !ok {
				problem = "the follower did not catch up with the leader"
				return false
			}
		}
		return true
	})
	if problem != "" || (e != "" && e != "stopped") {
		r.Fail(hx.Failure{Kind: "correspondence", Signature: "shrink-follower-schedule-not-reached", What: problem + " " + e, Case: cs, Impl: in.s.LogTail(300)})
		return
	}
	// the model's rewrite: through its scan to the final section, which gives up
	g := drv.Ask("gate")
	for i := 0; i < 5000 && g != "final - -"; i++ {
		g = drv.Ask("step")
	}
	drv.Ask("final")
	live := objDump(in.c)
	mlive := sortedModelDump(drv.Ask("live"))
	mrep := sortedModelDump(drv.Ask("breplayed"))
	mfile := drv.Ask("bfile")
	if mfile == "-" {
		mfile = ""
	}
	recs, rerr := readAOF(aofPath(fdir))
	var implRecs []string
	for _, rec := range recs {
		implRecs = append(implRecs, recCanonLog(rec))
	}
	// the leader is gone; the follower dies, comes back and is promoted
	lc.Close()
	leader.Kill()
	in.c.Close()
	in.c = nil
	in.s.Kill()
	in.dead()
	in2, serr := startInstE(cfg.Work, fdir)
	if serr != nil {
		r.Fail(hx.Failure{Kind: "oracle", Signature: "shrink-new-file-does-not-load", What: "follower restart: " + lastLines(serr.Error(), 200), Case: cs})
		in = &inst{s: in.s, dir: fdir}
		return
	}
	in = in2
	in.c.MustDo("FOLLOW", "no", "one")
	restarted := objDump(in.c)
	r.Count("follower-reset/"+parkAt, true)
	r.Dist("scenario:follower-reset")
	r.TracesImpl++
	r.Sample(44, cs)
	if rerr != nil || strings.Join(implRecs, ",") != mfile {
		a, b := diffLines(strings.Join(implRecs, "\n"), strings.ReplaceAll(mfile, ",", "\n"))
		r.Fail(hx.Failure{Kind: "correspondence", Signature: "shrink-model-file", What: "the follower's log after the start-over and the end of the rewrite differs from the model's (the leader's commands, nothing of the rewrite)", Case: cs, Impl: clip(a, 8), Model: clip(b, 8)})
	}
	if live != mlive {
		r.Fail(hx.Failure{Kind: "correspondence", Signature: "shrink-model-live", What: "the follower's dataset differs from the model's", Case: cs, Impl: live, Model: mlive})
	}
	if restarted != mrep {
		r.Fail(hx.Failure{Kind: "correspondence", Signature: "shrink-model-replayed", What: "the promoted follower's dataset after restart differs from the model's replay", Case: cs, Impl: restarted, Model: mrep})
	}
	if live != restarted {
		a, b := diffLines(strings.ReplaceAll(live, ",", "\n"), strings.ReplaceAll(restarted, ",", "\n"))
		r.Fail(hx.Failure{Kind: "oracle", Signature: "shrink-follower-reset-restart-mismatch",
			What: "server with its own dataset (a/i00..i39, c/i00, shared/i00); AOFSHRINK parked at the " + parkAt + " gate; FOLLOW a leader whose log is [" + theirs[0].String() + "; " + theirs[1].String() + "; " + theirs[2].String() + "; " + theirs[3].String() + "] (start-over: dataset dropped, log recreated); caught up; rewrite released; leader gone; SIGKILL; restart; FOLLOW no one: live-only " + unhexLines(clip(a, 3)) + " restart-only " + unhexLines(clip(b, 4)),
			Case: cs, Impl: map[string]interface{}{"only_live": clip(a, 8), "only_after_restart": clip(b, 8)}})
	}
}
