// The model alphabet of the C09 correspondence: writer commands as the Coq model knows them
// (coq/Model/Shrink.v: SET with FIELDs and EX, FSET, EXPIRE, PERSIST, DEL, PDEL <prefix>*, DROP,
// RENAME, FLUSHDB, SETHOOK/SETCHAN with META and EX, DELHOOK/DELCHAN, PDELHOOK/PDELCHAN, a further
// AOFSHRINK request), their real form, their form for the model driver, and the canonical text
// both sides are compared in (ocaml/shrink/handlers.ml documents the format).
package main

import (
	"encoding/json"
	"fmt"
	"sort"
	"strings"

	"verifharness/internal/model"
	"verifharness/internal/srv"
)

// a field value: what is sent, the JSON text the snapshot writes for it, what SCAN displays
type fv struct{ sent, json, display string }

var fvPool = []fv{
	{"5", "5", "5"}, {"-1.5", "-1.5", "-1.5"}, {"abc", `"abc"`, "abc"}, {`{"a":1}`, `{"a":1}`, `{"a":1}`},
	{"true", "true", "true"}, {"x y", `"x y"`, "x y"}, {"1e3", "1e3", "1e3"}, {"say \"hi\"", `"say \"hi\""`, `say "hi"`},
}

var fnames = []string{"a", "b", "speed", "Zeta", "n0", "LON", "Z"}

// a field update: val == nil is the zero value (sent as 0: the field is deleted)
type fu struct {
	name string
	val  *fv
}

type mcmd struct {
	op      string // set fset expire persist del pdel drop rename flushdb aofshrink sethook setchan delhook delchan pdelhook pdelchan
	a, b, v string // key, id / new key / prefix, string payload
	fs      []fu
	ex      bool
	// hooks: endpoints (hooks only), metas (name, value; sorted by name), fence command
	eps   string
	metas [][2]string
	fence []string
}

func (m mcmd) isChan() bool { return m.op == "setchan" || m.op == "delchan" || m.op == "pdelchan" }

func (m mcmd) real() []string {
	switch m.op {
	case "set":
		args := []string{"SET", m.a, m.b}
		for _, f := range m.fs {
			if f.val == nil {
				args = append(args, "FIELD", f.name, "0")
			} else {
				args = append(args, "FIELD", f.name, f.val.sent)
			}
		}
		if m.ex {
			args = append(args, "EX", "1000")
		}
		return append(args, "STRING", m.v)
	case "fset":
		args := []string{"FSET", m.a, m.b}
		for _, f := range m.fs {
			if f.val == nil {
				args = append(args, f.name, "0")
			} else {
				args = append(args, f.name, f.val.sent)
			}
		}
		return args
	case "expire":
		return []string{"EXPIRE", m.a, m.b, "1000"}
	case "persist":
		return []string{"PERSIST", m.a, m.b}
	case "del":
		return []string{"DEL", m.a, m.b}
	case "pdel":
		return []string{"PDEL", m.a, m.b + "*"}
	case "drop":
		return []string{"DROP", m.a}
	case "rename":
		return []string{"RENAME", m.a, m.b}
	case "aofshrink":
		return []string{"AOFSHRINK"}
	case "sethook", "setchan":
		args := []string{strings.ToUpper(m.op), m.a}
		if m.op == "sethook" {
			args = append(args, m.eps)
		}
		for _, kv := range m.metas {
			args = append(args, "META", kv[0], kv[1])
		}
		if m.ex {
			args = append(args, "EX", "1000")
		}
		return append(args, m.fence...)
	case "delhook", "delchan":
		return []string{strings.ToUpper(m.op), m.a}
	case "pdelhook", "pdelchan":
		return []string{strings.ToUpper(m.op), m.a + "*"}
	}
	return []string{"FLUSHDB"}
}

func b01(b bool) string {
	if b {
		return "1"
	}
	return "0"
}

func hookBody(eps string, metas []string, fence []string) string {
	return eps + "\x00" + strings.Join(metas, "\x00") + "\x01" + strings.Join(fence, "\x00")
}

func (m mcmd) body() string {
	var flat []string
	for _, kv := range m.metas {
		flat = append(flat, kv[0], kv[1])
	}
	return hookBody(m.eps, flat, m.fence)
}

// tokens of the model request (after "w"); fields as separate <name> <json|z> tokens
func (m mcmd) model() []string {
	H := model.H
	fus := func() []string {
		var t []string
		for _, f := range m.fs {
			if f.val == nil {
				t = append(t, H(f.name), "z")
			} else {
				t = append(t, H(f.name), H(f.val.json))
			}
		}
		return t
	}
	switch m.op {
	case "set":
		return append([]string{"w", "set", H(m.a), H(m.b), b01(m.ex), H(m.v)}, fus()...)
	case "fset":
		return append([]string{"w", "fset", H(m.a), H(m.b)}, fus()...)
	case "expire", "persist", "del", "pdel", "rename":
		return []string{"w", m.op, H(m.a), H(m.b)}
	case "drop":
		return []string{"w", "drop", H(m.a)}
	case "aofshrink":
		return []string{"req"}
	case "sethook", "setchan":
		return []string{"w", "hset", H(m.a), b01(m.isChan()), b01(m.ex), H(m.body())}
	case "delhook", "delchan":
		return []string{"w", "hdel", H(m.a), b01(m.isChan())}
	case "pdelhook", "pdelchan":
		return []string{"w", "hpdel", H(m.a), b01(m.isChan())}
	}
	return []string{"w", "flushdb"}
}

// canonical text, as the model driver prints a command in `out` / `log`
func (m mcmd) canon() string {
	t := m.model()[1:]
	switch m.op {
	case "set", "fset":
		n := 5
		if m.op == "fset" {
			n = 3
		}
		out := strings.Join(t[:n], " ")
		for i := n; i+1 < len(t); i += 2 {
			// the model logs the command with the names field.Make stores (trimmed)
			out += " " + model.H(strings.TrimSpace(model.U(t[i]))) + ":" + t[i+1]
		}
		return out
	case "aofshrink":
		return "req"
	}
	return strings.Join(t, " ")
}

func (m mcmd) String() string { return strings.Join(qcmd(m.real()), " ") }

// recCanon: a record of the shrunk file in canonical text (TTL digits dropped: ex -> 1).
func recCanon(rec []string) string {
	H := model.H
	if len(rec) == 0 {
		return "?empty"
	}
	bad := "?" + strings.Join(qcmd(rec), " ")
	switch strings.ToLower(rec[0]) {
	case "set":
		if len(rec) < 5 {
			return bad
		}
		i := 3
		var fs []string
		for i+2 < len(rec) && strings.ToLower(rec[i]) == "field" {
			v := H(rec[i+2])
			if rec[i+2] == "0" {
				v = "z"
			}
			fs = append(fs, H(rec[i+1])+":"+v)
			i += 3
		}
		ex := false
		if i+1 < len(rec) && strings.ToLower(rec[i]) == "ex" {
			ex = true
			i += 2
		}
		if i+2 != len(rec) || strings.ToLower(rec[i]) != "string" {
			return bad
		}
		out := "set " + H(rec[1]) + " " + H(rec[2]) + " " + b01(ex) + " " + H(rec[i+1])
		if len(fs) > 0 {
			out += " " + strings.Join(fs, " ")
		}
		return out
	case "sethook", "setchan":
		ch := strings.ToLower(rec[0]) == "setchan"
		if len(rec) < 3 {
			return bad
		}
		i := 2
		eps := ""
		if !ch {
			eps = rec[2]
			i = 3
		}
		var metas []string
		for i+2 < len(rec) && strings.ToLower(rec[i]) == "meta" {
			metas = append(metas, rec[i+1], rec[i+2])
			i += 3
		}
		ex := false
		if i+1 < len(rec) && strings.ToLower(rec[i]) == "ex" {
			ex = true
			i += 2
		}
		return "hset " + H(rec[1]) + " " + b01(ch) + " " + b01(ex) + " " + H(hookBody(eps, metas, rec[i:]))
	}
	return bad
}

// recTTL: the TTL digits of a snapshot record (set ... [ex T] ..., sethook/setchan ... [ex T] ...).
func recTTL(rec []string) (string, bool) {
	if len(rec) < 3 {
		return "", false
	}
	i := 3
	kw := "field"
	switch strings.ToLower(rec[0]) {
	case "set":
	case "sethook":
		kw = "meta"
	case "setchan":
		i, kw = 2, "meta"
	default:
		return "", false
	}
	for i+2 < len(rec) && strings.ToLower(rec[i]) == kw {
		i += 3
	}
	if i+1 < len(rec) && strings.ToLower(rec[i]) == "ex" {
		return rec[i+1], true
	}
	return "", false
}

// objDump: the dataset in the model's dump format (fields in name order, json text, has-deadline).
func objDump(c *srv.Conn) string {
	H := model.H
	jsonOf := map[string]string{}
	for _, f := range fvPool {
		jsonOf[f.display] = f.json
	}
	var lines []string
	for _, k := range knownKeys(c) {
		v := c.MustDo("SCAN", k, "LIMIT", "100000000")
		if len(v.Array) != 2 {
			lines = append(lines, "?"+H(k))
			continue
		}
		for _, o := range v.Array[1].Array {
			if len(o.Array) < 2 {
				continue
			}
			id := o.Array[0].Str
			t := c.MustDo("TTL", k, id)
			line := H(k) + " " + H(id) + " " + b01(t.Kind == ':' && t.Int >= 0) + " " + H(o.Array[1].Str)
			if len(o.Array) >= 3 {
				fa := o.Array[2].Array
				for i := 0; i+1 < len(fa); i += 2 {
					j, ok := jsonOf[fa[i+1].Str]
					if !ok {
						j = "?" + fa[i+1].Str
					}
					line += " " + H(fa[i].Str) + ":" + H(j)
				}
			}
			lines = append(lines, line)
		}
	}
	sort.Strings(lines)
	return strings.Join(lines, ",")
}

// hookDump: hooks and channels in the model's dump format: name chan ex body.
func hookDump(c *srv.Conn) string {
	H := model.H
	ttl := map[string]bool{}
	c.MustDo("OUTPUT", "json")
	for _, what := range []string{"HOOKS", "CHANS"} {
		v := c.MustDo(what, "*")
		var m map[string]interface{}
		if json.Unmarshal([]byte(v.Str), &m) == nil {
			arr, _ := m[strings.ToLower(what)].([]interface{})
			for _, h := range arr {
				hm, _ := h.(map[string]interface{})
				t, _ := hm["ttl"].(float64)
				ttl[what+"/"+fmt.Sprint(hm["name"])] = t >= 0
			}
		}
	}
	c.MustDo("OUTPUT", "resp")
	var lines []string
	for _, what := range []string{"HOOKS", "CHANS"} {
		v := c.MustDo(what, "*")
		for _, h := range v.Array {
			if len(h.Array) < 5 {
				lines = append(lines, "?"+h.String())
				continue
			}
			name := h.Array[0].Str
			eps := ""
			if what == "HOOKS" {
				var e []string
				for _, x := range h.Array[2].Array {
					e = append(e, x.Str)
				}
				eps = strings.Join(e, ",")
			}
			var cmd, metas []string
			for _, x := range h.Array[3].Array {
				cmd = append(cmd, x.Str)
			}
			for _, x := range h.Array[4].Array {
				metas = append(metas, x.Str)
			}
			lines = append(lines, H(name)+" "+b01(what == "CHANS")+" "+b01(ttl[what+"/"+name])+" "+H(hookBody(eps, metas, cmd)))
		}
	}
	sort.Strings(lines)
	return strings.Join(lines, ",")
}

func sortedModelDump(s string) string {
	if s == "-" {
		return ""
	}
	l := strings.Split(s, ",")
	sort.Strings(l)
	return strings.Join(l, ",")
}
