// C09, the write buffer at the swap (coq/Model/ShrinkBuf.v).
//
// Commands are appended to s.aofbuf when they execute and reach the log file only in the pre-write
// step of their connection, after the whole packet has been processed. A packet that is still in
// flight when the rewrite enters its final section therefore leaves commands in the buffer that the
// snapshot / shrinklog already contain. The final section must flush them into the OLD file: the
// buffer is empty when s.aof starts to denote the new file (c09_swap_log_exact).
//
// The schedule is made deterministic with the two sets of schedule points the server has when built
// with -tags verif: the rewrite gate (VERIF_SHRINK_SOCK; parks the rewrite before its final section)
// and the connection gate of C08 (VERIF_SCHED_SOCK; parks a named connection before every command
// and before its pre-write step, keeps the background flusher parked, reports how many commands
// have been appended to the buffer and how many have been written):
//
//	rewrite parked at `final`  ->  packet [c1 .. cn] on connection W, stepped until W is parked at
//	P1 (all commands executed, nothing flushed, no reply sent)  ->  the final section runs  ->
//	W released: pre-write flush, replies  ->  SIGKILL, restart, compare.
//
// Compared with the extracted model (bstep with the proved final_ops): outcome of every command, the
// number of buffered commands before and after the swap, the records of the log file after the
// swap and W's flush, the live dataset and the dataset after the restart. Oracle: the dataset
// served before the kill (everything acknowledged) is the dataset after the restart.
package main

import (
	"bufio"
	"fmt"
	"math/rand"
	"net"
	"os"
	"path/filepath"
	"strconv"
	"strings"
	"time"

	"verifharness/internal/hx"
	"verifharness/internal/model"
	"verifharness/internal/srv"
)

type schedCtl struct {
	c net.Conn
	r *bufio.Reader
}

func (c *schedCtl) ask(f string, a ...interface{}) string {
	c.c.SetDeadline(time.Now().Add(15 * time.Second))
	if _, err := fmt.Fprintf(c.c, f+"\n", a...); err != nil {
		return "err io " + err.Error()
	}
	line, err := c.r.ReadString('\n')
	if err != nil {
		return "err io " + err.Error()
	}
	return strings.TrimSpace(line)
}

// "<name> <point> park=<0|1> logged=<n> flushed=<n> myseq=<n> dirty=<0|1>"
type schedStatus struct {
	raw, point      string
	logged, flushed int
	ok              bool
}

func parseSched(s string) schedStatus {
	st := schedStatus{raw: s}
	f := strings.Fields(s)
	if len(f) != 7 {
		return st
	}
	st.point = f[1]
	num := func(kv, k string) int {
		if !strings.HasPrefix(kv, k+"=") {
			return -1
		}
		n, err := strconv.Atoi(kv[len(k)+1:])
		if err != nil {
			return -1
		}
		return n
	}
	st.logged, st.flushed = num(f[3], "logged"), num(f[4], "flushed")
	st.ok = st.logged >= 0 && st.flushed >= 0
	return st
}

// startInstSched: a server with the rewrite gate and the connection gate; the background flusher
// parks at its first schedule point and stays there.
func startInstSched(work, dir string) (*inst, *schedCtl, error) {
	instCounter++
	sock := filepath.Join(work, fmt.Sprintf("g%d.sock", instCounter))
	ssock := filepath.Join(work, fmt.Sprintf("s%d.sock", instCounter))
	os.Setenv("VERIF_SHRINK_SOCK", sock)
	os.Setenv("VERIF_SCHED_SOCK", ssock)
	os.Unsetenv("VERIF_CRASH")
	s, err := srv.Start(dir)
	os.Unsetenv("VERIF_SHRINK_SOCK")
	os.Unsetenv("VERIF_SCHED_SOCK")
	if err != nil {
		if s != nil && s.Alive() {
			s.Kill()
		}
		return nil, nil, fmt.Errorf("server start on %s: %v", dir, err)
	}
	in := &inst{s: s, dir: dir, sock: sock, c: s.MustDial()}
	var ctl *schedCtl
	for i := 0; i < 200 && (in.g == nil || ctl == nil); i++ {
		if in.g == nil {
			if c, err := net.Dial("unix", sock); err == nil {
				in.g = &gate{c: c, r: bufio.NewReader(c)}
			}
		}
		if ctl == nil {
			if c, err := net.Dial("unix", ssock); err == nil {
				ctl = &schedCtl{c: c, r: bufio.NewReader(c)}
			}
		}
		if in.g == nil || ctl == nil {
			time.Sleep(10 * time.Millisecond)
		}
	}
	if in.g == nil || ctl == nil {
		s.Kill()
		return nil, nil, fmt.Errorf("gate sockets did not come up (server not built with -tags verif?)")
	}
	if st := parseSched(ctl.ask("wait bg 5000")); !st.ok || st.point != "F1" {
		s.Kill()
		return nil, nil, fmt.Errorf("background flusher did not park at F1: %q", st.raw)
	}
	return in, ctl, nil
}

// recCanonLog: a record of the log in the canonical text of the model driver, for the object
// commands of the model alphabet (SET through recCanon).
func recCanonLog(rec []string) string {
	H := model.H
	if len(rec) == 0 {
		return "?empty"
	}
	bad := "?" + strings.Join(qcmd(rec), " ")
	switch op := strings.ToLower(rec[0]); op {
	case "set":
		return recCanon(rec)
	case "rename", "del":
		if len(rec) == 3 {
			return op + " " + H(rec[1]) + " " + H(rec[2])
		}
	case "expire":
		if len(rec) == 4 {
			return op + " " + H(rec[1]) + " " + H(rec[2])
		}
	case "persist":
		if len(rec) == 3 {
			return op + " " + H(rec[1]) + " " + H(rec[2])
		}
	case "pdel":
		if len(rec) == 3 && strings.HasSuffix(rec[2], "*") {
			return op + " " + H(rec[1]) + " " + H(strings.TrimSuffix(rec[2], "*"))
		}
	case "drop":
		if len(rec) == 2 {
			return op + " " + H(rec[1])
		}
	case "fset":
		if len(rec) >= 5 && len(rec)%2 == 1 {
			out := "fset " + H(rec[1]) + " " + H(rec[2])
			for i := 3; i+1 < len(rec); i += 2 {
				v := "?"
				if rec[i+1] == "0" {
					v = "z"
				}
				for _, f := range fvPool {
					if f.sent == rec[i+1] {
						v = H(f.json)
					}
				}
				out += " " + H(rec[i]) + ":" + v
			}
			return out
		}
	}
	return bad
}

// a buffered-at-the-swap case: dataset, writers at the start gate (ordinary connections: flushed and
// acknowledged one by one), the packet that is in flight when the final section runs
type bufCase struct {
	name   string
	init   []mcmd
	start  []mcmd
	packet []mcmd
}

// the witness of c09_swap_without_flush_refuted (coq/Proofs/ShrinkBufProofs.v: s0_nf, sched_nf)
func bufWitness() bufCase {
	return bufCase{
		name:   "witness-buffered-at-swap",
		init:   []mcmd{{op: "set", a: "a", b: "1", v: "x"}},
		packet: []mcmd{{op: "rename", a: "a", b: "c"}, {op: "set", a: "a", b: "1", v: "y"}},
	}
}

// the same on a dataset that needs several batches, with writers during the rewrite
func bufWitnessBig() bufCase {
	bc := bufCase{name: "witness-buffered-at-swap-big"}
	for j := 0; j < 10; j++ {
		n := 2
		if j == 3 {
			n = 40
		}
		for i := 0; i < n; i++ {
			bc.init = append(bc.init, mcmd{op: "set", a: fmt.Sprintf("k%02d", j), b: fmt.Sprintf("i%02d", i), v: fmt.Sprintf("v%d", i)})
		}
	}
	bc.start = []mcmd{{op: "set", a: "k03", b: "i50", v: "s"}, {op: "del", a: "k00", b: "i00"}, {op: "drop", a: "k09"}}
	bc.packet = []mcmd{{op: "del", a: "k01", b: "i01"}, {op: "rename", a: "k03", b: "k03x"}, {op: "set", a: "k03", b: "i00", v: "again"},
		{op: "fset", a: "k03x", b: "i01", fs: []fu{{"speed", &fvPool[0]}}}, {op: "del", a: "nokey", b: "i00"}}
	return bc
}

func genBufCase(rng *rand.Rand) bufCase {
	bc := bufCase{name: "random-buffered-at-swap"}
	ncols := 3 + rng.Intn(10)
	big := rng.Intn(ncols)
	key := func(j int) string { return fmt.Sprintf("k%02d", j) }
	for j := 0; j < ncols; j++ {
		n := 1 + rng.Intn(4)
		if j == big && rng.Intn(2) == 0 {
			n = 33 + rng.Intn(20)
		}
		for i := 0; i < n; i++ {
			m := mcmd{op: "set", a: key(j), b: fmt.Sprintf("i%02d", i), v: fmt.Sprintf("v%d", rng.Intn(100)), ex: rng.Intn(6) == 0}
			if rng.Intn(3) == 0 {
				m.fs = []fu{{fnames[rng.Intn(len(fnames))], &fvPool[rng.Intn(len(fvPool))]}}
			}
			bc.init = append(bc.init, m)
		}
	}
	gen := func(rename bool) mcmd {
		k := key(rng.Intn(ncols + 2))
		id := fmt.Sprintf("i%02d", rng.Intn(6))
		switch x := rng.Intn(12); {
		case x < 3:
			return mcmd{op: "set", a: k, b: id, v: fmt.Sprintf("w%d", rng.Intn(100)), ex: rng.Intn(5) == 0}
		case x < 5:
			return mcmd{op: "del", a: k, b: id}
		case x < 6:
			return mcmd{op: "drop", a: k}
		case x < 7:
			return mcmd{op: "pdel", a: k, b: "i0"}
		case x < 8:
			var f fu
			f.name = fnames[rng.Intn(len(fnames))]
			if rng.Intn(3) != 0 {
				f.val = &fvPool[rng.Intn(len(fvPool))]
			}
			return mcmd{op: "fset", a: k, b: id, fs: []fu{f}}
		case x < 9:
			return mcmd{op: []string{"expire", "persist"}[rng.Intn(2)], a: k, b: id}
		}
		if rename {
			// the commands that do not survive being replayed twice: a collection moves away and its
			// old name is written again
			return mcmd{op: "rename", a: k, b: []string{key(rng.Intn(ncols + 2)), k + "x", "zz"}[rng.Intn(3)]}
		}
		return mcmd{op: "set", a: k, b: id, v: "s"}
	}
	for i, n := 0, rng.Intn(4); i < n; i++ {
		bc.start = append(bc.start, gen(false))
	}
	for i, n := 0, 1+rng.Intn(5); i < n; i++ {
		m := gen(true)
		bc.packet = append(bc.packet, m)
		if m.op == "rename" && rng.Intn(3) != 0 {
			bc.packet = append(bc.packet, mcmd{op: "set", a: m.a, b: fmt.Sprintf("i%02d", rng.Intn(3)), v: "back"})
		}
	}
	return bc
}

func outcomeOf(v srv.Value) string {
	switch {
	case v.IsErr() && strings.Contains(v.Str, "key not found"):
		return "err:keynotfound"
	case v.IsErr() && strings.Contains(v.Str, "id not found"):
		return "err:idnotfound"
	case v.IsErr():
		return "err:" + v.Str
	case v.Kind == ':' && v.Int == 0:
		return "notupdated"
	}
	return "updated"
}

func bufferedAtSwap(r *hx.Result, cfg hx.Config, drv *model.Driver, bc bufCase, idx int) {
	dir := filepath.Join(cfg.Work, fmt.Sprintf("b%d", idx))
	os.RemoveAll(dir)
	in, ctl, err := startInstSched(cfg.Work, dir)
	if err != nil {
		panic(err.Error())
	}
	defer func() { in.close() }()
	defer ctl.c.Close()
	drv.Ask("new")
	var pk []string
	for _, m := range bc.packet {
		pk = append(pk, m.String())
	}
	cs := map[string]interface{}{"scenario": "buffered-at-swap", "name": bc.name, "index": idx, "dataset_commands": len(bc.init),
		"packet_in_flight_at_the_final_section": pk}
	if len(bc.init) <= 8 {
		var l []string
		for _, m := range bc.init {
			l = append(l, m.String())
		}
		cs["dataset"] = l
	}
	var trace []string
	ordinary := func(m mcmd, at string) bool {
		impl := outcomeOf(in.c.MustDo(m.real()...))
		mo := drv.Ask(m.model()...)
		trace = append(trace, at+" "+m.String()+" -> "+impl)
		if impl != mo {
			cs["trace"] = clip(trace, 40)
			r.Fail(hx.Failure{Kind: "correspondence", Signature: "shrink-model-command-outcome", What: "writer command outcome differs: " + m.String(), Case: cs, Impl: impl, Model: mo})
			return false
		}
		return true
	}
	for _, m := range bc.init {
		if !ordinary(m, "init") {
			return
		}
	}
	var w *srv.Conn
	defer func() {
		if w != nil {
			w.Close()
		}
	}()
	bufBefore, mbufBefore := -1, ""
	var mOutcomes []string // the model's outcome of every command of the packet
	problem := ""
	_, e := in.shrinkWith("start,final", func(ev event) bool {
		switch ev.kind {
		case "start":
			drv.Ask("begin")
			for _, m := range bc.start {
				if !ordinary(m, "start") {
					problem = "outcome"
					return false
				}
			}
		case "final":
			// the model's rewrite runs through its scan and its (empty) hooks phase
			g := drv.Ask("gate")
			for i := 0; i < 5000 && g != "final - -"; i++ {
				g = drv.Ask("step")
			}
			if g != "final - -" {
				problem = "the model did not reach its final section: " + g
				return false
			}
			base := parseSched(ctl.ask("stat"))
			if !base.ok || base.logged != base.flushed {
				problem = "commands are buffered although every reply has been read: " + base.raw
				return false
			}
			var err error
			if w, err = in.s.Dial(); err != nil {
				problem = "dial: " + err.Error()
				return false
			}
			if rep := ctl.ask("attach %s w", w.C.LocalAddr().String()); rep != "ok" {
				problem = "attach: " + rep
				return false
			}
			var pkt []byte
			for _, m := range bc.packet {
				pkt = append(pkt, srv.Encode(m.real()...)...)
			}
			w.WriteRaw(pkt)
			// W executes the whole packet and parks before its pre-write step
			st := parseSched(ctl.ask("wait w 10000"))
			for i := 0; i < 40*len(bc.packet)+40 && st.ok && st.point != "P1"; i++ {
				st = parseSched(ctl.ask("step w 10000"))
			}
			if !st.ok || st.point != "P1" {
				problem = "connection W did not reach its pre-write step: " + st.raw
				return false
			}
			for _, m := range bc.packet {
				t := m.model()
				mOutcomes = append(mOutcomes, drv.Ask(append([]string{"wb"}, t[1:]...)...))
			}
			bufBefore = st.logged - st.flushed
			mbufBefore = drv.Ask("bbuf")
			trace = append(trace, fmt.Sprintf("final gate: packet executed, %d commands in s.aofbuf, nothing flushed, no reply sent", bufBefore))
		}
		return true
	})
	if problem == "outcome" {
		return
	}
	if problem != "" {
		cs["trace"] = clip(trace, 40)
		r.Fail(hx.Failure{Kind: "correspondence", Signature: "shrink-buffer-schedule-not-reached", What: problem, Case: cs, Impl: in.s.LogTail(300)})
		return
	}
	if e != "" {
		r.Fail(hx.Failure{Kind: "oracle", Signature: "shrink-did-not-finish", What: "AOFSHRINK did not finish with a packet in flight: " + e, Case: cs, Impl: in.s.LogTail(600)})
		return
	}
	nbuf := func(s string) int {
		if s == "-" {
			return 0
		}
		return len(strings.Split(s, ","))
	}
	if bufBefore != nbuf(mbufBefore) {
		r.Fail(hx.Failure{Kind: "correspondence", Signature: "shrink-model-buffer", What: "number of commands in s.aofbuf when the final section starts differs from the model's", Case: cs, Impl: bufBefore, Model: mbufBefore})
	}
	// the final section has run (W is still parked, nobody else has flushed)
	if rep := drv.Ask("final"); rep != "ok" {
		r.Fail(hx.Failure{Kind: "correspondence", Signature: "shrink-model-buffer", What: "model: " + rep, Case: cs})
		return
	}
	after := parseSched(ctl.ask("stat"))
	bufAfter, mbufAfter := after.logged-after.flushed, drv.Ask("bbuf")
	trace = append(trace, fmt.Sprintf("after the swap: %d commands in s.aofbuf", bufAfter))
	cs["buffered_before_and_after_the_swap"] = []int{bufBefore, bufAfter}
	if !after.ok || bufAfter != nbuf(mbufAfter) {
		r.Fail(hx.Failure{Kind: "correspondence", Signature: "shrink-model-buffer", What: fmt.Sprintf("%d commands are in s.aofbuf right after the files were swapped (%d before); the model's buffer is empty: they are in the snapshot / shrinklog and will be written to the new file a second time", bufAfter, bufBefore), Case: cs, Impl: after.raw, Model: mbufAfter})
	}
	// W goes on: pre-write flush, replies
	ctl.ask("detach w")
	for i, m := range bc.packet {
		v, err := w.Read()
		if err != nil {
			panic("connection W: " + err.Error())
		}
		impl := outcomeOf(v)
		trace = append(trace, "packet "+m.String()+" -> "+impl)
		if i < len(mOutcomes) && impl != mOutcomes[i] {
			cs["trace"] = clip(trace, 40)
			r.Fail(hx.Failure{Kind: "correspondence", Signature: "shrink-model-command-outcome", What: "outcome of a command of the in-flight packet differs: " + m.String(), Case: cs, Impl: impl, Model: mOutcomes[i]})
		}
	}
	drv.Ask("flush")
	cs["trace"] = clip(trace, 40)
	recs, rerr := readAOF(aofPath(dir))
	var implRecs []string
	for _, rec := range recs {
		implRecs = append(implRecs, recCanonLog(rec))
	}
	mfile := drv.Ask("bfile")
	if mfile == "-" {
		mfile = ""
	}
	live := objDump(in.c)
	mlive := sortedModelDump(drv.Ask("live"))
	mrep := sortedModelDump(drv.Ask("breplayed"))
	// everything has been acknowledged; the process dies
	in.c.Close()
	in.c = nil
	in.s.Kill()
	in.dead()
	in2, serr := startInstE(cfg.Work, dir)
	if serr != nil {
		r.Count("buffered/"+bc.name+"/nostart", true)
		r.Fail(hx.Failure{Kind: "oracle", Signature: "shrink-new-file-does-not-load", What: "after AOFSHRINK with a packet in flight at the final section (" + strings.Join(pk, "; ") + ") the server does not start: " + lastLines(serr.Error(), 300), Case: cs})
		in = &inst{s: in.s, dir: dir}
		return
	}
	in = in2
	restarted := objDump(in.c)
	r.Count(fmt.Sprintf("buffered/%s/%d/%d/%d", bc.name, len(bc.init), len(bc.packet), bufBefore), bufBefore > 0)
	r.Dist("scenario:buffered-at-swap")
	r.TracesImpl++
	r.Sample(14, map[string]interface{}{"scenario": "buffered-at-swap", "name": bc.name, "dataset_commands": len(bc.init), "packet": pk, "buffered_before_after": []int{bufBefore, bufAfter}, "records": len(implRecs)})
	if rerr != nil || strings.Join(implRecs, ",") != mfile {
		a, b := diffLines(strings.Join(implRecs, "\n"), strings.ReplaceAll(mfile, ",", "\n"))
		r.Fail(hx.Failure{Kind: "correspondence", Signature: "shrink-model-file", What: "records of the log after the swap and the flush of the in-flight packet differ from the model's (snapshot ++ shrinklog, nothing else)", Case: cs, Impl: clip(a, 8), Model: clip(b, 8)})
	}
	if live != mlive {
		r.Fail(hx.Failure{Kind: "correspondence", Signature: "shrink-model-live", What: "live dataset differs from the model's", Case: cs, Impl: live, Model: mlive})
	}
	if restarted != mrep {
		r.Fail(hx.Failure{Kind: "correspondence", Signature: "shrink-model-replayed", What: "dataset after restart differs from the model's replay of file ++ buffer", Case: cs, Impl: restarted, Model: mrep})
	}
	if live != restarted {
		a, b := diffLines(strings.ReplaceAll(live, ",", "\n"), strings.ReplaceAll(restarted, ",", "\n"))
		ds := fmt.Sprintf("%d SET commands", len(bc.init))
		if l, ok := cs["dataset"].([]string); ok {
			ds = strings.Join(l, "; ")
		}
		r.Fail(hx.Failure{Kind: "oracle", Signature: "shrink-buffered-at-swap-restart-mismatch",
			What: "dataset: " + ds + "; AOFSHRINK parked before its final section; one pipelined packet [" + strings.Join(pk, "; ") + "] executed, its connection held before the pre-write step (" + strconv.Itoa(bufBefore) + " commands in s.aofbuf); final section runs; connection released, replies read; SIGKILL; restart: live-only " + unhexLines(clip(a, 4)) + " restart-only " + unhexLines(clip(b, 4)),
			Case: cs, Impl: map[string]interface{}{"only_live": clip(a, 8), "only_after_restart": clip(b, 8), "buffered_after_swap": bufAfter}, Model: map[string]interface{}{"model_predicts_mismatch": mlive != mrep}})
	}
}
