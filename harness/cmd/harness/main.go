// Command harness runs the correspondence / direct-oracle part of one property check.
package main

import (
	"flag"
	"fmt"
	"os"
	"sort"

	"verifharness/internal/hx"
)

type runFn func(r *hx.Result, cfg Config)

type Config struct {
	Tier   string
	Seed   int64
	Work   string // scratch directory for this run (removed by ./check)
	Search bool   // failing-input search mode (after a broken obligation / correspondence)
	Replay string
}

var registry = map[string]runFn{}

func main() {
	if len(os.Args) < 2 {
		var ids []string
		for k := range registry {
			ids = append(ids, k)
		}
		sort.Strings(ids)
		fmt.Println("usage: harness <property> [-tier quick|thorough] [-seed n] [-out file] [-work dir] [-search]; have:", ids)
		os.Exit(2)
	}
	prop := os.Args[1]
	fs := flag.NewFlagSet("harness", flag.ExitOnError)
	tier := fs.String("tier", "quick", "")
	seed := fs.Int64("seed", 1, "")
	out := fs.String("out", "", "")
	work := fs.String("work", "", "")
	search := fs.Bool("search", false, "")
	replay := fs.String("replay", "", "")
	fs.Parse(os.Args[2:])
	fn, ok := registry[prop]
	if !ok {
		fmt.Fprintln(os.Stderr, "unknown property", prop)
		os.Exit(2)
	}
	if *work == "" {
		d, _ := os.MkdirTemp("/verif/.work", "h-")
		*work = d
		defer os.RemoveAll(d)
	}
	res := hx.New(prop, *tier, *seed)
	fn(res, Config{Tier: *tier, Seed: *seed, Work: *work, Search: *search, Replay: *replay})
	if *out != "" {
		if err := res.Write(*out); err != nil {
			fmt.Fprintln(os.Stderr, err)
			os.Exit(2)
		}
	}
	fmt.Printf("harness %s: evaluations=%d nontrivial=%d failures=%d\n", prop, res.Evaluations, res.Nontrivial, len(res.Failures))
}
