// C15 harness: black-box gate matrix (every command x server mode x wrapping) against the gate
// model extracted from Coq (which is itself built on the tables regenerated from /repo).
package main

import (
	"fmt"
	"net"
	"os"
	"path/filepath"
	"strconv"
	"strings"
	"time"

	"verifharness/internal/hx"
	"verifharness/internal/model"
	"verifharness/internal/srv"
)

func main() { hx.Main("C15", run) }

// a plausible valid argument shape per command (the gates run before argument parsing, so for
// commands not listed the bare name is sent)
var shapes = map[string][]string{
	"set": {"SET", "fleet", "new1", "POINT", "5", "5"}, "fset": {"FSET", "fleet", "truck1", "speed", "9"},
	"del": {"DEL", "fleet", "truck1"}, "pdel": {"PDEL", "fleet", "truck*"}, "drop": {"DROP", "fleet"},
	"flushdb": {"FLUSHDB"}, "rename": {"RENAME", "fleet", "fleet2"}, "renamenx": {"RENAMENX", "fleet", "fleet3"},
	"sethook": {"SETHOOK", "h2", "http://127.0.0.1:1/x", "NEARBY", "fleet", "FENCE", "POINT", "1", "1", "100"},
	"delhook": {"DELHOOK", "h1"}, "pdelhook": {"PDELHOOK", "h*"}, "hooks": {"HOOKS", "*"},
	"setchan": {"SETCHAN", "c2", "NEARBY", "fleet", "FENCE", "POINT", "1", "1", "100"},
	"delchan": {"DELCHAN", "c1"}, "pdelchan": {"PDELCHAN", "c*"}, "chans": {"CHANS", "*"},
	"expire": {"EXPIRE", "fleet", "truck1", "100"}, "persist": {"PERSIST", "fleet", "truck1"}, "ttl": {"TTL", "fleet", "truck1"},
	"stats": {"STATS", "fleet"}, "server": {"SERVER"}, "healthz": {"HEALTHZ"}, "info": {"INFO"}, "role": {"ROLE"},
	"scan": {"SCAN", "fleet"}, "nearby": {"NEARBY", "fleet", "POINT", "1", "1", "100000"},
	"within": {"WITHIN", "fleet", "BOUNDS", "-10", "-10", "10", "10"}, "intersects": {"INTERSECTS", "fleet", "BOUNDS", "-10", "-10", "10", "10"},
	"search": {"SEARCH", "names"}, "bounds": {"BOUNDS", "fleet"}, "get": {"GET", "fleet", "truck1"},
	"fget": {"FGET", "fleet", "truck1", "speed"}, "jget": {"JGET", "docs", "d1", "a"}, "jset": {"JSET", "docs", "d1", "a", "2"},
	"jdel": {"JDEL", "docs", "d1", "a"}, "type": {"TYPE", "fleet"}, "keys": {"KEYS", "*"}, "exists": {"EXISTS", "fleet", "truck1"},
	"fexists": {"FEXISTS", "fleet", "truck1", "speed"}, "output": {"OUTPUT"}, "aofmd5": {"AOFMD5", "0", "0"}, "gc": {"GC"},
	"config get": {"CONFIG", "GET", "maxmemory"}, "client": {"CLIENT", "LIST"},
	"eval": {"EVAL", "return 1", "0"}, "evalro": {"EVALRO", "return 1", "0"}, "evalna": {"EVALNA", "return 1", "0"},
	"evalsha": {"EVALSHA", "ffffffffffffffffffffffffffffffffffffffff", "0"}, "evalrosha": {"EVALROSHA", "ffffffffffffffffffffffffffffffffffffffff", "0"},
	"evalnasha": {"EVALNASHA", "ffffffffffffffffffffffffffffffffffffffff", "0"},
	"script load": {"SCRIPT", "LOAD", "return 1"}, "script exists": {"SCRIPT", "EXISTS", "ff"}, "script flush": {"SCRIPT", "FLUSH"},
	"publish": {"PUBLISH", "ch", "m"}, "test": {"TEST", "GET", "fleet", "truck1", "INTERSECTS", "BOUNDS", "-10", "-10", "10", "10"},
	"ping": {"PING"}, "echo": {"ECHO", "x"}, "replconf": {"REPLCONF", "listening-port", "1"}, "timeout": {"TIMEOUT", "1", "GET", "fleet", "truck1"},
	"hello": {"HELLO", "3"}, "readonly": {"READONLY"}, "aofshrink": {"AOFSHRINK"},
}

// commands never sent: they change the server's role, block, or go live in ways that end the matrix
var skip = map[string]bool{"follow": true, "slaveof": true, "config set": true, "config rewrite": true, "config": true, "script": true,
	"monitor": true, "subscribe": true, "psubscribe": true, "aof": true, "shutdown": true, "massinsert": true, "sleep": true, "quit": true, "auth": true}

type mode struct {
	name                                      string
	follower, caughtup, readonly, requirepass bool
}

func classify(v srv.Value, err error) string {
	if err != nil {
		return "closed"
	}
	if v.Kind == '-' {
		s := v.Str
		switch {
		case strings.Contains(s, "not the leader"):
			return "err:notleader"
		case strings.Contains(s, "read only"):
			return "err:readonly"
		case strings.Contains(s, "catching up to leader"):
			return "err:catchingup"
		case strings.Contains(s, "authentication required"):
			return "err:authrequired"
		case strings.Contains(s, "invalid password"):
			return "err:invalidpassword"
		case strings.Contains(s, "unknown command"):
			return "err:unknown"
		case strings.Contains(s, "LOADING"):
			return "err:loading"
		}
		return "run" // an error produced by the handler itself (bad arguments, not found, ...)
	}
	return "run"
}

func modelClass(s string) string {
	switch {
	case strings.HasPrefix(s, "run:"), s == "early":
		return "run"
	case s == "authok":
		return "run"
	}
	return s
}

func us(s string) string { return strings.ReplaceAll(s, " ", "_") }

func run(r *hx.Result, cfg hx.Config) {
	r.Rule = "every command name that occurs in any regenerated table (dispatch, lock table, script tables, deny list) plus hello/timeout/ping, one argument shape each, sent on a fresh connection to real servers in the modes leader / read-only / follower-never-caught-up / follower-caught-up / requirepass-unauthenticated / requirepass-authenticated; direct, TIMEOUT-wrapped and through tile38.call in EVAL/EVALRO/EVALNA; the reply class (gate error vs handler ran) is compared with the extracted gate model; oracles: a follower / read-only / unauthenticated connection leaves the dump unchanged, object reads are refused on a never-caught-up follower, wrong passwords never authenticate, a non-loopback peer is refused before any read in protected mode. Role state (roles.go, vs Model/RoleState.v): READONLY with every spelling of its argument on read-only and writable servers (+ restart); CONFIG SET protected-mode with every spelling / REWRITE / restart observed by a peer from 127.0.0.2; a scripted leader streams log records and PUBLISH messages to a real follower and stalls (read gate vs follow_session); READONLY yes queued behind a long reader while direct / EVAL / EVALNA writes are issued (no write may be applied once a reader saw read_only=true). non-trivial = distinct (mode, wrapping, command) where the model predicts a gate refusal or the command changes data."
	r.Assumptions = []string{"reply classes are recognised by their error text", "t38x recognisers (tables are what the source says)"}
	r.Exhaustive = true
	drv, err := model.Start("gate")
	if err != nil {
		panic(err)
	}
	defer drv.Close()
	names := strings.Split(drv.Ask("all_commands"), ",")
	seen := map[string]bool{}
	var cmds []string
	for _, n := range append(names, "hello", "timeout", "ping", "frobnicate") {
		if !seen[n] && !skip[n] {
			seen[n] = true
			cmds = append(cmds, n)
		}
	}

	// --- servers ---
	leaderDir := filepath.Join(cfg.Work, "leader")
	leader, err := srv.Start(leaderDir)
	if err != nil {
		panic(err)
	}
	defer leader.Kill()
	seed := func(c *srv.Conn) {
		c.MustDo("SET", "fleet", "truck1", "FIELD", "speed", "5", "POINT", "1", "1")
		c.MustDo("SET", "fleet", "truck2", "POINT", "2", "2")
		c.MustDo("SET", "names", "n1", "STRING", "alice")
		c.MustDo("SET", "docs", "d1", "STRING", `{"a":1,"b":2}`)
		c.MustDo("SETHOOK", "h1", "http://127.0.0.1:1/x", "NEARBY", "fleet", "FENCE", "POINT", "1", "1", "100")
		c.MustDo("SETCHAN", "c1", "NEARBY", "fleet", "FENCE", "POINT", "1", "1", "100")
	}
	lc := leader.MustDial()
	seed(lc)

	// follower that never catches up: own data (so that there is something to leak), then a config
	// pointing at a dead port
	ncDir := filepath.Join(cfg.Work, "nc")
	{
		s0, err := srv.Start(ncDir)
		if err != nil {
			panic(err)
		}
		c := s0.MustDial()
		seed(c)
		c.Close()
		s0.Stop()
		dead := srv.FreePort()
		os.WriteFile(filepath.Join(ncDir, "config"), []byte(fmt.Sprintf(`{"follow_host":"127.0.0.1","follow_port":%d}`, dead)), 0o600)
	}
	nc, err := srv.Start(ncDir)
	if err != nil {
		panic(err)
	}
	defer nc.Kill()

	// caught-up follower of the leader
	fo, err := srv.Start(filepath.Join(cfg.Work, "follower"))
	if err != nil {
		panic(err)
	}
	defer fo.Kill()
	{
		c := fo.MustDial()
		c.MustDo("FOLLOW", "127.0.0.1", strconv.Itoa(leader.Port))
		ok := false
		for i := 0; i < 400 && !ok; i++ {
			v, err := c.Do("GET", "fleet", "truck1")
			if err == nil && v.Kind != '-' {
				ok = true
			}
			time.Sleep(25 * time.Millisecond)
		}
		c.Close()
		if !ok {
			r.Fail(hx.Failure{Kind: "oracle", Signature: "follower-never-caught-up", What: "a fresh follower of a quiescent leader did not catch up within 10 s"})
		}
	}
	// read-only server
	ro, err := srv.Start(filepath.Join(cfg.Work, "ro"))
	if err != nil {
		panic(err)
	}
	defer ro.Kill()
	{
		c := ro.MustDial()
		seed(c)
		c.MustDo("READONLY", "yes")
		c.Close()
	}
	// password server
	pw, err := srv.Start(filepath.Join(cfg.Work, "pw"))
	if err != nil {
		panic(err)
	}
	defer pw.Kill()
	{
		c := pw.MustDial()
		seed(c)
		c.MustDo("CONFIG", "SET", "requirepass", "sesame")
		c.Close()
	}

	type target struct {
		m    mode
		s    *srv.Server
		auth string // "" none, else password to AUTH with first
	}
	targets := []target{
		{mode{"leader", false, true, false, false}, leader, ""},
		{mode{"readonly", false, true, true, false}, ro, ""},
		{mode{"follower-never-caught-up", true, false, false, false}, nc, ""},
		{mode{"follower-caught-up", true, true, false, false}, fo, ""},
		{mode{"password-unauthenticated", false, true, false, true}, pw, ""},
		{mode{"password-authenticated", false, true, false, true}, pw, "sesame"},
	}
	dumpOf := func(t target) string {
		c := t.s.MustDial()
		defer c.Close()
		if t.m.requirepass {
			c.MustDo("AUTH", "sesame")
		}
		if t.m.follower && !t.m.caughtup {
			return "(no reads on a never-caught-up follower)"
		}
		return srv.Dump(c)
	}
	send := func(t target, args []string) (srv.Value, error) {
		c, err := t.s.Dial()
		if err != nil {
			return srv.Value{}, err
		}
		defer c.Close()
		c.Timeout = 3 * time.Second
		if t.auth != "" {
			c.MustDo("AUTH", t.auth)
		}
		return c.Do(args...)
	}
	b := model.B
	for _, t := range targets {
		immutable := t.m.follower || t.m.readonly || (t.m.requirepass && t.auth == "")
		before := ""
		if immutable {
			before = dumpOf(t)
		}
		for _, wrap := range []string{"direct", "timeout", "eval", "evalro", "evalna"} {
			for _, cmd := range cmds {
				args := shapes[cmd]
				if args == nil {
					args = strings.Split(strings.ToUpper(cmd), " ")
				}
				var wire []string
				var want string
				authd := t.auth != "" || !t.m.requirepass
				switch wrap {
				case "direct":
					wire = args
					inner := cmd
					if cmd == "timeout" {
						inner = "get"
					}
					want = drv.Ask("gate", us(cmd), us(inner), "0", b(t.m.follower), b(t.m.caughtup), b(t.m.readonly), b(t.m.requirepass), b(authd), "n", "0")
				case "timeout":
					if cmd == "timeout" || cmd == "hello" || cmd == "ping" || cmd == "echo" {
						continue
					}
					wire = append([]string{"TIMEOUT", "2"}, args...)
					want = drv.Ask("gate", "timeout", us(cmd), "0", b(t.m.follower), b(t.m.caughtup), b(t.m.readonly), b(t.m.requirepass), b(authd), "n", "0")
				default: // script wrapped: the outer command's gate, then the script table's
					if strings.Contains(cmd, " ") || cmd == "timeout" || cmd == "hello" || cmd == "frobnicate" {
						continue
					}
					var lua strings.Builder
					lua.WriteString("return tile38.pcall(")
					for i, a := range args {
						if i > 0 {
							lua.WriteString(",")
						}
						lua.WriteString(strconv.Quote(a))
					}
					lua.WriteString(")")
					wire = []string{strings.ToUpper(wrap), lua.String(), "0"}
					outer := drv.Ask("gate", wrap, wrap, "0", b(t.m.follower), b(t.m.caughtup), b(t.m.readonly), b(t.m.requirepass), b(authd), "n", "0")
					if !strings.HasPrefix(outer, "run:") {
						want = outer
					} else {
						v := map[string]string{"eval": "rw", "evalro": "ro", "evalna": "na"}[wrap]
						want = drv.Ask("script_gate", v, us(cmd), b(t.m.follower), b(t.m.caughtup), b(t.m.readonly))
					}
				}
				v, err := send(t, wire)
				got := classify(v, err)
				if wrap != "direct" && wrap != "timeout" && v.Kind == '-' && strings.Contains(v.Str, "not supported") {
					got = "err:notsupported"
				}
				if wrap != "direct" && wrap != "timeout" && got == "run" && v.Kind == '-' {
					// pcall returns handler errors as values; an error here is the handler's own
					got = "run"
				}
				wantC := modelClass(want)
				if wantC == "err:unknown" && got == "run" && wrap != "direct" && wrap != "timeout" {
					// inside scripts an unknown sub-command surfaces as a handler-level error value
					got = "err:unknown"
				}
				key := t.m.name + "/" + wrap + "/" + cmd
				nontrivial := strings.HasPrefix(wantC, "err:") || drv.Ask("changes", us(cmd)) == "1"
				r.Count(key, nontrivial)
				r.Dist(t.m.name + ":" + wantC)
				if len(r.Samples) < 12 && nontrivial && (r.Evaluations%37 == 0) {
					r.Sample(12, map[string]string{"mode": t.m.name, "wrap": wrap, "cmd": strings.Join(wire, " "), "reply_class": got, "model": want})
				}
				if got != wantC {
					r.Fail(hx.Failure{Kind: "correspondence", Signature: "gate-model", What: "reply class differs from the gate model",
						Case: map[string]string{"mode": t.m.name, "wrap": wrap, "cmd": strings.Join(wire, " ")}, Impl: got + " (" + v.String() + ")", Model: want})
				}
				// direct oracles
				if t.m.requirepass && t.auth == "" && wrap == "direct" {
					okCmds := map[string]bool{"ping": true, "echo": true, "output": true, "healthz": true}
					if !okCmds[cmd] && v.Kind != '-' && err == nil {
						r.Fail(hx.Failure{Kind: "oracle", Signature: "unauthenticated-reply", What: fmt.Sprintf("unauthenticated connection got a non-error reply to %q: %s", strings.Join(wire, " "), v.String()),
							Case: map[string]string{"mode": t.m.name, "cmd": strings.Join(wire, " ")}})
					}
				}
				if t.m.follower && !t.m.caughtup {
					if drv.Ask("reads_objects", us(cmd)) == "1" && cmd != "massinsert" && wrap == "direct" && err == nil && !strings.HasPrefix(got, "err:") {
						r.Fail(hx.Failure{Kind: "oracle", Signature: "read-before-caught-up", What: fmt.Sprintf("a follower that never caught up served %q: %s", strings.Join(wire, " "), v.String()),
							Case: map[string]string{"mode": t.m.name, "cmd": strings.Join(wire, " ")}})
					}
				}
			}
		}
		if immutable {
			after := dumpOf(t)
			if after != before {
				r.Fail(hx.Failure{Kind: "oracle", Signature: "gated-server-changed", What: "the dataset of a " + t.m.name + " server changed after the command matrix",
					Case: map[string]string{"mode": t.m.name, "before": before, "after": after}})
			}
		}
	}
	// a connection that was opened and used while NO password was configured gains nothing from
	// that: after CONFIG SET requirepass (from another connection) its next commands are refused
	// like a new connection's and change nothing (c15_stale_connection: conn_authd of a history that
	// never presented the password is false). Own server: the matrix servers stay as they are.
	{
		st, err := srv.Start(filepath.Join(cfg.Work, "stale"))
		if err != nil {
			panic(err)
		}
		adm := st.MustDial()
		seed(adm)
		type oldConn struct {
			name string
			c    *srv.Conn
			warm [][]string // what it did while there was no password
		}
		olds := []*oldConn{
			{"used:get+set", st.MustDial(), [][]string{{"GET", "fleet", "truck1"}, {"SET", "fleet", "early1", "POINT", "3", "3"}}},
			{"used:scan", st.MustDial(), [][]string{{"SCAN", "fleet"}}},
			{"used:ping-only", st.MustDial(), [][]string{{"PING"}}},
			{"used:failed-auth", st.MustDial(), [][]string{{"AUTH", "sesame"}, {"GET", "fleet", "truck1"}}},
			{"used:output+eval", st.MustDial(), [][]string{{"OUTPUT", "resp"}, {"EVAL", "return tile38.call('get','fleet','truck1')", "0"}}},
			{"idle", st.MustDial(), nil},
		}
		for _, o := range olds {
			o.c.Timeout = 3 * time.Second
			for _, w := range o.warm {
				v, err := o.c.Do(w...)
				// AUTH without a configured password is answered "invalid password"; everything else runs
				if err != nil || (v.Kind == '-' && w[0] != "AUTH") {
					r.Fail(hx.Failure{Kind: "oracle", Signature: "stale-setup", What: fmt.Sprintf("password-less server refused %q: %s %v", strings.Join(w, " "), v.String(), err)})
				}
			}
		}
		adm.MustDo("CONFIG", "SET", "requirepass", "sesame")
		adm.Close()
		authedDump := func() string {
			c := st.MustDial()
			defer c.Close()
			c.MustDo("AUTH", "sesame")
			return srv.Dump(c)
		}
		before := authedDump()
		probes := []struct {
			cmd, inner string
			wire       []string
		}{
			{"get", "get", []string{"GET", "fleet", "truck1"}},
			{"scan", "scan", []string{"SCAN", "fleet"}},
			{"set", "set", []string{"SET", "fleet", "intruder1", "POINT", "1", "1"}},
			{"timeout", "set", []string{"TIMEOUT", "2", "SET", "fleet", "intruder2", "POINT", "2", "2"}},
			{"timeout", "get", []string{"TIMEOUT", "2", "GET", "fleet", "truck1"}},
			{"eval", "eval", []string{"EVAL", "return tile38.call('set','fleet','intruder3','point',3,3)", "0"}},
			{"evalro", "evalro", []string{"EVALRO", "return tile38.call('get','fleet','truck1')", "0"}},
			{"evalna", "evalna", []string{"EVALNA", "return tile38.call('del','fleet','truck1')", "0"}},
			{"config get", "config get", []string{"CONFIG", "GET", "requirepass"}},
			{"config set", "config set", []string{"CONFIG", "SET", "requirepass", ""}},
			{"del", "del", []string{"DEL", "fleet", "truck2"}},
			{"drop", "drop", []string{"DROP", "names"}},
			{"fset", "fset", []string{"FSET", "fleet", "truck1", "speed", "77"}},
			{"hooks", "hooks", []string{"HOOKS", "*"}},
			{"keys", "keys", []string{"KEYS", "*"}},
			{"server", "server", []string{"SERVER"}},
		}
		for _, o := range olds {
			for round := 0; round < 2; round++ {
				if round == 1 {
					// a wrong AUTH in between is refused and changes nothing about the connection
					v, err := o.c.Do("AUTH", "Sesame")
					r.Count("stale/"+o.name+"/auth-wrong", true)
					if got := classify(v, err); got != "err:invalidpassword" {
						r.Fail(hx.Failure{Kind: "oracle", Signature: "wrong-password-accepted", What: fmt.Sprintf("connection %s (opened before requirepass was set): AUTH with a wrong password answered %s", o.name, v.String()),
							Case: map[string]interface{}{"connection": o.name, "before_requirepass": o.warm, "cmd": "AUTH Sesame"}})
					}
				}
				for _, p := range probes {
					v, err := o.c.Do(p.wire...)
					got := classify(v, err)
					want := drv.Ask("gate", us(p.cmd), us(p.inner), "0", "0", "1", "0", "1", "0", "n", "0")
					key := fmt.Sprintf("stale/%s/%d/%s", o.name, round, us(strings.Join(p.wire, " ")))
					r.Count(key, true)
					r.Dist("stale:" + modelClass(want))
					cs := map[string]interface{}{"connection": o.name, "before_requirepass": o.warm, "then": "CONFIG SET requirepass sesame (other connection)", "cmd": strings.Join(p.wire, " ")}
					if got != "err:authrequired" {
						r.Fail(hx.Failure{Kind: "oracle", Signature: "stale-connection-authorised", What: fmt.Sprintf("a connection that never authenticated (%s, opened before requirepass was set) was not refused: %q -> %s", o.name, strings.Join(p.wire, " "), v.String()),
							Case: cs, Impl: got + " (" + v.String() + ")"})
					}
					if got != modelClass(want) {
						r.Fail(hx.Failure{Kind: "correspondence", Signature: "gate-model-stale", What: "reply class on a never-authenticated old connection differs from the gate model with authd = false (conn_authd of its history)",
							Case: cs, Impl: got + " (" + v.String() + ")", Model: want})
					}
				}
			}
			o.c.Close()
		}
		r.Sample(14, map[string]string{"mode": "stale-connection", "wrap": "direct", "cmd": "GET fleet truck1 | SET … | CONFIG SET requirepass (other conn) | GET/SET/EVAL/TIMEOUT SET/CONFIG GET on the old conn", "reply_class": "err:authrequired", "model": "err:authrequired"})
		if after := authedDump(); after != before {
			r.Fail(hx.Failure{Kind: "oracle", Signature: "stale-connection-authorised", What: "commands of never-authenticated connections (opened before requirepass was set) changed the dataset",
				Case: map[string]string{"before": before, "after": after}})
		}
		// the right password still authenticates a new connection
		{
			c := st.MustDial()
			v := c.MustDo("AUTH", "sesame")
			g := c.MustDo("GET", "fleet", "truck1")
			r.Count("stale/fresh-auth", true)
			if v.Kind == '-' || g.Kind == '-' {
				r.Fail(hx.Failure{Kind: "oracle", Signature: "right-password-refused", What: "after CONFIG SET requirepass a new connection with the right password is refused: " + v.String() + " / " + g.String()})
			}
			c.Close()
		}
		st.Kill()
	}
	// wrong password never authenticates; right one does
	{
		c := pw.MustDial()
		for _, p := range []string{"", "Sesame", "sesame2", "ses", " "} {
			v, _ := c.Do("AUTH", p)
			r.Count("auth/wrong/"+p, true)
			if v.Kind != '-' {
				r.Fail(hx.Failure{Kind: "oracle", Signature: "wrong-password-accepted", What: fmt.Sprintf("AUTH %q was accepted: %s", p, v.String())})
			}
			g, _ := c.Do("GET", "fleet", "truck1")
			if g.Kind != '-' {
				r.Fail(hx.Failure{Kind: "oracle", Signature: "wrong-password-accepted", What: fmt.Sprintf("after AUTH %q the connection reads data: %s", p, g.String())})
			}
		}
		v, _ := c.Do("AUTH", "sesame")
		if v.Kind == '-' {
			r.Fail(hx.Failure{Kind: "oracle", Signature: "right-password-refused", What: "AUTH with the right password refused: " + v.String()})
		}
		c.Close()
		// HTTP with and without Authorization
		for _, h := range []struct{ hdr, want string }{{"", "authentication required"}, {"Authorization: nope\r\n", "invalid password"}, {"Authorization: sesame\r\n", "!auth"}} {
			conn, err := net.DialTimeout("tcp", fmt.Sprintf("127.0.0.1:%d", pw.Port), 2*time.Second)
			if err != nil {
				continue
			}
			fmt.Fprintf(conn, "GET /GET+fleet+truck1 HTTP/1.1\r\nHost: x\r\n%s\r\n", h.hdr)
			conn.SetReadDeadline(time.Now().Add(2 * time.Second))
			var all []byte
			buf := make([]byte, 4096)
			for {
				n, err := conn.Read(buf)
				all = append(all, buf[:n]...)
				if err != nil {
					break
				}
			}
			conn.Close()
			r.Count("http-auth/"+h.hdr, true)
			okReply := strings.Contains(string(all), h.want)
			if h.want == "!auth" {
				okReply = strings.Contains(string(all), `"ok":`) && !strings.Contains(string(all), "authentication required") && !strings.Contains(string(all), "invalid password")
			}
			if !okReply {
				r.Fail(hx.Failure{Kind: "oracle", Signature: "http-auth", What: fmt.Sprintf("HTTP GET with header %q: expected %q in the reply, got %q", h.hdr, h.want, string(all))})
			}
		}
	}
	// protected mode: a server without password, default protected-mode, bound to all interfaces;
	// a peer from 127.0.0.2 is non-loopback for tile38's test ("127.0.0.1:" prefix)
	{
		dir := filepath.Join(cfg.Work, "prot")
		port := srv.FreePort()
		os.MkdirAll(dir, 0o755)
		ps, err := srv.StartPortHost(dir, port, "", "--protected-mode", "yes")
		if err == nil {
			d := net.Dialer{LocalAddr: &net.TCPAddr{IP: net.ParseIP("127.0.0.2")}, Timeout: 2 * time.Second}
			conn, err := d.Dial("tcp", fmt.Sprintf("127.0.0.1:%d", port))
			if err == nil {
				conn.SetReadDeadline(time.Now().Add(2 * time.Second))
				buf := make([]byte, 4096)
				n, _ := conn.Read(buf) // nothing was sent: the refusal must come first
				r.Count("protected/non-loopback", true)
				if !strings.HasPrefix(string(buf[:n]), "-DENIED") {
					r.Fail(hx.Failure{Kind: "oracle", Signature: "protected-mode", What: fmt.Sprintf("non-loopback peer in protected mode was not refused before sending anything; got %q", string(buf[:n]))})
				}
				conn.Close()
			}
			c, err := srv.Dial(port)
			if err == nil {
				v, _ := c.Do("PING")
				r.Count("protected/loopback", true)
				if v.Str != "PONG" {
					r.Fail(hx.Failure{Kind: "oracle", Signature: "protected-mode", What: "loopback peer refused in protected mode: " + v.String()})
				}
				c.Close()
			}
			ps.Kill()
		} else {
			r.Fail(hx.Failure{Kind: "oracle", Signature: "protected-mode-start", What: "could not start a server bound to all interfaces: " + err.Error()})
		}
	}
	// the role the gates consult: READONLY / protected-mode spellings, caught-up accounting, role change vs writes
	runRoles(r, cfg, drv)
	lc.Close()
}
