// C15 harness, part 2: the ROLE the gates consult (Model/RoleState.v, theorems of Props/C15rs.v).
//
//	roReadonlySweep  READONLY <any spelling> on read-only and writable servers vs readonly_cmd
//	roProtectedSweep CONFIG SET protected-mode <any spelling> / REWRITE / restart vs prun + is_protected,
//	                 observed by a non-loopback peer
//	roFollowStreams  a scripted leader streams log records and PUBLISH messages to a real follower,
//	                 stalls, and the follower's read gate is compared with follow_session
//	roRoleRace       READONLY yes queued behind a long reader while writes (direct, EVAL, EVALNA) are
//	                 issued: no write may be applied once a reader has seen read_only = true
package main

import (
	"bufio"
	"fmt"
	"io"
	"math/rand"
	"net"
	"path/filepath"
	"regexp"
	"strconv"
	"strings"
	"sync"
	"time"

	"verifharness/internal/hx"
	"verifharness/internal/model"
	"verifharness/internal/srv"
)

func runRoles(r *hx.Result, cfg hx.Config, drv *model.Driver) {
	rng := rand.New(rand.NewSource(cfg.Seed*7919 + 15))
	roReadonlySweep(r, cfg, drv, rng)
	roProtectedSweep(r, cfg, drv, rng)
	roFollowStreams(r, cfg, drv, rng)
	roRoleRace(r, cfg)
}

func mixCase(rng *rand.Rand, w string) string {
	b := []byte(w)
	for i := range b {
		if rng.Intn(2) == 0 && b[i] >= 'a' && b[i] <= 'z' {
			b[i] -= 32
		}
	}
	return string(b)
}

// spellings of a yes/no argument: canonical, every case mix of the directed kind, near misses, junk
func yesNoCorpus(rng *rand.Rand, extra int) []string {
	c := []string{"yes", "no", "YES", "Yes", "yEs", "yeS", "NO", "No", "nO", "maybe", "", "yes ", " yes", "no ", "y", "n",
		"true", "false", "1", "0", "on", "off", "yesno", "noyes", "ye", "YES\x00", "ｙｅｓ", "nö", "NO\n"}
	for i := 0; i < extra; i++ {
		switch rng.Intn(4) {
		case 0, 1:
			c = append(c, mixCase(rng, "yes"))
		case 2:
			c = append(c, mixCase(rng, "no"))
		default:
			n := 1 + rng.Intn(4)
			b := make([]byte, n)
			for j := range b {
				b[j] = "yesnoYESNO \t01"[rng.Intn(14)]
			}
			c = append(c, string(b))
		}
	}
	return c
}

// ---------- READONLY ----------

func roReadonlySweep(r *hx.Result, cfg hx.Config, drv *model.Driver, rng *rand.Rand) {
	dir := filepath.Join(cfg.Work, "rosweep")
	st, err := srv.Start(dir)
	if err != nil {
		panic(err)
	}
	defer func() { st.Kill() }()
	c := st.MustDial()
	c.MustDo("SET", "fleet", "truck1", "POINT", "1", "1")
	n := 0
	// is the server read-only, as seen by the commands the property is about
	isRO := func(c *srv.Conn) (bool, string) {
		n++
		id := "probe" + strconv.Itoa(n)
		v1, e1 := c.Do("SET", "fleet", id, "POINT", "2", "2")
		v2, e2 := c.Do("EVALNA", "return tile38.call('set','fleet','"+id+"s','POINT',3,3)", "0")
		k1, k2 := classify(v1, e1), classify(v2, e2)
		obs := fmt.Sprintf("SET fleet %s POINT 2 2 -> %s | EVALNA tile38.call('set','fleet','%ss',...) -> %s", id, v1.String(), id, v2.String())
		return k1 == "err:readonly" && k2 == "err:readonly", obs
	}
	extra := 6
	if cfg.Tier != "quick" {
		extra = 40
	}
	corpus := yesNoCorpus(rng, extra)
	for _, s0 := range []bool{true, false} {
		for _, a := range corpus {
			canon := "no"
			if s0 {
				canon = "yes"
			}
			c.MustDo("READONLY", canon)
			if got, obs := isRO(c); got != s0 {
				r.Fail(hx.Failure{Kind: "oracle", Signature: "readonly-canonical", What: fmt.Sprintf("after READONLY %s the server is read-only=%v: %s", canon, got, obs),
					Case: map[string]interface{}{"cmds": []string{"READONLY " + canon}}})
				continue
			}
			v, err := c.Do("READONLY", a)
			after, obs := isRO(c)
			want := drv.Ask("readonly_cmd", model.H(a), model.B(s0))
			gotReply := "invalid"
			if err == nil && v.Kind != '-' {
				gotReply = "ok"
			}
			got := gotReply + ":" + model.B(after)
			key := fmt.Sprintf("readonly/%v/%q", s0, a)
			r.Count(key, s0 || strings.HasPrefix(want, "ok"))
			r.Dist("readonly:" + want)
			cs := map[string]interface{}{"cmds": []string{"READONLY " + canon, "READONLY " + strconv.Quote(a), "SET fleet probeN POINT 2 2", "EVALNA tile38.call('set',...)"},
				"readonly_before": s0, "reply": v.String(), "after": obs}
			if s0 && strings.ToLower(a) != "no" && !after {
				r.Fail(hx.Failure{Kind: "oracle", Signature: "readonly-left-without-no",
					What: fmt.Sprintf("a read-only server accepted writes after READONLY %q (answered %s), nobody sent READONLY no: %s", a, v.String(), obs), Case: cs, Impl: got})
			}
			if got != want {
				r.Fail(hx.Failure{Kind: "correspondence", Signature: "role-model-readonly-cmd", What: fmt.Sprintf("READONLY %q on a server with read-only=%v: reply/state differ from readonly_cmd", a, s0),
					Case: cs, Impl: got, Model: want})
			}
		}
	}
	// wrong number of arguments: refused, state untouched
	for _, args := range [][]string{{"READONLY"}, {"READONLY", "yes", "no"}, {"READONLY", "no", "yes"}} {
		c.MustDo("READONLY", "yes")
		v, _ := c.Do(args...)
		after, obs := isRO(c)
		r.Count("readonly/argc/"+strings.Join(args, "_"), true)
		if !after || v.Kind != '-' {
			r.Fail(hx.Failure{Kind: "oracle", Signature: "readonly-left-without-no", What: fmt.Sprintf("%q on a read-only server answered %s and left it writable=%v: %s", strings.Join(args, " "), v.String(), !after, obs),
				Case: map[string]interface{}{"cmds": []string{"READONLY yes", strings.Join(args, " ")}}})
		}
	}
	// the mode survives a restart, whatever odd spelling was tried last
	for _, a := range []string{"YES", mixCase(rng, "yes"), "maybe"} {
		c.MustDo("READONLY", "yes")
		v, _ := c.Do("READONLY", a)
		c.Close()
		st.Stop()
		st2, err := srv.Start(dir)
		if err != nil {
			r.Fail(hx.Failure{Kind: "oracle", Signature: "readonly-restart", What: "server does not restart after READONLY " + strconv.Quote(a) + ": " + err.Error()})
			return
		}
		st = st2
		c = st.MustDial()
		after, obs := isRO(c)
		r.Count("readonly/restart/"+a, true)
		if !after {
			r.Fail(hx.Failure{Kind: "oracle", Signature: "readonly-left-without-no", What: fmt.Sprintf("READONLY yes, READONLY %q (answered %s), restart: the server accepts writes: %s", a, v.String(), obs),
				Case: map[string]interface{}{"cmds": []string{"READONLY yes", "READONLY " + strconv.Quote(a), "<restart>", "SET fleet probeN POINT 2 2"}}})
		}
	}
	c.Close()
	r.Sample(16, map[string]string{"mode": "readonly-sweep", "wrap": "direct", "cmd": "READONLY yes | READONLY <spelling> | SET / EVALNA set", "reply_class": "err:readonly", "model": "readonly_cmd"})
}

// ---------- protected mode ----------

// what a peer connecting from 127.0.0.2 gets: "denied", "served", or "" when that source address cannot be used
func outsidePeer(port int) string {
	res := ""
	for try := 0; try < 3; try++ {
		d := net.Dialer{LocalAddr: &net.TCPAddr{IP: net.ParseIP("127.0.0.2")}, Timeout: 2 * time.Second}
		conn, err := d.Dial("tcp", fmt.Sprintf("127.0.0.1:%d", port))
		if err != nil {
			return ""
		}
		rd := bufio.NewReader(conn)
		// the refusal comes unasked; only when nothing arrives is a command sent (sending at once would race
		// with the server closing the connection)
		conn.SetReadDeadline(time.Now().Add(250 * time.Millisecond))
		line, err := rd.ReadString('\n')
		if err != nil && line == "" {
			if ne, ok := err.(net.Error); ok && ne.Timeout() {
				conn.SetDeadline(time.Now().Add(5 * time.Second))
				conn.Write(srv.Encode("PING"))
				line, _ = rd.ReadString('\n')
			}
		}
		conn.Close()
		switch {
		case strings.HasPrefix(line, "-DENIED"):
			return "denied"
		case strings.HasPrefix(line, "+PONG"):
			return "served"
		}
		res = "other:" + strings.TrimSpace(line)
		time.Sleep(100 * time.Millisecond)
	}
	return res
}

func roProtectedSweep(r *hx.Result, cfg hx.Config, drv *model.Driver, rng *rand.Rand) {
	dir := filepath.Join(cfg.Work, "protsweep")
	port := srv.FreePort()
	ps, err := srv.StartPortHost(dir, port, "", "--protected-mode", "yes")
	if err != nil {
		r.Fail(hx.Failure{Kind: "oracle", Signature: "protected-mode-start", What: "could not start a server bound to all interfaces: " + err.Error()})
		return
	}
	defer func() { ps.Kill() }()
	if p := outsidePeer(port); p == "" {
		r.Dist("protected:no-second-loopback-address")
		return
	} else if p != "denied" {
		r.Fail(hx.Failure{Kind: "oracle", Signature: "protected-mode", What: "fresh server with --protected-mode yes and no password: a peer from 127.0.0.2 got " + p})
		return
	}
	adm, err := srv.Dial(port)
	if err != nil {
		panic(err)
	}
	values := []string{"yes", "Yes", "no", "Yes", "NO", "YES", "No", "yEs", "maybe", "", "nO", "yes ", "yeS", "no", mixCase(rng, "yes"), "n", mixCase(rng, "no"), mixCase(rng, "yes")}
	if cfg.Tier != "quick" {
		values = append(values, yesNoCorpus(rng, 20)...)
		values = append(values, "Yes")
	}
	var evs []string   // model events so far
	var hist []string  // the same, readable
	protected := true  // as last observed
	step := func(ev, text string, v string, reply srv.Value) {
		evs = append(evs, ev)
		hist = append(hist, text)
		out := strings.Fields(drv.Ask(append([]string{"prun"}, evs...)...))
		wantMode, wantProt := model.U(out[0]), out[1] == "1"
		got := outsidePeer(port)
		gv, _ := adm.Do("CONFIG", "GET", "protected-mode")
		stored := ""
		if len(gv.Array) == 2 {
			stored = gv.Array[1].Str
		}
		r.Count("protected/"+strings.Join(hist, ";"), true)
		r.Dist(fmt.Sprintf("protected:%v", wantProt))
		cs := map[string]interface{}{"server": "--protected-mode yes, all interfaces, no password", "admin@127.0.0.1": append([]string{}, hist...),
			"last_reply": reply.String(), "CONFIG GET protected-mode": stored, "peer@127.0.0.2 PING": got}
		mustDeny := false
		if ev == "w" || ev == "r" {
			mustDeny = protected
		} else {
			mustDeny = (protected && strings.ToLower(v) != "no") || (reply.Kind == '+' && strings.ToLower(v) == "yes")
		}
		if mustDeny && got != "denied" {
			r.Fail(hx.Failure{Kind: "oracle", Signature: "protected-mode-left-without-no",
				What: fmt.Sprintf("protected mode is on (last step: %s -> %s; CONFIG GET protected-mode = %q), yet a peer from 127.0.0.2 was %s", text, reply.String(), stored, got), Case: cs, Impl: got})
		}
		wantPeer := "served"
		if wantProt {
			wantPeer = "denied"
		}
		if got != wantPeer || stored != wantMode {
			r.Fail(hx.Failure{Kind: "correspondence", Signature: "role-model-protected", What: "stored protected-mode value / refusal of a non-loopback peer differ from prun + is_protected",
				Case: cs, Impl: stored + " " + got, Model: wantMode + " " + wantPeer})
		}
		protected = got == "denied"
	}
	for _, v := range values {
		reply, err := adm.Do("CONFIG", "SET", "protected-mode", v)
		if err != nil {
			panic(err)
		}
		step("s:"+model.H(v), "CONFIG SET protected-mode "+strconv.Quote(v), v, reply)
	}
	// a mixed-case yes, persisted and reloaded
	for _, v := range []string{"Yes", "no", mixCase(rng, "yes")} {
		reply, _ := adm.Do("CONFIG", "SET", "protected-mode", v)
		step("s:"+model.H(v), "CONFIG SET protected-mode "+strconv.Quote(v), v, reply)
		reply, _ = adm.Do("CONFIG", "REWRITE")
		step("w", "CONFIG REWRITE", "", reply)
		adm.Close()
		ps.Stop()
		ps2, err := srv.StartPortHost(dir, port, "", "--protected-mode", "yes")
		if err != nil {
			r.Fail(hx.Failure{Kind: "oracle", Signature: "protected-mode-start", What: "server does not restart after CONFIG SET protected-mode " + strconv.Quote(v) + " + REWRITE: " + err.Error()})
			return
		}
		ps = ps2
		if adm, err = srv.Dial(port); err != nil {
			panic(err)
		}
		step("r", "<restart>", "", srv.Value{Kind: '+', Str: "restarted"})
	}
	adm.Close()
	r.Sample(17, map[string]string{"mode": "protected-sweep", "wrap": "direct", "cmd": "CONFIG SET protected-mode <spelling> | peer from 127.0.0.2", "reply_class": "denied", "model": "prun/is_protected"})
}

// ---------- follower: caught up only by consuming the leader's log ----------

type streamMsg struct {
	args   []string
	logged bool
}

type fakeLeader struct {
	ln      net.Listener
	aofSize int
	mu      sync.Mutex
	stream  chan net.Conn // the connection on which the follower sent AOF
}

func newFakeLeader(aofSize int) (*fakeLeader, error) {
	ln, err := net.Listen("tcp", "127.0.0.1:0")
	if err != nil {
		return nil, err
	}
	l := &fakeLeader{ln: ln, aofSize: aofSize, stream: make(chan net.Conn, 4)}
	go func() {
		for {
			c, err := ln.Accept()
			if err != nil {
				return
			}
			go l.handle(c)
		}
	}()
	return l, nil
}

func (l *fakeLeader) port() int { return l.ln.Addr().(*net.TCPAddr).Port }

func readRESPCommand(rd *bufio.Reader) ([]string, error) {
	line, err := rd.ReadString('\n')
	if err != nil {
		return nil, err
	}
	line = strings.TrimRight(line, "\r\n")
	if len(line) == 0 || line[0] != '*' {
		return nil, fmt.Errorf("unexpected request line %q", line)
	}
	n, err := strconv.Atoi(line[1:])
	if err != nil {
		return nil, err
	}
	var args []string
	for i := 0; i < n; i++ {
		h, err := rd.ReadString('\n')
		if err != nil {
			return nil, err
		}
		h = strings.TrimRight(h, "\r\n")
		if len(h) == 0 || h[0] != '$' {
			return nil, fmt.Errorf("unexpected bulk header %q", h)
		}
		sz, err := strconv.Atoi(h[1:])
		if err != nil {
			return nil, err
		}
		buf := make([]byte, sz+2)
		if _, err := io.ReadFull(rd, buf); err != nil {
			return nil, err
		}
		args = append(args, string(buf[:sz]))
	}
	return args, nil
}

func (l *fakeLeader) handle(c net.Conn) {
	rd := bufio.NewReader(c)
	for {
		args, err := readRESPCommand(rd)
		if err != nil || len(args) == 0 {
			c.Close()
			return
		}
		switch strings.ToLower(args[0]) {
		case "server":
			c.Write(srv.Encode("id", "5c1f9d0a7b3e4f62a1b2c3d4e5f60718", "aof_size", strconv.Itoa(l.aofSize)))
		case "replconf":
			io.WriteString(c, "+OK\r\n")
		case "aof":
			io.WriteString(c, "+OK\r\n")
			l.stream <- c
			io.Copy(io.Discard, rd) // the follower sends nothing more; keep the connection open
			return
		default:
			io.WriteString(c, "-ERR unknown command\r\n")
		}
	}
}

var numObjects = regexp.MustCompile(`num_objects" \$"(\d+)"`)

func roFollowStreams(r *hx.Result, cfg hx.Config, drv *model.Driver, rng *rand.Rand) {
	ncases := 5
	if cfg.Tier != "quick" {
		ncases = 16
	}
	reads := [][]string{
		{"GET", "fleet", "t1"}, {"SCAN", "fleet"}, {"NEARBY", "fleet", "POINT", "33", "-115", "100000"},
		{"EVALRO", "return tile38.call('get','fleet','t1')", "0"}, {"EVALNA", "return tile38.call('scan','fleet')", "0"},
		{"TIMEOUT", "1", "SCAN", "fleet"}, {"EXISTS", "fleet", "t1"}, {"SEARCH", "names"},
	}
	for ci := 0; ci < ncases; ci++ {
		aofSize := 3000 + rng.Intn(20000)
		// segments: each ends in a stall
		type segment struct{ msgs []streamMsg }
		var segs []segment
		nid := 0
		logged := 0
		set := func(pad int) streamMsg {
			nid++
			m := streamMsg{[]string{"SET", "fleet", "t" + strconv.Itoa(nid), "FIELD", "pad", strconv.Itoa(pad), "POINT", "33", "-115"}, true}
			if pad%3 == 0 {
				m = streamMsg{[]string{"SET", "names", "n" + strconv.Itoa(nid), "STRING", strings.Repeat("x", 1+pad%700)}, true}
			}
			logged += len(srv.Encode(m.args...))
			return m
		}
		pub := func(sz int) streamMsg {
			word := []string{"PUBLISH", "publish", "Publish", "PUBLISH", "pUBLISH"}[rng.Intn(5)]
			return streamMsg{[]string{word, "alerts", `{"command":"set","detect":"inside","hook":"alerts","key":"other","id":"x","pad":"` + strings.Repeat("p", sz) + `"}`}, false}
		}
		// shape of the case: 0 = one record then a PUBLISH burst larger than the whole log (directed), else random mixes
		nseg := 2 + rng.Intn(3)
		for si := 0; si < nseg; si++ {
			var sg segment
			switch {
			case ci%3 == 0 && si == 0:
				sg.msgs = append(sg.msgs, set(rng.Intn(1000)))
				for b := 0; b < aofSize+500; {
					m := pub(200 + rng.Intn(1500))
					b += len(srv.Encode(m.args...))
					sg.msgs = append(sg.msgs, m)
				}
			case si == nseg-1:
				// the rest of the log, interleaved with a few messages
				for logged < aofSize+200 {
					sg.msgs = append(sg.msgs, set(rng.Intn(3000)))
					if rng.Intn(3) == 0 {
						sg.msgs = append(sg.msgs, pub(rng.Intn(800)))
					}
				}
			default:
				for k := 1 + rng.Intn(5); k > 0 && logged < aofSize-1500; k-- {
					sg.msgs = append(sg.msgs, set(rng.Intn(1500)))
					for rng.Intn(2) == 0 {
						sg.msgs = append(sg.msgs, pub(rng.Intn(2500)))
					}
				}
				if rng.Intn(2) == 0 { // a burst that covers the remaining gap
					for b := 0; b < aofSize-logged+300; {
						m := pub(300 + rng.Intn(1200))
						b += len(srv.Encode(m.args...))
						sg.msgs = append(sg.msgs, m)
					}
				}
			}
			// the marker that tells the harness the follower has consumed the segment (a log record like any other)
			mk := streamMsg{[]string{"SET", "mk", "m" + strconv.Itoa(si), "STRING", "x"}, true}
			logged += len(srv.Encode(mk.args...))
			sg.msgs = append(sg.msgs, mk)
			segs = append(segs, sg)
		}
		ld, err := newFakeLeader(aofSize)
		if err != nil {
			panic(err)
		}
		fo, err := srv.Start(filepath.Join(cfg.Work, fmt.Sprintf("fstream%d", ci)))
		if err != nil {
			ld.ln.Close()
			panic(err)
		}
		func() {
			defer fo.Kill()
			defer ld.ln.Close()
			c := fo.MustDial()
			defer c.Close()
			c.Timeout = 5 * time.Second
			if v, err := c.Do("FOLLOW", "127.0.0.1", strconv.Itoa(ld.port())); err != nil || v.Kind == '-' {
				r.Fail(hx.Failure{Kind: "oracle", Signature: "follow-stream-setup", What: "FOLLOW <scripted leader> refused: " + v.String()})
				return
			}
			var sc net.Conn
			select {
			case sc = <-ld.stream:
			case <-time.After(10 * time.Second):
				r.Fail(hx.Failure{Kind: "oracle", Signature: "follow-stream-setup", What: "the follower never asked the scripted leader for its log (AOF 0)"})
				return
			}
			defer sc.Close()
			var sent []string // model messages so far
			var descr []string
			logBytes, pubBytes := 0, 0
			for si, sg := range segs {
				for _, m := range sg.msgs {
					b := srv.Encode(m.args...)
					if _, err := sc.Write(b); err != nil {
						r.Fail(hx.Failure{Kind: "oracle", Signature: "follow-stream-setup", What: "replication connection closed by the follower: " + err.Error()})
						return
					}
					sent = append(sent, model.H(m.args[0])+":"+strconv.Itoa(len(b)))
					if m.logged {
						logBytes += len(b)
					} else {
						pubBytes += len(b)
					}
				}
				descr = append(descr, fmt.Sprintf("segment %d: %d messages; so far %d log bytes, %d PUBLISH bytes", si, len(sg.msgs), logBytes, pubBytes))
				// wait until the marker of this segment has been applied
				okMark := false
				for t := 0; t < 800 && !okMark; t++ {
					v, err := c.Do("STATS", "mk")
					if err == nil {
						if m := numObjects.FindStringSubmatch(v.String()); m != nil && m[1] == strconv.Itoa(si+1) {
							okMark = true
							break
						}
					}
					time.Sleep(15 * time.Millisecond)
				}
				if !okMark {
					r.Fail(hx.Failure{Kind: "oracle", Signature: "follow-stream-setup", What: fmt.Sprintf("the follower did not apply the streamed records of segment %d within 12 s (log %s)", si, fo.LogTail(300))})
					return
				}
				want := drv.Ask(append([]string{"follow", "0", strconv.Itoa(aofSize)}, sent...)...) == "1"
				consumed := logBytes >= aofSize
				for _, rd := range reads {
					var v srv.Value
					var err error
					got := ""
					// served state is reached asynchronously only in the sense of this very message: the marker is applied
					// under the same lock hold as the caught-up test, so one retry round is ample
					for t := 0; t < 200; t++ {
						v, err = c.Do(rd...)
						got = classify(v, err)
						if (got == "err:catchingup") == !want {
							break
						}
						if !want {
							break // served although the model says not caught up: no retry can undo that
						}
						time.Sleep(20 * time.Millisecond)
					}
					key := fmt.Sprintf("follow-stream/%d/%d/%s", ci, si, rd[0])
					r.Count(key, !want)
					r.Dist(fmt.Sprintf("follow-stream:caughtup=%v", want))
					cs := map[string]interface{}{"leader_aof_size": aofSize, "streamed": append([]string{}, descr...), "log_bytes_streamed": logBytes,
						"publish_bytes_streamed": pubBytes, "then": "stall", "read": strings.Join(rd, " "), "reply": v.String()}
					if !consumed && got != "err:catchingup" {
						r.Fail(hx.Failure{Kind: "oracle", Signature: "read-before-log-consumed",
							What: fmt.Sprintf("a follower that never caught up (leader aof_size %d, %d log bytes streamed, %d bytes of PUBLISH messages) served %q: %s", aofSize, logBytes, pubBytes, strings.Join(rd, " "), v.String()), Case: cs, Impl: got})
					}
					if (got != "err:catchingup") != want {
						r.Fail(hx.Failure{Kind: "correspondence", Signature: "role-model-caughtup", What: "read gate of the follower differs from follow_session on the streamed messages",
							Case: cs, Impl: got, Model: fmt.Sprintf("caught up = %v", want)})
					}
				}
			}
		}()
	}
	r.Sample(18, map[string]string{"mode": "follower-stream", "wrap": "direct", "cmd": "FOLLOW <scripted leader> | SET... PUBLISH... <stall> | GET/SCAN/EVALRO", "reply_class": "err:catchingup", "model": "follow_session"})
}

// ---------- role change racing with writes ----------

func serverField(v srv.Value, name string) string {
	for i := 0; i+1 < len(v.Array); i += 2 {
		if v.Array[i].Str == name {
			return v.Array[i+1].Str
		}
	}
	return ""
}

func roRoleRace(r *hx.Result, cfg hx.Config) {
	attempts := 3
	hold := "1.2"
	established := 0
	for at := 0; at < attempts && established < 1; at++ {
		st, err := srv.Start(filepath.Join(cfg.Work, fmt.Sprintf("race%d", at)))
		if err != nil {
			panic(err)
		}
		func() {
			defer st.Kill()
			adm := st.MustDial()
			defer adm.Close()
			adm.MustDo("SET", "fleet", "truck1", "POINT", "1", "1")
			adm.MustDo("SET", "fleet", "victim", "POINT", "9", "9")
			type writer struct {
				name string
				id   string // object that must not appear ("" for the delete)
				wire []string
				c    *srv.Conn
				v    srv.Value
				err  error
			}
			ws := []*writer{
				{name: "direct SET", id: "w1", wire: []string{"SET", "fleet", "w1", "POINT", "1", "2"}},
				{name: "EVAL tile38.call('set')", id: "w2", wire: []string{"EVAL", "return tile38.pcall('set','fleet','w2','POINT',1,2)", "0"}},
				{name: "EVALNA tile38.call('set')", id: "w3", wire: []string{"EVALNA", "return tile38.pcall('set','fleet','w3','POINT',1,2)", "0"}},
				{name: "EVALNA tile38.call('fset')", id: "", wire: []string{"EVALNA", "return tile38.pcall('fset','fleet','victim','touched',1)", "0"}},
				{name: "EVALNASHA-like second EVALNA set", id: "w4", wire: []string{"EVALNA", "return tile38.call('set',KEYS[1],ARGV[1],'POINT',3,4)", "1", "fleet", "w4"}},
				{name: "EVALNA tile38.call('del')", id: "-victim", wire: []string{"EVALNA", "return tile38.pcall('del','fleet','truck1')", "0"}},
			}
			H, R, P := st.MustDial(), st.MustDial(), st.MustDial()
			defer H.Close()
			defer R.Close()
			defer P.Close()
			for _, w := range ws {
				w.c = st.MustDial()
				defer w.c.Close()
			}
			// 1. a long reader holds the shared lock
			H.Send("EVALRO", "local t = os.clock() while os.clock() - t < "+hold+" do end return 'held'", "0")
			time.Sleep(150 * time.Millisecond)
			// 2. the role change queues for the exclusive lock behind it
			R.Send("READONLY", "yes")
			time.Sleep(200 * time.Millisecond) // rwmutex.Lock spins 50 ms on TryLock before it announces itself as a pending writer
			// 3. a reader that queues behind the pending writer: it runs right after READONLY yes and reports, from
			// one critical section, the role and which of the objects exist
			P.Send("EVALRO", "return {tile38.call('server'), tile38.call('exists','fleet','w1'), tile38.call('exists','fleet','w2'), tile38.call('exists','fleet','w3'), tile38.call('exists','fleet','w4'), tile38.call('exists','fleet','truck1'), tile38.call('fget','fleet','victim','touched')}", "0")
			time.Sleep(60 * time.Millisecond)
			// 4. the writes
			var wg sync.WaitGroup
			for _, w := range ws {
				wg.Add(1)
				go func(w *writer) {
					defer wg.Done()
					w.c.Timeout = 15 * time.Second
					w.v, w.err = w.c.Do(w.wire...)
				}(w)
			}
			H.Read()
			rv, _ := R.Read()
			pv, perr := P.Read()
			wg.Wait()
			if perr != nil || len(pv.Array) != 7 {
				r.Dist("role-race:probe-failed")
				return
			}
			roSeen := serverField(pv.Array[0], "read_only") == "true"
			if !roSeen || rv.Kind == '-' {
				// the probe ran before READONLY yes took effect: this attempt proves nothing
				r.Dist("role-race:schedule-not-established")
				return
			}
			established++
			names := []string{"w1", "w2", "w3", "w4"}
			absentThen := map[string]bool{}
			for i, n := range names {
				absentThen[n] = pv.Array[1+i].Int == 0
			}
			truckThen := pv.Array[5].Int == 1
			touchedThen := pv.Array[6].String()
			// final state
			final := map[string]bool{}
			for _, n := range names {
				v := adm.MustDo("EXISTS", "fleet", n)
				final[n] = v.Int == 1
			}
			truckNow := adm.MustDo("EXISTS", "fleet", "truck1").Int == 1
			touchedNow := adm.MustDo("FGET", "fleet", "victim", "touched").String()
			var replies []string
			for _, w := range ws {
				replies = append(replies, w.name+" -> "+w.v.String())
			}
			cs := map[string]interface{}{
				"schedule": []string{"conn H: EVALRO busy loop " + hold + " s (holds the shared lock)", "conn R: READONLY yes (queues for the exclusive lock) -> " + rv.String(),
					"conn P: EVALRO {server, exists w1..w4, exists truck1, fget victim touched} (queues behind R) -> read_only=true, " + (srv.Value{Kind: '*', Array: pv.Array[1:]}).String(),
					"conns W1..W6 (sent while R was still waiting): " + strings.Join(replies, " | ")},
				"no READONLY no was ever sent": true,
			}
			byID := map[string]*writer{}
			for _, w := range ws {
				byID[w.id] = w
			}
			for _, n := range names {
				r.Count("role-race/"+n, true)
				if absentThen[n] && final[n] {
					r.Fail(hx.Failure{Kind: "oracle", Signature: "write-applied-after-readonly",
						What: fmt.Sprintf("%s was applied on a read-only server: a reader that saw read_only=true did not see fleet/%s, afterwards it exists (reply %s)", byID[n].name, n, byID[n].v.String()), Case: cs})
				}
			}
			r.Count("role-race/del", true)
			if truckThen && !truckNow {
				r.Fail(hx.Failure{Kind: "oracle", Signature: "write-applied-after-readonly", What: "EVALNA tile38.call('del') was applied on a read-only server: a reader that saw read_only=true still saw fleet/truck1, afterwards it is gone", Case: cs})
			}
			r.Count("role-race/fset", true)
			if touchedThen != touchedNow {
				r.Fail(hx.Failure{Kind: "oracle", Signature: "write-applied-after-readonly", What: fmt.Sprintf("EVALNA tile38.call('fset') was applied on a read-only server: field touched of fleet/victim was %s when a reader saw read_only=true, afterwards %s", touchedThen, touchedNow), Case: cs})
			}
			r.Dist("role-race:established")
		}()
	}
	if established == 0 {
		r.Dist("role-race:inconclusive")
	}
	r.Sample(19, map[string]string{"mode": "role-race", "wrap": "evalna", "cmd": "EVALRO busy | READONLY yes (pending) | EVALRO probe | SET / EVAL set / EVALNA set", "reply_class": "err:readonly", "model": "run_arm (c15_write_role_under_lock_scripts)"})
}
