package main

// Errors of a streamed command (Model/FollowTol.v, Props/C06tol.v): a follower under memory pressure.
//
// SET and FSET answer errOOM on a server whose heap is over its own 'maxmemory' (CONFIG SET maxmemory re-evaluates the
// state at once, a background routine every 4 s). That error depends on the FOLLOWER's local condition, not on the
// dataset: a follower that skipped such a record would keep claiming to be a copy without the object. The model says
// the attempt fails (c06t_local_error_fails_attempt: errOOM is not in the tolerated set read from commandErrIsFatal),
// the follower retries every second - each retry clears the caught-up flag at its top - and converges once the limit
// is lifted.

import (
	"fmt"
	"path/filepath"
	"strconv"
	"strings"
	"time"

	"verifharness/internal/hx"
)

func (x *ctx) runFollowerOOM(dir string, noaof bool) {
	name := "corpus-follower-over-maxmemory"
	if noaof {
		name += "-noaof"
	}
	defer func() {
		if e := recover(); e != nil {
			x.fail(hx.Failure{Kind: "oracle", Signature: "harness-panic", What: fmt.Sprintf("scenario %s: %v", name, e), Case: name})
		}
	}()
	var pre [][]string
	for i := 0; i < 8; i++ {
		pre = append(pre, []string{"SET", "fleet", "truck" + strconv.Itoa(i), "FIELD", "speed", strconv.Itoa(10 + i), "POINT", strconv.Itoa(30 + i), strconv.Itoa(-110 - i)})
	}
	pre = append(pre, []string{"SET", "notes", "n1", "STRING", "hello"}, []string{"SETCHAN", "warehouse", "NEARBY", "fleet", "FENCE", "POINT", "33", "-112", "1000"})
	L := mkLead(dir, "L", pre)
	defer L.close()
	var extra []string
	if noaof {
		extra = []string{"--appendonly", "no"}
	}
	f, _ := startOwnArgs(filepath.Join(dir, "follower"), ownPort(), extra...)
	defer func() { f.Kill() }()
	x.dist("fault:follower-oom")
	x.count(name, true)
	late := [][]string{{"SET", "fleet", "late0", "POINT", "10", "20"}, {"SET", "fleet", "late1", "FIELD", "speed", "7", "POINT", "11", "21"},
		{"FSET", "fleet", "truck1", "speed", "99"}, {"SET", "notes", "n2", "STRING", "world"}, {"DEL", "fleet", "truck2"},
		{"SET", "fleet", "late2", "POINT", "12", "22"}, {"FSET", "fleet", "late1", "speed", "8"}, {"DEL", "fleet", "late0"}}
	c := map[string]interface{}{"scenario": name, "follower_appendonly": !noaof, "leader_before": clipCmds(pre), "leader_while_follower_over_limit": clipCmds(late),
		"schedule": []string{"FOLLOW (through the proxy); caught up, datasets equal", "follower: CONFIG SET maxmemory 1kb", "leader acknowledges the late commands + SET __marker m2",
			"2 s later, for 2.5 s: whenever the follower answers caught_up=true and HEALTHZ OK its dump must equal the leader's", "follower: CONFIG SET maxmemory 0", "the follower must become a copy again"}}
	m1 := L.marker()
	followCmd(f, "127.0.0.1", strconv.Itoa(L.px.Port))
	if why := waitCopy2(L.s.Port, f.Port, m1, 15*time.Second, noaof); why != "" {
		x.fail(hx.Failure{Kind: "oracle", Signature: "never-caught-up:init=empty:small-log:follow", What: name + ": " + why, Case: c})
		return
	}
	fc := f.MustDial()
	defer fc.Close()
	if v := fc.MustDo("CONFIG", "SET", "maxmemory", "1kb"); v.IsErr() {
		panic("CONFIG SET maxmemory refused: " + v.String())
	}
	sesBefore := L.px.NumSessions()
	for _, cmd := range late {
		if v := L.c.MustDo(cmd...); v.IsErr() {
			panic(v.String())
		}
	}
	m2 := L.marker()
	// (a follower whose stream has just failed keeps its flag until follow() starts the next attempt a second later)
	time.Sleep(2 * time.Second)
	why, samples := sampleCopyOf(L.s.Port, f.Port, 2500*time.Millisecond)
	x.dist(fmt.Sprintf("follower-oom:claims-while-over-limit>=%d", min(samples, 3)))
	retried := L.px.NumSessions() > sesBefore
	if x.drv != nil {
		m := x.drv.Ask("stream_error", "errOOM")
		if (strings.HasPrefix(m, "fatal") || strings.HasPrefix(m, "skip")) && strings.HasPrefix(m, "fatal") != retried {
			x.fail(hx.Failure{Kind: "correspondence", Signature: "streamed-command-error:errOOM",
				What: "the model (the tolerated set read from commandErrIsFatal does not contain errOOM: the attempt fails at the first refused SET and the follower reconnects, c06t_local_error_fails_attempt) and the implementation disagree on what a follower over its maxmemory does with a streamed SET: no new AOF command reached the proxy within 4.5 s of the leader's writes",
				Case: c, Impl: fmt.Sprintf("follower reconnected: %v", retried), Model: m})
		}
	}
	if why != "" {
		x.fail(hx.Failure{Kind: "oracle", Signature: "follower-oom:caught-up-follower-not-a-copy",
			What: "the follower was over its own maxmemory (CONFIG SET maxmemory 1kb) while the leader acknowledged " + strconv.Itoa(len(late)+1) + " commands; leader quiescent for 2 s: " + why, Case: c})
		fc.MustDo("CONFIG", "SET", "maxmemory", "0")
		return
	}
	if v := fc.MustDo("CONFIG", "SET", "maxmemory", "0"); v.IsErr() {
		panic("CONFIG SET maxmemory 0 refused: " + v.String())
	}
	if why := waitCopy2(L.s.Port, f.Port, m2, 20*time.Second, noaof); why != "" {
		x.fail(hx.Failure{Kind: "oracle", Signature: "follower-oom:no-convergence-after-limit-lifted",
			What: "the follower's maxmemory limit was lifted (CONFIG SET maxmemory 0) after the leader had acknowledged " + strconv.Itoa(len(late)+1) + " commands while it was over the limit: " + why, Case: c})
		return
	}
	// later commands on the objects written during the pressure arrive too
	L.c.MustDo("FSET", "fleet", "late2", "speed", "5")
	L.c.MustDo("DEL", "fleet", "late1")
	m3 := L.marker()
	if why := waitCopy2(L.s.Port, f.Port, m3, 10*time.Second, noaof); why != "" {
		x.fail(hx.Failure{Kind: "oracle", Signature: "follower-oom:no-convergence-after-limit-lifted", What: "writes after the limit was lifted: " + why, Case: c})
		return
	}
	x.mu.Lock()
	x.r.TracesImpl++
	x.mu.Unlock()
}
