// A RESP-aware TCP proxy placed between the follower and the leader. It is the harness's only
// fault-injection and observation point on the replication link (no hook inside the server):
//   - it records every command the follower sends to the leader (SERVER, AOFMD5 pos size with the
//     leader's reply, REPLCONF, AOF pos), i.e. the probe sequence of followCheckSome and the resume
//     position the follower chose;
//   - it can kill every open connection (the "dropped replication connection" fault);
//   - it can hold the log stream after a chosen number of bytes so that the follower's caught_up /
//     HEALTHZ answers can be read while it provably lacks the tail of the leader's log.
package main

import (
	"bufio"
	"fmt"
	"io"
	"net"
	"strconv"
	"strings"
	"sync"
	"time"
)

type proxyCmd struct {
	Conn  int       `json:"conn"`
	Args  []string  `json:"args"`
	Reply string    `json:"reply"` // first 80 bytes of the leader's reply
	At    time.Time `json:"-"`
}

// session = one replication (re)connect: the connection on which the follower sent AOF <pos>
type session struct {
	Conn      int
	Accepted  time.Time // accept time of the streaming connection (followStep dials it first)
	Pos       int64     // the position requested with AOF
	LeaderSz  int64     // aof_size in the SERVER reply the follower saw on this connection
	Probes    [][3]string // AOFMD5 pos size -> reply ("EOF" or a digest), in order, since the previous session
	AofOK     bool
	StallAt   int64 // -1 none
	Stalled   chan struct{}
	Release   chan struct{}
	StallAt2  int64 // a second hold further down the stream (-1 none)
	Stalled2  chan struct{}
	Release2  chan struct{}
	Forwarded int64 // stream bytes forwarded (atomic under mu)
	Closed    bool
}

// park = one connection of the follower held at a chosen stage of the replication handshake
type park struct {
	Conn     int
	Stage    string    // what it is held at: "dial", "reject", or the command name it is held before (server, aofmd5, replconf, aof)
	Accepted time.Time // accept time of that connection
	Release  chan struct{}
}

type Proxy struct {
	ln     net.Listener
	Port   int
	target int

	mu       sync.Mutex
	conns    map[int]net.Conn
	accepted map[int]time.Time
	nextID   int
	cmds     []proxyCmd
	probes   [][3]string
	sessions []*session
	// plan is asked once per AOF command (pos, leader size seen by the follower); it returns the number of
	// stream bytes after which to hold the stream, or -1.
	plan   func(pos, leaderSz int64) int64
	plan2  func(pos, leaderSz int64) int64
	closed bool
	// parkAt: "" = relay normally; "dial" = accept and hold before anything is relayed; "reject" = accept and close;
	// otherwise a set of lower-case command names ("server", "aofmd5|aof", "replconf", "aof"): the first such command
	// of a connection is held before it is forwarded to the leader.
	parkAt string
	parks  []*park
}

func (p *Proxy) SetPark(stage string) {
	p.mu.Lock()
	p.parkAt = stage
	p.mu.Unlock()
}

// Parks returns the connections held (or rejected) so far.
func (p *Proxy) Parks() []*park {
	p.mu.Lock()
	defer p.mu.Unlock()
	return append([]*park{}, p.parks...)
}

func (p *Proxy) ReleaseParks() {
	p.mu.Lock()
	for _, k := range p.parks {
		select {
		case <-k.Release:
		default:
			close(k.Release)
		}
	}
	p.mu.Unlock()
}

// hold registers a park for connection id at stage and blocks until it is released (or 40 s passed).
func (p *Proxy) hold(id int, stage string) {
	k := &park{Conn: id, Stage: stage, Release: make(chan struct{})}
	p.mu.Lock()
	k.Accepted = p.accepted[id]
	p.parks = append(p.parks, k)
	p.mu.Unlock()
	select {
	case <-k.Release:
	case <-time.After(40 * time.Second):
	}
}

func (p *Proxy) parkStage() string {
	p.mu.Lock()
	defer p.mu.Unlock()
	return p.parkAt
}

func NewProxy(target int) (*Proxy, error) {
	ln, err := net.Listen("tcp", "127.0.0.1:0")
	if err != nil {
		return nil, err
	}
	p := &Proxy{ln: ln, Port: ln.Addr().(*net.TCPAddr).Port, target: target, conns: map[int]net.Conn{}, accepted: map[int]time.Time{}}
	go p.acceptLoop()
	return p, nil
}

func (p *Proxy) Close() {
	p.mu.Lock()
	p.closed = true
	p.mu.Unlock()
	p.ln.Close()
	p.KillAll()
	p.ReleaseAll()
}

func (p *Proxy) SetPlan(f func(pos, leaderSz int64) int64) {
	p.mu.Lock()
	p.plan = f
	p.plan2 = nil
	p.mu.Unlock()
}

func (p *Proxy) SetPlan2(f func(pos, leaderSz int64) int64) {
	p.mu.Lock()
	p.plan2 = f
	p.mu.Unlock()
}

func (p *Proxy) SetTarget(port int) {
	p.mu.Lock()
	p.target = port
	p.mu.Unlock()
}

// KillAll closes every proxied connection (both directions).
func (p *Proxy) KillAll() {
	p.mu.Lock()
	for id, c := range p.conns {
		c.Close()
		delete(p.conns, id)
	}
	p.mu.Unlock()
	p.ReleaseParks()
}

func (p *Proxy) ReleaseAll() {
	p.mu.Lock()
	for _, s := range p.sessions {
		select {
		case <-s.Release:
		default:
			close(s.Release)
		}
		select {
		case <-s.Release2:
		default:
			close(s.Release2)
		}
	}
	p.mu.Unlock()
}

// NumSessions returns how many AOF commands were seen so far.
func (p *Proxy) NumSessions() int {
	p.mu.Lock()
	defer p.mu.Unlock()
	return len(p.sessions)
}

func (p *Proxy) Session(i int) *session {
	p.mu.Lock()
	defer p.mu.Unlock()
	if i < len(p.sessions) {
		return p.sessions[i]
	}
	return nil
}

func (p *Proxy) forwarded(s *session) int64 {
	p.mu.Lock()
	defer p.mu.Unlock()
	return s.Forwarded
}

func (p *Proxy) acceptLoop() {
	for {
		c, err := p.ln.Accept()
		if err != nil {
			return
		}
		p.mu.Lock()
		if p.closed {
			p.mu.Unlock()
			c.Close()
			return
		}
		id := p.nextID
		p.nextID++
		p.conns[id*2] = c
		p.accepted[id] = time.Now()
		p.mu.Unlock()
		go p.serve(id, c)
	}
}

// readRaw reads one RESP value and returns its raw bytes.
func readRaw(r *bufio.Reader) ([]byte, error) {
	line, err := r.ReadBytes('\n')
	if err != nil {
		return nil, err
	}
	out := append([]byte{}, line...)
	if len(line) < 3 {
		return out, nil
	}
	switch line[0] {
	case '$':
		n, err := strconv.Atoi(strings.TrimSpace(string(line[1:])))
		if err != nil {
			return nil, fmt.Errorf("bad bulk length %q", line)
		}
		if n >= 0 {
			buf := make([]byte, n+2)
			if _, err := io.ReadFull(r, buf); err != nil {
				return nil, err
			}
			out = append(out, buf...)
		}
	case '*':
		n, err := strconv.Atoi(strings.TrimSpace(string(line[1:])))
		if err != nil {
			return nil, fmt.Errorf("bad array length %q", line)
		}
		for i := 0; i < n; i++ {
			e, err := readRaw(r)
			if err != nil {
				return nil, err
			}
			out = append(out, e...)
		}
	}
	return out, nil
}

// parseArgs decodes a RESP array of bulk strings.
func parseArgs(raw []byte) []string {
	r := bufio.NewReader(strings.NewReader(string(raw)))
	line, err := r.ReadString('\n')
	if err != nil || len(line) < 1 || line[0] != '*' {
		return []string{strings.TrimSpace(string(raw))}
	}
	n, _ := strconv.Atoi(strings.TrimSpace(line[1:]))
	var args []string
	for i := 0; i < n; i++ {
		l, err := r.ReadString('\n')
		if err != nil || len(l) < 1 || l[0] != '$' {
			break
		}
		m, _ := strconv.Atoi(strings.TrimSpace(l[1:]))
		buf := make([]byte, m+2)
		if _, err := io.ReadFull(r, buf); err != nil {
			break
		}
		args = append(args, string(buf[:m]))
	}
	return args
}

func aofSizeOfServerReply(raw []byte) int64 {
	args := parseArgs(raw)
	for i := 0; i+1 < len(args); i += 2 {
		if args[i] == "aof_size" {
			n, _ := strconv.ParseInt(args[i+1], 10, 64)
			return n
		}
	}
	return -1
}

func (p *Proxy) serve(id int, c net.Conn) {
	defer c.Close()
	switch p.parkStage() {
	case "reject":
		p.mu.Lock()
		p.parks = append(p.parks, &park{Conn: id, Stage: "reject", Accepted: p.accepted[id], Release: make(chan struct{})})
		p.mu.Unlock()
		return
	case "dial":
		p.hold(id, "dial")
	}
	parked := false
	p.mu.Lock()
	target := p.target
	p.mu.Unlock()
	u, err := net.DialTimeout("tcp", "127.0.0.1:"+strconv.Itoa(target), 2*time.Second)
	if err != nil {
		return
	}
	defer u.Close()
	if tc, ok := u.(*net.TCPConn); ok {
		tc.SetReadBuffer(16 << 10) // a held stream must push back on the leader quickly
	}
	p.mu.Lock()
	p.conns[id*2+1] = u
	p.mu.Unlock()
	cr := bufio.NewReaderSize(c, 1<<16)
	ur := bufio.NewReaderSize(u, 1<<16)
	leaderSz := int64(-1)
	for {
		raw, err := readRaw(cr)
		if err != nil {
			return
		}
		args := parseArgs(raw)
		if st := p.parkStage(); !parked && len(args) > 0 && st != "" && st != "dial" && st != "reject" {
			for _, want := range strings.Split(st, "|") {
				if strings.ToLower(args[0]) == want {
					parked = true
					p.hold(id, want)
					break
				}
			}
		}
		if _, err := u.Write(raw); err != nil {
			return
		}
		rep, err := readRaw(ur)
		if err != nil {
			return
		}
		name := ""
		if len(args) > 0 {
			name = strings.ToLower(args[0])
		}
		short := string(rep)
		if len(short) > 80 {
			short = short[:80]
		}
		short = strings.TrimRight(short, "\r\n")
		p.mu.Lock()
		p.cmds = append(p.cmds, proxyCmd{Conn: id, Args: args, Reply: short, At: time.Now()})
		var ses *session
		switch name {
		case "server":
			leaderSz = aofSizeOfServerReply(rep)
		case "aofmd5":
			if len(args) == 3 {
				r := strings.TrimPrefix(short, "+")
				if strings.HasPrefix(short, "-") {
					r = "EOF"
					if !strings.Contains(short, "EOF") {
						r = short
					}
				}
				p.probes = append(p.probes, [3]string{args[1], args[2], r})
			}
		case "aof":
			if len(args) == 2 && strings.HasPrefix(short, "+OK") {
				pos, _ := strconv.ParseInt(args[1], 10, 64)
				ses = &session{Conn: id, Accepted: p.accepted[id], Pos: pos, LeaderSz: leaderSz, Probes: p.probes, AofOK: true,
					StallAt: -1, Stalled: make(chan struct{}), Release: make(chan struct{}),
					StallAt2: -1, Stalled2: make(chan struct{}), Release2: make(chan struct{})}
				p.probes = nil
				if p.plan != nil {
					ses.StallAt = p.plan(pos, leaderSz)
				}
				if p.plan2 != nil {
					ses.StallAt2 = p.plan2(pos, leaderSz)
				}
				p.sessions = append(p.sessions, ses)
			}
		}
		p.mu.Unlock()
		if _, err := c.Write(rep); err != nil {
			return
		}
		if ses != nil {
			p.stream(ses, c, u, cr, ur)
			return
		}
	}
}

// stream forwards the leader's log stream to the follower, holding it once at ses.StallAt bytes.
func (p *Proxy) stream(ses *session, c, u net.Conn, cr, ur *bufio.Reader) {
	go func() {
		// anything the follower sends ends the stream on the leader's side too
		io.Copy(u, cr)
		u.Close()
		c.Close()
	}()
	defer func() {
		p.mu.Lock()
		ses.Closed = true
		p.mu.Unlock()
	}()
	buf := make([]byte, 1<<15)
	stalled, stalled2 := false, false
	for {
		n, err := ur.Read(buf)
		data := buf[:n]
		for len(data) > 0 {
			p.mu.Lock()
			fw := ses.Forwarded
			p.mu.Unlock()
			if ses.StallAt >= 0 && !stalled && fw+int64(len(data)) > ses.StallAt {
				k := ses.StallAt - fw
				if k > 0 {
					if _, err := c.Write(data[:k]); err != nil {
						return
					}
					p.mu.Lock()
					ses.Forwarded += k
					p.mu.Unlock()
					data = data[k:]
				}
				stalled = true
				close(ses.Stalled)
				select {
				case <-ses.Release:
				case <-time.After(30 * time.Second):
				}
				continue
			}
			if ses.StallAt2 >= 0 && !stalled2 && fw+int64(len(data)) > ses.StallAt2 {
				k := ses.StallAt2 - fw
				if k > 0 {
					if _, err := c.Write(data[:k]); err != nil {
						return
					}
					p.mu.Lock()
					ses.Forwarded += k
					p.mu.Unlock()
					data = data[k:]
				}
				stalled2 = true
				close(ses.Stalled2)
				select {
				case <-ses.Release2:
				case <-time.After(30 * time.Second):
				}
				continue
			}
			if _, err := c.Write(data); err != nil {
				return
			}
			p.mu.Lock()
			ses.Forwarded += int64(len(data))
			p.mu.Unlock()
			data = nil
		}
		if err != nil {
			return
		}
	}
}
