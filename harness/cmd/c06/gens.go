package main

// Follow generations (s.followc) and followers without a log (--appendonly no).
//
// Every FOLLOW that changes the leader bumps s.followc and starts a new follow() goroutine; the goroutine of the
// previous generation is not cancelled: it gives up at the next place where it compares its generation with
// s.followc. The model (coq/Model/FollowGen.v) makes the attempts of all generations explicit; its guarded steps are
// read off the source by t38x (coq/Gen/FollowSteps.v). The scenarios below drive the real servers through the
// schedules the theorems of coq/Props/C06gen.v talk about, with the proxy holding one generation's handshake while
// another FOLLOW is issued and completed.

import (
	"fmt"
	"path/filepath"
	"strconv"
	"strings"
	"time"

	"verifharness/internal/hx"
	"verifharness/internal/model"
	"verifharness/internal/srv"
)

type gLead struct {
	s  *srv.Server
	c  *srv.Conn
	px *Proxy
	n  int
}

func mkLead(dir, tag string, cmds [][]string) *gLead {
	s, _ := startOwn(filepath.Join(dir, "leader-"+tag), ownPort())
	c := s.MustDial()
	for _, cmd := range cmds {
		if v := c.MustDo(cmd...); v.IsErr() {
			panic(v.String())
		}
	}
	px, err := NewProxy(s.Port)
	if err != nil {
		panic(err)
	}
	return &gLead{s: s, c: c, px: px}
}

func (l *gLead) close() { l.px.Close(); l.c.Close(); l.s.Kill() }

func (l *gLead) marker() string {
	l.n++
	id := fmt.Sprintf("m%d", l.n)
	if v := l.c.MustDo("SET", "__marker", id, "STRING", id); v.IsErr() {
		panic(v.String())
	}
	return id
}

func followCmd(f *srv.Server, args ...string) {
	c := f.MustDial()
	defer c.Close()
	if v := c.MustDo(append([]string{"FOLLOW"}, args...)...); v.IsErr() {
		panic("FOLLOW refused: " + v.String())
	}
}

// waitPark waits for a connection held by px at the given stage that was accepted after `after`; earlier redials are
// dropped (the follower retries a second later).
func waitPark(px *Proxy, seen int, after time.Time, d time.Duration) *park {
	dl := time.Now().Add(d)
	for time.Now().Before(dl) {
		ps := px.Parks()
		for i := seen; i < len(ps); i++ {
			if ps[i].Accepted.After(after) {
				return ps[i]
			}
			seen = i + 1
			px.KillAll()
		}
		time.Sleep(10 * time.Millisecond)
	}
	return nil
}

// sampleCopyOf looks at the follower for d: whenever it answers caught_up=true and HEALTHZ OK its dump must be the
// dump of its (quiescent) leader. Returns "" or the first difference seen.
func sampleCopyOf(lport, fport int, d time.Duration) (string, int) {
	n := 0
	for dl := time.Now().Add(d); time.Now().Before(dl); time.Sleep(60 * time.Millisecond) {
		st := followerStatus(fport)
		if st.err != "" || !st.caughtUp || !st.healthz {
			continue
		}
		ld, e1 := dumpOf(lport)
		fd, e2 := dumpOf(fport)
		st2 := followerStatus(fport)
		if e1 != nil || e2 != nil || st2.err != "" || !st2.caughtUp || !st2.healthz {
			continue
		}
		n++
		if ld != fd {
			// once more: the leader is quiescent, so a difference that persists is not replication lag
			time.Sleep(150 * time.Millisecond)
			ld, _ = dumpOf(lport)
			fd, _ = dumpOf(fport)
			st3 := followerStatus(fport)
			if ld != fd && st3.err == "" && st3.caughtUp && st3.healthz {
				missing, extra := diffLines(ld, fd)
				return fmt.Sprintf("caught_up=true, HEALTHZ ok, aof_size %d (leader %d): only on the leader %q, only on the follower %q",
					st3.aofSize, aofSizeOf(lport), missing, extra), n
			}
		}
	}
	return "", n
}

// runStaleGeneration: follower F follows leader A and has caught up; the replication connection drops and the
// reconnect attempt of that generation is held by A's proxy inside the unlocked part of its handshake (at `stage`);
// the operator re-points F to leader B, F catches up with B; then the proxy lets A's answer through.
// Model: the held attempt is stale (its generation is below s.followc); its next step is followCheckSome, which is a
// guarded step: the stale attempt ends there and F's dataset, log and aof size are those of B's copy
// (c06g_stale_attempt_inert). Observable: no AOF command of the stale attempt reaches A, and F stays a copy of B.
func (x *ctx) runStaleGeneration(dir, stage string, noaof bool) {
	name := "corpus-stale-generation-held-at-" + stage
	if noaof {
		name += "-noaof"
	}
	defer func() {
		if e := recover(); e != nil {
			x.fail(hx.Failure{Kind: "oracle", Signature: "harness-panic", What: fmt.Sprintf("scenario %s: %v", name, e), Case: name})
		}
	}()
	A := mkLead(dir, "A", [][]string{{"SET", "fleet", "a1", "FIELD", "speed", "1", "POINT", "1", "1"}, {"SET", "fleet", "a2", "POINT", "2", "2"},
		{"SET", "onlyA", "x", "STRING", "A"}, {"SETCHAN", "chanA", "NEARBY", "fleet", "FENCE", "POINT", "1", "1", "100"}})
	defer A.close()
	B := mkLead(dir, "B", [][]string{{"SET", "fleet", "b1", "FIELD", "age", "9", "POINT", "5", "5"}, {"SET", "onlyB", "y", "STRING", "B"},
		{"SETHOOK", "hookB", "http://127.0.0.1:1/x", "NEARBY", "fleet", "FENCE", "POINT", "5", "5", "100"}, {"SET", "fleet", "a1", "POINT", "9", "9"}})
	defer B.close()
	var extra []string
	if noaof {
		extra = []string{"--appendonly", "no"}
	}
	f, _ := startOwnArgs(filepath.Join(dir, "follower"), ownPort(), extra...)
	defer func() { f.Kill() }()
	x.dist("fault:stale-generation:" + stage)
	x.count(name, true)
	c := map[string]interface{}{"scenario": name, "follower_appendonly": !noaof,
		"schedule": []string{"FOLLOW A (through proxy PA); caught up", "PA: hold the next connection before its " + strings.ToUpper(stage) + " is forwarded; kill the replication connections",
			"F's reconnect attempt (generation 1) is held", "FOLLOW B (through proxy PB); F catches up with B", "PA releases the held connection", "B acknowledges one more write"}}
	mA := A.marker()
	followCmd(f, "127.0.0.1", strconv.Itoa(A.px.Port))
	if why := waitCopy2(A.s.Port, f.Port, mA, 15*time.Second, noaof); why != "" {
		x.fail(hx.Failure{Kind: "oracle", Signature: "never-caught-up:init=empty:small-log:follow", What: name + ": " + why, Case: c})
		return
	}
	seen := len(A.px.Parks())
	A.px.SetPark(stage)
	A.px.KillAll()
	pk := waitPark(A.px, seen, time.Now().Add(-time.Hour), 12*time.Second)
	if pk == nil {
		x.dist("stale-generation-not-set-up")
		A.px.SetPark("")
		return
	}
	sesA := A.px.NumSessions()
	B.c.MustDo("SET", "fleet", "w", "POINT", "3", "3")
	mB := B.marker()
	followCmd(f, "127.0.0.1", strconv.Itoa(B.px.Port))
	if why := waitCopy2(B.s.Port, f.Port, mB, 15*time.Second, noaof); why != "" {
		x.fail(hx.Failure{Kind: "oracle", Signature: "repointed-follower-not-a-copy-of-current-leader",
			What: "FOLLOW A, then FOLLOW B while a reconnect attempt to A is held at stage " + stage + ": " + why, Case: c})
		A.px.SetPark("")
		A.px.ReleaseParks()
		return
	}
	A.px.SetPark("")
	A.px.ReleaseParks()
	// the stale attempt goes on from where it was held
	why, samples := sampleCopyOf(B.s.Port, f.Port, 2200*time.Millisecond)
	x.dist(fmt.Sprintf("stale-generation:samples-while-caught-up>=%d", min(samples, 5)))
	staleAof := A.px.NumSessions() > sesA
	if x.drv != nil {
		m := x.drv.Ask("stale_attempt", "proved", model.B(!noaof))
		// reply: "aof=<0|1> data=<kept|changed> caught_up=<0|1>"
		if strings.Contains(m, "aof=") && strings.Contains(m, "aof=1") != staleAof {
			x.fail(hx.Failure{Kind: "correspondence", Signature: "stale-generation:resume-step",
				What: "the model (followCheckSome is a guarded step: an attempt whose generation is below s.followc ends there, c06g_stale_attempt_inert) and the implementation disagree on whether the held reconnect attempt of the previous generation goes on to send AOF <pos> to its old leader after FOLLOW B was accepted",
				Case: c, Impl: fmt.Sprintf("AOF command of the stale attempt seen on A's proxy: %v", staleAof), Model: m})
		}
	}
	if why == "" {
		B.c.MustDo("SET", "fleet", "late", "POINT", "7", "7")
		m2 := B.marker()
		why = waitCopy2(B.s.Port, f.Port, m2, 12*time.Second, noaof)
	}
	if why != "" {
		x.fail(hx.Failure{Kind: "oracle", Signature: "stale-generation:follower-not-a-copy-of-current-leader",
			What: fmt.Sprintf("F followed A; its reconnect attempt to A was held at stage %q of the handshake; FOLLOW B was accepted and F became a copy of B (caught_up, HEALTHZ ok); then A's answer was let through: following=%s, %s",
				stage, followingOf(f.Port), why), Case: c})
		return
	}
	x.mu.Lock()
	x.r.TracesImpl++
	x.mu.Unlock()
}

// runStaleFlag (regression case of finding C06-stale-generation-raises-caught-up, fixed): the attempt of the previous
// generation is held AFTER followCheckSome (before its AOF command is forwarded). Its leader A has an empty log, so
// that attempt's own test `pos >= aofSize` holds. F is re-pointed to B and B's stream is held part-way; then A's AOF
// reply is let through. The caught-up flag is per server, not per generation: the stale attempt must end under the
// generation test before it writes it (model: GAof is a guarded step, c06g_stale_flag_inert; the code before the
// repair is pinned_cfg, c06g_stale_flag_pinned_refuted).
func (x *ctx) runStaleFlag(dir string) {
	name := "corpus-stale-generation-held-at-aof-empty-leader"
	defer func() {
		if e := recover(); e != nil {
			x.fail(hx.Failure{Kind: "oracle", Signature: "harness-panic", What: fmt.Sprintf("scenario %s: %v", name, e), Case: name})
		}
	}()
	A := mkLead(dir, "A", nil)
	defer A.close()
	B := mkLead(dir, "B", [][]string{{"SET", "fleet", "b1", "FIELD", "age", "9", "POINT", "5", "5"}, {"SET", "onlyB", "y", "STRING", "B"},
		{"SET", "fleet", "b2", "POINT", "6", "6"}, {"SET", "fleet", "b3", "POINT", "7", "7"}})
	defer B.close()
	f, _ := startOwn(filepath.Join(dir, "follower"), ownPort())
	defer func() { f.Kill() }()
	x.dist("fault:stale-generation:aof")
	x.count(name, true)
	c := map[string]interface{}{"scenario": name,
		"schedule": []string{"leader A has an empty log", "PA: hold the first AOF command", "FOLLOW A (through PA): generation 1 passes followCheckSome and is held before AOF 0 is forwarded",
			"PB: hold the stream after half of B's log", "FOLLOW B (through PB): generation 2 streams half of B's log", "PA releases: A answers +OK to AOF 0"}}
	A.px.SetPark("aof")
	t0 := time.Now()
	followCmd(f, "127.0.0.1", strconv.Itoa(A.px.Port))
	pk := waitPark(A.px, 0, t0, 10*time.Second)
	if pk == nil {
		x.dist("stale-flag-not-set-up")
		return
	}
	mB := B.marker()
	lsz := aofSizeOf(B.s.Port)
	B.px.SetPlan(func(pos, leaderSz int64) int64 {
		if pos >= lsz {
			return -1
		}
		return (lsz - pos) / 2
	})
	followCmd(f, "127.0.0.1", strconv.Itoa(B.px.Port))
	var ses *session
	for i := 0; i < 1000 && ses == nil; i++ {
		ses = B.px.Session(0)
		time.Sleep(10 * time.Millisecond)
	}
	if ses == nil || ses.StallAt < 0 {
		x.dist("stale-flag-not-set-up")
		return
	}
	select {
	case <-ses.Stalled:
	case <-time.After(10 * time.Second):
		x.dist("stale-flag-not-set-up")
		return
	}
	before := followerStatus(f.Port)
	A.px.SetPark("")
	A.px.ReleaseParks()
	bad := false
	for i := 0; i < 12 && !bad; i++ {
		time.Sleep(50 * time.Millisecond)
		st := followerStatus(f.Port)
		if st.err == "" && (st.caughtUp || st.healthz) {
			if has, why := hasMarker(f.Port, mB); has == 0 {
				bad = true
				x.fail(hx.Failure{Kind: "oracle", Signature: "stale-generation-raises-caught-up",
					What: fmt.Sprintf("F is following B (SERVER following=%s) and has been handed %d of the %d bytes of B's log (stream held; caught_up=%v HEALTHZ ok=%v before the release); the AOF reply of the empty leader A to the attempt of the PREVIOUS follow generation is let through: F answers caught_up=%v HEALTHZ ok=%v although GET __marker %s -> %s",
						followingOf(f.Port), ses.StallAt, lsz, before.caughtUp, before.healthz, st.caughtUp, st.healthz, mB, why), Case: c})
			}
		}
	}
	if x.drv != nil {
		// model: "before=<0|1> after=<0|1>" = the flag before / after the stale attempt's AOF reply
		if m := x.drv.Ask("stale_flag", "proved"); strings.Contains(m, "after=") && strings.Contains(m, "after=1") != bad {
			x.fail(hx.Failure{Kind: "correspondence", Signature: "stale-generation:flag",
				What: "the model (GAof of a stale attempt is a guarded step, c06g_stale_flag_inert) and the implementation disagree on the caught-up flag after the AOF reply to an attempt of the previous follow generation",
				Case: c, Impl: fmt.Sprintf("flag raised while the current generation lacks the marker: %v", bad), Model: m})
		}
	}
	close(ses.Release)
	if why := waitCopy(B.s.Port, f.Port, mB, 12*time.Second); why != "" {
		x.fail(hx.Failure{Kind: "oracle", Signature: "repointed-follower-not-a-copy-of-current-leader", What: name + ": " + why, Case: c})
		return
	}
	if !bad {
		x.mu.Lock()
		x.r.TracesImpl++
		x.mu.Unlock()
	}
}

// runCheckThenShrink: followCheckSome verifies the resume position against the leader's log on a connection of its
// own; AOF <pos> is sent afterwards on the first connection. The proxy holds that AOF command while the leader
// completes an AOFSHRINK (which closes the registered replication connections only). The position is then applied to
// another file. The logs are built so that the position is a record boundary of the shrunk log too.
func (x *ctx) runCheckThenShrink(dir string) {
	name := "corpus-leader-shrink-between-check-and-aof"
	defer func() {
		if e := recover(); e != nil {
			x.fail(hx.Failure{Kind: "oracle", Signature: "harness-panic", What: fmt.Sprintf("scenario %s: %v", name, e), Case: name})
		}
	}()
	val := func(ch string) string { return strings.Repeat(ch, 300<<10) }
	A := mkLead(dir, "A", [][]string{{"SET", "big", "a", "STRING", val("a")}, {"SET", "big", "b", "STRING", val("b")}})
	defer A.close()
	f, _ := startOwn(filepath.Join(dir, "follower"), ownPort())
	defer func() { f.Kill() }()
	x.dist("fault:shrink-between-check-and-aof")
	x.count(name, true)
	c := map[string]interface{}{"scenario": name,
		"schedule": []string{"leader: SET big a STRING <300 KiB of 'a'>; SET big b STRING <300 KiB of 'b'>", "FOLLOW (through the proxy); caught up",
			"proxy: hold the next AOF command; kill the replication connections", "leader: SET big a STRING <300 KiB of 'c'>",
			"F reconnects: followCheckSome keeps its 2 records (resume position = their size); AOF <pos> is held", "leader: AOFSHRINK (completes)", "proxy releases AOF <pos>",
			"leader: SET big d STRING <300 KiB of 'd'>; SET __marker ..."}}
	followCmd(f, "127.0.0.1", strconv.Itoa(A.px.Port))
	// (no marker yet: the log must consist of the two records only)
	ok := false
	for dl := time.Now().Add(15 * time.Second); time.Now().Before(dl) && !ok; time.Sleep(30 * time.Millisecond) {
		st := followerStatus(f.Port)
		ok = st.err == "" && st.caughtUp && st.aofSize == aofSizeOf(A.s.Port)
	}
	if !ok {
		x.dist("check-then-shrink-not-set-up")
		return
	}
	pos := aofSizeOf(f.Port)
	seen := len(A.px.Parks())
	A.px.SetPark("aof")
	A.px.KillAll()
	A.c.MustDo("SET", "big", "a", "STRING", val("c"))
	acked := time.Now()
	pk := waitPark(A.px, seen, acked, 15*time.Second)
	if pk == nil {
		x.dist("check-then-shrink-not-set-up")
		A.px.SetPark("")
		return
	}
	n0 := countShrinkEnded(A.s)
	A.c.MustDo("AOFSHRINK")
	for i := 0; i < 1000 && countShrinkEnded(A.s) == n0; i++ {
		time.Sleep(10 * time.Millisecond)
	}
	shrunk := aofSizeOf(A.s.Port)
	sesBefore := A.px.NumSessions()
	A.px.SetPark("")
	A.px.ReleaseParks()
	var ses *session
	for i := 0; i < 300 && ses == nil; i++ {
		ses = A.px.Session(sesBefore)
		time.Sleep(10 * time.Millisecond)
	}
	x.dist(fmt.Sprintf("check-then-shrink:pos=%d:shrunk=%d:aof-accepted=%v", pos, shrunk, ses != nil))
	A.c.MustDo("SET", "big", "d", "STRING", val("d"))
	m := A.marker()
	if why := waitCopy(A.s.Port, f.Port, m, 15*time.Second); why != "" {
		sig := "shrink-between-check-and-aof:follower-not-a-copy"
		x.fail(hx.Failure{Kind: "oracle", Signature: sig,
			What: fmt.Sprintf("the follower verified resume position %d against the leader's log, the leader completed AOFSHRINK (log now %d bytes) before the follower's AOF %d was delivered (accepted: %v), then acknowledged 2 more writes: %s",
				pos, shrunk, pos, ses != nil, why), Case: c})
		return
	}
	x.mu.Lock()
	x.r.TracesImpl++
	x.mu.Unlock()
}
