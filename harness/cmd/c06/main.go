// C06 harness: "a caught-up follower is an exact copy of its leader".
//
// Every scenario owns a real leader, a real follower and a RESP-aware proxy between them (proxy.go).
// Direct oracles (implementation only):
//   - convergence: once the follower reports caught_up/HEALTHZ ok and the leader is quiescent, the dumps of both
//     servers (collections, objects, fields, has-deadline, hooks, channels) and their aof_size are equal;
//   - never caught-up while lacking acknowledged commands: after the leader acknowledged its writes (the last one is a
//     fresh marker object) and the follower (re)connected, whenever the follower answers caught_up=true / HEALTHZ ok a
//     GET of the marker on the follower must succeed. The proxy holds the log stream part-way so that this is looked
//     at while the follower provably lacks the tail.
// Correspondence: the resume decision of followCheckSome (the AOFMD5 probe sequence and the position sent with AOF,
// both read off the proxy) is compared with the extracted Coq model's check_some on the same (follower file, leader file).
package main

import (
	"bytes"
	"crypto/md5"
	"fmt"
	"math/rand"
	"net"
	"os"
	"path/filepath"
	"sort"
	"strconv"
	"strings"
	"sync"
	"syscall"
	"time"

	"verifharness/internal/hx"
	"verifharness/internal/model"
	"verifharness/internal/srv"
)

const checksumsz = 512 * 1024

func main() { hx.Main("C06", runC06) }

type ctx struct {
	mu  sync.Mutex
	r   *hx.Result
	drv *model.Driver
	cfg hx.Config
}

func (x *ctx) fail(f hx.Failure) { x.mu.Lock(); x.r.Fail(f); x.mu.Unlock() }
func (x *ctx) dist(k string)     { x.mu.Lock(); x.r.Dist(k); x.mu.Unlock() }
func (x *ctx) count(k string, nt bool) {
	x.mu.Lock()
	x.r.Count(k, nt)
	x.mu.Unlock()
}

// ---- small helpers ----

// splitRecords cuts an AOF byte string into RESP command records (complete ones only).
func splitRecords(b []byte) [][]byte {
	var out [][]byte
	i := 0
	for i < len(b) {
		st := i
		if b[i] != '*' {
			return out
		}
		j := bytes.Index(b[i:], []byte("\r\n"))
		if j < 0 {
			return out
		}
		n, err := strconv.Atoi(string(b[i+1 : i+j]))
		if err != nil {
			return out
		}
		i += j + 2
		ok := true
		for k := 0; k < n; k++ {
			if i >= len(b) || b[i] != '$' {
				ok = false
				break
			}
			j := bytes.Index(b[i:], []byte("\r\n"))
			if j < 0 {
				ok = false
				break
			}
			m, err := strconv.Atoi(string(b[i+1 : i+j]))
			if err != nil || i+j+2+m+2 > len(b) {
				ok = false
				break
			}
			i += j + 2 + m + 2
		}
		if !ok {
			return out
		}
		out = append(out, b[st:i])
	}
	return out
}

type status struct {
	caughtUp, once, healthz bool
	aofSize                 int64
	err                     string
}

func serverMap(c *srv.Conn) (map[string]string, error) {
	v, err := c.Do("SERVER")
	if err != nil {
		return nil, err
	}
	m := map[string]string{}
	if v.Kind != '*' {
		return nil, fmt.Errorf("SERVER answered %s", v.String())
	}
	for i := 0; i+1 < len(v.Array); i += 2 {
		e := v.Array[i+1]
		s := e.Str
		if e.Kind == ':' {
			s = strconv.FormatInt(e.Int, 10)
		}
		m[v.Array[i].Str] = s
	}
	return m, nil
}

func followerStatus(port int) status {
	c, err := srv.Dial(port)
	if err != nil {
		return status{err: err.Error()}
	}
	defer c.Close()
	c.Timeout = 5 * time.Second
	var st status
	h, err := c.Do("HEALTHZ")
	if err != nil {
		return status{err: err.Error()}
	}
	st.healthz = h.Kind == '+' && h.Str == "OK"
	st.aofSize = -1
	// SERVER is refused ("catching up to leader") until the follower has caught up once
	if m, err := serverMap(c); err == nil {
		st.caughtUp = m["caught_up"] == "true"
		st.once = m["caught_up_once"] == "true"
		st.aofSize, _ = strconv.ParseInt(m["aof_size"], 10, 64)
	} else if !strings.Contains(err.Error(), "catching up") {
		return status{err: err.Error()}
	}
	return st
}

func aofSizeOf(port int) int64 {
	c, err := srv.Dial(port)
	if err != nil {
		return -1
	}
	defer c.Close()
	m, err := serverMap(c)
	if err != nil {
		return -1
	}
	n, _ := strconv.ParseInt(m["aof_size"], 10, 64)
	return n
}

// hasMarker: 1 present, 0 absent, -1 cannot tell (gated / transport error)
func hasMarker(port int, id string) (int, string) {
	c, err := srv.Dial(port)
	if err != nil {
		return -1, err.Error()
	}
	defer c.Close()
	c.Timeout = 5 * time.Second
	v, err := c.Do("GET", "__marker", id)
	if err != nil {
		return -1, err.Error()
	}
	if v.Kind == '$' {
		return 1, v.String()
	}
	if v.Kind == 'n' || (v.Kind == '-' && (strings.Contains(v.Str, "not found"))) {
		return 0, v.String()
	}
	return -1, v.String()
}

func dumpOf(port int) (s string, err error) {
	defer func() {
		if e := recover(); e != nil {
			err = fmt.Errorf("%v", e)
		}
	}()
	c, e := srv.Dial(port)
	if e != nil {
		return "", e
	}
	defer c.Close()
	return srv.Dump(c), nil
}

func diffLines(leader, follower string) (missing, extra []string) {
	l := map[string]bool{}
	f := map[string]bool{}
	for _, x := range strings.Split(leader, "\n") {
		l[x] = true
	}
	for _, x := range strings.Split(follower, "\n") {
		f[x] = true
	}
	for x := range l {
		if !f[x] {
			missing = append(missing, x)
		}
	}
	for x := range f {
		if !l[x] {
			extra = append(extra, x)
		}
	}
	sort.Strings(missing)
	sort.Strings(extra)
	clip := func(xs []string) []string {
		if len(xs) > 6 {
			xs = xs[:6]
		}
		for i := range xs {
			if len(xs[i]) > 160 {
				xs[i] = xs[i][:160] + "..."
			}
		}
		return xs
	}
	return clip(missing), clip(extra)
}

func clipCmds(cs [][]string) [][]string {
	out := make([][]string, 0, len(cs))
	for _, c := range cs {
		d := make([]string, len(c))
		for i, a := range c {
			if len(a) > 60 {
				a = a[:40] + fmt.Sprintf("...(%d bytes)", len(a))
			}
			d[i] = a
		}
		out = append(out, d)
	}
	return out
}

func caseOf(sc Scenario, step int) map[string]interface{} {
	c := map[string]interface{}{"scenario": sc.Name, "init": sc.Init, "large": sc.Large, "prefix_cut": sc.PrefixCut,
		"pre": clipCmds(sc.Pre), "unrelated": clipCmds(sc.Unrelated), "failed_at_step": step, "follower_appendonly": !sc.NoAOF}
	var steps []map[string]interface{}
	for i, s := range sc.Steps {
		if i > step {
			break
		}
		steps = append(steps, map[string]interface{}{"fault": s.Fault, "writes": clipCmds(s.Writes), "stall": s.Stall})
	}
	c["steps"] = steps
	return c
}

func sizeClass(sc Scenario) string {
	if sc.Large {
		return "large-log"
	}
	return "small-log"
}

func countShrinkEnded(s *srv.Server) int {
	b, _ := os.ReadFile(s.LogF)
	return bytes.Count(b, []byte("aof shrink ended")) + bytes.Count(b, []byte("aof shrink failed"))
}

// ownPort hands out ports below the ephemeral range (which srv.FreePort and every outgoing connection on this machine
// draw from), so that a port cannot be grabbed by somebody else between a follower's stop and its restart.
var portMu sync.Mutex
var nextPort = 11000 + (os.Getpid()*7)%9000

func ownPort() int {
	portMu.Lock()
	defer portMu.Unlock()
	for i := 0; i < 20000; i++ {
		nextPort++
		if nextPort >= 30000 {
			nextPort = 11000
		}
		l, err := net.Listen("tcp", "127.0.0.1:"+strconv.Itoa(nextPort))
		if err == nil {
			l.Close()
			return nextPort
		}
	}
	return srv.FreePort()
}

// startOwn starts a server on dir and makes sure the process answering on the port is the one just started (ports
// are picked by "was free a moment ago"; other harnesses run on the same machine). A different port is tried otherwise.
func startOwn(dir string, port int) (*srv.Server, int) { return startOwnArgs(dir, port) }

func startOwnArgs(dir string, port int, extra ...string) (*srv.Server, int) {
	var lastErr error
	for try := 0; try < 6; try++ {
		s, err := srv.StartPort(dir, port, extra...)
		if err == nil {
			time.Sleep(30 * time.Millisecond)
			if c, e := s.Dial(); e == nil {
				m, e := serverMap(c)
				c.Close()
				if s.Alive() && ((e == nil && m["pid"] == strconv.Itoa(s.Cmd.Process.Pid)) || (e != nil && strings.Contains(e.Error(), "catching up"))) {
					return s, port // (SERVER is refused on a follower that has not caught up yet)
				}
				lastErr = fmt.Errorf("server map: %v pid=%q map=%v", e, m["pid"], m)
			}
			err = fmt.Errorf("port %d is answered by another process (alive=%v pid=%d)", port, s.Alive(), s.Cmd.Process.Pid)
		}
		lastErr = fmt.Errorf("%v / %v", err, lastErr)
		if s != nil {
			s.Kill()
		}
		port = ownPort()
	}
	panic(fmt.Sprintf("cannot start a server on %s: %v", dir, lastErr))
}

// the follower logs "reloading aof commands" when followCheckSome cuts its file and reloads (the only trace of that
// decision besides the position it then asks for)
func countTruncations(s *srv.Server) int {
	b, _ := os.ReadFile(s.LogF)
	return bytes.Count(b, []byte("reloading aof commands"))
}

func lastTruncation(s *srv.Server, before int) int64 {
	if countTruncations(s) <= before {
		return -1
	}
	return 1
}

// ---- one scenario ----

func (x *ctx) runScenario(sc Scenario, dir string) {
	defer func() {
		if e := recover(); e != nil {
			x.fail(hx.Failure{Kind: "oracle", Signature: "harness-panic", What: fmt.Sprintf("scenario %s: %v", sc.Name, e), Case: caseOf(sc, len(sc.Steps))})
		}
	}()
	leader, _ := startOwn(filepath.Join(dir, "leader"), ownPort())
	defer func() { leader.Kill() }()
	lc := leader.MustDial()
	defer func() { lc.Close() }()
	updating := 0
	doLeader := func(cmds [][]string) {
		for _, c := range cmds {
			v := lc.MustDo(c...)
			if !v.IsErr() {
				updating++
			}
		}
	}
	markerN := 0
	newMarker := func() string {
		markerN++
		id := "m" + strconv.Itoa(markerN)
		if v := lc.MustDo("SET", "__marker", id, "STRING", id); v.IsErr() {
			panic("marker write refused: " + v.String())
		}
		return id
	}
	doLeader(sc.Pre)
	if sc.Init == "boundary" {
		// pad the leader's log so that a record ends exactly at byte checksumsz, then go on writing
		sz := int(aofSizeOf(leader.Port))
		for n := checksumsz - sz; n > 0; n-- {
			rec := srv.Encode("SET", "big", "pad", "STRING", strings.Repeat("p", n))
			if sz+len(rec) == checksumsz {
				doLeader([][]string{{"SET", "big", "pad", "STRING", strings.Repeat("p", n)}})
				break
			}
			if sz+len(rec) < checksumsz {
				panic("cannot pad to the block boundary")
			}
		}
		if aofSizeOf(leader.Port) != checksumsz {
			panic(fmt.Sprintf("padding missed the block boundary: aof_size %d", aofSizeOf(leader.Port)))
		}
		doLeader(sc.Post)
	}
	marker := newMarker()
	px, err := NewProxy(leader.Port)
	if err != nil {
		panic(err)
	}
	defer px.Close()
	leaderAOF := filepath.Join(leader.Dir, "appendonly.aof")
	fdir := filepath.Join(dir, "follower")
	fAOF := filepath.Join(fdir, "appendonly.aof")
	os.MkdirAll(fdir, 0o755)

	// ---- initial follower state ----
	lbytes, _ := os.ReadFile(leaderAOF)
	switch sc.Init {
	case "prefix", "diverged", "boundary":
		recs := splitRecords(lbytes)
		cut := int(sc.PrefixCut * float64(len(recs)))
		if cut > len(recs) {
			cut = len(recs)
		}
		var pre []byte
		for i := 0; i < len(recs); i++ {
			if i >= cut && !(sc.Large && len(pre) < checksumsz+1000) {
				break
			}
			pre = append(pre, recs[i]...)
		}
		os.WriteFile(fAOF, pre, 0o600)
	case "midflip":
		fb := append([]byte{}, lbytes...)
		// change one payload byte in the second 512 KiB block: same length, different content
		for i := checksumsz + checksumsz/2; i < len(fb) && i < 2*checksumsz; i++ {
			if fb[i] >= '0' && fb[i] <= '8' && fb[i-1] >= '0' && fb[i-1] <= '9' && fb[i+1] >= '0' && fb[i+1] <= '9' && fb[i-2] != '$' && fb[i-3] != '$' && fb[i-4] != '$' && fb[i-5] != '$' && fb[i-6] != '$' {
				fb[i]++
				break
			}
		}
		os.WriteFile(fAOF, fb, 0o600)
	}
	var fargs []string
	if sc.NoAOF {
		// a follower without a log (cache-only replica): s.aof is nil, aofsz stays 0, every (re)connect starts over
		fargs = []string{"--appendonly", "no"}
		if sc.Init != "empty" && sc.Init != "unrelated" {
			panic("a follower without a log cannot start from a log: init=" + sc.Init)
		}
	}
	follower, fport := startOwnArgs(fdir, ownPort(), fargs...)
	defer func() { follower.Kill() }()
	if sc.Init == "unrelated" || sc.Init == "diverged" {
		c := follower.MustDial()
		cmds := sc.Unrelated
		if sc.Init == "diverged" {
			cmds = [][]string{{"SET", "stale", "x", "POINT", "1", "1"}, {"SET", "big", "D0", "STRING", strings.Repeat("diverged ", 3000)}}
		}
		for _, cmd := range cmds {
			c.MustDo(cmd...)
		}
		c.Close()
	}

	for si, st := range sc.Steps {
		x.dist("fault:" + st.Fault)
		sig := func(class string) string {
			s := class + ":init=" + sc.Init + ":" + sizeClass(sc) + ":" + st.Fault
			if sc.NoAOF {
				s += ":noaof"
			}
			return s
		}
		nBefore := px.NumSessions()
		truncBefore := countTruncations(follower)
		var planMu sync.Mutex
		ackedSize := int64(-1)
		px.SetPlan(func(pos, leaderSz int64) int64 {
			planMu.Lock()
			defer planMu.Unlock()
			if st.Stall < 0 || ackedSize < 0 || pos >= ackedSize {
				return -1
			}
			return int64(st.Stall * float64(ackedSize-pos))
		})
		setAcked := func() (int64, time.Time) {
			n := aofSizeOf(leader.Port)
			planMu.Lock()
			ackedSize = n
			planMu.Unlock()
			return n, time.Now()
		}
		expectReconnect := true
		var ackDone time.Time
		var lsize int64
		var fsnap []byte
		fsnapOK := false
		switch st.Fault {
		case "follow":
			lsize, ackDone = setAcked()
			fsnap, _ = os.ReadFile(fAOF)
			fsnapOK = aofSizeOf(follower.Port) == int64(len(fsnap))
			c := follower.MustDial()
			if v := c.MustDo("FOLLOW", "127.0.0.1", strconv.Itoa(px.Port)); v.IsErr() {
				panic("FOLLOW refused: " + v.String())
			}
			c.Close()
		case "restart-kill", "restart-term":
			if st.Fault == "restart-kill" {
				follower.Kill()
			} else {
				follower.Signal(syscall.SIGTERM)
				if !follower.WaitExit(3 * time.Second) {
					x.dist("sigterm-took-over-3s")
					follower.Kill()
				}
			}
			px.KillAll()
			doLeader(st.Writes)
			marker = newMarker()
			lsize, ackDone = setAcked()
			fsnap, _ = os.ReadFile(fAOF)
			fsnapOK = true
			follower, fport = startOwnArgs(fdir, fport, fargs...)
		case "killconn":
			px.KillAll()
			doLeader(st.Writes)
			marker = newMarker()
			lsize, ackDone = setAcked()
			fsnap, _ = os.ReadFile(fAOF)
			fsnapOK = aofSizeOf(follower.Port) == int64(len(fsnap))
		case "shrink":
			doLeader(st.Writes)
			n0 := countShrinkEnded(leader)
			lc.MustDo("AOFSHRINK")
			for i := 0; i < 800 && countShrinkEnded(leader) == n0; i++ {
				time.Sleep(10 * time.Millisecond)
			}
			marker = newMarker()
			lsize, ackDone = setAcked()
			fsnap, _ = os.ReadFile(fAOF)
			fsnapOK = aofSizeOf(follower.Port) == int64(len(fsnap))
		case "offline-shrink":
			// the follower is cut off (its redials are refused) while the leader acknowledges writes and then rewrites its
			// log: what was deleted meanwhile is in no log any more; only a follower that starts from nothing (or from a
			// verified prefix of the NEW log) ends up without it
			px.SetPark("reject")
			px.KillAll()
			doLeader(st.Writes)
			n0 := countShrinkEnded(leader)
			lc.MustDo("AOFSHRINK")
			for i := 0; i < 800 && countShrinkEnded(leader) == n0; i++ {
				time.Sleep(10 * time.Millisecond)
			}
			marker = newMarker()
			lsize, ackDone = setAcked()
			fsnap, _ = os.ReadFile(fAOF)
			fsnapOK = aofSizeOf(follower.Port) == int64(len(fsnap))
			px.SetPark("")
		case "stall-dial", "stall-reject", "stall-server", "stall-md5", "stall-replconf", "stall-aof":
			stage := map[string]string{"stall-dial": "dial", "stall-reject": "reject", "stall-server": "server",
				"stall-md5": "aofmd5|aof", "stall-replconf": "replconf", "stall-aof": "aof"}[st.Fault]
			prev := followerStatus(follower.Port)
			parksBefore := len(px.Parks())
			px.SetPark(stage)
			px.KillAll()
			doLeader(st.Writes)
			marker = newMarker()
			lsize, ackDone = setAcked()
			fsnap, _ = os.ReadFile(fAOF)
			fsnapOK = aofSizeOf(follower.Port) == int64(len(fsnap))
			bad := x.sampleStalledHandshake(sc, si, st, px, follower, parksBefore, ackDone, prev.caughtUp, marker, sig)
			px.SetPark("")
			px.ReleaseParks()
			if bad {
				return
			}
		case "leader-restart", "leader-lost-tail":
			// the leader process dies (SIGKILL) and comes back on the same directory; with lost-tail its log has lost
			// its last records meanwhile (a crash of the machine rather than of the process): the follower is then
			// AHEAD of its leader and has to give up what the leader no longer has. Reconnect attempts are refused until
			// the leader has acknowledged the new writes.
			px.SetPark("reject")
			lc.Close()
			leader.Kill()
			px.KillAll()
			if st.Fault == "leader-lost-tail" {
				lb, _ := os.ReadFile(leaderAOF)
				recs := splitRecords(lb)
				drop := 1 + si%3
				if drop > len(recs) {
					drop = len(recs)
				}
				keep := 0
				for _, r := range recs[:len(recs)-drop] {
					keep += len(r)
				}
				if si%2 == 1 && keep+7 < len(lb) {
					keep += 7 // torn tail: loadAOF of the leader cuts it off
				}
				os.Truncate(leaderAOF, int64(keep))
				x.dist(fmt.Sprintf("leader-lost-records:%d", drop))
			}
			var lport int
			leader, lport = startOwn(leader.Dir, leader.Port)
			px.SetTarget(lport)
			lc = leader.MustDial()
			doLeader(st.Writes)
			marker = newMarker()
			lsize, ackDone = setAcked()
			fsnap, _ = os.ReadFile(fAOF)
			fsnapOK = aofSizeOf(follower.Port) == int64(len(fsnap))
			px.SetPark("")
		case "pause":
			expectReconnect = false
			follower.Signal(syscall.SIGSTOP)
			doLeader(st.Writes)
			marker = newMarker()
			lsize, ackDone = setAcked()
			time.Sleep(time.Duration(50+si*20) * time.Millisecond)
			follower.Signal(syscall.SIGCONT)
		}
		key := fmt.Sprintf("%s/%d/%s/%d", sc.Name, si, st.Fault, lsize)
		x.count(key, updating > 0)

		checkPremature := func(when string, ses *session) bool {
			stt := followerStatus(follower.Port)
			if stt.err != "" || !(stt.caughtUp || stt.healthz) {
				return false
			}
			has, why := hasMarker(follower.Port, marker)
			if has == 0 {
				x.fail(hx.Failure{Kind: "oracle", Signature: sig("premature-caught-up"),
					What: fmt.Sprintf("%s: the follower answers caught_up=%v HEALTHZ ok=%v (aof_size %d, resumed at %d, %d stream bytes delivered, leader aof_size %d) but lacks the object __marker %s the leader acknowledged before this (re)connect (GET -> %s)",
						when, stt.caughtUp, stt.healthz, stt.aofSize, ses.Pos, px.forwarded(ses), lsize, marker, why),
					Case: caseOf(sc, si)})
				return true
			}
			return false
		}

		var ses *session
		valid := false
		if expectReconnect {
			dl := time.Now().Add(25 * time.Second)
			for time.Now().Before(dl) {
				if ses = px.Session(nBefore); ses != nil {
					break
				}
				time.Sleep(10 * time.Millisecond)
			}
			if ses == nil {
				x.fail(hx.Failure{Kind: "oracle", Signature: sig("never-reconnected"), What: "the follower did not start a replication stream (AOF command) within 25 s; follower log tail: " + follower.LogTail(500), Case: caseOf(sc, si)})
				return
			}
			valid = ses.Accepted.After(ackDone)
			if !valid {
				x.dist("reconnect-before-acks")
			}
			if valid && fsnapOK {
				lnow, _ := os.ReadFile(leaderAOF)
				if int64(len(lnow)) == lsize {
					x.correspond(sc, si, st, ses, fsnap, lnow, lastTruncation(follower, truncBefore))
				} else {
					x.dist("corr-skipped-leader-file-not-at-aofsize")
				}
			} else if valid {
				x.dist("corr-skipped-follower-file-not-flushed:" + st.Fault)
			}
			if ses.StallAt >= 0 {
				select {
				case <-ses.Stalled:
					x.dist("stalled")
					bad := false
					for i := 0; i < 4 && !bad && valid; i++ {
						time.Sleep(25 * time.Millisecond)
						bad = checkPremature(fmt.Sprintf("stream held after %d of %d outstanding bytes", ses.StallAt, lsize-ses.Pos), ses)
					}
					close(ses.Release)
					if bad {
						return
					}
				case <-time.After(10 * time.Second):
					x.dist("stall-not-reached")
					px.ReleaseAll()
				}
			}
		}
		// ---- wait for caught-up + marker ----
		dl := time.Now().Add(25 * time.Second)
		ok := false
		var last status
		for time.Now().Before(dl) {
			last = followerStatus(follower.Port)
			if last.err == "" && last.caughtUp && last.healthz {
				has, _ := hasMarker(follower.Port, marker)
				if has == 1 {
					ok = true
					break
				}
				if has == 0 && valid && ses != nil {
					if checkPremature("while waiting for convergence", ses) {
						return
					}
				}
			}
			time.Sleep(20 * time.Millisecond)
		}
		if !ok {
			x.fail(hx.Failure{Kind: "oracle", Signature: sig("never-caught-up"),
				What: fmt.Sprintf("25 s after the fault the follower still does not report caught_up with the last acknowledged object present (caught_up=%v healthz=%v aof_size=%d err=%q; leader aof_size %d); follower log tail: %s",
					last.caughtUp, last.healthz, last.aofSize, last.err, lsize, follower.LogTail(400)), Case: caseOf(sc, si)})
			return
		}
		// ---- quiescent leader + caught-up follower: the datasets must be equal ----
		var ld, fd string
		eq := false
		dl = time.Now().Add(4 * time.Second)
		for {
			var e1, e2 error
			ld, e1 = dumpOf(leader.Port)
			fd, e2 = dumpOf(follower.Port)
			if e1 == nil && e2 == nil && ld == fd {
				eq = true
				break
			}
			if time.Now().After(dl) {
				break
			}
			time.Sleep(100 * time.Millisecond)
		}
		if !eq {
			missing, extra := diffLines(ld, fd)
			class := "dataset-differs"
			if len(missing) == 0 {
				class = "stale-data-survives"
			}
			x.fail(hx.Failure{Kind: "oracle", Signature: sig(class),
				What: fmt.Sprintf("follower reports caught_up and HEALTHZ ok, leader quiescent, but the dumps differ: only on the leader %q, only on the follower %q", missing, extra),
				Case: caseOf(sc, si), Impl: map[string]interface{}{"resumed_at": sesPos(ses), "leader_aof_size": lsize}})
			return
		}
		fsz := int64(-1)
		dl = time.Now().Add(3 * time.Second)
		for {
			fsz = aofSizeOf(follower.Port)
			if fsz == lsize || time.Now().After(dl) {
				break
			}
			if sc.NoAOF && fsz == 0 {
				break
			}
			time.Sleep(50 * time.Millisecond)
		}
		if sc.NoAOF {
			// no log: aof_size stays 0 (model: FollowGen gdeliver / gcheck with c_aof = false leave file and aofsz alone)
			if fsz != 0 {
				x.fail(hx.Failure{Kind: "oracle", Signature: sig("aof-size-differs"),
					What: fmt.Sprintf("a follower started with --appendonly no reports aof_size %d", fsz), Case: caseOf(sc, si)})
				return
			}
		} else if fsz != lsize {
			x.fail(hx.Failure{Kind: "oracle", Signature: sig("aof-size-differs"),
				What: fmt.Sprintf("caught-up follower and quiescent leader have equal dumps but aof_size %d on the follower vs %d on the leader", fsz, lsize),
				Case: caseOf(sc, si), Impl: map[string]interface{}{"resumed_at": sesPos(ses)}})
			return
		}
		x.mu.Lock()
		x.r.TracesImpl++
		x.mu.Unlock()
	}
	x.mu.Lock()
	x.r.Sample(4, map[string]interface{}{"scenario": caseOf(sc, len(sc.Steps)), "result": "converged after every step"})
	x.mu.Unlock()
}

// sampleStalledHandshake waits until the proxy holds (or has refused) a connection the follower opened AFTER the leader's
// acknowledgements, then samples the follower: it lacks the marker by construction (no log stream has started since
// the drop), so it must answer neither HEALTHZ OK nor caught_up=true (direct oracle), and its flag must be the model's
// (begin_connect clears it: correspondence).
func (x *ctx) sampleStalledHandshake(sc Scenario, si int, st Step, px *Proxy, follower *srv.Server, parksBefore int,
	ackDone time.Time, prevCup bool, marker string, sig func(string) string) bool {
	var pk *park
	dl := time.Now().Add(20 * time.Second)
	seen := parksBefore
	for pk == nil && time.Now().Before(dl) {
		ps := px.Parks()
		for i := seen; i < len(ps); i++ {
			if ps[i].Accepted.After(ackDone) {
				pk = ps[i]
				break
			}
			// the follower redialled before the acknowledgements were complete: drop that attempt, it will retry
			x.dist("stall-early-redial")
			seen = i + 1
			px.KillAll()
		}
		if pk == nil {
			time.Sleep(15 * time.Millisecond)
		}
	}
	if pk == nil {
		x.dist("stall-no-redial-seen")
		return false
	}
	x.dist("stalled-handshake:" + pk.Stage)
	mflag := "?"
	if x.drv != nil {
		mflag = x.drv.Ask("handshake_flag", model.B(prevCup), strconv.Itoa(len(st.Writes)+1))
	}
	for i := 0; i < 5; i++ {
		time.Sleep(50 * time.Millisecond)
		hz, cu, cuKnown := false, false, false
		if c, err := srv.Dial(follower.Port); err == nil {
			c.Timeout = 3 * time.Second
			if v, err := c.Do("HEALTHZ"); err == nil {
				hz = v.Kind == '+' && v.Str == "OK"
			}
			c.Close()
		}
		lacks := true
		if pk.Stage != "aofmd5" { // followCheckSome holds the server lock while it probes: SERVER and GET would block
			if c, err := srv.Dial(follower.Port); err == nil {
				c.Timeout = 2 * time.Second
				if m, err := serverMap(c); err == nil {
					cu, cuKnown = m["caught_up"] == "true", true
				}
				c.Close()
			}
			if has, _ := hasMarker(follower.Port, marker); has == 1 {
				lacks = false
			}
		}
		if !lacks {
			x.dist("stall-marker-present")
			return false
		}
		what := fmt.Sprintf("the replication connections were dropped, the leader acknowledged %d more commands (last: __marker %s), the follower's reconnect is held at stage %q of the handshake (connection accepted after the acknowledgements): the follower lacks the marker but answers HEALTHZ ok=%v, SERVER caught_up=%v (flag before the drop: %v)",
			len(st.Writes)+1, marker, pk.Stage, hz, cu, prevCup)
		if hz || cu {
			x.fail(hx.Failure{Kind: "oracle", Signature: "healthy-while-reconnecting:stage=" + pk.Stage, What: what, Case: caseOf(sc, si)})
			if mflag == "0" {
				x.fail(hx.Failure{Kind: "correspondence", Signature: "caught-up-flag-during-handshake",
					What: "the model (begin_connect: the flag is cleared before the leader is dialled; c06_reconnecting_not_caught_up) says caught_up=false during a reconnect attempt, the follower says true",
					Case: caseOf(sc, si), Impl: fmt.Sprintf("healthz=%v caught_up=%v stage=%s", hz, cu, pk.Stage), Model: "caught_up=" + mflag})
			}
			return true
		}
		if cuKnown && mflag != "0" && mflag != "?" {
			x.fail(hx.Failure{Kind: "correspondence", Signature: "caught-up-flag-during-handshake", What: "model and follower disagree on the flag during a reconnect attempt",
				Case: caseOf(sc, si), Impl: fmt.Sprintf("caught_up=%v", cu), Model: "caught_up=" + mflag})
			return true
		}
	}
	return false
}

func sesPos(s *session) interface{} {
	if s == nil {
		return nil
	}
	return s.Pos
}

// ---- follower-side expiry during catch-up ----

// runExpiryScenario: the follower runs its own expiry sweeper and appends its own "del" records to its log. An object
// with a 2 s deadline and long names is streamed early; the proxy holds the stream (before the last two records) until
// the deadline has passed on both servers, delivers one more record and holds again before the marker: the follower
// has then been handed strictly less than the leader's log as of connect time, and must not report caught up.
func (x *ctx) runExpiryScenario(dir string) {
	sc := Scenario{Name: "corpus-own-expiry-during-catchup", Init: "empty"}
	defer func() {
		if e := recover(); e != nil {
			x.fail(hx.Failure{Kind: "oracle", Signature: "harness-panic", What: fmt.Sprintf("scenario %s: %v", sc.Name, e), Case: sc.Name})
		}
	}()
	leader, _ := startOwn(filepath.Join(dir, "leader"), ownPort())
	defer func() { leader.Kill() }()
	lc := leader.MustDial()
	defer lc.Close()
	px, err := NewProxy(leader.Port)
	if err != nil {
		panic(err)
	}
	defer px.Close()
	follower, _ := startOwn(filepath.Join(dir, "follower"), ownPort())
	defer func() { follower.Kill() }()
	K, I := strings.Repeat("k", 100), strings.Repeat("i", 100)
	cmds := [][]string{{"SET", K, I, "EX", "2", "POINT", "1", "1"}, {"SET", "fleet", "a", "POINT", "1", "1"},
		{"SET", "fleet", "b", "POINT", "2", "2"}, {"SET", "__marker", "m1", "STRING", "m1"}}
	t0 := time.Now()
	for _, c := range cmds {
		if v := lc.MustDo(c...); v.IsErr() {
			panic(v.String())
		}
	}
	sc.Pre = cmds
	lb, _ := os.ReadFile(filepath.Join(leader.Dir, "appendonly.aof"))
	recs := splitRecords(lb)
	if len(recs) != 4 {
		panic(fmt.Sprintf("leader log has %d records", len(recs)))
	}
	S := int64(len(lb))
	off2 := S - int64(len(recs[3]))
	off1 := off2 - int64(len(recs[2]))
	px.SetPlan(func(pos, lsz int64) int64 {
		if pos != 0 {
			return -1
		}
		return off1
	})
	px.SetPlan2(func(pos, lsz int64) int64 {
		if pos != 0 {
			return -1
		}
		return off2
	})
	x.dist("fault:own-expiry")
	x.count("own-expiry", true)
	c := follower.MustDial()
	if v := c.MustDo("FOLLOW", "127.0.0.1", strconv.Itoa(px.Port)); v.IsErr() {
		panic("FOLLOW refused: " + v.String())
	}
	c.Close()
	var ses *session
	for i := 0; i < 1500 && ses == nil; i++ {
		ses = px.Session(0)
		time.Sleep(10 * time.Millisecond)
	}
	if ses == nil || ses.StallAt < 0 {
		x.dist("own-expiry-not-set-up")
		return
	}
	select {
	case <-ses.Stalled:
	case <-time.After(10 * time.Second):
		x.dist("own-expiry-not-set-up")
		return
	}
	if d := time.Until(t0.Add(2700 * time.Millisecond)); d > 0 {
		time.Sleep(d) // the deadline passes on the leader and on the follower (whose sweeper runs every 100 ms)
	}
	close(ses.Release)
	select {
	case <-ses.Stalled2:
	case <-time.After(10 * time.Second):
		x.dist("own-expiry-not-set-up")
		return
	}
	bad := false
	for i := 0; i < 5 && !bad; i++ {
		time.Sleep(40 * time.Millisecond)
		stt := followerStatus(follower.Port)
		if stt.err == "" && (stt.caughtUp || stt.healthz) {
			if has, why := hasMarker(follower.Port, "m1"); has == 0 {
				bad = true
				x.fail(hx.Failure{Kind: "oracle", Signature: "premature-caught-up-own-expiry",
					What: fmt.Sprintf("the leader's log had %d bytes when the follower connected; the stream is held after %d bytes (the last acknowledged command, __marker m1, not delivered); an object with EX 2 expired on the follower during the catch-up and the follower's own sweeper appended its del record (about %d bytes) to the follower's log: the follower answers caught_up=%v HEALTHZ ok=%v aof_size=%d although GET __marker m1 -> %s",
						S, off2, len(srv.Encode("del", K, I)), stt.caughtUp, stt.healthz, stt.aofSize, why),
					Case: map[string]interface{}{"scenario": sc.Name, "leader": clipCmds(cmds), "held_at": []int64{off1, off2}}})
			}
		}
	}
	close(ses.Release2)
	if bad {
		return
	}
	// convergence
	ok := false
	for dl := time.Now().Add(20 * time.Second); time.Now().Before(dl) && !ok; time.Sleep(30 * time.Millisecond) {
		stt := followerStatus(follower.Port)
		if stt.err == "" && stt.caughtUp && stt.healthz {
			if has, _ := hasMarker(follower.Port, "m1"); has == 1 {
				ok = true
			}
		}
	}
	var ld, fd string
	eq := false
	for dl := time.Now().Add(5 * time.Second); ok && time.Now().Before(dl) && !eq; time.Sleep(100 * time.Millisecond) {
		ld, _ = dumpOf(leader.Port)
		fd, _ = dumpOf(follower.Port)
		eq = ld == fd && aofSizeOf(leader.Port) == aofSizeOf(follower.Port)
	}
	if !ok || !eq {
		missing, extra := diffLines(ld, fd)
		x.fail(hx.Failure{Kind: "oracle", Signature: "own-expiry-no-convergence", What: fmt.Sprintf("after an expiry on both servers during the catch-up: caught up with marker=%v, dumps/aof_size equal=%v (only leader %q, only follower %q, aof_size %d vs %d)",
			ok, eq, missing, extra, aofSizeOf(leader.Port), aofSizeOf(follower.Port)), Case: sc.Name})
		return
	}
	x.mu.Lock()
	x.r.TracesImpl++
	x.mu.Unlock()
}

// ---- correspondence with the Coq model ----

func hexRecords(recs [][]byte) string {
	if len(recs) == 0 {
		return "-"
	}
	parts := make([]string, len(recs))
	for i, r := range recs {
		parts[i] = "h" + model.H(string(r))
	}
	return strings.Join(parts, ",")
}

// diffRecords renders records as runs: z<n> = n bytes equal to other at the same offset (or other == nil), o<n> = different.
func diffRecords(recs [][]byte, other []byte) string {
	if len(recs) == 0 {
		return "-"
	}
	var sb strings.Builder
	off := 0
	for i, r := range recs {
		if i > 0 {
			sb.WriteByte(',')
		}
		j := 0
		first := true
		for j < len(r) {
			differs := func(k int) bool { return other != nil && off+k < len(other) && other[off+k] != r[k] }
			d := differs(j)
			k := j
			for k < len(r) && differs(k) == d {
				k++
			}
			if !first {
				sb.WriteByte('+')
			}
			first = false
			if d {
				sb.WriteString("o" + strconv.Itoa(k-j))
			} else {
				sb.WriteString("z" + strconv.Itoa(k-j))
			}
			j = k
		}
		off += len(r)
	}
	return sb.String()
}

func (x *ctx) correspond(sc Scenario, si int, st Step, ses *session, f, l []byte, truncTo int64) {
	if x.drv == nil {
		return
	}
	frecs := splitRecords(f)
	lrecs := splitRecords(l)
	tot := 0
	for _, r := range frecs {
		tot += len(r)
	}
	if tot != len(f) {
		x.dist("corr-skipped-follower-file-torn")
		return
	}
	var rep string
	if len(f) < 64<<10 && len(l) < 64<<10 {
		rep = x.drv.Ask("check_some", "repaired", strconv.Itoa(checksumsz), hexRecords(frecs), hexRecords(lrecs))
	} else {
		// check_some depends on the bytes only through equality of equal-offset blocks and through record lengths:
		// megabyte files are sent as a difference encoding (follower all 0, leader 0 where equal / 1 where different)
		x.dist("corr-diff-encoded")
		rep = x.drv.Ask("check_some", "repaired", strconv.Itoa(checksumsz), diffRecords(frecs, nil), diffRecords(lrecs, f))
	}
	// observed: probes with match computed from the follower's own file
	var obs []string
	for _, p := range ses.Probes {
		pos, _ := strconv.Atoi(p[0])
		size, _ := strconv.Atoi(p[1])
		res := "mismatch" // EOF on the leader is "no match" (matchChecksums)
		if p[2] != "EOF" {
			res = "mismatch"
			if pos+size <= len(f) {
				if fmt.Sprintf("%x", md5.Sum(f[pos:pos+size])) == p[2] {
					res = "match"
				}
			}
		}
		obs = append(obs, fmt.Sprintf("%d:%d:%s", pos, size, res))
	}
	trunc := "no"
	if truncTo >= 0 {
		trunc = "yes"
	}
	impl := fmt.Sprintf("pos=%d probes=%s truncated=%s", ses.Pos, strings.Join(obs, "|"), trunc)
	// the model's reply: "pos=<p> action=<a> probes=<p:res|...>"; only pos and probes are visible on the wire
	mpos, mprobes, maction := "", "", ""
	for _, kv := range strings.Fields(rep) {
		switch {
		case strings.HasPrefix(kv, "pos="):
			mpos = kv
		case strings.HasPrefix(kv, "probes="):
			mprobes = kv
		case strings.HasPrefix(kv, "action="):
			maction = kv
		}
	}
	x.dist("corr:" + maction)
	mtrunc := "no"
	if strings.HasPrefix(maction, "action=truncate:") {
		mtrunc = "yes"
	}
	if mpos+" "+mprobes+" truncated="+mtrunc != impl {
		x.fail(hx.Failure{Kind: "correspondence", Signature: "check-some-decision", What: "followCheckSome's probe sequence / resume position differs from the model's check_some on the same files",
			Case: map[string]interface{}{"scenario": caseOf(sc, si), "follower_file_bytes": len(f), "leader_file_bytes": len(l)}, Impl: impl, Model: rep})
	}
}

// ---- driver ----

func runC06(r *hx.Result, cfg hx.Config) {
	r.Rule = "one evaluation = one (scenario, step): a fault from {FOLLOW, follower restart by SIGKILL / SIGTERM, dropped replication connections, leader AOFSHRINK, follower SIGSTOP/SIGCONT, dropped connections followed by a reconnect that the proxy holds or refuses at a stage of the handshake (dial, refused, SERVER, AOFMD5, REPLCONF, AOF) while HEALTHZ / caught_up are sampled} with leader writes acknowledged during it, on a real leader/follower pair whose initial follower is empty / a true record-boundary prefix of the leader's log / unrelated data (thorough: also above 512 KiB, a diverged copy and a copy differing in a middle block); after each step the direct oracles (premature caught-up while the stream is held, convergence of dumps and aof_size) and the model correspondence of the resume decision are evaluated. Followers run with a log or with --appendonly no (init empty / unrelated; aof_size must stay 0); fault offline-shrink = the follower's redials are refused while the leader acknowledges writes and completes AOFSHRINK. Follow generations: a reconnect attempt of the previous generation is held by the proxy inside its handshake (dial, SERVER, AOF) while FOLLOW to another leader is accepted and completed, then released (the follower must stay a copy of its current leader; model Model/FollowGen.v, correspondence on whether the stale attempt still sends AOF); leader AOFSHRINK between a follower's followCheckSome and its AOF command. Follower over its own maxmemory (CONFIG SET maxmemory 1kb) while the leader acknowledges SET/FSET/DEL, then the limit is lifted: no claim of caught-up with a differing dataset, convergence afterwards (model Model/FollowTol.v: errOOM of a streamed command fails the attempt). non-trivial = the leader history up to that step contains at least one accepted write."
	r.Assumptions = []string{"MD5 collision-freeness on equal-length blocks (model hypothesis md5_inj)", "the proxy relays bytes unchanged; the probe sequence and AOF position are read off the wire",
		"no object or hook deadline elapses during a scenario (EX 5000 only), so the follower's own expiry sweeper writes nothing"}
	x := &ctx{r: r, cfg: cfg}
	if drv, err := model.Start("follow"); err == nil {
		x.drv = drv
		defer drv.Close()
	} else {
		r.Fail(hx.Failure{Kind: "correspondence", Signature: "model-driver-missing", What: "ocaml/follow/driver could not be started: " + err.Error()})
	}
	rng := rand.New(rand.NewSource(cfg.Seed))
	var scs []Scenario
	scs = append(scs, corpusScenarios()...)
	scs = append(scs, boundaryScenario(rand.New(rand.NewSource(7)), "corpus-prefix-record-ends-at-checksumsz"))
	{ // the former blind spot of "check some": a copy of the leader's log with one byte changed in a block that is not probed
		r7 := rand.New(rand.NewSource(8))
		scs = append(scs, Scenario{Name: "corpus-copy-differs-in-unprobed-block", Init: "midflip", Large: true, PrefixCut: 1,
			Pre: bigCmds(r7, 1700<<10, "L"), Steps: []Step{{Fault: "follow", Stall: 0.5}, {Fault: "restart-kill", Writes: genCmds(r7, 3), Stall: -1}}})
	}
	nSmall, nLarge := 14, 0
	if cfg.Tier == "thorough" {
		nSmall, nLarge = 60, 18
	}
	if cfg.Search {
		nSmall *= 2
	}
	for i := 0; i < nSmall; i++ {
		scs = append(scs, genScenario(rng, i, false))
	}
	for i := 0; i < nLarge; i++ {
		scs = append(scs, genScenario(rng, i, true))
		if i%6 == 5 {
			scs = append(scs, boundaryScenario(rng, fmt.Sprintf("gen-boundary-%d", i)))
		}
	}
	for _, sc := range scs {
		r.Dist("init:" + sc.Init + ":" + sizeClass(sc))
		if sc.NoAOF {
			r.Dist("follower:appendonly-no")
		}
	}
	par := 6
	sem := make(chan struct{}, par)
	var wg sync.WaitGroup
	wg.Add(1)
	go func() {
		defer wg.Done()
		x.runExpiryScenario(filepath.Join(cfg.Work, "expiry"))
	}()
	wg.Add(2)
	go func() {
		defer wg.Done()
		x.runShrinkMidCopy(filepath.Join(cfg.Work, "shrinkcopy"))
	}()
	go func() {
		defer wg.Done()
		x.runRepoint(filepath.Join(cfg.Work, "repoint"))
	}()
	// follow generations (gens.go): a reconnect attempt of the previous generation held inside its handshake while FOLLOW
	// to another leader is accepted and completed
	for _, g := range []func(){
		func() { x.runStaleGeneration(filepath.Join(cfg.Work, "stale-server"), "server", false) },
		func() { x.runStaleGeneration(filepath.Join(cfg.Work, "stale-dial"), "dial", false) },
		func() { x.runStaleGeneration(filepath.Join(cfg.Work, "stale-server-noaof"), "server", true) },
		func() { x.runStaleFlag(filepath.Join(cfg.Work, "stale-flag")) },
		func() { x.runCheckThenShrink(filepath.Join(cfg.Work, "check-shrink")) },
		func() { x.runFollowerOOM(filepath.Join(cfg.Work, "follower-oom"), false) },
		func() { x.runFollowerOOM(filepath.Join(cfg.Work, "follower-oom-noaof"), true) },
	} {
		wg.Add(1)
		go func(g func()) { defer wg.Done(); g() }(g)
	}
	if os.Getenv("C06_ONLY") == "gens" { // development aid: only the scenarios above
		scs = nil
	}
	for i, sc := range scs {
		wg.Add(1)
		sem <- struct{}{}
		go func(i int, sc Scenario) {
			defer wg.Done()
			defer func() { <-sem }()
			x.runScenario(sc, filepath.Join(cfg.Work, fmt.Sprintf("s%03d", i)))
		}(i, sc)
	}
	wg.Wait()
}
