package main

import (
	"fmt"
	"math/rand"
	"strconv"
	"strings"
)

// ---- scenario description (everything is generated from one PRNG and replayable) ----

type Step struct {
	Fault  string     `json:"fault"`  // follow | restart-kill | restart-term | killconn | shrink | pause
	Writes [][]string `json:"writes"` // leader commands acknowledged during the fault (before the follower reconnects)
	Stall  float64    `json:"stall"`  // fraction of the outstanding stream after which the proxy holds it (-1 = none)
}

type Scenario struct {
	Name      string     `json:"name"`
	Init      string     `json:"init"` // empty | prefix | unrelated | diverged | midflip
	Large     bool       `json:"large"`
	Pre       [][]string `json:"pre"`        // leader history before FOLLOW
	Post      [][]string `json:"post"`       // init=boundary: written after the record that ends exactly at byte checksumsz
	PrefixCut float64    `json:"prefix_cut"` // init=prefix: fraction of the leader's records copied into the follower
	Unrelated [][]string `json:"unrelated"`  // init=unrelated: commands run on the follower before FOLLOW
	Steps     []Step     `json:"steps"`
	NoAOF     bool       `json:"noaof"` // the follower runs with --appendonly no (init empty | unrelated only)
}

var keys = []string{"fleet", "zone", "k", "k2"}
var ids = []string{"a", "b", "c", "d", "e*"}
var fields = []string{"speed", "age"}

func pick(r *rand.Rand, xs []string) string { return xs[r.Intn(len(xs))] }

func geo(r *rand.Rand) []string {
	switch r.Intn(4) {
	case 0:
		return []string{"STRING", "v*" + strconv.Itoa(r.Intn(5))}
	case 1:
		return []string{"OBJECT", fmt.Sprintf(`{"type":"Polygon","coordinates":[[[%d,%d],[%d,%d],[%d,%d],[%d,%d]]]}`, 1, 1, 3+r.Intn(3), 1, 2, 4, 1, 1)}
	case 2:
		return []string{"BOUNDS", "1", "1", strconv.Itoa(2 + r.Intn(3)), "5"}
	}
	return []string{"POINT", strconv.Itoa(r.Intn(9)), strconv.Itoa(r.Intn(9))}
}

// genCmd returns one write command of the leader history.
func genCmd(r *rand.Rand) []string {
	switch n := r.Intn(100); {
	case n < 38:
		c := []string{"SET", pick(r, keys), pick(r, ids)}
		if r.Intn(3) == 0 {
			c = append(c, "FIELD", pick(r, fields), strconv.Itoa(r.Intn(50)))
		}
		if r.Intn(6) == 0 {
			c = append(c, "EX", "5000")
		}
		if r.Intn(8) == 0 {
			c = append(c, pick(r, []string{"NX", "XX"}))
		}
		return append(c, geo(r)...)
	case n < 46:
		return []string{"DEL", pick(r, keys), pick(r, ids)}
	case n < 50:
		return []string{"PDEL", pick(r, keys), pick(r, []string{"a*", "*", "[b-c]"})}
	case n < 56:
		return []string{"FSET", pick(r, keys), pick(r, ids), pick(r, fields), strconv.Itoa(r.Intn(50))}
	case n < 60:
		return []string{"EXPIRE", pick(r, keys), pick(r, ids), "5000"}
	case n < 63:
		return []string{"PERSIST", pick(r, keys), pick(r, ids)}
	case n < 70:
		return []string{pick(r, []string{"RENAME", "RENAMENX"}), pick(r, keys), pick(r, keys)}
	case n < 74:
		return []string{"DROP", pick(r, keys)}
	case n < 79:
		return []string{"SETHOOK", "h" + strconv.Itoa(r.Intn(3)), "http://127.0.0.1:1/x", "NEARBY", pick(r, keys), "FENCE", "POINT", "1", "1", strconv.Itoa(100 + r.Intn(3))}
	case n < 82:
		return []string{"DELHOOK", "h" + strconv.Itoa(r.Intn(3))}
	case n < 87:
		return []string{"SETCHAN", "c" + strconv.Itoa(r.Intn(3)), "WITHIN", pick(r, keys), "FENCE", "BOUNDS", "0", "0", strconv.Itoa(5 + r.Intn(3)), "9"}
	case n < 89:
		return []string{pick(r, []string{"DELCHAN", "PDELCHAN"}), "c" + strconv.Itoa(r.Intn(3))}
	case n < 91:
		return []string{"PDELHOOK", "h[0-1]"}
	case n < 94:
		return []string{"JSET", "docs", pick(r, ids), pick(r, []string{"a", "b.c"}), strconv.Itoa(r.Intn(9))}
	case n < 98:
		k, id := pick(r, keys), pick(r, ids)
		return []string{"EVAL", fmt.Sprintf("tile38.call('set','%s','%s','point',%d,%d); return tile38.call('fset','%s','%s','age',%d)", k, id, r.Intn(9), r.Intn(9), k, id, r.Intn(50)), "0"}
	case n < 99:
		return []string{"FLUSHDB"}
	}
	return []string{"SET", "fleet", "t" + strconv.Itoa(r.Intn(40)), "POINT", "3", "3"}
}

func genCmds(r *rand.Rand, n int) [][]string {
	out := make([][]string, 0, n)
	for i := 0; i < n; i++ {
		out = append(out, genCmd(r))
	}
	return out
}

// bigCmds returns commands whose log records add up to at least total bytes (string values of ~16 KiB whose
// content depends on tag, so that two histories with different tags differ in every block).
func bigCmds(r *rand.Rand, total int, tag string) [][]string {
	var out [][]string
	n := 0
	for i := 0; n < total; i++ {
		sz := 12000 + r.Intn(8000)
		var sb strings.Builder
		for sb.Len() < sz {
			sb.WriteString(tag)
			sb.WriteString(strconv.Itoa(r.Intn(1000000)))
			sb.WriteByte(' ')
		}
		c := []string{"SET", "big", tag + strconv.Itoa(i), "STRING", sb.String()}
		out = append(out, c)
		n += sz
		if r.Intn(3) == 0 {
			out = append(out, genCmd(r))
		}
	}
	return out
}

// stall-<stage>: drop the replication connections, let the leader acknowledge writes, and hold (or refuse) the
// follower's reconnect at that stage of the handshake while its caught_up / HEALTHZ answers are sampled
var stallFaults = []string{"stall-dial", "stall-reject", "stall-server", "stall-md5", "stall-replconf", "stall-aof"}
var faults = []string{"restart-kill", "restart-term", "killconn", "shrink", "pause", "stall", "leader-restart", "leader-lost-tail", "offline-shrink"}

func genScenario(r *rand.Rand, i int, large bool) Scenario {
	sc := Scenario{Name: fmt.Sprintf("gen-%d", i), Large: large}
	inits := []string{"empty", "prefix", "unrelated"}
	sc.Init = inits[i%3]
	if large {
		sc.Init = []string{"prefix", "unrelated", "prefix", "diverged", "empty", "midflip"}[i%6]
		target := []int{600 << 10, 1200 << 10, 1700 << 10}[r.Intn(3)]
		if sc.Init == "midflip" {
			target = 1700 << 10
		}
		sc.Pre = append(genCmds(r, 5), bigCmds(r, target, "L")...)
		sc.PrefixCut = 0.75 + 0.25*r.Float64()
		if r.Intn(4) == 0 {
			sc.PrefixCut = 1
		}
		if sc.Init == "unrelated" {
			sc.Unrelated = append([][]string{{"SET", "stale", "x", "POINT", "1", "1"}}, bigCmds(r, 560<<10+r.Intn(300<<10), "U")...)
		}
	} else {
		sc.Pre = genCmds(r, 3+r.Intn(25))
		sc.PrefixCut = r.Float64()
		if r.Intn(3) == 0 {
			sc.PrefixCut = 1
		}
		if sc.Init == "unrelated" {
			sc.Unrelated = append([][]string{{"SET", "stale", "x", "POINT", "1", "1"}}, genCmds(r, 1+r.Intn(12))...)
		}
	}
	if !large && i%5 == 3 {
		// a follower without a log: nothing of its own survives a start-over, and it starts over on every (re)connect
		sc.NoAOF = true
		if sc.Init == "prefix" {
			sc.Init = "unrelated"
			sc.Unrelated = append([][]string{{"SET", "stale", "x", "POINT", "1", "1"}}, genCmds(r, 1+r.Intn(12))...)
		}
	}
	st := func() float64 {
		if r.Intn(4) == 0 {
			return -1
		}
		return r.Float64()
	}
	sc.Steps = append(sc.Steps, Step{Fault: "follow", Stall: st()})
	nf := 1 + r.Intn(3)
	for k := 0; k < nf; k++ {
		s := Step{Fault: faults[r.Intn(len(faults))], Writes: genCmds(r, 1+r.Intn(8)), Stall: st()}
		if s.Fault == "stall" {
			s.Fault = stallFaults[r.Intn(len(stallFaults))]
		}
		if large && r.Intn(3) == 0 {
			s.Writes = append(s.Writes, bigCmds(r, 40<<10+r.Intn(100<<10), "W"+strconv.Itoa(k))...)
		}
		sc.Steps = append(sc.Steps, s)
	}
	return sc
}

func boundaryScenario(r *rand.Rand, name string) Scenario {
	return Scenario{Name: name, Init: "boundary", Large: true, PrefixCut: 0.9 + 0.1*float64(r.Intn(2)),
		Pre: append(genCmds(r, 3), bigCmds(r, 380<<10, "L")...), Post: bigCmds(r, 150<<10+r.Intn(200<<10), "M"),
		Steps: []Step{{Fault: "follow", Stall: 0.5}, {Fault: "restart-kill", Writes: genCmds(r, 3), Stall: 0.5},
			{Fault: "stall-md5", Writes: genCmds(r, 3), Stall: -1},
			{Fault: "leader-lost-tail", Writes: genCmds(r, 3), Stall: -1}}}
}

// corpus: the witnesses of finding F9 and hand-written cases, run first on every tier.
func corpusScenarios() []Scenario {
	return []Scenario{
		{Name: "corpus-stale-small", Init: "unrelated",
			Pre:       [][]string{{"SET", "fleet", "a", "POINT", "2", "2"}, {"SET", "fleet", "b", "POINT", "3", "3"}},
			Unrelated: [][]string{{"SET", "stale", "x", "POINT", "1", "1"}},
			Steps:     []Step{{Fault: "follow", Stall: 0.5}}},
		{Name: "corpus-renamenx-restart", Init: "empty",
			Pre:   [][]string{{"SET", "k", "a", "POINT", "1", "1"}, {"SET", "k", "b", "POINT", "2", "2"}, {"RENAMENX", "k", "k2"}},
			Steps: []Step{{Fault: "follow", Stall: -1}, {Fault: "restart-term", Stall: 0.3}, {Fault: "restart-kill", Stall: 0.6}}},
		{Name: "corpus-hook-stale", Init: "unrelated",
			Pre:       [][]string{{"SET", "fleet", "a", "POINT", "2", "2"}},
			Unrelated: [][]string{{"SETHOOK", "hs", "http://127.0.0.1:1/x", "NEARBY", "fleet", "FENCE", "POINT", "1", "1", "100"}, {"SETCHAN", "cs", "NEARBY", "fleet", "FENCE", "POINT", "1", "1", "100"}},
			Steps:     []Step{{Fault: "follow", Stall: 0.5}}},
		{Name: "corpus-stalled-handshake-every-stage", Init: "unrelated",
			Pre:       [][]string{{"SET", "fleet", "a", "POINT", "2", "2"}, {"SET", "fleet", "b", "POINT", "3", "3"}},
			Unrelated: [][]string{{"SET", "stale", "x", "POINT", "1", "1"}},
			Steps: []Step{{Fault: "follow", Stall: -1},
				{Fault: "stall-dial", Writes: [][]string{{"SET", "fleet", "c", "POINT", "4", "4"}}, Stall: -1},
				{Fault: "stall-reject", Writes: [][]string{{"SET", "fleet", "d", "POINT", "4", "5"}}, Stall: -1},
				{Fault: "stall-server", Writes: [][]string{{"DEL", "fleet", "a"}}, Stall: 0.5},
				{Fault: "stall-replconf", Writes: [][]string{{"SET", "fleet", "e", "POINT", "4", "6"}}, Stall: -1},
				{Fault: "stall-md5", Writes: [][]string{{"SET", "fleet", "f", "POINT", "4", "7"}}, Stall: -1},
				{Fault: "stall-aof", Writes: [][]string{{"SET", "fleet", "g", "POINT", "4", "8"}}, Stall: 0.5}}},
		{Name: "corpus-leader-restart-and-lost-tail", Init: "empty",
			Pre: [][]string{{"SET", "fleet", "a", "POINT", "2", "2"}, {"SET", "fleet", "b", "POINT", "3", "3"}, {"SET", "zone", "z", "STRING", "v"}},
			Steps: []Step{{Fault: "follow", Stall: -1},
				{Fault: "leader-restart", Writes: [][]string{{"SET", "fleet", "c", "POINT", "4", "4"}}, Stall: 0.5},
				{Fault: "leader-lost-tail", Writes: [][]string{{"SET", "fleet", "d", "POINT", "5", "5"}, {"DEL", "fleet", "a"}}, Stall: 0.5},
				{Fault: "leader-lost-tail", Writes: [][]string{{"SET", "fleet", "e", "POINT", "6", "6"}}, Stall: -1}}},
		// followers without a log (--appendonly no): whatever they hold is not in any log of theirs, so only the reset of
		// the in-memory dataset at every start-over makes them copies of the leader
		{Name: "corpus-noaof-unrelated-then-offline-shrink", Init: "unrelated", NoAOF: true,
			Pre: [][]string{{"SET", "fleet", "a", "FIELD", "speed", "3", "POINT", "2", "2"}, {"SET", "fleet", "b", "POINT", "3", "3"}, {"SET", "zone", "z", "STRING", "v"},
				{"SETCHAN", "c0", "NEARBY", "fleet", "FENCE", "POINT", "1", "1", "100"}},
			Unrelated: [][]string{{"SET", "stale", "x", "POINT", "1", "1"}, {"SET", "fleet", "ghost", "POINT", "8", "8"},
				{"SETCHAN", "oldchan", "NEARBY", "fleet", "FENCE", "POINT", "1", "1", "100"}, {"SETHOOK", "oldhook", "http://127.0.0.1:1/x", "NEARBY", "stale", "FENCE", "POINT", "1", "1", "100"}},
			Steps: []Step{{Fault: "follow", Stall: 0.5},
				{Fault: "offline-shrink", Writes: [][]string{{"DEL", "fleet", "a"}, {"DROP", "zone"}, {"DELCHAN", "c0"}, {"SET", "fleet", "c", "POINT", "4", "4"}}, Stall: -1},
				{Fault: "killconn", Writes: [][]string{{"DEL", "fleet", "b"}}, Stall: 0.5},
				{Fault: "restart-kill", Writes: [][]string{{"SET", "fleet", "d", "POINT", "5", "5"}}, Stall: -1}}},
		{Name: "corpus-noaof-empty-all-faults", Init: "empty", NoAOF: true,
			Pre: [][]string{{"SET", "fleet", "a", "POINT", "2", "2"}, {"SET", "k", "e*", "STRING", "v*1"}},
			Steps: []Step{{Fault: "follow", Stall: -1},
				{Fault: "shrink", Writes: [][]string{{"DEL", "fleet", "a"}, {"SET", "fleet", "b", "POINT", "3", "3"}}, Stall: 0.4},
				{Fault: "stall-server", Writes: [][]string{{"SET", "fleet", "c", "POINT", "4", "4"}}, Stall: -1},
				{Fault: "pause", Writes: [][]string{{"SET", "fleet", "e", "POINT", "6", "6"}}, Stall: -1}}},
		{Name: "corpus-offline-shrink-with-log", Init: "empty",
			Pre: [][]string{{"SET", "fleet", "a", "POINT", "2", "2"}, {"SET", "fleet", "b", "POINT", "3", "3"}, {"SET", "zone", "z", "STRING", "v"}},
			Steps: []Step{{Fault: "follow", Stall: -1},
				{Fault: "offline-shrink", Writes: [][]string{{"DEL", "fleet", "a"}, {"DROP", "zone"}}, Stall: 0.5}}},
		{Name: "corpus-prefix-all-faults", Init: "prefix", PrefixCut: 0.5,
			Pre: [][]string{{"SET", "fleet", "a", "FIELD", "speed", "3", "POINT", "2", "2"}, {"SET", "fleet", "b", "POINT", "3", "3"}, {"SET", "zone", "z", "STRING", "a*b"},
				{"DEL", "fleet", "a"}, {"SETCHAN", "c0", "NEARBY", "fleet", "FENCE", "POINT", "1", "1", "100"}, {"RENAME", "zone", "k"}},
			Steps: []Step{{Fault: "follow", Stall: 0.5},
				{Fault: "killconn", Writes: [][]string{{"SET", "fleet", "c", "POINT", "4", "4"}, {"DROP", "k"}}, Stall: 0.7},
				{Fault: "shrink", Writes: [][]string{{"SET", "fleet", "d", "POINT", "5", "5"}, {"DEL", "fleet", "b"}}, Stall: 0.4},
				{Fault: "pause", Writes: [][]string{{"SET", "fleet", "e", "POINT", "6", "6"}}, Stall: -1},
				{Fault: "restart-kill", Writes: [][]string{{"FSET", "fleet", "e", "speed", "9"}}, Stall: 0.9}}},
	}
}
