package main

import (
	"fmt"
	"path/filepath"
	"strconv"
	"strings"
	"time"

	"verifharness/internal/hx"
	"verifharness/internal/srv"
)

// waitCopy waits until the follower on fport reports caught up with the marker present and then equals the leader on
// lport (dump and aof_size). It returns "" when that happened within the deadline, else a description.
func waitCopy(lport, fport int, marker string, deadline time.Duration) string {
	return waitCopy2(lport, fport, marker, deadline, false)
}

// waitCopy2: noaof = the follower runs with --appendonly no: it has no log, its aof_size stays 0 (model: FollowGen
// gdeliver with c_aof = false touches the dataset only) and only the dumps are compared.
func waitCopy2(lport, fport int, marker string, deadline time.Duration, noaof bool) string {
	dl := time.Now().Add(deadline)
	ok := false
	var last status
	for time.Now().Before(dl) && !ok {
		last = followerStatus(fport)
		if last.err == "" && last.caughtUp && last.healthz {
			if has, _ := hasMarker(fport, marker); has == 1 {
				ok = true
				break
			}
		}
		time.Sleep(25 * time.Millisecond)
	}
	if !ok {
		has, why := hasMarker(fport, marker)
		return fmt.Sprintf("after %v the follower answers caught_up=%v HEALTHZ ok=%v aof_size=%d (%s) and GET __marker %s -> %d %s; leader aof_size %d",
			deadline, last.caughtUp, last.healthz, last.aofSize, last.err, marker, has, why, aofSizeOf(lport))
	}
	var ld, fd string
	for dl2 := time.Now().Add(5 * time.Second); time.Now().Before(dl2); time.Sleep(100 * time.Millisecond) {
		ld, _ = dumpOf(lport)
		fd, _ = dumpOf(fport)
		if ld == fd && ld != "" && ((!noaof && aofSizeOf(lport) == aofSizeOf(fport)) || (noaof && aofSizeOf(fport) == 0)) {
			return ""
		}
	}
	missing, extra := diffLines(ld, fd)
	return fmt.Sprintf("caught up with the marker, but dumps / aof_size differ: only on the leader %q, only on the follower %q, aof_size %d vs %d",
		missing, extra, aofSizeOf(lport), aofSizeOf(fport))
}

func followingOf(port int) string {
	c, err := srv.Dial(port)
	if err != nil {
		return "?"
	}
	defer c.Close()
	c.Timeout = 3 * time.Second
	m, err := serverMap(c)
	if err != nil {
		return "?" + err.Error()
	}
	return m["following"]
}

// runShrinkMidCopy: AOFSHRINK on the leader completes while a follower is still inside the initial bulk copy of
// `AOF pos` (the proxy stops reading, the leader blocks in io.Copy on a 12 MB log), then the leader acknowledges more
// writes. The shrink closes every replication connection (model: EShrink ends every session, c06_session_ends), so the
// follower has to come back and agree with the NEW log. A second follower that is already tailing is the control.
func (x *ctx) runShrinkMidCopy(dir string) {
	name := "corpus-shrink-during-bulk-copy"
	defer func() {
		if e := recover(); e != nil {
			x.fail(hx.Failure{Kind: "oracle", Signature: "harness-panic", What: fmt.Sprintf("scenario %s: %v", name, e), Case: name})
		}
	}()
	leader, _ := startOwn(filepath.Join(dir, "leader"), ownPort())
	defer func() { leader.Kill() }()
	lc := leader.MustDial()
	defer lc.Close()
	val := strings.Repeat("0123456789abcdef", 4096) // 64 KiB
	for i := 0; i < 190; i++ {                        // ~12 MB of log, 16 live objects: the shrunk log is ~1 MB
		if v := lc.MustDo("SET", "big", "b"+strconv.Itoa(i%16), "STRING", strconv.Itoa(i)+val); v.IsErr() {
			panic(v.String())
		}
	}
	lc.MustDo("SET", "fleet", "a", "FIELD", "speed", "3", "POINT", "1", "1")
	lc.MustDo("SETCHAN", "c0", "NEARBY", "fleet", "FENCE", "POINT", "1", "1", "100")
	lc.MustDo("SET", "__marker", "m0", "STRING", "m0")
	px, err := NewProxy(leader.Port)
	if err != nil {
		panic(err)
	}
	defer px.Close()
	// control: a follower that is tailing when the shrink happens (directly connected)
	f2, _ := startOwn(filepath.Join(dir, "follower-tailing"), ownPort())
	defer func() { f2.Kill() }()
	{
		c := f2.MustDial()
		c.MustDo("FOLLOW", "127.0.0.1", strconv.Itoa(leader.Port))
		c.Close()
	}
	if why := waitCopy(leader.Port, f2.Port, "m0", 30*time.Second); why != "" {
		x.fail(hx.Failure{Kind: "oracle", Signature: "never-caught-up:init=empty:large-log:follow", What: "control follower, 12 MB log: " + why, Case: name})
		return
	}
	f1, _ := startOwn(filepath.Join(dir, "follower-bulk"), ownPort())
	defer func() { f1.Kill() }()
	lsize0 := aofSizeOf(leader.Port)
	px.SetPlan(func(pos, lsz int64) int64 { return 1 << 20 })
	{
		c := f1.MustDial()
		c.MustDo("FOLLOW", "127.0.0.1", strconv.Itoa(px.Port))
		c.Close()
	}
	x.dist("fault:shrink-mid-copy")
	x.count(name, true)
	var ses *session
	for i := 0; i < 1500 && ses == nil; i++ {
		ses = px.Session(0)
		time.Sleep(10 * time.Millisecond)
	}
	if ses == nil {
		x.dist("shrink-mid-copy-not-set-up")
		return
	}
	select {
	case <-ses.Stalled:
	case <-time.After(15 * time.Second):
		x.dist("shrink-mid-copy-not-set-up")
		return
	}
	px.SetPlan(nil)                    // later sessions are not held
	time.Sleep(400 * time.Millisecond) // the socket buffers fill up, the leader blocks inside its bulk copy
	n0 := countShrinkEnded(leader)
	lc.MustDo("AOFSHRINK")
	for i := 0; i < 3000 && countShrinkEnded(leader) == n0; i++ {
		time.Sleep(10 * time.Millisecond)
	}
	lc.MustDo("SET", "fleet", "b", "POINT", "2", "2")
	lc.MustDo("DEL", "big", "b3")
	lc.MustDo("SET", "__marker", "m1", "STRING", "m1")
	lsize1 := aofSizeOf(leader.Port)
	x.dist(fmt.Sprintf("shrink-mid-copy:log-%dMB->%dKB", lsize0>>20, lsize1>>10))
	close(ses.Release)
	c := map[string]interface{}{"scenario": name, "leader_log_before": lsize0, "leader_log_after_shrink_and_writes": lsize1, "stream_held_after": 1 << 20}
	// correspondence: the model ends the session at the shrink; the implementation must open a new one
	newSession := false
	for dl := time.Now().Add(12 * time.Second); time.Now().Before(dl) && !newSession; time.Sleep(20 * time.Millisecond) {
		newSession = px.NumSessions() > 1
	}
	if x.drv != nil {
		m := x.drv.Ask("session_after", "shrink", "bulk")
		if (m == "none") != newSession {
			x.fail(hx.Failure{Kind: "correspondence", Signature: "session-ends:shrink-during-bulk-copy",
				What: "the model (EShrink ends every session, c06_session_ends) and the implementation disagree on whether a follower that is inside its initial bulk copy is disconnected by a leader AOFSHRINK (no new AOF command seen on the proxy within 12 s)",
				Case: c, Impl: fmt.Sprintf("new session opened: %v", newSession), Model: "session after shrink: " + m})
		}
	}
	if why := waitCopy(leader.Port, f1.Port, "m1", 15*time.Second); why != "" {
		x.fail(hx.Failure{Kind: "oracle", Signature: "shrink-during-bulk-copy:follower-not-a-copy",
			What: "leader AOFSHRINK completed while the follower was inside the initial bulk copy (stream held after 1 MiB of a 12 MB log), then the leader acknowledged 3 writes: " + why, Case: c})
		return
	}
	if why := waitCopy(leader.Port, f2.Port, "m1", 15*time.Second); why != "" {
		x.fail(hx.Failure{Kind: "oracle", Signature: "shrink-while-tailing:follower-not-a-copy", What: "control follower (tailing when the shrink happened): " + why, Case: c})
		return
	}
	x.mu.Lock()
	x.r.TracesImpl++
	x.mu.Unlock()
}

// runRepoint: two independent leaders A and B with different data on the same host; a follower is re-pointed
// A -> B -> A -> no one (own write) -> B. After each FOLLOW it has to open a session to the new leader (model: EFollow
// ends the session; c06_session_ends) and become a copy of the CURRENT leader.
func (x *ctx) runRepoint(dir string) {
	name := "corpus-repoint-between-two-leaders"
	defer func() {
		if e := recover(); e != nil {
			x.fail(hx.Failure{Kind: "oracle", Signature: "harness-panic", What: fmt.Sprintf("scenario %s: %v", name, e), Case: name})
		}
	}()
	type lead struct {
		s  *srv.Server
		c  *srv.Conn
		px *Proxy
		n  int
	}
	mk := func(tag string, cmds [][]string) *lead {
		s, _ := startOwn(filepath.Join(dir, "leader-"+tag), ownPort())
		c := s.MustDial()
		for _, cmd := range cmds {
			if v := c.MustDo(cmd...); v.IsErr() {
				panic(v.String())
			}
		}
		px, err := NewProxy(s.Port)
		if err != nil {
			panic(err)
		}
		return &lead{s: s, c: c, px: px}
	}
	A := mk("A", [][]string{{"SET", "fleet", "a1", "FIELD", "speed", "1", "POINT", "1", "1"}, {"SET", "fleet", "a2", "POINT", "2", "2"},
		{"SET", "onlyA", "x", "STRING", "A"}, {"SETCHAN", "chanA", "NEARBY", "fleet", "FENCE", "POINT", "1", "1", "100"}})
	defer func() { A.px.Close(); A.c.Close(); A.s.Kill() }()
	B := mk("B", [][]string{{"SET", "fleet", "b1", "FIELD", "age", "9", "POINT", "5", "5"}, {"SET", "onlyB", "y", "STRING", "B"},
		{"SETHOOK", "hookB", "http://127.0.0.1:1/x", "NEARBY", "fleet", "FENCE", "POINT", "5", "5", "100"}, {"SET", "fleet", "a1", "POINT", "9", "9"}})
	defer func() { B.px.Close(); B.c.Close(); B.s.Kill() }()
	f, _ := startOwn(filepath.Join(dir, "follower"), ownPort())
	defer func() { f.Kill() }()
	marker := func(l *lead) string {
		l.n++
		id := fmt.Sprintf("m%d", l.n)
		if v := l.c.MustDo("SET", "__marker", id, "STRING", id); v.IsErr() {
			panic(v.String())
		}
		return id
	}
	follow := func(args ...string) {
		c := f.MustDial()
		defer c.Close()
		if v := c.MustDo(append([]string{"FOLLOW"}, args...)...); v.IsErr() {
			panic("FOLLOW refused: " + v.String())
		}
	}
	path := ""
	repoint := func(tag string, l *lead, other *lead) bool {
		path += "->" + tag
		x.dist("fault:repoint")
		x.count(name+path, true)
		l.c.MustDo("SET", "fleet", "w"+strconv.Itoa(l.n), "POINT", "3", strconv.Itoa(l.n))
		m := marker(l)
		before := l.px.NumSessions()
		follow("127.0.0.1", strconv.Itoa(l.px.Port))
		c := map[string]interface{}{"scenario": name, "path": path, "current_leader": tag}
		opened := false
		for dl := time.Now().Add(10 * time.Second); time.Now().Before(dl) && !opened; time.Sleep(20 * time.Millisecond) {
			opened = l.px.NumSessions() > before
		}
		if x.drv != nil {
			mres := x.drv.Ask("session_after", "follow", "tailing")
			if (mres == "none") != opened {
				x.fail(hx.Failure{Kind: "correspondence", Signature: "session-ends:follow-other-leader",
					What: "the model (EFollow ends the running session and a new one is started against the other leader, c06_session_ends) and the implementation disagree: no AOF command reached the new leader within 10 s of FOLLOW " + path,
					Case: c, Impl: fmt.Sprintf("session to the new leader opened: %v, SERVER following=%s", opened, followingOf(f.Port)), Model: "old session after FOLLOW: " + mres})
			}
		}
		if why := waitCopy(l.s.Port, f.Port, m, 12*time.Second); why != "" {
			x.fail(hx.Failure{Kind: "oracle", Signature: "repointed-follower-not-a-copy-of-current-leader",
				What: fmt.Sprintf("FOLLOW path %s (all servers on 127.0.0.1), SERVER following=%s, current leader %s quiescent: %s", path, followingOf(f.Port), tag, why), Case: c})
			return false
		}
		// a later write of the current leader arrives, one of the previous leader does not
		other.c.MustDo("SET", "fleet", "late-"+tag, "POINT", "7", "7")
		m2 := marker(l)
		if why := waitCopy(l.s.Port, f.Port, m2, 10*time.Second); why != "" {
			x.fail(hx.Failure{Kind: "oracle", Signature: "repointed-follower-not-a-copy-of-current-leader",
				What: fmt.Sprintf("FOLLOW path %s: a write acknowledged by the current leader %s after the re-pointing: %s", path, tag, why), Case: c})
			return false
		}
		x.mu.Lock()
		x.r.TracesImpl++
		x.mu.Unlock()
		return true
	}
	if !repoint("A", A, B) || !repoint("B", B, A) || !repoint("A", A, B) {
		return
	}
	path += "->no-one"
	follow("no", "one")
	{
		c := f.MustDial()
		if v := c.MustDo("SET", "own", "z", "POINT", "8", "8"); v.IsErr() {
			x.fail(hx.Failure{Kind: "oracle", Signature: "follow-no-one-still-refuses-writes", What: "after FOLLOW no one a write is refused: " + v.String(), Case: name})
			c.Close()
			return
		}
		c.Close()
	}
	repoint("B", B, A)
}
