// C18, third part: the interpreter pool and the per-interpreter eval mode (coq/Model/LuaPool.v).
//
// One connection (so the pool's LIFO order is determined by the history) issues EVAL / EVALRO / EVALNA
// scripts, SCANs with one or two WHEREEVAL filters (two interpreters out at once, returned in the other
// order), scripts that run a SCAN with a WHEREEVAL filter themselves (a second interpreter while the first
// is out), SCRIPT LOAD, and EVALs that leave early (argument error after the interpreter was taken, compile
// error after the mode was registered). Every filter and every script tries a write through tile38.pcall.
//   oracle          a plain SCAN / WHEREEVAL and an EVALRO / EVALROSHA never change the dataset or the
//                   append-only file, whatever interpreter they land on
//   correspondence  the model says for every tile38.call which mode the interpreter carries and how
//                   luaTile38Call routes it (filters: refused); the replies must say the same
package main

import (
	"fmt"
	"math/rand"
	"os"
	"path/filepath"
	"strconv"
	"strings"
	"time"

	"verifharness/internal/hx"
	"verifharness/internal/model"
	"verifharness/internal/srv"
)

type poolCmd struct {
	words []string
	desc  string
	// the pool operations of this command, in order; call results are compared with expect
	ops    []string
	expect func(calls map[int]string, reply srv.Value) string // "" = agrees
	ro     bool                                               // must not change dataset or file
	gops   []string                                           // the same command for the model of the global tables
	probe  string                                             // "read": the reply lists what the script sees of other borrowers' globals; "assign": it must be refused
	filter     bool                                           // the Lua code runs as a WHEREEVAL filter
	assignUser int
}

type poolGen struct {
	rng  *rand.Rand
	next int // next request id in the model
	seq  int
}

func (g *poolGen) user() int { g.next++; return g.next - 1 }
func (g *poolGen) val() string {
	g.seq++
	return fmt.Sprintf("pv%d", g.seq)
}

func filterText(v string) string {
	return "local r = tile38.pcall('set','wk','f','string','" + v + "') return r.err ~= nil"
}

// a script that makes one write call and reports how it went
func (g *poolGen) eval(variant string) poolCmd {
	u := g.user()
	mode := strings.ToLower(variant)
	script := "return json.encode(tile38.pcall('set','wk','e','string','" + g.val() + "'))"
	words := []string{variant, script, "0"}
	return poolCmd{words: words, desc: variant + " <one write call>", ro: strings.HasPrefix(mode, "evalro"),
		ops: []string{fmt.Sprintf("g.%d.e.%s", u, mode), fmt.Sprintf("s.%d", u), fmt.Sprintf("c.%d", u), fmt.Sprintf("x.%d", u)},
		expect: func(calls map[int]string, reply srv.Value) string {
			want := map[string]string{"rw": "+OK", "na": "+OK", "ro": "-readonly", "refused": "-notsupported"}[calls[u]]
			got := canonOfValue(reply)
			if reply.Kind == '$' {
				got = canonOfJSON(reply.Str)
			}
			if got != want {
				return fmt.Sprintf("the model routes the script's call as %q (expected result %s), the script saw %s", calls[u], want, got)
			}
			return ""
		}}
}

// SCAN pk WHEREEVAL f1 0 [WHEREEVAL f2 0] COUNT: every filter tries a write and lets the object through iff it was refused
func (g *poolGen) scan(nf int) poolCmd {
	words := []string{"SCAN", "pk"}
	var us []int
	for i := 0; i < nf; i++ {
		us = append(us, g.user())
		words = append(words, "WHEREEVAL", filterText(g.val()), "0")
	}
	words = append(words, "COUNT")
	var ops []string
	for _, u := range us {
		ops = append(ops, fmt.Sprintf("g.%d.f.scan", u))
	}
	for _, u := range us {
		ops = append(ops, fmt.Sprintf("c.%d", u))
	}
	for _, u := range us { // closed in the order they were parsed
		ops = append(ops, fmt.Sprintf("x.%d", u))
	}
	return poolCmd{words: words, desc: fmt.Sprintf("SCAN pk with %d WHEREEVAL filter(s) that try to SET", nf), ro: true, ops: ops,
		expect: func(calls map[int]string, reply srv.Value) string {
			for _, u := range us {
				if calls[u] != "refused" {
					return fmt.Sprintf("the model lets a WHEREEVAL filter's tile38.call through (%s)", calls[u])
				}
			}
			if reply.Kind != ':' || reply.Int != 1 {
				return "the model refuses every filter's tile38.call (the one object passes all filters: count 1), the server answered " + reply.String()
			}
			return ""
		}}
}

// a script that runs a SCAN with a WHEREEVAL filter itself: a second interpreter while the first is out
func (g *poolGen) nested(variant string) poolCmd {
	u, f := g.user(), g.user()
	mode := strings.ToLower(variant)
	script := "return tile38.pcall('scan', 'pk', 'whereeval', ARGV[1], 0, 'count')"
	words := []string{variant, script, "0", filterText(g.val())}
	return poolCmd{words: words, desc: variant + " <script that SCANs with a WHEREEVAL filter that tries to SET>", ro: strings.HasPrefix(mode, "evalro"),
		ops: []string{fmt.Sprintf("g.%d.e.%s", u, mode), fmt.Sprintf("s.%d", u), fmt.Sprintf("c.%d", u),
			fmt.Sprintf("g.%d.f.scan", f), fmt.Sprintf("c.%d", f), fmt.Sprintf("x.%d", f), fmt.Sprintf("x.%d", u)},
		expect: func(calls map[int]string, reply srv.Value) string {
			if calls[f] != "refused" {
				return fmt.Sprintf("the model lets the nested filter's tile38.call through (%s)", calls[f])
			}
			if calls[u] == "refused" {
				return "the model refuses the script's own call"
			}
			if reply.Kind != ':' || reply.Int != 1 {
				return "the model refuses the nested filter's tile38.call (count 1), the server answered " + reply.String()
			}
			return ""
		}}
}

func (g *poolGen) other() poolCmd {
	u := g.user()
	switch g.rng.Intn(3) {
	case 0:
		return poolCmd{words: []string{"SCRIPT", "LOAD", "return " + strconv.Itoa(g.rng.Intn(1000))}, desc: "SCRIPT LOAD",
			ops: []string{fmt.Sprintf("g.%d.l.script", u), fmt.Sprintf("x.%d", u)}}
	case 1: // the interpreter is taken, then the empty key is refused: the way out before the Store
		return poolCmd{words: []string{"EVAL", "return 1", "1", ""}, desc: "EVAL with an empty key (leaves before the mode is registered)",
			ops: []string{fmt.Sprintf("g.%d.e.eval", u), fmt.Sprintf("x.%d", u)}}
	}
	return poolCmd{words: []string{"EVAL", "this is not lua (" + strconv.Itoa(g.rng.Intn(1000)), "0"}, desc: "EVAL of a script that does not compile (leaves after the mode is registered)",
		ops: []string{fmt.Sprintf("g.%d.e.eval", u), fmt.Sprintf("s.%d", u), fmt.Sprintf("x.%d", u)}}
}

// SCAN pg WHEREEVAL <a filter that fails on the last object>: tolerated ("attempt to index a non-table": the
// query goes on) or fatal (any other run-time error: the query fails)
func (g *poolGen) failingScan(tolerated bool) poolCmd {
	u := g.user()
	bad := "no_such_function()"
	if tolerated {
		bad = "FIELDS.nofield.x"
	}
	filter := "if ID == 'c' then return " + bad + " end return true"
	desc := "SCAN pg with a WHEREEVAL filter that raises a run-time error on the last object"
	if tolerated {
		desc = "SCAN pg with a WHEREEVAL filter that indexes a non-table on the last object (tolerated)"
	}
	return poolCmd{words: []string{"SCAN", "pg", "WHEREEVAL", filter, "0", "COUNT"}, desc: desc, ro: true,
		ops: []string{fmt.Sprintf("g.%d.f.scan", u), fmt.Sprintf("x.%d", u)},
		gops: []string{fmt.Sprintf("b.%d.1", u), fmt.Sprintf("i.%d.Server.parseSearchScanBaseTokens.0", u),
			fmt.Sprintf("i.%d.whereevalT.match.0", u), fmt.Sprintf("i.%d.whereevalT.match.0", u), fmt.Sprintf("i.%d.whereevalT.match.1", u), fmt.Sprintf("r.%d", u)}}
}

const probeRead = "return tostring(ID) .. '|' .. tostring(FIELDS) .. '|' .. tostring(PROPERTIES) .. '|' .. tostring(KEYS[1]) .. '|' .. tostring(ARGV[1]) .. '|' .. tostring(DEADLINE) .. '|' .. tostring(zz_any)"

// the names a script may try to keep something under: the per-call globals of both borrowers and a name nobody uses
var assignNames = []string{"KEYS", "ARGV", "DEADLINE", "EVAL_CMD", "ID", "FIELDS", "PROPERTIES", "zz_any"}

// does the name exist in the global table while the Lua code of that borrower runs?
func existsDuring(filter bool, name string) bool {
	if filter {
		return name == "ARGV" || name == "ID" || name == "FIELDS" || name == "PROPERTIES"
	}
	return name == "KEYS" || name == "ARGV" || name == "EVAL_CMD"
}

// a script / a WHEREEVAL filter that assigns a global and leaves: `<name> = 'token-…'`
func (g *poolGen) assign(variant string, name string) poolCmd {
	u := g.user()
	tok := "token-" + g.val()
	if variant == "FILTER" {
		return poolCmd{words: []string{"SCAN", "pg", "WHEREEVAL", name + " = '" + tok + "' return true", "0", "COUNT"}, desc: "SCAN pg with a WHEREEVAL filter that assigns " + name, ro: true, probe: "assign:" + name, filter: true,
			ops: []string{fmt.Sprintf("g.%d.f.scan", u), fmt.Sprintf("x.%d", u)}, assignUser: u}
	}
	mode := strings.ToLower(variant)
	return poolCmd{words: []string{variant, name + " = '" + tok + "' return 1", "0"}, desc: variant + " <script that assigns " + name + ">", ro: strings.HasPrefix(mode, "evalro"), probe: "assign:" + name,
		ops: []string{fmt.Sprintf("g.%d.e.%s", u, mode), fmt.Sprintf("s.%d", u), fmt.Sprintf("x.%d", u)}, assignUser: u}
}

// a WHEREEVAL filter that looks for what earlier borrowers left: every object passes iff there is nothing
func (g *poolGen) filterProbe() poolCmd {
	u := g.user()
	f := "return KEYS == nil and DEADLINE == nil and EVAL_CMD == nil and zz_any == nil"
	return poolCmd{words: []string{"SCAN", "pg", "WHEREEVAL", f, "0", "COUNT"}, desc: "SCAN pg with a WHEREEVAL filter that looks for KEYS/DEADLINE/EVAL_CMD/zz_any", ro: true, probe: "filter-read", filter: true,
		ops: []string{fmt.Sprintf("g.%d.f.scan", u), fmt.Sprintf("x.%d", u)},
		gops: []string{fmt.Sprintf("b.%d.1", u), fmt.Sprintf("i.%d.Server.parseSearchScanBaseTokens.0", u),
			fmt.Sprintf("i.%d.whereevalT.match.0", u), fmt.Sprintf("i.%d.whereevalT.match.0", u), fmt.Sprintf("i.%d.whereevalT.match.0", u), fmt.Sprintf("r.%d", u)}}
}

// a script that looks for what other borrowers of its interpreter left behind / tries to keep something there
func (g *poolGen) probe(variant string, kind string) poolCmd {
	u := g.user()
	mode := strings.ToLower(variant)
	script := probeRead
	if kind == "assign" {
		script = []string{"ID = 'kept'", "FIELDS = 'kept'", "PROPERTIES = 'kept'"}[g.rng.Intn(3)] + " return 1"
	}
	return poolCmd{words: []string{variant, script, "0"}, desc: variant + " <probe: " + kind + " ID/FIELDS/PROPERTIES/KEYS/ARGV>", ro: strings.HasPrefix(mode, "evalro"), probe: kind,
		ops:  []string{fmt.Sprintf("g.%d.e.%s", u, mode), fmt.Sprintf("s.%d", u), fmt.Sprintf("x.%d", u)},
		gops: []string{fmt.Sprintf("b.%d.0", u), fmt.Sprintf("i.%d.Server.cmdEvalUnified.0", u), fmt.Sprintf("r.%d", u)}}
}

// an EVAL with keys and arguments of its own (they must be gone for the next borrower)
func (g *poolGen) evalWithKeys() poolCmd {
	u := g.user()
	return poolCmd{words: []string{"EVAL", "return KEYS[1] .. ARGV[1]", "1", "secretkey", "secretarg"}, desc: "EVAL with a key and an argument",
		ops:  []string{fmt.Sprintf("g.%d.e.eval", u), fmt.Sprintf("s.%d", u), fmt.Sprintf("x.%d", u)},
		gops: []string{fmt.Sprintf("b.%d.0", u), fmt.Sprintf("i.%d.Server.cmdEvalUnified.0", u), fmt.Sprintf("r.%d", u)}}
}

// the borrow / invoke / return operations of a command given its pool operations
func globalsOpsOf(ops []string) []string {
	var out []string
	for _, o := range ops {
		p := strings.Split(o, ".")
		switch p[0] {
		case "g":
			switch p[2] {
			case "e":
				out = append(out, "b."+p[1]+".0")
			case "f":
				out = append(out, "b."+p[1]+".1", "i."+p[1]+".Server.parseSearchScanBaseTokens.0")
			default:
				out = append(out, "b."+p[1]+".0")
			}
		case "s":
			out = append(out, "i."+p[1]+".Server.cmdEvalUnified.0")
		case "c":
			// a filter is invoked once per object; scripts call from inside cmdEvalUnified
			if isFilter[p[1]] {
				out = append(out, "i."+p[1]+".whereevalT.match.0")
			}
		case "x":
			out = append(out, "r."+p[1])
		}
		if p[0] == "g" {
			isFilter[p[1]] = p[2] == "f"
		}
	}
	return out
}

var isFilter = map[string]bool{}

func aofSize(dir string) int64 {
	st, err := os.Stat(filepath.Join(dir, "appendonly.aof"))
	if err != nil {
		return -1
	}
	return st.Size()
}

func runPoolHistory(r *hx.Result, cfg hx.Config, rng *rand.Rand, drv *model.Driver, hnum int, ncmd int) {
	dir := filepath.Join(cfg.Work, fmt.Sprintf("pool%d", hnum))
	s, err := srv.Start(dir)
	if err != nil {
		panic(err)
	}
	defer func() { s.Kill() }()
	c := s.MustDial()
	defer c.Close()
	c.Timeout = 6 * time.Second
	c2 := s.MustDial()
	defer c2.Close()
	c2.Timeout = 6 * time.Second
	c.MustDo("SET", "pk", "a", "STRING", "x")
	c.MustDo("SET", "wk", "e", "STRING", "original")
	c.MustDo("SET", "wk", "f", "STRING", "original")
	for _, id := range []string{"a", "b", "c"} {
		c.MustDo("SET", "pg", id, "FIELD", "speed", "7", "POINT", "33", "-115")
	}
	g := &poolGen{rng: rng}
	var hist []poolCmd
	if hnum == 0 {
		// directed: ordinary scripts around SCANs with two filters, then the probes
		for i := 0; i < 3; i++ {
			hist = append(hist, g.eval("EVAL"), g.scan(2))
		}
		hist = append(hist, g.eval("EVAL"), g.nested("EVALRO"), g.nested("EVALROSHA"), g.scan(1), g.eval("EVALNA"), g.scan(2), g.eval("EVALNASHA"), g.nested("EVALRO"), g.scan(1))
		// a filter that fails on the last object, then scripts that look at / try to keep what it left
		for _, tol := range []bool{true, false} {
			hist = append(hist, g.failingScan(tol), g.probe("EVAL", "read"), g.probe("EVALRO", "assign"), g.probe("EVALRO", "read"),
				g.evalWithKeys(), g.probe("EVALNA", "read"), g.failingScan(tol), g.probe("EVAL", "assign"), g.probe("EVALSHA", "read"))
		}
		// every name, assigned from both kinds of borrower, then looked for by both kinds (from the other connection)
		for _, name := range assignNames {
			hist = append(hist, g.assign("FILTER", name), g.filterProbe(), g.probe("EVAL", "read"),
				g.assign([]string{"EVAL", "EVALRO", "EVALNA"}[len(name)%3], name), g.probe("EVALRO", "read"), g.filterProbe())
		}
	}
	for len(hist) < ncmd {
		x := rng.Intn(100)
		switch {
		case x < 30:
			hist = append(hist, g.eval([]string{"EVAL", "EVALSHA", "EVALRO", "EVALROSHA", "EVALNA", "EVALNASHA"}[rng.Intn(6)]))
		case x < 45:
			hist = append(hist, g.scan(1+rng.Intn(2)))
		case x < 52:
			hist = append(hist, g.failingScan(rng.Intn(2) == 0))
		case x < 60:
			hist = append(hist, g.probe([]string{"EVAL", "EVALSHA", "EVALRO", "EVALROSHA", "EVALNA"}[rng.Intn(5)], []string{"read", "read", "assign"}[rng.Intn(3)]))
		case x < 63:
			hist = append(hist, g.evalWithKeys())
		case x < 72:
			hist = append(hist, g.assign([]string{"FILTER", "FILTER", "EVAL", "EVALRO", "EVALNA"}[rng.Intn(5)], assignNames[rng.Intn(len(assignNames))]))
		case x < 78:
			hist = append(hist, g.filterProbe())
		case x < 80:
			hist = append(hist, g.nested([]string{"EVAL", "EVALSHA", "EVALRO", "EVALROSHA", "EVALNA", "EVALNASHA"}[rng.Intn(6)]))
		default:
			hist = append(hist, g.other())
		}
	}
	var ops, gops []string
	leftBefore := "" // what the model says the pool's interpreters carry beyond the allow-list
	var trail []string
	stamped := 0
	for i, pc := range hist {
		words := pc.words
		if strings.HasSuffix(words[0], "SHA") {
			sha := c.MustDo("SCRIPT", "LOAD", words[1])
			// (SCRIPT LOAD takes and returns an interpreter without registering anything)
			u := g.user()
			ops = append(ops, fmt.Sprintf("g.%d.l.script", u), fmt.Sprintf("x.%d", u))
			words = append([]string{words[0], sha.Str}, words[2:]...)
		}
		var before string
		var size int64
		if pc.ro {
			before = stateOf(c)
			size = aofSize(dir)
		}
		conn := c
		if i%2 == 1 {
			conn = c2 // the pool is the server's: the next borrower is whoever comes next, on any connection
		}
		reply, err := conn.Do(words...)
		trail = append(trail, pc.desc)
		if len(trail) > 12 {
			trail = trail[1:]
		}
		if err != nil {
			r.Fail(hx.Failure{Kind: "oracle", Signature: "whereeval-filter-blocked", What: fmt.Sprintf("pool history %d command %d (%s) got no reply (%v): a filter or script that holds the shared lock went for the exclusive one", hnum, i, pc.desc, err), Case: map[string]interface{}{"last_commands": trail}})
			return
		}
		if pc.ro {
			after := stateOf(c) // (its reply also flushes whatever the command appended)
			if after != before {
				sig := "whereeval-filter-wrote"
				if strings.HasPrefix(words[0], "EVALRO") {
					sig = "evalro-changed-data"
				}
				r.Fail(hx.Failure{Kind: "oracle", Signature: sig, What: fmt.Sprintf("pool history %d command %d: the dataset changed across the read-only command %s", hnum, i, pc.desc),
					Case: map[string]interface{}{"last_commands": trail, "command": words}, Impl: map[string]string{"before": before, "after": after}})
			}
			if sz := aofSize(dir); sz != size {
				r.Fail(hx.Failure{Kind: "oracle", Signature: "read-only-command-logged", What: fmt.Sprintf("pool history %d command %d: the append-only file grew from %d to %d bytes across the read-only command %s", hnum, i, size, sz, pc.desc),
					Case: map[string]interface{}{"last_commands": trail, "command": words}})
			}
		}
		ops = append(ops, pc.ops...)
		// the global tables: what the model says the interpreters in the pool carry after this command
		if strings.HasPrefix(pc.probe, "assign:") {
			name := strings.TrimPrefix(pc.probe, "assign:")
			u := pc.assignUser
			if pc.filter {
				pc.gops = []string{fmt.Sprintf("b.%d.1", u), fmt.Sprintf("i.%d.Server.parseSearchScanBaseTokens.0", u)}
				if reply.Kind == '-' { // refused on the first object: the query failed there
					pc.gops = append(pc.gops, fmt.Sprintf("i.%d.whereevalT.match.1~%s=v", u, name))
				} else {
					for k := 0; k < 3; k++ {
						pc.gops = append(pc.gops, fmt.Sprintf("i.%d.whereevalT.match.0~%s=v", u, name))
					}
				}
				pc.gops = append(pc.gops, fmt.Sprintf("r.%d", u))
			} else {
				pc.gops = []string{fmt.Sprintf("b.%d.0", u), fmt.Sprintf("i.%d.Server.cmdEvalUnified.0~%s=v", u, name), fmt.Sprintf("r.%d", u)}
			}
			// a name that does not exist while the code runs must be refused by the __newindex guard
			if !existsDuring(pc.filter, name) && reply.Kind != '-' {
				r.Fail(hx.Failure{Kind: "oracle", Signature: "sandbox-new-global-accepted", What: fmt.Sprintf("pool history %d command %d: %s was accepted (%s): the script created the global %s", hnum, i, pc.desc, reply.String(), name), Case: map[string]interface{}{"last_commands": trail, "command": words}})
			}
		}
		if pc.gops == nil {
			pc.gops = globalsOpsOf(pc.ops)
		}
		gops = append(gops, pc.gops...)
		grep := strings.TrimSpace(strings.SplitN(drv.Ask(append([]string{"globals", "5"}, gops...)...), "|", 2)[0])
		switch pc.probe {
		case "read":
			seen := []string{}
			parts := strings.Split(reply.Str, "|")
			for k, name := range []string{"ID", "FIELDS", "PROPERTIES", "KEYS[1]", "ARGV[1]", "DEADLINE", "zz_any"} {
				if reply.Kind != '$' || k >= len(parts) || parts[k] != "nil" {
					seen = append(seen, name)
				}
			}
			if len(seen) > 0 {
				r.Fail(hx.Failure{Kind: "oracle", Signature: "globals-survive-in-pooled-interpreter", What: fmt.Sprintf("pool history %d command %d: a %s script sees %v of an earlier borrower of its interpreter (reply %s)", hnum, i, words[0], seen, reply.String()), Case: map[string]interface{}{"last_commands": trail}})
			}
			if (len(seen) > 0) != (leftBefore != "") {
				r.Fail(hx.Failure{Kind: "correspondence", Signature: "globals-model", What: fmt.Sprintf("pool history %d command %d: the model says the pooled interpreters carry [%s] beyond the allow-list, the probe sees %v", hnum, i, leftBefore, seen), Case: map[string]interface{}{"last_commands": trail}})
			}
		case "filter-read":
			if reply.Kind != ':' || reply.Int != 3 {
				r.Fail(hx.Failure{Kind: "oracle", Signature: "globals-survive-in-pooled-interpreter", What: fmt.Sprintf("pool history %d command %d: a WHEREEVAL filter sees KEYS / DEADLINE / EVAL_CMD / zz_any of an earlier borrower of its interpreter (it let %s of 3 objects through)", hnum, i, reply.String()), Case: map[string]interface{}{"last_commands": trail}})
			}
			if (reply.Kind != ':' || reply.Int != 3) != (leftBefore != "") {
				r.Fail(hx.Failure{Kind: "correspondence", Signature: "globals-model", What: fmt.Sprintf("pool history %d command %d: the model says the pooled interpreters carry [%s] beyond the allow-list, the filter probe answered %s", hnum, i, leftBefore, reply.String()), Case: map[string]interface{}{"last_commands": trail}})
			}
		case "assign":
			if reply.Kind != '-' {
				r.Fail(hx.Failure{Kind: "oracle", Signature: "sandbox-assign-existing-global", What: fmt.Sprintf("pool history %d command %d: %s %q was accepted (%s): a global outside the allow-list exists in the pooled interpreter and can be written", hnum, i, words[0], pc.words[1], reply.String()), Case: map[string]interface{}{"last_commands": trail}})
			}
		}
		leftBefore = grep
		if pc.expect != nil {
			rep := drv.Ask(append([]string{"pool", "5"}, ops...)...)
			calls := map[int]string{}
			for _, t := range strings.Fields(strings.SplitN(rep, "|", 2)[0]) {
				p := strings.Split(t, ":")
				if len(p) == 3 {
					u, _ := strconv.Atoi(p[0])
					calls[u] = p[2]
				}
			}
			if why := pc.expect(calls, reply); why != "" {
				r.Fail(hx.Failure{Kind: "correspondence", Signature: "pool-model-routing", What: fmt.Sprintf("pool history %d command %d (%s): %s", hnum, i, pc.desc, why), Case: map[string]interface{}{"last_commands": trail}})
				return
			}
		}
		if strings.HasPrefix(words[0], "EVAL") {
			stamped++
		}
		r.Dist("pool:" + strings.Fields(pc.desc)[0])
	}
	r.Count(fmt.Sprintf("pool history %d: %d commands, %d pool operations", hnum, len(hist), len(ops)), len(hist) >= 10)
	r.TracesImpl++
	r.Sample(18, map[string]interface{}{"pool_history": hnum, "commands": len(hist), "pool_operations": len(ops), "scripts": stamped})
}

func runPoolModel(r *hx.Result, cfg hx.Config, rng *rand.Rand, drv *model.Driver) {
	n, length := 3, 40
	if cfg.Tier == "thorough" || cfg.Search {
		n, length = 12, 120
	}
	for h := 0; h < n; h++ {
		runPoolHistory(r, cfg, rng, drv, h, length)
	}
}
