// C18, fourth part: a script's reply and the file (coq/Model/ScriptFlush.v).
//
// A request that logs from inside a script (EVAL / EVALSHA / EVALNA with two writes) and, as the control,
// a plain SET: the moment the reply is in the client's hands the server is killed (SIGKILL). The
// append-only file as the kill left it must already hold every record of the request (the model says
// how many: f_file at the reply), and after the restart both writes are there.
package main

import (
	"fmt"
	"path/filepath"
	"strings"

	"verifharness/internal/hx"
	"verifharness/internal/model"
	"verifharness/internal/srv"
)

func runKillAtReply(r *hx.Result, cfg hx.Config, drv *model.Driver, round int) {
	variants := []string{"EVAL", "EVALSHA", "EVALNA", "EVALNASHA", "SET"}
	for vi, variant := range variants {
		dir := filepath.Join(cfg.Work, fmt.Sprintf("kill%d-%d", round, vi))
		s, err := srv.Start(dir)
		if err != nil {
			panic(err)
		}
		c := s.MustDial()
		admin := s.MustDial()
		tag := fmt.Sprintf("k%d.%d", round, vi)
		// an ordinary acknowledged write first: the buffer is clean when the request under test starts
		c.MustDo("SET", "ka", "base", "STRING", tag+".base")
		var q *sreq
		var want [][]string
		if variant == "SET" {
			q = &sreq{words: []string{"SET", "ka", "i0", "STRING", tag + ".p"}, name: "set"}
			want = [][]string{q.words}
		} else {
			st := []sstmt{call(false, "set", "ka", "i0", "string", tag+".a"), call(round%2 == 1, "set", "kb", "i1", "string", tag+".b")}
			q = &sreq{name: strings.ToLower(variant), script: true, stmts: st}
			q.words = []string{variant, luaOf(st), "0"}
			want = [][]string{{"set", "ka", "i0", "string", tag + ".a"}, {"set", "kb", "i1", "string", tag + ".b"}}
		}
		execReq(c, admin, q)
		s.Kill() // the reply is here: SIGKILL now
		c.Close()
		admin.Close()
		// the model: the same request, every micro-step, then netServe's reply block
		drv.Ask("new")
		drv.Ask(append([]string{"req", "0"}, driverTokens(&sreq{words: []string{"SET", "ka", "base", "STRING", tag + ".base"}})...)...)
		drv.Ask(append([]string{"req", "0"}, driverTokens(q)...)...)
		ops := []string{"flush"}
		for i := 0; i < 3; i++ {
			ops = append(ops, "s.0")
		}
		ops = append(ops, "r.0")
		for i := 0; i < 12; i++ {
			ops = append(ops, "s.0")
		}
		ops = append(ops, "r.0")
		mf := strings.Fields(drv.Ask(ops...))
		modelFile := -1
		if len(mf) >= 2 {
			fmt.Sscanf(mf[1], "%d", &modelFile)
		}
		aof, err := readAOF(dir)
		if err != nil {
			r.Fail(hx.Failure{Kind: "oracle", Signature: "aof-unparsable", What: "after SIGKILL at a reply: " + err.Error()})
			continue
		}
		have := map[string]bool{}
		for _, rec := range aof {
			have[strings.Join(rec, "\x00")] = true
		}
		missing := 0
		for _, w := range want {
			if !have[strings.Join(w, "\x00")] {
				missing++
			}
		}
		if q.canon != "" && !strings.HasPrefix(q.canon, "-") && missing > 0 {
			r.Fail(hx.Failure{Kind: "oracle", Signature: "acked-script-write-not-in-file-at-reply", What: fmt.Sprintf("%s with %d write(s) was answered (%s), the server was killed right after the reply: %d of its records are not in the append-only file", variant, len(want), q.canon, missing),
				Case: map[string]interface{}{"request": q.words, "file": aof}})
		}
		if modelFile != len(aof) {
			r.Fail(hx.Failure{Kind: "correspondence", Signature: "flush-model-file", What: fmt.Sprintf("%s: at the reply the model has %d records in the file, the file the kill left has %d", variant, modelFile, len(aof)), Model: strings.Join(mf, " "), Impl: aof})
		}
		// and after the restart the writes are there
		s2, err := srv.StartPort(dir, srv.FreePort())
		if err != nil {
			r.Fail(hx.Failure{Kind: "oracle", Signature: "restart-failed", What: err.Error()})
			continue
		}
		c2 := s2.MustDial()
		lost := []string{}
		for _, w := range want {
			v := c2.MustDo("GET", w[1], w[2])
			if v.Str != w[4] {
				lost = append(lost, fmt.Sprintf("%s/%s = %s (expected %s)", w[1], w[2], v.String(), w[4]))
			}
		}
		base := c2.MustDo("GET", "ka", "base")
		c2.Close()
		s2.Stop()
		if len(lost) > 0 && !strings.HasPrefix(q.canon, "-") {
			r.Fail(hx.Failure{Kind: "oracle", Signature: "acked-script-write-lost-after-kill", What: fmt.Sprintf("%s was answered %s, the server was killed right after the reply and restarted: %s (the plain SET acknowledged just before is %s)", variant, q.canon, strings.Join(lost, "; "), base.String())})
		}
		r.Count(fmt.Sprintf("kill at the reply of %s (round %d)", variant, round), variant != "SET")
		r.Dist("kill-at-reply:" + variant)
	}
	r.Sample(20, map[string]interface{}{"kill_at_reply_round": round, "variants": variants})
}
