// C18 harness: script atomicity under concurrency, logging of script writes across a restart,
// EVALRO purity, and the sandbox (everything reachable from the script's globals).
package main

import (
	"fmt"
	"math/rand"
	"path/filepath"
	"sort"
	"strconv"
	"strings"
	"sync"

	"github.com/tidwall/tile38/verifapi"
	"verifharness/internal/hx"
	"verifharness/internal/model"
	"verifharness/internal/srv"
)

func main() { hx.Main("C18", run) }

func run(r *hx.Result, cfg hx.Config) {
	runTables(r, cfg)
	r.Rule += " Script model (coq/Model/Script.v, extracted): sequential histories of plain commands and scripts of all six variants (2-6 calls, failing calls under call and pcall, conditionals and read-modify-write on earlier results) are run on the server and on the model and compared reply by reply, record by record and on the final dataset; concurrent histories of 3-6 connections (scripts with busy loops between their calls, plain writes and reads on the same keys) are judged by model-free oracles (every EVAL/EVALSHA's records one contiguous block in call order, also when the script was aborted midway; EVALNA records once each in call order; EVALRO changes nothing; dataset after restart = live dataset) and by searching a schedule of the model's micro-steps that reproduces every reply, the file order and the final dataset. Interpreter pool (coq/Model/LuaPool.v): one-connection histories of EVAL*/SCRIPT LOAD/SCAN with one or two WHEREEVAL filters/scripts that SCAN with a filter, every filter and script trying a write through tile38.pcall; a plain SCAN/WHEREEVAL and an EVALRO never change dataset or append-only file, and the model says for every call which mode the interpreter carries. non-trivial there = a distinct history with at least two scripts that logged (sequential) / at least one atomic block of two or more records written while other connections were active (concurrent)."
	r.Assumptions = append(r.Assumptions, "the string-object handlers of Model/ScriptKs.v (SET STRING/GET/DEL/PDEL/DROP/RENAME/RENAMENX/EXISTS) are compared with the server on every history; other commands are outside the script model's instance")
	runScriptModel(r, cfg, rand.New(rand.NewSource(cfg.Seed^0x5c18)))
}

// names a script may try to reach; each is probed from inside a script as well
var candidates = []string{"assert", "collectgarbage", "dofile", "error", "getfenv", "getmetatable", "ipairs", "load", "loadfile",
	"loadstring", "module", "next", "pairs", "pcall", "print", "rawequal", "rawget", "rawset", "require", "select", "setfenv",
	"setmetatable", "tonumber", "tostring", "type", "unpack", "xpcall", "newproxy", "_G", "_VERSION", "_GOPHER_LUA_VERSION", "_printregs",
	"coroutine", "debug", "io", "math", "os", "package", "string", "table", "channel", "tile38", "json", "KEYS", "ARGV", "EVAL_CMD"}

func runTables(r *hx.Result, cfg hx.Config) {
	r.Rule = "concurrent clients run read-modify-write scripts (EVAL: must be atomic — no lost update, an EVALRO observer never sees a half-applied two-key script; EVALNA: per-call only); script writes through every variant are compared across a restart; every write sub-command is tried through EVALRO; a Lua walker enumerates everything reachable from _G and it is compared with the names t38x extracted from lStatePool.New and with the documented allow-list. non-trivial = distinct scenario (variant, #clients, #iterations, script) in which at least two clients overlapped, or a distinct reachable Lua name."
	r.Assumptions = []string{"the Lua VM (gopher-lua) executes a script on one goroutine", "Lua names are compared, not VM semantics"}
	rng := rand.New(rand.NewSource(cfg.Seed))
	drv, err := model.Start("gate")
	if err != nil {
		panic(err)
	}
	defer drv.Close()
	dir := filepath.Join(cfg.Work, "c18")
	s, err := srv.Start(dir)
	if err != nil {
		panic(err)
	}
	defer func() { s.Kill() }()
	c := s.MustDial()

	// ---------- sandbox ----------
	names := verifapi.LuaReachable()
	if len(names) == 0 {
		r.Fail(hx.Failure{Kind: "oracle", Signature: "sandbox-walker", What: "the reachability walk returned nothing"})
	}
	// the same from inside a real script, by probing a dictionary of candidate names
	for _, cand := range candidates {
		v := c.MustDo("EVAL", "if _G["+strconv.Quote(cand)+"] ~= nil then return 1 else return 0 end", "0")
		inWalk := false
		for _, n := range names {
			if strings.HasPrefix(n, cand+":") {
				inWalk = true
			}
		}
		r.Count("probe-name:"+cand, true)
		if v.Kind == ':' && (v.Int == 1) != inWalk && cand != "KEYS" && cand != "ARGV" && cand != "EVAL_CMD" {
			r.Fail(hx.Failure{Kind: "correspondence", Signature: "sandbox-probe-vs-walk", What: fmt.Sprintf("global %q: visible from a script = %v, found by the walk = %v", cand, v.Int == 1, inWalk)})
		}
	}
	top := map[string]string{}
	members := map[string][]string{}
	for _, n := range names {
		nt := strings.SplitN(n, ":", 2)
		if strings.Contains(nt[0], "<") || strings.HasPrefix(nt[0], "_G.") {
			r.Count("lua:"+n, true)
			continue // metatable entries and the _G self-reference are judged by the dangerous-name scan
		}
		if !strings.Contains(nt[0], ".") {
			top[nt[0]] = nt[1]
		} else {
			p := strings.SplitN(nt[0], ".", 2)
			members[p[0]] = append(members[p[0]], p[1])
		}
		r.Count("lua:"+n, true)
	}
	split := func(s string) []string {
		if s == "" {
			return nil
		}
		return strings.Split(s, ",")
	}
	expectTop := map[string]bool{"table": true, "math": true, "string": true, "os": true}
	for _, g := range split(drv.Ask("lua_globals")) {
		expectTop[g] = true
	}
	var gotTop []string
	for k := range top {
		gotTop = append(gotTop, k)
	}
	sort.Strings(gotTop)
	for _, k := range gotTop {
		if !expectTop[k] {
			r.Fail(hx.Failure{Kind: "oracle", Signature: "sandbox-extra-global", What: "script global outside the allow-list: " + k + " (" + top[k] + ")", Case: gotTop})
		}
	}
	for k := range expectTop {
		if _, ok := top[k]; !ok {
			r.Fail(hx.Failure{Kind: "correspondence", Signature: "sandbox-missing-global", What: "global " + k + " registered in the source / model is not reachable in the real state", Case: gotTop})
		}
	}
	sameSet := func(what string, got []string, want []string) {
		g := append([]string{}, got...)
		w := append([]string{}, want...)
		sort.Strings(g)
		sort.Strings(w)
		if strings.Join(g, ",") != strings.Join(w, ",") {
			r.Fail(hx.Failure{Kind: "oracle", Signature: "sandbox-" + what, What: fmt.Sprintf("members of %s are %v, the allow-list has %v", what, g, w)})
		}
	}
	sameSet("os", members["os"], split(drv.Ask("lua_os")))
	sameSet("tile38", members["tile38"], split(drv.Ask("lua_tile38")))
	dangerous := split(drv.Ask("lua_dangerous"))
	for _, n := range names {
		base := strings.SplitN(n, ":", 2)[0]
		for _, d := range dangerous {
			if base == d || strings.HasPrefix(base, d+".") || strings.HasPrefix(base, "_G."+d) {
				r.Fail(hx.Failure{Kind: "oracle", Signature: "sandbox-dangerous", What: "dangerous name reachable from a script: " + base})
			}
		}
	}
	// behaviours: no new globals, KEYS/ARGV do not survive, no file/process access by string tricks
	probes := []struct{ name, script string; args []string; wantErr bool; wantVal string }{
		{"new-global", "x = 1 return 1", []string{"0"}, true, ""},
		{"new-global-rawset", "rawset(_G,'x',1) return 1", []string{"0"}, true, ""},
		{"keys-visible", "return KEYS[1] .. ARGV[1]", []string{"1", "kk", "aa"}, false, `$"kkaa"`},
		{"keys-gone", "return tostring(KEYS == nil or KEYS[1] == nil) .. tostring(ARGV == nil or ARGV[1] == nil)", []string{"0"}, false, `$"truetrue"`},
		{"io", "return io.open('/etc/passwd')", []string{"0"}, true, ""},
		{"os-execute", "return os.execute('true')", []string{"0"}, true, ""},
		{"require", "return require('os')", []string{"0"}, true, ""},
		{"loadstring", "return loadstring('return 1')()", []string{"0"}, true, ""},
		{"dofile", "return dofile('/etc/passwd')", []string{"0"}, true, ""},
		{"getmetatable-string", "return getmetatable('').__index == string", []string{"0"}, true, ""},
	}
	for _, p := range probes {
		v := c.MustDo(append([]string{"EVAL", p.script}, p.args...)...)
		r.Count("probe:"+p.name, true)
		if p.wantErr && v.Kind != '-' {
			r.Fail(hx.Failure{Kind: "oracle", Signature: "sandbox-probe-" + p.name, What: fmt.Sprintf("script %q should fail in the sandbox but returned %s", p.script, v.String())})
		}
		if !p.wantErr && v.String() != p.wantVal {
			r.Fail(hx.Failure{Kind: "oracle", Signature: "sandbox-probe-" + p.name, What: fmt.Sprintf("script %q returned %s, expected %s", p.script, v.String(), p.wantVal)})
		}
	}
	r.Sample(3, map[string]interface{}{"reachable_lua_names": len(names), "first": names[:min(8, len(names))]})

	// ---------- a script must not be able to pick its own tile38.call path ----------
	{
		before := srv.Dump(c)
		for _, v := range []string{"EVALRO", "EVALROSHA"} {
			script := "EVAL_CMD = 'eval' return tile38.call('set','forged','a','point',1,1)"
			var rv srv.Value
			if v == "EVALROSHA" {
				sha := c.MustDo("SCRIPT", "LOAD", script)
				rv = c.MustDo(v, sha.Str, "0")
			} else {
				rv = c.MustDo(v, script, "0")
			}
			r.Count("forge/"+v, true)
			if rv.Kind != '-' {
				r.Fail(hx.Failure{Kind: "oracle", Signature: "evalro-forged-evalcmd", What: fmt.Sprintf("%s with a script that assigns EVAL_CMD = 'eval' performed a write: %s", v, rv.String())})
			}
		}
		if d := srv.Dump(c); d != before {
			r.Fail(hx.Failure{Kind: "oracle", Signature: "evalro-forged-evalcmd", What: "the dataset changed after EVALRO scripts that overwrite EVAL_CMD", Case: map[string]string{"before": before, "after": d}})
		}
		// EVALNA forging the atomic path would write while holding no lock: it must stay per-call
		// (observable: the reply is fine either way, so this is covered by the table theorems and by
		// the EVALRO probe above, which goes through the same lookup)
	}

	// ---------- KEYS / ARGV must not survive a call, also a failed one ----------
	{
		c.MustDo("SET", "leakprobe", "o", "POINT", "1", "1")
		fails := [][]string{
			{"EVALSHA", "ffffffffffffffffffffffffffffffffffffffff", "1", "secretkey", "secretarg"}, // unknown digest
			{"EVAL", "this is not lua (", "1", "secretkey", "secretarg"},                          // does not compile
			{"EVAL", "error('boom')", "1", "secretkey", "secretarg"},                               // fails at run time
			{"EVAL", "return 1", "1", "secretkey", "secretarg"},                                    // succeeds
		}
		for _, f := range fails {
			c.MustDo(f...)
			// the next user of the pooled state is a WHEREEVAL filter, which sets no KEYS of its own
			v := c.MustDo("SCAN", "leakprobe", "WHEREEVAL", "return (KEYS ~= nil and KEYS[1] == 'secretkey') or (ARGV ~= nil and ARGV[1] == 'secretarg')", "0", "COUNT")
			r.Count("keys-leak/"+f[0]+"/"+f[1][:4], true)
			if v.Kind == ':' && v.Int != 0 {
				r.Fail(hx.Failure{Kind: "oracle", Signature: "keys-argv-survive-call", What: fmt.Sprintf("after %q a WHEREEVAL filter on the same pooled state still sees the call's KEYS/ARGV", strings.Join(f[:2], " "))})
			}
		}
	}

	// ---------- pool growth: states created on demand must be guarded like the initial ones ----------
	{
		var wg sync.WaitGroup
		leaked := 0
		var mu sync.Mutex
		for i := 0; i < 12; i++ {
			wg.Add(1)
			go func(i int) {
				defer wg.Done()
				cc := s.MustDial()
				defer cc.Close()
				// busy scripts occupy the pooled states so that new ones are created
				cc.MustDo("EVALNA", "local t = os.clock() while os.clock() - t < 0.05 do end return 1", "0")
				v := cc.MustDo("EVALNA", fmt.Sprintf("leak%d = 1 return 1", i), "0")
				if v.Kind != '-' {
					mu.Lock()
					leaked++
					mu.Unlock()
				}
			}(i)
		}
		wg.Wait()
		r.Count("pool-growth/12 concurrent", true)
		if leaked > 0 {
			r.Fail(hx.Failure{Kind: "oracle", Signature: "sandbox-new-global-on-grown-state", What: fmt.Sprintf("%d of 12 concurrent scripts created a new global: states created when the pool grows are not guarded", leaked)})
		}
	}

	// ---------- atomicity ----------
	incr := `local v = tile38.call('get', KEYS[1], 'n') local n = tonumber(v) + 1 tile38.call('set', KEYS[1], 'n', 'string', tostring(n)) return n`
	pair := `tile38.call('set', 'pairA', 'v', 'string', ARGV[1]) tile38.call('set', 'pairB', 'v', 'string', ARGV[1]) return 1`
	observe := `local a = tile38.call('get', 'pairA', 'v') local b = tile38.call('get', 'pairB', 'v') if a == b then return 1 else return 0 end`
	incrSha := c.MustDo("SCRIPT", "LOAD", incr).Str
	pairSha := c.MustDo("SCRIPT", "LOAD", pair).Str
	rounds := 3
	iters := 150
	if cfg.Tier == "thorough" || cfg.Search {
		rounds, iters = 12, 600
	}
	for round := 0; round < rounds; round++ {
		clients := 2 + rng.Intn(7)
		for _, variant := range []string{"EVAL", "EVALSHA", "EVALNA"} {
			key := fmt.Sprintf("ctr-%s-%d", variant, round)
			c.MustDo("SET", key, "n", "STRING", "0")
			c.MustDo("SET", "pairA", "v", "STRING", "0")
			c.MustDo("SET", "pairB", "v", "STRING", "0")
			var wg sync.WaitGroup
			var mu sync.Mutex
			torn := 0
			for i := 0; i < clients; i++ {
				wg.Add(1)
				go func(i int) {
					defer wg.Done()
					cc := s.MustDial()
					defer cc.Close()
					for j := 0; j < iters; j++ {
						switch i % 3 {
						case 0, 1:
							if variant == "EVALSHA" {
								cc.MustDo(variant, incrSha, "1", key)
								cc.MustDo(variant, pairSha, "0", strconv.Itoa(i*100000+j))
							} else {
								cc.MustDo(variant, incr, "1", key)
								cc.MustDo(variant, pair, "0", strconv.Itoa(i*100000+j))
							}
						case 2:
							v := cc.MustDo("EVALRO", observe, "0")
							if v.Kind == ':' && v.Int == 0 {
								mu.Lock()
								torn++
								mu.Unlock()
							}
						}
					}
				}(i)
			}
			wg.Wait()
			writers := 0
			for i := 0; i < clients; i++ {
				if i%3 != 2 {
					writers++
				}
			}
			got := c.MustDo("GET", key, "n")
			want := strconv.Itoa(writers * iters)
			r.Count(fmt.Sprintf("atomic/%s/%d clients/%d iters", variant, clients, iters), clients >= 2)
			r.Dist("atomic:" + variant)
			r.Sample(6, map[string]interface{}{"variant": variant, "clients": clients, "iterations": iters, "counter": got.Str, "expected_if_atomic": want, "torn_observations": torn})
			if variant == "EVAL" || variant == "EVALSHA" {
				if got.Str != want {
					r.Fail(hx.Failure{Kind: "oracle", Signature: "eval-lost-update", What: fmt.Sprintf("%d clients x %d "+variant+" read-modify-write scripts left the counter at %s, expected %s: another command took effect between a script's calls", writers, iters, got.Str, want)})
				}
				if torn > 0 {
					r.Fail(hx.Failure{Kind: "oracle", Signature: "eval-torn-read", What: fmt.Sprintf("an EVALRO observer saw the two keys of one %s script differ %d times", variant, torn)})
				}
			}
		}
	}

	// ---------- EVALRO purity + script writes survive a restart ----------
	writes := [][]string{
		{"set", "sw", "a", "point", "1", "2"}, {"set", "sw", "b", "string", "hello"}, {"fset", "sw", "a", "speed", "3"},
		{"expire", "sw", "a", "1000"}, {"persist", "sw", "a"}, {"jset", "sw", "j", "x.y", "5"}, {"set", "sw2", "c", "point", "3", "3"},
		{"rename", "sw2", "sw3"}, {"del", "sw", "b"}, {"pdel", "sw3", "zz*"}, {"set", "sw4", "d", "point", "1", "1"}, {"drop", "sw4"},
	}
	luaCall := func(args []string) string {
		q := make([]string, len(args))
		for i, a := range args {
			q[i] = strconv.Quote(a)
		}
		return "return tile38.call(" + strings.Join(q, ",") + ")"
	}
	before := srv.Dump(c)
	for _, w := range writes {
		v := c.MustDo("EVALRO", luaCall(w), "0")
		r.Count("evalro/"+strings.Join(w, " "), true)
		if v.Kind != '-' {
			r.Fail(hx.Failure{Kind: "oracle", Signature: "evalro-write-accepted", What: fmt.Sprintf("EVALRO accepted %v: %s", w, v.String())})
		}
	}
	if d := srv.Dump(c); d != before {
		r.Fail(hx.Failure{Kind: "oracle", Signature: "evalro-changed-data", What: "the dataset changed after EVALRO scripts", Case: map[string]string{"before": before, "after": d}})
	}
	for i, w := range writes {
		variant := []string{"EVAL", "EVALNA"}[i%2]
		v := c.MustDo(variant, luaCall(w), "0")
		if v.Kind == '-' {
			r.Dist("script-write-error")
		}
		r.Count("script-write/"+variant+"/"+strings.Join(w, " "), true)
	}
	live := srv.Dump(c)
	c.Close()
	s.Stop()
	s2, err := srv.StartPort(dir, srv.FreePort())
	if err != nil {
		r.Fail(hx.Failure{Kind: "oracle", Signature: "restart-failed", What: "server did not restart on the data directory: " + err.Error()})
		return
	}
	s = s2
	c2 := s2.MustDial()
	after := srv.Dump(c2)
	c2.Close()
	r.Sample(8, map[string]interface{}{"script_writes": len(writes), "dump_lines_after_restart": strings.Count(after, "\n")})
	if after != live {
		r.Fail(hx.Failure{Kind: "oracle", Signature: "script-write-not-logged", What: "after a restart the dataset differs from what the scripts had written", Case: map[string]string{"live": live, "after_restart": after}})
	}
}

func min(a, b int) int {
	if a < b {
		return a
	}
	return b
}
