// C18, second part: the executable script / concurrency model (coq/Model/Script.v, driver ocaml/script)
// against the real server.
//
//   sequential histories  one connection; plain commands and scripts of all six variants with 2-6 calls,
//                         calls that fail midway under tile38.call (abort) and tile38.pcall (value),
//                         conditionals and read-modify-write on earlier results. The model runs the same
//                         programs; every reply (per call for completed scripts), the append-only file
//                         record for record, and the final dataset must be equal. EVALRO requests are
//                         bracketed by dumps (oracle: nothing changes).
//   concurrent histories  N connections on the same keys, scripts with busy loops between their calls.
//                         Model-free oracles on the append-only file and the restart; then a SCHEDULE of the
//                         model's micro-steps is searched under which the model produces exactly the
//                         observed replies, the observed file order and the final dataset. The model runs
//                         an atomic script as one unit (it keeps the exclusive lock), an EVALNA script call
//                         by call: a torn observation, a foreign record inside an EVAL block or a lost
//                         update has no schedule.
package main

import (
	"encoding/hex"
	"encoding/json"
	"fmt"
	"math/rand"
	"os"
	"path/filepath"
	"sort"
	"strconv"
	"strings"
	"sync"
	"time"

	"verifharness/internal/hx"
	"verifharness/internal/model"
	"verifharness/internal/srv"
)

// ---------- script programs ----------

type sarg struct {
	kind byte // 'h' literal, 'n' tostring(tonumber(V[i])+1)
	lit  string
	i    int
}

type sstmt struct {
	kind byte // 'C' call, 'I' if, 'F' the Lua code fails by itself
	prot bool
	args []sarg
	i    int    // I: result index (1-based, among the calls executed so far)
	pat  string // I: canonical text to compare with
	k    int    // I: number of following statements guarded
	spin int    // microseconds of busy loop before the statement
}

type sreq struct {
	words  []string // command line as sent (scripts: VARIANT, lua text, "0")
	name   string
	script bool
	stmts  []sstmt
	// observed on the real server
	canon   string   // canonical outcome
	calls   []string // canonical result of every executed call (completed scripts only)
	aborted bool
	send    time.Time
	recv    time.Time
}

func lit(s string) sarg { return sarg{kind: 'h', lit: s} }

func call(prot bool, words ...string) sstmt {
	st := sstmt{kind: 'C', prot: prot}
	for _, w := range words {
		st.args = append(st.args, lit(w))
	}
	return st
}

func luaQuote(s string) string {
	return "'" + strings.NewReplacer(`\`, `\\`, `'`, `\'`).Replace(s) + "'"
}

// canonical text -> what json.encode prints for that value inside a script
func jsonOfCanon(c string) string {
	switch {
	case c == "nil":
		return "false"
	case c == "+OK":
		return `{"ok":"OK"}`
	case strings.HasPrefix(c, ":"):
		return c[1:]
	case strings.HasPrefix(c, "$"):
		b, _ := json.Marshal(c[1:])
		return string(b)
	}
	return c
}

func errClass(msg string) string {
	switch {
	case strings.Contains(msg, "key not found"):
		return "-keynotfound"
	case strings.Contains(msg, "read only"):
		return "-readonly"
	case strings.Contains(msg, "not supported in scripts"):
		return "-notsupported"
	case strings.Contains(msg, "unknown command"):
		return "-unknown"
	case strings.Contains(msg, "number of arguments"):
		return "-nargs"
	case strings.Contains(msg, "not the leader"):
		return "-notleader"
	case strings.Contains(msg, "catching up"):
		return "-catchingup"
	case strings.Contains(msg, "cannot perform") || strings.Contains(msg, "attempt to") || strings.Contains(msg, "non-function"):
		return "-lua"
	}
	return "-other(" + msg + ")"
}

// what json.encode printed -> canonical text
func canonOfJSON(j string) string {
	switch {
	case j == "false":
		return "nil"
	case j == `{"ok":"OK"}`:
		return "+OK"
	case strings.HasPrefix(j, `{"err":`):
		var m map[string]string
		json.Unmarshal([]byte(j), &m)
		return errClass(m["err"])
	case strings.HasPrefix(j, `"`):
		var s string
		json.Unmarshal([]byte(j), &s)
		return "$" + s
	}
	if _, err := strconv.ParseInt(j, 10, 64); err == nil {
		return ":" + j
	}
	return "?" + j
}

func canonOfValue(v srv.Value) string {
	switch v.Kind {
	case '+':
		return "+" + v.Str
	case ':':
		return ":" + strconv.FormatInt(v.Int, 10)
	case '$':
		return "$" + v.Str
	case 'n':
		return "nil"
	case '-':
		return errClass(v.Str)
	}
	return "?" + v.String()
}

func luaOf(stmts []sstmt) string {
	var sb strings.Builder
	sb.WriteString("local R = {} local V = {} local r ")
	var emit func(ss []sstmt)
	emit = func(ss []sstmt) {
		for idx := 0; idx < len(ss); idx++ {
			s := ss[idx]
			if s.spin > 0 {
				fmt.Fprintf(&sb, "do local t = os.clock() while os.clock() - t < %.6f do end end ", float64(s.spin)/1e6)
			}
			switch s.kind {
			case 'C':
				fn := "call"
				if s.prot {
					fn = "pcall"
				}
				var as []string
				for _, a := range s.args {
					if a.kind == 'h' {
						as = append(as, luaQuote(a.lit))
					} else {
						as = append(as, fmt.Sprintf("tostring(tonumber(V[%d]) + 1)", a.i))
					}
				}
				fmt.Fprintf(&sb, "r = tile38.%s(%s) V[#V+1] = r R[#R+1] = json.encode(r) ", fn, strings.Join(as, ", "))
			case 'I':
				fmt.Fprintf(&sb, "if R[%d] == %s then ", s.i, luaQuote(jsonOfCanon(s.pat)))
				emit(ss[idx+1 : idx+1+s.k])
				sb.WriteString("end ")
				idx += s.k
			case 'F':
				sb.WriteString("r = no_such_function() ")
			}
		}
	}
	emit(stmts)
	sb.WriteString("return R")
	return sb.String()
}

func driverTokens(q *sreq) []string {
	toks := []string{strconv.Itoa(len(q.words))}
	for _, w := range q.words {
		toks = append(toks, model.H(w))
	}
	for _, s := range q.stmts {
		switch s.kind {
		case 'C':
			p := "0"
			if s.prot {
				p = "1"
			}
			toks = append(toks, "C", p, strconv.Itoa(len(s.args)))
			for _, a := range s.args {
				if a.kind == 'h' {
					toks = append(toks, "h"+model.H(a.lit))
				} else {
					toks = append(toks, "n"+strconv.Itoa(a.i))
				}
			}
		case 'I':
			toks = append(toks, "I", strconv.Itoa(s.i), model.H(s.pat), strconv.Itoa(s.k))
		case 'F':
			toks = append(toks, "F", model.H("lua"))
		}
	}
	return toks
}

// ---------- generators ----------

type gen struct {
	rng  *rand.Rand
	tag  string // unique prefix of the values this generator writes
	seq  int
	keys []string
	ids  []string
}

func (g *gen) val() string { g.seq++; return fmt.Sprintf("%s.%d", g.tag, g.seq) }
func (g *gen) key() string { return g.keys[g.rng.Intn(len(g.keys))] }
func (g *gen) id() string  { return g.ids[g.rng.Intn(len(g.ids))] }

// one command line (without the value being a previous result)
func (g *gen) command(writeBias int) []string {
	x := g.rng.Intn(100)
	switch {
	case x < writeBias:
		return []string{"set", g.key(), g.id(), "string", g.val()}
	case x < writeBias+14:
		return []string{"get", g.key(), g.id()}
	case x < writeBias+22:
		return []string{"exists", g.key(), g.id()}
	case x < writeBias+34:
		return []string{"del", g.key(), g.id()}
	case x < writeBias+38:
		return []string{"pdel", g.key(), []string{"i*", "i1*", "*", "zz*"}[g.rng.Intn(4)]}
	case x < writeBias+41:
		return []string{"drop", g.key()}
	case x < writeBias+45:
		return []string{"rename", g.key(), g.key()}
	case x < writeBias+48:
		return []string{"renamenx", g.key(), g.key()}
	}
	return []string{"get", g.key(), g.id()}
}

// a call that always fails (whatever the dataset)
func (g *gen) failing() []string {
	switch g.rng.Intn(5) {
	case 0:
		return []string{"rename", "nokey", "x"}
	case 1:
		return []string{"config", "get", "x"} // deny list
	case 2:
		return []string{"flushdb"} // in the write arm, not in commandInScript
	case 3:
		return []string{"jdel", "ka", "i0", "p"} // default arm of the script tables
	}
	return []string{"exists", "nokey", "i0"}
}

func upper(w []string) []string {
	o := append([]string{}, w...)
	o[0] = strings.ToUpper(o[0])
	return o
}

// a script of 2-6 calls; spin = busy loops between the calls (microseconds, 0 = none)
func (g *gen) script(variant string, spin int) *sreq {
	n := 2 + g.rng.Intn(5)
	var st []sstmt
	calls := 0
	sp := func() int {
		if spin == 0 || calls == 0 {
			return 0
		}
		return spin/2 + g.rng.Intn(spin)
	}
	writeBias := 45
	for calls < n {
		x := g.rng.Intn(100)
		switch {
		case x < 6: // a call that fails midway, protected or not
			c := call(g.rng.Intn(2) == 0, g.failing()...)
			c.spin = sp()
			st = append(st, c)
			calls++
		case x < 17 && calls+2 <= n: // read-modify-write on the counter
			a := call(false, "get", "kc", "n")
			a.spin = sp()
			st = append(st, a)
			calls++
			b := sstmt{kind: 'C', prot: g.rng.Intn(4) == 0, args: []sarg{lit("set"), lit("kc"), lit("n"), lit("string"), {kind: 'n', i: calls}}}
			b.spin = sp()
			st = append(st, b)
			calls++
		case x < 27 && calls+2 <= n: // test-and-set: write only if the id is absent / present
			k, id := g.key(), g.id()
			a := call(false, "get", k, id)
			a.spin = sp()
			st = append(st, a)
			calls++
			pat := "nil"
			if g.rng.Intn(3) == 0 {
				pat = ":none" // never matches: the guarded call is skipped
			}
			st = append(st, sstmt{kind: 'I', i: calls, pat: pat, k: 1})
			b := call(false, "set", k, id, "string", g.val())
			b.spin = sp()
			st = append(st, b)
			calls++
		case x < 29 && calls > 0:
			st = append(st, sstmt{kind: 'F'})
			calls = n
		case x < 33 && calls+3 <= n: // two writes, then a call that always fails: what was written stays
			for k := 0; k < 2; k++ {
				c := call(false, "set", g.key(), g.id(), "string", g.val())
				c.spin = sp()
				st = append(st, c)
				calls++
			}
			c := call(g.rng.Intn(3) == 0, g.failing()...)
			c.spin = sp()
			st = append(st, c)
			calls++
		default:
			w := g.command(writeBias)
			prot := g.rng.Intn(5) == 0
			if w[0] == "rename" || w[0] == "renamenx" || w[0] == "exists" {
				prot = g.rng.Intn(3) != 0 // these fail whenever the key is missing
			}
			c := call(prot, w...)
			c.spin = sp()
			st = append(st, c)
			calls++
		}
	}
	q := &sreq{name: strings.ToLower(variant), script: true, stmts: st}
	q.words = []string{variant, luaOf(st), "0"}
	return q
}

func (g *gen) plain() *sreq {
	w := upper(g.command(40))
	if g.rng.Intn(12) == 0 {
		w = upper([]string{[]string{"rename", "exists"}[g.rng.Intn(2)], "nokey", "x"})
	}
	return &sreq{words: w, name: strings.ToLower(w[0])}
}

// ---------- running on the real server ----------

// execReq sends one request; admin is a second connection used for SCRIPT LOAD of the -SHA variants
func execReq(c, admin *srv.Conn, q *sreq) {
	words := q.words
	if q.script && strings.HasSuffix(q.name, "sha") {
		sha := admin.MustDo("SCRIPT", "LOAD", q.words[1])
		words = []string{q.words[0], sha.Str, "0"}
	}
	q.send = time.Now()
	v := c.MustDo(words...)
	q.recv = time.Now()
	if !q.script {
		q.canon = canonOfValue(v)
		return
	}
	if v.Kind == '-' {
		q.aborted = true
		q.canon = errClass(v.Str)
		return
	}
	var parts []string
	for _, e := range v.Array {
		cn := canonOfJSON(e.Str)
		q.calls = append(q.calls, cn)
		parts = append(parts, "$"+cn)
	}
	q.canon = "[" + strings.Join(parts, ",") + "]"
}

// dataset in the driver's format: hex(key)/hex(id)=hex(value);...
func stateOf(c *srv.Conn) string {
	kv := c.MustDo("KEYS", "*")
	var keys []string
	for _, k := range kv.Array {
		keys = append(keys, k.Str)
	}
	sort.Strings(keys)
	var parts []string
	for _, k := range keys {
		v := c.MustDo("SCAN", k, "LIMIT", "1000000")
		if len(v.Array) != 2 {
			parts = append(parts, "?"+v.String())
			continue
		}
		for _, o := range v.Array[1].Array {
			if len(o.Array) < 2 {
				parts = append(parts, "?"+o.String())
				continue
			}
			parts = append(parts, model.H(k)+"/"+model.H(o.Array[0].Str)+"="+model.H(o.Array[1].Str))
		}
	}
	return strings.Join(parts, ";")
}

func readAOF(dir string) ([][]string, error) {
	raw, err := os.ReadFile(filepath.Join(dir, "appendonly.aof"))
	if err != nil {
		return nil, err
	}
	var out [][]string
	i := 0
	line := func() (string, bool) {
		j := i
		for j+1 < len(raw) && !(raw[j] == '\r' && raw[j+1] == '\n') {
			j++
		}
		if j+1 >= len(raw) {
			return "", false
		}
		s := string(raw[i:j])
		i = j + 2
		return s, true
	}
	for i < len(raw) {
		l, ok := line()
		if !ok || len(l) == 0 || l[0] != '*' {
			return out, fmt.Errorf("bad array header at byte %d", i)
		}
		n, _ := strconv.Atoi(l[1:])
		var args []string
		for k := 0; k < n; k++ {
			l, ok := line()
			if !ok || len(l) == 0 || l[0] != '$' {
				return out, fmt.Errorf("bad bulk header at byte %d", i)
			}
			m, _ := strconv.Atoi(l[1:])
			if i+m+2 > len(raw) {
				return out, fmt.Errorf("short bulk at byte %d", i)
			}
			args = append(args, string(raw[i:i+m]))
			i += m + 2
		}
		out = append(out, args)
	}
	return out, nil
}

func wordsHex(w []string) string {
	h := make([]string, len(w))
	for i, x := range w {
		h[i] = model.H(x)
	}
	return strings.Join(h, ",")
}

func unhexWords(s string) []string {
	var out []string
	for _, h := range strings.Split(s, ",") {
		out = append(out, model.U(h))
	}
	return out
}

func unhexText(h string) string {
	if h == "-" {
		return ""
	}
	b, err := hex.DecodeString(h)
	if err != nil {
		return "?" + h
	}
	return string(b)
}

// ---------- the model side ----------

type mevent struct {
	tid, rid, cid int
	name, held    string
	pos           int
	kind          string
	f             []string // fields after the kind
}

func parseEvents(toks []string) []mevent {
	var out []mevent
	for _, t := range toks {
		p := strings.Split(t, "|")
		if len(p) < 5 {
			continue
		}
		var e mevent
		fmt.Sscanf(p[0], "%d.%d.%d", &e.tid, &e.rid, &e.cid)
		e.name, e.held = p[1], p[2]
		e.pos, _ = strconv.Atoi(p[3])
		e.kind = p[4]
		e.f = p[5:]
		out = append(out, e)
	}
	return out
}

// does what the model did in one unit agree with what the real server answered for that request?
// returns the records the unit logged
func unitAgrees(evs []mevent, progs [][]*sreq) (recs [][]string, uncertain bool, ok bool, why string) {
	for _, e := range evs {
		if e.tid >= len(progs) || e.rid >= len(progs[e.tid]) {
			return nil, false, false, "event of an unknown request"
		}
		q := progs[e.tid][e.rid]
		switch e.kind {
		case "exec":
			rep := unhexText(e.f[1])
			if e.f[3] == "1" {
				recs = append(recs, unhexWords(e.f[0]))
			}
			if q.script && q.calls == nil {
				// the script was aborted later: the server never said what this call returned. A command
				// that updates only sometimes may have run at another instant with another outcome.
				// And what a read returned may decide what the script did next.
				uncertain = true
			}
			if !q.script {
				if rep != q.canon {
					return nil, false, false, fmt.Sprintf("conn %d request %d %q: model replies %s, server replied %s", e.tid, e.rid, q.words, rep, q.canon)
				}
			} else if q.calls != nil {
				if e.cid >= len(q.calls) {
					return nil, false, false, fmt.Sprintf("conn %d request %d: model makes call #%d, the server's script made %d", e.tid, e.rid, e.cid+1, len(q.calls))
				}
				if rep != q.calls[e.cid] {
					return nil, false, false, fmt.Sprintf("conn %d request %d call #%d %q: model result %s, server result %s", e.tid, e.rid, e.cid+1, unhexWords(e.f[0]), rep, q.calls[e.cid])
				}
			}
		case "refused":
			rep := unhexText(e.f[1])
			if q.calls != nil {
				if e.cid >= len(q.calls) || rep != q.calls[e.cid] {
					got := "(none)"
					if e.cid < len(q.calls) {
						got = q.calls[e.cid]
					}
					return nil, false, false, fmt.Sprintf("conn %d request %d call #%d %q: model refuses with %s, server result %s", e.tid, e.rid, e.cid+1, unhexWords(e.f[0]), rep, got)
				}
			}
		case "ans":
			rep := unhexText(e.f[0])
			if rep != q.canon {
				return nil, false, false, fmt.Sprintf("conn %d request %d (%s): model answers %s, server answered %s", e.tid, e.rid, q.name, rep, q.canon)
			}
		}
	}
	return recs, uncertain, true, ""
}

func sameWords(a, b []string) bool {
	if len(a) != len(b) {
		return false
	}
	for i := range a {
		if a[i] != b[i] {
			return false
		}
	}
	return true
}

type searcher struct {
	drv     *model.Driver
	progs   [][]*sreq
	aof     [][]string
	nodes   int
	limit   int
	stuck   string // description of the deepest dead end
	deepest int
}

func countEnds(evs []mevent) int {
	n := 0
	for _, e := range evs {
		if e.kind == "end" {
			n++
		}
	}
	return n
}

// real time: a step of connection u's current request cannot come before the end of a request of
// another connection that was answered before u's request was sent
func (s *searcher) tooEarly(u int, cur []int) (bool, string) {
	if cur[u] >= len(s.progs[u]) {
		return false, ""
	}
	q := s.progs[u][cur[u]]
	if q.send.IsZero() {
		return false, ""
	}
	for t := range s.progs {
		if t == u || cur[t] >= len(s.progs[t]) {
			continue
		}
		p := s.progs[t][cur[t]]
		if !p.recv.IsZero() && p.recv.Before(q.send) {
			return true, fmt.Sprintf("conn %d request %d was answered before conn %d request %d was sent", t, cur[t], u, cur[u])
		}
	}
	return false, ""
}

// search for a schedule (sequence of units) that reproduces replies and file order.
// cur[t] = number of requests connection t has completed in the model.
func (s *searcher) run(sid string, pos int, cur []int) (string, bool) {
	for {
		s.nodes++
		if s.nodes > s.limit {
			return sid, false
		}
		progress := false
		type cand struct {
			t    int
			sid  string
			recs [][]string
			ends int
		}
		var cands []cand
		var notes []string
		alldone := true
		for t := range s.progs {
			if cur[t] >= len(s.progs[t]) {
				continue
			}
			alldone = false
			if early, why := s.tooEarly(t, cur); early {
				notes = append(notes, fmt.Sprintf("conn %d waits: %s", t, why))
				continue
			}
			rep := strings.Fields(s.drv.Ask("unit", sid, strconv.Itoa(t)))
			if len(rep) < 2 || rep[1] != "ok" {
				notes = append(notes, fmt.Sprintf("conn %d: driver said %q", t, strings.Join(rep, " ")))
				continue
			}
			evs := parseEvents(rep[2:])
			recs, uncertain, ok, why := unitAgrees(evs, s.progs)
			if !ok {
				notes = append(notes, why)
				continue
			}
			// the records must be the next ones of the file
			fit := pos+len(recs) <= len(s.aof)
			for i := 0; fit && i < len(recs); i++ {
				fit = sameWords(recs[i], s.aof[pos+i])
			}
			if !fit {
				nxt := "(end of file)"
				if pos < len(s.aof) {
					nxt = fmt.Sprintf("%q", s.aof[pos])
				}
				notes = append(notes, fmt.Sprintf("conn %d: its next unit would log %q, the file continues with %s", t, recs, nxt))
				continue
			}
			if len(recs) == 0 && !uncertain {
				sid = rep[0]
				cur[t] += countEnds(evs)
				progress = true
				break // the state changed: re-evaluate everybody
			}
			cands = append(cands, cand{t, rep[0], recs, countEnds(evs)})
		}
		if progress {
			continue
		}
		if alldone {
			return sid, pos == len(s.aof)
		}
		if len(cands) == 0 {
			if pos >= s.deepest {
				s.deepest = pos
				s.stuck = fmt.Sprintf("after %d of %d file records no connection can move: %s", pos, len(s.aof), strings.Join(notes, " | "))
			}
			return sid, false
		}
		if len(cands) == 1 {
			sid = cands[0].sid
			pos += len(cands[0].recs)
			cur[cands[0].t] += cands[0].ends
			continue
		}
		// units that log first: the file says they come now
		sort.SliceStable(cands, func(i, j int) bool { return len(cands[i].recs) > len(cands[j].recs) })
		for _, c := range cands {
			c2 := append([]int{}, cur...)
			c2[c.t] += c.ends
			if fs, ok := s.run(c.sid, pos+len(c.recs), c2); ok {
				return fs, true
			}
			if s.nodes > s.limit {
				break
			}
		}
		return sid, false
	}
}

func loadPrograms(drv *model.Driver, progs [][]*sreq) string {
	drv.Ask("new")
	for t, p := range progs {
		for _, q := range p {
			drv.Ask(append([]string{"req", strconv.Itoa(t)}, driverTokens(q)...)...)
		}
	}
	return drv.Ask("init")
}

// which records a request must have produced, judged from its replies alone (false = cannot tell:
// a script aborted by a failing call does not say what its earlier calls returned)
func expectedRecords(q *sreq) ([][]string, bool) {
	updated := func(words []string, rep string) bool {
		switch strings.ToLower(words[0]) {
		case "set", "rename":
			return rep == "+OK"
		case "del", "drop", "renamenx":
			return rep == ":1"
		case "pdel":
			return strings.HasPrefix(rep, ":") && rep != ":0"
		}
		return false
	}
	if !q.script {
		if updated(q.words, q.canon) {
			return [][]string{q.words}, true
		}
		return nil, true
	}
	if strings.HasPrefix(q.name, "evalro") {
		return nil, true
	}
	if q.calls == nil {
		return nil, false
	}
	// walk the statements as the script did
	var recs [][]string
	ci := 0
	okw := true
	var walk func(ss []sstmt)
	walk = func(ss []sstmt) {
		for idx := 0; idx < len(ss) && okw; idx++ {
			s := ss[idx]
			switch s.kind {
			case 'F':
				okw = false
			case 'I':
				if s.i-1 < len(q.calls) && q.calls[s.i-1] == s.pat {
					walk(ss[idx+1 : idx+1+s.k])
				}
				idx += s.k
			case 'C':
				var words []string
				for _, a := range s.args {
					if a.kind == 'h' {
						words = append(words, a.lit)
						continue
					}
					if a.i-1 >= len(q.calls) || !strings.HasPrefix(q.calls[a.i-1], "$") {
						okw = false
						return
					}
					n, err := strconv.Atoi(q.calls[a.i-1][1:])
					if err != nil {
						okw = false
						return
					}
					words = append(words, strconv.Itoa(n+1))
				}
				if ci >= len(q.calls) {
					okw = false
					return
				}
				if updated(words, q.calls[ci]) {
					recs = append(recs, words)
				}
				ci++
			}
		}
	}
	walk(q.stmts)
	return recs, okw && ci == len(q.calls)
}

// every write command the script text can issue ("*" = an argument computed from an earlier result)
func potentialRecords(q *sreq) [][]string {
	var out [][]string
	for _, s := range q.stmts {
		if s.kind != 'C' {
			continue
		}
		var words []string
		for _, a := range s.args {
			if a.kind == 'h' {
				words = append(words, a.lit)
			} else {
				words = append(words, "*")
			}
		}
		switch strings.ToLower(words[0]) {
		case "set", "del", "pdel", "drop", "rename", "renamenx":
			out = append(out, words)
		}
	}
	return out
}

func matchesPotential(rec []string, pots [][]string) bool {
	for _, p := range pots {
		if len(p) != len(rec) {
			continue
		}
		ok := true
		for i := range p {
			if p[i] != "*" && p[i] != rec[i] {
				ok = false
				break
			}
		}
		if ok {
			return true
		}
	}
	return false
}

// ---------- sequential correspondence ----------

func runSequential(r *hx.Result, cfg hx.Config, rng *rand.Rand, drv *model.Driver, hnum int, nreq int) {
	dir := filepath.Join(cfg.Work, fmt.Sprintf("seq%d", hnum))
	s, err := srv.Start(dir)
	if err != nil {
		panic(err)
	}
	defer func() { s.Kill() }()
	c := s.MustDial()
	defer c.Close()
	admin := s.MustDial()
	defer admin.Close()
	g := &gen{rng: rng, tag: fmt.Sprintf("q%d", hnum), keys: []string{"ka", "kb"}, ids: []string{"i0", "i1", "i10", "i2"}}
	variants := []string{"EVAL", "EVALSHA", "EVALNA", "EVALNASHA", "EVALRO", "EVALROSHA"}
	prog := []*sreq{{words: []string{"SET", "kc", "n", "STRING", "0"}, name: "set"}}
	for len(prog) < nreq {
		if rng.Intn(3) == 0 {
			prog = append(prog, g.plain())
		} else {
			prog = append(prog, g.script(variants[rng.Intn(len(variants))], 0))
		}
	}
	for _, q := range prog {
		ro := q.script && strings.HasPrefix(q.name, "evalro")
		var before string
		if ro {
			before = stateOf(c)
		}
		execReq(c, admin, q)
		if ro {
			if after := stateOf(c); after != before {
				r.Fail(hx.Failure{Kind: "oracle", Signature: "evalro-changed-data", What: fmt.Sprintf("the dataset changed across %s %q", q.words[0], q.words[1]), Case: map[string]string{"before": before, "after": after}})
			}
		}
		r.Dist("seq:" + q.name)
		if q.aborted {
			r.Dist("seq:aborted-script")
		}
	}
	live := stateOf(c)
	c.Close()
	admin.Close()
	s.Stop()
	aof, err := readAOF(dir)
	if err != nil {
		r.Fail(hx.Failure{Kind: "oracle", Signature: "aof-unparsable", What: err.Error()})
		return
	}
	// the model, same program, the only schedule there is
	progs := [][]*sreq{prog}
	sid := loadPrograms(drv, progs)
	var logged [][]string
	for {
		rep := strings.Fields(drv.Ask("unit", sid, "0"))
		if len(rep) < 2 || rep[1] != "ok" {
			break
		}
		sid = rep[0]
		recs, _, ok, why := unitAgrees(parseEvents(rep[2:]), progs)
		if !ok {
			r.Fail(hx.Failure{Kind: "correspondence", Signature: "script-model-reply", What: "sequential history: " + why})
			return
		}
		logged = append(logged, recs...)
	}
	same := len(logged) == len(aof)
	for i := 0; same && i < len(aof); i++ {
		same = sameWords(logged[i], aof[i])
	}
	if !same {
		r.Fail(hx.Failure{Kind: "correspondence", Signature: "script-model-log", What: fmt.Sprintf("sequential history: the model logs %d records, the append-only file has %d (first difference shown)", len(logged), len(aof)), Impl: firstDiff(aof, logged), Model: firstDiff(logged, aof)})
		return
	}
	if ms := strings.TrimPrefix(drv.Ask("state", sid), "="); ms != live {
		r.Fail(hx.Failure{Kind: "correspondence", Signature: "script-model-state", What: "sequential history: final dataset of the model differs from the server's", Impl: live, Model: ms})
	}
	scripts, aborted := 0, 0
	for _, q := range prog {
		if q.script {
			scripts++
		}
		if q.aborted {
			aborted++
		}
	}
	r.Count(fmt.Sprintf("sequential history %d: %d requests, %d scripts (%d aborted by a failing call), %d records", hnum, len(prog), scripts, aborted, len(aof)), scripts >= 2 && len(aof) >= 2)
	r.TracesImpl++
	r.Sample(10, map[string]interface{}{"sequential_history": hnum, "requests": len(prog), "scripts": scripts, "aborted_scripts": aborted, "aof_records": len(aof)})
}

func firstDiff(a, b [][]string) interface{} {
	for i := range a {
		if i >= len(b) || !sameWords(a[i], b[i]) {
			return map[string]interface{}{"index": i, "record": a[i]}
		}
	}
	if len(b) > len(a) {
		return map[string]interface{}{"index": len(a), "record": "(none)"}
	}
	return nil
}

// ---------- concurrent histories ----------

func runConcurrent(r *hx.Result, cfg hx.Config, rng *rand.Rand, drv *model.Driver, hnum int) {
	dir := filepath.Join(cfg.Work, fmt.Sprintf("conc%d", hnum))
	extra := []string{}
	if hnum%3 == 2 {
		extra = append(extra, "--spinlock")
	}
	s, err := srv.Start(dir, extra...)
	if err != nil {
		panic(err)
	}
	defer func() { s.Kill() }()
	nconn := 3 + rng.Intn(4)
	perConn := 6 + rng.Intn(5)
	kinds := []string{"atomic", "na", "plain", "ro", "atomic", "na"}
	rng.Shuffle(len(kinds), func(i, j int) { kinds[i], kinds[j] = kinds[j], kinds[i] })
	kinds[0] = "atomic" // at least one of each of the two interesting kinds
	kinds[1] = "na"
	progs := make([][]*sreq, nconn)
	for t := 0; t < nconn; t++ {
		g := &gen{rng: rand.New(rand.NewSource(rng.Int63())), tag: fmt.Sprintf("h%dc%d", hnum, t), keys: []string{"ka", "kb"}, ids: []string{"i0", "i1", "i2"}}
		for j := 0; j < perConn; j++ {
			var q *sreq
			spin := 300 + g.rng.Intn(1500)
			switch kinds[t%len(kinds)] {
			case "atomic":
				q = g.script([]string{"EVAL", "EVALSHA"}[g.rng.Intn(2)], spin)
			case "na":
				if g.rng.Intn(4) == 0 {
					q = g.plain()
				} else {
					q = g.script([]string{"EVALNA", "EVALNASHA"}[g.rng.Intn(2)], spin)
				}
			case "ro":
				if g.rng.Intn(3) == 0 {
					q = g.plain()
				} else {
					q = g.script([]string{"EVALRO", "EVALROSHA"}[g.rng.Intn(2)], spin)
				}
			default:
				q = g.plain()
			}
			progs[t] = append(progs[t], q)
		}
	}
	// the counter the read-modify-write scripts work on exists before anybody starts
	setup := &sreq{words: []string{"SET", "kc", "n", "STRING", "0"}, name: "set"}
	{
		c := s.MustDial()
		execReq(c, c, setup)
		c.Close()
	}
	progs[0] = append([]*sreq{setup}, progs[0]...)
	var wg sync.WaitGroup
	died := make([]string, nconn)
	for t := 0; t < nconn; t++ {
		wg.Add(1)
		go func(t int) {
			defer wg.Done()
			defer func() {
				if e := recover(); e != nil {
					died[t] = fmt.Sprint(e)
				}
			}()
			c := s.MustDial()
			defer c.Close()
			admin := s.MustDial()
			defer admin.Close()
			for j, q := range progs[t] {
				if t == 0 && j == 0 {
					continue
				}
				execReq(c, admin, q)
			}
		}(t)
	}
	wg.Wait()
	for t, d := range died {
		if d != "" {
			r.Fail(hx.Failure{Kind: "oracle", Signature: "server-died", What: fmt.Sprintf("connection %d failed during a concurrent history: %s; log: %s", t, d, s.LogTail(400))})
			return
		}
	}
	c := s.MustDial()
	live := stateOf(c)
	c.Close()
	s.Stop()
	aof, err := readAOF(dir)
	if err != nil {
		r.Fail(hx.Failure{Kind: "oracle", Signature: "aof-unparsable", What: err.Error()})
		return
	}
	// (iv) restart
	s2, err := srv.StartPort(dir, srv.FreePort(), extra...)
	if err != nil {
		r.Fail(hx.Failure{Kind: "oracle", Signature: "restart-failed", What: err.Error()})
		return
	}
	c2 := s2.MustDial()
	after := stateOf(c2)
	c2.Close()
	s2.Stop()
	if after != live {
		r.Fail(hx.Failure{Kind: "oracle", Signature: "script-write-not-logged", What: "concurrent history: after a restart the dataset differs from the live one (a script write, possibly of a script that was aborted later, is missing from or extra in the log)", Case: map[string]string{"live": live, "after_restart": after}})
	}
	// (i) / (v): position of every record in the file (values are unique, so SET records are)
	index := map[string][]int{}
	for i, rec := range aof {
		k := strings.Join(rec, "\x00")
		index[k] = append(index[k], i)
	}
	interleaved := 0 // EVALNA runs with somebody else's record between two of theirs
	atomicMulti := 0
	unknown := 0
	abortedLogged := 0 // atomic scripts aborted by a failing call that had logged something before
	expectedTotal := 0
	for t := range progs {
		for j, q := range progs[t] {
			exp, known := expectedRecords(q)
			if !known {
				unknown++
				if q.script && (q.name == "eval" || q.name == "evalsha") {
					// aborted by a failing call: whatever it logged before must still be one block.
					// Its SET records are recognisable by their values.
					pots := potentialRecords(q)
					lo, hi := -1, -1
					for _, p := range pots {
						if strings.ToLower(p[0]) != "set" || p[len(p)-1] == "*" {
							continue
						}
						for _, x := range index[strings.Join(p, "\x00")] {
							if lo < 0 || x < lo {
								lo = x
							}
							if x > hi {
								hi = x
							}
						}
					}
					for x := lo; lo >= 0 && x <= hi; x++ {
						if !matchesPotential(aof[x], pots) {
							r.Fail(hx.Failure{Kind: "oracle", Signature: "eval-records-not-contiguous", What: fmt.Sprintf("conn %d request %d (%s, aborted by a failing call): the record %q of another request lies between records of this script in the append-only file", t, j, q.name, aof[x]), Case: map[string]interface{}{"file_around": aof[max(0, lo-1):min(len(aof), hi+2)]}})
							break
						}
					}
					if lo >= 0 {
						abortedLogged++
					}
				}
				continue
			}
			expectedTotal += len(exp)
			if len(exp) == 0 {
				continue
			}
			// anchor: a record that occurs once in the file
			anchor, apos := -1, -1
			missing := false
			for i, rec := range exp {
				ps := index[strings.Join(rec, "\x00")]
				if len(ps) == 0 {
					missing = true
					r.Fail(hx.Failure{Kind: "oracle", Signature: "acked-script-write-not-in-aof", What: fmt.Sprintf("conn %d request %d (%s): the call %q reported an update but has no record in the append-only file", t, j, q.name, rec)})
					break
				}
				if len(ps) == 1 && anchor < 0 {
					anchor, apos = i, ps[0]
				}
			}
			if missing || anchor < 0 {
				continue
			}
			atomic := q.script && (q.name == "eval" || q.name == "evalsha")
			if atomic || !q.script {
				start := apos - anchor
				okc := start >= 0 && start+len(exp) <= len(aof)
				for i := 0; okc && i < len(exp); i++ {
					okc = sameWords(aof[start+i], exp[i])
				}
				if len(exp) >= 2 {
					atomicMulti++
				}
				if !okc {
					lo, hi := max(0, start-1), min(len(aof), start+len(exp)+2)
					r.Fail(hx.Failure{Kind: "oracle", Signature: "eval-records-not-contiguous", What: fmt.Sprintf("conn %d request %d (%s): its %d records are not one contiguous block in call order in the append-only file", t, j, q.name, len(exp)), Case: map[string]interface{}{"expected_block": exp, "file_around": aof[lo:hi]}})
				}
			} else {
				// EVALNA: in call order, once each; others may come in between
				last := -1
				for _, rec := range exp {
					ps := index[strings.Join(rec, "\x00")]
					p := -1
					for _, x := range ps {
						if x > last {
							p = x
							break
						}
					}
					if p < 0 {
						r.Fail(hx.Failure{Kind: "oracle", Signature: "evalna-records-out-of-order", What: fmt.Sprintf("conn %d request %d (%s): the record %q is not after the records of its earlier calls", t, j, q.name, rec)})
						break
					}
					if last >= 0 && p != last+1 {
						interleaved++
					}
					last = p
				}
			}
		}
	}
	if unknown == 0 && expectedTotal != len(aof) {
		r.Fail(hx.Failure{Kind: "oracle", Signature: "aof-record-count", What: fmt.Sprintf("concurrent history: the replies account for %d records, the append-only file has %d", expectedTotal, len(aof))})
	}
	// correspondence: replay of the file through the model's start-up semantics
	var recs []string
	for _, rec := range aof {
		recs = append(recs, wordsHex(rec))
	}
	args := []string{"replay"}
	if len(recs) > 0 {
		args = append(args, strings.Join(recs, "|"))
	}
	if ms := strings.TrimPrefix(drv.Ask(args...), "="); ms != live {
		r.Fail(hx.Failure{Kind: "correspondence", Signature: "script-model-replay", What: "concurrent history: replaying the append-only file through the model's start-up semantics does not give the live dataset", Impl: live, Model: ms})
	}
	// correspondence: a schedule of the model that explains everything observed
	sid := loadPrograms(drv, progs)
	se := &searcher{drv: drv, progs: progs, aof: aof, limit: 20000}
	fs, ok := se.run(sid, 0, make([]int, nconn))
	if !ok && se.nodes > se.limit {
		r.Dist("conc:schedule-search-inconclusive")
	} else if !ok {
		what := se.stuck
		r.Fail(hx.Failure{Kind: "correspondence", Signature: "no-schedule-explains-history", What: "concurrent history: no schedule of the model (atomic scripts as one unit, EVALNA scripts call by call) reproduces the observed replies and the order of the append-only file: " + what,
			Case: map[string]interface{}{"history": hnum, "connections": nconn, "kinds": kinds[:min(nconn, len(kinds))], "aof": aof}})
	} else if ms := strings.TrimPrefix(drv.Ask("state", fs), "="); ms != live {
		r.Fail(hx.Failure{Kind: "correspondence", Signature: "script-model-state", What: "concurrent history: under the schedule that explains replies and file order the model's final dataset differs from the server's", Impl: live, Model: ms})
	}
	scripts, aborted := 0, 0
	for t := range progs {
		for _, q := range progs[t] {
			if q.script {
				scripts++
			}
			if q.aborted {
				aborted++
			}
		}
	}
	r.Count(fmt.Sprintf("concurrent history %d: %d connections, %d scripts (%d aborted), %d records, %d multi-record atomic blocks, %d interleaved EVALNA gaps", hnum, nconn, scripts, aborted, len(aof), atomicMulti, interleaved), nconn >= 2 && atomicMulti > 0)
	r.Dist(fmt.Sprintf("conc:lock%v", extra))
	r.TracesImpl++
	r.Sample(14, map[string]interface{}{"concurrent_history": hnum, "connections": nconn, "scripts": scripts, "aborted_scripts": aborted, "aof_records": len(aof),
		"atomic_blocks_with_2plus_records": atomicMulti, "evalna_gaps_with_foreign_records": interleaved, "requests_with_unknown_record_set": unknown, "aborted_atomic_scripts_with_records": abortedLogged, "schedule_search_nodes": se.nodes, "spinlock": len(extra) > 0})
}

func max(a, b int) int {
	if a > b {
		return a
	}
	return b
}

func runScriptModel(r *hx.Result, cfg hx.Config, rng *rand.Rand) {
	drv, err := model.Start("script")
	if err != nil {
		panic(err)
	}
	defer drv.Close()
	seq, seqLen, conc := 3, 70, 5
	if cfg.Tier == "thorough" || cfg.Search {
		seq, seqLen, conc = 12, 150, 40
	}
	runPoolModel(r, cfg, rng, drv)
	runMemoryProbe(r, cfg)
	runExistingGlobalFinding(r, cfg, drv)
	kills := 1
	if cfg.Tier == "thorough" || cfg.Search {
		kills = 6
	}
	for k := 0; k < kills; k++ {
		runKillAtReply(r, cfg, drv, k)
	}
	for h := 0; h < seq; h++ {
		runSequential(r, cfg, rng, drv, h, seqLen)
	}
	for h := 0; h < conc; h++ {
		runConcurrent(r, cfg, rng, drv, h)
	}
}
