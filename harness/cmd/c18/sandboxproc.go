// C18, fifth part: what a script can do to the process and to the interpreters it shares with everybody.
package main

import (
	"fmt"
	"os"
	"path/filepath"
	"strings"
	"time"

	"verifharness/internal/hx"
	"verifharness/internal/model"
	"verifharness/internal/srv"
)

// A script that holds a few hundred MB for a moment must get an answer (a value or an error) and the server
// must still be there afterwards, with the write the script made before. The server runs under `ulimit -v`
// so that a genuinely runaway allocation cannot hurt the machine the harness runs on.
func runMemoryProbe(r *hx.Result, cfg hx.Config) {
	dir := filepath.Join(cfg.Work, "mem")
	os.MkdirAll(dir, 0o755)
	wrapper := filepath.Join(cfg.Work, "server-ulimit.sh")
	os.WriteFile(wrapper, []byte("#!/bin/sh\nulimit -v 3145728\nexec "+srv.ServerBin()+" \"$@\"\n"), 0o755)
	old, had := os.LookupEnv("VERIF_SERVER")
	os.Setenv("VERIF_SERVER", wrapper)
	s, err := srv.Start(dir)
	if had {
		os.Setenv("VERIF_SERVER", old)
	} else {
		os.Unsetenv("VERIF_SERVER")
	}
	if err != nil {
		panic(err)
	}
	defer func() { s.Kill() }()
	c := s.MustDial()
	defer c.Close()
	c.Timeout = 30 * time.Second
	c.MustDo("SET", "mk", "base", "STRING", "b")
	script := "tile38.call('set','mk','a','string','written-by-the-script') local s = string.rep('x', 1048576) local t = {} " +
		"for i = 1, 320 do t[i] = s .. i end local t0 = os.clock() while os.clock() - t0 < 0.35 do end return #t"
	v, err := c.Do("EVAL", script, "0")
	r.Count("a script that holds 320 MB for 0.35 s", true)
	r.Dist("memory-probe")
	alive := s.Alive()
	var after srv.Value
	if err == nil {
		after, err = c.Do("GET", "mk", "a")
	}
	if err != nil || !alive || !s.Alive() {
		r.Fail(hx.Failure{Kind: "oracle", Signature: "script-killed-the-server", What: fmt.Sprintf("a script that holds about 320 MB of strings for 0.35 s got no answer / the server process is gone (error: %v; alive: %v; reply: %s): script code reached the process; log: %s", err, s.Alive(), v.String(), strings.TrimSpace(s.LogTail(200))),
			Case: map[string]string{"script": script}})
		return
	}
	if v.Kind != '-' && after.Str != "written-by-the-script" {
		r.Fail(hx.Failure{Kind: "oracle", Signature: "script-write-not-logged", What: "the write of the memory-hungry script is gone: " + after.String()})
	}
	r.Sample(24, map[string]interface{}{"memory_probe_reply": v.String(), "server_alive": true})
}

// FINDING C18-existing-global-overwritten (open): the __newindex guard only sees names that do not exist. A
// script can set a registered global to nil, and can keep data of its call in a field of a registered table;
// both stay in the pooled interpreter for every later script of every client. The model says so too
// (c18g_idle_interpreters_have_allowlist_globals_refuted).
func runExistingGlobalFinding(r *hx.Result, cfg hx.Config, drv *model.Driver) {
	dir := filepath.Join(cfg.Work, "existing")
	s, err := srv.Start(dir)
	if err != nil {
		panic(err)
	}
	defer func() { s.Kill() }()
	a, b := s.MustDial(), s.MustDial()
	defer a.Close()
	defer b.Close()
	a.MustDo("EVAL", "tile38.zz_stash = ARGV[1] return 1", "0", "secret-of-connection-A")
	v := b.MustDo("EVALRO", "return tostring(tile38.zz_stash)", "0")
	r.Count("existing-global/table-field", true)
	if v.Str == "secret-of-connection-A" {
		r.Fail(hx.Failure{Kind: "oracle", Signature: "sandbox-table-field-survives-call", What: "connection A: EVAL \"tile38.zz_stash = ARGV[1] return 1\" 0 secret-of-connection-A; connection B: EVALRO \"return tostring(tile38.zz_stash)\" 0 answers " + v.String() + ": a call's argument survives the call in a field of a registered table"})
	}
	a.MustDo("EVAL", "tostring = nil return 1", "0")
	w := b.MustDo("EVAL", "return tostring(1)", "0")
	mrep := drv.Ask("globals", "5", "b.0.0", "i.0.Server.cmdEvalUnified.0~tostring=nil", "r.0")
	r.Count("existing-global/registered-name-set-to-nil", true)
	if w.Kind == '-' {
		r.Fail(hx.Failure{Kind: "oracle", Signature: "sandbox-allowlisted-global-overwritten", What: "connection A: EVAL \"tostring = nil return 1\" 0; connection B: EVAL \"return tostring(1)\" 0 fails with " + w.String() + ": a script removed a registered global from the pooled interpreter (the model: " + strings.TrimSpace(mrep) + ")"})
	}
	if (w.Kind == '-') != strings.Contains(mrep, "-tostring") {
		r.Fail(hx.Failure{Kind: "correspondence", Signature: "globals-model", What: "the model and the server disagree on whether `tostring = nil` sticks: model " + mrep + ", server " + w.String()})
	}
}
