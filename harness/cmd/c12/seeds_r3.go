package main

// Round-3 strengthening of C12 (Model/GlobSel.v, Props/C12sel.v, driver ocaml/globsel):
//
//   - several MATCH patterns in one SCAN / SEARCH, ASC and DESC (multiGlobParse + ScanRange /
//     SearchValuesRange) against Model.GlobSel.scan_multi / search_multi (correspondence) and
//     against client-side filtering of the known ids / values (oracle);
//   - HOOKS / CHANS / PDELHOOK / PDELCHAN on a registry that holds hooks *and* channels with
//     interleaved names against Model.GlobSel.hook_walk / pdel_hooks (correspondence) and
//     client-side filtering (oracle);
//   - the unfiltered COUNT shortcut: in-package histories of Collection.Set / Delete over
//     strings, points, geometries and *empty* geometries with a small id alphabet (so that ids
//     are replaced by objects of another kind and deleted again) against Model.Collection
//     (correspondence on Count / StringCount / the two listings) and the direct oracle
//     StringCount() = |SearchValues|, Count() = |Scan|; black-box histories of SET / DEL / PDEL /
//     expiry with COUNT compared to the number of ids of the same query after every step.

import (
	"fmt"
	"math"
	"math/rand"
	"path/filepath"
	"sort"
	"strconv"
	"strings"
	"time"

	"github.com/tidwall/tile38/verifapi"
	"verifharness/internal/hx"
	"verifharness/internal/model"
	"verifharness/internal/srv"
)

func c12Round3(r *hx.Result, cfg hx.Config) {
	r.Rule += " round-3: pattern sets of 1-3 MATCH clauses (prefixes taken from stored ids / values, different prefixes in one set) x ASC/DESC x SCAN/SEARCH; registries mixing hooks and channels under interleaved names x HOOKS/CHANS/PDELHOOK/PDELCHAN patterns; collection histories (Set/Delete of strings, points, geometries, empty geometries, kind-changing replacements, expiring objects) with COUNT compared to the number of ids after every step; non-trivial = distinct (dataset, query) selecting a non-empty strict subset, resp. a history step after which the collection holds both string and spatial objects."
	r.Assumptions = append(r.Assumptions,
		"hooks and channels are created on a key that is never written, with an endpoint that is never contacted",
		"Model.Collection objects carry the attributes read through the real object methods (verifapi.Attrs)")
	rng := rand.New(rand.NewSource(cfg.Seed))
	sel, err := model.Start("globsel")
	if err != nil {
		panic(err)
	}
	defer sel.Close()
	c12MultiMatch(r, cfg, rng, sel)
	c12LiteralMatch(r, cfg, rng, sel)
	c12HooksChans(r, cfg, rng, sel)
	c12CountInPackage(r, cfg, rng)
	c12CountBlackBox(r, cfg, rng)
	c12Round5(r, cfg, rng, sel) // seeds_r5.go: escapes in patterns, filters over HTTP / native transports
}

func r3q(s string) string { return fmt.Sprintf("%q", s) }
func r3qs(l []string) string {
	return fmt.Sprintf("%q", l)
}

// reply of the globsel driver: <n> {hex}
func modelList(reply string) ([]string, bool) {
	f := strings.Fields(reply)
	if len(f) == 0 {
		return nil, false
	}
	n, err := strconv.Atoi(f[0])
	if err != nil || len(f) != n+1 {
		return nil, false
	}
	out := make([]string, 0, n)
	for _, h := range f[1:] {
		out = append(out, model.U(h))
	}
	return out, true
}

// reply of scan_multi / search_multi: <count> <n> {hex}
func modelCountList(reply string) (int, []string, bool) {
	cs, rest, ok := strings.Cut(reply, " ")
	if !ok {
		return 0, nil, false
	}
	cnt, err := strconv.Atoi(cs)
	if err != nil {
		return 0, nil, false
	}
	l, ok := modelList(rest)
	return cnt, l, ok
}

func sameList(a, b []string) bool {
	if len(a) != len(b) {
		return false
	}
	for i := range a {
		if a[i] != b[i] {
			return false
		}
	}
	return true
}

func anyMatch(pats []string, s string) bool {
	if len(pats) == 0 {
		return true
	}
	for _, p := range pats {
		if ok, _ := verifapi.GlobMatch(p, s); ok {
			return true
		}
	}
	return false
}

func anyPrefixFF(pats []string) bool {
	for _, p := range pats {
		if litPrefixEndsFF(p) {
			return true
		}
	}
	return false
}

// ---------------------------------------------------------------------------------------------
// several MATCH patterns
// ---------------------------------------------------------------------------------------------

type mmData struct {
	ids  []string          // ascending
	vals map[string]string // id -> string value (collection strs)
}

func (d mmData) ventries() [][2]string { // (value, id) in (value, id) order
	var out [][2]string
	for _, id := range d.ids {
		out = append(out, [2]string{d.vals[id], id})
	}
	sort.Slice(out, func(i, j int) bool {
		if out[i][0] != out[j][0] {
			return out[i][0] < out[j][0]
		}
		return out[i][1] < out[j][1]
	})
	return out
}

func c12MultiMatch(r *hx.Result, cfg hx.Config, rng *rand.Rand, sel *model.Driver) {
	rounds, queries := 4, 70
	if cfg.Tier == "thorough" || cfg.Search {
		rounds, queries = 40, 300
	}
	s, err := srv.Start(filepath.Join(cfg.Work, "c12mm"), "--appendonly", "no")
	if err != nil {
		panic(err)
	}
	defer s.Kill()
	c := s.MustDial()
	defer c.Close()
	for round := 0; round < rounds; round++ {
		var d mmData
		d.vals = map[string]string{}
		var sets [][]string
		if round == 0 {
			// directed: distinct literal prefixes, ids == values
			d.ids = []string{"apple1", "apple2", "banana1", "cherry1", "cherry2", "date1"}
			for _, id := range d.ids {
				d.vals[id] = id
			}
			sets = [][]string{{"a*"}, {"cherry*"}, {"a*", "cherry*"}, {"cherry*", "a*"}, {"apple1", "cherry*"}, {"date1", "apple2"},
				{"b*", "d*", "a*"}, {"d*", "b*"}, {"a*", "*"}, {"*", "a*"}, {"a*", "?herry1"}, {"a*", "\\cherry1"}, {"apple?", "cherry[12]"},
				{"b*", "b*"}, {"zz*", "a*"}, {"a*", "zz*"}, {"apple1", "apple2"}, {"c*", "a*", "d*"}, {"*"}, {"banana1"}}
		} else {
			seen := map[string]bool{}
			for i := 0; i < 30; i++ {
				id := randFrom(rng, nameAlphabet, 4)
				if id == "" || seen[id] {
					continue
				}
				seen[id] = true
				d.ids = append(d.ids, id)
			}
			sort.Strings(d.ids)
			for _, id := range d.ids {
				v := randFrom(rng, nameAlphabet, 4)
				if v == "" {
					v = "a"
				}
				d.vals[id] = v
			}
		}
		key, skey := fmt.Sprintf("pts%d", round), fmt.Sprintf("strs%d", round)
		for _, id := range d.ids {
			c.MustDo("SET", key, id, "POINT", "1", "1")
			c.MustDo("SET", skey, id, "STRING", d.vals[id])
		}
		// texts the prefixes of random patterns are taken from: ids and values
		var texts []string
		for _, id := range d.ids {
			texts = append(texts, id, d.vals[id])
		}
		randPat := func() string {
			switch rng.Intn(6) {
			case 0:
				p := randFrom(rng, globAlphabet, 4)
				if p == "" {
					p = "*"
				}
				return p
			case 1:
				return texts[rng.Intn(len(texts))]
			default:
				t := texts[rng.Intn(len(texts))]
				cut := 1 + rng.Intn(len(t))
				pre := strings.NewReplacer("*", "\\*", "?", "\\?", "[", "\\[", "\\", "\\\\").Replace(t[:cut])
				if rng.Intn(3) == 0 {
					pre = t[:cut] // unescaped: a metacharacter ends the literal prefix early
				}
				return pre + []string{"*", "*", "?*", "[a-c]*", ""}[rng.Intn(5)]
			}
		}
		for len(sets) < queries {
			n := 1 + rng.Intn(3)
			if rng.Intn(4) > 0 && n == 1 {
				n = 2
			}
			var ps []string
			for i := 0; i < n; i++ {
				ps = append(ps, randPat())
			}
			sets = append(sets, ps)
		}
		ve := d.ventries()
		for _, ps := range sets {
			var margs, hexps []string
			for _, p := range ps {
				margs = append(margs, "MATCH", p)
				hexps = append(hexps, model.H(p))
			}
			ff := anyPrefixFF(ps)
			for _, desc := range []bool{false, true} {
				dir := "ASC"
				if desc {
					dir = "DESC"
				}
				// ----- SCAN -----
				var want []string
				for _, id := range d.ids {
					if anyMatch(ps, id) {
						want = append(want, id)
					}
				}
				if desc {
					want = reverseStrings(want)
				}
				cmd := append(append([]string{"SCAN", key}, margs...), dir, "LIMIT", "100000", "IDS")
				got, ok := idsOf(c.MustDo(cmd...))
				caseOf := func(cmd []string) map[string]interface{} {
					return map[string]interface{}{"round": round, "command": r3qs(cmd), "ids": r3qs(d.ids), "values": fmt.Sprintf("%q", ve)}
				}
				if ok {
					r.Count(fmt.Sprintf("mm/%d/%s/%q", round, dir, ps), len(want) > 0 && len(want) < len(d.ids))
					r.Dist(fmt.Sprintf("mm:scan-%d-%s", len(ps), dir))
					req := append([]string{"scan_multi", model.B(desc), "100000", strconv.Itoa(len(ps))}, hexps...)
					for _, id := range d.ids {
						req = append(req, model.H(id), "1")
					}
					_, mod, mok := modelCountList(sel.Ask(req...))
					if !mok || !sameList(got, mod) {
						r.Fail(hx.Failure{Kind: "correspondence", Signature: "multi-match-model-SCAN-" + dir,
							What: fmt.Sprintf("%s returned %q, Model.GlobSel.scan_multi gives %q", strings.Join(cmd, " "), got, mod),
							Case: caseOf(cmd), Impl: r3qs(got), Model: r3qs(mod)})
					}
					if !sameList(got, want) {
						sig := "filter-SCAN-MULTI-" + dir
						if ff {
							sig += "-prefix-ff"
						}
						r.Fail(hx.Failure{Kind: "oracle", Signature: sig,
							What: fmt.Sprintf("%s returned %q; the ids matching one of the patterns %q are %q", strings.Join(cmd, " "), got, ps, want),
							Case: caseOf(cmd)})
					}
					ccmd := append(append([]string{"SCAN", key}, margs...), dir, "LIMIT", "100000", "COUNT")
					if cv := c.MustDo(ccmd...); cv.Kind == ':' && int(cv.Int) != len(got) {
						sig := "count-SCAN-MULTI-" + dir
						r.Fail(hx.Failure{Kind: "oracle", Signature: sig,
							What: fmt.Sprintf("%s = %d but the IDS form returns %d ids %q", strings.Join(ccmd, " "), cv.Int, len(got), got),
							Case: caseOf(ccmd)})
					}
				}
				// ----- SEARCH (values) -----
				var wantV []string
				for _, e := range ve {
					if anyMatch(ps, e[0]) {
						wantV = append(wantV, e[1])
					}
				}
				if desc {
					wantV = reverseStrings(wantV)
				}
				cmd = append(append([]string{"SEARCH", skey}, margs...), dir, "LIMIT", "100000", "IDS")
				got, ok = idsOf(c.MustDo(cmd...))
				if ok {
					r.Count(fmt.Sprintf("mms/%d/%s/%q", round, dir, ps), len(wantV) > 0 && len(wantV) < len(d.ids))
					r.Dist(fmt.Sprintf("mm:search-%d-%s", len(ps), dir))
					req := append([]string{"search_multi", model.B(desc), "100000", strconv.Itoa(len(ps))}, hexps...)
					for _, e := range ve {
						req = append(req, model.H(e[0]), model.H(e[1]), "1")
					}
					_, mod, mok := modelCountList(sel.Ask(req...))
					if !mok || !sameList(got, mod) {
						r.Fail(hx.Failure{Kind: "correspondence", Signature: "multi-match-model-SEARCH-" + dir,
							What: fmt.Sprintf("%s returned %q, Model.GlobSel.search_multi gives %q", strings.Join(cmd, " "), got, mod),
							Case: caseOf(cmd), Impl: r3qs(got), Model: r3qs(mod)})
					}
					if !sameList(got, wantV) {
						sig := "filter-SEARCH-MULTI-" + dir
						if ff {
							sig += "-prefix-ff"
						}
						r.Fail(hx.Failure{Kind: "oracle", Signature: sig,
							What: fmt.Sprintf("%s returned %q; the ids whose value matches one of the patterns %q are %q", strings.Join(cmd, " "), got, ps, wantV),
							Case: caseOf(cmd)})
					}
					ccmd := append(append([]string{"SEARCH", skey}, margs...), dir, "LIMIT", "100000", "COUNT")
					if cv := c.MustDo(ccmd...); cv.Kind == ':' && int(cv.Int) != len(got) {
						r.Fail(hx.Failure{Kind: "oracle", Signature: "count-SEARCH-MULTI-" + dir,
							What: fmt.Sprintf("%s = %d but the IDS form returns %d ids %q", strings.Join(ccmd, " "), cv.Int, len(got), got),
							Case: caseOf(ccmd)})
					}
				}
			}
		}
		r.Sample(12, map[string]interface{}{"multi_match_round": round, "ids": len(d.ids), "pattern_sets": len(sets), "first": r3qs(sets[0])})
	}
}

// ---------------------------------------------------------------------------------------------
// hooks and channels in one registry
// ---------------------------------------------------------------------------------------------

type hent struct {
	name string
	chan_ bool
}

func hookNames(v srv.Value) ([]string, bool) {
	if v.Kind != '*' {
		return nil, false
	}
	out := []string{}
	for _, h := range v.Array {
		if len(h.Array) == 0 {
			return nil, false
		}
		out = append(out, h.Array[0].Str)
	}
	return out, true
}

func c12HooksChans(r *hx.Result, cfg hx.Config, rng *rand.Rand, sel *model.Driver) {
	rounds, queries := 4, 40
	if cfg.Tier == "thorough" || cfg.Search {
		rounds, queries = 30, 120
	}
	for round := 0; round < rounds; round++ {
		s, err := srv.Start(filepath.Join(cfg.Work, fmt.Sprintf("c12hk-%d", round)), "--appendonly", "no")
		if err != nil {
			panic(err)
		}
		func() {
			defer s.Kill()
			c := s.MustDial()
			defer c.Close()
			var reg []hent
			var pats, pdels []string
			if round == 0 {
				for _, n := range []string{"alpha", "delta", "golf", "hotel"} {
					reg = append(reg, hent{n, false})
				}
				for _, n := range []string{"bravo", "echo", "dingo"} {
					reg = append(reg, hent{n, true})
				}
				pats = []string{"*", "d*", "[a-c]*", "*o*", "?????", "golf", "echo", "e*", "a*", "h*", "[d-h]*", "zz*", "d?????", "\\d*"}
				pdels = []string{"d*", "zz*", "*o*", "*"}
			} else {
				seen := map[string]bool{}
				for i := 0; i < 14; i++ {
					n := randFrom(rng, nameAlphabet, 3)
					if n == "" || seen[n] {
						continue
					}
					seen[n] = true
					reg = append(reg, hent{n, rng.Intn(2) == 0})
				}
				pdels = []string{"a*", "?", "[a-b]*", "*a", "*"}
			}
			sort.Slice(reg, func(i, j int) bool { return reg[i].name < reg[j].name })
			for _, e := range reg {
				var v srv.Value
				if e.chan_ {
					v = c.MustDo("SETCHAN", e.name, "NEARBY", "hk", "FENCE", "POINT", "1", "1", "1000")
				} else {
					v = c.MustDo("SETHOOK", e.name, "http://127.0.0.1:9/never", "NEARBY", "hk", "FENCE", "POINT", "1", "1", "1000")
				}
				if v.IsErr() {
					panic("hook setup failed: " + v.Str)
				}
			}
			for len(pats) < queries {
				p := randFrom(rng, globAlphabet, 4)
				if rng.Intn(3) > 0 && len(reg) > 0 {
					n := reg[rng.Intn(len(reg))].name
					p = n[:rng.Intn(len(n)+1)] + []string{"*", "?*", "[a-c]*", "", "?"}[rng.Intn(5)]
				}
				if p == "" {
					p = "*"
				}
				pats = append(pats, p)
			}
			regToks := func() []string {
				var t []string
				for _, e := range reg {
					t = append(t, model.H(e.name), model.B(e.chan_))
				}
				return t
			}
			regDesc := func() string {
				var sb strings.Builder
				for i, e := range reg {
					if i > 0 {
						sb.WriteByte(' ')
					}
					k := "hook"
					if e.chan_ {
						k = "chan"
					}
					fmt.Fprintf(&sb, "%s:%q", k, e.name)
				}
				return sb.String()
			}
			listing := func(step string, p string) {
				for _, ch := range []bool{false, true} {
					cmdName := "HOOKS"
					if ch {
						cmdName = "CHANS"
					}
					got, ok := hookNames(c.MustDo(cmdName, p))
					if !ok {
						continue
					}
					var want []string
					for _, e := range reg {
						if e.chan_ == ch {
							if m, _ := verifapi.GlobMatch(p, e.name); m {
								want = append(want, e.name)
							}
						}
					}
					r.Count(fmt.Sprintf("hk/%d/%s/%s/%s", round, step, cmdName, p), len(want) > 0 && len(want) < len(reg))
					r.Dist("hk:" + cmdName)
					cs := map[string]interface{}{"round": round, "after": step, "command": cmdName + " " + r3q(p), "registry": regDesc()}
					mod, mok := modelList(sel.Ask(append([]string{"hook_walk", model.B(ch), model.H(p)}, regToks()...)...))
					if !mok || !sameList(got, mod) {
						r.Fail(hx.Failure{Kind: "correspondence", Signature: "hook-walk-model-" + cmdName,
							What: fmt.Sprintf("%s %q lists %q, Model.GlobSel.hook_walk gives %q", cmdName, p, got, mod),
							Case: cs, Impl: r3qs(got), Model: r3qs(mod)})
					}
					if !sameList(got, want) {
						sig := "filter-" + cmdName + "-MIXED"
						if litPrefixEndsFF(p) {
							sig += "-prefix-ff"
						}
						r.Fail(hx.Failure{Kind: "oracle", Signature: sig,
							What: fmt.Sprintf("%s %q lists %q; the registered %s whose name matches are %q (registry: %s)", cmdName, p, got, strings.ToLower(cmdName), want, regDesc()),
							Case: cs})
					}
				}
			}
			for _, p := range pats {
				listing("setup", p)
			}
			// pattern deletes, alternating kinds; after each one the listings of both kinds again
			for i, p := range pdels {
				ch := (i+round)%2 == 1
				cmdName := "PDELHOOK"
				if ch {
					cmdName = "PDELCHAN"
				}
				var keep []hent
				dead := []string{}
				for _, e := range reg {
					m, _ := verifapi.GlobMatch(p, e.name)
					if e.chan_ == ch && m {
						dead = append(dead, e.name)
					} else {
						keep = append(keep, e)
					}
				}
				before := regDesc()
				modReply := sel.Ask(append([]string{"pdel_hooks", model.B(ch), model.H(p)}, regToks()...)...)
				v := c.MustDo(cmdName, p)
				if v.Kind != ':' {
					continue
				}
				r.Count(fmt.Sprintf("hk/%d/%s/%s", round, cmdName, p), len(dead) > 0 && len(keep) > 0)
				r.Dist("hk:" + cmdName)
				cs := map[string]interface{}{"round": round, "command": cmdName + " " + r3q(p), "registry": before}
				mf := strings.Fields(modReply)
				if len(mf) < 2 || mf[0] != fmt.Sprint(v.Int) {
					r.Fail(hx.Failure{Kind: "correspondence", Signature: "pdel-hooks-model-" + cmdName,
						What:  fmt.Sprintf("%s %q answered %d, Model.GlobSel.pdel_hooks deletes %s", cmdName, p, v.Int, mf[0]),
						Case: cs, Impl: fmt.Sprint(v.Int), Model: modReply})
				}
				if int(v.Int) != len(dead) {
					sig := "filter-" + cmdName + "-MIXED"
					if litPrefixEndsFF(p) {
						sig += "-prefix-ff"
					}
					r.Fail(hx.Failure{Kind: "oracle", Signature: sig,
						What: fmt.Sprintf("%s %q answered %d; %d registered names of that kind match: %q (registry: %s)", cmdName, p, v.Int, len(dead), dead, before),
						Case: cs})
				}
				// the survivors, read back by exact names (independent of the pattern walk): HOOKS name / CHANS name
				for _, e := range reg {
					lc := "HOOKS"
					if e.chan_ {
						lc = "CHANS"
					}
					if strings.ContainsAny(e.name, "*?[\\") || e.name == "" || litPrefixEndsFF(e.name) {
						continue
					}
					got, ok := hookNames(c.MustDo(lc, e.name))
					if !ok {
						continue
					}
					m, _ := verifapi.GlobMatch(p, e.name)
					shouldLive := !(e.chan_ == ch && m)
					if (len(got) == 1) != shouldLive {
						r.Fail(hx.Failure{Kind: "oracle", Signature: "filter-" + cmdName + "-MIXED-survivors",
							What: fmt.Sprintf("after %s %q, %s %q lists %q; the entry should be alive=%v (registry before: %s)", cmdName, p, lc, e.name, got, shouldLive, before),
							Case: cs})
					}
				}
				// continue from what the server really holds (so one miss is not reported over and over)
				var now []hent
				for _, e := range reg {
					lc := "HOOKS"
					if e.chan_ {
						lc = "CHANS"
					}
					alive := false
					for _, k := range keep {
						if k == e {
							alive = true
						}
					}
					if !strings.ContainsAny(e.name, "*?[\\") && e.name != "" && !litPrefixEndsFF(e.name) {
						if got, ok := hookNames(c.MustDo(lc, e.name)); ok {
							alive = len(got) == 1
						}
					}
					if alive {
						now = append(now, e)
					}
				}
				reg = now
				for _, lp := range []string{"*", p} {
					listing(cmdName+" "+p, lp)
				}
			}
			r.Sample(16, map[string]interface{}{"hooks_round": round, "registry_at_end": regDesc()})
		}()
	}
}

// ---------------------------------------------------------------------------------------------
// COUNT shortcut, in-package: Collection counters vs Model.Collection and vs the listings
// ---------------------------------------------------------------------------------------------

func f64bits(f float64) string { return strconv.FormatUint(math.Float64bits(f), 10) }

func collSetReq(o *verifapi.Obj) []string {
	a := verifapi.Attrs(o)
	str := a.Str
	if a.Spatial {
		str = ""
	}
	return []string{"set", model.H(a.ID), model.B(a.Spatial), model.B(a.Empty), strconv.Itoa(a.NumPoints), strconv.Itoa(a.Weight),
		model.H(str), strconv.FormatInt(a.Expires, 10), f64bits(a.Rect[0]), f64bits(a.Rect[1]), f64bits(a.Rect[2]), f64bits(a.Rect[3])}
}

type collOp struct {
	text string
	obj  *verifapi.Obj // nil = delete
	id   string
}

var emptyGeos = []string{`{"type":"GeometryCollection","geometries":[]}`, `{"type":"FeatureCollection","features":[]}`}
var fullGeos = []string{`{"type":"LineString","coordinates":[[1,1],[2,2]]}`, `{"type":"GeometryCollection","geometries":[{"type":"Point","coordinates":[3,4]}]}`,
	`{"type":"Polygon","coordinates":[[[0,0],[2,0],[2,2],[0,2],[0,0]]]}`}

func randCollOp(rng *rand.Rand, ids []string) collOp {
	id := ids[rng.Intn(len(ids))]
	var ex int64
	if rng.Intn(5) == 0 {
		ex = int64(1 + rng.Intn(3))
	}
	switch k := rng.Intn(12); {
	case k < 3:
		return collOp{text: "Delete " + r3q(id), id: id}
	case k < 6:
		v := []string{"", "a", "b", "a"}[rng.Intn(4)]
		return collOp{text: fmt.Sprintf("Set %q STRING %q ex=%d", id, v, ex), obj: verifapi.NewStringObj(id, v, ex), id: id}
	case k < 8:
		x, y := float64(rng.Intn(5)), float64(rng.Intn(5))
		return collOp{text: fmt.Sprintf("Set %q POINT %v %v ex=%d", id, x, y, ex), obj: verifapi.NewPointObj(id, x, y, ex), id: id}
	case k < 11:
		js := emptyGeos[rng.Intn(len(emptyGeos))]
		o, err := verifapi.NewGeoObj(id, js, ex)
		if err != nil {
			panic(err)
		}
		return collOp{text: fmt.Sprintf("Set %q OBJECT %s ex=%d", id, js, ex), obj: o, id: id}
	default:
		js := fullGeos[rng.Intn(len(fullGeos))]
		o, err := verifapi.NewGeoObj(id, js, ex)
		if err != nil {
			panic(err)
		}
		return collOp{text: fmt.Sprintf("Set %q OBJECT %s ex=%d", id, js, ex), obj: o, id: id}
	}
}

func objIDs(l []*verifapi.Obj) string {
	if len(l) == 0 {
		return "-"
	}
	var s []string
	for _, o := range l {
		s = append(s, model.H(o.ID()))
	}
	return strings.Join(s, ",")
}

func c12CountInPackage(r *hx.Result, cfg hx.Config, rng *rand.Rand) {
	drv, err := model.Start("coll")
	if err != nil {
		panic(err)
	}
	defer drv.Close()
	histories, steps := 60, 30
	if cfg.Tier == "thorough" || cfg.Search {
		histories, steps = 1500, 60
	}
	mustGeo := func(id, js string) *verifapi.Obj {
		o, err := verifapi.NewGeoObj(id, js, 0)
		if err != nil {
			panic(err)
		}
		return o
	}
	directed := [][]collOp{
		{ // delete of an empty geometry next to strings
			{text: `Set "s1" STRING "x"`, obj: verifapi.NewStringObj("s1", "x", 0), id: "s1"},
			{text: `Set "s2" STRING "y"`, obj: verifapi.NewStringObj("s2", "y", 0), id: "s2"},
			{text: `Set "e1" OBJECT ` + emptyGeos[0], obj: mustGeo("e1", emptyGeos[0]), id: "e1"},
			{text: `Set "e2" OBJECT ` + emptyGeos[1], obj: mustGeo("e2", emptyGeos[1]), id: "e2"},
			{text: `Set "e1" OBJECT ` + emptyGeos[1], obj: mustGeo("e1", emptyGeos[1]), id: "e1"},
			{text: `Delete "e1"`, id: "e1"},
			{text: `Delete "e2"`, id: "e2"},
			{text: `Delete "s1"`, id: "s1"},
		},
		{ // an id changes kind, both ways
			{text: `Set "a" STRING "x"`, obj: verifapi.NewStringObj("a", "x", 0), id: "a"},
			{text: `Set "b" POINT 1 1`, obj: verifapi.NewPointObj("b", 1, 1, 0), id: "b"},
			{text: `Set "c" STRING "z"`, obj: verifapi.NewStringObj("c", "z", 0), id: "c"},
			{text: `Set "a" STRING "y"`, obj: verifapi.NewStringObj("a", "y", 0), id: "a"},
			{text: `Set "b" STRING "w"`, obj: verifapi.NewStringObj("b", "w", 0), id: "b"},
			{text: `Set "a" POINT 2 2`, obj: verifapi.NewPointObj("a", 2, 2, 0), id: "a"},
			{text: `Set "c" OBJECT ` + emptyGeos[0], obj: mustGeo("c", emptyGeos[0]), id: "c"},
			{text: `Set "c" STRING "z"`, obj: verifapi.NewStringObj("c", "z", 0), id: "c"},
			{text: `Delete "b"`, id: "b"},
		},
	}
	for h := 0; h < histories+len(directed); h++ {
		var ops []collOp
		if h < len(directed) {
			ops = directed[h]
		} else {
			ids := []string{"a", "b", "c", "d", "e"}[:2+rng.Intn(4)]
			for i := 0; i < steps; i++ {
				ops = append(ops, randCollOp(rng, ids))
			}
		}
		col := verifapi.NewColl()
		drv.Ask("new")
		var trace []string
		failed := false
		for i, op := range ops {
			trace = append(trace, op.text)
			var mod string
			if op.obj != nil {
				col.Set(op.obj)
				mod = drv.Ask(collSetReq(op.obj)...)
			} else {
				col.Delete(op.id)
				mod = drv.Ask("del", model.H(op.id))
			}
			vals, all := col.SearchValues(false), col.Scan(false)
			impl := fmt.Sprintf("C=%d S=%d ids=%s vals=%s", col.Count(), col.StringCount(), objIDs(all), objIDs(vals))
			// the model summary: C= S= P= W= ids= vals= ex= sp=
			mf := map[string]string{}
			for _, f := range strings.Fields(mod) {
				if k, v, ok := strings.Cut(f, "="); ok {
					mf[k] = v
				}
			}
			modS := fmt.Sprintf("C=%s S=%s ids=%s vals=%s", mf["C"], mf["S"], mf["ids"], mf["vals"])
			mixed := len(vals) > 0 && len(all) > len(vals)
			r.Count(fmt.Sprintf("cnt/%d/%d/%s", h, i, impl), mixed)
			r.Dist("cnt:in-package-step")
			cs := map[string]interface{}{"history": trace[:i+1]}
			if impl != modS && !failed {
				failed = true
				r.Fail(hx.Failure{Kind: "correspondence", Signature: "count-shortcut-model",
					What: fmt.Sprintf("after %s: collection has %s, Model.Collection has %s (C = Count(), S = StringCount() = what the unfiltered SEARCH COUNT answers)", op.text, impl, modS),
					Case: cs, Impl: impl, Model: modS})
			}
			if col.StringCount() != len(vals) || col.Count() != len(all) {
				r.Fail(hx.Failure{Kind: "oracle", Signature: "count-shortcut-counter",
					What: fmt.Sprintf("after the history %q: StringCount()=%d but SearchValues visits %d objects; Count()=%d but Scan visits %d — the unfiltered COUNT shortcut answers something else than the counting iteration",
						trace[:i+1], col.StringCount(), len(vals), col.Count(), len(all)),
					Case: cs})
				break
			}
		}
	}
}

// ---------------------------------------------------------------------------------------------
// COUNT shortcut, black-box: COUNT = number of ids of the same query after every step of a history
// ---------------------------------------------------------------------------------------------

func c12CountBlackBox(r *hx.Result, cfg hx.Config, rng *rand.Rand) {
	histories, steps := 5, 25
	if cfg.Tier == "thorough" || cfg.Search {
		histories, steps = 60, 50
	}
	s, err := srv.Start(filepath.Join(cfg.Work, "c12cnt"), "--appendonly", "no")
	if err != nil {
		panic(err)
	}
	defer s.Kill()
	c := s.MustDial()
	defer c.Close()
	queries := [][]string{{"SEARCH"}, {"SEARCH", "MATCH", "*"}, {"SEARCH", "DESC"}, {"SEARCH", "LIMIT", "2"}, {"SEARCH", "CURSOR", "1"},
		{"SEARCH", "WHERE", "nosuch", "0", "0"}, {"SCAN"}, {"SCAN", "DESC"}, {"SCAN", "MATCH", "*"}, {"SCAN", "LIMIT", "2"}, {"SCAN", "CURSOR", "1"},
		{"SCAN", "WHERE", "nosuch", "0", "0"}}
	for h := 0; h < histories; h++ {
		key := fmt.Sprintf("mix%d", h)
		var trace []string
		check := func() {
			for _, qv := range queries {
				base := append([]string{qv[0], key}, qv[1:]...)
				ids, ok := idsOf(c.MustDo(append(append([]string{}, base...), "IDS")...))
				cv := c.MustDo(append(append([]string{}, base...), "COUNT")...)
				if !ok || cv.Kind != ':' {
					continue
				}
				r.Count(fmt.Sprintf("cntbb/%d/%d/%s", h, len(trace), strings.Join(qv, " ")), len(ids) > 0)
				r.Dist("cnt:" + qv[0])
				if int(cv.Int) != len(ids) {
					r.Fail(hx.Failure{Kind: "oracle", Signature: "count-shortcut-" + qv[0],
						What: fmt.Sprintf("after %q: %s COUNT = %d but %s IDS returns %d ids %q",
							trace, strings.Join(base, " "), cv.Int, strings.Join(base, " "), len(ids), ids),
						Case: map[string]interface{}{"history": append([]string{}, trace...), "query": strings.Join(base, " ")}})
				}
			}
		}
		do := func(args ...string) {
			trace = append(trace, strings.Join(args, " "))
			if v := c.MustDo(args...); v.IsErr() && !strings.Contains(v.Str, "not found") {
				panic("history step failed: " + strings.Join(args, " ") + ": " + v.Str)
			}
			check()
		}
		if h == 0 {
			// directed: empty geometries next to strings, removed by DEL, expiry and PDEL; kind changes
			do("SET", key, "s1", "STRING", "x")
			do("SET", key, "s2", "STRING", "y")
			do("SET", key, "p1", "POINT", "1", "1")
			do("SET", key, "e1", "OBJECT", emptyGeos[0])
			do("SET", key, "e2", "OBJECT", emptyGeos[1])
			do("SET", key, "e3", "EX", "1", "OBJECT", emptyGeos[0])
			do("SET", key, "e1", "OBJECT", emptyGeos[1])
			do("DEL", key, "e1")
			do("SET", key, "p1", "STRING", "z")
			do("SET", key, "s1", "POINT", "2", "2")
			trace = append(trace, "(1.3 s pass: e3 expires)")
			time.Sleep(1300 * time.Millisecond)
			check()
			do("PDEL", key, "e*")
			do("DEL", key, "s2")
			continue
		}
		ids := []string{"a", "b", "c", "d", "ea", "eb"}[:3+rng.Intn(4)]
		for i := 0; i < steps; i++ {
			id := ids[rng.Intn(len(ids))]
			switch k := rng.Intn(13); {
			case k < 2:
				do("DEL", key, id)
			case k < 3:
				do("PDEL", key, []string{"e*", "a*", "[b-c]", "?"}[rng.Intn(4)])
			case k < 6:
				do("SET", key, id, "STRING", []string{"", "x", "y"}[rng.Intn(3)])
			case k < 8:
				do("SET", key, id, "POINT", fmt.Sprint(rng.Intn(5)), fmt.Sprint(rng.Intn(5)))
			case k < 11:
				do("SET", key, id, "OBJECT", emptyGeos[rng.Intn(2)])
			default:
				do("SET", key, id, "OBJECT", fullGeos[rng.Intn(len(fullGeos))])
			}
		}
		r.Sample(20, map[string]interface{}{"count_history": h, "steps": len(trace), "first": trace[0]})
	}
}

// ---------------------------------------------------------------------------------------------
// round 4: a single literal MATCH (no metacharacter) — SEARCH over values that several ids share,
// SCAN over ids (unique) as the control; with and without WHERE / WHEREIN, ASC / DESC, LIMIT,
// IDS / COUNT / OBJECTS.  Model: search_multi / scan_multi = the pushObject loop with its early
// exits as written (c12_search_multi_match_exact); oracle: client-side filter + firstn LIMIT.
// ---------------------------------------------------------------------------------------------

type litObj struct {
	id, val string
	f      int
	hasF   bool
}

type litFilter struct {
	args []string
	keep func(o litObj) bool
	text string
}

func litFilters(rng *rand.Rand, directed bool) []litFilter {
	fv := func(o litObj) int {
		if o.hasF {
			return o.f
		}
		return 0 // a missing field reads as 0
	}
	rangeF := func(lo, hi int) litFilter {
		return litFilter{args: []string{"WHERE", "f", fmt.Sprint(lo), fmt.Sprint(hi)}, text: fmt.Sprintf("WHERE f %d %d", lo, hi),
			keep: func(o litObj) bool { return lo <= fv(o) && fv(o) <= hi }}
	}
	inF := func(vals ...int) litFilter {
		a := []string{"WHEREIN", "f", fmt.Sprint(len(vals))}
		for _, v := range vals {
			a = append(a, fmt.Sprint(v))
		}
		return litFilter{args: a, text: strings.Join(a, " "), keep: func(o litObj) bool {
			for _, v := range vals {
				if fv(o) == v {
					return true
				}
			}
			return false
		}}
	}
	none := litFilter{text: "", keep: func(litObj) bool { return true }}
	if directed {
		return []litFilter{none, rangeF(2, 3), rangeF(3, 9), rangeF(0, 0), inF(2), inF(3, 0), rangeF(7, 9)}
	}
	out := []litFilter{none}
	lo := rng.Intn(4)
	out = append(out, rangeF(lo, lo+rng.Intn(3)), inF(rng.Intn(5), rng.Intn(5)))
	return out
}

func c12LiteralMatch(r *hx.Result, cfg hx.Config, rng *rand.Rand, sel *model.Driver) {
	rounds := 4
	if cfg.Tier == "thorough" || cfg.Search {
		rounds = 40
	}
	s, err := srv.Start(filepath.Join(cfg.Work, "c12lit"), "--appendonly", "no")
	if err != nil {
		panic(err)
	}
	defer s.Kill()
	c := s.MustDial()
	defer c.Close()
	for round := 0; round < rounds; round++ {
		var objs []litObj
		var pats []string
		if round == 0 {
			objs = []litObj{{"a", "pilot", 1, true}, {"b", "pilot", 2, true}, {"c", "pilot", 3, true}, {"d", "nurse", 2, true},
				{"e", "pilot2", 1, true}, {"g", "pilo", 0, true}, {"h", "pilot", 0, false}, {"i", "nurse", 3, true}, {"j", "a*b", 2, true}, {"k", "a*b", 3, true}}
			pats = []string{"pilot", "nurse", "pilo", "pilot2", "absent", "pilot*", "pilo[t]", "a\\*b", "a"}
		} else {
			vocab := []string{"x", "x", "y", "xy", "pilot", "pilot", "z", "x]", "-y", "é"}[:3+rng.Intn(8)]
			n := 6 + rng.Intn(14)
			for i := 0; i < n; i++ {
				objs = append(objs, litObj{id: fmt.Sprintf("%c%d", 'a'+rune(rng.Intn(4)), i), val: vocab[rng.Intn(len(vocab))], f: rng.Intn(5), hasF: rng.Intn(5) > 0})
			}
			seen := map[string]bool{}
			for _, o := range objs {
				if !seen[o.val] {
					seen[o.val] = true
					pats = append(pats, o.val)
				}
			}
			pats = append(pats, "absent", objs[0].val+"*")
		}
		sort.Slice(objs, func(i, j int) bool { return objs[i].id < objs[j].id })
		skey, pkey := fmt.Sprintf("lv%d", round), fmt.Sprintf("lp%d", round)
		for _, o := range objs {
			set := []string{"SET", skey, o.id}
			pset := []string{"SET", pkey, o.id}
			if o.hasF {
				set = append(set, "FIELD", "f", fmt.Sprint(o.f))
				pset = append(pset, "FIELD", "f", fmt.Sprint(o.f))
			}
			if v := c.MustDo(append(set, "STRING", o.val)...); v.IsErr() {
				panic("SET failed: " + v.Str)
			}
			c.MustDo(append(pset, "POINT", "1", "1")...)
		}
		// the value index order
		ve := append([]litObj{}, objs...)
		sort.Slice(ve, func(i, j int) bool {
			if ve[i].val != ve[j].val {
				return ve[i].val < ve[j].val
			}
			return ve[i].id < ve[j].id
		})
		dataset := func() string {
			var sb strings.Builder
			for i, o := range objs {
				if i > 0 {
					sb.WriteByte(' ')
				}
				fmt.Fprintf(&sb, "%s=%q", o.id, o.val)
				if o.hasF {
					fmt.Fprintf(&sb, "(f=%d)", o.f)
				}
			}
			return sb.String()
		}()
		// SCAN control: literal ids
		idPats := []string{objs[0].id, objs[len(objs)-1].id, "nosuchid"}
		for _, flt := range litFilters(rng, round == 0) {
			for _, desc := range []bool{false, true} {
				dir := "ASC"
				if desc {
					dir = "DESC"
				}
				for _, limit := range []int{100000, 1, 2} {
					type job struct {
						cmdName, key, pat string
						entries           []litObj
						text              func(o litObj) string
						modelFn           string
					}
					var jobs []job
					for _, p := range pats {
						jobs = append(jobs, job{"SEARCH", skey, p, ve, func(o litObj) string { return o.val }, "search_multi"})
					}
					if limit != 2 {
						for _, p := range idPats {
							jobs = append(jobs, job{"SCAN", pkey, p, objs, func(o litObj) string { return o.id }, "scan_multi"})
						}
					}
					for _, jb := range jobs {
						var want []string
						var wantVals []string
						sameText := 0
						for _, o := range jb.entries {
							m, _ := verifapi.GlobMatch(jb.pat, jb.text(o))
							if m {
								sameText++
							}
							if m && flt.keep(o) {
								want = append(want, o.id)
								wantVals = append(wantVals, o.val)
							}
						}
						if desc {
							want, wantVals = reverseStrings(want), reverseStrings(wantVals)
						}
						total := len(want)
						if len(want) > limit {
							want, wantVals = want[:limit], wantVals[:limit]
						}
						wantCount := total
						if wantCount > limit {
							wantCount = limit
						}
						base := append([]string{jb.cmdName, jb.key, "MATCH", jb.pat}, flt.args...)
						base = append(base, dir, "LIMIT", fmt.Sprint(limit))
						line := strings.Join(base, " ")
						cs := map[string]interface{}{"round": round, "query": line, "dataset": dataset}
						got, ok := idsOf(c.MustDo(append(append([]string{}, base...), "IDS")...))
						cv := c.MustDo(append(append([]string{}, base...), "COUNT")...)
						if !ok || cv.Kind != ':' {
							continue
						}
						r.Count(fmt.Sprintf("lit/%d/%s", round, line), sameText >= 2 && total > 0)
						r.Dist(fmt.Sprintf("lit:%s-shared%d", jb.cmdName, min(sameText, 3)))
						// model
						req := []string{jb.modelFn, model.B(desc), fmt.Sprint(limit), "1", model.H(jb.pat)}
						for _, o := range jb.entries {
							if jb.cmdName == "SEARCH" {
								req = append(req, model.H(o.val))
							}
							req = append(req, model.H(o.id), model.B(flt.keep(o)))
						}
						mcnt, mids, mok := modelCountList(sel.Ask(req...))
						impl := fmt.Sprintf("IDS=%q COUNT=%d", got, cv.Int)
						mod := fmt.Sprintf("IDS=%q COUNT=%d", mids, mcnt)
						if !mok || !sameList(got, mids) || int(cv.Int) != mcnt {
							r.Fail(hx.Failure{Kind: "correspondence", Signature: "literal-match-model-" + jb.cmdName,
								What: fmt.Sprintf("%s: server %s, Model.GlobSel.%s %s (dataset: %s)", line, impl, jb.modelFn, mod, dataset),
								Case: cs, Impl: impl, Model: mod})
						}
						if !sameList(got, want) {
							r.Fail(hx.Failure{Kind: "oracle", Signature: "filter-" + jb.cmdName + "-LITERAL",
								What: fmt.Sprintf("%s IDS returned %q; the objects whose %s matches %q%s are %q (dataset: %s)", line, got,
									map[string]string{"SEARCH": "value", "SCAN": "id"}[jb.cmdName], jb.pat, map[bool]string{true: " and pass " + flt.text, false: ""}[flt.text != ""], want, dataset),
								Case: cs})
						}
						if int(cv.Int) != wantCount {
							r.Fail(hx.Failure{Kind: "oracle", Signature: "count-" + jb.cmdName + "-LITERAL",
								What: fmt.Sprintf("%s COUNT = %d; %d objects qualify (LIMIT %d) (dataset: %s)", line, cv.Int, total, limit, dataset),
								Case: cs})
						}
						if int(cv.Int) != len(got) {
							r.Fail(hx.Failure{Kind: "oracle", Signature: "count-vs-ids-" + jb.cmdName + "-LITERAL",
								What: fmt.Sprintf("%s COUNT = %d but the IDS form returns %d ids %q (dataset: %s)", line, cv.Int, len(got), got, dataset),
								Case: cs})
						}
						if jb.cmdName == "SEARCH" {
							ov := c.MustDo(append(append([]string{}, base...), "OBJECTS")...)
							if ov.Kind == '*' && len(ov.Array) == 2 {
								var oids, ovals []string
								for _, it := range ov.Array[1].Array {
									if len(it.Array) >= 2 {
										oids = append(oids, it.Array[0].Str)
										ovals = append(ovals, it.Array[1].Str)
									}
								}
								if !sameList(oids, want) || !sameList(ovals, wantVals) {
									r.Fail(hx.Failure{Kind: "oracle", Signature: "filter-SEARCH-LITERAL-OBJECTS",
										What: fmt.Sprintf("%s OBJECTS returned ids %q values %q; expected ids %q values %q (dataset: %s)", line, oids, ovals, want, wantVals, dataset),
										Case: cs})
								}
							}
						}
					}
				}
			}
		}
		r.Sample(24, map[string]interface{}{"literal_match_round": round, "objects": len(objs), "patterns": r3qs(pats)})
	}
}
