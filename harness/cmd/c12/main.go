package main

import (
	"fmt"
	"math/rand"
	"path/filepath"
	"sort"
	"strings"

	"github.com/tidwall/tile38/verifapi"
	"verifharness/internal/hx"
	"verifharness/internal/model"
	"verifharness/internal/srv"
)

func main() { hx.Main("C12", runC12) }

var globAlphabet = []string{"a", "b", "c", "a", "b", "*", "?", "[", "]", "\\", "-", "^", "\x00", "\xff", "é", "z"}
var nameAlphabet = []string{"a", "b", "c", "a", "b", "c", "*", "?", "[", "\\", "\x00", "\xff", "é", "z", "]", "-"}

func randFrom(rng *rand.Rand, alpha []string, maxLen int) string {
	n := rng.Intn(maxLen + 1)
	var sb strings.Builder
	for i := 0; i < n; i++ {
		sb.WriteString(alpha[rng.Intn(len(alpha))])
	}
	return sb.String()
}

// a string likely to match the pattern: expand metacharacters naively
func likelyMatch(rng *rand.Rand, p string) string {
	var sb strings.Builder
	for i := 0; i < len(p); i++ {
		switch p[i] {
		case '*':
			sb.WriteString(randFrom(rng, nameAlphabet, 3))
		case '?':
			sb.WriteString(nameAlphabet[rng.Intn(len(nameAlphabet))])
		case '\\':
			if i+1 < len(p) {
				i++
				sb.WriteByte(p[i])
			}
		case '[':
			j := strings.IndexByte(p[i:], ']')
			if j > 1 {
				sb.WriteByte(p[i+1])
				i += j
			} else {
				sb.WriteByte('a')
			}
		default:
			sb.WriteByte(p[i])
		}
	}
	return sb.String()
}

func litPrefixEndsFF(p string) bool {
	n := 0
	for n < len(p) && !strings.ContainsRune("[*?\\", rune(p[n])) {
		n++
	}
	return n > 0 && p[n-1] == 0xFF
}

func inLimits(l0, l1 string, desc bool, s string) bool {
	if l0 == "" && l1 == "" {
		return true
	}
	if desc {
		return l1 <= s && s < l0
	}
	return l0 <= s && s < l1
}

func runC12(r *hx.Result, cfg hx.Config) {
	r.Rule = "in-package: (pattern, name) pairs from a 16-symbol alphabet incl. * ? [ ] \\ - ^ 0x00 0xff and a 2-byte rune, half of the names derived from the pattern so that they match; non-trivial = distinct pair on which Match returned true with a pattern containing a metacharacter or an escape. black-box: KEYS/SCAN/SEARCH/PDEL/HOOKS with MATCH patterns against client-side filtering of the unfiltered listing; non-trivial = distinct (dataset, query) whose result is a non-empty strict subset."
	r.Assumptions = []string{"string order of the model is Go's byte-wise string order", "black-box listing without MATCH is the ground truth for filtering"}
	rng := rand.New(rand.NewSource(cfg.Seed))
	drv, err := model.Start("glob")
	if err != nil {
		panic(err)
	}
	defer drv.Close()

	n := 6000
	if cfg.Tier == "thorough" {
		n = 400000
	}
	if cfg.Search {
		n = 200000
	}
	// fixed regression corpus first
	corpus := [][2]string{{"?", "a"}, {"?bc", "abc"}, {"[a]bc", "abc"}, {"a\\*b", "a*b"}, {"ab\\[c]", "ab[c]"},
		{"ab\xff*", "ab\xff\x01"}, {"\xff*", "\xff\xff"}, {"a\xff", "a\xff"}, {"b\x00*", "b\x00"}, {"\x00\x00*", "\x00\x00a"},
		{"*", ""}, {"", ""}, {"a[^b]c", "aéc"}, {"a[b-", "ab"}, {"\\", "\\"}, {"a*b*c", "aXbXc"}, {"*a", "ba"}}
	for i := 0; i < n+len(corpus); i++ {
		var p, s string
		if i < len(corpus) {
			p, s = corpus[i][0], corpus[i][1]
		} else {
			p = randFrom(rng, globAlphabet, 6)
			switch rng.Intn(4) {
			case 0:
				s = randFrom(rng, nameAlphabet, 6)
			default:
				s = likelyMatch(rng, p)
			}
		}
		matched, merr := verifapi.GlobMatch(p, s)
		implM := "F"
		if merr != nil {
			implM = "B"
		} else if matched {
			implM = "T"
		}
		modM := drv.Ask("glob_match", model.H(p), model.H(s))
		hasMeta := strings.ContainsAny(p, "*?[\\")
		r.Count(p+"\x01"+s, matched && hasMeta)
		r.Dist("match:" + implM)
		if implM != modM {
			r.Fail(hx.Failure{Kind: "correspondence", Signature: "glob-match-model", What: "glob.Match differs from Model.Glob.glob_match",
				Case: map[string]string{"pattern": fmt.Sprintf("%q", p), "name": fmt.Sprintf("%q", s)}, Impl: implM, Model: modM})
		}
		for _, desc := range []bool{false, true} {
			l0, l1, isg := verifapi.GlobParse(p, desc)
			impl := fmt.Sprintf("%s %s %s", model.H(l0), model.H(l1), model.B(isg))
			mod := drv.Ask("glob_parse", model.H(p), model.B(desc))
			if impl != mod {
				r.Fail(hx.Failure{Kind: "correspondence", Signature: "glob-parse-model", What: "glob.Parse differs from Model.Glob.parse",
					Case: map[string]interface{}{"pattern": fmt.Sprintf("%q", p), "desc": desc}, Impl: impl, Model: mod})
			}
			if matched && !inLimits(l0, l1, desc, s) {
				sig := "glob-limits"
				if litPrefixEndsFF(p) {
					sig = "glob-limits-prefix-ff"
				}
				r.Fail(hx.Failure{Kind: "oracle", Signature: sig,
					What: fmt.Sprintf("Match(%q,%q)=true but the name is outside Parse's limits [%q,%q] desc=%v: range-limited iteration skips it", p, s, l0, l1, desc),
					Case: map[string]interface{}{"pattern": fmt.Sprintf("%q", p), "name": fmt.Sprintf("%q", s), "desc": desc}})
			}
		}
		if matched && hasMeta {
			r.Sample(5, map[string]string{"pattern": fmt.Sprintf("%q", p), "name": fmt.Sprintf("%q", s), "match": implM})
		}
	}
	c12BlackBox(r, cfg, rng)
}

func respStrings(v srv.Value) []string {
	var out []string
	for _, e := range v.Array {
		out = append(out, e.Str)
	}
	return out
}

func clientFilter(names []string, pattern string) []string {
	out := []string{}
	for _, n := range names {
		if ok, _ := verifapi.GlobMatch(pattern, n); ok {
			out = append(out, n)
		}
	}
	return out
}

func c12BlackBox(r *hx.Result, cfg hx.Config, rng *rand.Rand) {
	rounds := 4
	queries := 60
	if cfg.Tier == "thorough" || cfg.Search {
		rounds, queries = 40, 200
	}
	for round := 0; round < rounds; round++ {
		s, err := srv.Start(filepath.Join(cfg.Work, fmt.Sprintf("c12-%d", round)), "--appendonly", "no")
		if err != nil {
			panic(err)
		}
		func() {
			defer s.Kill()
			c := s.MustDial()
			defer c.Close()
			// dataset: ids and string values from the name alphabet; collection names likewise
			idset := map[string]bool{}
			for i := 0; i < 25; i++ {
				id := randFrom(rng, nameAlphabet, 4)
				if id == "" {
					id = "a"
				}
				idset[id] = true
			}
			var ids []string
			for id := range idset {
				ids = append(ids, id)
			}
			sort.Strings(ids)
			vals := map[string]string{}
			for _, id := range ids {
				v := randFrom(rng, nameAlphabet, 4)
				vals[id] = v
				c.MustDo("SET", "strs", id, "STRING", v)
				c.MustDo("SET", "pts", id, "POINT", fmt.Sprint(rng.Intn(50)), fmt.Sprint(rng.Intn(50)))
				c.MustDo("SET", "k"+id, "x", "POINT", "1", "1")
			}
			for _, id := range ids {
				c.MustDo("SETCHAN", "ch"+id, "NEARBY", "pts", "FENCE", "POINT", "1", "1", "1000")
			}
			allKeys := respStrings(c.MustDo("KEYS", "*"))
			for q := 0; q < queries; q++ {
				p := randFrom(rng, globAlphabet, 5)
				if q%3 == 0 && len(ids) > 0 {
					// derive from an existing id so that prefixes hit
					id := ids[rng.Intn(len(ids))]
					cut := rng.Intn(len(id) + 1)
					p = id[:cut] + []string{"*", "?*", "[a-c]*", "\\" + "a*", ""}[rng.Intn(5)]
				}
				if p == "" {
					continue
				}
				check := func(what string, got, want []string, sortGot bool) {
					if sortGot {
						sort.Strings(got)
						sort.Strings(want)
					}
					key := fmt.Sprintf("%d/%s/%s", round, what, p)
					r.Count(key, len(want) > 0)
					r.Dist("bb:" + what)
					if strings.Join(got, "\x01") != strings.Join(want, "\x01") {
						sig := "filter-" + what
						if litPrefixEndsFF(p) {
							sig += "-prefix-ff"
						}
						r.Fail(hx.Failure{Kind: "oracle", Signature: sig,
							What: fmt.Sprintf("%s with pattern %q returned %q, client-side filtering of the unfiltered listing gives %q", what, p, got, want),
							Case: map[string]interface{}{"round": round, "what": what, "pattern": fmt.Sprintf("%q", p), "ids": fmt.Sprintf("%q", ids)}})
					}
				}
				// KEYS
				check("KEYS", respStrings(c.MustDo("KEYS", p)), clientFilter(allKeys, p), true)
				// SCAN MATCH IDS asc/desc
				v := c.MustDo("SCAN", "pts", "MATCH", p, "IDS")
				if len(v.Array) == 2 {
					check("SCAN-MATCH", respStrings(v.Array[1]), clientFilter(ids, p), false)
				}
				v = c.MustDo("SCAN", "pts", "MATCH", p, "DESC", "IDS")
				if len(v.Array) == 2 {
					want := clientFilter(ids, p)
					sort.Sort(sort.Reverse(sort.StringSlice(want)))
					check("SCAN-MATCH-DESC", respStrings(v.Array[1]), want, false)
				}
				// SCAN COUNT == |IDS|
				cv := c.MustDo("SCAN", "pts", "MATCH", p, "COUNT")
				if cv.Kind == ':' {
					check("SCAN-COUNT", []string{fmt.Sprint(cv.Int)}, []string{fmt.Sprint(len(clientFilter(ids, p)))}, false)
				}
				// SEARCH (values) MATCH asc / desc, COUNT
				var wantV []string
				type pair struct{ v, id string }
				var ps []pair
				for _, id := range ids {
					if ok, _ := verifapi.GlobMatch(p, vals[id]); ok {
						ps = append(ps, pair{vals[id], id})
					}
				}
				sort.Slice(ps, func(i, j int) bool {
					if ps[i].v != ps[j].v {
						return ps[i].v < ps[j].v
					}
					return ps[i].id < ps[j].id
				})
				for _, x := range ps {
					wantV = append(wantV, x.id)
				}
				v = c.MustDo("SEARCH", "strs", "MATCH", p, "IDS")
				if len(v.Array) == 2 {
					check("SEARCH-MATCH", respStrings(v.Array[1]), wantV, false)
				}
				v = c.MustDo("SEARCH", "strs", "MATCH", p, "DESC", "IDS")
				if len(v.Array) == 2 {
					rev := make([]string, len(wantV))
					for i := range wantV {
						rev[len(wantV)-1-i] = wantV[i]
					}
					check("SEARCH-MATCH-DESC", respStrings(v.Array[1]), rev, false)
				}
				cv = c.MustDo("SEARCH", "strs", "MATCH", p, "COUNT")
				if cv.Kind == ':' {
					check("SEARCH-COUNT", []string{fmt.Sprint(cv.Int)}, []string{fmt.Sprint(len(wantV))}, false)
				}
				// CHANS pattern
				v = c.MustDo("CHANS", "ch"+p)
				if v.Kind == '*' {
					var got []string
					for _, h := range v.Array {
						if len(h.Array) > 0 {
							got = append(got, h.Array[0].Str)
						}
					}
					var names []string
					for _, id := range ids {
						names = append(names, "ch"+id)
					}
					check("CHANS", got, clientFilter(names, "ch"+p), true)
				}
				if q < 3 {
					r.Sample(8, map[string]interface{}{"blackbox_pattern": fmt.Sprintf("%q", p), "ids": len(ids)})
				}
			}
			// PDEL at the end of the round: delete by pattern, compare the survivors
			p := []string{"a*", "?", "[a-b]*", "\\**", "*a"}[round%5]
			want := []string{}
			for _, id := range ids {
				if ok, _ := verifapi.GlobMatch(p, id); !ok {
					want = append(want, id)
				}
			}
			c.MustDo("PDEL", "pts", p)
			v := c.MustDo("SCAN", "pts", "IDS")
			got := []string{}
			if len(v.Array) == 2 {
				got = respStrings(v.Array[1])
			}
			r.Count(fmt.Sprintf("%d/PDEL/%s", round, p), len(want) != len(ids))
			if strings.Join(got, "\x01") != strings.Join(want, "\x01") {
				r.Fail(hx.Failure{Kind: "oracle", Signature: "filter-PDEL",
					What: fmt.Sprintf("PDEL pts %q left %q, expected survivors %q", p, got, want),
					Case: map[string]interface{}{"pattern": p, "ids": fmt.Sprintf("%q", ids)}})
			}
		}()
	}
}
