package main

import (
	"fmt"
	"math"
	"math/rand"
	"path/filepath"
	"sort"
	"strings"

	"github.com/tidwall/tile38/verifapi"
	"verifharness/internal/hx"
	"verifharness/internal/model"
	"verifharness/internal/srv"
	"verifharness/internal/wxgen"
)

func main() { hx.Main("C12", runC12) }

var globAlphabet = []string{"a", "b", "c", "a", "b", "*", "?", "[", "]", "\\", "-", "^", "\x00", "\xff", "é", "z"}
var nameAlphabet = []string{"a", "b", "c", "a", "b", "c", "*", "?", "[", "\\", "\x00", "\xff", "é", "z", "]", "-"}

func randFrom(rng *rand.Rand, alpha []string, maxLen int) string {
	n := rng.Intn(maxLen + 1)
	var sb strings.Builder
	for i := 0; i < n; i++ {
		sb.WriteString(alpha[rng.Intn(len(alpha))])
	}
	return sb.String()
}

// a string likely to match the pattern: expand metacharacters naively
func likelyMatch(rng *rand.Rand, p string) string {
	var sb strings.Builder
	for i := 0; i < len(p); i++ {
		switch p[i] {
		case '*':
			sb.WriteString(randFrom(rng, nameAlphabet, 3))
		case '?':
			sb.WriteString(nameAlphabet[rng.Intn(len(nameAlphabet))])
		case '\\':
			if i+1 < len(p) {
				i++
				sb.WriteByte(p[i])
			}
		case '[':
			j := strings.IndexByte(p[i:], ']')
			if j > 1 {
				sb.WriteByte(p[i+1])
				i += j
			} else {
				sb.WriteByte('a')
			}
		default:
			sb.WriteByte(p[i])
		}
	}
	return sb.String()
}

func litPrefixEndsFF(p string) bool {
	n := 0
	for n < len(p) && !strings.ContainsRune("[*?\\", rune(p[n])) {
		n++
	}
	return n > 0 && p[n-1] == 0xFF
}

func inLimits(l0, l1 string, desc bool, s string) bool {
	if l0 == "" && l1 == "" {
		return true
	}
	if desc {
		return l1 <= s && s < l0
	}
	return l0 <= s && s < l1
}

func runC12(r *hx.Result, cfg hx.Config) {
	r.Rule = "in-package: (pattern, name) pairs from a 16-symbol alphabet incl. * ? [ ] \\ - ^ 0x00 0xff and a 2-byte rune, half of the names derived from the pattern so that they match; non-trivial = distinct pair on which Match returned true with a pattern containing a metacharacter or an escape. black-box MATCH: KEYS/SCAN/SEARCH/PDEL/HOOKS with MATCH patterns against client-side filtering of the unfiltered listing; non-trivial = distinct (dataset, query) whose result is a non-empty strict subset. black-box WHERE/WHEREIN: objects whose fields f, g hold every value kind (numbers incl. negative / fractional / 0 / -0 / +-Inf / missing, mixed-case strings, true, false, null, JSON; NaN in every third dataset), queries in the min/max form with all four (-exclusivity combinations, the six operator forms and WHEREIN, two thirds of the bounds placed exactly ON a stored value (other spelling of the same value); a fixed directed dataset and query list first; ids compared with the extracted Model.Where (correspondence) and with a client-side evaluation of the documented rule (oracle), COUNT with the number of IDS, DESC with the reverse of ASC, SEARCH/WITHIN/INTERSECTS/NEARBY with SCAN; non-trivial = distinct (dataset, query) keeping a non-empty strict subset of the objects."
	r.Assumptions = []string{"string order of the model is Go's byte-wise string order", "black-box listing without MATCH is the ground truth for filtering",
		"field.ValueOf (token -> kind) is not modelled: the harness generates tokens of a known kind; a misclassification would show as a WHERE correspondence failure",
		"finite numbers are decimals with at most 3 fractional digits, compared as integer thousandths in the model and as float64 in the oracle",
		"the WHERE oracle leaves out NaN operands / NaN field values (unordered), JSON bounds containing an upper-case letter and a string bound spelled like an operator (model-only cases)"}
	rng := rand.New(rand.NewSource(cfg.Seed))
	drv, err := model.Start("glob")
	if err != nil {
		panic(err)
	}
	defer drv.Close()

	n := 6000
	if cfg.Tier == "thorough" {
		n = 400000
	}
	if cfg.Search {
		n = 200000
	}
	// fixed regression corpus first
	corpus := [][2]string{{"?", "a"}, {"?bc", "abc"}, {"[a]bc", "abc"}, {"a\\*b", "a*b"}, {"ab\\[c]", "ab[c]"},
		{"ab\xff*", "ab\xff\x01"}, {"\xff*", "\xff\xff"}, {"a\xff", "a\xff"}, {"b\x00*", "b\x00"}, {"\x00\x00*", "\x00\x00a"},
		{"*", ""}, {"", ""}, {"a[^b]c", "aéc"}, {"a[b-", "ab"}, {"\\", "\\"}, {"a*b*c", "aXbXc"}, {"*a", "ba"}}
	for i := 0; i < n+len(corpus); i++ {
		var p, s string
		if i < len(corpus) {
			p, s = corpus[i][0], corpus[i][1]
		} else {
			p = randFrom(rng, globAlphabet, 6)
			switch rng.Intn(4) {
			case 0:
				s = randFrom(rng, nameAlphabet, 6)
			default:
				s = likelyMatch(rng, p)
			}
		}
		matched, merr := verifapi.GlobMatch(p, s)
		implM := "F"
		if merr != nil {
			implM = "B"
		} else if matched {
			implM = "T"
		}
		modM := drv.Ask("glob_match", model.H(p), model.H(s))
		hasMeta := strings.ContainsAny(p, "*?[\\")
		r.Count(p+"\x01"+s, matched && hasMeta)
		r.Dist("match:" + implM)
		if implM != modM {
			r.Fail(hx.Failure{Kind: "correspondence", Signature: "glob-match-model", What: "glob.Match differs from Model.Glob.glob_match",
				Case: map[string]string{"pattern": fmt.Sprintf("%q", p), "name": fmt.Sprintf("%q", s)}, Impl: implM, Model: modM})
		}
		for _, desc := range []bool{false, true} {
			l0, l1, isg := verifapi.GlobParse(p, desc)
			impl := fmt.Sprintf("%s %s %s", model.H(l0), model.H(l1), model.B(isg))
			mod := drv.Ask("glob_parse", model.H(p), model.B(desc))
			if impl != mod {
				r.Fail(hx.Failure{Kind: "correspondence", Signature: "glob-parse-model", What: "glob.Parse differs from Model.Glob.parse",
					Case: map[string]interface{}{"pattern": fmt.Sprintf("%q", p), "desc": desc}, Impl: impl, Model: mod})
			}
			if matched && !inLimits(l0, l1, desc, s) {
				sig := "glob-limits"
				if litPrefixEndsFF(p) {
					sig = "glob-limits-prefix-ff"
				}
				r.Fail(hx.Failure{Kind: "oracle", Signature: sig,
					What: fmt.Sprintf("Match(%q,%q)=true but the name is outside Parse's limits [%q,%q] desc=%v: range-limited iteration skips it", p, s, l0, l1, desc),
					Case: map[string]interface{}{"pattern": fmt.Sprintf("%q", p), "name": fmt.Sprintf("%q", s), "desc": desc}})
			}
		}
		if matched && hasMeta {
			r.Sample(5, map[string]string{"pattern": fmt.Sprintf("%q", p), "name": fmt.Sprintf("%q", s), "match": implM})
		}
	}
	c12BlackBox(r, cfg, rng)
	c12Where(r, cfg, rng, drv)
	c12Round3(r, cfg) // seeds_r3.go: several MATCH patterns, hooks+channels, COUNT shortcut histories
	// WHERE "<expr>" (Model/WhereExpr.v, driver ocaml/whereexpr): harness/internal/wxgen
	r.Rule += " " + wxgen.Rule
	r.Assumptions = append(r.Assumptions, wxgen.Assumptions...)
	wxgen.Run(r, cfg, rng)
}

func respStrings(v srv.Value) []string {
	var out []string
	for _, e := range v.Array {
		out = append(out, e.Str)
	}
	return out
}

func clientFilter(names []string, pattern string) []string {
	out := []string{}
	for _, n := range names {
		if ok, _ := verifapi.GlobMatch(pattern, n); ok {
			out = append(out, n)
		}
	}
	return out
}

func c12BlackBox(r *hx.Result, cfg hx.Config, rng *rand.Rand) {
	rounds := 4
	queries := 60
	if cfg.Tier == "thorough" || cfg.Search {
		rounds, queries = 40, 200
	}
	for round := 0; round < rounds; round++ {
		s, err := srv.Start(filepath.Join(cfg.Work, fmt.Sprintf("c12-%d", round)), "--appendonly", "no")
		if err != nil {
			panic(err)
		}
		func() {
			defer s.Kill()
			c := s.MustDial()
			defer c.Close()
			// dataset: ids and string values from the name alphabet; collection names likewise
			idset := map[string]bool{}
			for i := 0; i < 25; i++ {
				id := randFrom(rng, nameAlphabet, 4)
				if id == "" {
					id = "a"
				}
				idset[id] = true
			}
			var ids []string
			for id := range idset {
				ids = append(ids, id)
			}
			sort.Strings(ids)
			vals := map[string]string{}
			for _, id := range ids {
				v := randFrom(rng, nameAlphabet, 4)
				vals[id] = v
				c.MustDo("SET", "strs", id, "STRING", v)
				c.MustDo("SET", "pts", id, "POINT", fmt.Sprint(rng.Intn(50)), fmt.Sprint(rng.Intn(50)))
				c.MustDo("SET", "k"+id, "x", "POINT", "1", "1")
			}
			for _, id := range ids {
				c.MustDo("SETCHAN", "ch"+id, "NEARBY", "pts", "FENCE", "POINT", "1", "1", "1000")
			}
			allKeys := respStrings(c.MustDo("KEYS", "*"))
			for q := 0; q < queries; q++ {
				p := randFrom(rng, globAlphabet, 5)
				if q%3 == 0 && len(ids) > 0 {
					// derive from an existing id so that prefixes hit
					id := ids[rng.Intn(len(ids))]
					cut := rng.Intn(len(id) + 1)
					p = id[:cut] + []string{"*", "?*", "[a-c]*", "\\" + "a*", ""}[rng.Intn(5)]
				}
				if p == "" {
					continue
				}
				check := func(what string, got, want []string, sortGot bool) {
					if sortGot {
						sort.Strings(got)
						sort.Strings(want)
					}
					key := fmt.Sprintf("%d/%s/%s", round, what, p)
					r.Count(key, len(want) > 0)
					r.Dist("bb:" + what)
					if strings.Join(got, "\x01") != strings.Join(want, "\x01") {
						sig := "filter-" + what
						if litPrefixEndsFF(p) {
							sig += "-prefix-ff"
						}
						r.Fail(hx.Failure{Kind: "oracle", Signature: sig,
							What: fmt.Sprintf("%s with pattern %q returned %q, client-side filtering of the unfiltered listing gives %q", what, p, got, want),
							Case: map[string]interface{}{"round": round, "what": what, "pattern": fmt.Sprintf("%q", p), "ids": fmt.Sprintf("%q", ids)}})
					}
				}
				// KEYS
				check("KEYS", respStrings(c.MustDo("KEYS", p)), clientFilter(allKeys, p), true)
				// SCAN MATCH IDS asc/desc
				v := c.MustDo("SCAN", "pts", "MATCH", p, "IDS")
				if len(v.Array) == 2 {
					check("SCAN-MATCH", respStrings(v.Array[1]), clientFilter(ids, p), false)
				}
				v = c.MustDo("SCAN", "pts", "MATCH", p, "DESC", "IDS")
				if len(v.Array) == 2 {
					want := clientFilter(ids, p)
					sort.Sort(sort.Reverse(sort.StringSlice(want)))
					check("SCAN-MATCH-DESC", respStrings(v.Array[1]), want, false)
				}
				// SCAN COUNT == |IDS|
				cv := c.MustDo("SCAN", "pts", "MATCH", p, "COUNT")
				if cv.Kind == ':' {
					check("SCAN-COUNT", []string{fmt.Sprint(cv.Int)}, []string{fmt.Sprint(len(clientFilter(ids, p)))}, false)
				}
				// SEARCH (values) MATCH asc / desc, COUNT
				var wantV []string
				type pair struct{ v, id string }
				var ps []pair
				for _, id := range ids {
					if ok, _ := verifapi.GlobMatch(p, vals[id]); ok {
						ps = append(ps, pair{vals[id], id})
					}
				}
				sort.Slice(ps, func(i, j int) bool {
					if ps[i].v != ps[j].v {
						return ps[i].v < ps[j].v
					}
					return ps[i].id < ps[j].id
				})
				for _, x := range ps {
					wantV = append(wantV, x.id)
				}
				v = c.MustDo("SEARCH", "strs", "MATCH", p, "IDS")
				if len(v.Array) == 2 {
					check("SEARCH-MATCH", respStrings(v.Array[1]), wantV, false)
				}
				v = c.MustDo("SEARCH", "strs", "MATCH", p, "DESC", "IDS")
				if len(v.Array) == 2 {
					rev := make([]string, len(wantV))
					for i := range wantV {
						rev[len(wantV)-1-i] = wantV[i]
					}
					check("SEARCH-MATCH-DESC", respStrings(v.Array[1]), rev, false)
				}
				cv = c.MustDo("SEARCH", "strs", "MATCH", p, "COUNT")
				if cv.Kind == ':' {
					check("SEARCH-COUNT", []string{fmt.Sprint(cv.Int)}, []string{fmt.Sprint(len(wantV))}, false)
				}
				// CHANS pattern
				v = c.MustDo("CHANS", "ch"+p)
				if v.Kind == '*' {
					var got []string
					for _, h := range v.Array {
						if len(h.Array) > 0 {
							got = append(got, h.Array[0].Str)
						}
					}
					var names []string
					for _, id := range ids {
						names = append(names, "ch"+id)
					}
					check("CHANS", got, clientFilter(names, "ch"+p), true)
				}
				if q < 3 {
					r.Sample(8, map[string]interface{}{"blackbox_pattern": fmt.Sprintf("%q", p), "ids": len(ids)})
				}
			}
			// PDEL at the end of the round: delete by pattern, compare the survivors
			p := []string{"a*", "?", "[a-b]*", "\\**", "*a"}[round%5]
			want := []string{}
			for _, id := range ids {
				if ok, _ := verifapi.GlobMatch(p, id); !ok {
					want = append(want, id)
				}
			}
			c.MustDo("PDEL", "pts", p)
			v := c.MustDo("SCAN", "pts", "IDS")
			got := []string{}
			if len(v.Array) == 2 {
				got = respStrings(v.Array[1])
			}
			r.Count(fmt.Sprintf("%d/PDEL/%s", round, p), len(want) != len(ids))
			if strings.Join(got, "\x01") != strings.Join(want, "\x01") {
				r.Fail(hx.Failure{Kind: "oracle", Signature: "filter-PDEL",
					What: fmt.Sprintf("PDEL pts %q left %q, expected survivors %q", p, got, want),
					Case: map[string]interface{}{"pattern": p, "ids": fmt.Sprintf("%q", ids)}})
			}
		}()
	}
}

// ---------------------------------------------------------------------------------------------
// WHERE / WHEREIN (internal/server/token.go matchField / whereinT.match, internal/field Less):
// black-box filtered queries compared with (a) the extracted model Model.Where (correspondence)
// and (b) a client-side evaluation of the documented rule (oracle), plus COUNT = |IDS| and
// DESC = reverse of ASC for the same filtered query.
// ---------------------------------------------------------------------------------------------

const (
	kNull = iota
	kFalse
	kNumber
	kString
	kTrue
	kJSON
)

// wval is a field value as field.ValueOf classifies tok.
type wval struct {
	kind int
	data string  // String content / compact JSON / "true" "false" "null" / the number text
	num  string  // model encoding of the number: nan, -inf, +inf or an integer number of thousandths
	f    float64 // the number, for the oracle
	tok  string  // a token that classifies as this value
}

func (v wval) enc() string { return fmt.Sprintf("%d:%s:%s", v.kind, model.H(v.data), v.num) }
func (v wval) isNaN() bool { return v.kind == kNumber && v.num == "nan" }
func (v wval) String() string {
	return fmt.Sprintf("%s(%q)", [...]string{"Null", "False", "Number", "String", "True", "JSON"}[v.kind], v.data)
}

var wZero = wval{kind: kNumber, data: "0", num: "0", f: 0, tok: "0"}

// numVal renders k thousandths as a decimal token (at most three fractional digits) in one of a
// few spellings that all classify as the same Number.
func numVal(k int64, variant int) wval {
	neg := k < 0
	a := k
	if neg {
		a = -k
	}
	s := fmt.Sprint(a / 1000)
	if fr := a % 1000; fr != 0 {
		s += "." + strings.TrimRight(fmt.Sprintf("%03d", fr), "0")
	}
	switch variant % 5 {
	case 1: // trailing zeros
		if strings.Contains(s, ".") {
			if len(s)-strings.IndexByte(s, '.') <= 3 {
				s += "0"
			}
		} else {
			s += ".0"
		}
	case 2:
		if !strings.Contains(s, ".") {
			s += ".000"
		}
	case 3: // exponent spelling for whole numbers
		if !strings.Contains(s, ".") {
			s += "e0"
		}
	}
	if neg || (k == 0 && variant%7 == 6) { // "-0" is a Number equal to 0
		s = "-" + s
	}
	return wval{kind: kNumber, data: s, num: fmt.Sprint(k), f: float64(k) / 1000, tok: s}
}

func infVal(neg bool, variant int, bound bool) wval {
	pos := []string{"inf", "+inf", "Inf", "+Infinity", "infinity"}
	ng := []string{"-inf", "-Inf", "-Infinity"}
	if bound {
		pos = append(pos, "INF", "+INF")
		ng = append(ng, "-INF")
	}
	if neg {
		return wval{kind: kNumber, data: "-Inf", num: "-inf", f: math.Inf(-1), tok: ng[variant%len(ng)]}
	}
	return wval{kind: kNumber, data: "+Inf", num: "+inf", f: math.Inf(1), tok: pos[variant%len(pos)]}
}

func nanVal(variant int) wval {
	return wval{kind: kNumber, data: "NaN", num: "nan", f: math.NaN(), tok: []string{"nan", "NaN"}[variant%2]}
}

// strVal: content over an alphabet with no digit, quote, backslash or blank, and none of the
// letters needed to spell nan/inf/true/false/null; raw spelling needs a leading letter.
func strVal(content string, quoted bool) wval {
	tok := content
	if quoted || content == "" || !((content[0] >= 'a' && content[0] <= 'z') || (content[0] >= 'A' && content[0] <= 'Z')) {
		tok = `"` + content + `"`
	}
	return wval{kind: kString, data: content, num: "0", tok: tok}
}

func litVal(kind int, upper bool) wval {
	s := map[int]string{kNull: "null", kFalse: "false", kTrue: "true"}[kind]
	tok := s
	if upper { // only valid where the parser lower-cases the token (WHERE bounds)
		tok = strings.ToUpper(s[:1]) + s[1:]
	}
	return wval{kind: kind, data: s, num: "0", tok: tok}
}

var jsonPool = [][2]string{ // token, compact form (pretty.Ugly)
	{`{}`, `{}`}, {`[]`, `[]`}, {`{"a":1}`, `{"a":1}`}, {`{"a": 1}`, `{"a":1}`}, {`{"a":2}`, `{"a":2}`},
	{`[1,2]`, `[1,2]`}, {`[1, 2]`, `[1,2]`}, {`[1,3]`, `[1,3]`}, {`{"b":1}`, `{"b":1}`}, {`{"B":1}`, `{"B":1}`},
	{`[true]`, `[true]`}, {`{"a":"Z"}`, `{"a":"Z"}`},
}

func jsonVal(i int) wval {
	p := jsonPool[i%len(jsonPool)]
	return wval{kind: kJSON, data: p[1], num: "0", tok: p[0]}
}

var strAlphabet = []string{"a", "b", "A", "B", "z", "Z", "_", "^", "`", "@", "[", "{", "a", "b"}
var numPool = []int64{0, 0, 1000, 2000, 2500, 3000, 4000, 4999, 5000, 5001, -1000, -2500, -1, 1, 500, 1000000, -1000000}

const (
	ctxField = iota
	ctxBound
	ctxWherein
)

func randWval(rng *rand.Rand, ctx int, allowNaN bool) wval {
	switch x := rng.Intn(20); {
	case x < 8:
		if rng.Intn(3) == 0 {
			return numVal(int64(rng.Intn(12001)-6000), rng.Intn(7))
		}
		return numVal(numPool[rng.Intn(len(numPool))], rng.Intn(7))
	case x < 9:
		return infVal(rng.Intn(2) == 0, rng.Intn(8), ctx == ctxBound)
	case x < 14:
		return strVal(randFrom(rng, strAlphabet, 3), rng.Intn(2) == 0)
	case x < 15:
		return litVal(kTrue, ctx == ctxBound && rng.Intn(3) == 0)
	case x < 16:
		return litVal(kFalse, ctx == ctxBound && rng.Intn(3) == 0)
	case x < 17:
		return litVal(kNull, ctx == ctxBound && rng.Intn(3) == 0)
	case x < 19:
		return jsonVal(rng.Intn(len(jsonPool)))
	default:
		if allowNaN {
			return nanVal(rng.Intn(2))
		}
		return numVal(0, 0)
	}
}

// respell gives another token of the same value (so that a bound sits exactly ON a stored value
// without being textually identical to it).
func respell(rng *rand.Rand, v wval, ctx int) wval {
	switch v.kind {
	case kNumber:
		switch v.num {
		case "nan":
			return nanVal(rng.Intn(2))
		case "+inf":
			return infVal(false, rng.Intn(8), ctx == ctxBound)
		case "-inf":
			return infVal(true, rng.Intn(8), ctx == ctxBound)
		}
		var k int64
		fmt.Sscan(v.num, &k)
		return numVal(k, rng.Intn(7))
	case kString:
		c := v.data
		if rng.Intn(2) == 0 { // flip the case of the letters: still Equal
			b := []byte(c)
			for i := range b {
				if b[i] >= 'a' && b[i] <= 'z' && rng.Intn(2) == 0 {
					b[i] -= 32
				} else if b[i] >= 'A' && b[i] <= 'Z' && rng.Intn(2) == 0 {
					b[i] += 32
				}
			}
			c = string(b)
		}
		return strVal(c, rng.Intn(2) == 0)
	case kJSON:
		return v
	}
	return litVal(v.kind, ctx == ctxBound && rng.Intn(3) == 0)
}

// the documented value order, written independently of the model:
// Null < False < Number < String < True < JSON; numbers numeric; strings case-insensitive;
// everything else by its text.
func wcmp(a, b wval) int {
	if a.kind != b.kind {
		if a.kind < b.kind {
			return -1
		}
		return 1
	}
	switch a.kind {
	case kNumber:
		if a.f < b.f {
			return -1
		} else if a.f > b.f {
			return 1
		}
		return 0
	case kString:
		return strings.Compare(strings.ToLower(a.data), strings.ToLower(b.data))
	}
	return strings.Compare(a.data, b.data)
}

type wclause struct {
	wherein    bool
	name       string
	op         string // "" = the min/max form
	minx, maxx bool
	lo, hi     wval // op form: hi is the operand
	vals       []wval
	noOracle   string // why the documented rule says nothing about this clause ("" = it does)
}

func startsWithLetter(s string) bool {
	return s != "" && ((s[0] >= 'a' && s[0] <= 'z') || (s[0] >= 'A' && s[0] <= 'Z'))
}

func (c wclause) args() []string {
	if c.wherein {
		a := []string{"WHEREIN", c.name, fmt.Sprint(len(c.vals))}
		for _, v := range c.vals {
			a = append(a, v.tok)
		}
		return a
	}
	if c.op != "" {
		return []string{"WHERE", c.name, c.op, c.hi.tok}
	}
	smin, smax := c.lo.tok, c.hi.tok
	if c.minx {
		smin = "(" + smin
	} else if startsWithLetter(smin) && strings.ToLower(smin) != "inf" {
		// "WHERE name <letter...>" would be read as an expression: blank-prefix the token
		// (field.ValueOf trims it)
		smin = " " + smin
	}
	if c.maxx {
		smax = "(" + smax
	}
	return []string{"WHERE", c.name, smin, smax}
}

func (c wclause) modelToks() []string {
	if c.wherein {
		t := []string{model.H(c.name), fmt.Sprint(len(c.vals))}
		for _, v := range c.vals {
			t = append(t, v.enc())
		}
		return t
	}
	if c.op != "" {
		return []string{model.H(c.name), "0", wval{kind: kString, data: c.op, num: "0"}.enc(), "0", c.hi.enc()}
	}
	return []string{model.H(c.name), model.B(c.minx), c.lo.enc(), model.B(c.maxx), c.hi.enc()}
}

// keeps: the documented meaning of the clause for a field value
func (c wclause) keeps(v wval) bool {
	if c.wherein {
		for _, x := range c.vals {
			if wcmp(x, v) == 0 {
				return true
			}
		}
		return false
	}
	switch c.op {
	case "<":
		return wcmp(v, c.hi) < 0
	case "<=":
		return wcmp(v, c.hi) <= 0
	case ">":
		return wcmp(v, c.hi) > 0
	case ">=":
		return wcmp(v, c.hi) >= 0
	case "==":
		return wcmp(v, c.hi) == 0
	case "!=":
		return wcmp(v, c.hi) != 0
	}
	l, h := wcmp(c.lo, v), wcmp(v, c.hi)
	return (l < 0 || (l == 0 && !c.minx)) && (h < 0 || (h == 0 && !c.maxx))
}

func (c wclause) describe() string {
	if c.wherein {
		var s []string
		for _, v := range c.vals {
			s = append(s, v.String())
		}
		return fmt.Sprintf("%s in {%s}", c.name, strings.Join(s, ", "))
	}
	if c.op != "" {
		return fmt.Sprintf("%s %s %s", c.name, c.op, c.hi)
	}
	lt := map[bool]string{false: "<=", true: "<"}
	return fmt.Sprintf("%s %s %s %s %s", c.lo, lt[c.minx], c.name, lt[c.maxx], c.hi)
}

func jsonHasUpper(v wval) bool { return v.kind == kJSON && v.data != strings.ToLower(v.data) }

func (c *wclause) classify() {
	all := append([]wval{}, c.vals...)
	if !c.wherein {
		all = append(all, c.hi)
		if c.op == "" {
			all = append(all, c.lo)
		}
	}
	for _, v := range all {
		if v.isNaN() {
			c.noOracle = "NaN operand (unordered)"
		}
		if !c.wherein && jsonHasUpper(v) {
			c.noOracle = "JSON bound with an upper-case letter (the parser lower-cases WHERE bounds)"
		}
	}
}

type wobj struct {
	id     string
	fields map[string]wval
}

func (o wobj) get(name string) wval {
	if v, ok := o.fields[name]; ok {
		return v
	}
	return wZero // missing fields read as 0
}

func (o wobj) modelToks() []string {
	names := []string{}
	for n := range o.fields {
		names = append(names, n)
	}
	sort.Strings(names)
	t := []string{model.H(o.id), fmt.Sprint(len(names))}
	for _, n := range names {
		t = append(t, model.H(n), o.fields[n].enc())
	}
	return t
}

func randBoundFor(rng *rand.Rand, objs []wobj, name string, allowNaN bool) wval {
	if rng.Intn(3) > 0 && len(objs) > 0 { // exactly ON a stored value (or on the 0 of a missing field)
		return respell(rng, objs[rng.Intn(len(objs))].get(name), ctxBound)
	}
	return randWval(rng, ctxBound, allowNaN)
}

func randClause(rng *rand.Rand, objs []wobj, allowNaN bool) wclause {
	name := []string{"f", "f", "g"}[rng.Intn(3)]
	var c wclause
	switch x := rng.Intn(10); {
	case x < 5:
		lo, hi := randBoundFor(rng, objs, name, allowNaN), randBoundFor(rng, objs, name, allowNaN)
		if wcmp(lo, hi) > 0 && rng.Intn(4) > 0 {
			lo, hi = hi, lo
		}
		c = wclause{name: name, minx: rng.Intn(2) == 0, maxx: rng.Intn(2) == 0, lo: lo, hi: hi}
	case x < 8:
		c = wclause{name: name, op: []string{"<", "<=", ">", ">=", "==", "!="}[rng.Intn(6)], hi: randBoundFor(rng, objs, name, allowNaN)}
	default:
		c = wclause{wherein: true, name: name}
		for i, n := 0, rng.Intn(4); i < n; i++ {
			if rng.Intn(3) > 0 && len(objs) > 0 {
				c.vals = append(c.vals, respell(rng, objs[rng.Intn(len(objs))].get(name), ctxWherein))
			} else {
				c.vals = append(c.vals, randWval(rng, ctxWherein, allowNaN))
			}
		}
	}
	c.classify()
	return c
}

// the fixed regression part: one object per interesting value of f, and every bound combination
func directedObjects() []wobj {
	vals := []wval{
		numVal(0, 0), numVal(0, 6), numVal(1000, 0), numVal(2000, 0), numVal(2500, 0), numVal(3000, 0), numVal(4000, 0),
		numVal(5000, 0), numVal(5000, 1), numVal(-1000, 0), numVal(-2500, 0), numVal(1, 0), numVal(-1, 0), numVal(1000, 3),
		numVal(1000000, 0), infVal(false, 0, false), infVal(true, 0, false),
		strVal("aB", false), strVal("Ab", true), strVal("ab", false), strVal("b", false), strVal("", true), strVal("_a", true),
		strVal("Z", false), strVal("a", false), strVal("B_", false), strVal("b^", false),
		litVal(kTrue, false), litVal(kFalse, false), litVal(kNull, false),
		jsonVal(0), jsonVal(2), jsonVal(5), jsonVal(9), jsonVal(8),
	}
	objs := []wobj{{id: "o00", fields: map[string]wval{}}} // no field at all
	for i, v := range vals {
		o := wobj{id: fmt.Sprintf("o%02d", i+1), fields: map[string]wval{"f": v}}
		if i%3 == 0 {
			o.fields["g"] = numVal(int64(i%4)*1000, 0)
		}
		objs = append(objs, o)
	}
	return objs
}

func directedQueries() [][]wclause {
	var qs [][]wclause
	add := func(cs ...wclause) {
		for i := range cs {
			cs[i].classify()
		}
		qs = append(qs, cs)
	}
	flags := [][2]bool{{false, false}, {false, true}, {true, false}, {true, true}}
	nums := []int64{-2500, 0, 1000, 2000, 2500, 5000}
	for i, a := range nums {
		for _, b := range nums[i:] {
			for _, fl := range flags {
				add(wclause{name: "f", minx: fl[0], maxx: fl[1], lo: numVal(a, 0), hi: numVal(b, 0)})
			}
		}
	}
	pairs := [][2]wval{
		{strVal("ab", true), strVal("b", true)}, {strVal("AB", true), strVal("aB", false)}, {strVal("", true), strVal("a", true)},
		{strVal("Z", true), strVal("_a", true)}, {strVal("B_", true), strVal("b^", true)},
		{litVal(kFalse, false), litVal(kTrue, false)}, {litVal(kNull, false), jsonVal(0)}, {litVal(kTrue, true), litVal(kTrue, false)},
		{infVal(true, 0, true), infVal(false, 1, true)}, {numVal(5000, 0), infVal(false, 0, true)}, {infVal(true, 0, true), numVal(0, 0)},
		{numVal(0, 0), strVal("ab", true)}, {litVal(kFalse, false), numVal(0, 0)}, {strVal("b", true), litVal(kTrue, false)},
		{jsonVal(2), jsonVal(5)}, {jsonVal(0), jsonVal(0)}, {jsonVal(8), jsonVal(8)}, {jsonVal(9), jsonVal(9)},
		{numVal(-1, 0), numVal(1, 0)}, {numVal(1000, 3), numVal(1000, 1)}, {numVal(1000000, 0), numVal(1000000, 0)},
	}
	for _, p := range pairs {
		for _, fl := range flags {
			add(wclause{name: "f", minx: fl[0], maxx: fl[1], lo: p[0], hi: p[1]})
		}
	}
	operands := []wval{numVal(0, 0), numVal(5000, 2), numVal(-2500, 0), strVal("ab", false), strVal("AB", false), strVal("", true),
		strVal("_a", true), litVal(kTrue, false), litVal(kFalse, true), litVal(kNull, false), jsonVal(2), jsonVal(9),
		infVal(false, 0, true), infVal(true, 0, true), nanVal(0)}
	for _, op := range []string{"<", "<=", ">", ">=", "==", "!="} {
		for _, v := range operands {
			add(wclause{name: "f", op: op, hi: v})
		}
	}
	add(wclause{wherein: true, name: "f", vals: []wval{numVal(0, 0)}})
	add(wclause{wherein: true, name: "f", vals: []wval{numVal(5000, 1), strVal("AB", false)}})
	add(wclause{wherein: true, name: "f", vals: []wval{litVal(kTrue, false), litVal(kNull, false)}})
	add(wclause{wherein: true, name: "f", vals: []wval{jsonVal(3), numVal(2500, 0), jsonVal(9)}})
	add(wclause{wherein: true, name: "f"})
	add(wclause{wherein: true, name: "g", vals: []wval{numVal(0, 0), numVal(3000, 0)}})
	add(wclause{name: "g", lo: numVal(0, 0), hi: numVal(0, 0), maxx: true})
	add(wclause{name: "nosuchfield", lo: numVal(0, 0), hi: numVal(0, 0)})
	add(wclause{name: "nosuchfield", lo: numVal(0, 0), hi: numVal(0, 0), minx: true})
	add(wclause{name: "f", lo: numVal(1000, 0), hi: numVal(5000, 0), maxx: true}, wclause{name: "g", op: "==", hi: numVal(0, 0)})
	add(wclause{name: "f", op: ">=", hi: numVal(0, 0)}, wclause{wherein: true, name: "f", vals: []wval{numVal(0, 0), numVal(5000, 0), strVal("b", false)}})
	// a quoted "<" as the lower bound is taken for the operator by matchField (model only)
	q := wclause{name: "f", lo: strVal("<", true), hi: numVal(5000, 0), noOracle: "string bound spelled like an operator"}
	qs = append(qs, []wclause{q})
	return qs
}

func reverseStrings(a []string) []string {
	out := make([]string, len(a))
	for i := range a {
		out[len(a)-1-i] = a[i]
	}
	return out
}

func idsOf(v srv.Value) ([]string, bool) {
	if v.Kind != '*' || len(v.Array) != 2 {
		return nil, false
	}
	out := []string{}
	for _, e := range v.Array[1].Array {
		out = append(out, e.Str)
	}
	return out, true
}

func c12Where(r *hx.Result, cfg hx.Config, rng *rand.Rand, drv *model.Driver) {
	rounds, queries := 3, 250
	if cfg.Tier == "thorough" || cfg.Search {
		rounds, queries = 30, 600
	}
	for round := 0; round < rounds; round++ {
		s, err := srv.Start(filepath.Join(cfg.Work, fmt.Sprintf("c12w-%d", round)), "--appendonly", "no")
		if err != nil {
			panic(err)
		}
		func() {
			defer s.Kill()
			c := s.MustDial()
			defer c.Close()
			var objs []wobj
			var qs [][]wclause
			allowNaN := round%3 == 2 // every third dataset also stores NaN fields
			if round == 0 {
				objs = directedObjects()
				qs = directedQueries()
			} else {
				for i, n := 0, 12+rng.Intn(20); i < n; i++ {
					o := wobj{id: fmt.Sprintf("o%02d", i), fields: map[string]wval{}}
					for _, name := range []string{"f", "g"} {
						if rng.Intn(6) > 0 {
							o.fields[name] = randWval(rng, ctxField, allowNaN)
						}
					}
					objs = append(objs, o)
				}
			}
			for len(qs) < queries {
				q := []wclause{randClause(rng, objs, allowNaN)}
				if rng.Intn(4) == 0 {
					q = append(q, randClause(rng, objs, allowNaN))
				}
				qs = append(qs, q)
			}
			for i, o := range objs {
				set := []string{"SET", "k", o.id}
				str := []string{"SET", "strs", o.id}
				for _, n := range []string{"f", "g"} {
					if v, ok := o.fields[n]; ok {
						set = append(set, "FIELD", n, v.tok)
						str = append(str, "FIELD", n, v.tok)
					}
				}
				if v := c.MustDo(append(set, "POINT", fmt.Sprint(i%9), fmt.Sprint(i/9))...); v.IsErr() {
					panic("SET failed: " + v.Str)
				}
				if v := c.MustDo(append(str, "STRING", "v-"+o.id)...); v.IsErr() {
					panic("SET STRING failed: " + v.Str)
				}
			}
			objToks := []string{fmt.Sprint(len(objs))}
			for _, o := range objs {
				objToks = append(objToks, o.modelToks()...)
			}
			for qi, q := range qs {
				var args, wtoks, witoks, descr []string
				nw, nwi := 0, 0
				noOracle := ""
				for _, cl := range q {
					args = append(args, cl.args()...)
					descr = append(descr, cl.describe())
					if cl.wherein {
						nwi++
						witoks = append(witoks, cl.modelToks()...)
					} else {
						nw++
						wtoks = append(wtoks, cl.modelToks()...)
					}
					if cl.noOracle != "" {
						noOracle = cl.noOracle
					}
				}
				filt := append(append([]string{fmt.Sprint(nw)}, wtoks...), append([]string{fmt.Sprint(nwi)}, witoks...)...)
				cmd := func(head []string, tail ...string) srv.Value {
					return c.MustDo(append(append(append([]string{}, head...), args...), tail...)...)
				}
				show := strings.Join(args, " ")
				cs := map[string]interface{}{"round": round, "query": fmt.Sprintf("%q", args), "meaning": strings.Join(descr, " AND ")}
				asc, ok := idsOf(cmd([]string{"SCAN", "k"}, "IDS"))
				if !ok {
					r.Fail(hx.Failure{Kind: "oracle", Signature: "where-rejected",
						What: fmt.Sprintf("SCAN k %s IDS was not answered with an id list", show), Case: cs})
					continue
				}
				// (a) correspondence with the extracted model
				ask := func(desc bool) (int, []string) {
					rep := strings.Fields(drv.Ask(append(append([]string{"where_scan", model.B(desc)}, objToks...), filt...)...))
					n := -1
					ids := []string{}
					if len(rep) > 0 {
						fmt.Sscan(rep[0], &n)
						for _, h := range rep[1:] {
							ids = append(ids, model.U(h))
						}
					}
					return n, ids
				}
				mcount, mids := ask(false)
				corrOK := strings.Join(asc, " ") == strings.Join(mids, " ")
				if !corrOK {
					r.Fail(hx.Failure{Kind: "correspondence", Signature: "where-model",
						What: fmt.Sprintf("SCAN k %s IDS differs from Model.Where.scan_ids", show), Case: cs,
						Impl: strings.Join(asc, " "), Model: strings.Join(mids, " ")})
				}
				// (b) the documented rule, evaluated here; objects whose field is NaN are left out
				want, got := []string{}, []string{}
				skip := map[string]bool{}
				if noOracle == "" {
					for _, o := range objs {
						keep := true
						for _, cl := range q {
							v := o.get(cl.name)
							if v.isNaN() {
								skip[o.id] = true
							}
							keep = keep && cl.keeps(v)
						}
						if keep && !skip[o.id] {
							want = append(want, o.id)
						}
					}
					for _, id := range asc {
						if !skip[id] {
							got = append(got, id)
						}
					}
					if strings.Join(got, " ") != strings.Join(want, " ") {
						detail := []string{}
						inWant := map[string]bool{}
						for _, id := range want {
							inWant[id] = true
						}
						inGot := map[string]bool{}
						for _, id := range got {
							inGot[id] = true
						}
						for _, o := range objs {
							if inWant[o.id] != inGot[o.id] && !skip[o.id] {
								k := "extra"
								if inWant[o.id] {
									k = "missing"
								}
								detail = append(detail, fmt.Sprintf("%s %s(%s=%s)", k, o.id, q[0].name, o.get(q[0].name)))
							}
						}
						r.Fail(hx.Failure{Kind: "oracle", Signature: "where-filter",
							What: fmt.Sprintf("SCAN k %s IDS returned %v; the objects with %s (missing field = 0) are %v: %s",
								show, got, strings.Join(descr, " AND "), want, strings.Join(detail, ", ")), Case: cs})
					}
				}
				kind := "range"
				if q[0].wherein {
					kind = "wherein"
				} else if q[0].op != "" {
					kind = "op" + q[0].op
				} else {
					kind = fmt.Sprintf("range-%s%s", model.B(q[0].minx), model.B(q[0].maxx))
				}
				r.Dist("where:" + kind)
				if noOracle != "" {
					r.Dist("where:model-only")
				}
				r.Count(fmt.Sprintf("w%d/%s", round, show), len(asc) > 0 && len(asc) < len(objs))
				// COUNT = |IDS|
				if cv := cmd([]string{"SCAN", "k"}, "COUNT"); cv.Kind != ':' || int(cv.Int) != len(asc) {
					r.Fail(hx.Failure{Kind: "oracle", Signature: "where-count",
						What: fmt.Sprintf("SCAN k %s COUNT = %s but IDS returns %d ids", show, cv.String(), len(asc)), Case: cs})
				} else if corrOK && (mcount != len(mids) || int(cv.Int) != mcount) { // (one report per query is enough)
					r.Fail(hx.Failure{Kind: "correspondence", Signature: "where-model-count",
						What: fmt.Sprintf("SCAN k %s COUNT differs from Model.Where.scan_count", show), Case: cs, Impl: cv.String(), Model: mcount})
				}
				// DESC = reverse of ASC
				desc, ok := idsOf(cmd([]string{"SCAN", "k"}, "DESC", "IDS"))
				if !ok || strings.Join(desc, " ") != strings.Join(reverseStrings(asc), " ") {
					r.Fail(hx.Failure{Kind: "oracle", Signature: "where-desc",
						What: fmt.Sprintf("SCAN k %s DESC IDS returned %v, ASC returned %v: not the reverse", show, desc, asc), Case: cs})
				} else if _, mdesc := ask(true); corrOK && strings.Join(desc, " ") != strings.Join(mdesc, " ") {
					r.Fail(hx.Failure{Kind: "correspondence", Signature: "where-model-desc",
						What: fmt.Sprintf("SCAN k %s DESC IDS differs from Model.Where.scan_ids", show), Case: cs,
						Impl: strings.Join(desc, " "), Model: strings.Join(mdesc, " ")})
				}
				if cv := cmd([]string{"SCAN", "k"}, "DESC", "COUNT"); cv.Kind != ':' || int(cv.Int) != len(asc) {
					r.Fail(hx.Failure{Kind: "oracle", Signature: "where-count",
						What: fmt.Sprintf("SCAN k %s DESC COUNT = %s but IDS returns %d ids", show, cv.String(), len(asc)), Case: cs})
				}
				// the other commands going through the same filter: same set, COUNT = |IDS|
				if qi%3 == 0 || round == 0 {
					others := []struct {
						what       string
						head, tail []string
						ordered    bool
					}{
						{"SEARCH strs", []string{"SEARCH", "strs"}, nil, true},
						{"SEARCH strs DESC", []string{"SEARCH", "strs", "DESC"}, nil, true},
						{"WITHIN k", []string{"WITHIN", "k"}, []string{"BOUNDS", "-90", "-180", "90", "180"}, false},
						{"INTERSECTS k", []string{"INTERSECTS", "k"}, []string{"BOUNDS", "-90", "-180", "90", "180"}, false},
						{"NEARBY k", []string{"NEARBY", "k"}, []string{"POINT", "1", "1"}, false},
					}
					for _, oc := range others {
						ids, ok := idsOf(cmd(oc.head, append([]string{"IDS"}, oc.tail...)...))
						ref := asc
						if strings.HasSuffix(oc.what, "DESC") {
							ref = reverseStrings(asc)
						}
						if ok && !oc.ordered {
							ids = append([]string{}, ids...)
							sort.Strings(ids)
						}
						r.Dist("where:" + strings.Fields(oc.what)[0])
						if !ok || strings.Join(ids, " ") != strings.Join(ref, " ") {
							r.Fail(hx.Failure{Kind: "oracle", Signature: "where-same-filter",
								What: fmt.Sprintf("%s %s IDS returned %v but SCAN k with the same filter returned %v", oc.what, show, ids, ref), Case: cs})
							continue
						}
						if cv := cmd(oc.head, append([]string{"COUNT"}, oc.tail...)...); cv.Kind != ':' || int(cv.Int) != len(ids) {
							r.Fail(hx.Failure{Kind: "oracle", Signature: "where-count",
								What: fmt.Sprintf("%s %s COUNT = %s but IDS returns %d ids", oc.what, show, cv.String(), len(ids)), Case: cs})
						}
					}
				}
				if len(asc) > 0 && len(asc) < len(objs) && qi%40 == 7 {
					r.Sample(12, map[string]interface{}{"where_query": show, "meaning": strings.Join(descr, " AND "), "kept": len(asc), "objects": len(objs)})
				}
			}
		}()
	}
}
