package main

// Round-5 strengthening of C12 (Model/GlobSelEsc.v, Props/C12esc.v, driver ocaml/globsel):
//
//   - escapes: ids / values / key names / hook and channel names that contain backslashes and
//     metacharacters, patterns that are escape-only (CORP\\alice, CORP\bob), escape + wildcard,
//     or end in a backslash, for PDEL (vs Model.GlobSelEsc.pdel_select and client-side glob.Match),
//     KEYS, SCAN MATCH, SEARCH MATCH, HOOKS, CHANS, PDELHOOK, PDELCHAN (vs client-side glob.Match,
//     HOOKS / CHANS also vs Model.GlobSel.hook_walk);
//   - transports: the same filter query sent as RESP words and as one text line over HTTP GET,
//     HTTP POST and the native "$n line" framing (readNativeMessageLine) must select the same ids:
//     line vs RESP(words) (oracle, plain words only) and line vs RESP(Model.Resp.native_tok(line))
//     (correspondence, every line incl. '{'-first and quoted words).

import (
	"bufio"
	"fmt"
	"io"
	"math/rand"
	"net"
	"net/url"
	"path/filepath"
	"sort"
	"strconv"
	"strings"
	"time"

	"github.com/tidwall/gjson"
	"github.com/tidwall/tile38/verifapi"
	"verifharness/internal/hx"
	"verifharness/internal/model"
	"verifharness/internal/srv"
)

func c12Round5(r *hx.Result, cfg hx.Config, rng *rand.Rand, sel *model.Driver) {
	r.Rule += " round-5: ids / values / names with backslashes and metacharacters x patterns that are escape-only, escape + wildcard or end in a backslash x PDEL/KEYS/SCAN/SEARCH/HOOKS/CHANS/PDELHOOK/PDELCHAN; filter queries whose MATCH pattern opens with [ { or a double quote, in the middle or at the end of the command, sent over RESP, HTTP GET, HTTP POST and the native framing; non-trivial = distinct (dataset, query) selecting a non-empty strict subset."
	c12Escapes(r, cfg, rng, sel)
	c12Transports(r, cfg, rng, sel)
}

// ---------------------------------------------------------------------------------------------
// escapes
// ---------------------------------------------------------------------------------------------

func escAll(s string) string {
	var sb strings.Builder
	for i := 0; i < len(s); i++ {
		sb.WriteByte('\\')
		sb.WriteByte(s[i])
	}
	return sb.String()
}

func escMeta(s string) string {
	return strings.NewReplacer("\\", "\\\\", "*", "\\*", "?", "\\?", "[", "\\[").Replace(s)
}

func matching(p string, names []string) []string {
	out := []string{}
	for _, n := range names {
		if ok, _ := verifapi.GlobMatch(p, n); ok {
			out = append(out, n)
		}
	}
	return out
}

func c12Escapes(r *hx.Result, cfg hx.Config, rng *rand.Rand, sel *model.Driver) {
	rounds, npats := 3, 24
	if cfg.Tier == "thorough" || cfg.Search {
		rounds, npats = 30, 60
	}
	s, err := srv.Start(filepath.Join(cfg.Work, "c12esc"), "--appendonly", "no")
	if err != nil {
		panic(err)
	}
	defer s.Kill()
	c := s.MustDial()
	defer c.Close()
	for round := 0; round < rounds; round++ {
		var ids, pats []string
		if round == 0 {
			ids = []string{"CORP\\alice", "CORPalice", "CORP\\bob", "CORPbob", "a*b", "a\\*b", "ab", "a\\", "a", "x\\", "x\\\\", "a\\b"}
			pats = []string{"CORP\\\\alice", "CORP\\bob", "CORP\\alice", "CORPbob", "a\\*b", "a\\\\\\*b", "a\\\\*", "a\\", "x\\\\", "x\\\\\\\\",
				"\\a", "a\\b", "a\\\\b", "CORP\\\\*", "CORP\\\\?lice", "\\CORPbob", "CORP\\\\bob", "\\a\\b", "a\\\\", "*\\\\*"}
		} else {
			seen := map[string]bool{}
			alpha := []string{"a", "b", "\\", "*", "c", "\\", "a", "?"}
			for i := 0; i < 16; i++ {
				id := randFrom(rng, alpha, 4)
				if id == "" || seen[id] {
					continue
				}
				seen[id] = true
				ids = append(ids, id)
			}
		}
		sort.Strings(ids)
		for len(pats) < npats {
			id := ids[rng.Intn(len(ids))]
			switch rng.Intn(7) {
			case 0:
				pats = append(pats, escAll(id)) // escape-only, every byte escaped
			case 1:
				pats = append(pats, escMeta(id)) // escape-only where needed: selects exactly this id
			case 2:
				pats = append(pats, id) // raw: backslashes of the id act as escapes
			case 3:
				cut := rng.Intn(len(id) + 1)
				pats = append(pats, escMeta(id[:cut])+"*") // escape + wildcard
			case 4:
				pats = append(pats, id+"\\") // trailing backslash
			case 5:
				cut := rng.Intn(len(id) + 1)
				pats = append(pats, id[:cut]+"\\"+id[cut:]) // one extra escape somewhere
			default:
				pats = append(pats, escMeta(id)+"?")
			}
		}
		pkey, skey := fmt.Sprintf("ep%d", round), fmt.Sprintf("es%d", round)
		kpre := fmt.Sprintf("K%d.", round)
		var keyNames []string
		type hk struct {
			name string
			ch   bool
		}
		var reg []hk
		for i, id := range ids {
			c.MustDo("SET", pkey, id, "POINT", "1", "1")
			c.MustDo("SET", skey, id, "STRING", id)
			c.MustDo("SET", kpre+id, "x", "POINT", "1", "1")
			keyNames = append(keyNames, kpre+id)
			name := fmt.Sprintf("h%d.", round) + id
			var v srv.Value
			if i%2 == 0 {
				v = c.MustDo("SETHOOK", name, "http://127.0.0.1:9/never", "NEARBY", "hk", "FENCE", "POINT", "1", "1", "1000")
			} else {
				v = c.MustDo("SETCHAN", name, "NEARBY", "hk", "FENCE", "POINT", "1", "1", "1000")
			}
			if v.IsErr() {
				panic("hook setup failed: " + v.Str)
			}
			reg = append(reg, hk{name, i%2 == 1})
		}
		sort.Slice(reg, func(i, j int) bool { return reg[i].name < reg[j].name })
		sort.Strings(keyNames)
		hpre := fmt.Sprintf("h%d.", round)
		idsText := r3qs(ids)
		fail := func(kind, sig, what string, cs map[string]interface{}, impl, mod string) {
			f := hx.Failure{Kind: kind, Signature: sig, What: what, Case: cs}
			if kind == "correspondence" {
				f.Impl, f.Model = impl, mod
			}
			r.Fail(f)
		}
		for pi, p := range pats {
			cs := map[string]interface{}{"round": round, "pattern": r3q(p), "ids": idsText}
			want := matching(p, ids)
			nontriv := len(want) > 0 && len(want) < len(ids)
			// SCAN MATCH asc / desc
			for _, desc := range []bool{false, true} {
				dir := "ASC"
				w := want
				if desc {
					dir = "DESC"
					w = reverseStrings(want)
				}
				if got, ok := idsOf(c.MustDo("SCAN", pkey, "MATCH", p, dir, "LIMIT", "100000", "IDS")); ok {
					r.Count(fmt.Sprintf("esc/%d/SCAN-%s/%q", round, dir, p), nontriv)
					r.Dist("esc:SCAN")
					if !sameList(got, w) {
						fail("oracle", "filter-SCAN-ESC-"+dir, fmt.Sprintf("SCAN %s MATCH %q %s IDS returned %q; glob.Match accepts %q of the ids %s", pkey, p, dir, got, w, idsText), cs, "", "")
					}
				}
			}
			// SEARCH MATCH (values == ids, so the value order is the id order)
			if got, ok := idsOf(c.MustDo("SEARCH", skey, "MATCH", p, "LIMIT", "100000", "IDS")); ok {
				r.Count(fmt.Sprintf("esc/%d/SEARCH/%q", round, p), nontriv)
				r.Dist("esc:SEARCH")
				if !sameList(got, want) {
					fail("oracle", "filter-SEARCH-ESC", fmt.Sprintf("SEARCH %s MATCH %q IDS returned %q; glob.Match accepts the values %q of %s", skey, p, got, want, idsText), cs, "", "")
				}
			}
			// KEYS
			if kv := c.MustDo("KEYS", kpre+p); kv.Kind == '*' {
				got := respStrings(kv)
				sort.Strings(got)
				wk := matching(kpre+p, keyNames)
				r.Count(fmt.Sprintf("esc/%d/KEYS/%q", round, p), len(wk) > 0 && len(wk) < len(keyNames))
				r.Dist("esc:KEYS")
				if !sameList(got, wk) {
					fail("oracle", "filter-KEYS-ESC", fmt.Sprintf("KEYS %q returned %q; glob.Match accepts %q of the keys %q", kpre+p, got, wk, keyNames), cs, "", "")
				}
			}
			// HOOKS / CHANS
			for _, ch := range []bool{false, true} {
				cmdName := "HOOKS"
				if ch {
					cmdName = "CHANS"
				}
				got, ok := hookNames(c.MustDo(cmdName, hpre+p))
				if !ok {
					continue
				}
				var wh, toks []string
				for _, e := range reg {
					toks = append(toks, model.H(e.name), model.B(e.ch))
					if m, _ := verifapi.GlobMatch(hpre+p, e.name); m && e.ch == ch {
						wh = append(wh, e.name)
					}
				}
				r.Count(fmt.Sprintf("esc/%d/%s/%q", round, cmdName, p), len(wh) > 0)
				r.Dist("esc:" + cmdName)
				mod, mok := modelList(sel.Ask(append([]string{"hook_walk", model.B(ch), model.H(hpre + p)}, toks...)...))
				if !mok || !sameList(got, mod) {
					fail("correspondence", "hook-walk-model-"+cmdName, fmt.Sprintf("%s %q lists %q, Model.GlobSel.hook_walk gives %q", cmdName, hpre+p, got, mod), cs, r3qs(got), r3qs(mod))
				}
				if !sameList(got, wh) {
					fail("oracle", "filter-"+cmdName+"-ESC", fmt.Sprintf("%s %q lists %q; glob.Match accepts %q", cmdName, hpre+p, got, wh), cs, "", "")
				}
			}
			// PDEL on a fresh copy of the ids
			dkey := fmt.Sprintf("ed%d_%d", round, pi)
			for _, id := range ids {
				c.MustDo("SET", dkey, id, "POINT", "1", "1")
			}
			pv := c.MustDo("PDEL", dkey, p)
			left, ok := idsOf(c.MustDo("SCAN", dkey, "LIMIT", "100000", "IDS"))
			if pv.Kind == ':' && ok {
				var deleted, wantLeft []string
				for _, id := range ids {
					found := false
					for _, l := range left {
						if l == id {
							found = true
						}
					}
					if !found {
						deleted = append(deleted, id)
					}
					if m, _ := verifapi.GlobMatch(p, id); !m {
						wantLeft = append(wantLeft, id)
					}
				}
				r.Count(fmt.Sprintf("esc/%d/PDEL/%q", round, p), nontriv)
				r.Dist("esc:PDEL")
				req := []string{"pdel_select", model.H(p)}
				for _, id := range ids {
					req = append(req, model.H(id))
				}
				mod, mok := modelList(sel.Ask(req...))
				if !mok || !sameList(deleted, mod) {
					fail("correspondence", "pdel-select-model", fmt.Sprintf("PDEL %s %q deleted %q (reply %d), Model.GlobSelEsc.pdel_select deletes %q (ids %s)", dkey, p, deleted, pv.Int, mod, idsText),
						cs, r3qs(deleted), r3qs(mod))
				}
				if !sameList(left, wantLeft) || int(pv.Int) != len(want) {
					fail("oracle", "filter-PDEL-ESC", fmt.Sprintf("PDEL %s %q answered %d and left %q; glob.Match accepts %q, so %q should be left (ids %s)", dkey, p, pv.Int, left, want, wantLeft, idsText), cs, "", "")
				}
				if len(left) > 0 {
					c.MustDo("DROP", dkey)
				}
			}
		}
		// PDELHOOK / PDELCHAN with escape patterns, the registry tracked by exact-name read-back
		for i := 0; i < 4 && i < len(pats); i++ {
			p := hpre + pats[(i*5+round)%len(pats)]
			ch := i%2 == 1
			cmdName := "PDELHOOK"
			lc := "HOOKS"
			if ch {
				cmdName, lc = "PDELCHAN", "CHANS"
			}
			var dead []string
			var keep []hk
			var desc []string
			for _, e := range reg {
				desc = append(desc, fmt.Sprintf("%s:%q", map[bool]string{false: "hook", true: "chan"}[e.ch], e.name))
				if m, _ := verifapi.GlobMatch(p, e.name); m && e.ch == ch {
					dead = append(dead, e.name)
				} else {
					keep = append(keep, e)
				}
			}
			v := c.MustDo(cmdName, p)
			if v.Kind != ':' {
				continue
			}
			r.Count(fmt.Sprintf("esc/%d/%s/%q", round, cmdName, p), len(dead) > 0)
			r.Dist("esc:" + cmdName)
			all, _ := hookNames(c.MustDo(lc, "*"))
			var after []string // the entries of this round (earlier rounds left theirs on the same server)
			for _, n := range all {
				if strings.HasPrefix(n, hpre) {
					after = append(after, n)
				}
			}
			var wantAfter []string
			for _, e := range keep {
				if e.ch == ch {
					wantAfter = append(wantAfter, e.name)
				}
			}
			if int(v.Int) != len(dead) || !sameList(after, wantAfter) {
				r.Fail(hx.Failure{Kind: "oracle", Signature: "filter-" + cmdName + "-ESC",
					What: fmt.Sprintf("%s %q answered %d and %s * then lists %q; glob.Match accepts %q, %q should remain (registry: %s)", cmdName, p, v.Int, lc, after, dead, wantAfter, strings.Join(desc, " ")),
					Case: map[string]interface{}{"round": round, "command": cmdName + " " + r3q(p), "registry": strings.Join(desc, " ")}})
			}
			// continue from what the server holds
			var now []hk
			for _, e := range reg {
				if e.ch != ch {
					now = append(now, e)
					continue
				}
				for _, a := range after {
					if a == e.name {
						now = append(now, e)
					}
				}
			}
			reg = now
		}
		r.Sample(28, map[string]interface{}{"escape_round": round, "ids": idsText, "patterns": len(pats)})
	}
}

// ---------------------------------------------------------------------------------------------
// transports
// ---------------------------------------------------------------------------------------------

type lineConn struct {
	c net.Conn
	r *bufio.Reader
}

func dialLine(port int) *lineConn {
	c, err := net.DialTimeout("tcp", "127.0.0.1:"+strconv.Itoa(port), 3*time.Second)
	if err != nil {
		panic(err)
	}
	return &lineConn{c: c, r: bufio.NewReader(c)}
}

// one HTTP/1.1 request on a fresh connection; the JSON body
func httpLine(port int, post bool, line string) (string, error) {
	lc := dialLine(port)
	defer lc.c.Close()
	var req string
	if post {
		req = "POST / HTTP/1.1\r\nHost: x\r\nContent-Length: " + strconv.Itoa(len(line)) + "\r\n\r\n" + line
	} else {
		req = "GET /" + url.QueryEscape(line) + " HTTP/1.1\r\nHost: x\r\n\r\n"
	}
	lc.c.SetDeadline(time.Now().Add(15 * time.Second))
	if _, err := lc.c.Write([]byte(req)); err != nil {
		return "", err
	}
	cl := -1
	first := true
	for {
		h, err := lc.r.ReadString('\n')
		if err != nil {
			return "", fmt.Errorf("HTTP header: %v", err)
		}
		h = strings.TrimRight(h, "\r\n")
		if first {
			first = false
			if !strings.HasPrefix(h, "HTTP/1.1 ") {
				return "", fmt.Errorf("bad status line %q", h)
			}
			continue
		}
		if h == "" {
			break
		}
		if k, v, ok := strings.Cut(h, ":"); ok && strings.EqualFold(k, "content-length") {
			cl, _ = strconv.Atoi(strings.TrimSpace(v))
		}
	}
	if cl < 0 {
		return "", fmt.Errorf("no Content-Length")
	}
	buf := make([]byte, cl)
	if _, err := io.ReadFull(lc.r, buf); err != nil {
		return "", err
	}
	return string(buf), nil
}

// the native framing on a persistent connection: "$<n> <line>\r\n" -> "$<n> <json>\r\n"
func (lc *lineConn) native(line string) (string, error) {
	lc.c.SetDeadline(time.Now().Add(15 * time.Second))
	if _, err := lc.c.Write([]byte("$" + strconv.Itoa(len(line)) + " " + line + "\r\n")); err != nil {
		return "", err
	}
	b, err := lc.r.ReadByte()
	if err != nil {
		return "", err
	}
	if b != '$' {
		return "", fmt.Errorf("native reply starts with %q", b)
	}
	ns, err := lc.r.ReadString(' ')
	if err != nil {
		return "", err
	}
	n, err := strconv.Atoi(strings.TrimSpace(ns))
	if err != nil || n < 0 {
		return "", fmt.Errorf("native reply length %q", ns)
	}
	buf := make([]byte, n+2)
	if _, err := io.ReadFull(lc.r, buf); err != nil {
		return "", err
	}
	return string(buf[:n]), nil
}

// canonical observable of a filter query: the selected names (ids / keys / hook names) and the count
func canonJSON(body string) string {
	if !gjson.Valid(body) {
		return "invalid-json:" + body
	}
	j := gjson.Parse(body)
	if !j.Get("ok").Bool() {
		return "err" // the wording of an error differs between the JSON and the RESP replies
	}
	var names []string
	has := false
	for _, k := range []string{"ids", "keys"} {
		if a := j.Get(k); a.Exists() {
			has = true
			for _, e := range a.Array() {
				names = append(names, e.String())
			}
		}
	}
	for _, k := range []string{"objects", "hooks", "chans"} {
		if a := j.Get(k); a.Exists() {
			has = true
			for _, e := range a.Array() {
				if id := e.Get("id"); id.Exists() {
					names = append(names, id.String())
				} else {
					names = append(names, e.Get("name").String())
				}
			}
		}
	}
	if has {
		return fmt.Sprintf("names=%q", names)
	}
	if cnt := j.Get("count"); cnt.Exists() {
		return fmt.Sprintf("count=%d", cnt.Int())
	}
	return "ok"
}

func canonRESPReply(v srv.Value) string {
	switch v.Kind {
	case '-':
		return "err"
	case ':':
		return fmt.Sprintf("count=%d", v.Int)
	case '+':
		return "ok"
	case '*':
		var names []string
		items := v.Array
		if len(v.Array) == 2 && v.Array[0].Kind == ':' && v.Array[1].Kind == '*' { // [cursor, items]
			items = v.Array[1].Array
		}
		for _, e := range items {
			if e.Kind == '*' && len(e.Array) > 0 {
				names = append(names, e.Array[0].Str)
			} else {
				names = append(names, e.Str)
			}
		}
		return fmt.Sprintf("names=%q", names)
	}
	return v.String()
}

func plainWord(w string) bool {
	// a word opening with a double quote is only special behind SET ... STRING (none of the queries is one)
	return w != "" && w[0] != '{' && !strings.Contains(w, " ")
}

func c12Transports(r *hx.Result, cfg hx.Config, rng *rand.Rand, sel *model.Driver) {
	nrand := 60
	if cfg.Tier == "thorough" || cfg.Search {
		nrand = 1500
	}
	s, err := srv.Start(filepath.Join(cfg.Work, "c12tr"), "--appendonly", "no")
	if err != nil {
		panic(err)
	}
	defer s.Kill()
	c := s.MustDial()
	defer c.Close()
	nat := dialLine(s.Port)
	defer nat.c.Close()
	ids := []string{"a1", "b1", "c1", "d1", "[x", "{y", "\"q", "ab", "^z"}
	for i, id := range ids {
		c.MustDo("SET", "fleet", id, "FIELD", "speed", fmt.Sprint(i*3), "POINT", "1", "1")
		c.MustDo("SET", "names", id, "STRING", id)
	}
	c.MustDo("SET", "[key", "x", "POINT", "1", "1")
	c.MustDo("SETHOOK", "[hook", "http://127.0.0.1:9/never", "NEARBY", "hk", "FENCE", "POINT", "1", "1", "1000")
	c.MustDo("SETHOOK", "ahook", "http://127.0.0.1:9/never", "NEARBY", "hk", "FENCE", "POINT", "1", "1", "1000")
	c.MustDo("SETCHAN", "bchan", "NEARBY", "hk", "FENCE", "POINT", "1", "1", "1000")
	queries := [][]string{
		{"SCAN", "fleet", "MATCH", "[ab]*", "IDS"}, {"SCAN", "fleet", "MATCH", "[ab]*", "COUNT"}, {"SCAN", "fleet", "MATCH", "[ab]*"},
		{"SCAN", "fleet", "MATCH", "[^ab]?", "IDS"}, {"SCAN", "fleet", "MATCH", "[c-d]1", "DESC", "IDS"},
		{"SCAN", "fleet", "MATCH", "[ab]*", "WHERE", "speed", "2", "100", "IDS"}, {"SCAN", "fleet", "WHERE", "speed", "2", "100", "MATCH", "[ab]*", "IDS"},
		{"SCAN", "fleet", "DESC", "MATCH", "[ab]*"}, {"SCAN", "fleet", "MATCH", "[ab]*", "MATCH", "[c]*", "IDS"},
		{"SEARCH", "names", "MATCH", "[ab]*", "IDS"}, {"SEARCH", "names", "MATCH", "[ab]*", "COUNT"}, {"SEARCH", "names", "MATCH", "[ab]*", "DESC", "LIMIT", "1", "IDS"},
		{"SCAN", "fleet", "MATCH", "a*", "IDS"}, {"SCAN", "fleet", "MATCH", "?1", "COUNT"}, {"SCAN", "fleet", "MATCH", "\\[x", "IDS"}, {"SCAN", "fleet", "MATCH", "[[]x", "IDS"},
		{"SCAN", "fleet", "MATCH", "\"*", "IDS"}, {"SCAN", "fleet", "LIMIT", "5", "MATCH", "\"*"}, {"SCAN", "fleet", "MATCH", "\"q", "COUNT"},
		{"SCAN", "fleet", "MATCH", "{*", "IDS"}, {"SCAN", "fleet", "DESC", "MATCH", "{*"}, {"SCAN", "fleet", "WHERE", "speed", "0", "100", "MATCH", "{y"},
		{"NEARBY", "fleet", "MATCH", "[ab]*", "IDS", "POINT", "1", "1", "100000"}, {"WITHIN", "fleet", "MATCH", "[ab]*", "IDS", "BOUNDS", "0", "0", "5", "5"},
		{"INTERSECTS", "fleet", "MATCH", "[c-d]1", "COUNT", "BOUNDS", "0", "0", "5", "5"},
		{"KEYS", "[f]*"}, {"KEYS", "[[]*"}, {"HOOKS", "[a]*"}, {"HOOKS", "[[]*"}, {"CHANS", "[b]*"}, {"SCAN", "fleet", "WHEREIN", "speed", "2", "3", "6", "MATCH", "[ab]*", "IDS"},
	}
	brk := []string{"[ab]*", "[^ab]?", "[c-d]1", "[a-c]?", "[[]x", "[x", "[]", "[a", "[\"{]*", "[ab]1", "{*", "{y", "\"*", "\"q", "a*", "*1", "?b", "\\[x"}
	nfixed := len(queries)
	for len(queries) < nfixed+nrand {
		p := brk[rng.Intn(len(brk))]
		cmd := []string{"SCAN", "fleet"}
		if rng.Intn(3) == 0 {
			cmd = []string{"SEARCH", "names"}
		}
		tail := [][]string{{"IDS"}, {"COUNT"}, {"DESC", "IDS"}, {"LIMIT", "2", "IDS"}, {}}[rng.Intn(5)]
		var q []string
		switch rng.Intn(4) {
		case 0: // pattern last (the output kind must follow MATCH, so this form has none: OBJECTS)
			pre := [][]string{{}, {"DESC"}, {"LIMIT", "3"}, {"WHERE", "speed", "0", "100"}}[rng.Intn(4)]
			q = append(append(append(q, cmd...), pre...), "MATCH", p)
		case 1: // a WHERE behind the pattern
			q = append(append(append(q, cmd...), "MATCH", p, "WHERE", "speed", fmt.Sprint(rng.Intn(9)), "100"), tail...)
		case 2: // two patterns
			q = append(append(append(q, cmd...), "MATCH", p, "MATCH", brk[rng.Intn(len(brk))]), tail...)
		default:
			q = append(append(append(q, cmd...), "MATCH", p), tail...)
		}
		queries = append(queries, q)
	}
	type tr struct {
		name string
		do   func(line string) (string, error)
	}
	transports := []tr{
		{"HTTP-GET", func(l string) (string, error) { return httpLine(s.Port, false, l) }},
		{"HTTP-POST", func(l string) (string, error) { return httpLine(s.Port, true, l) }},
		{"NATIVE", func(l string) (string, error) { return nat.native(l) }},
	}
	for _, ws := range queries {
		line := strings.Join(ws, " ")
		allPlain := true
		for i, w := range ws {
			if !plainWord(w) && !(i == len(ws)-1 && w != "" && w[0] == '{' && !strings.Contains(w, " ")) {
				allPlain = false
			}
		}
		// a quoted last word after SET ... STRING is unquoted by the splitter; none of these queries is a SET
		respWords := canonRESPReply(c.MustDo(ws...))
		mtoks, mok := modelList(sel.Ask("transport_words", model.H(line)))
		respModel := "model-failed"
		if mok && len(mtoks) > 0 {
			respModel = canonRESPReply(c.MustDo(mtoks...))
		}
		for _, t := range transports {
			body, err := t.do(line)
			if err != nil {
				r.Fail(hx.Failure{Kind: "oracle", Signature: "transport-io-" + t.name, What: fmt.Sprintf("%s over %s: %v", line, t.name, err),
					Case: map[string]interface{}{"line": line}})
				continue
			}
			got := canonJSON(body)
			r.Count(fmt.Sprintf("tr/%s/%s", t.name, line), strings.HasPrefix(respWords, "names=[\"") || strings.HasPrefix(respWords, "count=") && respWords != "count=0")
			r.Dist("tr:" + t.name)
			cs := map[string]interface{}{"line": line, "transport": t.name, "ids": r3qs(ids)}
			if got != respModel {
				r.Fail(hx.Failure{Kind: "correspondence", Signature: "transport-split-model-" + t.name,
					What: fmt.Sprintf("%q over %s answers %s; the words Model.Resp.native_tok makes of the line, %q, answer %s over RESP", line, t.name, got, mtoks, respModel),
					Case: cs, Impl: got, Model: respModel})
			}
			if allPlain && got != respWords {
				r.Fail(hx.Failure{Kind: "oracle", Signature: "filter-transport-" + t.name,
					What: fmt.Sprintf("%q over %s answers %s; the same words %q over RESP answer %s (fleet ids %s)", line, t.name, got, ws, respWords, r3qs(ids)),
					Case: cs})
			}
		}
	}
	// the one quoting rule of the line protocols: SET ... STRING "two words"
	for i, t := range transports {
		id := fmt.Sprintf("q%d", i)
		line := "SET names " + id + " STRING \"two words " + id + "\""
		if _, err := t.do(line); err == nil {
			v := c.MustDo("GET", "names", id)
			r.Count("tr/quoted/"+t.name, true)
			if v.Str != "two words "+id {
				r.Fail(hx.Failure{Kind: "oracle", Signature: "filter-transport-quoted-" + t.name,
					What: fmt.Sprintf("%q over %s stored %q; expected %q", line, t.name, v.Str, "two words "+id), Case: map[string]interface{}{"line": line}})
			}
			got, _ := idsOf(c.MustDo("SEARCH", "names", "MATCH", "two words "+id, "IDS"))
			if !sameList(got, []string{id}) {
				r.Fail(hx.Failure{Kind: "oracle", Signature: "filter-transport-quoted-" + t.name,
					What: fmt.Sprintf("after %q over %s, SEARCH names MATCH %q IDS returned %q", line, t.name, "two words "+id, got), Case: map[string]interface{}{"line": line}})
			}
		}
	}
	r.Sample(32, map[string]interface{}{"transport_queries": len(queries), "first": strings.Join(queries[0], " ")})
}
