package main

import (
	"encoding/json"
	"fmt"
	"math"
	"math/rand"
	"os"
	"path/filepath"
	"reflect"
	"sort"
	"strconv"
	"strings"
	"time"

	"github.com/tidwall/tile38/verifapi"
	"verifharness/internal/fencex"
	"verifharness/internal/hx"
	"verifharness/internal/model"
	"verifharness/internal/srv"
)

func main() { hx.Main("C05", runC05) }

var kinds = []string{"inside", "outside", "enter", "exit", "cross"}

type fence struct {
	name     string
	sink     string // chan | hook | live
	key      string
	cmd      string // nearby | within | intersects
	area     verifapi.FenceArea
	detect   []string // nil = no DETECT clause
	where    *[2]float64
	wherein  []float64 // WHEREIN speed n v1 .. vn
	evalGT   *float64  // WHEREEVAL "return FIELDS.speed > v" 0, or with evalArgv: "... > tonumber(ARGV[1])" 1 v
	evalArgv bool
	limit    int // LIMIT n in the definition (0 = none)
	match    string
	commands []string
	nofields bool
	count    bool
	role     string // main | filter | other-near | other-far | other-key | redefined | fresh
	roam     bool   // NEARBY key FENCE ROAM key zz-none 1: a hook without an area (Fence.obj == nil)
	ex       string // EX seconds ("" = none)
	twin     string // redefined: name of the channel defined once with the same final definition
	history  string // redefined: the definition it replaced
	url      string // hook: endpoint URL ("" = the always-accepting receiver of the round)
}

type obj struct {
	lat, lon float64
	speed    float64
	str      bool
	gj       string  // != "": SET ... OBJECT <geojson> (a line or a polygon around lat, lon)
	half     float64 // > 0: a rectangle object SET ... BOUNDS lat-half lon-half lat+half lon+half
}

func (o *obj) spec() verifapi.FenceObj {
	if o.gj != "" {
		return verifapi.FenceObj{Kind: "json", JSON: o.gj}
	}
	if o.half > 0 {
		return verifapi.FenceObj{Kind: "bounds", MinLat: o.lat - o.half, MinLon: o.lon - o.half, MaxLat: o.lat + o.half, MaxLon: o.lon + o.half}
	}
	return verifapi.FenceObj{Kind: "point", Lat: o.lat, Lon: o.lon}
}

type write struct {
	kind  string // set | fset | del | pdel-child | drop | expire | expired | strset
	id    string
	o     obj  // the object carried by the write (new, or deleted)
	old   *obj // previous object (set only)
	label string
}

func ff(v float64) string { return strconv.FormatFloat(v, 'f', -1, 64) }

// order-preserving integer image of a float64 (for the registry model's rectangles)
func ord(f float64) string {
	b := math.Float64bits(f)
	if b>>63 == 0 {
		return strconv.FormatUint(b, 10)
	}
	return "-" + strconv.FormatUint(b&^(1<<63), 10)
}

func (f *fence) dbits() string {
	if f.detect == nil {
		return "100000"
	}
	s := []byte("000000")
	for _, d := range f.detect {
		for i, k := range kinds {
			if k == d {
				s[i+1] = '1'
			}
		}
	}
	return string(s)
}

func (f *fence) detects(k string) bool {
	if f.detect == nil {
		return true
	}
	for _, d := range f.detect {
		if d == k {
			return true
		}
	}
	return false
}

func (f *fence) areaRectOrd() string {
	if f.roam {
		return "-"
	}
	a, b, c, d := verifapi.FenceAreaRect(f.area)
	return ord(a) + "," + ord(b) + "," + ord(c) + "," + ord(d)
}

func (f *fence) args() []string {
	a := []string{strings.ToUpper(f.cmd), f.key}
	if f.limit > 0 {
		a = append(a, "LIMIT", strconv.Itoa(f.limit))
	}
	if f.match != "" {
		a = append(a, "MATCH", f.match)
	}
	if f.wherein != nil {
		a = append(a, "WHEREIN", "speed", strconv.Itoa(len(f.wherein)))
		for _, v := range f.wherein {
			a = append(a, ff(v))
		}
	}
	if f.evalGT != nil && f.evalArgv {
		a = append(a, "WHEREEVAL", "return FIELDS.speed > tonumber(ARGV[1])", "1", ff(*f.evalGT))
	} else if f.evalGT != nil {
		a = append(a, "WHEREEVAL", "return FIELDS.speed > "+ff(*f.evalGT), "0")
	}
	if f.where != nil {
		a = append(a, "WHERE", "speed", ff(f.where[0]), ff(f.where[1]))
	}
	if f.nofields {
		a = append(a, "NOFIELDS")
	}
	a = append(a, "FENCE")
	if f.detect != nil {
		a = append(a, "DETECT", strings.Join(f.detect, ","))
	}
	if f.commands != nil {
		a = append(a, "COMMANDS", strings.Join(f.commands, ","))
	}
	if f.count {
		a = append(a, "COUNT")
	}
	if f.roam {
		// no object of the collection has the id zz-none: the roam arm itself never finds a neighbour
		return append(a, "ROAM", f.key, "zz-none", "1")
	}
	if f.area.Kind == "circle" {
		if f.cmd == "nearby" {
			a = append(a, "POINT", ff(f.area.Lat), ff(f.area.Lon), ff(f.area.Meters))
		} else {
			a = append(a, "CIRCLE", ff(f.area.Lat), ff(f.area.Lon), ff(f.area.Meters))
		}
	} else {
		a = append(a, "BOUNDS", ff(f.area.MinLat), ff(f.area.MinLon), ff(f.area.MaxLat), ff(f.area.MaxLon))
	}
	return a
}

func (f *fence) describe() string { return f.sink + ":" + f.name + " " + strings.Join(f.args(), " ") }

func (f *fence) sp(o *obj) bool {
	if o == nil || o.str || f.roam {
		return false
	}
	return verifapi.FenceHitObj(f.cmd, f.area, o.spec())
}

func (f *fence) flt(o *obj) bool {
	if o == nil {
		return false
	}
	if f.wherein != nil {
		in := false
		for _, v := range f.wherein {
			in = in || v == o.speed
		}
		if !in {
			return false
		}
	}
	if f.evalGT != nil && !(o.speed > *f.evalGT) {
		return false
	}
	return f.where == nil || (o.speed >= f.where[0] && o.speed <= f.where[1])
}

func (f *fence) otest(o *obj) string {
	if o == nil {
		return "-"
	}
	return model.B(f.sp(o)) + model.B(f.flt(o))
}

func (f *fence) accepts(command string) bool {
	if f.commands == nil {
		return true
	}
	for _, c := range f.commands {
		if c == command {
			return true
		}
	}
	return false
}

func wireCommand(k string) string {
	switch k {
	case "set", "strset":
		return "set"
	case "fset":
		return "fset"
	case "del", "pdel-child", "expired":
		return "del"
	case "drop":
		return "drop"
	}
	return "expire"
}

// abstract case of (fence, write) in the driver's notation, plus the pieces the oracle needs
type acase struct {
	req     []string
	oldTi   string
	newTi   string
	cmd     string
	oldT    string
	newT    string
	cross   bool
	glob    bool
	guardOK bool
}

func abstract(f *fence, w write) acase {
	var c acase
	c.cmd = wireCommand(w.kind)
	mcmd := c.cmd
	if mcmd == "expire" {
		mcmd = "other"
	}
	objT := "-"
	if w.kind != "drop" {
		objT = f.otest(&w.o)
	}
	c.newT = objT
	c.oldT = f.otest(w.old)
	c.newTi, c.oldTi = "-", f.otest(w.old)
	if w.kind != "drop" {
		c.newTi = f.otest(&w.o)
	}
	c.glob = f.match == "" || func() bool { ok, _ := verifapi.GlobMatch(f.match, w.id); return ok }()
	spatial := !w.o.str
	if w.old != nil && !w.old.str && !w.o.str && w.kind == "set" {
		la1, lo1 := verifapi.FenceObjCenter(w.old.spec())
		la2, lo2 := verifapi.FenceObjCenter(w.o.spec())
		c.cross = verifapi.FenceCross(f.area, la1, lo1, la2, lo2)
	}
	c.guardOK = c.glob && spatial && !(c.cmd == "fset" && f.nofields) && !f.count && f.accepts(c.cmd)
	c.req = []string{"fm", model.B(f.accepts(c.cmd)), f.dbits(), mcmd, c.newTi, c.oldTi, model.B(c.glob), model.B(spatial),
		model.B(f.nofields), model.B(c.cross), model.B(!f.count)}
	return c
}

// the documented rule, written independently of the model (direct oracle)
func docSeq(f *fence, c acase) []string {
	in := func(t string) bool { return t == "11" }
	var all []string
	if c.cmd == "fset" { // R3: no previous object
		if in(c.newT) {
			all = []string{"inside"}
		} else {
			all = []string{"outside"}
		}
	} else {
		switch {
		case in(c.oldT) && in(c.newT):
			all = []string{"inside"}
		case !in(c.oldT) && in(c.newT):
			all = []string{"enter", "inside"}
		case in(c.oldT) && !in(c.newT):
			all = []string{"exit", "outside"}
		default:
			if c.newT[1] != '1' { // R1: new object fails the filters
				all = nil
			} else if c.cross && c.oldT != "-" && c.oldT[0] == '0' { // R2
				all = []string{"cross", "outside"}
			} else {
				all = []string{"outside"}
			}
		}
	}
	var out []string
	for _, k := range all {
		if f.detects(k) {
			out = append(out, k)
		}
	}
	return out
}

func transition(c acase) string {
	cls := func(t string) string {
		switch t {
		case "-":
			return "N"
		case "11":
			return "I"
		case "10":
			return "i" // spatially inside, filtered out
		case "01":
			return "O"
		}
		return "o" // outside and filtered out
	}
	x := ""
	if c.cross {
		x = "x"
	}
	return c.cmd + ":" + cls(c.oldT) + cls(c.newT) + x
}

type env struct {
	r     *hx.Result
	cfg   hx.Config
	rng   *rand.Rand
	drv   *model.Driver
	s     *srv.Server
	wh    *fencex.Webhook
	cache map[string]string
}

func (e *env) fm(req []string) string {
	k := strings.Join(req, " ")
	if v, ok := e.cache[k]; ok {
		return v
	}
	v := e.drv.Ask(req...)
	e.cache[k] = v
	return v
}

func toks(reply string) []string {
	if !strings.HasPrefix(reply, "ok") {
		return []string{"!" + reply}
	}
	rest := strings.TrimSpace(strings.TrimPrefix(reply, "ok"))
	if rest == "" {
		return nil
	}
	return strings.Split(rest, ",")
}

func runC05(r *hx.Result, cfg hx.Config) {
	r.Rule = "black-box: static fences (SETCHAN channels, SETHOOK webhooks to a local endpoint, live NEARBY/WITHIN/INTERSECTS ... FENCE connections) on circular and rectangular areas: one channel per expressible DETECT value (no clause + 31 non-empty subsets), filter variants (WHERE, MATCH, COMMANDS, NOFIELDS, COUNT) and 0 / 5 / 60 other hooks placed near, far and on another key. Every write (SET for II, OI, IO, OO, OO-crossing, first appearance; FSET on inside/outside objects; DEL, PDEL, expiry, DROP, EXPIRE) is evaluated for every fence: observed detect sequence vs (a) the documented rule computed in Go (direct oracle), (b) Model.Fence.fence_match gated by Model.HookReg.candidates fed with the same registry operations. non-trivial = distinct (fence kind, DETECT value, transition, other-hook population) that produced at least one message. Sink equality under endpoint failures (sinks.go): one definition as channel, live connection and N+1 webhooks whose endpoint refuses exactly the k-th request once (k = 0..N, N = messages of the script; 500 / 503 / connection reset) plus webhooks with random multi-failure patterns, on a script of two-message batches (enter+inside, exit+outside, cross+outside): bodies finally accepted by every endpoint = channel messages = live messages (oracle), accepted bodies and attempt sequence = Model.FenceQueue (queue_hooks -> hook queue -> Hook.proc) under the same outcomes (correspondence)."
	r.Assumptions = []string{
		"spatial tests, the segment test and the area rectangles are evaluated with tidwall/geojson directly (oracle); points lie clearly inside or outside the main area",
		"a spatial hit implies overlapping bounding rectangles; R-tree search returns the overlapping entries",
		"B-trees keyed by hook name behave as maps",
	}
	rng := rand.New(rand.NewSource(cfg.Seed))
	drv, err := model.Start("fence")
	if err != nil {
		panic(err)
	}
	defer drv.Close()
	s, err := srv.Start(filepath.Join(cfg.Work, "c05"), "--appendonly", "no")
	if err != nil {
		panic(err)
	}
	defer s.Kill()
	wh, err := fencex.NewWebhook()
	if err != nil {
		panic(err)
	}
	defer wh.Close()
	e := &env{r: r, cfg: cfg, rng: rng, drv: drv, s: s, wh: wh, cache: map[string]string{}}

	// Go doc oracle vs Coq doc_msgs over the whole abstract domain (the two statements of the rule agree)
	e.docAgreement()

	// the three sinks under endpoint failures: a webhook whose endpoint refuses the k-th request (for
	// every k) against a channel and a live connection with the same definition (sinks.go)
	e.sinkSection()
	if !s.Alive() {
		r.Fail(hx.Failure{Kind: "oracle", Signature: "server-exit", What: "server exited during the C05 sink-equality section: " + s.LogTail(300)})
		return
	}

	if os.Getenv("C05_ONLY_SINKS") != "" { // debugging aid: the sink-equality section alone
		return
	}
	rounds := 9
	if cfg.Tier == "thorough" {
		rounds = 300
	}
	if cfg.Search {
		rounds = 60
	}
	others := []int{0, 5, 60}
	for n := 0; n < rounds; n++ {
		e.round(n, others[n%3])
		if !s.Alive() {
			r.Fail(hx.Failure{Kind: "oracle", Signature: "server-exit", What: "server exited during a C05 round: " + s.LogTail(300), Case: n})
			return
		}
	}
}

func (e *env) docAgreement() {
	ot := []string{"-", "00", "01", "10", "11"}
	for mask := 0; mask < 33; mask++ {
		f := &fence{}
		if mask > 0 {
			f.detect = []string{}
			for i, k := range kinds {
				if (mask-1)&(1<<i) != 0 {
					f.detect = append(f.detect, k)
				}
			}
		}
		for _, cmd := range []string{"set", "fset"} {
			for _, o := range ot {
				for _, n := range ot[1:] {
					for _, x := range []bool{false, true} {
						if cmd == "fset" && o != "-" {
							continue
						}
						c := acase{cmd: cmd, oldT: o, newT: n, cross: x}
						goDoc := strings.Join(docSeq(f, c), ",")
						coq := strings.Join(toks(e.drv.Ask("doc", f.dbits(), cmd, o, n, model.B(x))), ",")
						if goDoc != coq {
							e.r.Fail(hx.Failure{Kind: "correspondence", Signature: "fence-doc-model", What: "the harness' statement of the documented rule differs from Model.Fence.doc_msgs",
								Case: map[string]interface{}{"detect": f.dbits(), "cmd": cmd, "old": o, "new": n, "cross": x}, Impl: goDoc, Model: coq})
						}
					}
				}
			}
		}
	}
}

type roundState struct {
	key     string
	fences  []*fence
	byName  map[string]*fence
	objs    map[string]obj
	sub     *fencex.Sub
	c       *srv.Conn
	lives   map[string]*fencex.Live
	hookExp map[string][]string
	nOther  int
	n       int
	label   string
	main    verifapi.FenceArea
	size    float64 // half-extent of the main area in degrees
}

func subsetsOfKinds() [][]string {
	out := [][]string{nil}
	for mask := 1; mask < 32; mask++ {
		var d []string
		for i, k := range kinds {
			if mask&(1<<i) != 0 {
				d = append(d, k)
			}
		}
		out = append(out, d)
	}
	return out
}

func (e *env) round(n, nOther int) {
	rng := e.rng
	st := &roundState{key: fmt.Sprintf("k%d", n), byName: map[string]*fence{}, objs: map[string]obj{}, lives: map[string]*fencex.Live{},
		hookExp: map[string][]string{}, nOther: nOther, n: n, label: fmt.Sprintf("round%d/others=%d", n, nOther)}
	st.c = e.s.MustDial()
	defer st.c.Close()
	var err error
	st.sub, err = fencex.NewSub(e.s)
	if err != nil {
		panic(err)
	}
	defer st.sub.Close()
	e.drv.Ask("reg_reset")
	st.c.MustDo("FLUSHDB")

	// the main area: a circle of 1 km or a rectangle of +-0.01 degrees, away from (0,0)
	lat0 := 10 + 50*rng.Float64()
	if rng.Intn(2) == 0 {
		lat0 = -lat0
	}
	lon0 := 20 + 140*rng.Float64()
	if rng.Intn(2) == 0 {
		lon0 = -lon0
	}
	lat0, lon0 = math.Round(lat0*1e4)/1e4, math.Round(lon0*1e4)/1e4
	mainCmd := []string{"nearby", "within", "intersects"}[(n/3)%3]
	st.size = 0.01
	if mainCmd == "nearby" || rng.Intn(2) == 0 {
		st.main = verifapi.FenceArea{Kind: "circle", Lat: lat0, Lon: lon0, Meters: 1000}
		st.size = 0.009
	} else {
		st.main = verifapi.FenceArea{Kind: "bounds", MinLat: lat0 - 0.01, MinLon: lon0 - 0.01, MaxLat: lat0 + 0.01, MaxLon: lon0 + 0.01}
	}
	add := func(f *fence) {
		f.key = st.key
		if f.role == "other-key" {
			f.key = st.key + "-x"
		}
		st.fences = append(st.fences, f)
	}
	// one channel per expressible DETECT value
	for i, d := range subsetsOfKinds() {
		add(&fence{name: fmt.Sprintf("%s-d%02d", st.key, i), sink: "chan", cmd: mainCmd, area: st.main, detect: d, role: "main"})
	}
	// filter variants
	all := subsetsOfKinds()
	pick := func() []string { return all[rng.Intn(len(all))] }
	add(&fence{name: st.key + "-where", sink: "chan", cmd: mainCmd, area: st.main, where: &[2]float64{1, 50}, role: "filter"})
	add(&fence{name: st.key + "-where2", sink: "chan", cmd: mainCmd, area: st.main, where: &[2]float64{1, 50}, detect: pick(), role: "filter"})
	wi := []float64{}
	for v := 2.0; v <= 50; v += 2 {
		wi = append(wi, v) // the even speeds
	}
	gt := 25.0
	add(&fence{name: st.key + "-wherein", sink: "chan", cmd: mainCmd, area: st.main, wherein: wi, role: "filter"})
	add(&fence{name: st.key + "-wherein2", sink: "chan", cmd: mainCmd, area: st.main, wherein: wi, where: &[2]float64{1, 30}, detect: pick(), role: "filter"})
	add(&fence{name: st.key + "-eval", sink: "chan", cmd: mainCmd, area: st.main, evalGT: &gt, role: "filter"})
	// the threshold passed through ARGV (lost after SETCHAN before proposed_fixes/C05-whereeval-argv.diff)
	add(&fence{name: st.key + "-evalargv", sink: "chan", cmd: mainCmd, area: st.main, evalGT: &gt, evalArgv: true, role: "filter"})
	add(&fence{name: st.key + "-evalargvlive", sink: "live", cmd: mainCmd, area: st.main, evalGT: &gt, evalArgv: true, detect: pick(), role: "filter"})
	add(&fence{name: st.key + "-eval2", sink: "chan", cmd: mainCmd, area: st.main, evalGT: &gt, detect: pick(), role: "filter"})
	add(&fence{name: st.key + "-evalhook", sink: "hook", cmd: mainCmd, area: st.main, evalGT: &gt, role: "filter"})
	add(&fence{name: st.key + "-evallive", sink: "live", cmd: mainCmd, area: st.main, wherein: wi, role: "filter"})
	// LIMIT is accepted in a fence definition and must not bound the number of notifications
	add(&fence{name: st.key + "-limit", sink: "chan", cmd: mainCmd, area: st.main, limit: 5, role: "filter"})
	add(&fence{name: st.key + "-limithook", sink: "hook", cmd: mainCmd, area: st.main, limit: 3, role: "filter"})
	add(&fence{name: st.key + "-limitlive", sink: "live", cmd: mainCmd, area: st.main, limit: 4, role: "filter"})
	add(&fence{name: st.key + "-match", sink: "chan", cmd: mainCmd, area: st.main, match: "t*", detect: pick(), role: "filter"})
	add(&fence{name: st.key + "-cmds", sink: "chan", cmd: mainCmd, area: st.main, commands: []string{"set", "del"}, role: "filter"})
	add(&fence{name: st.key + "-cmds2", sink: "chan", cmd: mainCmd, area: st.main, commands: []string{"fset", "drop"}, detect: pick(), role: "filter"})
	add(&fence{name: st.key + "-nofields", sink: "chan", cmd: mainCmd, area: st.main, nofields: true, role: "filter"})
	add(&fence{name: st.key + "-count", sink: "chan", cmd: mainCmd, area: st.main, count: true, role: "filter"})
	// the same fences through a webhook and on live connections
	add(&fence{name: st.key + "-hook0", sink: "hook", cmd: mainCmd, area: st.main, role: "main"})
	add(&fence{name: st.key + "-hook1", sink: "hook", cmd: mainCmd, area: st.main, detect: pick(), where: &[2]float64{1, 50}, role: "main"})
	add(&fence{name: st.key + "-live0", sink: "live", cmd: mainCmd, area: st.main, role: "main"})
	add(&fence{name: st.key + "-live1", sink: "live", cmd: mainCmd, area: st.main, detect: pick(), role: "main"})
	// other hooks: near (overlapping or adjacent areas), far, and on another key
	for i := 0; i < nOther; i++ {
		f := &fence{name: fmt.Sprintf("%s-o%02d", st.key, i), sink: "chan", detect: pick()}
		if i%7 == 3 {
			f.sink = "hook"
		}
		dlat, dlon := 0.0, 0.0
		switch i % 3 {
		case 0:
			f.role = "other-near"
			dlat, dlon = (rng.Float64()*2-1)*3*st.size, (rng.Float64()*2-1)*3*st.size
		case 1:
			f.role = "other-far"
			dlat, dlon = 1+4*rng.Float64(), 1+4*rng.Float64()
		default:
			f.role = "other-key"
		}
		sz := st.size * (0.5 + 1.5*rng.Float64())
		clat, clon := lat0+dlat, lon0+dlon
		if rng.Intn(2) == 0 {
			f.cmd = "nearby"
			f.area = verifapi.FenceArea{Kind: "circle", Lat: clat, Lon: clon, Meters: math.Round(sz * 111000)}
		} else {
			f.cmd = []string{"within", "intersects"}[rng.Intn(2)]
			f.area = verifapi.FenceArea{Kind: "bounds", MinLat: clat - sz, MinLon: clon - sz, MaxLat: clat + sz, MaxLon: clon + sz}
		}
		if i%5 == 4 {
			f.where = &[2]float64{1, 50}
		}
		add(f)
	}
	rng.Shuffle(len(st.fences), func(i, j int) { st.fences[i], st.fences[j] = st.fences[j], st.fences[i] })
	for _, f := range st.fences {
		e.install(st, f, false)
	}
	// registry churn: replace, re-issue unchanged, delete and pattern-delete some of the other hooks
	e.churn(st)
	e.redefine(st, n, mainCmd)
	st.sub.Collect()

	// ---- the script: every movement kind on a few objects, then random moves ----
	e.script(st)

	// webhook deliveries of the round
	for name, want := range st.hookExp {
		got := e.wh.Wait("/"+name, len(want), 8*time.Second)
		var gs []string
		for _, m := range got {
			gs = append(gs, msgToken(m)+"@"+m.ID)
			if m.Hook != name {
				e.r.Fail(hx.Failure{Kind: "oracle", Signature: "fence-fields", What: "webhook message names another hook", Case: m.Raw})
			}
		}
		e.r.Count(st.label+"/webhook/"+name, len(want) > 0)
		if strings.Join(gs, " ") != strings.Join(want, " ") {
			e.r.Fail(hx.Failure{Kind: "correspondence", Signature: "fence-webhook-sequence",
				What: "webhook deliveries differ from the model's sequence for the round (same FenceMatch as channels)",
				Case: map[string]interface{}{"round": st.label, "hook": st.byName[name].describe()}, Impl: gs, Model: want})
		}
	}
	// live connections must be silent now
	for name, l := range st.lives {
		if m, err := l.Next(120 * time.Millisecond); err == nil {
			e.r.Fail(hx.Failure{Kind: "correspondence", Signature: "fence-live", What: "live fence delivered a message the model does not predict",
				Case: map[string]interface{}{"round": st.label, "fence": st.byName[name].describe()}, Impl: m.Raw})
		}
		l.Close()
	}
	for _, x := range st.sub.Errs {
		e.r.Fail(hx.Failure{Kind: "oracle", Signature: "fence-fields", What: x, Case: st.label})
	}
	if n%3 == 1 {
		// a channel with an expiry: present right away, gone (like DELCHAN) shortly after it is due
		f := &fence{name: st.key + "-ttl", sink: "chan", key: st.key, cmd: "nearby", area: verifapi.FenceArea{Kind: "circle", Lat: 1, Lon: 1, Meters: 500}, role: "other-far"}
		v := st.c.MustDo(append([]string{"SETCHAN", f.name, "EX", "0.3"}, f.args()...)...)
		if v.IsErr() {
			panic("SETCHAN EX refused: " + v.String())
		}
		e.drv.Ask("reg_set", model.H(f.name), "1", model.H(f.key), f.dbits(), f.areaRectOrd(), "1", "0")
		e.registryCheck(st)
		time.Sleep(700 * time.Millisecond)
		e.drv.Ask("reg_del", model.H(f.name), "1")
	}
	e.registryCheck(st)
}

func (e *env) install(st *roundState, f *fence, equalPrev bool) {
	st.byName[f.name] = f
	switch f.sink {
	case "chan":
		pre := []string{"SETCHAN", f.name}
		if f.ex != "" {
			pre = append(pre, "EX", f.ex)
		}
		v := st.c.MustDo(append(pre, f.args()...)...)
		if v.IsErr() {
			panic("SETCHAN refused: " + v.String() + " " + f.describe())
		}
	case "hook":
		url := f.url
		if url == "" {
			url = e.wh.URL("/" + f.name)
		}
		v := st.c.MustDo(append([]string{"SETHOOK", f.name, url}, f.args()...)...)
		if v.IsErr() {
			panic("SETHOOK refused: " + v.String() + " " + f.describe())
		}
	case "live":
		l, err := fencex.NewLive(e.s, f.args()...)
		if err != nil {
			panic(err)
		}
		st.lives[f.name] = l
		return
	}
	e.drv.Ask("reg_set", model.H(f.name), model.B(f.sink == "chan"), model.H(f.key), f.dbits(), f.areaRectOrd(), model.B(f.ex != ""), model.B(equalPrev))
}

func (e *env) churn(st *roundState) {
	var others []*fence
	for _, f := range st.fences {
		if strings.HasPrefix(f.role, "other") && f.sink == "chan" {
			others = append(others, f)
		}
	}
	if len(others) < 4 {
		return
	}
	// re-issue unchanged (Equals -> nothing happens)
	e.install(st, others[0], true)
	// replace with another DETECT value and area
	o1 := others[1]
	o1.detect = []string{"cross"}
	o1.area = st.main
	o1.cmd = "intersects"
	if o1.area.Kind == "circle" {
		o1.cmd = "nearby"
	}
	if o1.role != "other-key" {
		o1.role = "other-near"
	}
	e.install(st, o1, false)
	// delete one
	d := others[2]
	st.c.MustDo("DELCHAN", d.name)
	e.drv.Ask("reg_del", model.H(d.name), "1")
	e.remove(st, d.name)
	// DELHOOK on a channel's name must not remove it
	st.c.MustDo("DELHOOK", others[3].name)
	e.drv.Ask("reg_del", model.H(others[3].name), "0")
	if len(others) >= 12 {
		// pattern delete: the hooks o10 .. o19 that are channels
		pat := st.key + "-o1?"
		st.c.MustDo("PDELCHAN", pat)
		e.drv.Ask("reg_pdel", model.H(pat), "1")
		for _, f := range append([]*fence(nil), st.fences...) {
			if ok, _ := verifapi.GlobMatch(pat, f.name); ok && f.sink == "chan" {
				e.remove(st, f.name)
			}
		}
	}
}

// redefinition of existing names: every ordered pair (A -> B) of the eight definition classes
// {explicit cross / not} x {detects outside / not} x {has an area / roaming, i.e. no area}, plus
// redefinitions that change the key or the expiry; next to each redefined channel a twin that is
// defined once with the final definition. A redefined fence must behave exactly like a fresh one.
func (e *env) redefine(st *roundState, n int, mainCmd string) {
	rng := e.rng
	type class struct{ cross, outside, area bool }
	var classes []class
	for _, c := range []bool{true, false} {
		for _, o := range []bool{true, false} {
			for _, a := range []bool{true, false} {
				classes = append(classes, class{c, o, a})
			}
		}
	}
	lat0, lon0 := st.center()
	mk := func(name string, c class, shifted bool) *fence {
		f := &fence{name: name, sink: "chan", key: st.key, cmd: mainCmd, area: st.main, roam: !c.area}
		var d []string
		if c.cross {
			d = append(d, "cross")
		}
		if c.outside {
			d = append(d, "outside")
		}
		// fill up with kinds that do not change the class; "no cross, no outside" needs at least one kind
		for _, k := range []string{"inside", "enter", "exit"} {
			if rng.Intn(2) == 0 || (len(d) == 0 && k == "exit") {
				d = append(d, k)
			}
		}
		if c.outside && !c.cross && c.area && rng.Intn(3) == 0 {
			d = nil // default detection: wants outside, and is NOT in the cross index
		}
		f.detect = d
		if f.roam {
			f.cmd = "nearby"
		} else if shifted {
			// an area next to the main one (other rectangle in the spatial indexes)
			sz := st.size
			f.cmd = "intersects"
			f.area = verifapi.FenceArea{Kind: "bounds", MinLat: lat0 + 0.5*sz, MinLon: lon0 - 0.5*sz, MaxLat: lat0 + 2*sz, MaxLon: lon0 + sz}
		}
		return f
	}
	type pair struct{ a, b class }
	var pairs []pair
	for _, a := range classes {
		for _, b := range classes {
			pairs = append(pairs, pair{a, b})
		}
	}
	if n%3 != 0 {
		// all 64 pairs in the rounds without other hooks, a sample elsewhere
		rng.Shuffle(len(pairs), func(i, j int) { pairs[i], pairs[j] = pairs[j], pairs[i] })
		pairs = pairs[:12]
	}
	for i, pr := range pairs {
		name := fmt.Sprintf("%s-rd%02d", st.key, i)
		first := mk(name, pr.a, false)
		variant := ""
		switch rng.Intn(6) {
		case 0:
			first.key = st.key + "-x" // the redefinition moves the fence to this key
			variant = " other-key"
		case 1:
			first.ex = "1000" // the redefinition drops the expiry
			variant = " EX"
		}
		first.role = "redefined"
		e.install(st, first, false)
		final := mk(name, pr.b, rng.Intn(3) == 0)
		if rng.Intn(8) == 0 {
			final.ex = "1000"
		}
		final.role = "redefined"
		final.history = strings.Join(first.args(), " ") + variant
		final.twin = fmt.Sprintf("%s-rf%02d", st.key, i)
		e.install(st, final, false)
		st.fences = append(st.fences, final)
		tw := *final
		tw.name, tw.role, tw.twin, tw.history = final.twin, "fresh", "", ""
		e.install(st, &tw, false)
		st.fences = append(st.fences, &tw)
	}
}

// what a roaming fence whose pattern matches no object emits (fenceMatch, roam arm): nothing for a
// set; a bare detect:"roam" message for any other object-carrying command when there is no DETECT
// clause; del / drop like every fence
func roamTokens(f *fence, w write, c acase) []string {
	if !f.accepts(c.cmd) {
		return nil
	}
	switch c.cmd {
	case "drop":
		return []string{"drop"}
	}
	if !c.glob || w.o.str {
		return nil
	}
	switch c.cmd {
	case "del":
		return []string{"del"}
	case "set":
		return nil
	}
	if c.cmd == "fset" && f.nofields {
		return nil
	}
	if f.detect == nil {
		return []string{"roam"}
	}
	return nil
}

func (e *env) remove(st *roundState, name string) {
	delete(st.byName, name)
	for i, f := range st.fences {
		if f.name == name {
			st.fences = append(st.fences[:i], st.fences[i+1:]...)
			return
		}
	}
}

func (e *env) registryCheck(st *roundState) {
	var got []string
	for _, cmd := range []string{"CHANS", "HOOKS"} {
		v := st.c.MustDo(cmd, "*")
		for _, h := range v.Array {
			if len(h.Array) > 0 {
				got = append(got, h.Array[0].Str)
			}
		}
	}
	sort.Strings(got)
	dump := e.drv.Ask("reg_dump")
	parts := strings.Split(strings.TrimPrefix(dump, "ok "), "|")
	var want []string
	if parts[0] != "" {
		for _, h := range strings.Split(parts[0], ",") {
			want = append(want, model.U(h))
		}
	}
	sort.Strings(want)
	e.r.Count(st.label+"/registry", true)
	if strings.Join(got, ",") != strings.Join(want, ",") {
		e.r.Fail(hx.Failure{Kind: "correspondence", Signature: "fence-registry", What: "CHANS * + HOOKS * differ from the hooks of Model.HookReg after the round's registry operations",
			Case: st.label, Impl: got, Model: want})
	}
}

// ---- positions ----

func (st *roundState) center() (float64, float64) {
	if st.main.Kind == "circle" {
		return st.main.Lat, st.main.Lon
	}
	return (st.main.MinLat + st.main.MaxLat) / 2, (st.main.MinLon + st.main.MaxLon) / 2
}

func (st *roundState) inside(rng *rand.Rand) (float64, float64) {
	la, lo := st.center()
	return la + (rng.Float64()*2-1)*0.3*st.size, lo + (rng.Float64()*2-1)*0.3*st.size
}

func (st *roundState) outsideAt(rng *rand.Rand, angle float64) (float64, float64) {
	la, lo := st.center()
	d := st.size * (2.5 + 2*rng.Float64())
	return la + d*math.Sin(angle), lo + d*math.Cos(angle)/math.Cos(la*math.Pi/180)
}

func speedVal(rng *rand.Rand) float64 {
	// inside the WHERE range [1,50] most of the time, sometimes outside of it; never 0
	if rng.Intn(4) == 0 {
		return float64(60 + rng.Intn(30))
	}
	return float64(1 + rng.Intn(50))
}

// ---- the script ----

func (e *env) script(st *roundState) {
	rng := e.rng
	set := func(id string, lat, lon, speed float64, label string) {
		o := obj{lat: lat, lon: lon, speed: speed}
		switch id { // two rectangle objects: one smaller than the main area, one larger
		case "t8":
			o.half = 0.4 * st.size
		case "r7":
			o.half = 1.6 * st.size
		}
		var old *obj
		if p, ok := st.objs[id]; ok {
			q := p
			old = &q
		}
		geom := []string{"POINT", ff(lat), ff(lon)}
		switch id { // a line and a triangle, each about the size of the main area
		case "l9":
			a := rng.Float64() * math.Pi
			d := st.size * (0.3 + rng.Float64())
			o.gj = fmt.Sprintf(`{"type":"LineString","coordinates":[[%s,%s],[%s,%s]]}`,
				ff(lon-d*math.Cos(a)), ff(lat-d*math.Sin(a)), ff(lon+d*math.Cos(a)), ff(lat+d*math.Sin(a)))
		case "p9":
			d := st.size * (0.2 + 0.8*rng.Float64())
			o.gj = fmt.Sprintf(`{"type":"Polygon","coordinates":[[[%s,%s],[%s,%s],[%s,%s],[%s,%s]]]}`,
				ff(lon-d), ff(lat-d), ff(lon+d), ff(lat-d), ff(lon), ff(lat+d), ff(lon-d), ff(lat-d))
		}
		if o.gj != "" {
			geom = []string{"OBJECT", o.gj}
		}
		if o.half > 0 {
			geom = []string{"BOUNDS", ff(lat - o.half), ff(lon - o.half), ff(lat + o.half), ff(lon + o.half)}
		}
		v := st.c.MustDo(append([]string{"SET", st.key, id, "FIELD", "speed", ff(speed)}, geom...)...)
		if v.IsErr() {
			panic("SET refused: " + v.String())
		}
		st.objs[id] = o
		e.eval(st, write{kind: "set", id: id, o: o, old: old, label: label})
	}
	fset := func(id string, speed float64, label string) {
		o := st.objs[id]
		if o.speed == speed {
			speed++
		}
		o.speed = speed
		v := st.c.MustDo("FSET", st.key, id, "speed", ff(speed))
		if v.IsErr() {
			panic("FSET refused: " + v.String())
		}
		st.objs[id] = o
		e.eval(st, write{kind: "fset", id: id, o: o, label: label})
	}
	del := func(id, label string) {
		o := st.objs[id]
		st.c.MustDo("DEL", st.key, id)
		delete(st.objs, id)
		e.eval(st, write{kind: "del", id: id, o: o, label: label})
	}
	a := rng.Float64() * 2 * math.Pi
	in := func() (float64, float64) { return st.inside(rng) }
	out := func(angle float64) (float64, float64) { return st.outsideAt(rng, angle) }
	okSpeed := func() float64 { return float64(1 + rng.Intn(50)) }

	// object t1: first appearance inside, II, IO, OO (same side), OO crossing, OI, FSET inside, IO, FSET outside
	la, lo := in()
	set("t1", la, lo, okSpeed(), "first-inside")
	la, lo = in()
	set("t1", la, lo, okSpeed(), "II")
	la, lo = out(a)
	set("t1", la, lo, okSpeed(), "IO")
	la, lo = out(a + 0.3)
	set("t1", la, lo, okSpeed(), "OO")
	la, lo = out(a + 0.3 + math.Pi)
	set("t1", la, lo, okSpeed(), "OO-cross")
	la, lo = in()
	set("t1", la, lo, okSpeed(), "OI")
	fset("t1", okSpeed(), "FSET-inside")
	fset("t1", 75, "FSET-inside-filtered")
	la, lo = in()
	set("t1", la, lo, 80, "II-filtered")
	la, lo = out(a + 1)
	set("t1", la, lo, okSpeed(), "iO")
	fset("t1", okSpeed(), "FSET-outside")
	fset("t1", 90, "FSET-outside-filtered")
	la, lo = out(a + 1 + math.Pi)
	set("t1", la, lo, 90, "OO-cross-filtered")
	// object u2 (does not match "t*"): first appearance outside, crossing, enter, delete inside
	la, lo = out(a + 2)
	set("u2", la, lo, okSpeed(), "first-outside")
	la, lo = out(a + 2 + math.Pi)
	set("u2", la, lo, okSpeed(), "OO-cross")
	la, lo = in()
	set("u2", la, lo, okSpeed(), "OI")
	del("u2", "DEL-inside")
	// t3 / t4 for PDEL and expiry, s5 a string object
	la, lo = in()
	set("t3", la, lo, okSpeed(), "first-inside")
	la, lo = out(a + 4)
	set("t4", la, lo, okSpeed(), "first-outside")
	la, lo = in()
	set("v6", la, lo, okSpeed(), "first-inside")
	st.c.MustDo("SET", st.key, "s5", "STRING", "hello")
	st.objs["s5"] = obj{str: true}
	e.eval(st, write{kind: "strset", id: "s5", o: obj{str: true}, label: "string"})

	// random moves
	nrand := 25
	if e.cfg.Tier == "thorough" || e.cfg.Search {
		nrand = 80
	}
	ids := []string{"t1", "t3", "t4", "v6", "u7", "t8", "r7", "t8", "r7", "l9", "p9", "l9", "p9"}
	for i := 0; i < nrand; i++ {
		id := ids[rng.Intn(len(ids))]
		_, exists := st.objs[id]
		switch k := rng.Intn(10); {
		case k < 6 || !exists:
			var la, lo float64
			label := "rand-in"
			if rng.Intn(2) == 0 {
				la, lo = in()
			} else {
				la, lo = out(rng.Float64() * 2 * math.Pi)
				label = "rand-out"
			}
			if rng.Intn(6) == 0 { // somewhere around the neighbouring hooks
				c1, c2 := st.center()
				la, lo = c1+(rng.Float64()*2-1)*4*st.size, c2+(rng.Float64()*2-1)*4*st.size
				label = "rand-near"
			}
			set(id, la, lo, speedVal(rng), label)
		case k < 8:
			fset(id, speedVal(rng), "rand-fset")
		case k == 8:
			del(id, "rand-del")
		default:
			// EXPIRE far in the future: a write that is neither set, fset, del nor drop
			o := st.objs[id]
			st.c.MustDo("EXPIRE", st.key, id, "100000")
			e.eval(st, write{kind: "expire", id: id, o: o, label: "EXPIRE"})
		}
	}
	// PDEL t*: one del per matching id, in id order
	var victims []string
	for id := range st.objs {
		if strings.HasPrefix(id, "t") {
			victims = append(victims, id)
		}
	}
	sort.Strings(victims)
	if len(victims) > 0 {
		st.c.MustDo("PDEL", st.key, "t*")
		msgs, _ := st.sub.Collect()
		live := e.readLives(st, func(f *fence) int {
			n := 0
			for _, id := range victims {
				n += len(toks(e.fm(abstract(f, write{kind: "pdel-child", id: id, o: st.objs[id]}).req)))
			}
			return n
		})
		for _, id := range victims {
			o := st.objs[id]
			delete(st.objs, id)
			e.check(st, write{kind: "pdel-child", id: id, o: o, label: "PDEL"}, filterID(msgs, id), filterLive(live, id))
		}
	}
	// a long-lived fence: more than 100 notification-producing writes on the same fences (the scan
	// writer of a fence lives as long as the fence; its default LIMIT is 100)
	if st.n == 0 || e.cfg.Tier == "thorough" {
		for j := 0; j < 110; j++ {
			if j%2 == 0 {
				la, lo = in()
			} else {
				la, lo = out(a + float64(j))
			}
			set("w5", la, lo, okSpeed(), "burst")
		}
	}
	// expiry: several objects, inside and outside the area, that expire in the same sweep
	expiring := []string{"x90", "x91", "x92", "x93", "x94"}
	for j, id := range expiring {
		if j%2 == 0 {
			la, lo = in()
			set(id, la, lo, okSpeed(), "first-inside")
		} else {
			la, lo = out(a + float64(j))
			set(id, la, lo, okSpeed(), "first-outside")
		}
	}
	vobj := map[string]obj{}
	var raw []byte
	for _, id := range expiring {
		vobj[id] = st.objs[id]
		raw = append(raw, srv.Encode("EXPIRE", st.key, id, "0.3")...)
	}
	// one pipelined write: the deadlines lie within a fraction of a millisecond of each other
	if err := st.c.WriteRaw(raw); err != nil {
		panic(err)
	}
	for range expiring {
		if _, err := st.c.Read(); err != nil {
			panic(err)
		}
	}
	emsgs, _ := st.sub.Collect()
	elive := e.readLives(st, func(f *fence) int {
		k := 0
		for _, id := range expiring {
			k += len(toks(e.fm(abstract(f, write{kind: "expire", id: id, o: vobj[id]}).req)))
		}
		return k
	})
	for _, id := range expiring {
		e.check(st, write{kind: "expire", id: id, o: vobj[id], label: "EXPIRE"}, filterID(emsgs, id), filterLive(elive, id))
	}
	deadline := time.Now().Add(5 * time.Second)
	var expMsgs []fencex.Msg
	delOrder := func() []string {
		var order []string
		seen := map[string]bool{}
		for _, m := range expMsgs {
			if m.Channel == st.key+"-d00" && m.Command == "del" && !seen[m.ID] {
				seen[m.ID] = true
				order = append(order, m.ID)
			}
		}
		return order
	}
	for time.Now().Before(deadline) {
		m, _ := st.sub.Collect()
		expMsgs = append(expMsgs, m...)
		if len(delOrder()) >= len(expiring) {
			time.Sleep(30 * time.Millisecond)
			m, _ = st.sub.Collect()
			expMsgs = append(expMsgs, m...)
			break
		}
		time.Sleep(40 * time.Millisecond)
	}
	// the sweep's order is the order of the del messages on the default-detection channel
	order := delOrder()
	for _, id := range expiring {
		found := false
		for _, x := range order {
			found = found || x == id
		}
		if !found {
			order = append(order, id)
		}
	}
	for _, id := range expiring {
		delete(st.objs, id)
	}
	xlive := e.readLives(st, func(f *fence) int {
		k := 0
		for _, id := range expiring {
			k += len(toks(e.fm(abstract(f, write{kind: "expired", id: id, o: vobj[id]}).req)))
		}
		return k
	})
	for _, id := range order {
		e.check(st, write{kind: "expired", id: id, o: vobj[id], label: "expiry"}, filterID(expMsgs, id), filterLive(xlive, id))
	}
	// DROP
	st.c.MustDo("DROP", st.key)
	st.objs = map[string]obj{}
	e.eval(st, write{kind: "drop", label: "DROP"})
}

func filterID(msgs []fencex.Msg, id string) []fencex.Msg {
	var out []fencex.Msg
	for _, m := range msgs {
		if m.ID == id {
			out = append(out, m)
		}
	}
	return out
}

func filterLive(live map[string][]fencex.Msg, id string) map[string][]fencex.Msg {
	out := map[string][]fencex.Msg{}
	for k, v := range live {
		out[k] = filterID(v, id)
	}
	return out
}

func msgToken(m fencex.Msg) string {
	switch m.Command {
	case "del", "drop":
		return m.Command
	}
	return m.Detect
}

// readLives reads, from every live connection, the number of messages the model predicts
func (e *env) readLives(st *roundState, expectN func(f *fence) int) map[string][]fencex.Msg {
	out := map[string][]fencex.Msg{}
	for name, l := range st.lives {
		f := st.byName[name]
		n := expectN(f)
		for i := 0; i < n; i++ {
			m, err := l.Next(4 * time.Second)
			if err != nil {
				e.r.Fail(hx.Failure{Kind: "correspondence", Signature: "fence-live", What: "live fence delivered fewer messages than the model predicts: " + err.Error(),
					Case: map[string]interface{}{"round": st.label, "fence": f.describe()}})
				// out of step from here on: stop listening to this connection
				l.Close()
				delete(st.lives, name)
				e.remove(st, name)
				break
			}
			out[name] = append(out[name], m)
		}
	}
	return out
}

func (e *env) eval(st *roundState, w write) {
	msgs, err := st.sub.Collect()
	if err != nil {
		panic(err)
	}
	live := e.readLives(st, func(f *fence) int { return len(toks(e.fm(abstract(f, w).req))) })
	e.check(st, w, msgs, live)
}

func rectOf(o *obj) string {
	if o == nil {
		return "-"
	}
	if o.str {
		z := ord(0)
		return z + "," + z + "," + z + "," + z
	}
	a, b, c, d := verifapi.FenceObjRect(o.spec())
	return ord(a) + "," + ord(b) + "," + ord(c) + "," + ord(d)
}

func (e *env) check(st *roundState, w write, msgs []fencex.Msg, live map[string][]fencex.Msg) {
	r := e.r
	byChan := map[string][]fencex.Msg{}
	for _, m := range msgs {
		byChan[m.Channel] = append(byChan[m.Channel], m)
	}
	// candidates according to the registry model
	oldR, newR := "-", "-"
	if w.kind != "drop" {
		newR = rectOf(&w.o)
	}
	if w.old != nil {
		oldR = rectOf(w.old)
	}
	cands := map[string]bool{}
	for _, h := range toks(e.drv.Ask("cands", model.H(st.key), oldR, newR)) {
		cands[model.U(h)] = true
	}
	r.Dist("write:" + w.label)
	seen := map[string]bool{}
	tokensOf := map[string]string{}
	for _, f := range st.fences {
		seen[f.name] = true
		c := abstract(f, w)
		pure := toks(e.fm(c.req)) // fence_match, not gated
		if f.roam {
			pure = roamTokens(f, w, c)
			c.guardOK = false
		}
		var want []string
		if f.sink == "live" || (cands[f.name] && f.key == st.key) {
			want = pure
		}
		cs := map[string]interface{}{"round": st.label, "fence": f.describe(), "role": f.role, "write": w.label + " " + describeWrite(st.key, w), "transition": transition(c)}
		if f.history != "" {
			cs["redefined_from"] = f.history
		}
		var got []fencex.Msg
		switch f.sink {
		case "chan":
			got = byChan[f.name]
		case "live":
			got = live[f.name]
		case "hook":
			for _, t := range want {
				st.hookExp[f.name] = append(st.hookExp[f.name], t+"@"+w.id)
			}
		}
		var gt []string
		for _, m := range got {
			gt = append(gt, msgToken(m))
		}
		key := fmt.Sprintf("%s|%s|%s|%s|%s|%d", f.sink, f.cmd, f.dbits(), transition(c), f.role, st.nOther)
		if f.sink == "hook" {
			r.Count(key, len(want) > 0)
			continue // webhook deliveries are compared per round
		}
		r.Count(key, len(gt) > 0)
		r.Dist("sink:" + f.sink)
		if len(gt) > 0 {
			r.TracesImpl++
			if f.role == "main" {
				r.Sample(8, map[string]interface{}{"case": cs, "observed": gt})
			}
		}
		tokensOf[f.name] = strings.Join(gt, ",")
		// (b) correspondence with the model
		if strings.Join(gt, ",") != strings.Join(want, ",") {
			sig := "fence-model"
			if f.sink == "live" {
				sig = "fence-live"
			}
			r.Fail(hx.Failure{Kind: "correspondence", Signature: sig,
				What: "messages of a fence differ from Model.Fence.fence_match gated by Model.HookReg.candidates", Case: cs, Impl: gt, Model: want})
		}
		// (a) direct oracle (a roaming fence has no area: nothing of the static rule applies to it)
		oc := c.cmd
		if f.roam {
			oc = ""
		}
		switch oc {
		case "set", "fset":
			var doc []string
			if c.guardOK {
				doc = docSeq(f, c)
			}
			if f.key != st.key {
				doc = nil
			}
			if strings.Join(gt, ",") != strings.Join(doc, ",") {
				sig := "fence-doc-" + strings.ReplaceAll(transition(c), ":", "-")
				r.Fail(hx.Failure{Kind: "oracle", Signature: sig,
					What: fmt.Sprintf("fence notifications %v for a %s; the documented rule gives %v (DETECT %v, %d other hooks)", gt, transition(c), doc, f.detect, st.nOther),
					Case: cs, Impl: gt})
			}
		case "del":
			if f.key == st.key && f.detect == nil && c.glob && f.accepts("del") && f.sp(&w.o) && strings.Join(gt, ",") != "del" {
				r.Fail(hx.Failure{Kind: "oracle", Signature: "fence-del", What: fmt.Sprintf("deleting an object inside the area of a default-detection fence produced %v, not one del message", gt), Case: cs, Impl: gt})
			}
			if len(gt) > 1 {
				r.Fail(hx.Failure{Kind: "oracle", Signature: "fence-del", What: "more than one message for a delete", Case: cs, Impl: gt})
			}
		case "drop":
			if f.key == st.key && f.detect == nil && f.accepts("drop") && f.sink == "chan" && strings.Join(gt, ",") != "drop" {
				r.Fail(hx.Failure{Kind: "oracle", Signature: "fence-drop", What: fmt.Sprintf("DROP produced %v on a default-detection fence, not one drop message", gt), Case: cs, Impl: gt})
			}
		}
		// every message carries the write's command, the current id, object and fields
		for _, m := range got {
			bad := ""
			switch {
			case m.Command != c.cmd:
				bad = "command " + m.Command
			case m.Key != st.key:
				bad = "key"
			case f.sink == "chan" && m.Hook != f.name:
				bad = "hook name"
			case !m.HasTime:
				bad = "time"
			case c.cmd != "drop" && m.ID != w.id:
				bad = "id"
			}
			if bad == "" && (c.cmd == "set" || c.cmd == "fset" || c.cmd == "expire") {
				lat, lon, ok := fencex.PointCoords(m.Object)
				if w.o.gj != "" {
					var a, b interface{}
					if json.Unmarshal(m.Object, &a) != nil || json.Unmarshal([]byte(w.o.gj), &b) != nil || !reflect.DeepEqual(a, b) {
						bad = "object is not the current geometry"
					}
				} else if w.o.half > 0 {
					if !strings.Contains(string(m.Object), `"Polygon"`) || !strings.Contains(string(m.Object), ff(w.o.lat-w.o.half)) {
						bad = "object is not the current rectangle"
					}
				} else if !ok || lat != w.o.lat || lon != w.o.lon {
					bad = "object is not the current position"
				}
				wantFields := fmt.Sprintf(`{"speed":%s}`, ff(w.o.speed))
				if f.nofields {
					wantFields = ""
				}
				if string(m.Fields) != wantFields {
					bad = "fields " + string(m.Fields) + " instead of " + wantFields
				}
			}
			if bad != "" {
				r.Fail(hx.Failure{Kind: "oracle", Signature: "fence-fields", What: "fence message does not carry the current " + bad, Case: cs, Impl: m.Raw})
			}
		}
	}
	// a redefined fence behaves exactly like one defined once with the same final definition, and
	// never emits a detect kind outside its current DETECT set
	for _, f := range st.fences {
		if f.twin == "" {
			continue
		}
		got, fresh := tokensOf[f.name], tokensOf[f.twin]
		cs := map[string]interface{}{"round": st.label, "fence": f.describe(), "redefined_from": f.history, "write": w.label + " " + describeWrite(st.key, w)}
		r.Count("redefined|"+f.dbits()+"|"+w.label, got != "")
		if got != fresh {
			r.Fail(hx.Failure{Kind: "oracle", Signature: "fence-redefined-differs",
				What: fmt.Sprintf("a channel redefined under the same name emitted [%s]; its twin, defined once with the same final definition, emitted [%s]", got, fresh), Case: cs, Impl: got})
		}
		for _, t := range strings.Split(got, ",") {
			for _, k := range kinds {
				if t == k && !f.detects(k) {
					r.Fail(hx.Failure{Kind: "oracle", Signature: "fence-detect-not-requested",
						What: fmt.Sprintf("fence with DETECT %v emitted %q", f.detect, t), Case: cs, Impl: got})
				}
			}
		}
	}
	// messages on channels that are not installed fences of this round
	for ch, ms := range byChan {
		if !seen[ch] {
			r.Fail(hx.Failure{Kind: "oracle", Signature: "fence-unknown-channel", What: "message on a channel that has no fence", Case: map[string]interface{}{"round": st.label, "channel": ch}, Impl: ms[0].Raw})
		}
	}
}

func describeWrite(key string, w write) string {
	switch w.kind {
	case "set":
		s := fmt.Sprintf("SET %s %s FIELD speed %s POINT %s %s", key, w.id, ff(w.o.speed), ff(w.o.lat), ff(w.o.lon))
		if w.o.gj != "" {
			s = fmt.Sprintf("SET %s %s FIELD speed %s OBJECT %s", key, w.id, ff(w.o.speed), w.o.gj)
		}
		if w.o.half > 0 {
			s = fmt.Sprintf("SET %s %s FIELD speed %s BOUNDS %s %s %s %s", key, w.id, ff(w.o.speed), ff(w.o.lat-w.o.half), ff(w.o.lon-w.o.half), ff(w.o.lat+w.o.half), ff(w.o.lon+w.o.half))
		}
		if w.old != nil {
			s += fmt.Sprintf(" (previous: speed %s POINT %s %s)", ff(w.old.speed), ff(w.old.lat), ff(w.old.lon))
		}
		return s
	case "fset":
		return fmt.Sprintf("FSET %s %s speed %s (at POINT %s %s)", key, w.id, ff(w.o.speed), ff(w.o.lat), ff(w.o.lon))
	case "drop":
		return "DROP " + key
	case "strset":
		return fmt.Sprintf("SET %s %s STRING hello", key, w.id)
	}
	return fmt.Sprintf("%s %s %s (object: speed %s POINT %s %s)", w.kind, key, w.id, ff(w.o.speed), ff(w.o.lat), ff(w.o.lon))
}
