package main

// The three sinks under endpoint failures.
//
// "The SET/FSET results are identical for a webhook, a channel and a live connection": a webhook's
// messages go through the hook queue and Hook.proc (take the batch, send one by one, on a failed send
// re-insert that message and all following ones, retry half a second later).  Props/C05q.v
// (c05_same_for_all_sinks_queued, c05_webhook_prefix_of_channel) states the equality for what the
// ENDPOINT accepts, for every endpoint failure pattern within retention, over C10's queue model
// composed with queue_hooks (Model/FenceQueue.v).  This file runs that statement on the server: one
// fence definition as a channel, a live connection and N+1 webhooks whose endpoint refuses exactly
// the k-th request once (k = 0 (never), 1 .. N = the number of messages of the script), plus
// webhooks with random multi-failure patterns; a script whose SETs queue two-message batches
// (enter+inside, exit+outside, cross+outside).  Oracle: accepted bodies of every webhook = channel
// messages = live messages (command, detect, id, object, fields).  Correspondence: accepted bodies
// and the sequence of attempts vs the model (driver request sinksim).

import (
	"fmt"
	"io"
	"math"
	"net"
	"net/http"
	"strings"
	"sync"
	"time"

	"github.com/tidwall/tile38/verifapi"
	"verifharness/internal/fencex"
	"verifharness/internal/hx"
	"verifharness/internal/model"
	"verifharness/internal/srv"
)

// ---- an HTTP endpoint with a scripted outcome per request ----

type sinkHit struct {
	body string
	ok   bool
}

type sinkEndpoint struct {
	mu     sync.Mutex
	ln     net.Listener
	srv    *http.Server
	port   int
	script map[string]string // by URL path: outcome of the i-th request, '1' = accept; beyond the string: accept
	kind   map[string]string // by URL path: how a refusal looks: "500" | "503" | "reset"
	log    map[string][]sinkHit
}

func newSinkEndpoint() (*sinkEndpoint, error) {
	ln, err := net.Listen("tcp", "127.0.0.1:0")
	if err != nil {
		return nil, err
	}
	ep := &sinkEndpoint{ln: ln, port: ln.Addr().(*net.TCPAddr).Port, script: map[string]string{}, kind: map[string]string{}, log: map[string][]sinkHit{}}
	ep.srv = &http.Server{Handler: http.HandlerFunc(ep.handle)}
	go ep.srv.Serve(ln)
	return ep, nil
}

func (ep *sinkEndpoint) handle(w http.ResponseWriter, rq *http.Request) {
	b, _ := io.ReadAll(rq.Body)
	p := rq.URL.Path
	ep.mu.Lock()
	i := len(ep.log[p])
	ok := true
	if s := ep.script[p]; i < len(s) && s[i] == '0' {
		ok = false
	}
	kind := ep.kind[p]
	ep.log[p] = append(ep.log[p], sinkHit{string(b), ok})
	ep.mu.Unlock()
	switch {
	case ok:
		w.WriteHeader(200)
	case kind == "reset":
		if hj, can := w.(http.Hijacker); can {
			if c, _, err := hj.Hijack(); err == nil {
				c.Close()
				return
			}
		}
		w.WriteHeader(500)
	case kind == "503":
		w.WriteHeader(503)
	default:
		w.WriteHeader(500)
	}
}

func (ep *sinkEndpoint) url(path string) string { return fmt.Sprintf("http://127.0.0.1:%d%s", ep.port, path) }
func (ep *sinkEndpoint) close()                 { ep.srv.Close() }

func (ep *sinkEndpoint) hits(path string) []sinkHit {
	ep.mu.Lock()
	defer ep.mu.Unlock()
	return append([]sinkHit(nil), ep.log[path]...)
}

// wait until the endpoint has accepted n bodies on path (or the timeout), then a settle time
func (ep *sinkEndpoint) wait(path string, n int, timeout time.Duration) {
	deadline := time.Now().Add(timeout)
	for time.Now().Before(deadline) {
		k := 0
		for _, h := range ep.hits(path) {
			if h.ok {
				k++
			}
		}
		if k >= n {
			return
		}
		time.Sleep(10 * time.Millisecond)
	}
}

// ---- scenarios ----

type sinkScenario struct {
	label    string
	cmd      string // nearby | within | intersects
	circle   bool
	detect   []string
	where    *[2]float64
	failKind string // 500 | 503 | reset
	nRandom  int    // random moves after the directed script
	nPattern int    // webhooks with a random multi-failure pattern (next to the one-failure-at-k family)
}

type plannedWrite struct {
	kind     string // set | fset | del
	id       string
	lat, lon float64
	speed    float64
	label    string
}

// what a sink saw of one message: everything but hook / group / time
func sinkTok(m fencex.Msg) string {
	return m.Command + ":" + m.Detect + ":" + m.ID + ":" + string(m.Object) + ":" + string(m.Fields)
}

func shortTok(m fencex.Msg) string { return msgToken(m) + "@" + m.ID }

func (e *env) sinkSection() {
	rng := e.rng
	all := subsetsOfKinds()
	scs := []sinkScenario{
		{label: "directed/default", cmd: "within", detect: nil, failKind: "500", nPattern: 2},
		{label: "directed/enter-exit-where", cmd: "nearby", circle: true, detect: []string{"enter", "exit", "inside"}, where: &[2]float64{1, 50}, failKind: "reset", nPattern: 1},
	}
	extra := 0
	if e.cfg.Tier == "thorough" {
		extra = 10
	}
	if e.cfg.Search {
		extra = 6
	}
	for i := 0; i < extra; i++ {
		sc := sinkScenario{label: fmt.Sprintf("random/%d", i), cmd: []string{"nearby", "within", "intersects"}[rng.Intn(3)], circle: rng.Intn(2) == 0,
			detect: all[rng.Intn(len(all))], failKind: []string{"500", "503", "reset"}[rng.Intn(3)], nRandom: 4 + rng.Intn(5), nPattern: 3}
		if rng.Intn(3) == 0 {
			sc.where = &[2]float64{1, 50}
		}
		scs = append(scs, sc)
	}
	ep, err := newSinkEndpoint()
	if err != nil {
		panic(err)
	}
	defer ep.close()
	t0 := time.Now()
	defer func() { e.r.Extra["sink_section_s"] = math.Round(time.Since(t0).Seconds()*10) / 10 }()
	for i, sc := range scs {
		if sc.cmd == "nearby" {
			sc.circle = true
		}
		e.sinkScenario(i, sc, ep)
		if !e.s.Alive() {
			return
		}
	}
}

func (e *env) sinkScenario(n int, sc sinkScenario, ep *sinkEndpoint) {
	rng := e.rng
	r := e.r
	st := &roundState{key: fmt.Sprintf("sq%d", n), byName: map[string]*fence{}, objs: map[string]obj{}, lives: map[string]*fencex.Live{},
		hookExp: map[string][]string{}, nOther: 0, n: n, label: "sinks/" + sc.label}
	st.c = e.s.MustDial()
	defer st.c.Close()
	var err error
	st.sub, err = fencex.NewSub(e.s)
	if err != nil {
		panic(err)
	}
	defer st.sub.Close()
	e.drv.Ask("reg_reset")
	st.c.MustDo("FLUSHDB")

	lat0 := math.Round((10+50*rng.Float64())*1e4) / 1e4
	lon0 := math.Round((20+140*rng.Float64())*1e4) / 1e4
	if rng.Intn(2) == 0 {
		lat0 = -lat0
	}
	if rng.Intn(2) == 0 {
		lon0 = -lon0
	}
	st.size = 0.01
	if sc.circle {
		st.main = verifapi.FenceArea{Kind: "circle", Lat: lat0, Lon: lon0, Meters: 1000}
		st.size = 0.009
	} else {
		st.main = verifapi.FenceArea{Kind: "bounds", MinLat: lat0 - 0.01, MinLon: lon0 - 0.01, MaxLat: lat0 + 0.01, MaxLon: lon0 + 0.01}
	}
	mk := func(name, sink string) *fence {
		return &fence{name: name, sink: sink, key: st.key, cmd: sc.cmd, area: st.main, detect: sc.detect, where: sc.where, role: "main"}
	}
	chanF := mk(st.key+"-c", "chan")

	// ---- the plan: one object through every two-message transition, then random moves ----
	a := rng.Float64() * 2 * math.Pi
	in := func() (float64, float64) { return st.inside(rng) }
	out := func(angle float64) (float64, float64) { return st.outsideAt(rng, angle) }
	okSpeed := func() float64 { return float64(1 + rng.Intn(50)) }
	var plan []plannedWrite
	set := func(id string, la, lo, speed float64, label string) {
		plan = append(plan, plannedWrite{"set", id, la, lo, speed, label})
	}
	la, lo := out(a)
	set("t1", la, lo, okSpeed(), "first-outside")
	la, lo = in()
	set("t1", la, lo, okSpeed(), "OI")
	la, lo = in()
	set("t1", la, lo, okSpeed(), "II")
	plan = append(plan, plannedWrite{kind: "fset", id: "t1", speed: okSpeed(), label: "FSET-inside"})
	if sc.where != nil {
		plan = append(plan, plannedWrite{kind: "fset", id: "t1", speed: 75, label: "FSET-inside-filtered"})
		plan = append(plan, plannedWrite{kind: "fset", id: "t1", speed: okSpeed(), label: "FSET-inside"})
	}
	la, lo = out(a + 1)
	set("t1", la, lo, okSpeed(), "IO")
	la, lo = out(a + 1 + math.Pi)
	set("t1", la, lo, okSpeed(), "OO-cross")
	la, lo = in()
	set("t1", la, lo, okSpeed(), "OI")
	plan = append(plan, plannedWrite{kind: "del", id: "t1", label: "DEL-inside"})
	// random moves on two objects (a delete only of an object that is inside: there a hook and a live
	// connection agree, c05_del_gate_difference)
	pos := map[string]bool{} // id -> currently inside
	exists := map[string]bool{}
	for i := 0; i < sc.nRandom; i++ {
		id := []string{"t1", "u2"}[rng.Intn(2)]
		switch k := rng.Intn(10); {
		case k < 7 || !exists[id]:
			if rng.Intn(2) == 0 {
				la, lo = in()
				pos[id] = true
			} else {
				la, lo = out(rng.Float64() * 2 * math.Pi)
				pos[id] = false
			}
			set(id, la, lo, speedVal(rng), "rand-set")
			exists[id] = true
		case k < 9 || !pos[id]:
			plan = append(plan, plannedWrite{kind: "fset", id: id, speed: speedVal(rng), label: "rand-fset"})
		default:
			plan = append(plan, plannedWrite{kind: "del", id: id, label: "rand-del-inside"})
			exists[id], pos[id] = false, false
		}
	}
	// dry run: the writes as (fence, write) cases and the number of messages of the definition
	var writes []write
	{
		objs := map[string]obj{}
		for i := range plan {
			p := &plan[i]
			switch p.kind {
			case "set":
				o := obj{lat: p.lat, lon: p.lon, speed: p.speed}
				var old *obj
				if q, ok := objs[p.id]; ok {
					q2 := q
					old = &q2
				}
				objs[p.id] = o
				writes = append(writes, write{kind: "set", id: p.id, o: o, old: old, label: p.label})
			case "fset":
				o := objs[p.id]
				if o.speed == p.speed {
					p.speed++
				}
				o.speed = p.speed
				objs[p.id] = o
				writes = append(writes, write{kind: "fset", id: p.id, o: o, label: p.label})
			case "del":
				o := objs[p.id]
				delete(objs, p.id)
				writes = append(writes, write{kind: "del", id: p.id, o: o, label: p.label})
			}
		}
	}
	total := 0
	for _, w := range writes {
		total += len(toks(e.fm(abstract(chanF, w).req)))
	}

	// ---- the fences: channel, live connection, webhooks refusing request k once (k = 0 .. total), webhooks
	// with random patterns, and two more channels on the same area whose messages the sort interleaves ----
	add := func(f *fence) { st.fences = append(st.fences, f) }
	add(chanF)
	liveF := mk(st.key+"-l", "live")
	add(liveF)
	type hookSpec struct {
		f    *fence
		outs string // outcome of the i-th request ("" = always accepted)
		what string
	}
	var hooks []hookSpec
	for k := 0; k <= total; k++ {
		f := mk(fmt.Sprintf("%s-h%02d", st.key, k), "hook")
		outs, what := "", "accepts every request"
		if k > 0 {
			outs = strings.Repeat("1", k-1) + "0"
			what = fmt.Sprintf("refuses request #%d (%s) once, accepts all others", k, sc.failKind)
		}
		hooks = append(hooks, hookSpec{f, outs, what})
	}
	for k := 0; k < sc.nPattern; k++ {
		f := mk(fmt.Sprintf("%s-p%02d", st.key, k), "hook")
		b := make([]byte, total+3)
		zeros := 0
		for i := range b {
			b[i] = '1'
			if zeros < 3 && rng.Intn(3) == 0 {
				b[i] = '0'
				zeros++
			}
		}
		outs := strings.TrimRight(string(b), "1")
		hooks = append(hooks, hookSpec{f, outs, fmt.Sprintf("answers request i with %s where outcome string %q has 0 at i, accepts otherwise", sc.failKind, outs)})
	}
	for _, h := range hooks {
		p := "/" + h.f.name
		h.f.url = ep.url(p)
		ep.mu.Lock()
		ep.script[p] = h.outs
		ep.kind[p] = sc.failKind
		ep.mu.Unlock()
		add(h.f)
	}
	other := subsetsOfKinds()
	add(&fence{name: st.key + "-a", sink: "chan", key: st.key, cmd: sc.cmd, area: st.main, detect: other[1+rng.Intn(len(other)-1)], role: "other-near"})
	add(&fence{name: st.key + "-z", sink: "chan", key: st.key, cmd: sc.cmd, area: st.main, role: "other-near"})
	rng.Shuffle(len(st.fences), func(i, j int) { st.fences[i], st.fences[j] = st.fences[j], st.fences[i] })
	for _, f := range st.fences {
		e.install(st, f, false)
	}
	st.sub.Collect()

	// ---- the writes ----
	var chanSeq, liveSeq, chanShort, liveShort, simWrites, described []string
	for i, p := range plan {
		w := writes[i]
		var v srv.Value
		switch p.kind {
		case "set":
			v = st.c.MustDo("SET", st.key, p.id, "FIELD", "speed", ff(p.speed), "POINT", ff(p.lat), ff(p.lon))
			st.objs[p.id] = w.o
		case "fset":
			v = st.c.MustDo("FSET", st.key, p.id, "speed", ff(p.speed))
			st.objs[p.id] = w.o
		case "del":
			v = st.c.MustDo("DEL", st.key, p.id)
			delete(st.objs, p.id)
		}
		if v.IsErr() {
			panic(fmt.Sprintf("sink scenario: %s refused", describeWrite(st.key, w)))
		}
		described = append(described, describeWrite(st.key, w))
		msgs, err := st.sub.Collect()
		if err != nil {
			panic(err)
		}
		live := e.readLives(st, func(f *fence) int { return len(toks(e.fm(abstract(f, w).req))) })
		e.check(st, w, msgs, live) // the per-write checks of the rounds (documented rule, model, fields)
		for _, m := range msgs {
			if m.Channel == chanF.name {
				chanSeq = append(chanSeq, sinkTok(m))
				chanShort = append(chanShort, shortTok(m))
			}
		}
		for _, m := range live[liveF.name] {
			liveSeq = append(liveSeq, sinkTok(m))
			liveShort = append(liveShort, shortTok(m))
		}
		c := abstract(chanF, w)
		oldR := "-"
		if w.old != nil {
			oldR = rectOf(w.old)
		}
		// wkey/old rect/new rect/acc/cmd/obj/old/glob/spatial/nofields/cross/written
		simWrites = append(simWrites, strings.Join([]string{model.H(st.key), oldR, rectOf(&w.o), c.req[1], c.req[3], c.req[4], c.req[5], c.req[6], c.req[7], c.req[8], c.req[9], c.req[10]}, "/"))
	}

	// ---- the sinks ----
	input := func(h hookSpec) string {
		return fmt.Sprintf("fence %s; endpoint %s; writes: %s", strings.Join(chanF.args(), " "), h.what, strings.Join(described, "; "))
	}
	if strings.Join(chanSeq, "\n") != strings.Join(liveSeq, "\n") {
		r.Fail(hx.Failure{Kind: "oracle", Signature: "fence-sinks-differ-live",
			What: fmt.Sprintf("a live connection received %v, the channel with the same fence definition %v. fence %s; writes: %s", liveShort, chanShort, strings.Join(chanF.args(), " "), strings.Join(described, "; ")),
			Case: map[string]interface{}{"scenario": st.label, "fence": chanF.describe(), "writes": described}, Impl: map[string]interface{}{"live": liveSeq, "channel": chanSeq}})
	}
	deadline := time.Now().Add(5 * time.Second) // a refused message is retried after half a second
	for _, h := range hooks {
		p := "/" + h.f.name
		ep.wait(p, len(chanSeq), time.Until(deadline))
	}
	time.Sleep(150 * time.Millisecond) // surplus deliveries
	for _, h := range hooks {
		p := "/" + h.f.name
		var accepted, acceptedShort, attempts, refused []string
		for _, hit := range ep.hits(p) {
			m, _ := fencex.Decode(hit.body)
			attempts = append(attempts, msgToken(m))
			if hit.ok {
				accepted = append(accepted, sinkTok(m))
				acceptedShort = append(acceptedShort, shortTok(m))
			} else {
				refused = append(refused, shortTok(m))
			}
			if m.Hook != h.f.name {
				r.Fail(hx.Failure{Kind: "oracle", Signature: "fence-fields", What: "webhook message names another hook", Case: m.Raw})
			}
		}
		cs := map[string]interface{}{"scenario": st.label, "fence": h.f.describe(), "endpoint": h.what, "outcomes": h.outs, "writes": described}
		nfail := strings.Count(h.outs, "0")
		r.Count(fmt.Sprintf("sinks|%s|%s|%s|failures=%d|first-at=%d", sc.cmd, chanF.dbits(), sc.failKind, nfail, strings.Index(h.outs, "0")+1), len(accepted) > 0)
		r.Dist("sink:hook-failing-endpoint")
		r.TracesImpl++
		// (a) direct oracle: the endpoint finally accepted exactly what the channel published
		if strings.Join(accepted, "\n") != strings.Join(chanSeq, "\n") {
			r.Fail(hx.Failure{Kind: "oracle", Signature: "fence-sinks-differ",
				What: fmt.Sprintf("a webhook whose endpoint %s accepted %v; the channel and the live connection with the same fence definition (%s) got %v; refused bodies %v; writes: %s",
					h.what, acceptedShort, strings.Join(chanF.args(), " "), chanShort, refused, strings.Join(described, "; ")),
				Case: cs, Impl: map[string]interface{}{"webhook_accepted": accepted, "channel": chanSeq, "refused": refused}})
		}
		// (b) correspondence: queue_hooks + hook queue + proc (Model/FenceQueue.v) under the same outcomes
		outs := h.outs
		if outs == "" {
			outs = "-"
		}
		ws := "-"
		if len(simWrites) > 0 {
			ws = strings.Join(simWrites, ";")
		}
		rep := e.drv.Ask("sinksim", model.H(h.f.name), model.H(chanF.name), model.H(st.key), chanF.dbits(), outs, ws)
		kv := map[string]string{}
		for _, f := range strings.Fields(rep) {
			if i := strings.IndexByte(f, '='); i > 0 {
				kv[f[:i]] = strings.TrimPrefix(f[i+1:], "-")
			}
		}
		var accTok []string
		for _, hit := range ep.hits(p) {
			if hit.ok {
				m, _ := fencex.Decode(hit.body)
				accTok = append(accTok, msgToken(m))
			}
		}
		if _, ok := kv["accepted"]; !ok || kv["accepted"] != strings.Join(accTok, ",") || kv["attempts"] != strings.Join(attempts, ",") {
			r.Fail(hx.Failure{Kind: "correspondence", Signature: "fence-webhook-queue-model",
				What: "accepted bodies / attempts at a webhook endpoint differ from Model.FenceQueue (queue_hooks -> hook queue -> proc) under the same send outcomes. " + input(h),
				Case: cs, Impl: map[string]interface{}{"accepted": strings.Join(accTok, ","), "attempts": strings.Join(attempts, ",")}, Model: rep})
		}
		// the model's own statement: accepted = channel = live (c05_same_for_all_sinks_queued)
		if kv["accepted"] != kv["channel"] || kv["channel"] != kv["live"] || kv["queued"] != kv["channel"] {
			r.Fail(hx.Failure{Kind: "correspondence", Signature: "fence-webhook-queue-model", What: "Model.FenceQueue: the three sinks differ in the model itself", Case: cs, Model: rep})
		}
	}
	for name, l := range st.lives {
		if m, err := l.Next(100 * time.Millisecond); err == nil {
			r.Fail(hx.Failure{Kind: "correspondence", Signature: "fence-live", What: "live fence delivered a message the model does not predict",
				Case: map[string]interface{}{"round": st.label, "fence": st.byName[name].describe()}, Impl: m.Raw})
		}
		l.Close()
	}
	for _, x := range st.sub.Errs {
		r.Fail(hx.Failure{Kind: "oracle", Signature: "fence-fields", What: x, Case: st.label})
	}
	st.c.MustDo("PDELHOOK", st.key+"-*")
	st.c.MustDo("PDELCHAN", st.key+"-*")
	st.c.MustDo("DROP", st.key)
}
